// vh-consts regenerates coq/gen/Consts.v from /repo's current source:
// named constants are read from the compiled packages (so go/types has
// evaluated them), anonymous literals are located by AST pattern in the
// function they are anchored in; a pattern that no longer matches is a loud
// translation failure (exit 3).
package main

import (
	"fmt"
	"go/ast"
	"go/parser"
	"go/token"
	"os"
	"path/filepath"
	"strconv"
	"strings"

	"github.com/bbockelm/cedar/message"
	"github.com/bbockelm/cedar/stream"
)

func repo() string {
	if r := os.Getenv("VERIF_REPO"); r != "" {
		return r
	}
	return "/repo"
}

// litIn finds, inside function fn of file, the nth (0-based) binary expression
// `<x> op <INT literal>` (or literal on the left) where the other operand prints as x.
func litIn(file, fn, x string, op token.Token, nth int) (uint64, error) {
	fset := token.NewFileSet()
	f, err := parser.ParseFile(fset, filepath.Join(repo(), file), nil, 0)
	if err != nil {
		return 0, err
	}
	var found []uint64
	inLargerSum := map[*ast.BinaryExpr]bool{}
	for _, d := range f.Decls {
		fd, ok := d.(*ast.FuncDecl)
		if !ok || fd.Name.Name != fn || fd.Body == nil {
			continue
		}
		env := constEnv(f, fd)
		ast.Inspect(fd.Body, func(n ast.Node) bool {
			be, ok := n.(*ast.BinaryExpr)
			if !ok || be.Op != op {
				return true
			}
			try := func(a, b ast.Expr) {
				if exprString(a) != x {
					return
				}
				// the other operand: an integer literal or any constant expression over literals and
				// constants declared in this file / function (a named constant for a literal is a
				// harmless rewrite, not a reason to lose the anchor)
				if v, ok := evalConst(b, env); ok {
					found = append(found, v)
				}
			}
			// a sum `x + c1 + c2` (left-assoc) whose other operands are all constant: x + (c1+c2)
			if op == token.ADD {
				if terms := flattenSum(be); len(terms) > 2 && !inLargerSum[be] {
					xi, sum, ok := -1, uint64(0), true
					for i, t := range terms {
						if exprString(t) == x && xi < 0 {
							xi = i
							continue
						}
						v, okc := evalConst(t, env)
						if !okc {
							ok = false
							break
						}
						sum += v
					}
					if ok && xi >= 0 {
						found = append(found, sum)
						markSum(be, inLargerSum)
						return true
					}
				}
				if inLargerSum[be] {
					return true
				}
			}
			try(be.X, be.Y)
			try(be.Y, be.X)
			return true
		})
	}
	if nth >= len(found) {
		return 0, fmt.Errorf("pattern `%s %s <int>` #%d not found in %s:%s", x, op, nth, file, fn)
	}
	return found[nth], nil
}

// constIn finds the local declaration `const <name> = <INT literal>` inside function fn of file.
func constIn(file, fn, name string) (uint64, error) {
	fset := token.NewFileSet()
	f, err := parser.ParseFile(fset, filepath.Join(repo(), file), nil, 0)
	if err != nil {
		return 0, err
	}
	var found []uint64
	for _, d := range f.Decls {
		fd, ok := d.(*ast.FuncDecl)
		if !ok || fd.Name.Name != fn || fd.Body == nil {
			continue
		}
		ast.Inspect(fd.Body, func(n ast.Node) bool {
			vs, ok := n.(*ast.ValueSpec)
			if !ok {
				return true
			}
			for i, id := range vs.Names {
				if id.Name != name || i >= len(vs.Values) {
					continue
				}
				if v, ok := evalConst(vs.Values[i], constEnv(f, fd)); ok {
					found = append(found, v)
				}
			}
			return true
		})
	}
	if len(found) != 1 {
		return 0, fmt.Errorf("local constant %s not found exactly once in %s:%s", name, file, fn)
	}
	return found[0], nil
}

// constEnv collects the integer constants visible in fd: the file's package-level `const` declarations and
// the function's local ones (explicit values only; iota groups are not needed by any anchor).
func constEnv(f *ast.File, fd *ast.FuncDecl) map[string]ast.Expr {
	env := map[string]ast.Expr{}
	add := func(n ast.Node) {
		ast.Inspect(n, func(n ast.Node) bool {
			gd, ok := n.(*ast.GenDecl)
			if !ok || gd.Tok != token.CONST {
				return true
			}
			for _, sp := range gd.Specs {
				if vs, ok := sp.(*ast.ValueSpec); ok {
					for i, id := range vs.Names {
						if i < len(vs.Values) {
							env[id.Name] = vs.Values[i]
						}
					}
				}
			}
			return true
		})
	}
	for _, d := range f.Decls {
		if gd, ok := d.(*ast.GenDecl); ok {
			add(gd)
		}
	}
	if fd != nil && fd.Body != nil {
		add(fd.Body)
	}
	return env
}

// sizes of standard-library constants a refactoring may spell by name
var stdConsts = map[string]uint64{"sha256.Size": 32, "aes.BlockSize": 16, "sha256.BlockSize": 64}

// evalConst evaluates an integer constant expression over literals, the constants of env, a few
// standard-library sizes, + - * / << >> and integer conversions. ok=false when e is not such an expression.
func evalConst(e ast.Expr, env map[string]ast.Expr) (uint64, bool) {
	return evalConstD(e, env, 0)
}

func evalConstD(e ast.Expr, env map[string]ast.Expr, depth int) (uint64, bool) {
	if depth > 20 {
		return 0, false
	}
	switch v := e.(type) {
	case *ast.BasicLit:
		if v.Kind != token.INT {
			return 0, false
		}
		n, err := strconv.ParseUint(strings.ReplaceAll(v.Value, "_", ""), 0, 64)
		return n, err == nil
	case *ast.Ident:
		if d, ok := env[v.Name]; ok {
			return evalConstD(d, env, depth+1)
		}
		return 0, false
	case *ast.SelectorExpr:
		n, ok := stdConsts[exprString(v)]
		return n, ok
	case *ast.ParenExpr:
		return evalConstD(v.X, env, depth+1)
	case *ast.CallExpr: // integer conversion int(x), uint32(x), ...
		if id, ok := v.Fun.(*ast.Ident); ok && len(v.Args) == 1 {
			switch id.Name {
			case "int", "int32", "int64", "uint", "uint8", "uint16", "uint32", "uint64", "byte":
				return evalConstD(v.Args[0], env, depth+1)
			}
		}
		return 0, false
	case *ast.BinaryExpr:
		a, ok1 := evalConstD(v.X, env, depth+1)
		b, ok2 := evalConstD(v.Y, env, depth+1)
		if !ok1 || !ok2 {
			return 0, false
		}
		switch v.Op {
		case token.ADD:
			return a + b, true
		case token.SUB:
			return a - b, a >= b
		case token.MUL:
			return a * b, true
		case token.QUO:
			if b == 0 {
				return 0, false
			}
			return a / b, true
		case token.SHL:
			return a << b, b < 64
		case token.SHR:
			return a >> b, b < 64
		}
	}
	return 0, false
}

// flattenSum returns the operands of a left- or right-nested chain of `+`.
func flattenSum(e ast.Expr) []ast.Expr {
	if p, ok := e.(*ast.ParenExpr); ok {
		return flattenSum(p.X)
	}
	if be, ok := e.(*ast.BinaryExpr); ok && be.Op == token.ADD {
		return append(flattenSum(be.X), flattenSum(be.Y)...)
	}
	return []ast.Expr{e}
}

// markSum marks the inner `+` nodes of a chain that has been handled as a whole.
func markSum(e ast.Expr, seen map[*ast.BinaryExpr]bool) {
	if p, ok := e.(*ast.ParenExpr); ok {
		markSum(p.X, seen)
		return
	}
	if be, ok := e.(*ast.BinaryExpr); ok && be.Op == token.ADD {
		seen[be] = true
		markSum(be.X, seen)
		markSum(be.Y, seen)
	}
}

func exprString(e ast.Expr) string {
	switch v := e.(type) {
	case *ast.Ident:
		return v.Name
	case *ast.SelectorExpr:
		return exprString(v.X) + "." + v.Sel.Name
	case *ast.CallExpr:
		var args []string
		for _, a := range v.Args {
			args = append(args, exprString(a))
		}
		return exprString(v.Fun) + "(" + strings.Join(args, ",") + ")"
	case *ast.ParenExpr:
		return "(" + exprString(v.X) + ")"
	}
	return "?"
}

func main() {
	var b strings.Builder
	fail := false
	w := func(name string, v uint64) { fmt.Fprintf(&b, "Definition %s : N := %d.\n", name, v) }
	lit := func(name, file, fn, x string, op token.Token, nth int) {
		v, err := litIn(file, fn, x, op, nth)
		if err != nil {
			fmt.Fprintln(os.Stderr, "vh-consts:", err)
			fail = true
			return
		}
		w(name, v)
	}
	b.WriteString("(* GENERATED by harness/cmd/vh-consts from /repo's current source. Do not edit. *)\n")
	b.WriteString("From Coq Require Import NArith.\nLocal Open Scope N_scope.\n")
	w("NormalHeaderSize", stream.NormalHeaderSize)
	w("MaxMessageSize", stream.MaxMessageSize)
	w("DefaultFrameThreshold", stream.DefaultFrameThreshold)
	w("EndFlagPartial", stream.EndFlagPartial)
	w("EndFlagComplete", stream.EndFlagComplete)
	w("CsMagic0", uint64(stream.VerifCryptoStateMagic[0]))
	w("CsMagic1", uint64(stream.VerifCryptoStateMagic[1]))
	w("CsMagic2", uint64(stream.VerifCryptoStateMagic[2]))
	w("CsMagic3", uint64(stream.VerifCryptoStateMagic[3]))
	w("CsVersion", uint64(stream.VerifCryptoStateVersion))
	w("CsFixedLen", stream.VerifCryptoStateFixedLen)
	w("CsFlagEncrypted", stream.VerifCsFlagEncrypted)
	w("CsFlagAuthenticated", stream.VerifCsFlagAuthenticated)
	w("CsFlagFinSendAAD", stream.VerifCsFlagFinSendAAD)
	w("CsFlagFinRecvAAD", stream.VerifCsFlagFinRecvAAD)
	w("CsFlagSendDgWritten", stream.VerifCsFlagSendDgWritten)
	w("CsFlagRecvDgWritten", stream.VerifCsFlagRecvDgWritten)
	w("FracConst", message.FracConst)
	w("BinNullChar", uint64(byte(message.BinNullChar)))
	w("IntSize", message.IntSize)
	w("MaxFrameSize", message.MaxFrameSize)
	w("TargetFrameSize", message.TargetFrameSize)
	// anonymous literals, anchored by AST pattern
	lit("FlagMaxRecvWE", "stream/stream.go", "ReceiveFrameWithEnd", "endFlag", token.GTR, 0)
	lit("FlagMaxRecv", "stream/stream.go", "ReceiveFrame", "endFlag", token.GTR, 0)
	lit("GcmTagSize", "stream/stream.go", "calculateEncryptedSize", "plainSize", token.ADD, 0)
	lit("CounterGuard", "stream/stream.go", "encryptDataWithAAD", "s.encryptCounter", token.EQL, 0)
	lit("KeyLen", "stream/stream.go", "SetSymmetricKey", "len(key)", token.NEQ, 0)
	lit("MinTagLen", "stream/stream.go", "decryptDataWithAAD", "len(encryptedData)", token.LSS, 0)
	lit("WireSlack", "stream/stream.go", "maxWireLength", "MaxMessageSize", token.ADD, 0)
	lit("IvLenRecv", "stream/stream.go", "decryptDataWithAAD", "len(data)", token.LSS, 0)
	lit("FileEofMarker", "stream/stream.go", "GetFile", "eofMarker", token.NEQ, 0)
	lit("FileSizeLen", "stream/stream.go", "GetFile", "len(sizeData)", token.NEQ, 0)
	lit("FileMarkerLen", "stream/stream.go", "GetFile", "len(eofData)", token.NEQ, 0)
	if v, err := constIn("stream/stream.go", "PutFile", "bufSize"); err != nil {
		fmt.Fprintln(os.Stderr, "vh-consts:", err)
		fail = true
	} else {
		w("FileChunk", v)
	}
	if fail {
		os.Exit(3)
	}
	out := b.String()
	if len(os.Args) > 1 {
		old, _ := os.ReadFile(os.Args[1])
		if string(old) != out {
			if err := os.WriteFile(os.Args[1], []byte(out), 0o644); err != nil {
				fmt.Fprintln(os.Stderr, err)
				os.Exit(3)
			}
		}
		return
	}
	fmt.Print(out)
}
