// vh-c12: correspondence + oracle for C12 (protected frames follow the AES-GCM wire format; no nonce reuse).
package main

import (
	"bytes"
	"context"
	"crypto/rand"
	"encoding/base64"
	"encoding/hex"
	"encoding/json"
	"fmt"

	"verifharness/core"
	ss "verifharness/streamsim"

	"github.com/bbockelm/cedar/stream"
)

var key = bytes.Repeat([]byte{0x5a}, 32)
var key2 = bytes.Repeat([]byte{0xc3}, 32)

type desc struct {
	Case ss.Case `json:"case"`
	Note string  `json:"note"`
}

// oracle over an executed case: every frame the stream claimed to protect was opened by the
// independent reference codec; IV only on a direction's first frame; no (key, nonce) repeats;
// a send at counter 2^32-1 is refused.
func check(d *desc, obs *ss.Obs) error {
	if obs.SetupErr != nil {
		return fmt.Errorf("setup: %v", obs.SetupErr)
	}
	seen := map[string]string{}
	for pi, po := range obs.Phases {
		if po == nil {
			continue
		}
		st := d.Case.Steps[pi]
		dir := "AB"
		if !st.ASends {
			dir = "BA"
		}
		for fi, f := range po.Frames {
			if !f.Enc {
				continue
			}
			if f.Opened == nil {
				return fmt.Errorf("phase %d frame %d (%s): the stream was encrypting but the reference AES-GCM codec cannot open the frame (%v)", pi, fi, dir, f.OpenErr)
			}
			k := dir + hex.EncodeToString(f.Opened.Nonce)
			if prev, dup := seen[k]; dup {
				return fmt.Errorf("phase %d frame %d (%s): nonce %x reused (first used at %s)", pi, fi, dir, f.Opened.Nonce, prev)
			}
			seen[k] = fmt.Sprintf("phase %d frame %d", pi, fi)
		}
	}
	return nil
}

func run(c *core.Ctx, d *desc, w int) error {
	obs, term := ss.Exec(&d.Case)
	if c != nil && obs.SetupErr == nil {
		c.AddCaseW(term, d, w)
	}
	return check(d, obs)
}

func phase(aSends bool, api string, msgs ...ss.Msg) ss.Step {
	st := ss.Step{Kind: "phase", ASends: aSends}
	for _, m := range msgs {
		st.SOps = append(st.SOps, m.SOps()...)
		st.ROps = append(st.ROps, ss.ROpsFor(api, len(m.Bytes()), 5+len(m.Bytes())/3)...)
	}
	return st
}
func direct(parts ...int) ss.Msg {
	m := ss.Msg{Kind: "direct"}
	for i, p := range parts {
		m.Chunks = append(m.Chunks, ss.Pay(i*13+p, p))
	}
	return m
}
func secret(n int) ss.Msg {
	return ss.Msg{Kind: "secret", Chunks: []ss.Data{ss.Lit(bytes.Repeat([]byte{'s'}, n))}}
}

// refBuilt: frames built by the reference codec must be accepted by the real receiver.
func refBuilt(c *core.Ctx, pre [][]byte, preBack [][]byte, msgs [][]byte, flags []byte, ivLead ...byte) error {
	ca, cb, ab, ba := ss.Pair()
	_ = ca
	b := stream.NewStream(cb)
	dAB, dBA := ss.NewDir(key), ss.NewDir(key)
	bg := context.Background()
	for _, p := range pre { // cleartext A->B, written by the harness as raw frames
		f := ss.RawFrame{Flag: 1, Len: uint32(len(p)), Body: p}
		ab.Write(f.Bytes())
		ss.NoteClear(dAB, dBA, f)
		if _, err := b.ReceiveCompleteMessage(bg); err != nil {
			return fmt.Errorf("cleartext prefix rejected: %v", err)
		}
	}
	for _, p := range preBack {
		if err := b.SendMessage(bg, p); err != nil {
			return err
		}
		fr, _ := ss.ParseFrames(ba.Pending())
		ba.Replace(nil)
		for _, f := range fr {
			ss.NoteClear(dBA, dAB, f)
		}
	}
	if err := b.SetSymmetricKey(key); err != nil {
		return err
	}
	iv := make([]byte, 16)
	rand.Read(iv)
	copy(iv, ivLead) // optionally force the leading counter word (wrap-around of base+counter mod 2^32 is part of the format)
	i := 0
	for mi, m := range msgs {
		fl := flags[mi]
		f, err := dAB.Seal(fl, m, iv)
		if err != nil {
			return err
		}
		ab.Write(f.Bytes())
		i++
	}
	// read them back as messages: frames with flag 0 continue a message
	var want [][]byte
	var cur []byte
	for mi, m := range msgs {
		cur = append(cur, m...)
		if flags[mi] != 0 {
			want = append(want, cur)
			cur = nil
		}
	}
	for wi, wmsg := range want {
		got, err := b.ReceiveCompleteMessage(bg)
		if err != nil {
			return fmt.Errorf("real receiver rejected reference-built message %d (%d cleartext prefix msgs fwd, %d back): %v", wi, len(pre), len(preBack), err)
		}
		if !bytes.Equal(got, wmsg) {
			return fmt.Errorf("real receiver returned different bytes for reference-built message %d", wi)
		}
	}
	// and the reply direction: real B sends, reference opens
	if err := b.SendMessage(bg, []byte("reply")); err != nil {
		return err
	}
	fr, _ := ss.ParseFrames(ba.Pending())
	for _, f := range fr {
		o, err := dBA.Open(f)
		if err != nil {
			return fmt.Errorf("reference codec cannot open the real sender's reply: %v", err)
		}
		if !bytes.Equal(o.Plain, []byte("reply")) {
			return fmt.Errorf("reply plaintext differs")
		}
	}
	return nil
}

func gen(c *core.Ctx) error {
	c.Rule("send histories on real keyed Streams (0..2 cleartext messages per direction before keying incl. none, message sizes incl. empty, interleaved directions, secrets with encryption toggled off/on, counters started near 2^32 through imported state): every protected frame is opened by an independent reference AES-GCM codec (nonce = base IV with leading 32-bit word + counter, IV on first frame only, AAD = [digests] header) and compared with the Coq model's predicted IV/nonce/AAD/plaintext; reference-built frames are fed to the real receiver. non-trivial = case with at least one protected frame; distinct by description")
	c.Assume("freshness of the random IV is only checked as pairwise distinctness over the run")
	apis := []string{"complete", "msgall", "sre"}
	pres := [][]ss.Data{nil, {ss.Lit([]byte("x"))}, {ss.Lit([]byte("abc")), ss.Lit(nil)}, {ss.Lit(nil)}, {ss.Lit(nil), ss.Lit(nil)}}
	k := 0
	ivs := map[string]bool{}
	for _, pa := range pres {
		for _, pb := range pres {
			for variant := 0; variant < 8; variant++ {
				k++
				su := ss.Setup{Kind: "keyed", Key: key, PreAB: pa, PreBA: pb, ReadMax: []int{0, 2, 0, 11}[len(pa)%4], Ctx: len(pb)%2 == 1}
				var steps []ss.Step
				api := apis[k%3]
				switch variant {
				case 0: // simple both directions, empty message included
					steps = []ss.Step{phase(true, api, direct(5), direct(0)), phase(false, api, direct(3, 4)), phase(true, api, direct(1))}
				case 1: // B speaks first
					steps = []ss.Step{phase(false, api, direct(9)), phase(true, api, direct(2, 2, 2)), phase(false, api, direct(0)), phase(true, api, direct(7))}
				case 2: // secrets while encryption is switched off, then on again
					steps = []ss.Step{phase(true, api, direct(4)), phase(false, api, direct(4)),
						{Kind: "crypto", WhoA: true, On: false}, {Kind: "crypto", WhoA: false, On: false},
						phase(true, "complete", direct(6))}
					// secret from A while both are in keyed-not-encrypting state: receiver must toggle too -> use GetSecret? not in rops; send secret then receiver re-enables crypto for that frame
					steps = append(steps, ss.Step{Kind: "crypto", WhoA: false, On: true},
						ss.Step{Kind: "phase", ASends: true, SOps: secret(5).SOps(), ROps: []ss.ROp{{Op: "complete"}}},
						ss.Step{Kind: "crypto", WhoA: true, On: true},
						phase(true, api, direct(3)), phase(false, api, direct(8)))
				case 3: // buffered multi-frame
					steps = []ss.Step{phase(true, api, ss.Msg{Kind: "buffered", Chunks: []ss.Data{ss.Pay(1, 3000), ss.Pay(2, 3000), ss.Pay(3, 10)}}), phase(false, api, ss.Msg{Kind: "buffered", Chunks: []ss.Data{ss.Pay(9, 5000)}})}
				case 4: // many small frames one direction
					var ms []ss.Msg
					for i := 0; i < 12; i++ {
						ms = append(ms, direct(i))
					}
					steps = []ss.Step{phase(true, api, ms...), phase(false, api, direct(1))}
				case 6: // an oversize send is refused (before and after the first protected frame) and must cost nothing
					if c.Quick() && (len(pa)+2*len(pb))%2 == 1 {
						continue
					}
					big := ss.Step{Kind: "phase", ASends: true, SOps: direct(1<<20 + 1 + k%7).SOps()}
					bigB := ss.Step{Kind: "phase", ASends: false, SOps: direct(1<<20 + 17).SOps()}
					steps = []ss.Step{big, phase(true, api, direct(4)), phase(false, api, direct(2)), bigB, big, phase(false, api, direct(3)), phase(true, api, direct(2, 1))}
				case 7: // the key is installed a second time (same key, or another one): counters restart under NEW base IVs
					rk := ss.Step{Kind: "rekey"}
					if k%3 == 0 {
						rk.Key = key2
					}
					steps = []ss.Step{phase(true, api, direct(5)), phase(false, api, direct(3), direct(1)), rk,
						phase(true, api, direct(6), direct(0)), phase(false, api, direct(2)), {Kind: "rekey"}, phase(false, api, direct(2)), phase(true, api, direct(9))}
				case 5: // secret on an encrypting stream (no-op toggle)
					steps = []ss.Step{{Kind: "phase", ASends: true, SOps: secret(3).SOps(), ROps: []ss.ROp{{Op: "complete"}}}, phase(false, api, direct(2)), phase(true, api, direct(2))}
				}
				d := &desc{Case: ss.Case{Setup: su, Steps: steps}, Note: fmt.Sprintf("variant %d", variant)}
				obs, term := ss.Exec(&d.Case)
				c.OracleCheck()
				if obs.SetupErr == nil {
					c.AddCase(term, d)
					if err := check(d, obs); err != nil {
						c.OracleFail("format", err.Error(), d)
					}
					for _, iv := range append([][]byte{obs.IVA, obs.IVB}, obs.MoreIVs...) {
						// two base IVs that agree beyond the leading counter word give overlapping nonce
						// sequences under the same key, whatever their leading words are
						if len(iv) == 16 && ivs[string(iv[4:])] {
							c.OracleFail("iv-repeat", fmt.Sprintf("two key installations in one run drew base IVs with the same last 12 bytes (%x): their nonce sequences overlap", iv[4:]), d)
						}
						if len(iv) == 16 {
							ivs[string(iv[4:])] = true
						}
					}
				} else {
					c.OracleFail("setup", obs.SetupErr.Error(), d)
				}
				js, _ := json.Marshal(d)
				c.Nontrivial(string(js))
				c.Count(fmt.Sprintf("variant-%d", variant))
				if k <= 2 {
					c.Sample(d)
				}
			}
		}
	}
	// counters started near the limit through imported state
	for _, start := range []uint32{0xfffffffb, 0xfffffffd, 0xfffffffe, 0xffffffff} {
		for _, bdir := range []bool{true, false} {
			su := ss.Setup{Kind: "blobs", Key: key, CtrAB: start, FinAB: true, CtrBA: 1, FinBA: true}
			if !bdir {
				su = ss.Setup{Kind: "blobs", Key: key, CtrBA: start, FinBA: true, CtrAB: 2, FinAB: true}
			}
			var steps []ss.Step
			for i := 0; i < 8; i++ {
				st := phase(bdir, "complete", direct(3+i))
				st.SoftFail = true // after a refused send the reader finds nothing: the case goes on
				steps = append(steps, st)
			}
			d := &desc{Case: ss.Case{Setup: su, Steps: steps}, Note: fmt.Sprintf("counter from %#x", start)}
			obs, term := ss.Exec(&d.Case)
			c.OracleCheck()
			if obs.SetupErr != nil {
				c.OracleFail("setup", obs.SetupErr.Error(), d)
				continue
			}
			c.AddCase(term, d)
			if err := check(d, obs); err != nil {
				c.OracleFail("format", err.Error(), d)
			}
			// the send that would use counter 2^32-1 must be refused, and nothing after it may be sent
			sent := 0
			refused := false
			for _, po := range obs.Phases {
				if po == nil {
					continue
				}
				for _, e := range po.SErr {
					if e {
						refused = true
					} else if refused {
						c.OracleFail("counter-wrap", "a send succeeded after the counter guard had refused one", d)
					} else {
						sent++
					}
				}
			}
			maxOK := int(uint32(0xffffffff) - start)
			if sent > maxOK {
				c.OracleFail("counter-wrap", fmt.Sprintf("stream sent %d frames starting at counter %#x: it used counter 2^32-1 or wrapped", sent, start), d)
			}
			c.Count("counter-near-limit")
			js, _ := json.Marshal(d)
			c.Nontrivial(string(js))
		}
	}
	writeFaults(c)
	randomHistories(c)
	// reference-built frames into the real receiver
	for pa := 0; pa < 3; pa++ {
		for pb := 0; pb < 3; pb++ {
			var pre, back [][]byte
			for i := 0; i < pa; i++ {
				pre = append(pre, []byte(fmt.Sprintf("fwd%d", i)))
			}
			for i := 0; i < pb; i++ {
				back = append(back, []byte(fmt.Sprintf("back-%d", i)))
			}
			msgs := [][]byte{[]byte("first"), {}, core.Payload(3, 5000), []byte("p1"), []byte("p2-last")}
			flags := []byte{1, 1, 1, 0, 1}
			c.OracleCheck()
			c.Evaluated(1)
			c.Count("reference-built-into-real-receiver")
			if err := refBuilt(c, pre, back, msgs, flags); err != nil {
				c.OracleFail("format", err.Error(), map[string]interface{}{"ref_built": true, "pre": pa, "back": pb})
			}
			// base IV whose leading word is about to wrap: nonce word = (base + counter) mod 2^32
			// ... and special base IVs a peer may legitimately draw: all zero, all ones, zero leading word
			for _, lead := range [][]byte{{0xff, 0xff, 0xff, 0xff}, {0xff, 0xff, 0xff, 0xfd}, make([]byte, 16), bytes.Repeat([]byte{0xff}, 16), {0, 0, 0, 0}} {
				c.OracleCheck()
				c.Evaluated(1)
				c.Count("reference-built-iv-word-wraps")
				if err := refBuilt(c, pre, back, msgs, flags, lead...); err != nil {
					c.OracleFail("format", "base IV leading word "+hex.EncodeToString(lead)+": "+err.Error(), map[string]interface{}{"ref_built": true, "pre": pa, "back": pb, "lead": lead})
				}
			}
		}
	}
	return nil
}

func replay(raw json.RawMessage) error {
	var probe map[string]interface{}
	json.Unmarshal(raw, &probe)
	if probe["ref_built"] == true {
		var pre, back [][]byte
		for i := 0; i < int(probe["pre"].(float64)); i++ {
			pre = append(pre, []byte(fmt.Sprintf("fwd%d", i)))
		}
		for i := 0; i < int(probe["back"].(float64)); i++ {
			back = append(back, []byte(fmt.Sprintf("back-%d", i)))
		}
		var lead []byte
		if l, ok := probe["lead"].([]interface{}); ok {
			for _, x := range l {
				lead = append(lead, byte(x.(float64)))
			}
		} else if ls, ok := probe["lead"].(string); ok { // []byte marshals as base64
			lead, _ = base64.StdEncoding.DecodeString(ls)
		}
		return refBuilt(nil, pre, back, [][]byte{[]byte("first"), {}, core.Payload(3, 5000), []byte("p1"), []byte("p2-last")}, []byte{1, 1, 1, 0, 1}, lead...)
	}
	var d desc
	if err := json.Unmarshal(raw, &d); err != nil {
		return err
	}
	return run(nil, &d, 1)
}

func main() { core.Main("C12", gen, replay) }

// writeFaults: a Write that reports an error after its bytes left must not make the stream reuse
// a nonce: every frame that reached the wire, the failed one included, must open under the
// reference codec at its own counter, with pairwise distinct nonces.
func writeFaults(c *core.Ctx) {
	bg := context.Background()
	for failAt := 1; failAt <= 4; failAt++ {
		for _, pre := range []int{0, 1} {
			ca, cb, ab, _ := ss.Pair()
			a, b := stream.NewStream(ca), stream.NewStream(cb)
			d := ss.NewDir(key)
			other := ss.NewDir(key)
			for i := 0; i < pre; i++ {
				a.SendMessage(bg, []byte("clear"))
				fr, _ := ss.ParseFrames(ab.Pending())
				for _, f := range fr {
					ss.NoteClear(d, other, f)
				}
				b.ReceiveCompleteMessage(bg)
			}
			a.SetSymmetricKey(key)
			b.SetSymmetricKey(key)
			ca.FailWriteAt = pre + failAt
			sentErr := 0
			for i := 0; i < 6; i++ {
				if err := a.SendMessage(bg, []byte(fmt.Sprintf("message %d", i))); err != nil {
					sentErr++
				}
			}
			c.OracleCheck()
			c.Evaluated(1)
			c.Count("write-fault")
			fr, _ := ss.ParseFrames(ab.Pending())
			seen := map[string]bool{}
			desc := map[string]interface{}{"write_fault_at": failAt, "clear_prefix": pre}
			if sentErr != 1 {
				c.OracleFail("write-fault-harness", fmt.Sprintf("expected exactly one reported write error, got %d", sentErr), desc)
			}
			for i, f := range fr {
				o, err := d.Open(f)
				if err != nil {
					c.OracleFail("format", fmt.Sprintf("after a write error on frame %d, frame %d on the wire does not open at its own counter under the reference codec (%v): counter/nonce discipline broken", failAt-1, i, err), desc)
					break
				}
				k := hex.EncodeToString(o.Nonce)
				if seen[k] {
					c.OracleFail("format", fmt.Sprintf("nonce reused after a write error (frame %d)", i), desc)
				}
				seen[k] = true
			}
		}
	}
}

// randomHistories: random interleavings of directions, message kinds (direct, buffered, secret),
// sizes, and crypto mode toggles (applied to both ends), after random cleartext prefixes.
func randomHistories(c *core.Ctx) {
	n := 25
	if !c.Quick() {
		n = 600
	}
	apis := []string{"complete", "msgall", "sre"}
	for r := 0; r < n; r++ {
		var pa, pb []ss.Data
		for i := 0; i < c.Rng.Intn(3); i++ {
			pa = append(pa, ss.Pay(c.Rng.Intn(200), c.Rng.Intn(3)*c.Rng.Intn(20)))
		}
		for i := 0; i < c.Rng.Intn(3); i++ {
			pb = append(pb, ss.Pay(c.Rng.Intn(200), c.Rng.Intn(3)*c.Rng.Intn(20)))
		}
		su := ss.Setup{Kind: "keyed", Key: key, PreAB: pa, PreBA: pb, ReadMax: []int{0, 2, 0, 11}[len(pa)%4], Ctx: len(pb)%2 == 1}
		var steps []ss.Step
		on := true
		for i := 0; i < 3+c.Rng.Intn(8); i++ {
			switch c.Rng.Intn(8) {
			case 6: // hand-off of one end (refused or not: the model says which)
				steps = append(steps, ss.Step{Kind: "handoff", WhoA: c.Rng.Intn(2) == 0})
			case 7: // the key is installed again now and then; encryption is on afterwards
				if c.Rng.Intn(3) == 0 {
					rk := ss.Step{Kind: "rekey"}
					if c.Rng.Intn(2) == 0 {
						rk.Key = key2
					}
					steps = append(steps, rk)
					on = true
				} else if !c.Quick() && c.Rng.Intn(4) == 0 {
					steps = append(steps, ss.Step{Kind: "phase", ASends: c.Rng.Intn(2) == 0, SOps: direct(1<<20 + 1 + c.Rng.Intn(40)).SOps()})
				}
			case 0:
				on = !on
				steps = append(steps, ss.Step{Kind: "crypto", WhoA: true, On: on}, ss.Step{Kind: "crypto", WhoA: false, On: on})
			case 1:
				if on { // a secret on an encrypting stream is an ordinary protected frame
					steps = append(steps, ss.Step{Kind: "phase", ASends: c.Rng.Intn(2) == 0, SOps: secret(1 + c.Rng.Intn(9)).SOps(), ROps: []ss.ROp{{Op: "complete"}}})
				}
			default:
				var ms []ss.Msg
				for m := 0; m < 1+c.Rng.Intn(3); m++ {
					if c.Rng.Intn(3) == 0 {
						ms = append(ms, ss.Msg{Kind: "buffered", Chunks: []ss.Data{ss.Pay(c.Rng.Intn(100), c.Rng.Intn(5000)), ss.Pay(3, c.Rng.Intn(50))}})
					} else {
						ms = append(ms, direct(c.Rng.Intn(40), c.Rng.Intn(3)*c.Rng.Intn(300)))
					}
				}
				steps = append(steps, phase(c.Rng.Intn(2) == 0, apis[c.Rng.Intn(3)], ms...))
			}
		}
		d := &desc{Case: ss.Case{Setup: su, Steps: steps}, Note: "random"}
		obs, term := ss.Exec(&d.Case)
		c.OracleCheck()
		if obs.SetupErr != nil {
			c.OracleFail("setup", obs.SetupErr.Error(), d)
			continue
		}
		c.AddCase(term, d)
		if err := check(d, obs); err != nil {
			c.OracleFail("format", err.Error(), d)
		}
		c.Count("random-history")
		js, _ := json.Marshal(d)
		c.Nontrivial(string(js))
	}
}
