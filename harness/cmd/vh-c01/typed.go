package main

// Typed-message layer over REAL streams (the clause "the typed-message layer accepts values of
// any length, splitting them across frames itself" and "a frame the sending side accepts is
// never rejected by a cedar receiver"): Message.PutString / PutStringBytes / PutBytes / PutInt
// through message.NewMessageForStream on a real Stream, read back by the Message reader on the
// peer. Oracle only (the framing of the writer is tied to the Coq model by C14's correspondence).

import (
	"bytes"
	"context"
	"fmt"

	"verifharness/core"
	ss "verifharness/streamsim"

	"github.com/bbockelm/cedar/message"
	"github.com/bbockelm/cedar/stream"
)

type typedCase struct {
	Typed bool   `json:"typed"`
	Enc   bool   `json:"enc"`
	First bool   `json:"first"` // the large value travels in the direction's first protected frames
	Kind  string `json:"kind"`  // str strb bytes
	N     int    `json:"n"`
}

func runTyped(t typedCase) error {
	ca, cb, _, _ := ss.Pair()
	a, b := stream.NewStream(ca), stream.NewStream(cb)
	bg := context.Background()
	if t.Enc {
		if err := a.SetSymmetricKey(key); err != nil {
			return err
		}
		if err := b.SetSymmetricKey(key); err != nil {
			return err
		}
		// the receiver has already SENT protected frames (its own send counter is not 0)
		if err := b.SendMessage(bg, []byte("hello from b")); err != nil {
			return err
		}
		if _, err := a.ReceiveCompleteMessage(bg); err != nil {
			return err
		}
		if !t.First {
			if err := a.SendMessage(bg, []byte("warm-up")); err != nil {
				return err
			}
			if _, err := b.ReceiveCompleteMessage(bg); err != nil {
				return err
			}
		}
	}
	val := make([]byte, t.N)
	for i := range val {
		val[i] = byte('a' + i%23)
	}
	m := message.NewMessageForStream(a)
	if err := m.PutInt(bg, t.N); err != nil {
		return fmt.Errorf("PutInt: %v", err)
	}
	var err error
	switch t.Kind {
	case "str":
		err = m.PutString(bg, string(val))
	case "strb":
		err = m.PutStringBytes(bg, val)
	default:
		err = m.PutBytes(bg, val)
	}
	if err != nil {
		return fmt.Errorf("typed layer refused a %s of %d bytes (enc=%v): %v", t.Kind, t.N, t.Enc, err)
	}
	if err := m.PutChar(bg, '!'); err != nil {
		return fmt.Errorf("PutChar: %v", err)
	}
	if err := m.FinishMessage(bg); err != nil {
		return fmt.Errorf("FinishMessage after a %s of %d bytes (enc=%v): %v", t.Kind, t.N, t.Enc, err)
	}
	r := message.NewMessageFromStream(b)
	n, err := r.GetInt(bg)
	if err != nil || n != t.N {
		return fmt.Errorf("receiver GetInt: %v (got %d)", err, n)
	}
	var got []byte
	if t.Kind == "bytes" {
		got, err = r.GetBytes(bg, t.N)
	} else {
		var s string
		s, err = r.GetString(bg)
		got = []byte(s)
	}
	if err != nil {
		return fmt.Errorf("receiver rejected what the typed sender accepted (%s, %d bytes, enc=%v): %v", t.Kind, t.N, t.Enc, err)
	}
	if !bytes.Equal(got, val) {
		return fmt.Errorf("typed value of %d bytes arrived altered (%d bytes)", t.N, len(got))
	}
	c, err := r.GetChar(bg)
	if err != nil || c != '!' {
		return fmt.Errorf("trailing char lost after a %s of %d bytes: %v", t.Kind, t.N, err)
	}
	// and the stream is still usable for a second message
	if err := a.SendMessage(bg, []byte("after")); err != nil {
		return err
	}
	if g, err := b.ReceiveCompleteMessage(bg); err != nil || string(g) != "after" {
		return fmt.Errorf("next message after the typed one failed: %v", err)
	}
	return nil
}

func genTyped(c *core.Ctx) {
	M := 1 << 20
	sizes := []int{0, 1, 16375, 16376, 16377, 16384, 16385, M - 41, M - 33, M - 17, M - 9, M - 8, M - 7, M - 2, M - 1, M, M + 1, M + 9, 2*M + 5}
	if !c.Quick() {
		for d := -48; d <= 16; d++ {
			sizes = append(sizes, M+d)
		}
	}
	k := 0
	for _, enc := range []bool{false, true} {
		for _, kind := range []string{"str", "strb", "bytes"} {
			for _, n := range sizes {
				for _, first := range []bool{true, false} {
					k++
					if !enc && !first {
						continue
					}
					if c.Quick() && n > 100000 && !first && k%2 == 0 {
						continue
					}
					t := typedCase{Typed: true, Enc: enc, First: first, Kind: kind, N: n}
					c.OracleCheck()
					c.Evaluated(1)
					if err := runTyped(t); err != nil {
						c.OracleFail("typed-roundtrip", err.Error(), t)
					}
					c.Nontrivial(fmt.Sprint(t))
					c.Count("typed-" + kind)
				}
			}
		}
	}
}
