// vh-c01: correspondence + oracle for C01 (framed messages round-trip byte-exactly under any chunking).
package main

import (
	"bytes"
	"encoding/json"
	"fmt"

	"verifharness/core"
	ss "verifharness/streamsim"
)

var key = bytes.Repeat([]byte{0x42}, 32)

type desc struct {
	Setup ss.Setup   `json:"setup"`
	Dirs  []bool     `json:"dirs"`
	Msgs  [][]ss.Msg `json:"msgs"` // per phase
	API   []string   `json:"api"`
	Chunk int        `json:"chunk"`
}

// fileDesc is the replayable description of a file-transfer case.
type fileDesc struct {
	Case *ss.Case `json:"file_case"`
}

// fileOracle: every PutFile phase must succeed and the paired GetFile must write the same bytes.
func fileOracle(cs *ss.Case, obs *ss.Obs) error {
	for pi, po := range obs.Phases {
		if po == nil || pi >= len(cs.Steps) || len(cs.Steps[pi].SOps) != 1 || cs.Steps[pi].SOps[0].Op != "putfile" {
			continue
		}
		want := cs.Steps[pi].SOps[0].D.Bytes()
		if len(po.SErr) != 1 || po.SErr[0] {
			return fmt.Errorf("PutFile of %d bytes failed: %v", len(want), po.SErrTxt)
		}
		if len(po.RRes) != 1 || !po.RRes[0].OK {
			e := ""
			if len(po.RRes) > 0 {
				e = po.RRes[0].Err
			}
			return fmt.Errorf("a file of %d bytes was sent by PutFile, GetFile failed: %s", len(want), e)
		}
		if !bytes.Equal(po.RRes[0].Data, want) {
			return fmt.Errorf("a file of %d bytes was sent by PutFile, GetFile wrote %d different bytes", len(want), len(po.RRes[0].Data))
		}
	}
	return nil
}

func build(d *desc) *ss.Case {
	c := &ss.Case{Setup: d.Setup}
	for p, msgs := range d.Msgs {
		st := ss.Step{Kind: "phase", ASends: d.Dirs[p]}
		for _, m := range msgs {
			st.SOps = append(st.SOps, m.SOps()...)
			st.ROps = append(st.ROps, ss.ROpsFor(d.API[p], len(m.Bytes()), d.Chunk)...)
		}
		c.Steps = append(c.Steps, st)
	}
	return c
}

// run executes d, adds the case, and checks the oracle. returns oracle error or nil.
func run(c *core.Ctx, d *desc, record bool) error {
	cs := build(d)
	obs, term := ss.Exec(cs)
	if obs.SetupErr != nil {
		return fmt.Errorf("setup failed: %v", obs.SetupErr)
	}
	if record && c != nil {
		w := 0
		for _, ms := range d.Msgs {
			for _, m := range ms {
				w += len(m.Bytes()) + 200*len(m.Chunks)
			}
		}
		c.AddCaseW(term, d, 1+w/4000)
	}
	// oracle: every send accepted => the receiver returns the same messages with the same boundaries
	for p, po := range obs.Phases {
		if po == nil || p >= len(d.Msgs) {
			continue
		}
		sendFailed := false
		for i, e := range po.SErr {
			if e {
				sendFailed = true
				_ = i
			}
		}
		if sendFailed {
			// a sender may refuse (too large); then nothing is claimed about this phase
			if c != nil {
				c.Count("phase-sender-refused")
			}
			continue
		}
		ri := 0
		for mi, m := range d.Msgs[p] {
			n := len(ss.ROpsFor(d.API[p], len(m.Bytes()), d.Chunk))
			if ri+n > len(po.RRes) {
				last := ""
				if len(po.RRes) > 0 {
					last = po.RRes[len(po.RRes)-1].Err
				}
				return fmt.Errorf("phase %d message %d (%d bytes, %s): sender accepted it, receiver (%s) failed: %s", p, mi, len(m.Bytes()), m.Kind, d.API[p], last)
			}
			got, ok := ss.Delivered(d.API[p], po.RRes[ri:ri+n])
			ri += n
			if !ok {
				return fmt.Errorf("phase %d message %d (%d bytes): receiver error", p, mi, len(m.Bytes()))
			}
			if !bytes.Equal(got, m.Bytes()) {
				return fmt.Errorf("phase %d message %d: delivered %d bytes differ from the %d sent", p, mi, len(got), len(m.Bytes()))
			}
		}
	}
	return nil
}

func compositions(n int) [][]int {
	if n == 0 {
		return [][]int{{}}
	}
	var out [][]int
	for first := 1; first <= n; first++ {
		for _, rest := range compositions(n - first) {
			out = append(out, append([]int{first}, rest...))
		}
	}
	return out
}

func chunksOf(off int, parts []int) []ss.Data {
	var ds []ss.Data
	for _, p := range parts {
		ds = append(ds, ss.Pay(off, p))
		off += p
	}
	return ds
}

func setups() []ss.Setup {
	return []ss.Setup{
		{Kind: "plain"},
		{Kind: "keyed", Key: key},
		{Kind: "keyed", Key: key, PreAB: []ss.Data{ss.Lit([]byte("hello")), ss.Lit(nil)}, PreBA: []ss.Data{ss.Lit([]byte("world!"))}},
	}
}

func gen(c *core.Ctx) error {
	c.Rule("honest two-endpoint sessions on real Streams over in-memory wires: every composition of short messages as buffered writes and as direct partial frames, sizes around the 4 KiB flush threshold and the 1 MiB frame limit -/+ the 16/32-byte AES-GCM overhead on first and later frames, random multi-message histories, both directions, plaintext and AES-GCM, each receive API; model (coq/Model/Frame.v) evaluated on the same operation lists and compared on per-op acceptance, every wire frame (flag, length, IV, nonce, AAD shape, plaintext) and every receive result. non-trivial = a case in which at least one message was accepted by the sender; distinct by full description")
	apis := []string{"complete", "msgall", "sre"}
	fail := func(d *desc, err error) {
		c.OracleFail("roundtrip", err.Error(), d)
	}
	try := func(d *desc) {
		c.OracleCheck()
		if err := run(c, d, true); err != nil {
			fail(d, err)
		}
		js, _ := json.Marshal(d)
		c.Nontrivial(string(js))
	}
	// 1. all compositions of short messages
	maxL := 5
	if !c.Quick() {
		maxL = 7
	}
	k := 0
	for _, su := range setups() {
		for L := 0; L <= maxL; L++ {
			for _, parts := range compositions(L) {
				for _, kind := range []string{"buffered", "direct"} {
					k++
					su := su
					su.ReadMax = []int{0, 1, 3, 0, 5}[k%5] // short reads on the connection
					su.Ctx = k%2 == 0
					d := &desc{Setup: su, Dirs: []bool{true, false}, API: []string{apis[k%3], apis[(k+1)%3]}, Chunk: 1 + k%3,
						Msgs: [][]ss.Msg{{{Kind: kind, Chunks: chunksOf(k, parts)}, {Kind: "direct", Chunks: []ss.Data{ss.Pay(7, 3)}}},
							{{Kind: kind, Chunks: chunksOf(k+1, parts)}}}}
					try(d)
					c.Count("composition-" + kind)
				}
			}
		}
	}
	// 2. sizes around thresholds and limits, first and later frame
	M := 1 << 20
	sizes := []int{0, 1, 4095, 4096, 4097, 8192, 12289, 16384}
	big := []int{M - 33, M - 32, M - 31, M - 17, M - 16, M - 15, M - 1, M, M + 1, M + 16, M + 33}
	if !c.Quick() {
		for dlt := -40; dlt <= 40; dlt += 3 {
			big = append(big, M+dlt)
		}
	}
	for si, su := range setups()[:2] {
		all := append(append([]int{}, sizes...), big...)
		if c.Quick() {
			if su.Kind == "plain" {
				all = append(append([]int{}, sizes...), M, M+1)
			} else {
				all = append(append([]int{}, sizes...), M-33, M-32, M-31, M-16, M-15, M, M+1)
			}
		}
		for _, n := range all {
			for _, later := range []bool{false, true} {
				if c.Quick() && n > 100000 && later && (n == M-33 || n == M+1) {
					continue
				}
				var msgs []ss.Msg
				if later {
					msgs = append(msgs, ss.Msg{Kind: "direct", Chunks: []ss.Data{ss.Pay(1, 10)}})
				}
				msgs = append(msgs, ss.Msg{Kind: "direct", Chunks: []ss.Data{ss.Pay(n%200, n)}})
				d := &desc{Setup: su, Dirs: []bool{true}, API: []string{"complete"}, Msgs: [][]ss.Msg{msgs}}
				try(d)
				c.Count(fmt.Sprintf("size-%s", sizeClass(n)))
				// buffered in unequal chunks / as partial frames
				if n > 0 && !later && (n < 100000 || n == M-16 || (!c.Quick() && n%5 == 0)) {
					parts := []int{n / 3, n - n/3}
					su := su
					su.ReadMax = []int{0, 1000, 4096, 1}[(n+si)%4]
					if n > 100000 && su.ReadMax == 1 {
						su.ReadMax = 65536
					}
					su.Ctx = n%2 == 1
					d2 := &desc{Setup: su, Dirs: []bool{true}, API: []string{apis[(si+n)%3]}, Chunk: 1 + n/2,
						Msgs: [][]ss.Msg{{{Kind: "buffered", Chunks: chunksOf(3, parts)}}}}
					try(d2)
					d3 := &desc{Setup: su, Dirs: []bool{false}, API: []string{"complete"},
						Msgs: [][]ss.Msg{{{Kind: "direct", Chunks: chunksOf(5, parts)}}}}
					try(d3)
				}
			}
		}
	}
	genTyped(c)
	// 2b. large first frame towards a receiver that has itself already sent protected frames
	for _, n := range []int{M - 32, M - 16, M - 15, M} {
		d := &desc{Setup: setups()[1], Dirs: []bool{false, true}, API: []string{"complete", "complete"},
			Msgs: [][]ss.Msg{{{Kind: "direct", Chunks: []ss.Data{ss.Pay(2, 7)}}}, {{Kind: "direct", Chunks: []ss.Data{ss.Pay(n%200, n)}}}}}
		try(d)
		c.Count("size-first-frame-after-peer-sent")
	}
	// 2c. buffered writes of mixed size classes (a still-buffered short write followed by a
	// write of several flush thresholds, and so on): every ordered pair, some triples
	cls := []int{1, 100, 4096, 16384, 20000, 70000}
	if !c.Quick() {
		cls = []int{1, 100, 4095, 4096, 4097, 8192, 16383, 16384, 16385, 20000, 65536, 70000, 262144}
	}
	mixed := [][]int{{100, 20000, 5}, {5, 16384, 100, 70000}, {4095, 1, 16384}, {3, 3, 32768, 3}}
	for _, a := range cls {
		for _, b := range cls {
			mixed = append(mixed, []int{a, b})
		}
	}
	for i, parts := range mixed {
		su := setups()[i%2]
		su.ReadMax = []int{0, 4096, 100000}[i%3]
		su.Ctx = i%2 == 1
		d := &desc{Setup: su, Dirs: []bool{i%2 == 0}, API: []string{apis[i%3]}, Chunk: 1 + 3000*(i%4),
			Msgs: [][]ss.Msg{{{Kind: "buffered", Chunks: chunksOf(i, parts)}, {Kind: "buffered", Chunks: chunksOf(i+9, []int{2})}}}}
		try(d)
		c.Count("buffered-mixed-sizes")
	}
	// 2f. messages of very many frames: the sender puts no bound on the number of partial frames of one
	// message (SendPartialMessage any number of times; WriteMessage flushes one every 4 KiB), so no
	// receiver may have one either
	// (a single case of 66 000 frames is a 9.6 MB Coq term and overflows coqc's stack: 8 193 is the largest size run)
	many := []int{300, 4097, 5003}
	if !c.Quick() {
		many = append(many, 8193)
	}
	for i, n := range many {
		parts := make([]int, n)
		for j := range parts {
			parts[j] = 1
			if j%97 == 5 {
				parts[j] = 0 // empty partial frames among them
			}
		}
		su := setups()[i%2]
		su.ReadMax = []int{0, 4096}[i%2]
		d := &desc{Setup: su, Dirs: []bool{i%2 == 0}, API: []string{apis[i%3]}, Chunk: 1 + n/7,
			Msgs: [][]ss.Msg{{{Kind: "direct", Chunks: chunksOf(i, parts)}, {Kind: "direct", Chunks: chunksOf(i+3, []int{2})}}}}
		try(d)
		c.Count("many-frames")
	}
	// 2d. file transfer: PutFile on one end, GetFile on the other (sizes around the 64 KiB read buffer),
	// between other traffic, both directions, plaintext and AES-GCM
	fsz := []int{0, 1, 7, 65535, 65536, 65537, 131072, 200001}
	if !c.Quick() {
		fsz = append(fsz, 8, 4, 666, 131071, 131073, 196608, 1<<20, 1<<20+5)
	}
	// contents that look like the protocol's own messages: the end marker 666, an 8-byte size
	marker := []byte{0, 0, 2, 0x9a}
	special := []ss.Data{ss.Lit(marker), ss.PayTail(9, 65536, marker), ss.Lit(append(append([]byte{}, marker...), marker...)),
		ss.Lit([]byte{0, 0, 0, 0, 0, 0, 0, 4}), ss.PayTail(2, 65536-4, append(append([]byte{}, marker...), marker...))}
	for i, n := range fsz {
		for si, su := range setups() {
			if c.Quick() && n > 70000 && si == 2 {
				continue
			}
			first := ss.Pay(i+11, n)
			if si < 2 && i < len(special) {
				first = special[i]
			}
			su.ReadMax = []int{0, 4096, 1000}[(i+si)%3]
			su.Ctx = (i+si)%2 == 0
			aSends := (i+si)%2 == 0
			cs := &ss.Case{Setup: su, Steps: []ss.Step{
				{Kind: "phase", ASends: aSends, SOps: ss.Msg{Kind: "direct", Chunks: []ss.Data{ss.Pay(3, 5)}}.SOps(), ROps: []ss.ROp{{Op: "complete"}}},
				{Kind: "phase", ASends: aSends, SOps: []ss.SOp{{Op: "putfile", D: first}}, ROps: []ss.ROp{{Op: "getfile"}}},
				{Kind: "phase", ASends: !aSends, SOps: []ss.SOp{{Op: "putfile", D: ss.Pay(i+5, n/2)}}, ROps: []ss.ROp{{Op: "getfile"}}},
				{Kind: "phase", ASends: aSends, SOps: ss.Msg{Kind: "direct", Chunks: []ss.Data{ss.Pay(4, 2)}}.SOps(), ROps: []ss.ROp{{Op: "complete"}}},
			}}
			obs, term := ss.Exec(cs)
			c.OracleCheck()
			fd := &fileDesc{Case: cs}
			if obs.SetupErr != nil {
				c.OracleFail("roundtrip", "file transfer setup: "+obs.SetupErr.Error(), fd)
				continue
			}
			c.AddCaseW(term, fd, 1+(n+len(first.Bytes()))/2000)
			if err := fileOracle(cs, obs); err != nil {
				c.OracleFail("roundtrip", err.Error(), fd)
			}
			js, _ := json.Marshal(fd)
			c.Nontrivial(string(js))
			c.Count("file-transfer")
		}
	}
	// 2e. GetFile fed by a peer that is not PutFile: size fields that are negative as int64, larger or
	// smaller than what follows, a wrong or missing end marker (model agreement only: on a plaintext
	// stream such a peer controls everything, on an encrypted one it is the authenticated peer)
	be8 := func(v uint64) []byte {
		b := make([]byte, 8)
		for i := 0; i < 8; i++ {
			b[7-i] = byte(v >> (8 * uint(i)))
		}
		return b
	}
	hostile := [][][]byte{
		{be8(1<<63 + 5), marker},
		{be8(1<<64 - 1), marker},
		{be8(3), []byte("abc"), marker},
		{be8(3), []byte("abcd"), marker},
		{be8(3), []byte("ab"), marker},
		{be8(3), []byte("ab"), []byte("c"), marker},
		{be8(0), marker},
		{be8(0), {0, 0, 2, 0x9b}},
		{be8(0), {0, 2, 0x9a}},
		{be8(2)[:7], marker},
		{be8(4), marker, marker},
	}
	for i, msgs := range hostile {
		su := setups()[i%2]
		st := ss.Step{Kind: "phase", ASends: i%2 == 0, ROps: []ss.ROp{{Op: "getfile"}}}
		for _, m := range msgs {
			st.SOps = append(st.SOps, ss.SOp{Op: "send", D: ss.Lit(m)})
		}
		cs := &ss.Case{Setup: su, Steps: []ss.Step{st}}
		obs, term := ss.Exec(cs)
		c.OracleCheck()
		if obs.SetupErr == nil {
			c.AddCase(term, &fileDesc{Case: cs})
		}
		c.Count("file-hostile-sender")
	}
	// 3. random multi-message, multi-phase histories
	nRand := 60
	if !c.Quick() {
		nRand = 600
	}
	for i := 0; i < nRand; i++ {
		su := setups()[c.Rng.Intn(3)]
		d := &desc{Setup: su, Chunk: 1 + c.Rng.Intn(5000)}
		for p := 0; p < 1+c.Rng.Intn(3); p++ {
			d.Dirs = append(d.Dirs, c.Rng.Intn(2) == 0)
			d.API = append(d.API, apis[c.Rng.Intn(3)])
			var msgs []ss.Msg
			for m := 0; m < 1+c.Rng.Intn(3); m++ {
				kind := []string{"buffered", "direct"}[c.Rng.Intn(2)]
				var parts []int
				for q := 0; q < c.Rng.Intn(4); q++ {
					switch c.Rng.Intn(6) {
					case 4:
						parts = append(parts, 16000+c.Rng.Intn(800))
					case 5:
						parts = append(parts, 30000+c.Rng.Intn(60000))
					case 0:
						parts = append(parts, c.Rng.Intn(10))
					case 1:
						parts = append(parts, 4090+c.Rng.Intn(12))
					case 2:
						parts = append(parts, c.Rng.Intn(9000))
					default:
						parts = append(parts, 1+c.Rng.Intn(100))
					}
				}
				msgs = append(msgs, ss.Msg{Kind: kind, Chunks: chunksOf(c.Rng.Intn(251), parts)})
			}
			d.Msgs = append(d.Msgs, msgs)
		}
		try(d)
		c.Count("random-history")
		if i < 3 {
			c.Sample(d)
		}
	}
	return nil
}

func sizeClass(n int) string {
	switch {
	case n < 4096:
		return "below-threshold"
	case n < 100000:
		return "multi-flush"
	case n <= 1<<20:
		return "near-limit-accepted-plain"
	}
	return "above-limit"
}

func replay(raw json.RawMessage) error {
	var t typedCase
	if err := json.Unmarshal(raw, &t); err == nil && t.Typed {
		return runTyped(t)
	}
	var fd fileDesc
	if err := json.Unmarshal(raw, &fd); err == nil && fd.Case != nil {
		obs, _ := ss.Exec(fd.Case)
		if obs.SetupErr != nil {
			return obs.SetupErr
		}
		return fileOracle(fd.Case, obs)
	}
	var d desc
	if err := json.Unmarshal(raw, &d); err != nil {
		return err
	}
	return run(nil, &d, false)
}

func main() { core.Main("C01", gen, replay) }
