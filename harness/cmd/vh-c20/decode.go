package main

// Decoder correspondence (added after seeded mutant C20-15): the very bytes a
// scripted connection puts on the wire are (1) read by the real
// readReverseConnect + AdString through the hook and (2) decoded in Coq by
// Model/CCB.v decode_wire; the comparator also checks that the hand-written
// greeting term of greet.go (which the accept-loop / proxy / Dial cases use)
// is what those bytes decode to.  Direct oracle, independent of the model: the
// reader returns a claim only for a greeting whose command integer is exactly
// CCB_REVERSE_CONNECT as a 64-bit value, and then exactly the claim sent.

import (
	"bytes"
	"context"
	"fmt"
	"strings"

	"verifharness/core"

	"github.com/bbockelm/cedar/ccb"
	"github.com/bbockelm/cedar/stream"
)

type decodeCase struct {
	ID   string `json:"id"`
	Prev string `json:"prev"`
	G    *greet `json:"g"`

	// observed
	Ran   bool   `json:"ran"`
	OK    bool   `json:"ok"`
	Claim string `json:"claim"`
	Panic bool   `json:"panic,omitempty"`
	wire  []byte
	tail  string
}

func (dc *decodeCase) run() {
	g := dc.G.resolve(dc.ID, dc.Prev)
	dc.G = &g
	data, _, stall := g.wire(dc.ID)
	dc.wire = data
	dc.tail = "TClosed"
	dc.Ran, dc.OK, dc.Claim, dc.Panic = false, false, "", false
	if stall {
		dc.tail = "TSilent" // the real read would block until the context ends: not run here (accept cases do)
		return
	}
	dc.Ran = true
	func() {
		defer func() {
			if p := recover(); p != nil {
				dc.Panic = true
			}
		}()
		mc := newMemConn(1, data, false)
		got, err := ccb.VerifReadReverseConnectClaim(context.Background(), stream.NewStream(mc))
		dc.OK, dc.Claim = err == nil, got
	}()
}

// wellFormed: the scripted greeting is a hello in the wire format of
// WriteReverseConnect whose command integer is exactly CCB_REVERSE_CONNECT.
func (dc *decodeCase) wellFormed() bool {
	g := dc.G
	if g.Kind == "dev" {
		return g.Dev == "trail" || g.Dev == "trailmsg"
	}
	return g.Kind == "hello" && int64(g.Cmd) == int64(ccb.CommandReverseConnect)
}

func (dc *decodeCase) oracle() []failure {
	if !dc.Ran {
		return nil
	}
	if dc.Panic {
		return []failure{{"c20-greeting-reader-panic", "readReverseConnect panicked on " + dc.G.String()}}
	}
	var fs []failure
	wf := dc.wellFormed()
	if dc.OK && !wf {
		fs = append(fs, failure{"c20-malformed-greeting-accepted", fmt.Sprintf("readReverseConnect accepted the greeting %s (command integer %d, %d wire bytes %x...) and delivered claim %q: only a message whose command integer is exactly %d may be read as a reverse-connect hello", dc.G, dc.G.Cmd, len(dc.wire), dc.wire[:min(len(dc.wire), 16)], dc.Claim, ccb.CommandReverseConnect)})
	}
	if wf {
		want := ""
		if dc.G.HasClaim {
			want = dc.G.Claim
		}
		if !dc.OK || dc.Claim != want {
			fs = append(fs, failure{"c20-greeting-claim-altered", fmt.Sprintf("readReverseConnect on the well-formed hello %s: sent claim %q, got ok=%v claim %q", dc.G, want, dc.OK, dc.Claim)})
		}
	}
	return fs
}

// simpleAd: the ad's expressions stay inside what Model/CCB.v simple_claim_of
// evaluates (no backslash escapes anywhere in the bytes sent).
func (dc *decodeCase) simpleAd() bool {
	if dc.G.Kind != "hello" && dc.G.Kind != "dev" && dc.G.Kind != "trunc" && dc.G.Kind != "stall" {
		return true
	}
	return !bytes.Contains(dc.wire, []byte{'\\'}) && !strings.ContainsAny(dc.G.Claim, "\"\\")
}

func (dc *decodeCase) term() string {
	obs := "None"
	if dc.Ran {
		if dc.OK {
			obs = "(Some (Some " + bytesTerm(dc.Claim) + "))"
		} else {
			obs = "(Some None)"
		}
	}
	return fmt.Sprintf("(CDecode %s %s %s %s %s)", core.Z(int64(ccb.VerifMaxControlAdSize)), dc.tail, bytesTerm(string(dc.wire)), dc.G.term(), obs)
}

func genDecode(c *core.Ctx) {
	cat := rogueCatalogue(c)
	gs := append([]greet{legit(), {Kind: "stall"}, {Kind: "stall", Arg: 0}, {Kind: "stall", Arg: 7}, {Kind: "stall", Arg: 13},
		{Kind: "dev", Dev: "trail", Form: "right"}, {Kind: "dev", Dev: "trail", Form: "absent"},
		{Kind: "dev", Dev: "trailmsg", Form: "right"}, {Kind: "dev", Dev: "trailmsg", Form: "wrong", Lit: chosenID}}, cat...)
	for k := 0; k < 20; k++ {
		gs = append(gs, greet{Kind: "trunc", Arg: 1 + c.Rng.Intn(90)})
	}
	for _, g := range gs {
		for _, id := range []string{randID(c), randID40(c)} {
			dc := &decodeCase{ID: id, Prev: randID(c), G: ptr(g)}
			dc.run()
			c.OracleCheck()
			doc := replayDoc{Kind: "decode", Decode: dc}
			report(c, dc.oracle(), doc)
			if !dc.simpleAd() {
				c.Count("decode/not-modelled-escapes")
				continue
			}
			c.AddCase(dc.term(), doc)
			switch {
			case !dc.Ran:
				c.Count("decode/stall")
			case dc.OK:
				c.Count("decode/hello")
				c.Nontrivial("decode|" + dc.G.String())
			default:
				c.Count("decode/refused")
			}
		}
	}
}
