package main

// Greetings: what a scripted connection sends as its opening message, both as
// the bytes put on the wire and as the Coq term of Model/CCB.v's [greeting].

import (
	"context"
	"encoding/binary"
	"fmt"
	"strings"

	"verifharness/core"

	"github.com/PelicanPlatform/classad/classad"
	"github.com/bbockelm/cedar/ccb"
	"github.com/bbockelm/cedar/message"
	"github.com/bbockelm/cedar/stream"
)

// idForm says how the claim string of a hello is derived from the connect id
// of the request it is aimed at (resolved once the id is known).
type greet struct {
	Kind string `json:"k"`             // hello | dev | garbage | trunc | close | stall | bighdr | hdronly
	Dev  string `json:"dev,omitempty"` // dev: wire-level deviation of an otherwise right hello (see devBytes)
	Cmd  int    `json:"cmd,omitempty"` // hello: command integer
	Form string `json:"form,omitempty"`
	// hello: right wrong empty absent prev prefix ext upper space int otherattr lit
	Arg int    `json:"arg,omitempty"` // prefix length / ext variant
	Lit string `json:"lit,omitempty"` // literal claim (form lit / wrong)
	Raw []byte `json:"raw,omitempty"` // garbage bytes

	// resolved
	Claim    string `json:"claim,omitempty"`
	HasClaim bool   `json:"has_claim,omitempty"`
}

func (g greet) String() string {
	if g.Kind == "hello" {
		return fmt.Sprintf("hello/%d/%s%d", g.Cmd, g.Form, g.Arg)
	}
	if g.Kind == "dev" {
		return "dev/" + g.Dev + "/" + g.Form
	}
	return g.Kind
}

// resolve fixes the concrete claim string given the request's id and the id of
// an earlier request.
func (g greet) resolve(right, prev string) greet {
	if g.Kind != "hello" && g.Kind != "dev" {
		return g
	}
	g.HasClaim = true
	switch g.Form {
	case "right":
		g.Claim = right
	case "lit":
		g.Claim = g.Lit
	case "wrong": // another id of the same length
		w := g.Lit
		if len(right) < len(w) {
			w = w[:len(right)]
		}
		if w == right {
			w += "f"
		}
		g.Claim = w
	case "empty":
		g.Claim = ""
	case "absent", "int", "otherattr":
		g.HasClaim = false
		g.Claim = ""
	case "prev":
		g.Claim = prev
	case "prefix":
		n := g.Arg
		if n > len(right) {
			n = len(right)
		}
		if n == len(right) && n > 0 {
			n--
		}
		g.Claim = right[:n]
	case "ext":
		suffix := []string{"0", " ", "a", "00", "\t"}[g.Arg%5]
		g.Claim = right + suffix
	case "upper":
		g.Claim = strings.ToUpper(right)
		if g.Claim == right { // all digits: make it differ anyway
			g.Claim = right + "A"
		}
	case "space":
		g.Claim = " " + right
	case "nl":
		g.Claim = right + "\n"
	case "crlf":
		g.Claim = right + "\r\n"
	case "tab":
		g.Claim = "\t" + right
	case "0x":
		g.Claim = "0x" + right
	case "quoted":
		g.Claim = "\"" + right + "\""
	case "nbsp":
		g.Claim = right + "\u00a0"
	case "fullwidth": // first character replaced by its full-width Unicode twin
		if len(right) > 0 && right[0] >= '0' && right[0] <= '9' {
			g.Claim = string(rune(0xFF10+int(right[0]-'0'))) + right[1:]
		} else if len(right) > 0 {
			g.Claim = string(rune(0xFF41+int(right[0]-'a'))) + right[1:]
		} else {
			g.Claim = "\uFF10"
		}
	case "pct": // percent-encoded first character
		if len(right) > 0 {
			g.Claim = fmt.Sprintf("%%%02x", right[0]) + right[1:]
		} else {
			g.Claim = "%30"
		}
	case "swap":
		// same multiset of characters, different order
		if len(right) >= 2 && right[0] != right[len(right)-1] {
			b := []byte(right)
			b[0], b[len(b)-1] = b[len(b)-1], b[0]
			g.Claim = string(b)
		} else {
			g.Claim = right + "x"
		}
	case "lastdiff":
		if len(right) > 0 {
			b := []byte(right)
			if b[len(b)-1] == '0' {
				b[len(b)-1] = '1'
			} else {
				b[len(b)-1] = '0'
			}
			g.Claim = string(b)
		} else {
			g.Claim = "0"
		}
	default:
		panic("unknown id form " + g.Form)
	}
	return g
}

// matches is the harness's own (oracle-side) notion of "this greeting presents
// the connect id [right]": a well-formed CCB_REVERSE_CONNECT hello whose
// ClaimId string is exactly right.
func (g greet) matches(right string) bool {
	return g.Kind == "hello" && g.Cmd == ccb.CommandReverseConnect && g.HasClaim && g.Claim == right && right != ""
}

// helloBytes renders a (resolved) hello exactly as a CEDAR peer would put it on
// the wire, using the library's own message writer.
func helloBytes(g greet, right string) []byte {
	mc := newMemConn(-1, nil, false)
	s := stream.NewStream(mc)
	ctx := context.Background()
	msg := message.NewMessageForStream(s)
	must(msg.PutInt(ctx, g.Cmd))
	ad := classad.New()
	switch g.Form {
	case "absent":
		must(ad.Set("RequestID", "7"))
	case "int":
		must(ad.Set(ccb.AttrClaimID, int64(12345)))
	case "otherattr":
		must(ad.Set("RequestID", right))
		must(ad.Set("MyAddress", right))
	default:
		must(ad.Set(ccb.AttrClaimID, g.Claim))
		must(ad.Set("RequestID", "1"))
	}
	must(msg.PutClassAdWithOptions(ctx, ad, &message.PutClassAdConfig{Options: message.PutClassAdIncludePrivate}))
	must(msg.FinishMessage(ctx))
	return append([]byte(nil), mc.Written...)
}

// devBytes: an otherwise right hello (command 69, ClaimId = g.Claim) that deviates
// from the wire format of WriteReverseConnect:
//
//	twomsg   the command integer in one message (EOM), the ad in the next
//	cmd32    the command as a 4-byte integer, then the ad
//	cmd16    the command as a 2-byte integer, then the ad
//	cmdstr   the command as the string "69", then the ad
//	cmdle    the command as an 8-byte LITTLE-endian integer, then the ad
//	cmdtwice the command integer twice, then the ad
//	adfirst  the ad, then the command integer
//	trail    the right hello with further values (an int, a string) in the same message
//	trailmsg the right hello followed at once by a second, unrelated message
func devBytes(g greet) []byte {
	mc := newMemConn(-1, nil, false)
	s := stream.NewStream(mc)
	ctx := context.Background()
	msg := message.NewMessageForStream(s)
	ad := classad.New()
	switch g.Form {
	case "absent":
		must(ad.Set("RequestID", "7"))
	default:
		must(ad.Set(ccb.AttrClaimID, g.Claim))
		must(ad.Set("RequestID", "1"))
	}
	putAd := func() {
		must(msg.PutClassAdWithOptions(ctx, ad, &message.PutClassAdConfig{Options: message.PutClassAdIncludePrivate}))
	}
	rc := ccb.CommandReverseConnect
	switch g.Dev {
	case "twomsg":
		must(msg.PutInt(ctx, rc))
		must(msg.FinishMessage(ctx))
		msg = message.NewMessageForStream(s)
		putAd()
	case "cmd32":
		must(msg.PutBytes(ctx, []byte{0, 0, 0, byte(rc)}))
		putAd()
	case "cmd16":
		must(msg.PutBytes(ctx, []byte{0, byte(rc)}))
		putAd()
	case "cmdstr":
		must(msg.PutString(ctx, fmt.Sprint(rc)))
		putAd()
	case "cmdle":
		must(msg.PutBytes(ctx, []byte{byte(rc), 0, 0, 0, 0, 0, 0, 0}))
		putAd()
	case "cmdtwice":
		must(msg.PutInt(ctx, rc))
		must(msg.PutInt(ctx, rc))
		putAd()
	case "adfirst":
		putAd()
		must(msg.PutInt(ctx, rc))
	case "trail":
		must(msg.PutInt(ctx, rc))
		putAd()
		must(msg.PutInt(ctx, 12345))
		must(msg.PutString(ctx, "trailing"))
	case "trailmsg":
		must(msg.PutInt(ctx, rc))
		putAd()
		must(msg.FinishMessage(ctx))
		msg = message.NewMessageForStream(s)
		must(msg.PutInt(ctx, 60000))
	default:
		panic("unknown deviation " + g.Dev)
	}
	must(msg.FinishMessage(ctx))
	return append([]byte(nil), mc.Written...)
}

// wideCommands: 64-bit command integers that are 69 only after some truncation
// or sign confusion (low 32 / 16 / 8 bits, high half, negated), none of them 69.
func wideCommands() []int {
	rc := int64(ccb.CommandReverseConnect)
	u := func(x uint64) int { return int(int64(x)) }
	return []int{
		int(rc + 1<<32), int(rc - 1<<32), int(rc + 1<<40), u(uint64(rc) + 1<<63), int(-rc),
		u(0x0000004500000045), u(0x7fffffff00000045), u(0x0100000000000045), u(0xffffffff00000045 - 1<<32),
		u(0x8000000000000045), int(rc << 32), int(1<<32 - 1), int(rc + 1<<16), int(rc + 1<<31), int(rc + 1<<33),
		u(0x4500000000000000), int(^rc), int(rc + 2<<32),
	}
}

// wireCatalogue: greetings that are wrong only at the wire level (added after seeded
// mutant C20-15): the wide command integers with the right / a wrong / no id, and the
// deviations of devBytes that the reader must refuse.
func wireCatalogue(c *core.Ctx) []greet {
	var out []greet
	for _, cmd := range wideCommands() {
		for _, f := range []string{"right", "wrong", "absent"} {
			g := greet{Kind: "hello", Cmd: cmd, Form: f}
			if f == "wrong" {
				g.Lit = chosenID
			}
			out = append(out, g)
		}
	}
	for _, d := range []string{"twomsg", "cmd32", "cmd16", "cmdstr", "cmdle", "cmdtwice", "adfirst"} {
		for _, f := range []string{"right", "absent"} {
			out = append(out, greet{Kind: "dev", Dev: d, Form: f})
		}
	}
	return out
}

func must(err error) {
	if err != nil {
		panic(err)
	}
}

// wire returns the bytes the scripted peer writes and whether it then closes
// its side at once (closeAfter) or keeps the connection open silently (stall).
func (g greet) wire(right string) (data []byte, closeAfter bool, stall bool) {
	switch g.Kind {
	case "hello":
		return helloBytes(g, right), false, false
	case "dev":
		return devBytes(g), false, false
	case "garbage":
		return g.Raw, false, false
	case "bighdr": // frame header announcing more than MaxMessageSize
		h := []byte{1, 0, 0, 0, 0}
		binary.BigEndian.PutUint32(h[1:], 64<<20)
		return append(h, []byte("xxxxxxxx")...), false, false
	case "trunc": // a correct hello cut short, then the peer closes
		b := helloBytes(greet{Kind: "hello", Cmd: ccb.CommandReverseConnect, Form: "right", Claim: right, HasClaim: true}, right)
		n := g.Arg
		if n <= 0 || n >= len(b) {
			n = len(b) / 2
		}
		return b[:n], true, false
	case "close":
		return nil, true, false
	case "stall": // a correct hello cut short, then silence
		b := helloBytes(greet{Kind: "hello", Cmd: ccb.CommandReverseConnect, Form: "right", Claim: right, HasClaim: true}, right)
		n := g.Arg
		if n < 0 || n >= len(b) {
			n = len(b) / 2
		}
		return b[:n], false, true
	}
	panic("unknown greeting kind " + g.Kind)
}

// term is the Coq [greeting] this scripted opening message is modelled as.
func (g greet) term() string {
	switch g.Kind {
	case "hello":
		claim := "None"
		if g.HasClaim {
			claim = "(Some " + bytesTerm(g.Claim) + ")"
		}
		return fmt.Sprintf("(GHello %s %s)", core.Z(int64(g.Cmd)), claim)
	case "dev":
		if g.Dev == "trail" || g.Dev == "trailmsg" { // the reader never looks past TargetType: still this hello
			claim := "None"
			if g.HasClaim {
				claim = "(Some " + bytesTerm(g.Claim) + ")"
			}
			return fmt.Sprintf("(GHello %s %s)", core.Z(int64(ccb.CommandReverseConnect)), claim)
		}
		return "GMalformed"
	case "garbage", "bighdr":
		return "GMalformed"
	case "trunc", "close":
		return "GClosed"
	case "stall":
		return "GStall"
	}
	panic("unknown greeting kind " + g.Kind)
}

// rogueCatalogue is the list of non-matching greetings used everywhere; rng
// picks the random material.
func rogueCatalogue(c *core.Ctx) []greet {
	rc := ccb.CommandReverseConnect
	randHex := func(n int) string {
		const hexd = "0123456789abcdef"
		b := make([]byte, n)
		for i := range b {
			b[i] = hexd[c.Rng.Intn(16)]
		}
		return string(b)
	}
	garbage := func(n int) []byte {
		b := make([]byte, n)
		for i := range b {
			b[i] = byte(c.Rng.Intn(256))
		}
		// never let random bytes spell a tiny valid frame header followed by
		// nothing: force an invalid end flag so the outcome is a read error
		if n > 0 {
			b[0] = 0xEE
		}
		return b
	}
	cat := []greet{
		{Kind: "hello", Cmd: rc, Form: "wrong", Lit: randHex(40)},
		{Kind: "hello", Cmd: rc, Form: "empty"},
		{Kind: "hello", Cmd: rc, Form: "absent"},
		{Kind: "hello", Cmd: rc, Form: "prev"},
		{Kind: "hello", Cmd: rc, Form: "prefix", Arg: 39},
		{Kind: "hello", Cmd: rc, Form: "prefix", Arg: 20},
		{Kind: "hello", Cmd: rc, Form: "prefix", Arg: 1},
		{Kind: "hello", Cmd: rc, Form: "prefix", Arg: 8},
		{Kind: "hello", Cmd: rc, Form: "ext", Arg: 0},
		{Kind: "hello", Cmd: rc, Form: "ext", Arg: 1},
		{Kind: "hello", Cmd: rc, Form: "ext", Arg: 2},
		{Kind: "hello", Cmd: rc, Form: "upper"},
		{Kind: "hello", Cmd: rc, Form: "space"},
		{Kind: "hello", Cmd: rc, Form: "swap"},
		{Kind: "hello", Cmd: rc, Form: "lastdiff"},
		{Kind: "hello", Cmd: rc, Form: "int"},
		{Kind: "hello", Cmd: rc, Form: "otherattr"},
		{Kind: "hello", Cmd: ccb.CommandRequest, Form: "right"},
		{Kind: "hello", Cmd: 0, Form: "right"},
		{Kind: "hello", Cmd: rc + 1, Form: "right"},
		{Kind: "hello", Cmd: -rc, Form: "right"},
		{Kind: "hello", Cmd: rc + 256, Form: "right"},
		{Kind: "garbage", Raw: garbage(5 + c.Rng.Intn(40))},
		{Kind: "garbage", Raw: garbage(200)},
		{Kind: "garbage", Raw: []byte("GET / HTTP/1.1\r\nHost: x\r\n\r\n")},
		{Kind: "bighdr"},
		{Kind: "trunc", Arg: 3},
		{Kind: "trunc", Arg: 9},
		{Kind: "trunc", Arg: 0},
		{Kind: "close"},
	}
	// ids that differ from the right one only in whitespace / encoding; appended so
	// that the positions above stay put.  A form is used only if the library's own
	// writer and reader carry that claim string through unchanged (otherwise what
	// arrives would not be the greeting we think we sent).
	for _, f := range []string{"nl", "crlf", "tab", "0x", "quoted", "nbsp", "fullwidth", "pct"} {
		g := greet{Kind: "hello", Cmd: rc, Form: f}
		if claimRoundTrips(g) {
			cat = append(cat, g)
		}
	}
	// wire-level rogues last (positions above stay put)
	cat = append(cat, wireCatalogue(c)...)
	return cat
}

func claimRoundTrips(g greet) bool {
	const sample = "0a1b2c3d4e5f60718293a4b5c6d7e8f901234567"
	r := g.resolve(sample, sample)
	mc := newMemConn(-1, helloBytes(r, sample), false)
	got, err := ccb.VerifReadReverseConnectClaim(context.Background(), stream.NewStream(mc))
	return err == nil && got == r.Claim
}

func legit() greet { return greet{Kind: "hello", Cmd: ccb.CommandReverseConnect, Form: "right"} }

// okReplyFields is the broker's {Result:true} reply, optionally decorated with
// attributes a confused or malicious broker/relay may add: a ClaimId (per the
// resolved echo: a string, an integer, or none) and a few more that repeat the
// same value under other names.  The requester must not let any of them decide
// which hello it accepts.
func okReplyFields(echo *greet) map[string]any {
	f := map[string]any{ccb.AttrResult: true}
	if echo == nil {
		return f
	}
	switch {
	case echo.HasClaim:
		f[ccb.AttrClaimID] = echo.Claim
		f[ccb.AttrRequestID] = echo.Claim
		f[ccb.AttrName] = echo.Claim
	case echo.Form == "int":
		f[ccb.AttrClaimID] = int64(12345)
	default: // absent: other extras only
		f[ccb.AttrRequestID] = "7"
		f[ccb.AttrMyAddress] = "<127.0.0.1:1>"
	}
	return f
}

// echoTerm is the Coq [option bytes] of PrOk: the ClaimId string of the reply.
func echoTerm(echo *greet) string {
	if echo == nil || !echo.HasClaim {
		return "None"
	}
	return "(Some " + bytesTerm(echo.Claim) + ")"
}

func echoName(echo *greet) string {
	if echo == nil {
		return "plain"
	}
	return "echo-" + echo.Form
}

// attacker-chosen id used both as a reply's ClaimId and as a hello's ClaimId
const chosenID = "00112233445566778899aabbccddeeff00112233"

func helloForm(form string) greet {
	g := greet{Kind: "hello", Cmd: ccb.CommandReverseConnect, Form: form}
	if form == "lit" {
		g.Lit = chosenID
	}
	return g
}

func echoDesc(echo *greet) string {
	switch {
	case echo == nil:
		return "none"
	case echo.HasClaim:
		return fmt.Sprintf("%q", echo.Claim)
	}
	return echo.Form
}
