package main

// Function-level cases on in-memory listeners / connections: acceptReversed and
// proxyRequestOnStream driven through the verif hooks on arbitrary scripted
// arrival lists, with no timing at all.

import (
	"context"
	"errors"
	"fmt"
	"net"
	"strings"
	"sync"
	"time"

	"verifharness/core"

	"github.com/bbockelm/cedar/ccb"
	"github.com/bbockelm/cedar/stream"
)

type arrSpec struct {
	Op    string `json:"op"` // conn cancel_blocked cancel_top listen_err
	G     *greet `json:"g,omitempty"`
	Label int    `json:"label,omitempty"`
}

type acceptCase struct {
	ID   string    `json:"id"`
	Prev string    `json:"prev"`
	Arr  []arrSpec `json:"arr"`

	// observed
	Res      string `json:"res"` // conn:<label> | ctx | accept | hang | panic
	Closed   []int  `json:"closed"`
	RetAlive bool   `json:"ret_alive"`
}

func (ac *acceptCase) run() {
	ctx, cancel := context.WithCancel(context.Background())
	defer cancel()
	var mu sync.Mutex
	ac.Closed = nil
	ln := &memListener{}
	var conns []*memConn
	pendingBlockedCancel := false
	var lastRejectable *memConn
	cancelAtStart := false
	label := 0
	for i := range ac.Arr {
		a := &ac.Arr[i]
		switch a.Op {
		case "cancel_blocked":
			pendingBlockedCancel = true
		case "cancel_top":
			if lastRejectable != nil {
				lastRejectable.OnClose = chain(lastRejectable.OnClose, cancel)
			} else if len(ln.items) == 0 {
				cancelAtStart = true
			} else {
				panic("cancel_top at an unsupported position")
			}
		case "listen_err":
			it := memItem{Err: net.ErrClosed}
			if pendingBlockedCancel {
				it.PreAccept = cancel
				pendingBlockedCancel = false
			}
			ln.items = append(ln.items, it)
			lastRejectable = nil
		case "conn":
			label++
			a.Label = label
			g := a.G.resolve(ac.ID, ac.Prev)
			a.G = &g
			data, _, stall := g.wire(nonEmpty(ac.ID))
			mc := newMemConn(label, data, stall)
			lbl := label
			mc.OnClose = func() { mu.Lock(); ac.Closed = append(ac.Closed, lbl); mu.Unlock() }
			if stall {
				mc.OnStall = cancel
			}
			it := memItem{Conn: mc}
			if pendingBlockedCancel {
				it.PreAccept = cancel
				pendingBlockedCancel = false
			}
			ln.items = append(ln.items, it)
			conns = append(conns, mc)
			lastRejectable = mc
		}
	}
	if pendingBlockedCancel {
		// cancelled while blocked in the Accept that then fails
		ln.items = append(ln.items, memItem{Err: net.ErrClosed, PreAccept: cancel})
	}
	if cancelAtStart {
		cancel()
	}
	type res struct {
		conn net.Conn
		err  error
	}
	ch := make(chan res, 1)
	go func() {
		defer func() {
			if p := recover(); p != nil {
				ch <- res{nil, fmt.Errorf("PANIC %v", p)}
			}
		}()
		conn, err := ccb.VerifAcceptReversed(ctx, ln, ac.ID)
		ch <- res{conn, err}
	}()
	select {
	case r := <-ch:
		switch {
		case r.conn != nil:
			mc, ok := r.conn.(*memConn)
			if !ok {
				ac.Res = "conn:0"
				break
			}
			ac.Res = fmt.Sprintf("conn:%d", mc.Label)
			ac.RetAlive = !mc.IsClosed()
		case r.err != nil && strings.HasPrefix(r.err.Error(), "PANIC"):
			ac.Res = "panic"
		case errors.Is(r.err, context.Canceled):
			ac.Res = "ctx"
		default:
			ac.Res = "accept"
		}
	case <-time.After(5 * time.Second):
		ac.Res = "hang"
		cancel()
	}
	// a stalled read is released by the context watcher asynchronously
	time.Sleep(0)
	mu.Lock()
	ac.Closed = append([]int(nil), ac.Closed...)
	mu.Unlock()
}

func nonEmpty(s string) string { return s }

func chain(a, b func()) func() {
	return func() {
		if a != nil {
			a()
		}
		b()
	}
}

func (ac *acceptCase) oracle() []failure {
	var fs []failure
	name := "acceptReversed"
	switch ac.Res {
	case "hang":
		return []failure{{"c20-accept-hang", name + " did not return"}}
	case "panic":
		return []failure{{"c20-accept-panic", name + " panicked"}}
	}
	closed := map[int]bool{}
	for _, l := range ac.Closed {
		closed[l] = true
	}
	ret := 0
	if strings.HasPrefix(ac.Res, "conn:") {
		fmt.Sscanf(ac.Res, "conn:%d", &ret)
	}
	for _, a := range ac.Arr {
		if a.Op != "conn" {
			continue
		}
		m := a.G.Kind == "hello" && a.G.Cmd == ccb.CommandReverseConnect && ((a.G.HasClaim && a.G.Claim == ac.ID) || (!a.G.HasClaim && ac.ID == ""))
		if a.Label == ret {
			if !m {
				fs = append(fs, failure{"c20-returned-nonmatching", fmt.Sprintf("%s(id=%q) returned connection %d whose opening message was %s (claim %q)", name, ac.ID, a.Label, a.G, a.G.Claim)})
			}
			if !ac.RetAlive {
				fs = append(fs, failure{"c20-returned-closed", name + " returned a connection it had closed"})
			}
			break // later connections are never accepted
		}
		if ret != 0 && !closed[a.Label] {
			fs = append(fs, failure{"c20-nonmatching-left-open", fmt.Sprintf("%s(id=%q): connection %d (%s) arrived before the returned one and was not closed", name, ac.ID, a.Label, a.G)})
		}
	}
	if ret == 0 {
		// every connection that was accepted must have been closed
		for _, l := range ac.Closed {
			_ = l
		}
	}
	return fs
}

func (ac *acceptCase) term() string {
	var arr []string
	for _, a := range ac.Arr {
		switch a.Op {
		case "conn":
			arr = append(arr, fmt.Sprintf("AConn %d %s", a.Label, a.G.term()))
		case "cancel_blocked":
			arr = append(arr, "ACancel true")
		case "cancel_top":
			arr = append(arr, "ACancel false")
		case "listen_err":
			arr = append(arr, "AListenErr")
		}
	}
	arr = append(arr, "AListenErr") // the scripted listener fails once it is exhausted
	res := "AccPending"
	switch {
	case strings.HasPrefix(ac.Res, "conn:"):
		res = "(AccConn " + strings.TrimPrefix(ac.Res, "conn:") + ")"
	case ac.Res == "ctx":
		res = "(AccErr ECtx)"
	case ac.Res == "accept":
		res = "(AccErr EAccept)"
	}
	var cl []string
	for _, l := range ac.Closed {
		cl = append(cl, fmt.Sprint(l))
	}
	return fmt.Sprintf("(CAccept %s false %s %s %s)", bytesTerm(ac.ID), core.List(arr), res, core.List(cl))
}

// randID: function-level cases choose the connect id themselves; mostly short
// ids keep the generated Coq terms small, one in eight has the real length.
func randID(c *core.Ctx) string {
	const hexd = "0123456789abcdef"
	n := 3 + c.Rng.Intn(6)
	if c.Rng.Intn(8) == 0 {
		n = 40
	}
	b := make([]byte, n)
	for i := range b {
		b[i] = hexd[c.Rng.Intn(16)]
	}
	return string(b)
}

func randID40(c *core.Ctx) string {
	const hexd = "0123456789abcdef"
	b := make([]byte, 40)
	for i := range b {
		b[i] = hexd[c.Rng.Intn(16)]
	}
	return string(b)
}

func genAccept(c *core.Ctx) {
	cat := rogueCatalogue(c)
	var cases []*acceptCase
	// exhaustive over a small alphabet, all lists up to length 3 (4 in thorough)
	alpha := []arrSpec{
		{Op: "conn", G: ptr(legit())},
		{Op: "conn", G: ptr(cat[0])},
		{Op: "conn", G: ptr(cat[4])},
		{Op: "conn", G: ptr(cat[22])},
		{Op: "conn", G: ptr(cat[29])},
		{Op: "conn", G: ptr(greet{Kind: "stall"})},
		{Op: "cancel_blocked"},
		{Op: "cancel_top"},
		{Op: "listen_err"},
	}
	maxLen := 3
	if !c.Quick() {
		maxLen = 4
	}
	var rec func(prefix []arrSpec, n int)
	rec = func(prefix []arrSpec, n int) {
		cases = append(cases, &acceptCase{ID: randID(c), Prev: randID(c), Arr: cloneArr(prefix)})
		if n == 0 {
			return
		}
		for _, a := range alpha {
			if a.Op == "cancel_top" && !cancelTopAllowed(prefix) {
				continue
			}
			rec(append(cloneArr(prefix), a), n-1)
		}
	}
	rec(nil, maxLen)
	// random longer lists over the whole catalogue
	nrand := 600
	if !c.Quick() {
		nrand = 12000
	}
	for i := 0; i < nrand; i++ {
		ac := &acceptCase{ID: randID(c), Prev: randID(c)}
		switch c.Rng.Intn(40) {
		case 0:
			ac.ID = ""
		case 1:
			ac.ID = "a"
		case 2:
			ac.ID = "0"
		}
		n := c.Rng.Intn(8)
		for j := 0; j < n; j++ {
			switch r := c.Rng.Intn(20); {
			case r < 3:
				ac.Arr = append(ac.Arr, arrSpec{Op: "conn", G: ptr(legit())})
			case r == 3:
				ac.Arr = append(ac.Arr, arrSpec{Op: "cancel_blocked"})
			case r == 4:
				if cancelTopAllowed(ac.Arr) {
					ac.Arr = append(ac.Arr, arrSpec{Op: "cancel_top"})
				}
			case r == 5 && j > 2:
				ac.Arr = append(ac.Arr, arrSpec{Op: "listen_err"})
			case r == 6:
				ac.Arr = append(ac.Arr, arrSpec{Op: "conn", G: ptr(greet{Kind: "stall", Arg: c.Rng.Intn(30)})})
			default:
				ac.Arr = append(ac.Arr, arrSpec{Op: "conn", G: ptr(pick(c, cat))})
			}
		}
		cases = append(cases, ac)
	}
	// the degenerate empty id: a hello without ClaimId (AdString gives "") matches
	// it, in the code and in the model alike; real ids are never empty
	for _, g := range []greet{cat[1], cat[2], legit(), cat[0], cat[15]} {
		cases = append(cases, &acceptCase{ID: "", Prev: randID(c), Arr: []arrSpec{{Op: "conn", G: ptr(cat[22])}, {Op: "conn", G: ptr(g)}}})
	}
	for _, ac := range cases {
		ac.run()
		c.OracleCheck()
		doc := replayDoc{Kind: "accept", Accept: ac}
		report(c, ac.oracle(), doc)
		c.AddCase(ac.term(), doc)
		switch {
		case strings.HasPrefix(ac.Res, "conn:"):
			c.Count("accept/returned")
			c.Nontrivial("accept|" + ac.shape())
		default:
			c.Count("accept/" + ac.Res)
		}
	}
	c.CountN("accept/arrivals", func() int {
		n := 0
		for _, ac := range cases {
			n += len(ac.Arr)
		}
		return n
	}())
}

func (ac *acceptCase) shape() string {
	var s []string
	for _, a := range ac.Arr {
		if a.Op == "conn" {
			s = append(s, a.G.String())
		} else {
			s = append(s, a.Op)
		}
	}
	return strings.Join(s, ",")
}

func cloneArr(a []arrSpec) []arrSpec {
	out := make([]arrSpec, len(a))
	for i := range a {
		out[i] = a[i]
		if a[i].G != nil {
			g := *a[i].G
			out[i].G = &g
		}
	}
	return out
}

// cancel_top (the context is cancelled between two loop iterations) can only be
// scripted at the very start or right after a connection the loop rejects.
func cancelTopAllowed(prefix []arrSpec) bool {
	if len(prefix) == 0 {
		return true
	}
	cancelled := false
	for _, a := range prefix {
		if a.Op == "cancel_blocked" || a.Op == "cancel_top" {
			cancelled = true
		}
		if a.Op == "conn" && a.G.Kind == "stall" {
			cancelled = true
		}
	}
	if cancelled {
		return false
	}
	last := prefix[len(prefix)-1]
	if last.Op != "conn" {
		return false
	}
	g := last.G
	return !(g.Kind == "hello" && g.Form == "right" && g.Cmd == ccb.CommandReverseConnect) && g.Kind != "stall"
}

// ---- proxyRequestOnStream -----------------------------------------------------

type proxyCase struct {
	ID    string  `json:"id"`
	Prev  string  `json:"prev"`
	Reply string  `json:"reply"` // ok fail unsup noresult garbage eof
	Msg   string  `json:"msg,omitempty"`
	Hello *greet  `json:"hello"`
	Echo  *greet  `json:"echo,omitempty"` // reply ok: extra attributes of the reply
	More  []greet `json:"more,omitempty"` // further messages queued behind the first hello on the same socket

	// observed
	Res       string `json:"res"` // returned | <class> | hang | panic | otherconn
	ErrText   string `json:"err_text,omitempty"`
	ReqID     string `json:"req_id"`
	ReqStream bool   `json:"req_streaming"`
}

func controlAdBytes(fields map[string]any) []byte {
	mc := newMemConn(-1, nil, false)
	must(ccb.WriteControlAd(context.Background(), stream.NewStream(mc), ccb.NewAd(fields)))
	return append([]byte(nil), mc.Written...)
}

func (pc *proxyCase) run() {
	ctx, cancel := context.WithCancel(context.Background())
	defer cancel()
	var data []byte
	eof := false
	switch pc.Reply {
	case "ok":
		if pc.Echo != nil {
			e := pc.Echo.resolve(pc.ID, pc.Prev)
			pc.Echo = &e
		}
		data = controlAdBytes(okReplyFields(pc.Echo))
	case "fail":
		data = controlAdBytes(map[string]any{ccb.AttrResult: false, ccb.AttrErrorString: pc.Msg})
	case "unsup":
		data = controlAdBytes(map[string]any{ccb.AttrResult: false, ccb.AttrCCBStreamingUnsupported: true, ccb.AttrName: "old"})
	case "noresult":
		data = controlAdBytes(map[string]any{ccb.AttrErrorString: pc.Msg})
	case "garbage":
		data = []byte{0xEE, 1, 2, 3, 4, 5, 6, 7}
	case "eof":
		eof = true
	}
	g := pc.Hello.resolve(pc.ID, pc.Prev)
	pc.Hello = &g
	stall := false
	if !eof {
		hd, closeAfter, st := g.wire(pc.ID)
		data = append(data, hd...)
		stall = st
		for i := range pc.More {
			if closeAfter || stall {
				pc.More = pc.More[:i]
				break
			}
			m := pc.More[i].resolve(pc.ID, pc.Prev)
			pc.More[i] = m
			hd, closeAfter, stall = m.wire(pc.ID)
			data = append(data, hd...)
		}
	}
	mc := newMemConn(1, data, stall)
	if stall {
		mc.OnStall = cancel
	}
	s := stream.NewStream(mc)
	type res struct {
		conn net.Conn
		err  error
	}
	ch := make(chan res, 1)
	go func() {
		defer func() {
			if p := recover(); p != nil {
				ch <- res{nil, fmt.Errorf("PANIC %v", p)}
			}
		}()
		conn, err := ccb.VerifProxyRequestOnStream(ctx, mc, s, "7", "", pc.ID, "", "verif")
		ch <- res{conn, err}
	}()
	select {
	case r := <-ch:
		switch {
		case r.conn != nil && r.conn == net.Conn(mc):
			pc.Res = "returned"
		case r.conn != nil:
			pc.Res = "otherconn"
		case strings.HasPrefix(r.err.Error(), "PANIC"):
			pc.Res = "panic"
		default:
			pc.Res = classify(r.err)[0]
			pc.ErrText = r.err.Error()
		}
	case <-time.After(5 * time.Second):
		pc.Res = "hang"
		cancel()
	}
	// what did the requester ask for?
	rq := newMemConn(2, append([]byte(nil), mc.Written...), false)
	if ad, err := ccb.ReadControlAd(context.Background(), stream.NewStream(rq)); err == nil {
		pc.ReqID = ccb.AdString(ad, ccb.AttrClaimID)
		pc.ReqStream, _ = ccb.AdBool(ad, ccb.AttrCCBStreamingRequired)
	}
}

func (pc *proxyCase) oracle() []failure {
	var fs []failure
	switch pc.Res {
	case "hang", "panic", "otherconn":
		return []failure{{"c20-proxy-" + pc.Res, "proxyRequestOnStream: " + pc.Res}}
	}
	m := pc.Reply == "ok" && pc.Hello.Kind == "hello" && pc.Hello.Cmd == ccb.CommandReverseConnect && ((pc.Hello.HasClaim && pc.Hello.Claim == pc.ID) || (!pc.Hello.HasClaim && pc.ID == ""))
	if pc.Res == "returned" && !m {
		fs = append(fs, failure{"c20-proxy-returned-without-matching-hello", fmt.Sprintf("proxyRequestOnStream(id=%q) returned the broker connection after reply=%s (reply ClaimId %s) hello=%s (claim %q)", pc.ID, pc.Reply, echoDesc(pc.Echo), pc.Hello, pc.Hello.Claim)})
	}
	if (pc.Reply == "fail" || pc.Reply == "noresult") && !(pc.Res == "proxyrefused" && strings.Contains(pc.ErrText, pc.Msg)) {
		fs = append(fs, failure{"c20-broker-failure-ignored", fmt.Sprintf("proxyRequestOnStream: broker refused with %q but the result was %s", pc.Msg, pc.Res)})
	}
	if pc.Reply == "ok" && pc.Hello.Kind == "hello" && pc.Hello.Cmd == ccb.CommandReverseConnect && !m && pc.Res != "proxymismatch" {
		fs = append(fs, failure{"c20-proxy-wrong-first-hello-not-refused", fmt.Sprintf("proxyRequestOnStream(id=%q): after {Result:true} the first hello carried %q; expected the id-mismatch error whatever follows (%d more messages queued), got %s", pc.ID, pc.Hello.Claim, len(pc.More), pc.Res)})
	}
	if pc.ReqID != pc.ID || !pc.ReqStream {
		fs = append(fs, failure{"c20-proxy-request-id", "the streaming request does not carry this request's connect id / CCBStreamingRequired"})
	}
	return fs
}

func (pc *proxyCase) term() string {
	rep := map[string]string{"ok": "(PrOk " + echoTerm(pc.Echo) + ")", "unsup": "PrUnsupported", "garbage": "PrUnreadable", "eof": "PrUnreadable"}[pc.Reply]
	if pc.Reply == "fail" || pc.Reply == "noresult" {
		rep = "(PrFail " + bytesTerm(pc.Msg) + ")"
	}
	obs := "None"
	if pc.Res != "returned" {
		obs = "(Some " + errTerm(pc.Res, pc.ErrText, []string{pc.Msg}) + ")"
	}
	hs := []string{pc.Hello.term()}
	for _, m := range pc.More {
		hs = append(hs, m.term())
	}
	return fmt.Sprintf("(CProxyFn %s %s %s %s)", bytesTerm(pc.ID), rep, core.List(hs), obs)
}

func genProxyFn(c *core.Ctx) {
	cat := rogueCatalogue(c)
	hellos := append([]greet{legit(), {Kind: "stall"}, {Kind: "stall", Arg: 0}}, cat...)
	runOne := func(pc *proxyCase, canon string) {
		pc.run()
		c.OracleCheck()
		doc := replayDoc{Kind: "proxyfn", Proxy: pc}
		report(c, pc.oracle(), doc)
		c.AddCase(pc.term(), doc)
		c.Count("proxyfn/" + pc.Res)
		if pc.Res == "returned" {
			c.Nontrivial("proxyfn|" + canon)
		}
	}
	// success path on ids of several lengths, and the degenerate empty id
	for i := 0; i < 6; i++ {
		runOne(&proxyCase{ID: randID(c), Prev: randID(c), Reply: "ok", Hello: ptr(legit())}, fmt.Sprintf("ok|legit|%d", i))
	}
	for _, g := range []greet{cat[1], cat[2], legit(), cat[0]} {
		runOne(&proxyCase{ID: "", Prev: randID(c), Reply: "ok", Hello: ptr(g)}, "emptyid|"+g.String())
	}
	// several messages queued on the socket: the first one decides
	for _, first := range append([]greet{legit()}, cat...) {
		if first.Kind == "trunc" || first.Kind == "close" {
			continue
		}
		for k, rest := range [][]greet{{legit()}, {cat[0], legit()}, {helloForm("prev"), helloForm("lit"), legit(), legit()}} {
			if c.Quick() && k == 1 && first.Kind != "hello" {
				continue
			}
			runOne(&proxyCase{ID: randID(c), Prev: randID(c), Reply: "ok", Hello: ptr(first), More: append([]greet(nil), rest...)},
				fmt.Sprintf("queued|%s|%d", first.String(), k))
		}
	}
	// decorated success replies x hellos carrying each candidate id
	for _, ef := range []string{"right", "prev", "lit", "empty", "int", "absent", "prefix", "upper"} {
		for _, hf := range []string{"right", "prev", "lit", "empty", "absent", "int", "prefix", "upper"} {
			e, h := helloForm(ef), helloForm(hf)
			e.Arg, h.Arg = 20, 20
			id := randID(c)
			if ef == "lit" || hf == "lit" || c.Rng.Intn(3) == 0 {
				id = randID40(c)
			}
			runOne(&proxyCase{ID: id, Prev: randID40(c), Reply: "ok", Echo: &e, Hello: &h}, "echo|"+ef+"|"+hf)
		}
	}
	for _, rep := range []string{"ok", "fail", "unsup", "noresult", "garbage", "eof"} {
		for hi, h := range hellos {
			if rep != "ok" && c.Quick() && hi%6 != 0 {
				continue
			}
			id := randID(c)
			if c.Rng.Intn(25) == 0 {
				id = ""
			}
			pc := &proxyCase{ID: id, Prev: randID(c), Reply: rep, Msg: fmt.Sprintf("verif-refusal-%06d", c.Rng.Intn(1000000)), Hello: ptr(h)}
			pc.run()
			c.OracleCheck()
			doc := replayDoc{Kind: "proxyfn", Proxy: pc}
			report(c, pc.oracle(), doc)
			c.AddCase(pc.term(), doc)
			c.Count("proxyfn/" + pc.Res)
			if pc.Res == "returned" {
				c.Nontrivial("proxyfn|" + rep + "|" + h.String())
			}
		}
	}
}
