package main

// Scenario runner: scripted CCB brokers (real cedar servers on loopback) and
// scripted reverse connections driven against the real ccb.Dial.  Every peer
// connection is labelled; after its opening message it waits for a PING from
// whoever holds the other end: only the connection Dial returned is ever
// pinged, and it answers with its label.  Every other connection must see
// EOF/reset (closed by the requester) within a bound.

import (
	"context"
	"errors"
	"fmt"
	"io"
	"net"
	"os"
	"path/filepath"
	"runtime"
	"strings"
	"sync"
	"syscall"
	"time"

	"github.com/bbockelm/cedar/addresses"
	"github.com/bbockelm/cedar/ccb"
	"github.com/bbockelm/cedar/client/sharedport"
	"github.com/bbockelm/cedar/security"
	cedarserver "github.com/bbockelm/cedar/server"
	"github.com/bbockelm/cedar/stream"
)

const (
	stClosed   = "closed"   // peer saw EOF / reset, or the connect was refused
	stReturned = "returned" // peer was pinged through the connection Dial returned
	stOpen     = "open"     // neither within the bound
	stUnused   = "unused"   // step never executed (broker never contacted)
)

type step struct {
	Op   string `json:"op"` // conn reply_ok reply_fail reply_unsup reply_garbage broker_close hello cancel barrier
	G    *greet `json:"g,omitempty"`
	Echo *greet `json:"echo,omitempty"` // reply_ok: extra attributes the broker puts into its success reply (ClaimId per Form)
	Msg  string `json:"msg,omitempty"`
	Racy bool   `json:"racy,omitempty"` // do not wait for the effect before the next step
	IDOf int    `json:"id_of,omitempty"`
	To   int    `json:"to,omitempty"`   // conn: whose listener to connect to / whose id to present (index+1; 0 = self)
	Lost bool   `json:"lost,omitempty"` // conn: the endpoint it is sent to now belongs to another dial; not an arrival of this attempt
	N    int    `json:"n,omitempty"`    // barrier: number of brokers that must have a request; conn: rendezvous size

	// observed
	Label  int    `json:"label,omitempty"`
	Status string `json:"status,omitempty"`
	Done   bool   `json:"done,omitempty"`
}

type brokerScript struct {
	Steps []step `json:"steps"`

	// observed
	Contacted  bool   `json:"contacted,omitempty"`
	Order      int    `json:"order,omitempty"` // 1-based arrival order of the request
	ID         string `json:"id,omitempty"`
	BrokerConn string `json:"broker_conn,omitempty"` // closed | returned | open
	Streaming  bool   `json:"streaming_required,omitempty"`
	Route      string `json:"route,omitempty"`
}

type scenario struct {
	Name    string         `json:"name"`
	Mode    string         `json:"mode"`    // std | proxy | nested
	Stagger int            `json:"stagger"` // ms; <0 sequential
	Prev    bool           `json:"prev"`    // run a complete earlier request first and remember its id
	Brokers []brokerScript `json:"brokers"`
	// Twin, if set, is a second, independent ccb.Dial that runs concurrently with
	// this one (own listener, own broker, own connect id).  Steps with IDOf == -1
	// present the twin's connect id; op "twin_barrier" waits until both dials have
	// their request at their broker.
	Twin *scenario `json:"twin,omitempty"`
	link *linkGroup
	// TwinAfter: start the twin dial only once this dial's request has reached its
	// broker (so this dial's reverse listener exists first).
	TwinAfter bool `json:"twin_after,omitempty"`
	// SP: accept the reverse connection through a shared-port endpoint (a Unix
	// socket fed by fd passing) named SPName ("" = anonymous) instead of a TCP
	// listen socket; the harness plays the shared_port daemon.
	SP     bool   `json:"sp,omitempty"`
	SPName string `json:"sp_name,omitempty"`
	spDir  string

	// observed
	PrevID   string   `json:"prev_id,omitempty"`
	Returned int      `json:"returned"` // label of the peer at the other end of the returned conn, 0 = error, -1 = conn returned but nobody answered
	ErrCls   []string `json:"err_cls,omitempty"`
	ErrText  string   `json:"err_text,omitempty"`
	ErrLines []string `json:"err_lines,omitempty"`
	Hang     bool     `json:"hang,omitempty"`
}

var errClasses = []struct{ sub, cls string }{
	{"broker failure:", "brokerfail"},
	{"broker refused proxy request:", "proxyrefused"},
	{"does not support streaming", "unsupported"},
	{"proxied reverse-connect id mismatch", "proxymismatch"},
	{"reading proxied reverse-connect hello", "proxyhello"},
	{"reading control ad", "brokerread"},
	{"accept reversed connection", "accept"},
	{"timed out", "timeout"},
	{"context canceled", "timeout"},
	{"deadline exceeded", "timeout"},
	{"authenticating to broker", "brokerauth"},
	{"dialing broker", "brokerdial"},
}

func classifyOne(s string) string {
	for _, e := range errClasses {
		if strings.Contains(s, e.sub) {
			return e.cls
		}
	}
	return "other"
}

// classify projects Dial's error to a list of classes (one per joined error).
func classify(err error) []string {
	if err == nil {
		return nil
	}
	var unsup *ccb.StreamingUnsupportedError
	txt := err.Error()
	if strings.HasPrefix(txt, "ccb: all ") {
		if i := strings.Index(txt, "failed: "); i >= 0 {
			txt = txt[i+len("failed: "):]
		}
		var out []string
		for _, l := range strings.Split(txt, "\n") {
			out = append(out, classifyOne(l))
		}
		return out
	}
	if errors.As(err, &unsup) {
		return []string{"unsupported"}
	}
	if strings.Contains(txt, "dial timed out/cancelled") {
		return []string{"timeout"}
	}
	return []string{classifyOne(txt)}
}

// errLines splits Dial's joined error into the per-attempt errors.
func errLines(err error) []string {
	txt := err.Error()
	if strings.HasPrefix(txt, "ccb: all ") {
		if i := strings.Index(txt, "failed: "); i >= 0 {
			txt = txt[i+len("failed: "):]
		}
		return strings.Split(txt, "\n")
	}
	return []string{txt}
}

func plaintextSec() *security.SecurityConfig {
	return &security.SecurityConfig{
		AuthMethods:    []security.AuthMethod{},
		Authentication: security.SecurityNever,
		Encryption:     security.SecurityNever,
		Integrity:      security.SecurityNever,
		RemoteVersion:  "$CondorVersion: 25.13.0 2026-06-21 BuildID: verif $",
	}
}

// linkGroup joins the two runners of a scenario and its twin.
type linkGroup struct {
	mu      sync.Mutex
	brokers map[*scenario]*liveBroker
	done    map[*scenario]bool
}

func (l *linkGroup) register(sc *scenario, b *liveBroker) {
	l.mu.Lock()
	l.brokers[sc] = b
	l.mu.Unlock()
}

func (l *linkGroup) finished(sc *scenario) {
	l.mu.Lock()
	if l.done == nil {
		l.done = map[*scenario]bool{}
	}
	l.done[sc] = true
	l.mu.Unlock()
}

// waitOtherFinished waits (bounded) until the other dial's ccb.Dial has returned.
func (l *linkGroup) waitOtherFinished(sc *scenario) {
	dl := time.Now().Add(4 * time.Second)
	for time.Now().Before(dl) {
		l.mu.Lock()
		for k, d := range l.done {
			if k != sc && d {
				l.mu.Unlock()
				return
			}
		}
		l.mu.Unlock()
		time.Sleep(time.Millisecond)
	}
}

// other waits (bounded) for the other dial's broker to have its request.
func (l *linkGroup) other(sc *scenario) *liveBroker {
	dl := time.Now().Add(3 * time.Second)
	for time.Now().Before(dl) {
		l.mu.Lock()
		for k, b := range l.brokers {
			if k != sc {
				l.mu.Unlock()
				return b
			}
		}
		l.mu.Unlock()
		time.Sleep(time.Millisecond)
	}
	return nil
}

type peerConn struct {
	label  int
	conn   net.Conn
	done   chan struct{}
	status string
	mu     sync.Mutex
}

func (p *peerConn) set(s string) {
	p.mu.Lock()
	if p.status == "" {
		p.status = s
		close(p.done)
	}
	p.mu.Unlock()
}
func (p *peerConn) get() string {
	p.mu.Lock()
	defer p.mu.Unlock()
	return p.status
}

// watch waits for PING (-> answers with the label) or for the connection to die.
func (p *peerConn) watch() {
	buf := make([]byte, 4)
	_ = p.conn.SetReadDeadline(time.Now().Add(8 * time.Second))
	_, err := io.ReadFull(p.conn, buf)
	if err == nil && string(buf) == "PING" {
		_, _ = p.conn.Write([]byte(fmt.Sprintf("T%07d", p.label)))
		p.set(stReturned)
		return
	}
	var ne net.Error
	if err != nil && errors.As(err, &ne) && ne.Timeout() {
		p.set(stOpen)
		return
	}
	p.set(stClosed)
}

func waitDone(ch <-chan struct{}, d time.Duration) bool {
	select {
	case <-ch:
		return true
	case <-time.After(d):
		return false
	}
}

type liveBroker struct {
	idx        int
	ln         net.Listener
	addr       string
	reqCh      chan struct{} // closed when the request has arrived
	scriptDone chan struct{}
	id         string
	myAddr     string
	strm       *stream.Stream
	bconn      *peerConn
	once       sync.Once
}

type runner struct {
	sc      *scenario
	brokers []*liveBroker
	cancel  context.CancelFunc

	mu       sync.Mutex
	arrivals int
	ready    int
	peers    []*peerConn
	nextLbl  int
	wg       sync.WaitGroup
	bound    time.Duration
}

// wait waits for ch up to the scenario's bound. Once one wait in a scenario has
// timed out (something was left open that should have been closed: the oracle will
// report it) later waits are cut short so a broken implementation does not make
// the whole run crawl.
func (r *runner) wait(ch <-chan struct{}) bool {
	r.mu.Lock()
	b := r.bound
	r.mu.Unlock()
	if waitDone(ch, b) {
		return true
	}
	r.mu.Lock()
	r.bound = 250 * time.Millisecond
	r.mu.Unlock()
	return false
}

func (r *runner) newLabel() int {
	r.mu.Lock()
	defer r.mu.Unlock()
	r.nextLbl++
	return r.nextLbl
}

func (r *runner) contacted() int {
	r.mu.Lock()
	defer r.mu.Unlock()
	return r.arrivals
}

// runScript performs broker b's script once its request has arrived.
func (r *runner) runScript(ctx context.Context, b *liveBroker) {
	bs := &r.sc.Brokers[b.idx]
	for i := range bs.Steps {
		st := &bs.Steps[i]
		st.Done = true
		switch st.Op {
		case "barrier":
			dl := time.Now().Add(3 * time.Second)
			for r.contacted() < st.N && time.Now().Before(dl) {
				time.Sleep(time.Millisecond)
			}
		case "twin_wait": // until the other dial is over
			if r.sc.link != nil {
				r.sc.link.waitOtherFinished(r.sc)
			}
		case "twin_barrier":
			if r.sc.link != nil {
				r.sc.link.other(r.sc)
			}
		case "cancel":
			r.cancel()
			// wait until the requester has torn the broker connection down
			r.wait(b.bconn.done)
		case "reply_ok":
			if st.Echo != nil {
				e := st.Echo.resolve(b.id, r.sc.PrevID)
				st.Echo = &e
			}
			_ = ccb.WriteControlAd(ctx, b.strm, ccb.NewAd(okReplyFields(st.Echo)))
		case "reply_fail":
			_ = ccb.WriteControlAd(ctx, b.strm, ccb.NewAd(map[string]any{ccb.AttrResult: false, ccb.AttrErrorString: st.Msg}))
			if !st.Racy {
				r.wait(b.bconn.done)
			}
		case "reply_unsup":
			_ = ccb.WriteControlAd(ctx, b.strm, ccb.NewAd(map[string]any{ccb.AttrResult: false, ccb.AttrCCBStreamingUnsupported: true, ccb.AttrName: "old"}))
			if !st.Racy {
				r.wait(b.bconn.done)
			}
		case "reply_noresult": // a reply ad without a Result attribute
			_ = ccb.WriteControlAd(ctx, b.strm, ccb.NewAd(map[string]any{ccb.AttrErrorString: st.Msg}))
			if !st.Racy {
				r.wait(b.bconn.done)
			}
		case "reply_garbage":
			_, _ = b.strm.GetConnection().Write([]byte{0xEE, 1, 2, 3, 4, 5, 6, 7, 8, 9})
			if !st.Racy {
				r.wait(b.bconn.done)
			}
		case "broker_close":
			// half-close: the requester reads EOF where it expects the reply; we keep
			// our read side so that we can see the requester tear the connection
			// down (= the attempt is over) before the next step
			if tc, ok := b.strm.GetConnection().(*net.TCPConn); ok {
				_ = tc.CloseWrite()
				r.wait(b.bconn.done)
			} else {
				_ = b.strm.GetConnection().Close()
				time.Sleep(20 * time.Millisecond)
			}
		case "hello": // proxied mode: the hello travels on the broker connection
			g := st.G.resolve(b.id, r.sc.PrevID)
			st.G = &g
			data, closeAfter, _ := g.wire(b.id)
			_, _ = b.strm.GetConnection().Write(data)
			if closeAfter {
				_ = b.strm.GetConnection().Close()
			}
			if !st.Racy && !g.matches(b.id) {
				r.wait(b.bconn.done)
			}
		case "conn":
			to, of := b, b
			if st.To > 0 {
				to = r.brokers[st.To-1]
			}
			if st.IDOf > 0 {
				of = r.brokers[st.IDOf-1]
			}
			if st.IDOf == -1 {
				if r.sc.link == nil {
					st.Status = stUnused
					continue
				}
				if of = r.sc.link.other(r.sc); of == nil {
					st.Status = stUnused
					continue
				}
			}
			// both brokers must have their request by now
			if !waitDone(to.reqCh, 3*time.Second) || !waitDone(of.reqCh, 3*time.Second) {
				st.Status = stUnused
				continue
			}
			g := st.G.resolve(of.id, r.sc.PrevID)
			st.G = &g
			st.Label = r.newLabel()
			conn, err := r.dialPeer(to.myAddr)
			if err != nil {
				st.Status = stClosed // refused: the listener is gone
				continue
			}
			data, closeAfter, stall := g.wire(of.id)
			if st.N > 0 {
				// rendezvous: N scripted peers are connected before any of them
				// sends its greeting, so that the greetings arrive together
				r.mu.Lock()
				r.ready++
				r.mu.Unlock()
				dl := time.Now().Add(2 * time.Second)
				for time.Now().Before(dl) {
					r.mu.Lock()
					ok := r.ready >= st.N
					r.mu.Unlock()
					if ok {
						break
					}
					runtime.Gosched()
				}
			}
			_, _ = conn.Write(data)
			if closeAfter {
				_ = conn.Close()
				st.Status = stClosed
				time.Sleep(2 * time.Millisecond)
				continue
			}
			p := &peerConn{label: st.Label, conn: conn, done: make(chan struct{})}
			r.mu.Lock()
			r.peers = append(r.peers, p)
			r.mu.Unlock()
			r.wg.Add(1)
			go func() { defer r.wg.Done(); p.watch() }()
			if !st.Racy && !stall {
				r.wait(p.done)
			}
		default:
			panic("unknown op " + st.Op)
		}
	}
}

// dialPeer opens a scripted peer connection to a requester's advertised return
// address: plain TCP, or, for a shared-port sinful "host:port?sock=NAME", what the
// shared_port daemon would do -- hand one end of a fresh stream socket to the
// endpoint's Unix socket by fd passing.
func (r *runner) dialPeer(addr string) (net.Conn, error) {
	i := strings.Index(addr, "?sock=")
	if i < 0 {
		return net.DialTimeout("tcp", addr, 2*time.Second)
	}
	name := addr[i+len("?sock="):]
	fds, err := syscall.Socketpair(syscall.AF_UNIX, syscall.SOCK_STREAM, 0)
	if err != nil {
		return nil, err
	}
	mine := os.NewFile(uintptr(fds[0]), "peer")
	theirs := os.NewFile(uintptr(fds[1]), "forwarded")
	defer theirs.Close() // the endpoint holds its own duplicate after the pass
	conn, err := net.FileConn(mine)
	_ = mine.Close()
	if err != nil {
		return nil, err
	}
	uc, err := net.DialUnix("unix", nil, &net.UnixAddr{Name: filepath.Join(r.sc.spDir, name), Net: "unix"})
	if err != nil {
		_ = conn.Close()
		return nil, err
	}
	defer uc.Close()
	ctx, cancel := context.WithTimeout(context.Background(), 2*time.Second)
	defer cancel()
	if err := sharedport.SendForwardedConn(ctx, uc, theirs.Fd()); err != nil {
		_ = conn.Close()
		return nil, err
	}
	return conn, nil
}

func trimSinful(s string) string { return strings.Trim(s, "<>") }

// run executes the scenario against the real ccb.Dial and fills in the observed fields.
func (sc *scenario) run() {
	r := &runner{sc: sc, bound: 2 * time.Second}
	ctx, cancelAll := context.WithCancel(context.Background())
	defer cancelAll()
	var contacts []addresses.CCBContact

	if sc.SP && sc.spDir == "" {
		d, err := os.MkdirTemp("", "c20sp")
		if err != nil {
			panic(err)
		}
		sc.spDir = d
		defer os.RemoveAll(d)
	}
	if sc.Twin != nil && sc.link == nil {
		sc.link = &linkGroup{brokers: map[*scenario]*liveBroker{}}
		sc.Twin.link = sc.link
		sc.Twin.spDir = sc.spDir
		twinDone := make(chan struct{})
		go func() {
			defer close(twinDone)
			if sc.TwinAfter {
				sc.link.other(sc.Twin) // = this dial's broker has its request
			}
			sc.Twin.run()
		}()
		defer func() { <-twinDone }()
	}
	if sc.Prev { // an earlier, complete request whose id a rogue will replay
		pre := &scenario{Mode: "std", Stagger: -1, Brokers: []brokerScript{{Steps: []step{{Op: "conn", G: ptr(legit())}}}}}
		pre.run()
		sc.PrevID = pre.Brokers[0].ID
	}

	for i := range sc.Brokers {
		ln, err := net.Listen("tcp", "127.0.0.1:0")
		if err != nil {
			panic(err)
		}
		b := &liveBroker{idx: i, ln: ln, addr: ln.Addr().String(), reqCh: make(chan struct{}), scriptDone: make(chan struct{})}
		r.brokers = append(r.brokers, b)
		srv := cedarserver.New(plaintextSec())
		var handled sync.Once
		srv.Handle(ccb.CommandRequest, func(hctx context.Context, c *cedarserver.Conn) error {
			first := false
			handled.Do(func() { first = true })
			if !first {
				return fmt.Errorf("second request to the same scripted broker")
			}
			defer close(b.scriptDone)
			ad, err := ccb.ReadControlAd(hctx, c.Stream)
			if err != nil {
				return err
			}
			bs := &sc.Brokers[b.idx]
			b.id = ccb.AdString(ad, ccb.AttrClaimID)
			b.myAddr = trimSinful(ccb.AdString(ad, ccb.AttrMyAddress))
			b.strm = c.Stream
			bs.ID = b.id
			bs.Contacted = true
			bs.Route = ccb.AdString(ad, ccb.AttrCCBRoute)
			bs.Streaming, _ = ccb.AdBool(ad, ccb.AttrCCBStreamingRequired)
			b.bconn = &peerConn{label: 1000 + b.idx, conn: c.Stream.GetConnection(), done: make(chan struct{})}
			r.wg.Add(1)
			go func() { defer r.wg.Done(); b.bconn.watch() }()
			r.mu.Lock()
			r.arrivals++
			bs.Order = r.arrivals
			r.mu.Unlock()
			close(b.reqCh)
			if sc.link != nil {
				sc.link.register(sc, b)
			}
			r.runScript(ctx, b)
			return cedarserver.KeepOpen()
		})
		go func() { _ = srv.Serve(ctx, ln) }()
		switch sc.Mode {
		case "nested":
			// "<entry>#id0#id1": the broker address itself carries a '#', so
			// Dial resolves it through resolveContact / proxyRequestDial.
			contacts = append(contacts, addresses.CCBContact{BrokerAddr: b.addr + "#5", CCBID: "9", Raw: b.addr + "#5#9"})
		default:
			contacts = append(contacts, addresses.CCBContact{BrokerAddr: b.addr, CCBID: fmt.Sprint(b.idx + 1), Raw: fmt.Sprintf("%s#%d", b.addr, b.idx+1)})
		}
	}

	opts := ccb.DialOptions{Security: plaintextSec(), ListenAddr: "127.0.0.1:0", Timeout: 6 * time.Second, TargetDesc: "verif"}
	if sc.Stagger < 0 {
		opts.Stagger = -1
	} else {
		opts.Stagger = time.Duration(sc.Stagger) * time.Millisecond
	}
	if sc.SP {
		opts.ListenAddr = ""
		opts.SharedPortEndpoint = &ccb.SharedPortEndpointConfig{SharedPortAddr: "127.0.0.1:1", SocketDir: sc.spDir, SocketName: sc.SPName}
	}
	if sc.Mode == "proxy" || sc.Mode == "nested" {
		opts.ProxyReturnAddr = "<127.0.0.1:0?ccbid=127.0.0.1:0%231>"
		opts.RequireStreaming = true
	}
	dctx, dcancel := context.WithCancel(ctx)
	r.cancel = dcancel
	type dres struct {
		conn net.Conn
		err  error
	}
	resCh := make(chan dres, 1)
	go func() {
		defer func() {
			if p := recover(); p != nil {
				resCh <- dres{nil, fmt.Errorf("PANIC: %v", p)}
			}
		}()
		conn, err := ccb.Dial(dctx, contacts, opts)
		resCh <- dres{conn, err}
	}()

	var res dres
	select {
	case res = <-resCh:
	case <-time.After(9 * time.Second):
		sc.Hang = true
		dcancel()
		select {
		case res = <-resCh:
		case <-time.After(2 * time.Second):
		}
	}
	if sc.link != nil {
		sc.link.finished(sc)
	}
	sc.Returned = 0
	if res.conn != nil {
		sc.Returned = -1
		_ = res.conn.SetDeadline(time.Now().Add(1500 * time.Millisecond))
		if _, err := res.conn.Write([]byte("PING")); err == nil {
			buf := make([]byte, 8)
			if _, err := io.ReadFull(res.conn, buf); err == nil && buf[0] == 'T' {
				fmt.Sscanf(string(buf[1:]), "%d", &sc.Returned)
			}
		}
	}
	if res.err != nil {
		sc.ErrCls = classify(res.err)
		sc.ErrText = res.err.Error()
		sc.ErrLines = errLines(res.err)
	}
	// let the scripts finish (they only wait on bounded events), then give every
	// watcher the bound to see its connection die
	sdl := time.Now().Add(5 * time.Second)
	for _, b := range r.brokers {
		select {
		case <-b.reqCh:
			waitDone(b.scriptDone, time.Until(sdl))
		default: // never contacted: its script never runs
		}
	}
	r.mu.Lock()
	dl := time.Now().Add(r.bound)
	peers := append([]*peerConn(nil), r.peers...)
	r.mu.Unlock()
	for _, b := range r.brokers {
		if b.bconn != nil {
			peers = append(peers, b.bconn)
		}
	}
	for _, p := range peers {
		if !waitDone(p.done, time.Until(dl)) {
			p.set(stOpen)
		}
	}
	for i := range sc.Brokers {
		bs := &sc.Brokers[i]
		if r.brokers[i].bconn != nil {
			bs.BrokerConn = r.brokers[i].bconn.get()
		}
		for j := range bs.Steps {
			st := &bs.Steps[j]
			if !st.Done {
				st.Status = stUnused
			}
		}
	}
	// per-conn statuses recorded by deferred closures need the scripts to be over
	for _, p := range peers {
		_ = p.conn.Close()
	}
	if res.conn != nil {
		_ = res.conn.Close()
	}
	cancelAll()
	for _, b := range r.brokers {
		_ = b.ln.Close()
	}
	r.fillStatuses()
}

func (r *runner) fillStatuses() {
	byLabel := map[int]string{}
	r.mu.Lock()
	for _, p := range r.peers {
		byLabel[p.label] = p.get()
	}
	r.mu.Unlock()
	for i := range r.sc.Brokers {
		for j := range r.sc.Brokers[i].Steps {
			st := &r.sc.Brokers[i].Steps[j]
			if s, ok := byLabel[st.Label]; ok && st.Op == "conn" {
				st.Status = s
			}
		}
	}
}

func ptr[T any](v T) *T { return &v }
