package main

// In-memory net.Conn / net.Listener used to drive the unexported accept loop
// (ccb.VerifAcceptReversed) and the proxied hello check
// (ccb.VerifProxyRequestOnStream) on arbitrary scripted arrival lists without
// any timing: every event is a function call.

import (
	"errors"
	"io"
	"net"
	"sync"
	"time"
)

type memAddr string

func (a memAddr) Network() string { return "mem" }
func (a memAddr) String() string  { return string(a) }

// memConn serves a fixed byte string to its reader. When the data is exhausted
// it returns EOF (Stall == false) or blocks until Close (Stall == true).
type memConn struct {
	Label int
	Data  []byte
	Stall bool

	OnClose func() // called once, on the first Close
	OnStall func() // called once, when a Read starts blocking

	mu       sync.Mutex
	pos      int
	closed   bool
	closedCh chan struct{}
	stalled  bool
	nClose   int
	Written  []byte
}

func newMemConn(label int, data []byte, stall bool) *memConn {
	return &memConn{Label: label, Data: data, Stall: stall, closedCh: make(chan struct{})}
}

func (c *memConn) Read(p []byte) (int, error) {
	c.mu.Lock()
	if c.closed {
		c.mu.Unlock()
		return 0, net.ErrClosed
	}
	if c.pos < len(c.Data) {
		n := copy(p, c.Data[c.pos:])
		c.pos += n
		c.mu.Unlock()
		return n, nil
	}
	if !c.Stall {
		c.mu.Unlock()
		return 0, io.EOF
	}
	first := !c.stalled
	c.stalled = true
	c.mu.Unlock()
	if first && c.OnStall != nil {
		c.OnStall()
	}
	select {
	case <-c.closedCh:
		return 0, net.ErrClosed
	case <-time.After(10 * time.Second): // watchdog: never hang the harness
		return 0, errors.New("memConn: stalled read never released")
	}
}

func (c *memConn) Write(p []byte) (int, error) {
	c.mu.Lock()
	defer c.mu.Unlock()
	if c.closed {
		return 0, net.ErrClosed
	}
	c.Written = append(c.Written, p...)
	return len(p), nil
}

func (c *memConn) Close() error {
	c.mu.Lock()
	c.nClose++
	if c.closed {
		c.mu.Unlock()
		return net.ErrClosed
	}
	c.closed = true
	close(c.closedCh)
	cb := c.OnClose
	c.mu.Unlock()
	if cb != nil {
		cb()
	}
	return nil
}

func (c *memConn) IsClosed() bool {
	c.mu.Lock()
	defer c.mu.Unlock()
	return c.closed
}
func (c *memConn) Consumed() int {
	c.mu.Lock()
	defer c.mu.Unlock()
	return c.pos
}

func (c *memConn) LocalAddr() net.Addr                { return memAddr("mem-local") }
func (c *memConn) RemoteAddr() net.Addr               { return memAddr("mem-remote") }
func (c *memConn) SetDeadline(t time.Time) error      { return nil }
func (c *memConn) SetReadDeadline(t time.Time) error  { return nil }
func (c *memConn) SetWriteDeadline(t time.Time) error { return nil }

// memListener returns the scripted items in order; when the script is
// exhausted Accept fails like a closed listener and flags Exhausted.
type memItem struct {
	Conn      *memConn
	Err       error
	PreAccept func() // run inside Accept before returning this item
}

type memListener struct {
	mu        sync.Mutex
	items     []memItem
	next      int
	Accepts   int
	Exhausted bool
	closed    bool
}

func (l *memListener) Accept() (net.Conn, error) {
	l.mu.Lock()
	l.Accepts++
	if l.next >= len(l.items) {
		l.Exhausted = true
		l.mu.Unlock()
		return nil, net.ErrClosed
	}
	it := l.items[l.next]
	l.next++
	l.mu.Unlock()
	if it.PreAccept != nil {
		it.PreAccept()
	}
	if it.Err != nil {
		return nil, it.Err
	}
	return it.Conn, nil
}
func (l *memListener) Close() error   { l.mu.Lock(); l.closed = true; l.mu.Unlock(); return nil }
func (l *memListener) Addr() net.Addr { return memAddr("mem-listener") }
