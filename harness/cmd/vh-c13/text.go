package main

import (
	"bytes"
	"errors"
	"fmt"
	"io"
	"sort"
	"strings"
	"time"

	"verifharness/core"

	"github.com/PelicanPlatform/classad/classad"
	"github.com/bbockelm/cedar/addresses"
	"github.com/bbockelm/cedar/client/sharedport"
	"github.com/bbockelm/cedar/message"
	"github.com/bbockelm/cedar/security"
	"github.com/bbockelm/cedar/version"
	"github.com/bbockelm/cedar/watch"
)

// textCase is one call of a text / blob parser.
type textCase struct {
	Kind string `json:"kind"` // "text"
	Fn   string `json:"fn"`
	In   []byte `json:"in"`
}

type textRes struct {
	strs []string          // claim id fields; for ParseSinful: see sinfulStrs
	kvs  map[string]string // session-info attributes / sinful params
}

// sinfulStrs flattens a SinfulInfo: err, primary, host, port, sock, privaddr, privnet, alias,
// noudp, #addrs, addrs..., then (broker, id, raw) per CCB contact.
func sinfulStrs(i addresses.SinfulInfo, err error) []string {
	b := func(x bool) string {
		if x {
			return "1"
		}
		return ""
	}
	out := []string{b(err != nil), i.PrimaryAddr, i.Host, i.Port, i.SharedPortID, i.PrivateAddr, i.PrivateNet, i.Alias, b(i.NoUDP), fmt.Sprint(len(i.Addrs))}
	out = append(out, i.Addrs...)
	for _, c := range i.CCBContacts {
		out = append(out, c.BrokerAddr, c.CCBID, c.Raw)
	}
	return out
}

var textFns = []string{"claim_strict", "attrs", "secinfo", "claim", "private_inherit", "inherit", "import_claim",
	"htcondor_addr", "sinful", "ccb_contact", "sp_id", "version", "sp_header", "watch_request", "watch_header",
	"broker_list", "flat_contact"}

type countReader struct {
	r *bytes.Reader
	n int
}

func (c *countReader) Read(b []byte) (int, error) {
	n, err := c.r.Read(b)
	c.n += n
	return n, err
}

func runText(tc *textCase) (textRes, []failure) {
	if tc.Fn == "blob" {
		_, _, fails := runBlob(tc.In)
		return textRes{}, fails
	}
	s := string(tc.In)
	var res textRes
	var extra []failure
	out := guarded(func() ([]byte, bool, error) {
		switch tc.Fn {
		case "claim_strict":
			c := security.ParseClaimIDStrict(s)
			res.strs = []string{c.SecSessionID(), c.SecSessionInfo(), c.SecSessionKey()}
			_ = c.PublicClaimID()
		case "attrs":
			m, err := security.ImportSessionInfoAttributes(s)
			res.kvs = m
			return nil, false, err
		case "secinfo":
			_, err := security.ImportSecSessionInfo(s)
			return nil, false, err
		case "claim":
			c := security.ParseClaimID(s)
			_, _, _, _ = c.SecSessionID(), c.SecSessionInfo(), c.SecSessionKey(), c.PublicClaimID()
		case "private_inherit":
			_ = security.ParseCondorPrivateInherit(s)
		case "inherit":
			_, _, _ = security.ParseCondorInherit(s)
		case "import_claim":
			_, err := security.ImportClaimSession(security.NewSessionCache(), s, security.ClaimSessionOptions{PeerAddr: "<10.0.0.1:9618>", ExtraValidCommands: []int{442}})
			return nil, false, err
		case "htcondor_addr", "sp_id", "ccb_contact", "broker_list", "flat_contact", "contact_string":
			res.strs, extra = runAddr(tc.Fn, tc.In)
		case "sinful":
			i, err := addresses.ParseSinful(s)
			_, _ = i.IsCCB(), i.IsSharedPort()
			res.strs = sinfulStrs(i, err)
			res.kvs = i.Params
			if i.Raw != s {
				extra = append(extra, failure{"accounting", "ParseSinful: Raw differs from the input"})
			}
			return nil, false, nil
		case "parse_expr":
			_ = message.VerifParseAndInsertExpression(classad.New(), s)
		case "old_string":
			_, _ = message.VerifDecodeOldClassAdString(s)
		case "version":
			v, ok := version.Parse(s)
			al := false
			if ok {
				_ = v.String()
				al = v.AtLeast(version.CondorVersion{Major: 9, Minor: 9})
				if bs := message.NewHTCondorVersion(v.Major, v.Minor, v.Sub).BuiltSinceVersion(9, 9, 0); bs != al {
					extra = append(extra, failure{"version-gate", fmt.Sprintf("BuiltSinceVersion(9,9,0)=%v but AtLeast(9.9.0)=%v for %v", bs, al, v)})
				}
			}
			res.strs = []string{fmt.Sprint(ok), fmt.Sprint(v.Major), fmt.Sprint(v.Minor), fmt.Sprint(v.Sub), fmt.Sprint(al)}
		case "sp_header":
			cr := &countReader{r: bytes.NewReader(tc.In)}
			err := sharedport.VerifC13ReadPassSockHeader(cr)
			if cr.n > 5+64 {
				extra = append(extra, failure{"cap-consumed", fmt.Sprintf("shared-port header reader consumed %d bytes (bound 69)", cr.n)})
			}
			cls := "0"
			if err != nil {
				cls = "4"
				if errors.Is(err, io.EOF) || errors.Is(err, io.ErrUnexpectedEOF) {
					cls = "1"
				}
			}
			res.strs = []string{cls, fmt.Sprint(cr.n)}
			return nil, false, err
		case "sp_header_write":
			var buf bytes.Buffer
			if err := sharedport.VerifC13WritePassSockHeader(&buf); err != nil {
				return nil, false, err
			}
			res.strs = []string{buf.String()}
			// reader . writer, with the case's input as trailing bytes (model-independent oracle)
			cr := &countReader{r: bytes.NewReader(append(append([]byte(nil), buf.Bytes()...), tc.In...))}
			if err := sharedport.VerifC13ReadPassSockHeader(cr); err != nil || cr.n != buf.Len() {
				extra = append(extra, failure{"roundtrip", fmt.Sprintf("readPassSockHeader(writePassSockHeader() ++ %d bytes): err=%v consumed=%d", len(tc.In), err, cr.n)})
			}
		case "watch_dec_req", "watch_dec_hdr", "watch_enc_req", "watch_enc_hdr":
			var err error
			res.strs, extra, err = runWatch(tc.Fn, tc.In)
			return nil, false, err
		case "watch_request":
			ad := classad.New()
			parts := strings.SplitN(s, "\x00", 3)
			for len(parts) < 3 {
				parts = append(parts, "")
			}
			ad.InsertAttrString(watch.AttrAdType, parts[0])
			ad.InsertAttrString(watch.AttrConstraint, parts[1])
			ad.InsertAttrString(watch.AttrCursor, parts[2])
			_, _, _, err := watch.DecodeRequest(ad)
			return nil, false, err
		case "watch_header":
			ad := classad.New()
			parts := strings.SplitN(s, "\x00", 2)
			for len(parts) < 2 {
				parts = append(parts, "")
			}
			ad.InsertAttr(watch.AttrKind, int64(len(s))-3)
			ad.InsertAttrString(watch.AttrKey, parts[0])
			ad.InsertAttrString(watch.AttrCursor, parts[1])
			k, _, _, err := watch.DecodeHeader(ad)
			_, _ = k.String(), k.HasAd()
			return nil, false, err
		default:
			panic("unknown text fn " + tc.Fn)
		}
		return nil, false, nil
	}, anyErrClass)
	var fails []failure
	if out.TimedOut {
		return res, []failure{{"spin", fmt.Sprintf("%s did not return within %v on a %d-byte input", tc.Fn, spinTimeout, len(tc.In))}}
	}
	if out.Cls == 9 {
		fails = append(fails, failure{"panic", fmt.Sprintf("%s panicked on %q: %s", tc.Fn, trunc(s), out.Panic)})
	}
	if b := allocBound("text", len(tc.In)); out.Alloc > b {
		fails = append(fails, failure{"alloc", fmt.Sprintf("%s allocated %d bytes for a %d-byte input (bound %d)", tc.Fn, out.Alloc, len(tc.In), b)})
	}
	if (tc.Fn == "sp_header" || tc.Fn == "sp_header_write") && out.Alloc > 16384 {
		fails = append(fails, failure{"alloc", fmt.Sprintf("%s allocated %d bytes (the header is at most 69 bytes; bound 16 KiB)", tc.Fn, out.Alloc)})
	}
	if out.Dur > 3*time.Second {
		fails = append(fails, failure{"slow", fmt.Sprintf("%s ran %v on a %d-byte input", tc.Fn, out.Dur, len(tc.In))})
	}
	return res, append(fails, extra...)
}

func trunc(s string) string {
	if len(s) > 60 {
		return s[:60] + "..."
	}
	return s
}

// modelable: the session-info model uses ASCII white space; Go's TrimSpace also
// trims the multi-byte Unicode spaces, whose lead bytes are excluded here.
func asciiSpaceOnly(b []byte) bool {
	for _, x := range b {
		if x == 0xc2 || x == 0xe1 || x == 0xe2 || x == 0xe3 {
			return false
		}
	}
	return true
}

func addTextCase(c *core.Ctx, fn string, in []byte) {
	if aborted {
		return
	}
	tc := &textCase{Kind: "text", Fn: fn, In: in}
	res, fails, ok := pText(tc)
	c.OracleCheck()
	for _, f := range fails {
		c.OracleFail(f.key, f.desc, tc)
	}
	c.Count("text-" + fn)
	if len(fails) > 0 || !ok {
		return
	}
	switch fn {
	case "claim_strict":
		c.AddCase(fmt.Sprintf("CClaim %s %s %s %s", bytesTerm(in), bytesTerm([]byte(res.strs[0])), bytesTerm([]byte(res.strs[1])), bytesTerm([]byte(res.strs[2]))), tc)
		if res.strs[1] != "" {
			c.Nontrivial("claim|" + string(in))
		}
	case "attrs":
		if !asciiSpaceOnly(in) {
			c.Evaluated(1)
			return
		}
		keys := make([]string, 0, len(res.kvs))
		for k := range res.kvs {
			keys = append(keys, k)
		}
		sort.Strings(keys)
		var kv []string
		for _, k := range keys {
			kv = append(kv, core.Pair(bytesTerm([]byte(k)), bytesTerm([]byte(res.kvs[k]))))
		}
		c.AddCase(fmt.Sprintf("CAttrs %s %s", bytesTerm(in), core.List(kv)), tc)
		if len(keys) > 0 {
			c.Nontrivial("attrs|" + string(in))
		}
	case "version":
		st := res.strs
		zt := func(x string) string {
			if strings.HasPrefix(x, "-") {
				return "(" + x + ")%Z"
			}
			return x + "%Z"
		}
		c.AddCase(fmt.Sprintf("CVersion %s %s %s %s %s %s", bytesTerm(in), st[0], zt(st[1]), zt(st[2]), zt(st[3]), st[4]), tc)
		if st[0] == "true" {
			c.Nontrivial("version|" + string(in))
		}
	case "sinful":
		st := res.strs
		nAddrs := 0
		fmt.Sscan(st[9], &nAddrs)
		var addrs, ccb, kv []string
		for _, a := range st[10 : 10+nAddrs] {
			addrs = append(addrs, bytesTerm([]byte(a)))
		}
		rest := st[10+nAddrs:]
		for k := 0; k+2 < len(rest)+0 && k+3 <= len(rest); k += 3 {
			ccb = append(ccb, "("+bytesTerm([]byte(rest[k]))+", "+bytesTerm([]byte(rest[k+1]))+", "+bytesTerm([]byte(rest[k+2]))+")")
		}
		keys := make([]string, 0, len(res.kvs))
		for k := range res.kvs {
			keys = append(keys, k)
		}
		sort.Strings(keys)
		for _, k := range keys {
			kv = append(kv, core.Pair(bytesTerm([]byte(k)), bytesTerm([]byte(res.kvs[k]))))
		}
		bt := func(x string) string { return bytesTerm([]byte(x)) }
		c.AddCase(fmt.Sprintf("CSinful %s %s %s %s %s %s %s %s %s %s %s %s %s", bytesTerm(in), core.Bool(st[0] != ""),
			bt(st[1]), bt(st[2]), bt(st[3]), bt(st[4]), bt(st[5]), bt(st[6]), bt(st[7]), core.Bool(st[8] != ""),
			core.List(addrs), core.List(ccb), core.List(kv)), tc)
		if st[0] == "" && len(keys) > 0 {
			c.Nontrivial("sinful|" + string(in))
		}
	default:
		if !addAddrCase(c, fn, in, res, tc) && !addWatchCase(c, fn, in, res, tc) {
			c.Evaluated(1)
		}
	}
}

// genVersion: version strings around every decision of Parse / Atoi.
func genVersion(c *core.Ctx) {
	nums := []string{"0", "9", "10", "25", "007", "+3", "-3", "+", "-", "", "9223372036854775807", "9223372036854775808", "-9223372036854775808",
		"-9223372036854775809", "99999999999999999999", "123456789012345678", "1234567890123456789", "1_0", "0x10", "1e3", " 1", "1a", "\xff"}
	for i, a := range nums {
		for j, b := range nums {
			if (i*7+j*3)%8 != 0 && !(i < 4 && j < 4) {
				continue
			}
			for k, cc := range []string{"", ".0", "." + nums[(i+j)%len(nums)], ".1.2", "."} {
				if c.Quick() && (i+j+k)%3 != 0 && !(i < 3 && j < 3 && k < 2) {
					continue
				}
				v := a + "." + b + cc
				addTextCase(c, "version", []byte(v))
				if (i+j+k)%9 == 0 || !c.Quick() {
					addTextCase(c, "version", []byte("$CondorVersion: "+v+" 2025-11-01 BuildID: 1 $"))
					addTextCase(c, "version", []byte("junk 1. .2 x.y\t"+v+":9.9.9"))
				}
			}
		}
	}
	for _, s := range []string{"", ".", "..", "...", "1", "1.", ".1", "$:$ \t", "9.9", "9.8.99", "9.10.0", "10.0.0", "8.99.99", "9.9.-1", "a.b 1.c 2.3", "1.2$3.4", "1..2", "1.2..", "\x001.2", "1.2\x00"} {
		addTextCase(c, "version", []byte(s))
	}
	n := 40
	if !c.Quick() {
		n = 600
	}
	for i := 0; i < n; i++ {
		addTextCase(c, "version", mutateText(c, []byte("$CondorVersion: 25.4.0 2025-11-01 $")))
	}
}

// genSinful: structured sinful strings (every combination class of brackets, host, port,
// parameters) and malformed ones.
func genSinful(c *core.Ctx) {
	hosts := []string{"127.0.0.1", "[::1]", "host.example", "", "a:b", "fe80::1%25eth0", "h\x00st", "\xff\xfe"}
	ports := []string{"9618", "", "0", "65535", "65536", "99999999999999999999", "-1", "abc", "96 18"}
	wraps := [][2]string{{"<", ">"}, {"", ""}, {"<", ""}, {"", ">"}, {"<<", ">>"}, {" <", "> "}, {"\u00a0<", ">\u2003"}, {"\t\n<", ">\r\v\f"}, {">", "<"}, {"\u0085", "\u3000"}, {"\xc2", "\xa0"}}
	queries := []string{"", "?", "?sock=startd_1_2", "?sock=a&sock=b", "?noUDP", "?noUDP=&alias=x", "?addrs=1.2.3.4-9618+[--1]-9618+", "?addrs=+",
		"?PrivAddr=%3c10.0.0.3:5%3e&PrivNet=net", "?ccbid=192.168.1.2:9618%3fsock%3dc%231+10.0.0.2:9618%2342", "?ccbid=%3ch:1%3e%237%20b%23%20+%23x",
		"?ccbid=a%23b%c2%a0c%23d%e2%80%83e%23f", "?ccbid=a%23b\u00a0c%23d", "?ccbid=%23&ccbid=x%23", "?ccbid=<>%231 <x%232 x>%233 %3c%3e%234", "?ccbid=a%23%23b%20%23",
		"?&&;;", "?=v", "?k=", "?k", "?k=v=w", "?a=1;b=2&c=3;", "?%", "?a=%", "?a=%4", "?a=%zz", "?%%41=1", "?a=%41%", "?a=b&c=%g1&d=e", "?%41=%42%43",
		"?a=\x00&b=\xff", "?a=<>&b=?&c=??", "??a=1", "?a=1?b=2", "?sock=%00", "?alias=%e4%bd%a0", "?noUDP&noUDP=1&NOUDP"}
	n := 0
	for hi, h := range hosts {
		for pi, p := range ports {
			for wi, w := range wraps {
				for qi, q := range queries {
					// all of hosts x ports with the plain wrapper, everything else rotated
					if !(wi == 0 && qi < 3) && (hi+2*pi+3*wi+5*qi)%29 != 0 {
						continue
					}
					n++
					if c.Quick() && !(wi == 0 && qi == 0) && n%6 != 1 {
						continue
					}
					sep := ":"
					if p == "" && hi%2 == 0 {
						sep = ""
					}
					addTextCase(c, "sinful", []byte(w[0]+h+sep+p+q+w[1]))
				}
			}
		}
	}
	for _, w := range wraps { // every wrapper and every query at least once
		addTextCase(c, "sinful", []byte(w[0]+"h:1?sock=x"+w[1]))
	}
	for _, q := range queries {
		addTextCase(c, "sinful", []byte("<10.0.0.1:9618"+q+">"))
		addTextCase(c, "sinful", []byte("10.0.0.1:9618"+q))
	}
	nMut := 50
	if !c.Quick() {
		nMut = 1500
	}
	for i := 0; i < nMut; i++ {
		base := "<" + hosts[c.Rng.Intn(len(hosts))] + ":" + ports[c.Rng.Intn(len(ports))] + queries[c.Rng.Intn(len(queries))] + ">"
		addTextCase(c, "sinful", mutateText(c, []byte(base)))
	}
	for _, unit := range []string{"a", ":", "?", "&", ";", "=", "%41", "%", "<", ">", " ", "\u00a0", "#", "+", "k=v&", "ccbid=a%23b%20"} {
		addTextCase(c, "sinful", []byte(strings.Repeat(unit, 6000/len(unit))))
		addTextCase(c, "sinful", []byte("<h:1?ccbid="+strings.Repeat(unit, 3000/len(unit))+">"))
	}
}

var textSeeds = []string{
	"<127.0.0.1:9618?addrs=127.0.0.1-9618&alias=host.example&noUDP&sock=startd_1234_abcd>#1700000000#5#[Encryption=\"YES\";Integrity=\"YES\";CryptoMethods=\"AES\";CryptoMethodsList=\"AES.BLOWFISH\";SessionExpires=1700000000;ValidCommands=\"443,444\";ShortVersion=\"25.4.0\";]0123456789abcdef0123456789abcdef",
	"host#1#2#[A=\"]key", "x#[A=\"]k", "[A=\"]", "[=x;;a=;a=\"\";b=\"x;c = \"y\" ; d= z ]", "#", "##", "#[", "#[]", "]#[", "a#[b]c#d", "a#[b", "a]#[b]", "[[[[", "]]]]", "",
	"SessionKey:sid#[Encryption=\"YES\";]key FamilySessionKey:fam#[CryptoMethods=\"AES\"]k2 SessionKey:#[]", "SessionKey:", "FamilySessionKey:#",
	"1234 <10.0.0.1:9618> 0 5 6", "notanumber", "  ",
	"<192.168.1.1:9618?ccbid=192.168.1.2:9618%3fsock%3dcollector%231+10.0.0.2:9618%2342&PrivNet=net&PrivAddr=%3c10.0.0.3:5%3e&sock=id.1_2-3>",
	"host:1?sock=", "host:1?sock=a&sock=b", "<host:1?a=%zz>", "<host:1?a=%>", "%", "?&;=", "<<<>>>", "[::1]:9618", ":", "<:>", "192.0.2.10:9618#42#17", "<h:1>#", "#1", "<>#<>",
	"$CondorVersion: 25.4.0 2025-11-01 BuildID: 1 $", "9.9", "9.9.9.9.9", "1.", ".1", "..", "$::$", "99999999999999999999.1.1", "-1.-2.-3", "1.2.x",
	"startd_1234.abcd-ef", "bad id!", "\x01\x00\x00\x00\x08\x00\x00\x00\x00\x00\x00\x00\x4c", "\x01\xff\xff\xff\xff", "\x01\x00\x00\x00\x40",
	"StartdAd\x00Cpus > 1\x00aGVsbG8=", "StartdAd\x00\x00!!!notbase64", "\x00\x00", "a2V5\x00Y3Vyc29y", "====\x00====",
}

const specials = "#[]=;\" \t<>?&:%+.$-\x00\n\r\xc2\xa0\xe2\x80\x83\xff"

func mutateText(c *core.Ctx, s []byte) []byte {
	x := append([]byte(nil), s...)
	for k := 0; k < 1+c.Rng.Intn(4); k++ {
		switch c.Rng.Intn(5) {
		case 0: // insert a special
			p := c.Rng.Intn(len(x) + 1)
			x = append(x[:p], append([]byte{specials[c.Rng.Intn(len(specials))]}, x[p:]...)...)
		case 1: // delete
			if len(x) > 0 {
				p := c.Rng.Intn(len(x))
				x = append(x[:p], x[p+1:]...)
			}
		case 2: // replace
			if len(x) > 0 {
				x[c.Rng.Intn(len(x))] = specials[c.Rng.Intn(len(specials))]
			}
		case 3: // truncate
			x = x[:c.Rng.Intn(len(x)+1)]
		default: // duplicate a slice
			if len(x) > 0 {
				a := c.Rng.Intn(len(x))
				b := a + c.Rng.Intn(len(x)-a+1)
				x = append(x[:b], append(append([]byte(nil), x[a:b]...), x[b:]...)...)
			}
		}
	}
	return x
}

func genText(c *core.Ctx) {
	nMut := 3
	if !c.Quick() {
		nMut = 16
	}
	for _, seed := range textSeeds {
		inputs := [][]byte{[]byte(seed)}
		for i := 0; i < nMut; i++ {
			inputs = append(inputs, mutateText(c, []byte(seed)))
		}
		for ii, in := range inputs {
			for fi, fn := range textFns {
				if c.Quick() && ii > 0 && (ii+fi)%3 != 0 && fn != "claim_strict" && fn != "attrs" {
					continue
				}
				addTextCase(c, fn, in)
			}
		}
	}
	// long inputs: time and allocation must stay proportional
	for _, fn := range textFns {
		for _, unit := range []string{"#", "[", "]", "a=\"b\";", "&", "%41", ".", " 1.2", "SessionKey:a#[b]c ", "\""} {
			addTextCase(c, fn, []byte(strings.Repeat(unit, 20000/len(unit))))
		}
	}
}
