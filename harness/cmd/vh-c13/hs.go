package main

// Handshake-step probes: the bound on a handshake ad must hold where the ad is READ
// (the call sites), not only inside the decoder.  A hostile peer answers one step of a
// real handshake with an oversized ad spread over many frames; the real endpoint must
// stop pulling frames once its documented cap is buffered.

import (
	"bytes"
	"context"
	"fmt"
	"time"

	"verifharness/core"
	"verifharness/peer"

	"github.com/bbockelm/cedar/ccb"
	"github.com/bbockelm/cedar/commands"
	"github.com/bbockelm/cedar/message"
	"github.com/bbockelm/cedar/security"
	"github.com/bbockelm/cedar/stream"
)

type hsCase struct {
	Kind      string `json:"kind"`  // "hs"
	Step      string `json:"step"`  // client-neg client-resume client-postauth server-clientad ccb-control ccb-reverse
	Shape     string `json:"shape"` // endless | many
	FrameSize int    `json:"frameSize"`
	Frames    int    `json:"frames"`
}

// documented caps of the call sites
var hsCap = map[string]int{"client-neg": 4096, "client-resume": 4096, "client-postauth": 4096, "server-clientad": 4096,
	"ccb-control": 64 * 1024, "ccb-reverse": 64 * 1024}

// oversizedAd is the wire form of a hostile "ad": a count, then either one endless
// expression string or a great many small ones, cut into partial frames; never completed.
func oversizedAd(prefix []byte, shape string, frameSize, frames int) []byte {
	total := frameSize * frames
	payload := make([]byte, 0, total)
	payload = append(payload, prefix...)
	if shape == "many" {
		payload = append(payload, i64(1<<40)...)
		for len(payload) < total {
			payload = append(payload, []byte("A = 1\x00")...)
		}
	} else {
		payload = append(payload, i64(1)...)
		payload = append(payload, []byte("X = \"")...)
		payload = append(payload, bytes.Repeat([]byte{'A'}, total-len(payload))...)
	}
	payload = payload[:total]
	var wire []byte
	for i := 0; i < frames; i++ {
		wire = append(wire, frame(0, payload[i*frameSize:(i+1)*frameSize])...)
	}
	return wire
}

// negotiationReply captures, once, the bytes an honest server sends as its negotiation
// reply under a policy that needs neither authentication nor encryption.
var negReply []byte

func honestNegotiationReply() []byte {
	if negReply != nil {
		return negReply
	}
	pol := peer.Policy{Auth: "NEVER", Enc: "NEVER", Integ: "NEVER", Methods: []string{"CLAIMTOBE"}, Ciphers: []string{"AES"}}
	a, b, tap := peer.Pipe()
	done := make(chan struct{})
	go func() { peer.RunServer(b, pol.Config()); close(done) }()
	cp := pol
	cp.Command = 443
	peer.RunClient(a, cp.Config())
	a.Close()
	<-done
	frs, _ := peer.ParseFrames(tap.Bytes(false))
	// the first message of the server: frames up to and including the first complete one
	var out []byte
	for _, f := range frs {
		out = append(out, frame(f.End, f.Payload)...)
		if f.End != 0 {
			break
		}
	}
	negReply = out
	return out
}

func runHS(hc *hsCase) []failure {
	capBytes, ok := hsCap[hc.Step]
	if !ok {
		return []failure{{"harness", "unknown handshake step " + hc.Step}}
	}
	var prefixWire []byte // well-formed bytes the endpoint reads before the hostile ad
	var prefixPayload []byte
	switch hc.Step {
	case "server-clientad":
		prefixPayload = i64(int64(commands.DC_AUTHENTICATE))
	case "ccb-reverse":
		prefixPayload = i64(int64(ccb.CommandReverseConnect))
	case "client-postauth":
		prefixWire = honestNegotiationReply()
		if len(prefixWire) == 0 {
			return []failure{{"harness", "could not capture an honest negotiation reply"}}
		}
	}
	hostile := oversizedAd(prefixPayload, hc.Shape, hc.FrameSize, hc.Frames)
	mc := &memConn{data: append(append([]byte(nil), prefixWire...), hostile...)}
	st := stream.NewStream(mc)
	peerName := "<127.0.0.1:9618>"
	var cfg *security.SecurityConfig
	switch hc.Step {
	case "client-neg", "client-postauth":
		cfg = peer.Policy{Auth: "NEVER", Enc: "NEVER", Integ: "NEVER", Methods: []string{"CLAIMTOBE"}, Ciphers: []string{"AES"}, Command: 443}.Config()
	case "client-resume":
		cache := security.NewSessionCache()
		claim := peerName + `#1700000000#5#[Encryption="YES";Integrity="YES";CryptoMethods="AES";]` +
			"00112233445566778899aabbccddeeff00112233445566778899aabbccddeeff"
		sid, err := security.ImportClaimSession(cache, claim, security.ClaimSessionOptions{PeerAddr: peerName})
		if err != nil {
			return []failure{{"harness", "ImportClaimSession: " + err.Error()}}
		}
		st.SetPeerAddr(peerName)
		cfg = &security.SecurityConfig{Command: 443, PeerName: peerName, SessionCache: cache, SessionID: sid}
	case "server-clientad":
		cfg = peer.Policy{Auth: "OPTIONAL", Enc: "OPTIONAL", Methods: []string{"CLAIMTOBE"}, Ciphers: []string{"AES"}}.Config()
	}
	hctx, cancel := context.WithTimeout(context.Background(), 20*time.Second)
	defer cancel()
	out := guarded(func() ([]byte, bool, error) {
		switch hc.Step {
		case "client-neg", "client-postauth", "client-resume":
			_, err := security.NewAuthenticator(cfg, st).ClientHandshake(hctx)
			return nil, false, err
		case "server-clientad":
			_, err := security.NewAuthenticator(cfg, st).ServerHandshake(hctx)
			return nil, false, err
		case "ccb-control":
			_, err := ccb.ReadControlAd(hctx, st)
			return nil, false, err
		case "ccb-reverse":
			m := message.NewMessageFromStream(st)
			cmd, err := m.GetInt(hctx)
			if err != nil {
				return nil, false, err
			}
			_, err = ccb.ReadReverseConnectAd(hctx, m, cmd)
			return nil, false, err
		}
		return nil, false, fmt.Errorf("unknown step")
	}, anyErrClass)
	what := fmt.Sprintf("%s answered by a %s oversized ad (%d frames of %d bytes)", hc.Step, hc.Shape, hc.Frames, hc.FrameSize)
	if out.TimedOut {
		return []failure{{"spin", what + ": the endpoint did not return"}}
	}
	var fails []failure
	if out.Cls == 9 {
		fails = append(fails, failure{"panic", what + ": " + out.Panic})
	}
	if out.Cls == 0 {
		fails = append(fails, failure{"accepted", what + ": the endpoint accepted it"})
	}
	// the reader may pull at most: the well-formed prefix, the cap (+ count and length
	// prefixes), and the frame in which the cap is reached plus one more header
	bound := len(prefixWire) + capBytes + 64 + 2*(hc.FrameSize+5)
	if mc.pos > bound {
		fails = append(fails, failure{"cap-callsite", fmt.Sprintf("%s: the endpoint consumed %d bytes of the reply, its cap is %d (bound %d); error: %s", what, mc.pos, capBytes, bound, out.ErrText)})
	}
	if b := allocBound("wire", mc.pos+16) + 2<<20; out.Alloc > b {
		fails = append(fails, failure{"alloc", fmt.Sprintf("%s: allocated %d bytes after %d bytes were received (bound %d)", what, out.Alloc, mc.pos, b)})
	}
	if hc.Step == "client-postauth" && mc.pos <= len(prefixWire) {
		fails = append(fails, failure{"harness", "client-postauth: the client never read past the negotiation reply: " + out.ErrText})
	}
	return fails
}

func genHS(c *core.Ctx) {
	peer.Quiet()
	for _, step := range []string{"client-neg", "client-resume", "client-postauth", "server-clientad", "ccb-control", "ccb-reverse"} {
		for _, shape := range []string{"endless", "many"} {
			for _, fs := range [][2]int{{64 << 10, 48}, {1 << 10, 1024}, {1 << 20, 3}} {
				if aborted {
					return
				}
				if c.Quick() && fs[0] == 1<<20 && shape == "many" {
					continue
				}
				hc := &hsCase{Kind: "hs", Step: step, Shape: shape, FrameSize: fs[0], Frames: fs[1]}
				r := runIsolated(hc, "handshake step "+step, fs[0]*fs[1])
				c.OracleCheck()
				c.Evaluated(1)
				c.Count("hs-" + step)
				for _, f := range withErr(r) {
					c.OracleFail(f.key, f.desc, hc)
				}
			}
		}
	}
}
