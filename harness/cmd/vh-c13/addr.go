package main

import (
	"encoding/binary"
	"fmt"
	"strings"

	"verifharness/core"

	"github.com/bbockelm/cedar/addresses"
	"github.com/bbockelm/cedar/ccb"
)

// Address / CCB text decoders modelled in coq/Model/Addr.v.  runAddr runs inside the probe
// process and returns the observed fields plus model-independent oracle failures.

func b01(x bool) string {
	if x {
		return "1"
	}
	return ""
}

// plainEnds: first and last byte ASCII and not white space (the hypothesis of the
// ContactString round-trip theorem).
func plainEnds(s string) bool {
	if s == "" {
		return false
	}
	ok := func(c byte) bool {
		return c < 0x80 && c != ' ' && !(c >= 9 && c <= 13)
	}
	return ok(s[0]) && ok(s[len(s)-1])
}

func runAddr(fn string, in []byte) (strs []string, extra []failure) {
	s := string(in)
	switch fn {
	case "htcondor_addr":
		i := addresses.ParseHTCondorAddress(s)
		v := addresses.IsValidSharedPortID(i.SharedPortID)
		strs = []string{i.ServerAddr, i.SharedPortID, b01(i.IsSharedPort), b01(v)}
		if len(i.ServerAddr)+len(i.SharedPortID) > len(s) {
			extra = append(extra, failure{"accounting", fmt.Sprintf("ParseHTCondorAddress returned %d+%d bytes for a %d-byte input", len(i.ServerAddr), len(i.SharedPortID), len(s))})
		}
		if !i.IsSharedPort && i.SharedPortID != "" {
			extra = append(extra, failure{"accounting", "ParseHTCondorAddress: id without IsSharedPort"})
		}
		if strings.ContainsAny(i.SharedPortID, "&?") {
			extra = append(extra, failure{"accounting", fmt.Sprintf("ParseHTCondorAddress: id %q contains a parameter separator", trunc(i.SharedPortID))})
		}
	case "sp_id":
		v := addresses.IsValidSharedPortID(s)
		strs = []string{b01(v)}
		if v {
			for _, c := range in {
				if c < '-' || c > 'z' || c == '/' {
					extra = append(extra, failure{"accounting", fmt.Sprintf("IsValidSharedPortID accepted byte 0x%02x", c)})
					break
				}
			}
		}
	case "ccb_contact":
		br, id, ok := addresses.SplitCCBContact(s)
		strs = []string{b01(ok), br, id, b01(addresses.BrokerIsCCB(br))}
		if ok && (br == "" || id == "") {
			extra = append(extra, failure{"accounting", "SplitCCBContact accepted an empty broker or id"})
		}
	case "broker_list":
		strs = ccb.SplitBrokerList(s)
		tot := 0
		for _, f := range strs {
			tot += len(f)
			if f == "" {
				extra = append(extra, failure{"accounting", "SplitBrokerList returned an empty broker"})
			}
		}
		if tot > len(s) {
			extra = append(extra, failure{"accounting", "SplitBrokerList returned more bytes than it was given"})
		}
	case "flat_contact":
		e, i, r, ok := ccb.VerifC13SplitFlatEntryAndRoute(s)
		strs = []string{b01(ok), e, i, r}
		if ok && e == "" {
			extra = append(extra, failure{"accounting", "splitFlatEntryAndRoute accepted an empty entry broker"})
		}
		if len(e)+len(i)+len(r) > len(s) {
			extra = append(extra, failure{"accounting", "splitFlatEntryAndRoute returned more bytes than it was given"})
		}
	case "contact_string":
		if len(in) < 8 {
			return nil, nil
		}
		n := binary.BigEndian.Uint64(in[:8])
		broker := string(in[8:])
		out := ccb.ContactString(broker, n)
		rb, rid, ok := addresses.SplitCCBContact(out)
		strs = []string{out, b01(ok), rb, rid}
		wrapped := len(broker) >= 2 && broker[0] == '<' && broker[len(broker)-1] == '>'
		if plainEnds(broker) && !wrapped && (!ok || rb != broker || rid != fmt.Sprint(n)) {
			extra = append(extra, failure{"roundtrip", fmt.Sprintf("SplitCCBContact(ContactString(%q, %d)) = (%q, %q, %v)", trunc(broker), n, trunc(rb), rid, ok)})
		}
	}
	return strs, extra
}

// addAddrCase writes the Coq case of one Model/Addr.v decoder call; false = not one of them.
func addAddrCase(c *core.Ctx, fn string, in []byte, res textRes, tc *textCase) bool {
	bt := func(x string) string { return bytesTerm([]byte(x)) }
	st := res.strs
	switch fn {
	case "htcondor_addr":
		c.AddCase(fmt.Sprintf("CHtAddr %s %s %s %s %s", bytesTerm(in), bt(st[0]), bt(st[1]), core.Bool(st[2] != ""), core.Bool(st[3] != "")), tc)
		if st[2] != "" {
			c.Nontrivial("htaddr|" + string(in))
		}
	case "sp_id":
		c.AddCase(fmt.Sprintf("CSpId %s %s", bytesTerm(in), core.Bool(st[0] != "")), tc)
		if st[0] != "" {
			c.Nontrivial("spid|" + string(in))
		}
	case "ccb_contact":
		c.AddCase(fmt.Sprintf("CCcbSplit %s %s %s %s %s", bytesTerm(in), core.Bool(st[0] != ""), bt(st[1]), bt(st[2]), core.Bool(st[3] != "")), tc)
		if st[0] != "" {
			c.Nontrivial("ccbsplit|" + string(in))
		}
	case "broker_list":
		var l []string
		for _, f := range st {
			l = append(l, bt(f))
		}
		c.AddCase(fmt.Sprintf("CBrokerList %s %s", bytesTerm(in), core.List(l)), tc)
		if len(st) > 1 {
			c.Nontrivial("brokers|" + string(in))
		}
	case "flat_contact":
		c.AddCase(fmt.Sprintf("CFlat %s %s %s %s %s", bytesTerm(in), core.Bool(st[0] != ""), bt(st[1]), bt(st[2]), bt(st[3])), tc)
		if st[0] != "" {
			c.Nontrivial("flat|" + string(in))
		}
	case "contact_string":
		if len(in) < 8 || len(st) < 4 {
			return false
		}
		c.AddCase(fmt.Sprintf("CContact %s %d %s %s %s %s", bytesTerm(in[8:]), binary.BigEndian.Uint64(in[:8]), bt(st[0]), core.Bool(st[1] != ""), bt(st[2]), bt(st[3])), tc)
		if st[1] != "" {
			c.Nontrivial("contact|" + string(in))
		}
	case "sp_header":
		c.AddCase(fmt.Sprintf("CPassSock %s %s %s", bytesTerm(in), st[0], st[1]), tc)
		if st[0] == "0" {
			c.Nontrivial("passsock|" + string(in))
		}
	case "sp_header_write":
		if len(st) < 1 {
			return false
		}
		c.AddCase(fmt.Sprintf("CPassSockWrite %s", bt(st[0])), tc)
	default:
		return false
	}
	return true
}

// genPassSock: the shared-port pass-socket header: flag x declared length x supplied payload x
// command, every truncation of the valid header, trailing bytes, mutations.
func genPassSock(c *core.Ctx) {
	hdr := func(flag byte, length uint32, payload []byte) []byte {
		b := []byte{flag, 0, 0, 0, 0}
		binary.BigEndian.PutUint32(b[1:], length)
		return append(b, payload...)
	}
	cmdBytes := func(v uint64) []byte {
		b := make([]byte, 8)
		binary.BigEndian.PutUint64(b, v)
		return b
	}
	valid := hdr(1, 8, cmdBytes(76))
	for i := 0; i <= len(valid); i++ {
		addTextCase(c, "sp_header", valid[:i])
	}
	addTextCase(c, "sp_header_write", nil)
	addTextCase(c, "sp_header_write", []byte("trailing bytes"))
	addTextCase(c, "sp_header_write", valid)
	for _, flag := range []byte{0, 1, 2, 255} {
		for _, cmd := range []uint64{76, 75, 77, 0, 76 + 1<<32, 76 + 1<<63, 1<<64 - 1, 76 << 8} {
			addTextCase(c, "sp_header", hdr(flag, 8, cmdBytes(cmd)))
			addTextCase(c, "sp_header", append(hdr(flag, 8, cmdBytes(cmd)), 1, 2, 3))
		}
	}
	lengths := []uint32{0, 1, 7, 8, 9, 16, 63, 64, 65, 255, 256, 65536, 1 << 24, 1<<31 - 1, 1 << 31, 1<<32 - 1, 8 << 8, 8 << 24}
	for li, l := range lengths {
		for si, supplied := range []int{0, 1, 7, 8, 9, 63, 64, 65, 100} {
			if c.Quick() && (li+si)%2 != 0 && l != 8 && l != 64 && l != 65 {
				continue
			}
			p := make([]byte, supplied)
			for i := range p {
				p[i] = byte(c.Rng.Intn(256))
			}
			if supplied >= 8 {
				copy(p[supplied-8:], cmdBytes(76))
			}
			addTextCase(c, "sp_header", hdr(1, l, p))
			if supplied >= 8 {
				copy(p, cmdBytes(76))
				addTextCase(c, "sp_header", hdr(1, l, p))
			}
		}
	}
	nMut := 60
	if !c.Quick() {
		nMut = 1500
	}
	for i := 0; i < nMut; i++ {
		x := append([]byte(nil), valid...)
		for k := 0; k < 1+c.Rng.Intn(3); k++ {
			switch c.Rng.Intn(4) {
			case 0:
				x[c.Rng.Intn(len(x))] = byte(c.Rng.Intn(256))
			case 1:
				x[c.Rng.Intn(len(x))] ^= 1 << uint(c.Rng.Intn(8))
			case 2:
				x = x[:c.Rng.Intn(len(x))+1]
			default:
				x = append(x, byte(c.Rng.Intn(256)))
			}
		}
		addTextCase(c, "sp_header", x)
	}
	addTextCase(c, "sp_header", append(hdr(1, 64, nil), make([]byte, 20000)...))
	addTextCase(c, "sp_header", append(hdr(1, 1<<32-1, nil), make([]byte, 20000)...))
}

// genAddr: structured inputs for the Model/Addr.v decoders (every decision of each function),
// then mutations and long periodic inputs.
func genAddr(c *core.Ctx) {
	wraps := [][2]string{{"<", ">"}, {"", ""}, {"<<", ">>"}, {">", "<"}, {"<", ""}, {" <", "> "}, {"<>", "><"}}
	servers := []string{"10.0.0.1:9618", "[::1]:9618", "", "h", "a<b>c", "h:1#42"}
	queries := []string{"", "?", "?sock=startd_1_2", "?sock=", "?sock", "?Sock=x", "?sock=a&sock=b", "?sock=&sock=b", "?addrs=1.2.3.4-9618&alias=x&sock=id.1-2_3",
		"?sock=a?b", "?sock=?x", "?sock=a&b?c", "?a=1?sock=b", "?xsock=1&sock=2", "?sock=%41", "?noUDP&sock=x&", "?&&sock=y", "?sock=a\x00b", "?sock=\xc3\xa9", "?sock=a b",
		"?sock=../../etc", "??sock=z", "?sock=<x>", "?a=<&sock=>", "?sock=s&CCBID=1.2.3.4:5%236",
		"?sock=x%4", "?sock=%", "?sock=x%", "?sock=%zz", "?sock=%4&a=1", "?sock=a%2", "?sock=%%41", "?sock=%41%"}
	for wi, w := range wraps {
		for si, sv := range servers {
			for qi, q := range queries {
				if c.Quick() && (wi > 1 || si > 1) && (wi+si+qi)%5 != 0 {
					continue
				}
				addTextCase(c, "htcondor_addr", []byte(w[0]+sv+q+w[1]))
			}
		}
	}
	ids := []string{"", "a", "Z", "0", ".", "-", "_", "startd_1234.abcd-ef", "a/b", "..", "a b", "a\x00", "\x00", "é", "a\xff", "\xc2\xa0", "`", "{", "@", "[", "/", ",", "+", "a:b", "a#b", "a?b", "a&b", "a=b", "~", "\x7f", "\x80"}
	for _, id := range ids {
		addTextCase(c, "sp_id", []byte(id))
	}
	for b := 0; b < 256; b++ { // exhaustive over the single byte and its neighbours
		addTextCase(c, "sp_id", []byte{byte(b)})
		if !c.Quick() || b%9 == 0 {
			addTextCase(c, "sp_id", []byte{'a', byte(b), 'z'})
		}
	}
	brokers := []string{"", "a", "a,b", "a, b", " a\t,\nb ,,c", ",", " ", "\t\n", "a b", "a\rb", "a\x0bb", "a\x00,b", "\xff,\xfe", "10.0.0.1:9618 10.0.0.2:9618,<h:1?sock=x>", "a;b", "a, b"}
	for _, b := range brokers {
		addTextCase(c, "broker_list", []byte(b))
	}
	entries := []string{"h:1", "<h:1>", "<h:1", "h:1>", "<>", "<", "", " ", "<<h:1>>", " <h:1> ", " <h:1> ", "< h:1 >", "<h:1?sock=a>", "a b"}
	chains := []string{"", "#", "#1", "#1#2", "#1#2#3", "##", "#1##3", "# 1 # 2 ", "#1# #3", "# 1　# 2", "#1#", "# ", "#\t#2", "# #", "#1#2 3#4", "#\xc2", "#\xe2\x80", "#a\x00"}
	for ei, e := range entries {
		for ci, ch := range chains {
			for _, fn := range []string{"flat_contact", "ccb_contact"} {
				if c.Quick() && (ei+ci)%3 != 0 && !(ei < 2 || ci < 4) {
					continue
				}
				addTextCase(c, fn, []byte(e+ch))
				if (ei+ci)%5 == 0 {
					addTextCase(c, fn, []byte(" "+e+ch+"\n"))
				}
			}
		}
	}
	ns := []uint64{0, 1, 9, 10, 99, 100, 4294967295, 4294967296, 9223372036854775807, 9223372036854775808, 18446744073709551615, 10000000000000000000, 12345678901234567890}
	cb := []string{"h:1", "10.0.0.1:9618", "h:1#42", "h:1#42#17", "<h:1>", "<h:1>#4", "", " h:1", "h:1 ", " h", "h ", "<", ">", "<>", "a<b>", "<a>b", "#", "h:1?sock=x"}
	for bi, b := range cb {
		for ni, n := range ns {
			if c.Quick() && (bi+ni)%3 != 0 && !(bi < 3 || ni < 2) {
				continue
			}
			in := make([]byte, 8, 8+len(b))
			binary.BigEndian.PutUint64(in, n)
			addTextCase(c, "contact_string", append(in, b...))
		}
	}
	nMut := 25
	if !c.Quick() {
		nMut = 600
	}
	for i := 0; i < nMut; i++ {
		addTextCase(c, "htcondor_addr", mutateText(c, []byte("<"+servers[c.Rng.Intn(len(servers))]+queries[c.Rng.Intn(len(queries))]+">")))
		addTextCase(c, "sp_id", mutateText(c, []byte("startd_1234.abcd-ef")))
		addTextCase(c, "broker_list", mutateText(c, []byte(brokers[c.Rng.Intn(len(brokers))])))
		base := entries[c.Rng.Intn(len(entries))] + chains[c.Rng.Intn(len(chains))]
		addTextCase(c, "flat_contact", mutateText(c, []byte(base)))
		addTextCase(c, "ccb_contact", mutateText(c, []byte(base)))
	}
	for ui, unit := range []string{"?", "&", "sock=", "?sock=a&", "<", ">", "#", "# ", "#1", ",", " ", " ", "a"} {
		long := strings.Repeat(unit, 4000/len(unit))
		for fi, fn := range []string{"htcondor_addr", "flat_contact", "ccb_contact", "broker_list", "sp_id"} {
			addTextCase(c, fn, []byte(long))
			if !c.Quick() || (ui+fi)%4 == 0 {
				addTextCase(c, fn, []byte("<h:1?sock=x"+long[:len(long)/8]+">#1"))
			}
		}
	}
}
