package main

import (
	"encoding/binary"
	"fmt"
	"io"
	"net"
	"runtime"
	"strings"
	"time"

	"verifharness/core"

	"github.com/bbockelm/cedar/message"
	"github.com/bbockelm/cedar/security"
	"github.com/bbockelm/cedar/stream"
)

// memConn is a byte-counting in-memory connection: it serves a fixed byte
// string (in chunks) and then reports EOF; it records how many bytes and Read
// calls were made and the deepest call stack seen at a Read.
type memConn struct {
	data     []byte
	pos      int
	chunk    int
	reads    int
	maxDepth int
	written  int
}

func (m *memConn) Read(b []byte) (int, error) {
	m.reads++
	var pcs [512]uintptr
	if d := runtime.Callers(0, pcs[:]); d > m.maxDepth {
		m.maxDepth = d
	}
	if m.pos >= len(m.data) {
		return 0, io.EOF
	}
	n := len(b)
	if m.chunk > 0 && n > m.chunk {
		n = m.chunk
	}
	if n > len(m.data)-m.pos {
		n = len(m.data) - m.pos
	}
	copy(b, m.data[m.pos:m.pos+n])
	m.pos += n
	return n, nil
}
func (m *memConn) Write(b []byte) (int, error)        { m.written += len(b); return len(b), nil }
func (m *memConn) Close() error                       { return nil }
func (m *memConn) LocalAddr() net.Addr                { return nil }
func (m *memConn) RemoteAddr() net.Addr               { return nil }
func (m *memConn) SetDeadline(t time.Time) error      { return nil }
func (m *memConn) SetReadDeadline(t time.Time) error  { return nil }
func (m *memConn) SetWriteDeadline(t time.Time) error { return nil }

// seg is a piece of wire data: literal bytes or a cyclic payload descriptor.
type seg struct {
	Lit []byte `json:"lit,omitempty"`
	Off int    `json:"off,omitempty"`
	Len int    `json:"len,omitempty"`
}

func segBytes(ss []seg) []byte {
	var out []byte
	for _, s := range ss {
		if s.Len > 0 {
			out = append(out, core.Payload(s.Off, s.Len)...)
		} else {
			out = append(out, s.Lit...)
		}
	}
	return out
}
func segTerm(ss []seg) string {
	var parts []string
	for _, s := range ss {
		if s.Len > 0 {
			parts = append(parts, core.PayloadTerm(s.Off, s.Len))
		} else if len(s.Lit) > 0 {
			parts = append(parts, bytesTerm(s.Lit))
		}
	}
	if len(parts) == 0 {
		return "[]"
	}
	return "(" + strings.Join(parts, " ++ ") + ")%list"
}

type wireCase struct {
	Kind  string   `json:"kind"` // "wire"
	Data  []seg    `json:"data"`
	Chunk int      `json:"chunk,omitempty"`
	Op    string   `json:"op"` // frame frame0 start complete ops
	Ops   []opSpec `json:"ops,omitempty"`
	// encrypted receiver: crypto-state blob to import first (oracle only, no model comparison)
	Blob []byte `json:"blob,omitempty"`
	// the blob carries a key but leaves encryption OFF: the stream must behave exactly like
	// a cleartext one, and is compared with the cleartext model
	KeyedPlain bool   `json:"keyedPlain,omitempty"`
	Note       string `json:"note,omitempty"`
}

type wireObs struct {
	out      outcome
	consumed int
	depth    int
	reads    int
}

func hdr(flag byte, n uint32) []byte {
	h := []byte{flag, 0, 0, 0, 0}
	binary.BigEndian.PutUint32(h[1:], n)
	return h
}

func runWire(wc *wireCase) (wireObs, []failure) {
	data := segBytes(wc.Data)
	mc := &memConn{data: data, chunk: wc.Chunk}
	var s *stream.Stream
	if wc.Blob != nil {
		var err error
		s, err = stream.NewStreamWithCryptoState(mc, wc.Blob)
		if err != nil {
			return wireObs{}, []failure{{"harness", "crypto-state blob rejected: " + err.Error()}}
		}
	} else {
		s = stream.NewStream(mc)
	}
	out := guarded(func() ([]byte, bool, error) {
		switch wc.Op {
		case "frame":
			d, _, err := s.ReceiveFrameWithEnd(ctx)
			return d, err == nil, err
		case "frame0":
			d, err := s.ReceiveFrame(ctx)
			return d, err == nil, err
		case "start":
			err := s.StartMessageRead(ctx)
			if err != nil {
				return nil, false, err
			}
			n := s.VerifSnapshot().ReceiveBufferLen
			all := make([]byte, n)
			if n > 0 {
				if _, err := s.ReadMessageBytes(ctx, all); err != nil {
					return nil, false, err
				}
			}
			return all, true, nil
		case "complete":
			d, err := s.ReceiveCompleteMessage(ctx)
			return d, err == nil, err
		case "secret":
			v, err := s.GetSecret(ctx)
			return []byte(v), err == nil, err
		case "ops":
			if len(wc.Ops) == 1 && wc.Ops[0].Op == "xkey" {
				return nil, false, security.VerifC13ExchangeKeyClient(ctx, s)
			}
			if len(wc.Ops) == 1 && wc.Ops[0].Op == "sslrecv" {
				d, err := security.VerifC13SSLReceiveMessage(ctx, s, true)
				return d, err == nil, err
			}
			m := message.NewMessageFromStream(s)
			for _, o := range wc.Ops {
				if _, _, err := doOp(m, o); err != nil {
					return nil, false, err
				}
			}
			return nil, false, nil
		}
		panic("unknown wire op " + wc.Op)
	}, anyErrClass)
	ob := wireObs{out: out, consumed: mc.pos, depth: mc.maxDepth, reads: mc.reads}
	if mc.maxDepth > maxDepthSeen {
		maxDepthSeen = mc.maxDepth
	}
	var fails []failure
	what := wc.Op
	if wc.Op == "ops" {
		what = fmt.Sprint(wc.Ops)
	}
	if wc.Blob != nil {
		what += " (AES-GCM)"
	}
	if out.TimedOut {
		return ob, []failure{{"spin", fmt.Sprintf("%s did not return within %v on a %d-byte connection", what, spinTimeout, len(data))}}
	}
	if out.Cls == 9 {
		fails = append(fails, failure{"panic", fmt.Sprintf("%s panicked: %s", what, out.Panic)})
	}
	fam := "wire"
	if wc.Op == "ops" && len(wc.Ops) > 0 && wc.Ops[0].family() == "classad" {
		fam = "classad"
	}
	b := allocBound(fam, mc.pos+16)
	if fam == "classad" {
		b += 1 << 20
	}
	if out.Alloc > b {
		fails = append(fails, failure{"alloc", fmt.Sprintf("%s allocated %d bytes after %d bytes were received (bound %d)", what, out.Alloc, mc.pos, b)})
	}
	if out.Dur > 3*time.Second {
		fails = append(fails, failure{"slow", fmt.Sprintf("%s ran %v on a %d-byte connection", what, out.Dur, len(data))})
	}
	if mc.maxDepth > 64 {
		fails = append(fails, failure{"recursion", fmt.Sprintf("%s: call stack %d frames deep while reading a %d-byte connection (one stack frame per wire frame?)", what, mc.maxDepth, len(data))})
	}
	if wc.Blob != nil && !wc.KeyedPlain && (wc.Op == "frame" || wc.Op == "frame0") && out.HasVal && len(out.Val)+5 > mc.pos {
		// hypothesis of C13_frames_total_bounded: decryption never lengthens its input
		fails = append(fails, failure{"open-lengthens", fmt.Sprintf("%s delivered %d plaintext bytes from %d wire bytes", what, len(out.Val), mc.pos)})
	}
	if mc.reads > 4*len(data)+64 {
		fails = append(fails, failure{"spin", fmt.Sprintf("%s made %d reads on a %d-byte connection", what, mc.reads, len(data))})
	}
	return ob, fails
}

func wopTerm(wc *wireCase) string {
	switch wc.Op {
	case "frame", "frame0":
		return "WFrame"
	case "start":
		return "WStart"
	case "complete":
		return "WComplete"
	}
	var ops []string
	for _, o := range wc.Ops {
		ops = append(ops, opTerm(o, nil))
	}
	return "(WOps " + core.List(ops) + ")"
}

var maxDepthSeen int

// stage: hostile sizes are tried smallest first; once a family has shown an
// allocation failure the larger ones are skipped so that the harness itself
// never asks for gigabytes.
var poisoned = map[string]bool{}

func addWireCase(c *core.Ctx, wc *wireCase, fam string) bool {
	if aborted || (fam != "" && poisoned[fam]) {
		return false
	}
	wc.Kind = "wire"
	ob, fails := pWire(wc)
	c.OracleCheck()
	for _, f := range fails {
		c.OracleFail(f.key, f.desc, wc)
		if f.key == "alloc" || f.key == "panic" || f.key == "crash" {
			poisoned[fam] = true
		}
	}
	if aborted || ob.out.Cls == 8 {
		return false
	}
	c.Count(fmt.Sprintf("wire-%s-cls%d", wc.Op, ob.out.Cls))
	if wc.Blob != nil && !wc.KeyedPlain {
		c.Evaluated(1) // oracle only
		return len(fails) == 0
	}
	if wc.Op == "secret" {
		c.Evaluated(1)
		return len(fails) == 0
	}
	val := "None"
	if wc.Op != "ops" {
		val = valTerm(ob.out)
	}
	if ob.out.Cls == 0 {
		c.Nontrivial(fmt.Sprintf("wire|%s|%v|%x", wc.Op, wc.Ops, segBytes(wc.Data)))
	}
	c.AddCase(fmt.Sprintf("CWire %s %s %d %d %s", segTerm(wc.Data), wopTerm(wc), ob.out.Cls, ob.consumed, val), wc)
	return len(fails) == 0
}

// frameSegs is header + payload for one frame.
func frame(flag byte, payload []byte) []byte {
	return append(hdr(flag, uint32(len(payload))), payload...)
}

// msgFrames cuts payload into frames (last one complete).
func msgFrames(payload []byte, cuts []int) []byte {
	var out []byte
	prev := 0
	for _, c := range cuts {
		out = append(out, frame(0, payload[prev:c])...)
		prev = c
	}
	return append(out, frame(1, payload[prev:])...)
}

const maxMsg = stream.MaxMessageSize

func genWire(c *core.Ctx) {
	quick := c.Quick()
	lit := func(b []byte) []seg { return []seg{{Lit: b}} }
	// ---- W1: one frame header, length / flag / truncation matrix ----------------
	lens := []uint32{0, 1, 5, 4096, maxMsg - 1, maxMsg, maxMsg + 1, maxMsg + 32, maxMsg + 33, 2 << 20, 64 << 20, 1 << 31, 1<<32 - 1}
	for _, op := range []string{"frame", "frame0", "start", "complete"} {
		for _, flag := range []byte{0, 1, 2, 10, 11, 255} {
			for _, n := range lens {
				if quick && flag > 1 && n != 0 && n != 5 && n != maxMsg+1 {
					continue
				}
				supplies := []int{0}
				if n > 0 && n <= maxMsg {
					supplies = append(supplies, int(n)/2, int(n)-1, int(n))
				} else if n > maxMsg {
					supplies = append(supplies, 16)
				}
				for _, sup := range supplies {
					if quick && n >= maxMsg-1 && sup > 16 {
						// MiB-sized payloads are costly on the model side: keep three of them
						keep := (op == "frame" && flag == 1 && n == maxMsg && sup == int(n)) ||
							(op == "complete" && flag == 1 && n == maxMsg-1 && sup == int(n)) ||
							(op == "frame0" && flag == 1 && n == maxMsg && sup == int(n)-1)
						if !keep {
							continue
						}
					}
					ss := []seg{{Lit: hdr(flag, n)}}
					if sup > 64 {
						ss = append(ss, seg{Off: int(n) % 251, Len: sup})
					} else if sup > 0 {
						ss = append(ss, seg{Lit: core.Payload(3, sup)})
					}
					if sup == int(n) && (op == "start" || op == "complete") && flag == 0 {
						ss = append(ss, seg{Lit: frame(1, []byte("tail"))})
					}
					chunk := 0
					if n <= 4096 && c.Rng.Intn(2) == 0 {
						chunk = 1 + c.Rng.Intn(7)
					}
					addWireCase(c, &wireCase{Data: ss, Chunk: chunk, Op: op}, "frame-"+op)
				}
			}
		}
		// truncated headers
		for k := 0; k < 5; k++ {
			addWireCase(c, &wireCase{Data: lit(hdr(1, 3)[:k]), Op: op}, "frame-"+op)
		}
	}
	// ---- W2: multi-frame reassembly ---------------------------------------------
	for _, op := range []string{"start", "complete"} {
		for _, nEmpty := range []int{1, 10, 400, 3000} {
			if quick && nEmpty == 3000 && op == "complete" {
				continue
			}
			var b []byte
			for i := 0; i < nEmpty; i++ {
				b = append(b, hdr(0, 0)...)
			}
			addWireCase(c, &wireCase{Data: lit(append(append([]byte(nil), b...), frame(1, []byte("end"))...)), Op: op, Note: "empty partial frames"}, "reasm")
			addWireCase(c, &wireCase{Data: lit(b), Op: op, Note: "empty partial frames, never completed"}, "reasm")
		}
		nSeq := 40
		if !quick {
			nSeq = 300
		}
		for i := 0; i < nSeq; i++ {
			var b []byte
			k := 1 + c.Rng.Intn(6)
			for j := 0; j < k; j++ {
				flag := byte(0)
				switch c.Rng.Intn(8) {
				case 0:
					flag = 1
				case 1:
					flag = byte(2 + c.Rng.Intn(9))
				case 2:
					flag = byte(11 + c.Rng.Intn(200))
				}
				if j == k-1 && c.Rng.Intn(3) > 0 {
					flag = 1
				}
				p := core.Payload(c.Rng.Intn(251), c.Rng.Intn(40))
				if c.Rng.Intn(4) == 0 {
					p = nil
				}
				b = append(b, frame(flag, p)...)
			}
			if c.Rng.Intn(4) == 0 && len(b) > 0 {
				b = b[:c.Rng.Intn(len(b))]
			}
			addWireCase(c, &wireCase{Data: lit(b), Chunk: c.Rng.Intn(9), Op: op}, "reasm")
		}
	}
	// ---- W3: length-driven handshake readers over a real stream -------------------
	hostile := []int64{-1 << 63, -1 << 31, -1, 0, 1, 16, 17, 4096, 32 << 20, 1<<31 - 1, 1 << 31, 1<<32 - 1, 1 << 40, 1 << 62, 1<<63 - 1}
	for _, which := range []string{"xkey", "sslrecv"} {
		for _, declared := range hostile {
			for _, supplied := range []int{0, 1, 15, 16, 17, 5000} {
				if quick && supplied == 5000 && declared != 4096 && declared != 1<<31-1 {
					continue
				}
				if quick && (supplied == 1 || supplied == 15) && declared != 16 && declared != 17 {
					continue
				}
				var payload []byte
				if which == "xkey" {
					payload = append(payload, i64(1)...)
					payload = append(payload, i64(32)...)
					payload = append(payload, i64(3)...)
					payload = append(payload, i64(86400)...)
				} else {
					payload = append(payload, i64(2)...)
				}
				payload = append(payload, i64(declared)...)
				payload = append(payload, core.Payload(7, supplied)...)
				for vi, cuts := range [][]int{nil, {len(payload) / 2}, {8, 16, len(payload) - 1}} {
					if quick && vi == 2 && supplied != 16 {
						continue
					}
					ok := true
					for _, x := range cuts {
						if x < 0 || x > len(payload) {
							ok = false
						}
					}
					if !ok {
						continue
					}
					sortInts(cuts)
					addWireCase(c, &wireCase{Data: lit(msgFrames(payload, cuts)), Op: "ops", Ops: []opSpec{{Op: which}}}, which)
				}
			}
		}
		{
			var b []byte
			for i := 0; i < 1500; i++ {
				b = append(b, hdr(0, 0)...)
			}
			body := append(append(i64(0), i64(3)...), 1, 2, 3)
			addWireCase(c, &wireCase{Data: lit(append(b, msgFrames(body, []int{4})...)), Op: "ops", Ops: []opSpec{{Op: which}}, Note: "empty partial frames first"}, which)
		}
		// hasKey variants and truncations
		if which == "xkey" {
			for _, hk := range []int64{0, -1, 2, 1 << 40} {
				addWireCase(c, &wireCase{Data: lit(msgFrames(i64(hk), nil)), Op: "ops", Ops: []opSpec{{Op: which}}}, which)
			}
		}
		full := msgFrames(append(append(append(append(i64(1), i64(32)...), i64(3)...), i64(9)...), append(i64(4), 1, 2, 3, 4)...), []int{12})
		for k := 0; k <= len(full); k += 1 + k/8 {
			addWireCase(c, &wireCase{Data: lit(full[:k]), Op: "ops", Ops: []opSpec{{Op: which}}}, which)
		}
	}
	// ---- W4: typed reads through a real stream (ReadFrame path) --------------------
	for _, ops := range [][]opSpec{{{Op: "str"}, {Op: "int"}}, {{Op: "strmax", N: 16}}, {{Op: "ad", N: 64}}, {{Op: "adraw"}}, {{Op: "adskip"}}, {{Op: "skip"}, {Op: "skip"}}} {
		payload := append(wireStr(false, []byte("hello world, this is a string")), i64(77)...)
		if ops[0].family() == "classad" {
			payload = adBytes(false, 2, [][]byte{[]byte("A = 1"), []byte("B = \"x\"")}, []byte("Machine"), []byte("Job"))
		}
		for _, cuts := range [][]int{nil, {3}, {1, 2, 3, 10}} {
			w := msgFrames(payload, cuts)
			addWireCase(c, &wireCase{Data: lit(w), Op: "ops", Ops: ops}, "typed")
			addWireCase(c, &wireCase{Data: lit(w[:len(w)-3]), Op: "ops", Ops: ops}, "typed")
			bad := append([]byte(nil), w...)
			bad[0] = 0 // first frame partial instead of complete
			addWireCase(c, &wireCase{Data: lit(bad), Op: "ops", Ops: ops}, "typed")
		}
		// the message ends with an EMPTY end-of-message frame, and its last field has no
		// terminator: only the EOM flag of the empty frame ends the read
		for _, cutEnd := range []int{0, 1, 9} {
			p2 := payload[:len(payload)-cutEnd]
			if ops[0].Op == "str" {
				p2 = []byte("no terminator here")
				if cutEnd > 0 {
					p2 = p2[:len(p2)-cutEnd]
				}
			}
			addWireCase(c, &wireCase{Data: lit(msgFrames(p2, []int{len(p2)})), Op: "ops", Ops: ops, Note: "empty EOM frame"}, "typed")
			addWireCase(c, &wireCase{Data: lit(msgFrames(p2, []int{len(p2) / 2, len(p2), len(p2)})), Op: "ops", Ops: ops, Note: "empty partial + empty EOM frame"}, "typed")
		}
		// a run of empty partial frames in front of the message (cleartext stream)
		for _, n := range []int{400, 3000} {
			var b []byte
			for i := 0; i < n; i++ {
				b = append(b, hdr(0, 0)...)
			}
			addWireCase(c, &wireCase{Data: lit(append(b, msgFrames(payload, []int{3})...)), Op: "ops", Ops: ops, Note: "empty partial frames first"}, "typed")
		}
		for _, cnt := range []int64{1 << 20, 1 << 62} {
			if ops[0].family() == "classad" {
				addWireCase(c, &wireCase{Data: lit(msgFrames(i64(cnt), nil)), Op: "ops", Ops: ops, Note: "count only"}, "typed")
			}
		}
	}
	if !aborted {
		genEncryptedWire(c)
	}
	if !aborted {
		genBlobs(c)
	}
}

// ---- AES-GCM streams (oracle only) -------------------------------------------

// blobFor builds a crypto-state blob (ExportCryptoState layout).
func blobFor(flags byte, key, eiv, div []byte, ectr, dctr uint32, sd, rd, peer []byte) []byte {
	b := []byte(stream.VerifCryptoStateMagic)
	b = binary.BigEndian.AppendUint16(b, uint16(stream.VerifCryptoStateVersion))
	b = append(b, flags)
	b = append(b, key...)
	b = append(b, eiv...)
	b = append(b, div...)
	b = binary.BigEndian.AppendUint32(b, ectr)
	b = binary.BigEndian.AppendUint32(b, dctr)
	for _, v := range [][]byte{sd, rd, peer} {
		b = binary.BigEndian.AppendUint16(b, uint16(len(v)))
		b = append(b, v...)
	}
	return b
}

type capConn struct {
	memConn
	out []byte
}

func (c *capConn) Write(b []byte) (int, error) { c.out = append(c.out, b...); return len(b), nil }

func genEncryptedWire(c *core.Ctx) {
	key := core.Payload(11, 32)
	ivA := core.Payload(40, 16)
	ivB := core.Payload(90, 16)
	dig := core.Payload(5, 32)
	allFlags := byte(stream.VerifCsFlagEncrypted | stream.VerifCsFlagAuthenticated | stream.VerifCsFlagFinSendAAD | stream.VerifCsFlagFinRecvAAD)
	// sender: counters 3/5; the receiver mirrors them
	sconn := &capConn{}
	snd, err := stream.NewStreamWithCryptoState(sconn, blobFor(allFlags, key, ivA, ivB, 3, 5, dig, dig, nil))
	if err != nil {
		c.OracleFail("harness", "cannot build sender stream: "+err.Error(), nil)
		return
	}
	rblob := blobFor(allFlags, key, ivB, ivA, 5, 3, dig, dig, []byte("<10.0.0.1:9618>"))
	payload := append(wireStr(true, []byte("encrypted hello")), i64(42)...)
	payload = append(payload, adBytes(true, 1, [][]byte{[]byte("A = 1")}, []byte("Machine"), nil)...)
	var bounds []int
	for _, part := range [][]byte{payload[:10], payload[10:30], payload[30:]} {
		if err := snd.SendPartialMessage(ctx, part); err != nil {
			c.OracleFail("harness", "sender: "+err.Error(), nil)
			return
		}
		bounds = append(bounds, len(sconn.out))
	}
	if err := snd.SendMessage(ctx, []byte{}); err != nil {
		c.OracleFail("harness", "sender: "+err.Error(), nil)
		return
	}
	good := append([]byte(nil), sconn.out...)
	opsets := []struct {
		op  string
		ops []opSpec
	}{{"frame", nil}, {"frame0", nil}, {"start", nil}, {"complete", nil}, {"secret", nil},
		{"ops", []opSpec{{Op: "str"}, {Op: "int"}, {Op: "ad", N: 64}}}, {"ops", []opSpec{{Op: "strmax", N: 4}}}, {"ops", []opSpec{{Op: "adraw"}}}, {"ops", []opSpec{{Op: "xkey"}}}, {"ops", []opSpec{{Op: "sslrecv"}}}}
	var inputs [][]byte
	inputs = append(inputs, good)
	for _, b := range bounds { // truncated at and around frame boundaries
		inputs = append(inputs, good[:b], good[:b-1], good[:b+3])
	}
	for i := 0; i < len(good); i += 1 + len(good)/24 { // one flipped bit
		x := append([]byte(nil), good...)
		x[i] ^= 1 << uint(c.Rng.Intn(8))
		inputs = append(inputs, x)
	}
	for _, n := range []uint32{0, 1, 15, 16, 17, 31, 32, 33, maxMsg + 32, maxMsg + 33, 64 << 20, 1<<32 - 1} { // first header length replaced
		x := append([]byte(nil), good...)
		binary.BigEndian.PutUint32(x[1:5], n)
		inputs = append(inputs, x)
	}
	inputs = append(inputs, append(append([]byte(nil), good[:bounds[0]]...), good...)) // first frame replayed
	inputs = append(inputs, append(hdr(0, 0), good...), append(hdr(1, 0), good...))    // zero-length frame injected
	var many []byte
	for i := 0; i < 500; i++ {
		many = append(many, hdr(0, 0)...)
	}
	inputs = append(inputs, many)
	for _, in := range inputs {
		for _, os := range opsets {
			addWireCase(c, &wireCase{Data: []seg{{Lit: in}}, Op: os.op, Ops: os.ops, Blob: rblob, Chunk: c.Rng.Intn(5)}, "enc-"+os.op)
		}
	}
	// a stream that holds a key but is NOT encrypting (SetCryptoMode(false), or between
	// secrets): same bytes as the cleartext cases, compared with the cleartext model
	plainBlob := blobFor(byte(stream.VerifCsFlagAuthenticated|stream.VerifCsFlagFinSendAAD|stream.VerifCsFlagFinRecvAAD), key, ivB, ivA, 5, 3, dig, dig, nil)
	for _, op := range []string{"frame", "frame0", "start", "complete"} {
		for _, w := range [][]byte{hdr(1, 0), hdr(0, 0), frame(1, []byte("abc")), append(frame(0, []byte("ab")), frame(1, nil)...), append(hdr(0, 0), frame(2, []byte("x"))...),
			hdr(1, maxMsg+1), hdr(1, maxMsg+32), hdr(11, 1), frame(1, core.Payload(1, 40))[:20]} {
			addWireCase(c, &wireCase{Data: []seg{{Lit: w}}, Op: op, Blob: plainBlob, KeyedPlain: true}, "keyed-plain")
		}
	}
	for _, ops := range [][]opSpec{{{Op: "str"}, {Op: "int"}}, {{Op: "ad", N: 64}}, {{Op: "xkey"}}} {
		pl := append(wireStr(false, []byte("hello")), i64(7)...)
		addWireCase(c, &wireCase{Data: []seg{{Lit: msgFrames(pl, []int{2})}}, Op: "ops", Ops: ops, Blob: plainBlob, KeyedPlain: true}, "keyed-plain")
	}
	// hostile plaintext inside authentic frames: negative / huge string lengths on a really encrypted stream
	for _, l := range []int64{-1, -1 << 31, 1<<31 - 1, 1 << 31, 40 << 20} {
		sc := &capConn{}
		s2, _ := stream.NewStreamWithCryptoState(sc, blobFor(allFlags, key, ivA, ivB, 3, 5, dig, dig, nil))
		_ = s2.SendMessage(ctx, append(i64(l), []byte("abc\x00")...))
		for _, ops := range [][]opSpec{{{Op: "str"}}, {{Op: "strmax", N: 8}}, {{Op: "skip"}}, {{Op: "ad", N: 32}}, {{Op: "adraw"}}, {{Op: "xkey"}}, {{Op: "sslrecv"}}, {{Op: "idstr"}}} {
			addWireCase(c, &wireCase{Data: []seg{{Lit: sc.out}}, Op: "ops", Ops: ops, Blob: rblob}, "enc-len")
		}
	}
}

// ---- crypto-state blobs ----------------------------------------------------------

type blobCase struct {
	Kind string `json:"kind"`
	Blob []byte `json:"blob"`
}

func genBlobs(c *core.Ctx) {
	key := core.Payload(1, 32)
	good := blobFor(0x3f, key, core.Payload(50, 16), core.Payload(70, 16), 7, 9, core.Payload(2, 32), core.Payload(9, 32), []byte("<192.168.1.5:9618?sock=abc>"))
	var blobs [][]byte
	blobs = append(blobs, good, blobFor(0, key, make([]byte, 16), make([]byte, 16), 0, 0xffffffff, nil, nil, nil))
	for k := 0; k <= len(good); k++ { // EVERY prefix of a valid blob (each handed over with cap = len)
		blobs = append(blobs, good[:k])
	}
	// short blobs around the magic / version fields with wrong contents
	for _, head := range [][]byte{[]byte("CDRX"), []byte("CDRY"), []byte("cdrx"), {0, 0, 0, 0}, []byte("CDR")} {
		for _, tail := range [][]byte{nil, {0}, {0, 1}, {0, 2}, {1, 0}, {0xff, 0xff}, {0, 1, 0}, {0, 1, 0x3f, 9}} {
			blobs = append(blobs, append(append([]byte(nil), head...), tail...))
		}
	}
	fixed := int(stream.VerifCryptoStateFixedLen)
	for _, off := range []int{fixed, fixed + 2 + 32, fixed + 4 + 64} { // every variable-length field
		for _, n := range []uint16{0, 1, 31, 32, 33, 100, 0x7fff, 0x8000, 0xffff} {
			x := append([]byte(nil), good...)
			binary.BigEndian.PutUint16(x[off:], n)
			blobs = append(blobs, x)
		}
	}
	for i := 0; i < 7; i++ {
		x := append([]byte(nil), good...)
		x[i] ^= 0x20
		blobs = append(blobs, x)
	}
	blobs = append(blobs, append(append([]byte(nil), good...), 1, 2, 3), append(append([]byte(nil), good...), make([]byte, 70000)...))
	n := 25
	if !c.Quick() {
		n = 150
	}
	for i := 0; i < n; i++ {
		x := append([]byte(nil), good...)
		for k := 0; k < 1+c.Rng.Intn(3); k++ {
			x[c.Rng.Intn(len(x))] = byte(c.Rng.Intn(256))
		}
		if c.Rng.Intn(3) == 0 {
			x = x[:c.Rng.Intn(len(x)+1)]
		}
		blobs = append(blobs, x)
	}
	for _, b := range blobs {
		addBlobCase(c, b)
	}
}

func runBlob(b []byte) (*stream.Stream, outcome, []failure) {
	var s *stream.Stream
	// hand the parser a slice whose capacity equals its length, so that a slice
	// expression reaching past the blob panics instead of reading spare capacity
	exact := make([]byte, len(b))
	copy(exact, b)
	b = exact[:len(exact):len(exact)]
	out := guarded(func() ([]byte, bool, error) {
		var err error
		s, err = stream.NewStreamWithCryptoState(&memConn{}, b)
		return nil, false, err
	}, anyErrClass)
	var fails []failure
	if out.TimedOut {
		return nil, out, []failure{{"spin", "NewStreamWithCryptoState did not return"}}
	}
	if out.Cls == 9 {
		fails = append(fails, failure{"panic", "NewStreamWithCryptoState panicked: " + out.Panic})
	}
	if bd := allocBound("text", len(b)); out.Alloc > bd {
		fails = append(fails, failure{"alloc", fmt.Sprintf("NewStreamWithCryptoState allocated %d bytes for a %d-byte blob (bound %d)", out.Alloc, len(b), bd)})
	}
	return s, out, fails
}

func addBlobCase(c *core.Ctx, b []byte) {
	if aborted {
		return
	}
	bc := &textCase{Kind: "text", Fn: "blob", In: b}
	bo, out, fails := pBlob(bc)
	c.OracleCheck()
	for _, f := range fails {
		c.OracleFail(f.key, f.desc, bc)
	}
	if out == nil || out.Cls == 9 || out.TimedOut {
		return
	}
	c.Count(fmt.Sprintf("blob-cls%d", out.Cls))
	if out.Cls != 0 || bo == nil {
		c.AddCase(fmt.Sprintf("CBlob %s false 0 [] [] [] 0 0 [] [] []", bytesTerm(b)), bc)
		return
	}
	c.Nontrivial(fmt.Sprintf("blob|%x", b))
	// the model reports the raw flags byte; compare on the six defined bits
	c.AddCase(fmt.Sprintf("CBlob %s true %d %s %s %s %d %d %s %s %s", bytesTerm(b), bo.Flags, core.Hex(bo.Key), core.Hex(bo.EIV), core.Hex(bo.DIV),
		bo.ECtr, bo.DCtr, core.Hex(bo.SD), core.Hex(bo.RD), core.Hex(bo.Peer)), bc)
}
