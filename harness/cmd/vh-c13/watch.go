package main

import (
	"bytes"
	"encoding/base64"
	"encoding/binary"
	"fmt"
	"strings"

	"verifharness/core"

	"github.com/PelicanPlatform/classad/classad"
	"github.com/bbockelm/cedar/watch"
)

// watch.DecodeRequest / DecodeHeader / EncodeRequest / EncodeHeader against coq/Model/Watch.v.
//
// Input layout of a "watch_dec_*" / "watch_enc_*" text case:
//   flags(1) kind(8, big-endian int64) then three fields, each len(2, big-endian) + bytes.
// flags bit0/1/2: field 1/2/3 present (decode: attribute inserted; encode header: non-nil), bit3: kind present.

func packWatch(flags byte, kind int64, f ...[]byte) []byte {
	b := []byte{flags, 0, 0, 0, 0, 0, 0, 0, 0}
	binary.BigEndian.PutUint64(b[1:], uint64(kind))
	for i := 0; i < 3; i++ {
		var x []byte
		if i < len(f) {
			x = f[i]
		}
		b = append(b, byte(len(x)>>8), byte(len(x)))
		b = append(b, x...)
	}
	return b
}

func unpackWatch(in []byte) (flags byte, kind int64, f [3][]byte, ok bool) {
	if len(in) < 9 {
		return
	}
	flags = in[0]
	kind = int64(binary.BigEndian.Uint64(in[1:9]))
	p := in[9:]
	for i := 0; i < 3; i++ {
		if len(p) < 2 {
			return
		}
		n := int(p[0])<<8 | int(p[1])
		if len(p) < 2+n {
			return
		}
		f[i] = p[2 : 2+n]
		p = p[2+n:]
	}
	return flags, kind, f, true
}

// optStr renders (present, value) as two strs entries.
func optStr(v string, ok bool) []string {
	return []string{b01(ok), v}
}

func runWatch(fn string, in []byte) (strs []string, extra []failure, err error) {
	flags, kind, f, ok := unpackWatch(in)
	if !ok {
		return nil, nil, nil
	}
	switch fn {
	case "watch_dec_req":
		ad := classad.New()
		if flags&1 != 0 {
			ad.InsertAttrString(watch.AttrAdType, string(f[0]))
		}
		if flags&2 != 0 {
			ad.InsertAttrString(watch.AttrConstraint, string(f[1]))
		}
		if flags&4 != 0 {
			ad.InsertAttrString(watch.AttrCursor, string(f[2]))
		}
		// what the decoder's own lookups see (the model's input)
		for _, a := range []string{watch.AttrAdType, watch.AttrConstraint, watch.AttrCursor} {
			v, ok := ad.EvaluateAttrString(a)
			strs = append(strs, optStr(v, ok)...)
		}
		t, c, cur, e := watch.DecodeRequest(ad)
		strs = append(strs, b01(e == nil), t, c, string(cur))
		if e == nil && len(cur) > len(f[2]) {
			extra = append(extra, failure{"accounting", fmt.Sprintf("DecodeRequest returned a %d-byte cursor for %d bytes of text", len(cur), len(f[2]))})
		}
		return strs, extra, e
	case "watch_dec_hdr":
		ad := classad.New()
		if flags&8 != 0 {
			ad.InsertAttr(watch.AttrKind, kind)
		}
		if flags&1 != 0 {
			ad.InsertAttrString(watch.AttrKey, string(f[0]))
		}
		if flags&2 != 0 {
			ad.InsertAttrString(watch.AttrCursor, string(f[1]))
		}
		k0, kok := ad.EvaluateAttrInt(watch.AttrKind)
		strs = append(strs, b01(kok), fmt.Sprint(k0))
		for _, a := range []string{watch.AttrKey, watch.AttrCursor} {
			v, ok := ad.EvaluateAttrString(a)
			strs = append(strs, optStr(v, ok)...)
		}
		k, key, cur, e := watch.DecodeHeader(ad)
		_, _ = k.String(), k.HasAd()
		strs = append(strs, b01(e == nil), fmt.Sprint(int64(k)), string(key), string(cur))
		if e == nil && (len(key) > len(f[0]) || len(cur) > len(f[1])) {
			extra = append(extra, failure{"accounting", "DecodeHeader returned more bytes than the text it was given"})
		}
		return strs, extra, e
	case "watch_enc_req":
		ad := watch.EncodeRequest(string(f[0]), string(f[1]), f[2])
		for _, a := range []string{watch.AttrAdType, watch.AttrConstraint, watch.AttrCursor} {
			v, ok := ad.EvaluateAttrString(a)
			strs = append(strs, optStr(v, ok)...)
		}
		// decoder . encoder (model-independent oracle)
		t, c, cur, e := watch.DecodeRequest(ad)
		if len(f[0]) > 0 && (e != nil || t != string(f[0]) || c != string(f[1]) || !bytes.Equal(cur, f[2])) {
			extra = append(extra, failure{"roundtrip", fmt.Sprintf("DecodeRequest(EncodeRequest(%q, %q, %x)) = (%q, %q, %x, %v)", trunc(string(f[0])), trunc(string(f[1])), f[2], trunc(t), trunc(c), cur, e)})
		}
		if len(f[0]) == 0 && e == nil {
			extra = append(extra, failure{"accounting", "DecodeRequest accepted an empty ad type"})
		}
		return strs, extra, nil
	case "watch_enc_hdr":
		var key, cur []byte
		if flags&1 != 0 {
			key = append([]byte{}, f[0]...)
		}
		if flags&2 != 0 {
			cur = append([]byte{}, f[1]...)
		}
		ad := watch.EncodeHeader(watch.Kind(kind), key, cur)
		k0, kok := ad.EvaluateAttrInt(watch.AttrKind)
		strs = append(strs, b01(kok), fmt.Sprint(k0))
		for _, a := range []string{watch.AttrKey, watch.AttrCursor} {
			v, ok := ad.EvaluateAttrString(a)
			strs = append(strs, optStr(v, ok)...)
		}
		k, key2, cur2, e := watch.DecodeHeader(ad)
		if e != nil || int64(k) != kind || !bytes.Equal(key2, key) || !bytes.Equal(cur2, cur) {
			extra = append(extra, failure{"roundtrip", fmt.Sprintf("DecodeHeader(EncodeHeader(%d, %x, %x)) = (%d, %x, %x, %v)", kind, key, cur, int64(k), key2, cur2, e)})
		}
		return strs, extra, nil
	}
	return nil, nil, nil
}

func optTerm(present, v string) string {
	if present == "" {
		return "None"
	}
	return "(Some " + bytesTerm([]byte(v)) + ")"
}
func zTerm(x string) string {
	if strings.HasPrefix(x, "-") {
		return "(" + x + ")%Z"
	}
	return x + "%Z"
}

func addWatchCase(c *core.Ctx, fn string, in []byte, res textRes, tc *textCase) bool {
	st := res.strs
	bt := func(x string) string { return bytesTerm([]byte(x)) }
	flags, kind, f, ok := unpackWatch(in)
	switch fn {
	case "watch_dec_req":
		if len(st) < 10 {
			return false
		}
		c.AddCase(fmt.Sprintf("CWatchReq %s %s %s %s %s %s %s", optTerm(st[0], st[1]), optTerm(st[2], st[3]), optTerm(st[4], st[5]),
			core.Bool(st[6] != ""), bt(st[7]), bt(st[8]), bt(st[9])), tc)
		if st[6] != "" && st[9] != "" {
			c.Nontrivial("watchreq|" + string(in))
		}
	case "watch_dec_hdr":
		if len(st) < 10 {
			return false
		}
		kt := "None"
		if st[0] != "" {
			kt = "(Some " + zTerm(st[1]) + ")"
		}
		c.AddCase(fmt.Sprintf("CWatchHdr %s %s %s %s %s %s %s", kt, optTerm(st[2], st[3]), optTerm(st[4], st[5]),
			core.Bool(st[6] != ""), zTerm(st[7]), bt(st[8]), bt(st[9])), tc)
		if st[6] != "" && (st[8] != "" || st[9] != "") {
			c.Nontrivial("watchhdr|" + string(in))
		}
	case "watch_enc_req":
		if !ok || len(st) < 6 {
			return false
		}
		c.AddCase(fmt.Sprintf("CWatchEncReq %s %s %s %s %s %s", bytesTerm(f[0]), bytesTerm(f[1]), bytesTerm(f[2]),
			optTerm(st[0], st[1]), optTerm(st[2], st[3]), optTerm(st[4], st[5])), tc)
		c.Nontrivial("watchencreq|" + string(in))
	case "watch_enc_hdr":
		if !ok || len(st) < 6 {
			return false
		}
		ot := func(bit byte, x []byte) string {
			if flags&bit == 0 {
				return "None"
			}
			return "(Some " + bytesTerm(x) + ")"
		}
		kt := "None"
		if st[0] != "" {
			kt = "(Some " + zTerm(st[1]) + ")"
		}
		c.AddCase(fmt.Sprintf("CWatchEncHdr %s %s %s %s %s %s", zTerm(fmt.Sprint(kind)), ot(1, f[0]), ot(2, f[1]),
			kt, optTerm(st[2], st[3]), optTerm(st[4], st[5])), tc)
		c.Nontrivial("watchenchdr|" + string(in))
	default:
		return false
	}
	return true
}

// genWatch: base64 texts around every decision of decodeQuantum (padding positions, newlines
// everywhere, trailing garbage, non-alphabet bytes, unused low bits), the absent / empty /
// present matrix of the attributes, encoder inputs of every length mod 3, mutations.
func genWatch(c *core.Ctx) {
	rnd := func(n int) []byte {
		b := make([]byte, n)
		for i := range b {
			b[i] = byte(c.Rng.Intn(256))
		}
		return b
	}
	texts := []string{"", "=", "==", "===", "====", "A", "AA", "AAA", "AAAA", "AA==", "AAA=", "AA=", "A===", "A=", "AA=A", "AA==A", "AAA=A", "AA==\n", "AA=\n=", "AA\n==", "A\nA==", "\nAA==", "AA==\r\n\r\n",
		"AAA=\n", "AAA\n=", "AAA=\nA", "AA== ", " AA==", "AA ==", "AB==", "AAB=", "//8=", "/+8=", "-_8=", "AA==AA==", "AAAAAA==", "AAAA\nAAAA", "\n", "\r\n\r\n", "AAAA\n", "AAAAA", "AAAAAA", "AAAAAAA",
		"AAAAAAAA", "AAAAAAA=", "AAAA=", "AAAA==", "aGVsbG8=", "aGVsbG8", "aGVsbG8==", "aGVsbG8h", "aGVs\nbG8h", "aGVs bG8h", "aGVsbG8h!", "\x00AAA", "AAA\x00", "\xff\xff\xff\xff", "é===", "A\xc3\xa9AA", "AAAA====", "=AAA", "A=AA",
		"AAAAAAAAAAAAAAAA", "AAAAAAAA\nAAAAAAAA", "AAAAAAAAAAA=", "AAAAAAAAAA==", "AAAAAAAAA===", "AAAAAAAAAAAA\n\n\n\n", "AAAAAAAA!AAAAAAA", "AAAA!AAA", strings.Repeat("\n", 9) + "AAAA", "AAAAAAA\n="}
	for i := 0; i < 12; i++ { // valid encodings of every length, with and without inserted newlines
		e := base64.StdEncoding.EncodeToString(rnd(i))
		texts = append(texts, e)
		if len(e) > 2 {
			p := 1 + c.Rng.Intn(len(e)-1)
			texts = append(texts, e[:p]+"\n"+e[p:], e[:p]+"\r\n"+e[p:]+"\n")
		}
	}
	for ti, t := range texts {
		addTextCase(c, "watch_dec_req", packWatch(7, 0, []byte("StartdAd"), []byte("Cpus > 1"), []byte(t)))
		if !c.Quick() || ti%2 == 0 {
			addTextCase(c, "watch_dec_hdr", packWatch(8|1|2, int64(ti%7)-1, []byte(t), []byte("aGVsbG8=")))
			addTextCase(c, "watch_dec_hdr", packWatch(8|1|2, 0, []byte("a2V5"), []byte(t)))
		}
	}
	// presence matrix
	for flags := byte(0); flags < 16; flags++ {
		for _, ty := range []string{"StartdAd", ""} {
			addTextCase(c, "watch_dec_req", packWatch(flags&7, 0, []byte(ty), []byte(""), []byte("aGVsbG8=")))
			addTextCase(c, "watch_dec_req", packWatch(flags&7, 0, []byte(ty), []byte("x"), []byte("")))
		}
		for _, k := range []int64{0, 5, 6, -1, 1 << 62, -1 << 63} {
			addTextCase(c, "watch_dec_hdr", packWatch(flags, k, []byte("a2V5"), []byte("")))
			if !c.Quick() || k == 0 {
				addTextCase(c, "watch_dec_hdr", packWatch(flags, k, []byte(""), []byte("!!")))
			}
		}
	}
	// encoders: every length mod 3, all byte values, nil vs empty
	for n := 0; n <= 10; n++ {
		b := rnd(n)
		addTextCase(c, "watch_enc_req", packWatch(0, 0, []byte("StartdAd"), []byte("DAGManJobId == 42"), b))
		addTextCase(c, "watch_enc_req", packWatch(0, 0, []byte("T"), nil, b))
		for flags := byte(0); flags < 4; flags++ {
			addTextCase(c, "watch_enc_hdr", packWatch(flags, int64(n%6), b, rnd(10-n)))
		}
	}
	all := make([]byte, 256)
	for i := range all {
		all[i] = byte(i)
	}
	addTextCase(c, "watch_enc_req", packWatch(0, 0, []byte("StartdAd"), nil, all))
	addTextCase(c, "watch_enc_hdr", packWatch(3, 3, all[1:], all[2:]))
	addTextCase(c, "watch_enc_req", packWatch(0, 0, nil, nil, []byte("x")))
	addTextCase(c, "watch_enc_req", packWatch(0, 0, []byte("Name\x00Addr"), []byte("a\"b\\c"), []byte{0, 0, 0}))
	for _, k := range []int64{-1, 6, 1 << 40, -1 << 63, 1<<63 - 1} {
		addTextCase(c, "watch_enc_hdr", packWatch(1, k, []byte("Name\x00<1.2.3.4:5>"), nil))
	}
	nMut := 80
	if !c.Quick() {
		nMut = 2000
	}
	for i := 0; i < nMut; i++ {
		e := []byte(base64.StdEncoding.EncodeToString(rnd(1 + c.Rng.Intn(14))))
		for k := 0; k < 1+c.Rng.Intn(3); k++ {
			const sp = "=\n\r A/+-_\x00\xff!"
			switch c.Rng.Intn(4) {
			case 0:
				p := c.Rng.Intn(len(e) + 1)
				e = append(e[:p], append([]byte{sp[c.Rng.Intn(len(sp))]}, e[p:]...)...)
			case 1:
				if len(e) > 0 {
					e[c.Rng.Intn(len(e))] = sp[c.Rng.Intn(len(sp))]
				}
			case 2:
				if len(e) > 0 {
					p := c.Rng.Intn(len(e))
					e = append(e[:p], e[p+1:]...)
				}
			default:
				e = e[:c.Rng.Intn(len(e)+1)]
			}
		}
		if i%2 == 0 {
			addTextCase(c, "watch_dec_req", packWatch(7, 0, []byte("T"), nil, e))
		} else {
			addTextCase(c, "watch_dec_hdr", packWatch(8|1|2, 1, e, e))
		}
	}
	for _, unit := range []string{"A", "=", "\n", "AAAA", "AA==", "AAA\n", "A\n"} {
		long := []byte(strings.Repeat(unit, 12000/len(unit)))
		addTextCase(c, "watch_dec_req", packWatch(7, 0, []byte("T"), nil, long))
	}
	addTextCase(c, "watch_enc_req", packWatch(0, 0, []byte("T"), nil, bytes.Repeat([]byte{0xa5, 0x5a, 0xff}, 4000)))
}
