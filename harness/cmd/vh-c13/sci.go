package main

import (
	"crypto/ecdsa"
	"crypto/elliptic"
	"crypto/rand"
	"crypto/tls"
	"crypto/x509"
	"crypto/x509/pkix"
	"encoding/binary"
	"fmt"
	"math/big"
	"net"
	"runtime"
	"time"

	"verifharness/core"

	"github.com/bbockelm/cedar/message"
	"github.com/bbockelm/cedar/security"
	"github.com/bbockelm/cedar/stream"
)

// sciCase: the server side of exchangeSciToken is driven by a scripted TLS
// client whose TLS records travel as CEDAR messages (status, length, bytes),
// exactly as CEDARTLSConnection frames them.
type sciCase struct {
	Kind     string `json:"kind"` // "sci"
	Declared uint32 `json:"declared"`
	Supplied int    `json:"supplied"`
}

// cedarTLSPeer is the harness' own adapter: one Write = one CEDAR message.
type cedarTLSPeer struct {
	s   *stream.Stream
	buf []byte
}

func (p *cedarTLSPeer) Write(b []byte) (int, error) {
	m := message.NewMessageForStream(p.s)
	if err := m.PutInt(ctx, 2); err != nil {
		return 0, err
	}
	if err := m.PutInt(ctx, len(b)); err != nil {
		return 0, err
	}
	if err := m.PutBytes(ctx, b); err != nil {
		return 0, err
	}
	if err := m.FinishMessage(ctx); err != nil {
		return 0, err
	}
	return len(b), nil
}
func (p *cedarTLSPeer) Read(b []byte) (int, error) {
	if len(p.buf) == 0 {
		m := message.NewMessageFromStream(p.s)
		if _, err := m.GetInt(ctx); err != nil {
			return 0, err
		}
		n, err := m.GetInt(ctx)
		if err != nil {
			return 0, err
		}
		if n < 0 || n > 1<<20 {
			return 0, fmt.Errorf("peer: bad length %d", n)
		}
		d, err := m.GetBytes(ctx, n)
		if err != nil {
			return 0, err
		}
		p.buf = d
	}
	n := copy(b, p.buf)
	p.buf = p.buf[n:]
	return n, nil
}
func (p *cedarTLSPeer) Close() error                       { return nil }
func (p *cedarTLSPeer) LocalAddr() net.Addr                { return nil }
func (p *cedarTLSPeer) RemoteAddr() net.Addr               { return nil }
func (p *cedarTLSPeer) SetDeadline(t time.Time) error      { return nil }
func (p *cedarTLSPeer) SetReadDeadline(t time.Time) error  { return nil }
func (p *cedarTLSPeer) SetWriteDeadline(t time.Time) error { return nil }

var sciCert *tls.Certificate

func selfSigned() (tls.Certificate, error) {
	if sciCert != nil {
		return *sciCert, nil
	}
	key, err := ecdsa.GenerateKey(elliptic.P256(), rand.Reader)
	if err != nil {
		return tls.Certificate{}, err
	}
	tmpl := &x509.Certificate{SerialNumber: big.NewInt(1), Subject: pkix.Name{CommonName: "vh-c13"},
		NotBefore: time.Now().Add(-time.Hour), NotAfter: time.Now().Add(24 * time.Hour),
		KeyUsage: x509.KeyUsageDigitalSignature, ExtKeyUsage: []x509.ExtKeyUsage{x509.ExtKeyUsageServerAuth}, DNSNames: []string{"vh-c13"}}
	der, err := x509.CreateCertificate(rand.Reader, tmpl, tmpl, &key.PublicKey, key)
	if err != nil {
		return tls.Certificate{}, err
	}
	c := tls.Certificate{Certificate: [][]byte{der}, PrivateKey: key}
	sciCert = &c
	return c, nil
}

func runSci(sc *sciCase) []failure {
	cert, err := selfSigned()
	if err != nil {
		return []failure{{"harness", "certificate: " + err.Error()}}
	}
	a, b := net.Pipe()
	defer a.Close()
	defer b.Close()
	srv := security.NewVerifC13SciTokenServer(ctx, stream.NewStream(a), cert)
	peerDone := make(chan error, 1)
	go func() { // scripted client
		pc := &cedarTLSPeer{s: stream.NewStream(b)}
		tc := tls.Client(pc, &tls.Config{InsecureSkipVerify: true, MinVersion: tls.VersionTLS12, MaxVersion: tls.VersionTLS12})
		if err := tc.Handshake(); err != nil {
			b.Close()
			peerDone <- err
			return
		}
		msg := make([]byte, 4+sc.Supplied)
		binary.BigEndian.PutUint32(msg, sc.Declared)
		for i := 4; i < len(msg); i++ {
			msg[i] = 'x'
		}
		_, err := tc.Write(msg)
		b.Close()
		peerDone <- err
	}()
	hs := make(chan error, 1)
	go func() { hs <- srv.Handshake() }()
	select {
	case err := <-hs:
		if err != nil {
			return []failure{{"harness", "TLS handshake over CEDAR messages failed: " + err.Error()}}
		}
	case <-time.After(10 * time.Second):
		return []failure{{"harness", "TLS handshake over CEDAR messages timed out"}}
	}
	runtime.GC()
	out := guarded(func() ([]byte, bool, error) {
		_, err := srv.Exchange(ctx)
		return nil, false, err
	}, anyErrClass)
	var fails []failure
	what := fmt.Sprintf("exchangeSciToken(server) declared size %d, %d bytes supplied", sc.Declared, sc.Supplied)
	if out.TimedOut {
		return []failure{{"spin", what + " did not return"}}
	}
	if out.Cls == 9 {
		fails = append(fails, failure{"panic", what + " panicked: " + out.Panic})
	}
	// one token buffer of at most 1 MiB may be allocated on the declared size alone
	if bound := uint64(16*(sc.Supplied+4)) + 1<<20 + 512<<10; out.Alloc > bound {
		fails = append(fails, failure{"alloc", fmt.Sprintf("%s allocated %d bytes (bound %d)", what, out.Alloc, bound)})
	}
	if out.Cls == 0 {
		fails = append(fails, failure{"accepted", what + " accepted a garbage token"})
	}
	return fails
}

func genSci(c *core.Ctx) {
	max := uint32(security.VerifC13MaxSciTokenSize)
	for _, d := range []uint32{0, 1, 100, max - 1, max, max + 1, 32 << 20, 1 << 31, 1<<32 - 1} {
		for _, sup := range []int{0, 50} {
			if poisoned["sci"] || aborted {
				return
			}
			sc := &sciCase{Kind: "sci", Declared: d, Supplied: sup}
			fails := pSci(sc)
			c.OracleCheck()
			c.Evaluated(1)
			c.Count("sci")
			for _, f := range fails {
				c.OracleFail(f.key, f.desc, sc)
				if f.key == "alloc" || f.key == "panic" || f.key == "crash" {
					poisoned["sci"] = true
				}
			}
		}
	}
}
