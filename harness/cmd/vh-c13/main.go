// vh-c13: correspondence + direct oracle for C13 (decoding is total and bounded:
// no panic, no spin, no unbounded recursion, allocation proportional to the
// bytes received, size caps honoured).
package main

import (
	"context"
	"encoding/binary"
	"encoding/json"
	"errors"
	"fmt"
	"io"
	"log/slog"
	"os"
	"runtime"
	"strings"
	"time"

	"verifharness/core"
	"verifharness/mock"

	"github.com/bbockelm/cedar/message"
	"github.com/bbockelm/cedar/security"
)

var ctx = context.Background()

// ---- guarded execution --------------------------------------------------

type outcome struct {
	Cls      int    // 0 ok, 1 eof, 2 mock-no-more-frames, 3 too big, 4 other error, 5 error (real stream), 9 panic
	Val      []byte // returned bytes, if any
	HasVal   bool
	Panic    string
	TimedOut bool
	Alloc    uint64
	Dur      time.Duration
	ErrText  string
}

const spinTimeout = 4 * time.Second

// aborted is set once a call did not return within spinTimeout: the goroutine
// cannot be killed, so generation stops and the process exits after flushing.
var aborted bool

// guarded runs f on a fresh goroutine under recover(), measures the bytes it
// allocated (runtime.MemStats.TotalAlloc delta) and bounds its running time.
func guarded(f func() ([]byte, bool, error), classify func(error) int) outcome {
	ch := make(chan outcome, 1)
	go func() {
		var o outcome
		var m0, m1 runtime.MemStats
		defer func() {
			if r := recover(); r != nil {
				o.Cls = 9
				o.Panic = fmt.Sprint(r)
				ch <- o
			}
		}()
		runtime.ReadMemStats(&m0)
		t0 := time.Now()
		v, has, err := f()
		o.Dur = time.Since(t0)
		runtime.ReadMemStats(&m1)
		o.Alloc = m1.TotalAlloc - m0.TotalAlloc
		if err != nil {
			o.Cls = classify(err)
			o.ErrText = err.Error()
			if len(o.ErrText) > 160 {
				o.ErrText = o.ErrText[:160]
			}
		} else {
			o.Val, o.HasVal = v, has
		}
		ch <- o
	}()
	select {
	case o := <-ch:
		return o
	case <-time.After(spinTimeout):
		// confirm it is really stuck and not just descheduled
		select {
		case o := <-ch:
			return o
		case <-time.After(spinTimeout / 2):
		}
		aborted = true
		return outcome{Cls: 8, TimedOut: true}
	}
}

func mockClass(err error) int {
	var tooBig *message.ErrStringSizeExceeded
	switch {
	case errors.Is(err, mock.ErrNoMoreFrames):
		return 2
	case errors.As(err, &tooBig):
		return 3
	case errors.Is(err, io.EOF):
		return 1
	}
	return 4
}
func anyErrClass(err error) int { return 5 }

// ---- message-level cases ---------------------------------------------------

type opSpec struct {
	Op string `json:"op"` // int str strmax skip bytes ad adraw adskip idstr
	N  int64  `json:"n,omitempty"`
}

type msgCase struct {
	Kind   string       `json:"kind"` // "msg"
	Enc    bool         `json:"enc"`
	Frames []mock.Frame `json:"frames"`
	Ops    []opSpec     `json:"ops"`
	Note   string       `json:"note,omitempty"`
}

type opObs struct {
	out       outcome
	left      int // frames not yet pulled
	buffered  int
	pulledNow int // bytes pulled during this op
	parseFail int // index from "failed to parse expression %d", or -1
}

func (o opSpec) family() string {
	switch o.Op {
	case "ad", "adraw", "adrawbody", "adskip":
		return "classad"
	}
	return "string"
}

// allocBound is the direct oracle's bound on bytes allocated by one call, as a
// function of the bytes the peer has supplied to the reader so far.
func allocBound(family string, received int) uint64 {
	switch family {
	case "classad": // AST nodes and map entries per attribute dominate
		return 768*uint64(received) + 256<<10
	case "wire": // a frame buffer of up to MaxMessageSize+32 is allocated on the header alone
		return 16*uint64(received) + (1 << 20) + 192<<10
	case "text":
		return 96*uint64(received) + 64<<10
	}
	return 16*uint64(received) + 64<<10
}

func doOp(m *message.Message, o opSpec) ([]byte, bool, error) {
	switch o.Op {
	case "int":
		_, err := m.GetInt64(ctx)
		return nil, false, err
	case "str":
		s, err := m.GetString(ctx)
		return []byte(s), err == nil, err
	case "strmax":
		s, err := m.GetStringWithMaxSize(ctx, int(o.N))
		return []byte(s), err == nil, err
	case "skip":
		return nil, false, m.SkipString(ctx)
	case "bytes":
		b, err := m.GetBytes(ctx, int(o.N))
		return b, err == nil, err
	case "ad":
		var err error
		if o.N != 0 { // a non-positive cap means "no limit": it must behave like GetClassAd
			_, err = m.GetClassAdWithMaxSize(ctx, int(o.N))
		} else {
			_, err = m.GetClassAd(ctx)
		}
		return nil, false, err
	case "adraw":
		_, err := m.GetClassAdRaw(ctx)
		return nil, false, err
	case "adrawbody":
		_, err := m.GetClassAdRawBody(ctx, int(o.N))
		return nil, false, err
	case "adskip":
		return nil, false, m.SkipClassAdRaw(ctx)
	case "remain":
		b, err := m.GetRemainingBytes(ctx)
		return b, err == nil, err
	case "idstr":
		s, err := security.VerifC13GetIDString(ctx, m)
		return []byte(s), err == nil, err
	case "rawbytes":
		b, err := security.VerifC13GetRawBytes(ctx, m, int(o.N))
		return b, err == nil, err
	}
	panic("unknown op " + o.Op)
}

func parseFailIndex(errText string) int {
	// classification only: which expression the external ClassAd parser refused
	i := strings.Index(errText, "failed to parse expression ")
	if i < 0 {
		return -1
	}
	var k int
	if _, err := fmt.Sscanf(errText[i:], "failed to parse expression %d", &k); err != nil {
		return -1
	}
	return k
}

type failure struct{ key, desc string }

// depthStream is the mock stream with a call-stack probe: reassembly in
// Message.ensureData must not add a stack frame per frame pulled.
type depthStream struct {
	*mock.Stream
	maxDepth int
}

func (d *depthStream) ReadFrame(c context.Context) ([]byte, bool, error) {
	var pcs [512]uintptr
	if n := runtime.Callers(0, pcs[:]); n > d.maxDepth {
		d.maxDepth = n
	}
	return d.Stream.ReadFrame(c)
}

var maxMsgDepthSeen int

// runMsg drives the real Message reader over a mock stream and applies the
// direct property oracle to every call.
func runMsg(mc *msgCase) ([]opObs, []failure) {
	st := &mock.Stream{Enc: mc.Enc, In: append([]mock.Frame(nil), mc.Frames...)}
	ds := &depthStream{Stream: st}
	m := message.NewMessageFromStream(ds)
	var obs []opObs
	var fails []failure
	total := 0
	for _, f := range mc.Frames {
		total += len(f.Data)
	}
	pulled := 0
	nextFrame := 0
	for _, o := range mc.Ops {
		bufBefore := m.VerifC13Buffered()
		o := o
		out := guarded(func() ([]byte, bool, error) { return doOp(m, o) }, mockClass)
		if out.TimedOut {
			fails = append(fails, failure{"spin", fmt.Sprintf("%s(%d) enc=%v did not return within %v on a %d-byte input", o.Op, o.N, mc.Enc, spinTimeout, total)})
			obs = append(obs, opObs{out: out, parseFail: -1})
			return obs, fails
		}
		left := len(st.In)
		np := len(mc.Frames) - left
		pulledNow := 0
		lastPulled := 0
		for ; nextFrame < np; nextFrame++ {
			lastPulled = len(mc.Frames[nextFrame].Data)
			pulledNow += lastPulled
		}
		pulled += pulledNow
		buffered := m.VerifC13Buffered()
		consumed := bufBefore + pulledNow - buffered
		if (o.Op == "idstr" || o.Op == "rawbytes") && out.Cls >= 1 && out.Cls <= 4 {
			out.Cls = 5 // these wrap the error text only: class not observable
		}
		ob := opObs{out: out, left: left, buffered: buffered, pulledNow: pulledNow, parseFail: -1}
		if o.Op == "ad" && out.Cls != 0 {
			ob.parseFail = parseFailIndex(out.ErrText)
		}
		obs = append(obs, ob)
		// --- oracle ---
		if out.Cls == 9 {
			fails = append(fails, failure{"panic", fmt.Sprintf("%s(%d) enc=%v panicked: %s", o.Op, o.N, mc.Enc, out.Panic)})
		}
		if b := allocBound(o.family(), pulled+16); out.Alloc > b {
			fails = append(fails, failure{"alloc", fmt.Sprintf("%s(%d) enc=%v allocated %d bytes after %d bytes were received (bound %d)", o.Op, o.N, mc.Enc, out.Alloc, pulled, b)})
		}
		if ds.maxDepth > maxMsgDepthSeen {
			maxMsgDepthSeen = ds.maxDepth
		}
		if ds.maxDepth > 64 {
			fails = append(fails, failure{"recursion", fmt.Sprintf("%s(%d) enc=%v: call stack %d frames deep while pulling %d frames (one stack frame per frame?)", o.Op, o.N, mc.Enc, ds.maxDepth, len(mc.Frames)-left)})
		}
		if out.Dur > 3*time.Second {
			fails = append(fails, failure{"slow", fmt.Sprintf("%s(%d) enc=%v ran %v on a %d-byte input", o.Op, o.N, mc.Enc, out.Dur, total)})
		}
		if consumed < 0 || consumed > bufBefore+pulledNow {
			fails = append(fails, failure{"accounting", fmt.Sprintf("%s consumed %d bytes of %d", o.Op, consumed, bufBefore+pulledNow)})
		}
		capBytes := -1 // bound on consumed bytes for capped readers
		need := -1     // no frame may be pulled while the buffer already holds this many bytes
		switch o.Op {
		case "strmax":
			if o.N > 1<<40 {
				// a cap beyond any input: nothing to check
			} else if o.N > 0 {
				capBytes, need = int(o.N), int(o.N)
				if mc.Enc {
					capBytes += 8
				}
			} else {
				capBytes, need = 0, 0
			}
		case "idstr":
			capBytes, need = int(security.VerifC13MaxNameLen)+8, int(security.VerifC13MaxNameLen)
			if mc.Enc {
				capBytes += 8
			}
		case "ad":
			if o.N > 1<<40 {
				// a cap beyond any input: nothing to check (and 6*cap would overflow)
			} else if o.N > 0 {
				need = int(o.N)
				if mc.Enc {
					capBytes = 6*int(o.N) + 32
				} else {
					capBytes = int(o.N) + 8
				}
			}
		}
		if need >= 0 && need < 8 {
			need = 8
		}
		if capBytes >= 0 && consumed > capBytes {
			fails = append(fails, failure{"cap-consumed", fmt.Sprintf("%s(cap %d) enc=%v consumed %d payload bytes (bound %d), outcome class %d", o.Op, o.N, mc.Enc, consumed, capBytes, out.Cls)})
		}
		if need >= 0 && pulledNow > 0 {
			// buffer level when the last frame was requested is at least this
			atLastPull := bufBefore + pulledNow - lastPulled - consumed
			if atLastPull >= need {
				fails = append(fails, failure{"cap-buffered", fmt.Sprintf("%s(cap %d) enc=%v requested another frame while at least %d unread bytes were buffered", o.Op, o.N, mc.Enc, atLastPull)})
			}
		}
		if o.Op == "strmax" && out.Cls == 0 && int64(len(out.Val)) > o.N && o.N >= 0 {
			fails = append(fails, failure{"cap-value", fmt.Sprintf("strmax(cap %d) returned %d bytes without error", o.N, len(out.Val))})
		}
		if out.Cls != 0 {
			break
		}
	}
	return obs, fails
}

func opTerm(o opSpec, ob *opObs) string {
	switch o.Op {
	case "int":
		return "OInt"
	case "str":
		return "OStr"
	case "strmax":
		return "(OStrMax " + core.Z(o.N) + ")"
	case "skip":
		return "OSkip"
	case "bytes", "rawbytes":
		return "(OBytes " + core.Z(o.N) + ")"
	case "ad":
		pf := "None"
		if ob != nil && ob.parseFail >= 0 {
			pf = fmt.Sprintf("(Some %d)", ob.parseFail)
		}
		return "(OAd " + core.Z(o.N) + " " + pf + ")"
	case "remain":
		return "ORemain"
	case "adraw":
		return "OAdRaw"
	case "adrawbody":
		return "(OAdRawBody " + core.Z(o.N) + ")"
	case "adskip":
		return "OAdSkip"
	case "idstr":
		return "(OIdStr " + core.Z(int64(security.VerifC13MaxNameLen)) + ")"
	case "xkey":
		return "OXKey"
	case "sslrecv":
		return "OSSLRecv"
	}
	panic("opTerm " + o.Op)
}

func valTerm(o outcome) string {
	if o.Cls == 0 && o.HasVal && len(o.Val) <= 160 {
		return "(Some " + bytesTerm(o.Val) + ")"
	}
	return "None"
}

func msgBytes(mc *msgCase) int {
	n := 0
	for _, f := range mc.Frames {
		n += len(f.Data)
	}
	return n
}

// pMsg / pWire / pText / pBlob / pSci run a case in the isolated probe process.
func pMsg(mc *msgCase) ([]opObs, []failure) {
	mc.Kind = "msg"
	r := runIsolated(mc, fmt.Sprintf("%v enc=%v", mc.Ops, mc.Enc), msgBytes(mc))
	if r.MsgDepth > maxMsgDepthSeen {
		maxMsgDepthSeen = r.MsgDepth
	}
	return r.Msg, withErr(r)
}
func pWire(wc *wireCase) (wireObs, []failure) {
	wc.Kind = "wire"
	n := 0
	for _, sg := range wc.Data {
		n += len(sg.Lit) + sg.Len
	}
	r := runIsolated(wc, fmt.Sprintf("%s %v", wc.Op, wc.Ops), n)
	if r.Wire == nil {
		return wireObs{out: outcome{Cls: 8}}, withErr(r)
	}
	if r.Wire.depth > maxDepthSeen {
		maxDepthSeen = r.Wire.depth
	}
	return *r.Wire, withErr(r)
}
func pText(tc *textCase) (textRes, []failure, bool) {
	tc.Kind = "text"
	r := runIsolated(tc, tc.Fn, len(tc.In))
	if r.Text == nil {
		return textRes{}, withErr(r), false
	}
	return *r.Text, withErr(r), true
}
func pBlob(tc *textCase) (*blobObs, *outcome, []failure) {
	tc.Kind = "text"
	r := runIsolated(tc, "NewStreamWithCryptoState", len(tc.In))
	return r.Blob, r.Out, withErr(r)
}
func pSci(sc *sciCase) []failure {
	sc.Kind = "sci"
	return withErr(runIsolated(sc, "exchangeSciToken(server)", sc.Supplied+4))
}
func withErr(r jobResult) []failure {
	if r.Err != "" {
		return append(r.Fails, failure{"harness", r.Err})
	}
	return r.Fails
}

// oracleMsgCase runs the direct oracle only (no Coq case).
func oracleMsgCase(c *core.Ctx, mc *msgCase) {
	if aborted {
		return
	}
	if poisoned["msg-"+mc.Ops[0].Op] {
		return
	}
	mc.Kind = "msg"
	_, fails := pMsg(mc)
	c.OracleCheck()
	c.Evaluated(1)
	c.Count("msg-oracle-only-" + mc.Ops[0].Op)
	for _, f := range fails {
		c.OracleFail(f.key, f.desc, mc)
		if f.key == "crash" {
			poisoned["msg-"+mc.Ops[0].Op] = true
		}
	}
}

func addMsgCase(c *core.Ctx, mc *msgCase) {
	if aborted {
		return
	}
	if poisoned["msg-"+mc.Ops[0].Op] {
		return
	}
	mc.Kind = "msg"
	obs, fails := pMsg(mc)
	c.OracleCheck()
	for _, f := range fails {
		c.OracleFail(f.key, f.desc, mc)
		if f.key == "crash" { // the same reader would only die again on the next hostile input
			poisoned["msg-"+mc.Ops[0].Op] = true
		}
	}
	if aborted || obs == nil {
		return
	}
	var lens []string
	var all []byte
	for _, f := range mc.Frames {
		lens = append(lens, fmt.Sprint(len(f.Data)))
		all = append(all, f.Data...)
	}
	le := false
	if n := len(mc.Frames); n > 0 {
		le = mc.Frames[n-1].EOM
	}
	var ops []string
	allOK := true
	for i := range obs {
		ob := &obs[i]
		ops = append(ops, fmt.Sprintf("(%s, Ob %d %d %d %s)",
			opTerm(mc.Ops[i], ob), ob.out.Cls, ob.left, ob.buffered, valTerm(ob.out)))
		c.Count(fmt.Sprintf("msg-%s-cls%d", mc.Ops[i].Op, ob.out.Cls))
		if ob.out.Cls != 0 {
			allOK = false
		}
	}
	if allOK && len(obs) > 0 {
		c.Nontrivial(fmt.Sprintf("%v|%x|%v|%v", mc.Enc, all, lens, mc.Ops))
	}
	c.AddCase(fmt.Sprintf("CMsg %s %s %s %s %s", core.Bool(mc.Enc), bytesTerm(all), core.List(lens), core.Bool(le), core.List(ops)), mc)
}

// bytesTerm prints a byte string as a compact Coq term: periodic strings as
// `rept unit k`, long runs of one byte as `rep b n`, the rest as hex literals.
func bytesTerm(b []byte) string {
	if len(b) == 0 {
		return "[]"
	}
	for p := 2; p <= 24 && len(b) >= 6*p && len(b) >= 64; p++ {
		ok := true
		for i := p; i < len(b); i++ {
			if b[i] != b[i-p] {
				ok = false
				break
			}
		}
		if ok {
			k := len(b) / p
			t := fmt.Sprintf("(rept %s %d)", core.Hex(b[:p]), k)
			if r := b[k*p:]; len(r) > 0 {
				t = "(" + t + " ++ " + core.Hex(r) + ")%list"
			}
			return t
		}
	}
	var parts []string
	lit := func(x []byte) {
		for i := 0; i < len(x); i += 3000 {
			j := i + 3000
			if j > len(x) {
				j = len(x)
			}
			parts = append(parts, core.Hex(x[i:j]))
		}
	}
	start := 0
	for i := 0; i < len(b); {
		j := i
		for j < len(b) && b[j] == b[i] {
			j++
		}
		if j-i >= 24 {
			if i > start {
				lit(b[start:i])
			}
			parts = append(parts, fmt.Sprintf("(rep %d %d)", b[i], j-i))
			start = j
		}
		i = j
	}
	if start < len(b) {
		lit(b[start:])
	}
	if len(parts) == 1 {
		return parts[0]
	}
	return "(" + strings.Join(parts, " ++ ") + ")%list"
}

func i64(x int64) []byte {
	var t [8]byte
	binary.BigEndian.PutUint64(t[:], uint64(x))
	return t[:]
}

// wireStr is the CEDAR encoding of a string field.
func wireStr(enc bool, s []byte) []byte {
	var out []byte
	if enc {
		out = append(out, i64(int64(len(s)+1))...)
	}
	out = append(out, s...)
	return append(out, 0)
}

// wireStrLen is a string field whose (encrypted-mode) length prefix is replaced.
func wireStrLen(enc bool, s []byte, prefix int64, terminator bool) []byte {
	var out []byte
	if enc {
		out = append(out, i64(prefix)...)
	}
	out = append(out, s...)
	if terminator {
		out = append(out, 0)
	}
	return out
}

func fill(n int, b byte) []byte {
	out := make([]byte, n)
	for i := range out {
		out[i] = b
	}
	return out
}

// cuts of data into frames: whole, halves, random, tiny frames
func cutVariants(c *core.Ctx, data []byte, quickMax int) [][]mock.Frame {
	out := [][]mock.Frame{mock.Cut(data, nil)}
	if len(data) > 1 {
		out = append(out, mock.Cut(data, []int{len(data) / 2}))
		k := 2 + c.Rng.Intn(3)
		var cs []int
		for i := 0; i < k; i++ {
			cs = append(cs, c.Rng.Intn(len(data)+1))
		}
		sortInts(cs)
		out = append(out, mock.Cut(data, cs))
	}
	if len(data) > 0 && len(data) <= 48 { // one byte per frame, with empty frames in between
		var cs []int
		for i := 0; i <= len(data); i++ {
			cs = append(cs, i)
			if i%5 == 0 {
				cs = append(cs, i)
			}
		}
		out = append(out, mock.Cut(data, cs))
	}
	if len(out) > quickMax {
		out = out[:quickMax]
	}
	return out
}

func sortInts(a []int) {
	for i := 1; i < len(a); i++ {
		for j := i; j > 0 && a[j-1] > a[j]; j-- {
			a[j-1], a[j] = a[j], a[j-1]
		}
	}
}

var exprPool = []string{"A = 1", "Name = \"slot1@host\"", "b=TRUE", "Rank = 3.5", "Req = (Memory > 1024) && (Arch == \"X86_64\")",
	"x=-7", "LongAttributeName_0123456789 = \"value with spaces and = signs\"", "E = \"\"", "U = undefined", "L = {1,2,3}"}

// adBytes encodes count + expressions + MyType + TargetType.
func adBytes(enc bool, count int64, exprs [][]byte, myType, targetType []byte) []byte {
	out := i64(count)
	for _, e := range exprs {
		out = append(out, wireStr(enc, e)...)
	}
	out = append(out, wireStr(enc, myType)...)
	out = append(out, wireStr(enc, targetType)...)
	return out
}

func genMessageLevel(c *core.Ctx) {
	quick := c.Quick()
	maxCuts := 3
	if !quick {
		maxCuts = 4
	}
	caps := []int{1, 8, 64, 1024}
	for _, enc := range []bool{false, true} {
		// ---- S1: single strings, length prefix / terminator / size mutations ----
		for _, cp := range caps {
			payloads := []int{0, cp - 1, cp, cp + 1, 10 * cp}
			for _, pl := range payloads {
				if pl < 0 {
					continue
				}
				body := fill(pl, 'a'+byte(pl%26))
				prefixes := []int64{int64(pl + 1)}
				if enc {
					prefixes = append(prefixes, -1<<31, -1, 0, 1, int64(cp-1), int64(cp), int64(cp+1), int64(pl), int64(pl+2),
						1<<31-1, 1<<63-1, -1<<63, 1<<32+int64(pl+1), 1<<31)
				}
				for pi, pf := range prefixes {
					for _, term := range []bool{true, false} {
						if !term && pi > 2 && quick {
							continue
						}
						data := wireStrLen(enc, body, pf, term)
						data = append(data, wireStr(enc, []byte("next"))...) // a following field
						for vi, fr := range cutVariants(c, data, maxCuts) {
							if quick && pi > 0 && vi != (pl+cp+pi)%3 {
								continue
							}
							if c.Rng.Intn(7) == 0 {
								fr[len(fr)-1].EOM = false
							}
							for oi, ops := range [][]opSpec{
								{{Op: "strmax", N: int64(cp)}, {Op: "str"}},
								{{Op: "str"}, {Op: "strmax", N: int64(cp)}},
								{{Op: "skip"}, {Op: "str"}},
							} {
								if quick && oi > 0 && (vi > 0 || (pi > 0 && (pi+oi+pl)%4 != 0)) {
									continue
								}
								if !quick && oi > 0 && vi > 1 {
									continue
								}
								addMsgCase(c, &msgCase{Enc: enc, Frames: fr, Ops: ops})
							}
						}
					}
				}
			}
		}
		// strmax with degenerate caps; BinNullChar strings; idstr
		for _, cp := range []int64{0, -1, -1 << 31} {
			addMsgCase(c, &msgCase{Enc: enc, Frames: mock.Cut(wireStr(enc, []byte("abc")), nil), Ops: []opSpec{{Op: "strmax", N: cp}, {Op: "str"}}})
		}
		for _, body := range [][]byte{{0xad}, {0xad, 'x', 'y'}, append([]byte{0xad}, fill(40, 'z')...), {'a', 0, 'b'}, {}} {
			for _, cp := range []int64{1, 2, 8, 64} {
				data := wireStr(enc, body)
				addMsgCase(c, &msgCase{Enc: enc, Frames: mock.Cut(data, nil), Ops: []opSpec{{Op: "strmax", N: cp}, {Op: "str"}}})
				addMsgCase(c, &msgCase{Enc: enc, Frames: mock.Cut(data, []int{len(data) / 2}), Ops: []opSpec{{Op: "str"}, {Op: "skip"}}})
			}
		}
		maxName := int(security.VerifC13MaxNameLen)
		for _, declared := range []int64{-1 << 63, -1, 0, 1, 5, 6, int64(maxName - 1), int64(maxName), int64(maxName + 1), 1<<31 - 1, 1<<63 - 1} {
			for _, pl := range []int{0, 5, maxName - 1, maxName, maxName + 1, 10 * maxName} {
				data := append(i64(declared), wireStr(enc, fill(pl, 'n'))...)
				for vi, fr := range cutVariants(c, data, 2) {
					if quick && vi > 0 && pl > maxName {
						continue
					}
					addMsgCase(c, &msgCase{Enc: enc, Frames: fr, Ops: []opSpec{{Op: "idstr"}, {Op: "int"}}})
				}
			}
		}
		// GetBytes / getRawBytes with hostile lengths
		for _, n := range []int64{-1 << 63, -1, 0, 1, 7, 8, 9, 100, 1<<31 - 1, 1<<62 + 5} {
			data := fill(8, 0x55)
			for _, fr := range [][]mock.Frame{mock.Cut(data, nil), mock.Cut(data, []int{3})} {
				addMsgCase(c, &msgCase{Enc: enc, Frames: fr, Ops: []opSpec{{Op: "bytes", N: n}, {Op: "int"}}})
				addMsgCase(c, &msgCase{Enc: enc, Frames: fr, Ops: []opSpec{{Op: "rawbytes", N: n}}})
			}
		}

		// ---- S2: ClassAds --------------------------------------------------------
		adCaps := []int64{0, 16, 64, 256, 4096}
		nAds := 6
		if !quick {
			nAds = 14
		}
		rot := 0
		for ai := 0; ai < nAds; ai++ {
			n := c.Rng.Intn(6)
			if ai == 0 {
				n = 0
			}
			var exprs [][]byte
			for k := 0; k < n; k++ {
				exprs = append(exprs, []byte(exprPool[c.Rng.Intn(len(exprPool))]))
			}
			big := ai%5 == 4
			if big { // an ad many times larger than the caps
				for k := 0; k < 12; k++ {
					exprs = append(exprs, []byte(fmt.Sprintf("Attr%d = \"%s\"", k, fill(150+c.Rng.Intn(300), 'v'))))
				}
			}
			myType, targetType := []byte("Machine"), []byte("Job")
			if ai%3 == 1 {
				myType, targetType = nil, nil
			}
			if ai%7 == 3 {
				myType = []byte("Not=A\"Type")
			}
			type variant struct {
				note  string
				count int64
				exprs [][]byte
			}
			vars := []variant{{"valid", int64(len(exprs)), exprs}}
			for ci, cnt := range []int64{-1 << 63, -1, 0, 1, int64(len(exprs)) - 1, int64(len(exprs)) + 1, int64(len(exprs)) + 2,
				1000003, 1<<31 - 1, 1 << 31, 1 << 62, 1<<63 - 1} {
				if quick && big && ci%3 != 1 {
					continue
				}
				if quick && !big && (ci+ai)%2 == 1 {
					continue
				}
				vars = append(vars, variant{fmt.Sprintf("count=%d", cnt), cnt, exprs})
			}
			// the secret marker in every position (its secret present, oversized, or missing)
			for pos := 0; pos <= len(exprs); pos++ {
				for si, sec := range [][]byte{[]byte("Secret = \"s3cr3t\""), []byte("Big = \"" + string(fill(3000, 'S')) + "\""), nil, []byte("ZKM")} {
					if quick && (pos+ai+si)%2 == 1 && si != 1 {
						continue
					}
					if quick && big && pos%4 != 0 {
						continue
					}
					e2 := append([][]byte(nil), exprs[:pos]...)
					e2 = append(e2, []byte("ZKM"))
					if sec != nil {
						e2 = append(e2, sec)
					}
					e2 = append(e2, exprs[pos:]...)
					vars = append(vars, variant{fmt.Sprintf("zkm@%d", pos), int64(len(exprs) + 1), e2})
				}
			}
			for vi, v := range vars {
				data := adBytes(enc, v.count, v.exprs, myType, targetType)
				if strings.HasPrefix(v.note, "zkm") && ai%4 == 2 && vi%3 == 0 { // marker in the MyType slot
					data = adBytes(enc, int64(len(exprs)), exprs, []byte("ZKM"), targetType)
				}
				inputs := [][]byte{data}
				if len(data) > 9 && (!quick || vi%3 == 0) { // premature end of message
					inputs = append(inputs, data[:8+c.Rng.Intn(len(data)-8)])
				}
				for _, in := range inputs {
					frs := cutVariants(c, in, 2)
					if len(in) > 2000 { // many small frames: a capped reader must stop pulling
						var cs []int
						for p := 100; p < len(in); p += 100 {
							cs = append(cs, p)
						}
						frs = append(frs[:1], mock.Cut(in, cs))
					}
					for _, fr := range frs {
						if c.Rng.Intn(9) == 0 {
							fr[len(fr)-1].EOM = false
						}
						rot++
						for ci, cp := range adCaps {
							if quick && v.note != "valid" && rot%5 != ci && (rot+2)%5 != ci {
								continue
							}
							addMsgCase(c, &msgCase{Enc: enc, Frames: fr, Ops: []opSpec{{Op: "ad", N: cp}, {Op: "str"}}, Note: v.note})
						}
						if !quick || rot%3 == 0 || v.note == "valid" {
							addMsgCase(c, &msgCase{Enc: enc, Frames: fr, Ops: []opSpec{{Op: "adraw"}, {Op: "str"}}, Note: v.note})
							addMsgCase(c, &msgCase{Enc: enc, Frames: fr, Ops: []opSpec{{Op: "adskip"}, {Op: "str"}}, Note: v.note})
						}
					}
				}
			}
		}

		// ---- S3: unstructured bytes under random op sequences ---------------------
		nFuzz := 150
		if !quick {
			nFuzz = 1500
		}
		opPool := []opSpec{{Op: "int"}, {Op: "str"}, {Op: "strmax", N: 5}, {Op: "strmax", N: 300}, {Op: "skip"}, {Op: "bytes", N: 3},
			{Op: "ad", N: 0}, {Op: "ad", N: 50}, {Op: "adraw"}, {Op: "adskip"}, {Op: "idstr"}}
		for i := 0; i < nFuzz; i++ {
			n := c.Rng.Intn(60)
			data := make([]byte, n)
			for k := range data {
				switch c.Rng.Intn(5) {
				case 0:
					data[k] = 0
				case 1:
					data[k] = 0xff
				case 2:
					data[k] = byte(c.Rng.Intn(256))
				case 3:
					data[k] = "=ZKM\"a1 "[c.Rng.Intn(8)]
				default:
					data[k] = byte(c.Rng.Intn(4))
				}
			}
			var ops []opSpec
			for k := 0; k < 1+c.Rng.Intn(3); k++ {
				ops = append(ops, opPool[c.Rng.Intn(len(opPool))])
			}
			frs := cutVariants(c, data, 3)
			fr := frs[c.Rng.Intn(len(frs))]
			if c.Rng.Intn(5) == 0 {
				fr[len(fr)-1].EOM = false
			}
			addMsgCase(c, &msgCase{Enc: enc, Frames: fr, Ops: ops, Note: "fuzz"})
		}
	}
}

// genQuotedValues: ClassAd expressions whose value is a quoted string over
// quotes / backslashes / ordinary characters at every position: the strict
// parser, the literal shortcut and the old-ClassAd string fallback all see them.
func genQuotedValues(c *core.Ctx) {
	alpha := []byte{'a', '\\', '"', ' ', 'S'}
	var inners [][]byte
	var rec func(prefix []byte, k int)
	rec = func(prefix []byte, k int) {
		inners = append(inners, append([]byte(nil), prefix...))
		if k == 0 {
			return
		}
		for _, ch := range alpha {
			rec(append(prefix, ch), k-1)
		}
	}
	depth := 3
	if !c.Quick() {
		depth = 4
	}
	rec(nil, depth)
	nRand := 60
	if !c.Quick() {
		nRand = 600
	}
	for i := 0; i < nRand; i++ {
		n := 4 + c.Rng.Intn(8)
		b := make([]byte, n)
		for k := range b {
			b[k] = alpha[c.Rng.Intn(len(alpha))]
			if c.Rng.Intn(6) == 0 {
				b[k] = byte(c.Rng.Intn(256))
			}
		}
		inners = append(inners, b)
	}
	for ii, in := range inners {
		expr := append(append([]byte("A = \""), in...), '"')
		addTextCase(c, "parse_expr", expr)
		addTextCase(c, "old_string", in)
		if ii%4 == 0 {
			addTextCase(c, "parse_expr", append([]byte("A ="), in...)) // unquoted
		}
		for _, enc := range []bool{false, true} {
			data := adBytes(enc, 2, [][]byte{[]byte("B = 1"), expr}, []byte("Machine"), []byte("Job"))
			for _, cp := range []int64{0, 4096} {
				mc := &msgCase{Enc: enc, Frames: mock.Cut(data, nil), Ops: []opSpec{{Op: "ad", N: cp}}, Note: "quoted value"}
				if (ii+int(cp))%16 == 0 {
					addMsgCase(c, mc)
				} else {
					oracleMsgCase(c, mc)
				}
			}
		}
	}
}

// genAuditCases: inputs outside the hypotheses of the theorems (caps <= 0 and at the int
// limits) and deeply nested expressions (the external parser's nesting depth has no limit).
func genAuditCases(c *core.Ctx) {
	for _, enc := range []bool{false, true} {
		str := append(wireStr(enc, []byte("abcdefgh")), wireStr(enc, []byte("next"))...)
		ad := adBytes(enc, 2, [][]byte{[]byte("A = 1"), []byte("B = \"x\"")}, []byte("Machine"), []byte("Job"))
		for _, cp := range []int64{-1 << 63, -1 << 31, -1, 0, 1<<31 - 1, 1 << 31, 1<<32 - 1, 1 << 62, 1<<63 - 1} {
			for _, in := range [][]byte{str, str[:len(str)-3]} {
				addMsgCase(c, &msgCase{Enc: enc, Frames: mock.Cut(in, []int{len(in) / 2}), Ops: []opSpec{{Op: "strmax", N: cp}, {Op: "str"}}, Note: "cap at an int limit"})
			}
			for _, in := range [][]byte{ad, ad[:len(ad)-4]} {
				addMsgCase(c, &msgCase{Enc: enc, Frames: mock.Cut(in, []int{9}), Ops: []opSpec{{Op: "ad", N: cp}, {Op: "str"}}, Note: "cap at an int limit"})
			}
		}
		nest := map[string]func(n int) string{
			"neg":   func(n int) string { return strings.Repeat("-", n) + "1" },
			"not":   func(n int) string { return strings.Repeat("!", n) + "true" },
			"paren": func(n int) string { return strings.Repeat("(", n) + "1" + strings.Repeat(")", n) },
			"open":  func(n int) string { return strings.Repeat("(", n) },
			"list":  func(n int) string { return strings.Repeat("{", n) + "1" + strings.Repeat("}", n) },
			"ad":    func(n int) string { return strings.Repeat("[a=", n) + "1" + strings.Repeat("]", n) },
			"tern":  func(n int) string { return strings.Repeat("1?", n) + "1" + strings.Repeat(":1", n) },
			"plus":  func(n int) string { return "1" + strings.Repeat("+1", n) },
		}
		for _, k := range []string{"neg", "not", "paren", "open", "list", "ad", "tern", "plus"} {
			for _, n := range []int{1000, 20000} {
				if c.Quick() && n == 20000 && (k == "tern" || k == "list" || k == "plus") {
					continue
				}
				// count says 3 but the message stops right after the first expression: the
				// reader fails (transport error / EOF) with the deep expression already in the ad
				data := append(i64(3), wireStr(enc, []byte("D = "+nest[k](n)))...)
				for _, eom := range []bool{true, false} {
					for _, cp := range []int64{0, 4096} {
						fr := mock.Cut(data, nil)
						fr[0].EOM = eom
						oracleMsgCase(c, &msgCase{Enc: enc, Frames: fr, Ops: []opSpec{{Op: "ad", N: cp}}, Note: "nesting depth " + k})
					}
				}
			}
		}
	}
}

// genRawBody: GetClassAdRawBody is an entry point of its own (the caller has already
// consumed the count): every hostile count against every amount of content.
func genRawBody(c *core.Ctx) {
	for _, enc := range []bool{false, true} {
		for _, nExpr := range []int{0, 1, 3} {
			var body []byte
			for k := 0; k < nExpr; k++ {
				body = append(body, wireStr(enc, []byte(exprPool[k]))...)
			}
			body = append(body, wireStr(enc, []byte("Machine"))...)
			body = append(body, wireStr(enc, []byte("Job"))...)
			for _, cnt := range []int64{-1 << 63, -1, 0, int64(nExpr) - 1, int64(nExpr), int64(nExpr) + 1, 1000, 100003, 4 << 20, 1<<31 - 1, 1 << 40, 1 << 58, 1 << 62, 1<<63 - 1} {
				for _, in := range [][]byte{body, body[:len(body)/2], nil} {
					mc := &msgCase{Enc: enc, Frames: mock.Cut(in, nil), Ops: []opSpec{{Op: "adrawbody", N: cnt}, {Op: "str"}}, Note: "raw body"}
					if c.Rng.Intn(5) == 0 {
						mc.Frames[len(mc.Frames)-1].EOM = false
					}
					addMsgCase(c, mc)
				}
			}
		}
	}
}

// genEmptyFrameRuns: long runs of zero-length partial frames in front of (and inside)
// the data, through every reader: reassembly must stay iterative.
func genEmptyFrameRuns(c *core.Ctx) {
	for _, enc := range []bool{false, true} {
		payload := append(wireStr(enc, []byte("hello")), i64(7)...)
		ad := adBytes(enc, 1, [][]byte{[]byte("A = 1")}, []byte("Machine"), []byte("Job"))
		idp := append(i64(3), wireStr(enc, []byte("bob"))...)
		for _, o := range []struct {
			ops  []opSpec
			data []byte
		}{
			{[]opSpec{{Op: "int"}}, i64(5)}, {[]opSpec{{Op: "str"}, {Op: "int"}}, payload}, {[]opSpec{{Op: "strmax", N: 64}}, payload},
			{[]opSpec{{Op: "skip"}, {Op: "int"}}, payload}, {[]opSpec{{Op: "bytes", N: 6}}, payload}, {[]opSpec{{Op: "remain"}}, payload},
			{[]opSpec{{Op: "ad", N: 0}}, ad}, {[]opSpec{{Op: "ad", N: 256}}, ad}, {[]opSpec{{Op: "adraw"}}, ad}, {[]opSpec{{Op: "adskip"}}, ad},
			{[]opSpec{{Op: "idstr"}}, idp}, {[]opSpec{{Op: "rawbytes", N: 4}}, payload},
		} {
			for _, n := range []int{300, 4000} {
				var fr []mock.Frame
				for i := 0; i < n; i++ {
					fr = append(fr, mock.Frame{Data: []byte{}, EOM: false})
				}
				half := len(o.data) / 2
				fr = append(fr, mock.Frame{Data: o.data[:half], EOM: false})
				for i := 0; i < n/10; i++ {
					fr = append(fr, mock.Frame{Data: []byte{}, EOM: false})
				}
				fr = append(fr, mock.Frame{Data: o.data[half:], EOM: true})
				mc := &msgCase{Enc: enc, Frames: fr, Ops: o.ops, Note: "empty partial frames"}
				if n == 300 && o.ops[0].Op != "rawbytes" {
					addMsgCase(c, mc)
				} else {
					oracleMsgCase(c, mc)
				}
				// never completed: only empty frames, then the stream ends
				oracleMsgCase(c, &msgCase{Enc: enc, Frames: fr[:n], Ops: o.ops, Note: "only empty partial frames"})
			}
		}
	}
}

func gen(c *core.Ctx) error {
	c.Rule("structure-aware malformed inputs to every decoder entry point of the anchors (typed strings / capped strings / skip / raw bytes / bounded and raw ClassAd readers over a recording mock stream in both encryption modes; frame readers, multi-frame reassembly, exchangeKey, SSL receiveMessage over a real stream.Stream on a byte-counting in-memory connection, cleartext and AES-GCM; crypto-state blobs; claim-id / session-info / address / version / watch / shared-port parsers). Every call runs under recover() with a TotalAlloc delta, a running-time bound, a stack-depth probe and byte accounting (direct oracle), and its outcome class, consumed bytes and returned value are compared with the Coq model. non-trivial = case whose every call succeeded; distinct by (mode, bytes, framing, ops)")
	c.Assume("allocation is measured as runtime.MemStats.TotalAlloc deltas (whole process; background allocation is negligible because the harness is single-threaded apart from the guarded call)")
	c.Assume("the external ClassAd expression parser is an oracle: the index of the expression it refused is taken from the error and handed to the model")
	c.PerFile = 330
	// VH_C13_ONLY=name[,name...] (development aid): run only the named generator families
	only := os.Getenv("VH_C13_ONLY")
	want := func(name string) bool {
		if aborted {
			return false
		}
		if only == "" {
			return true
		}
		for _, x := range strings.Split(only, ",") {
			if x == name {
				return true
			}
		}
		return false
	}
	for _, g := range []struct {
		name string
		f    func(*core.Ctx)
	}{{"msg", genMessageLevel}, {"quoted", genQuotedValues}, {"audit", genAuditCases}, {"rawbody", genRawBody},
		{"emptyframes", genEmptyFrameRuns}, {"wire", genWire}, {"text", genText}, {"sinful", genSinful},
		{"version", genVersion}, {"addr", genAddr}, {"passsock", genPassSock}, {"watch", genWatch}, {"hs", genHS}, {"sci", genSci}} {
		if want(g.name) {
			g.f(c)
		}
	}
	c.Note(fmt.Sprintf("deepest call stack seen at a mock-stream ReadFrame: %d frames (oracle bound 64)", maxMsgDepthSeen))
	c.Note(fmt.Sprintf("deepest call stack seen at a connection read: %d frames (oracle bound 64)", maxDepthSeen))
	stopChild()
	c.Note(fmt.Sprintf("decoder calls ran in isolated probe processes (address-space ceiling %d MiB); probe processes that died: %d", childAddressSpace>>20, crashes))
	if aborted {
		c.Note("generation stopped early: a call did not return within the spin bound (reported as an oracle failure)")
	}
	return nil
}

func replay(raw json.RawMessage) error {
	var generic map[string]interface{}
	if err := json.Unmarshal(raw, &generic); err != nil {
		return err
	}
	defer stopChild()
	r := runIsolated(json.RawMessage(raw), fmt.Sprint(generic["kind"]), len(raw))
	if fails := withErr(r); len(fails) > 0 {
		return fmt.Errorf("%s: %s", fails[0].key, fails[0].desc)
	}
	return nil
}

func main() {
	if len(os.Args) >= 2 && os.Args[1] == "probe" {
		slog.SetDefault(slog.New(slog.NewTextHandler(io.Discard, &slog.HandlerOptions{Level: slog.LevelError + 8})))
		inChild = true
		probeMain()
		return
	}
	slog.SetDefault(slog.New(slog.NewTextHandler(io.Discard, &slog.HandlerOptions{Level: slog.LevelError + 8})))
	core.MainWithFacts("C13", gen, replay, facts)
}
