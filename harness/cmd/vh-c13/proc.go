package main

// Process isolation.  Every call into the decoders under test runs in a child
// process (`vh-c13 probe`, this same binary) with an address-space ceiling, so
// that the very failures C13 is about - a fatal out-of-memory, an unrecoverable
// stack overflow, a spin - become a concrete failing input reported by the
// parent instead of killing the generator.  Cases travel as the same JSON that
// is written to replay files, one per line; results come back one per line.

import (
	"bufio"
	"bytes"
	"encoding/json"
	"fmt"
	"io"
	"os"
	"os/exec"
	"strings"
	"sync"
	"syscall"
	"time"

	"github.com/bbockelm/cedar/stream"
)

const (
	childAddressSpace = 6 << 30          // RLIMIT_AS of the child
	childJobTimeout   = 40 * time.Second // parent-side bound for one case (the child's own spin bound is 6 s)
	maxCrashes        = 8                // generation stops after this many dead children
)

// ---- JSON views of the observation records -------------------------------

type opObsJ struct {
	Out                                  outcome
	Left, Buffered, PulledNow, ParseFail int
}

func (o opObs) MarshalJSON() ([]byte, error) {
	return json.Marshal(opObsJ{o.out, o.left, o.buffered, o.pulledNow, o.parseFail})
}
func (o *opObs) UnmarshalJSON(b []byte) error {
	var j opObsJ
	if err := json.Unmarshal(b, &j); err != nil {
		return err
	}
	*o = opObs{out: j.Out, left: j.Left, buffered: j.Buffered, pulledNow: j.PulledNow, parseFail: j.ParseFail}
	return nil
}

type wireObsJ struct {
	Out                    outcome
	Consumed, Depth, Reads int
}

func (o wireObs) MarshalJSON() ([]byte, error) {
	return json.Marshal(wireObsJ{o.out, o.consumed, o.depth, o.reads})
}
func (o *wireObs) UnmarshalJSON(b []byte) error {
	var j wireObsJ
	if err := json.Unmarshal(b, &j); err != nil {
		return err
	}
	*o = wireObs{out: j.Out, consumed: j.Consumed, depth: j.Depth, reads: j.Reads}
	return nil
}

type textResJ struct {
	Strs []string
	Keys []string // map keys / values as byte strings (may not be valid UTF-8)
	Vals []string
}

func (t textRes) MarshalJSON() ([]byte, error) {
	j := textResJ{}
	for _, s := range t.strs {
		j.Strs = append(j.Strs, hexs(s))
	}
	for k, v := range t.kvs {
		j.Keys = append(j.Keys, hexs(k))
		j.Vals = append(j.Vals, hexs(v))
	}
	return json.Marshal(j)
}
func (t *textRes) UnmarshalJSON(b []byte) error {
	var j textResJ
	if err := json.Unmarshal(b, &j); err != nil {
		return err
	}
	t.strs = nil
	for _, s := range j.Strs {
		t.strs = append(t.strs, unhexs(s))
	}
	t.kvs = nil
	if j.Keys != nil {
		t.kvs = map[string]string{}
		for i := range j.Keys {
			t.kvs[unhexs(j.Keys[i])] = unhexs(j.Vals[i])
		}
	}
	return nil
}
func hexs(s string) string { return fmt.Sprintf("%x", s) }
func unhexs(h string) string {
	var b []byte
	fmt.Sscanf(h, "%x", &b)
	return string(b)
}

type failureJ struct{ Key, Desc string }

func (f failure) MarshalJSON() ([]byte, error) { return json.Marshal(failureJ{f.key, f.desc}) }
func (f *failure) UnmarshalJSON(b []byte) error {
	var j failureJ
	if err := json.Unmarshal(b, &j); err != nil {
		return err
	}
	*f = failure{j.Key, j.Desc}
	return nil
}

// blobObs is what NewStreamWithCryptoState restored.
type blobObs struct {
	Accepted      bool
	Flags         uint64
	Key, EIV, DIV []byte
	ECtr, DCtr    uint32
	SD, RD, Peer  []byte
}

type jobResult struct {
	Msg      []opObs   `json:"msg,omitempty"`
	Wire     *wireObs  `json:"wire,omitempty"`
	Text     *textRes  `json:"text,omitempty"`
	Blob     *blobObs  `json:"blob,omitempty"`
	Out      *outcome  `json:"out,omitempty"`
	Fails    []failure `json:"fails,omitempty"`
	Aborted  bool      `json:"aborted,omitempty"`
	MsgDepth int       `json:"msgDepth,omitempty"`
	Err      string    `json:"err,omitempty"`
}

// ---- child ---------------------------------------------------------------------

func runCaseLocal(raw []byte) jobResult {
	var k struct {
		Kind string `json:"kind"`
		Fn   string `json:"fn"`
	}
	if err := json.Unmarshal(raw, &k); err != nil {
		return jobResult{Err: err.Error()}
	}
	var res jobResult
	switch k.Kind {
	case "msg":
		var mc msgCase
		if err := json.Unmarshal(raw, &mc); err != nil {
			return jobResult{Err: err.Error()}
		}
		maxMsgDepthSeen = 0
		res.Msg, res.Fails = runMsg(&mc)
		res.MsgDepth = maxMsgDepthSeen
	case "wire":
		var wc wireCase
		if err := json.Unmarshal(raw, &wc); err != nil {
			return jobResult{Err: err.Error()}
		}
		ob, fails := runWire(&wc)
		res.Wire, res.Fails = &ob, fails
	case "hs":
		var hc hsCase
		if err := json.Unmarshal(raw, &hc); err != nil {
			return jobResult{Err: err.Error()}
		}
		res.Fails = runHS(&hc)
	case "sci":
		var sc sciCase
		if err := json.Unmarshal(raw, &sc); err != nil {
			return jobResult{Err: err.Error()}
		}
		res.Fails = runSci(&sc)
	case "text":
		var tc textCase
		if err := json.Unmarshal(raw, &tc); err != nil {
			return jobResult{Err: err.Error()}
		}
		if tc.Fn == "blob" {
			s, out, fails := runBlob(tc.In)
			res.Out, res.Fails = &out, fails
			if out.Cls == 0 && s != nil {
				res.Blob = snapshotBlob(s)
			}
		} else {
			tr, fails := runText(&tc)
			res.Text, res.Fails = &tr, fails
		}
	default:
		return jobResult{Err: "unknown case kind " + k.Kind}
	}
	res.Aborted = aborted
	return res
}

func snapshotBlob(s *stream.Stream) *blobObs {
	sn := s.VerifSnapshot()
	var flags uint64
	if sn.Encrypted {
		flags |= uint64(stream.VerifCsFlagEncrypted)
	}
	if sn.Authenticated {
		flags |= uint64(stream.VerifCsFlagAuthenticated)
	}
	if sn.FinishedSendAAD {
		flags |= uint64(stream.VerifCsFlagFinSendAAD)
	}
	if sn.FinishedRecvAAD {
		flags |= uint64(stream.VerifCsFlagFinRecvAAD)
	}
	if sn.SendDigestWritten {
		flags |= uint64(stream.VerifCsFlagSendDgWritten)
	}
	if sn.RecvDigestWritten {
		flags |= uint64(stream.VerifCsFlagRecvDgWritten)
	}
	return &blobObs{Accepted: true, Flags: flags, Key: sn.Key, EIV: sn.EncryptIV[:], DIV: sn.DecryptIV[:],
		ECtr: sn.EncryptCounter, DCtr: sn.DecryptCounter, SD: sn.FinalSendDigest, RD: sn.FinalRecvDigest, Peer: []byte(s.GetPeerAddr())}
}

// probeMain is the child: cases on stdin, results on stdout, one JSON document per line.
func probeMain() {
	lim := syscall.Rlimit{Cur: childAddressSpace, Max: childAddressSpace}
	_ = syscall.Setrlimit(syscall.RLIMIT_AS, &lim)
	in := bufio.NewReaderSize(os.Stdin, 1<<20)
	out := bufio.NewWriter(os.Stdout)
	for {
		line, err := in.ReadBytes('\n')
		if len(bytes.TrimSpace(line)) > 0 {
			res := runCaseLocal(line)
			js, _ := json.Marshal(&res)
			out.Write(js)
			out.WriteByte('\n')
			out.Flush()
			if res.Aborted {
				os.Exit(0) // a goroutine is stuck in the code under test: start afresh
			}
		}
		if err != nil {
			return
		}
	}
}

// ---- parent ---------------------------------------------------------------------

type child struct {
	cmd    *exec.Cmd
	stdin  io.WriteCloser
	stdout *bufio.Reader
	stderr *tailBuffer
	lines  chan []byte
}

type tailBuffer struct {
	mu  sync.Mutex
	buf []byte
}

func (t *tailBuffer) Write(p []byte) (int, error) {
	t.mu.Lock()
	defer t.mu.Unlock()
	if len(t.buf) < 64<<10 { // the head of a Go fatal error is what matters
		t.buf = append(t.buf, p...)
	}
	return len(p), nil
}
func (t *tailBuffer) firstLine() string {
	t.mu.Lock()
	defer t.mu.Unlock()
	for _, l := range strings.Split(string(t.buf), "\n") {
		l = strings.TrimSpace(l)
		if strings.HasPrefix(l, "fatal error:") || strings.HasPrefix(l, "runtime:") || strings.HasPrefix(l, "panic:") {
			if len(l) > 160 {
				l = l[:160]
			}
			return l
		}
	}
	return ""
}

var (
	cur       *child
	crashes   int
	inChild   bool // set in probe mode and in-process fallback
	noIsolate = os.Getenv("VERIF_C13_INPROCESS") != ""
)

func startChild() (*child, error) {
	exe, err := os.Executable()
	if err != nil {
		return nil, err
	}
	cmd := exec.Command(exe, "probe")
	stdin, err := cmd.StdinPipe()
	if err != nil {
		return nil, err
	}
	stdout, err := cmd.StdoutPipe()
	if err != nil {
		return nil, err
	}
	tb := &tailBuffer{}
	cmd.Stderr = tb
	if err := cmd.Start(); err != nil {
		return nil, err
	}
	ch := &child{cmd: cmd, stdin: stdin, stdout: bufio.NewReaderSize(stdout, 1<<20), stderr: tb, lines: make(chan []byte, 1)}
	go func() {
		for {
			l, err := ch.stdout.ReadBytes('\n')
			if len(l) > 0 && err == nil {
				ch.lines <- l
			}
			if err != nil {
				close(ch.lines)
				return
			}
		}
	}()
	return ch, nil
}

func (ch *child) kill() {
	ch.stdin.Close()
	_ = ch.cmd.Process.Kill()
	_ = ch.cmd.Wait()
}

func stopChild() {
	if cur != nil {
		cur.stdin.Close()
		done := make(chan struct{})
		go func() { _ = cur.cmd.Wait(); close(done) }()
		select {
		case <-done:
		case <-time.After(3 * time.Second):
			_ = cur.cmd.Process.Kill()
		}
		cur = nil
	}
}

// runIsolated runs one case (any kind) in the child and returns its result; a dead or
// silent child becomes a "crash" failure carrying the case.
func runIsolated(c interface{}, what string, inputBytes int) jobResult {
	raw, err := json.Marshal(c)
	if err != nil {
		return jobResult{Err: err.Error()}
	}
	var compact bytes.Buffer
	if err := json.Compact(&compact, raw); err != nil {
		return jobResult{Err: err.Error()}
	}
	raw = compact.Bytes()
	if noIsolate || inChild {
		return runCaseLocal(raw)
	}
	if cur == nil {
		cur, err = startChild()
		if err != nil {
			return jobResult{Err: "cannot start probe process: " + err.Error()}
		}
	}
	ch := cur
	if _, err := ch.stdin.Write(append(raw, '\n')); err != nil {
		ch.kill()
		cur = nil
		crashes++
		return crashResult(ch, what, inputBytes, "was already dead")
	}
	select {
	case l, ok := <-ch.lines:
		if !ok {
			ch.kill()
			cur = nil
			crashes++
			return crashResult(ch, what, inputBytes, "died")
		}
		var res jobResult
		if err := json.Unmarshal(l, &res); err != nil {
			return jobResult{Err: "bad result from probe process: " + err.Error()}
		}
		if res.Aborted {
			aborted = true
			_ = ch.cmd.Wait()
			cur = nil
		}
		return res
	case <-time.After(childJobTimeout):
		ch.kill()
		cur = nil
		crashes++
		return crashResult(ch, what, inputBytes, fmt.Sprintf("did not answer within %v", childJobTimeout))
	}
}

func crashResult(ch *child, what string, inputBytes int, how string) jobResult {
	reason := ch.stderr.firstLine()
	if reason == "" {
		if ws, ok := ch.cmd.ProcessState.Sys().(syscall.WaitStatus); ok && ws.Signaled() {
			reason = "killed by signal " + ws.Signal().String()
		} else if ch.cmd.ProcessState != nil {
			reason = ch.cmd.ProcessState.String()
		}
	}
	if crashes >= maxCrashes {
		aborted = true
	}
	return jobResult{Fails: []failure{{"crash", fmt.Sprintf("the decoder process %s while running %s on a %d-byte input (address-space ceiling %d MiB): %s",
		how, what, inputBytes, childAddressSpace>>20, reason)}}}
}
