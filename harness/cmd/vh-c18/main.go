// vh-c18: correspondence + direct oracle for C18 (filesystem authentication
// cannot be steered outside its directory).
//
//	A. validateFSAuthPath / fsAddrLeaf / verifyFSPathEndpoint (hooks) and the
//	   library functions they rest on (filepath.Clean/Dir/Base, net.ParseIP)
//	   against the Gallina model, on grammar-generated, exhaustive-short and
//	   mutated paths; oracle = an independent restatement of the accepted shapes.
//	B. the whole real client exchange (performFSAuthenticationClient) against a
//	   scripted raw-wire server over net.Pipe, with snapshots of the watched part
//	   of the filesystem before / when the reply was read / after.
//	C. the real server side against every kind of object a client may leave.
package main

import (
	"bytes"
	"context"
	"encoding/binary"
	"encoding/hex"
	"encoding/json"
	"errors"
	"fmt"
	"io"
	"net"
	"os"
	"os/user"
	"path/filepath"
	"sort"
	"strconv"
	"strings"
	"syscall"
	"time"

	"verifharness/core"

	"github.com/bbockelm/cedar/security"
	"github.com/bbockelm/cedar/stream"
)

const baseDir = "/tmp" // the property's fixed base directory (the oracle does not read it from the code)

// ---------------------------------------------------------------- addresses

type fakeAddr string

func (a fakeAddr) Network() string { return "tcp" }
func (a fakeAddr) String() string  { return string(a) }

type addrConn struct {
	net.Conn
	remote, local net.Addr
}

func (c *addrConn) RemoteAddr() net.Addr { return c.remote }
func (c *addrConn) LocalAddr() net.Addr  { return c.local }

// peer: Has=false -> the connection reports no address.
// TCP=0: a string-typed net.Addr whose String() is Addr; TCP=1/2: a real
// *net.TCPAddr built from Addr (1: IP in the 16-byte form net.ParseIP returns,
// 2: IPv4 addresses in 4-byte form), as a TCP connection's RemoteAddr is.
type peer struct {
	Has  bool   `json:"has"`
	Addr string `json:"addr"`
	TCP  int    `json:"tcp,omitempty"`
}

func (p peer) netAddr() net.Addr {
	if !p.Has {
		return nil
	}
	if p.TCP != 0 {
		h, pt, err := net.SplitHostPort(p.Addr)
		if err == nil {
			zone := ""
			if i := strings.IndexByte(h, '%'); i >= 0 {
				h, zone = h[:i], h[i+1:]
			}
			ip := net.ParseIP(h)
			port, perr := strconv.Atoi(pt)
			if ip != nil && perr == nil {
				if p.TCP == 2 && ip.To4() != nil {
					ip = ip.To4()
				}
				return &net.TCPAddr{IP: ip, Port: port, Zone: zone}
			}
		}
		panic("vh-c18: bad TCP peer " + p.Addr)
	}
	return fakeAddr(p.Addr)
}

// str is what the connection's RemoteAddr().String() reads: the live endpoint.
func (p peer) str() string {
	if a := p.netAddr(); a != nil {
		return a.String()
	}
	return ""
}
func (p peer) term() string {
	if !p.Has {
		return "PNone"
	}
	h, pt, err := net.SplitHostPort(p.str())
	if err != nil {
		return "PBad"
	}
	return fmt.Sprintf("(PHP %s %s)", core.Hex([]byte(h)), core.Hex([]byte(pt)))
}

// ------------------------------------------- independent statement of the shapes

func isDigit(b byte) bool { return b >= '0' && b <= '9' }
func isAlnum(b byte) bool { return isDigit(b) || (b >= 'a' && b <= 'z') || (b >= 'A' && b <= 'Z') }
func all(s string, f func(byte) bool) bool {
	for i := 0; i < len(s); i++ {
		if !f(s[i]) {
			return false
		}
	}
	return true
}
func isSuffix(s string) bool { return len(s) >= 1 && len(s) <= 16 && all(s, isAlnum) }
func isHost(s string) bool {
	return len(s) >= 1 && all(s, func(b byte) bool { return isAlnum(b) || b == '.' || b == '_' || b == '-' })
}

// specLeaf: is leaf a name of one of the recognised shapes, and, when it is
// address-qualified, does it name the endpoint `p`?  Written from the property
// statement and the comments in fs_auth.go, without the code's regexps/helpers.
func specLeaf(leaf string, remote bool, p peer) (ok bool, why string) {
	prefix := "FS_"
	if remote {
		prefix = "FS_REMOTE_"
	}
	if !strings.HasPrefix(leaf, prefix) {
		return false, "prefix"
	}
	rest := leaf[len(prefix):]
	f := strings.Split(rest, "_")
	if len(f) == 3 && net.ParseIP(f[0]) != nil && len(f[1]) >= 1 && len(f[1]) <= 5 && all(f[1], isDigit) && isSuffix(f[2]) &&
		(remote || !strings.HasPrefix(rest, "REMOTE_")) {
		// address-qualified: must be the live endpoint
		if !p.Has {
			return false, "addr-no-peer"
		}
		h, pt, err := net.SplitHostPort(p.str())
		if err != nil {
			return false, "addr-bad-peer"
		}
		if pt != f[1] {
			return false, "addr-port"
		}
		a, b := net.ParseIP(f[0]), net.ParseIP(h)
		if a == nil || b == nil || !bytes.Equal(a.To16(), b.To16()) {
			return false, "addr-ip"
		}
		return true, "addr"
	}
	if !remote {
		if isSuffix(rest) {
			return true, "local"
		}
		return false, "local-shape"
	}
	if len(f) >= 3 && isSuffix(f[len(f)-1]) && len(f[len(f)-2]) >= 1 && all(f[len(f)-2], isDigit) && isHost(strings.Join(f[:len(f)-2], "_")) {
		return true, "remote"
	}
	return false, "remote-shape"
}

// specAccept: may a client create a directory for this server-supplied path?
func specAccept(path string, remote bool, p peer) (leaf string, ok bool, why string) {
	if !strings.HasPrefix(path, baseDir+"/") {
		return "", false, "not-under-base"
	}
	leaf = path[len(baseDir)+1:]
	if leaf == "" || leaf == "." || leaf == ".." || strings.ContainsAny(leaf, "/\x00") {
		return "", false, "leaf-unsafe"
	}
	ok, why = specLeaf(leaf, remote, p)
	return leaf, ok, why
}

// ---------------------------------------------------------------- section A

type valCase struct {
	Kind   string `json:"kind"`
	Path   string `json:"path_hex"`
	Remote bool   `json:"remote"`
	Peer   peer   `json:"peer"`
	// SetTmp: the call is made with the environment variable TMPDIR set to Tmp
	SetTmp int    `json:"tmpdir_mode,omitempty"` // 0 environment as is, 1 TMPDIR=Tmp, 2 TMPDIR unset
	Tmp    string `json:"tmpdir,omitempty"`
}

// withTmpdir runs f with TMPDIR set to val (set) or as it is, and restores it.
// The directory the client may touch is fixed (/tmp); it must not follow the environment.
func withTmpdir(mode int, val string, f func()) {
	if mode == 0 {
		f()
		return
	}
	old, had := os.LookupEnv("TMPDIR")
	if mode == 1 {
		os.Setenv("TMPDIR", val)
	} else {
		os.Unsetenv("TMPDIR")
	}
	defer func() {
		if had {
			os.Setenv("TMPDIR", old)
		} else {
			os.Unsetenv("TMPDIR")
		}
	}()
	f()
}

func hx(s string) string { return hex.EncodeToString([]byte(s)) }
func unhx(s string) string {
	b, _ := hex.DecodeString(s)
	return string(b)
}

// checkValidate runs the real validator, applies the oracle, returns the observation.
func checkValidate(path string, remote bool, p peer) (leaf string, accepted bool, fail string) {
	leaf, err := security.VerifValidateFSAuthPath(path, remote, p.netAddr())
	accepted = err == nil
	if !accepted {
		return "", false, ""
	}
	sl, ok, why := specAccept(path, remote, p)
	switch {
	case !ok:
		fail = fmt.Sprintf("validateFSAuthPath accepted %q (remote=%v peer=%v) which is not a recognised path directly under %s (%s)", path, remote, p, baseDir, why)
	case sl != leaf:
		fail = fmt.Sprintf("validateFSAuthPath(%q) returned leaf %q, path names %q", path, leaf, sl)
	}
	return leaf, true, fail
}

func addVal(c *core.Ctx, path string, remote bool, p peer) { addValEnv(c, path, remote, p, 0, "") }

// addValEnv: as addVal, with TMPDIR=tmp in the environment of the call when setTmp.
func addValEnv(c *core.Ctx, path string, remote bool, p peer, setTmp int, tmp string) {
	var leaf, fail string
	var acc bool
	withTmpdir(setTmp, tmp, func() { leaf, acc, fail = checkValidate(path, remote, p) })
	desc := valCase{"val", hx(path), remote, p, setTmp, tmp}
	c.OracleCheck()
	if fail != "" {
		if setTmp != 0 {
			fail += fmt.Sprintf(" [TMPDIR mode %d value %q]", setTmp, tmp)
		}
		c.OracleFail("validate-accepts-unrecognised", fail, desc)
	}
	if setTmp != 0 {
		c.Count("validate-with-TMPDIR-changed")
	}
	if p.TCP != 0 {
		c.Count("validate-with-TCPAddr-peer")
	}
	c.AddCase(fmt.Sprintf("CVal %s %s %s %s", core.Hex([]byte(path)), core.Bool(remote), p.term(), core.Opt(acc, core.Hex([]byte(leaf)))), desc)
	if acc {
		c.Count("validate-accept")
		c.Nontrivial("val|" + path + "|" + fmt.Sprint(remote) + "|" + p.Addr + fmt.Sprint(p.TCP))
	} else {
		c.Count("validate-reject")
	}
}

func addLib(c *core.Ctx, path string, which int) {
	desc := map[string]interface{}{"kind": "lib", "path_hex": hx(path)}
	switch which {
	case 0:
		c.AddCase(fmt.Sprintf("CClean %s %s", core.Hex([]byte(path)), core.Hex([]byte(filepath.Clean(path)))), desc)
		c.Count("lib-clean")
	case 1:
		c.AddCase(fmt.Sprintf("CDir %s %s", core.Hex([]byte(path)), core.Hex([]byte(filepath.Dir(path)))), desc)
		c.Count("lib-dir")
	default:
		c.AddCase(fmt.Sprintf("CBase %s %s", core.Hex([]byte(path)), core.Hex([]byte(filepath.Base(path)))), desc)
		c.Count("lib-base")
	}
}

func addIP(c *core.Ctx, s string) {
	ip := net.ParseIP(s)
	desc := map[string]interface{}{"kind": "ip", "s_hex": hx(s)}
	c.AddCase(fmt.Sprintf("CIP %s %s", core.Hex([]byte(s)), core.Opt(ip != nil, core.Hex([]byte(ip.To16())))), desc)
	if ip != nil {
		c.Count("ip-valid")
		c.Nontrivial("ip|" + s)
	} else {
		c.Count("ip-invalid")
	}
}

func addAddrLeaf(c *core.Ctx, leaf string, remote bool) {
	ip, port, ok := security.VerifFSAddrLeaf(leaf, remote)
	desc := map[string]interface{}{"kind": "addrleaf", "leaf_hex": hx(leaf), "remote": remote}
	c.AddCase(fmt.Sprintf("CAddrLeaf %s %s %s", core.Hex([]byte(leaf)), core.Bool(remote),
		core.Opt(ok, core.Pair(core.Hex([]byte(ip)), core.Hex([]byte(port))))), desc)
	// oracle: the returned fields are really the leaf's fields
	c.OracleCheck()
	if ok {
		prefix := "FS_"
		if remote {
			prefix = "FS_REMOTE_"
		}
		if !strings.HasPrefix(leaf, prefix+ip+"_"+port+"_") || net.ParseIP(ip) == nil {
			c.OracleFail("addrleaf-fields", fmt.Sprintf("fsAddrLeaf(%q,%v) = (%q,%q) which are not the name's address fields", leaf, remote, ip, port), desc)
		}
		c.Count("addrleaf-yes")
		c.Nontrivial("al|" + leaf + fmt.Sprint(remote))
	} else {
		c.Count("addrleaf-no")
	}
}

func addEndpoint(c *core.Ctx, ip, port string, p peer) {
	err := security.VerifVerifyFSPathEndpoint(ip, port, p.netAddr())
	desc := map[string]interface{}{"kind": "endpoint", "ip": ip, "port": port, "peer": p}
	c.AddCase(fmt.Sprintf("CEndpoint %s %s %s %s", core.Hex([]byte(ip)), core.Hex([]byte(port)), p.term(), core.Bool(err == nil)), desc)
	c.OracleCheck()
	if err == nil {
		h, pt, e2 := net.SplitHostPort(p.str())
		a, b := net.ParseIP(ip), net.ParseIP(h)
		if !p.Has || e2 != nil || pt != port || a == nil || b == nil || !bytes.Equal(a.To16(), b.To16()) {
			c.OracleFail("endpoint-mismatch-accepted", fmt.Sprintf("verifyFSPathEndpoint(%q,%q) accepted against peer %v", ip, port, p), desc)
		}
		c.Count("endpoint-ok")
	} else {
		c.Count("endpoint-reject")
	}
}

var (
	ipv4s = []string{"127.0.0.1", "10.0.0.5", "192.168.1.254", "0.0.0.0", "255.255.255.255", "1.2.3.4"}
	ipv6s = []string{"::1", "::", "fe80::1", "2001:db8::68", "0:0:0:0:0:0:0:1", "::ffff:127.0.0.1", "2001:DB8:0:0:8:800:200C:417A", "1:2:3:4:5:6:7:8", "::ffff:7f00:1", "1:2:3:4:5:6:7::", "::2:3:4:5:6:7:8", "64:ff9b::10.0.0.5"}
	badIPs = []string{"", "1.2.3", "1.2.3.4.5", "256.1.1.1", "01.2.3.4", "127.000.000.001", "1.2.3.", ".1.2.3", "1..2.3", "1.2.3.4 ", "0x7f.0.0.1", ":::", "1:2", "::1::2", "1:2:3:4:5:6:7:8:9", "1:2:3:4:5:6:7:8::", "12345::1", "g::1", "fe80::1%eth0", "fe80::1%", "%eth0", "::ffff:1.2.3", "::ffff:1.2.3.4.5", "1.2.3.4:80", "::1.2.3.4.", "1:2:3:4:5:6:7:1.2.3.4", "1:2:3:4:5:6:1.2.3.4", "::ffff:01.2.3.4", "host", "my-host.example.org", "localhost", "1", "a:", ":a", "::g", "1::2::3", "::00001", "ffff::FFFF", "1.2.3.4%x", "1:2:3:4:5:6:7", "::1.2.3.256"}
	hosts  = []string{"host", "my-host.example.org", "node_17", "a", "h.", "-", "_", "127.000.000.001", "1.2.3", "x_y_z"}
	peers  = []peer{{false, "", 0}, {true, "pipe", 0}, {true, "127.0.0.1:19618", 0}, {true, "[::1]:19618", 0}, {true, "10.0.0.5:80", 0},
		{true, "[::ffff:127.0.0.1]:19618", 0}, {true, "[fe80::1%eth0]:19618", 0}, {true, "localhost:19618", 0}, {true, ":19618", 0}, {true, "127.0.0.1:", 0}, {true, "127.0.0.1", 0}, {true, "[0:0:0:0:0:0:0:1]:19618", 0}, {true, "1.2.3.4:65535", 0}}
	tcpPeers = []peer{{true, "127.0.0.1:19618", 2}, {true, "127.0.0.1:19618", 1}, {true, "[::1]:19618", 1}, {true, "10.0.0.5:80", 2}, {true, "[fe80::1%eth0]:19618", 1}, {true, "[2001:db8::68]:9618", 1}}
	suffixes    = []string{"12345", "XXXQ8dEz7", "a", "0123456789abcdef", "Z"}
	badSuffixes = []string{"", "0123456789abcdefg", "a-b", "a.b", "a b", "é", "a\n", "\xff", "a\x00", "a/b", ".."}
	ports       = []string{"19618", "80", "0", "65535", "99999", "00080"}
	badPorts    = []string{"", "123456", "80a", "+80", "-1", " 80", "8 0", "８０"}
)

// leaves returns recognised and near-miss leaf names.
func leafCatalogue() []string {
	var out []string
	for _, s := range suffixes {
		out = append(out, "FS_"+s)
	}
	for _, s := range badSuffixes {
		out = append(out, "FS_"+s)
	}
	out = append(out, "FS", "FS_", "fs_123", "Fs_123", "FS-123", "FS123", " FS_123", "FS_123 ", "XFS_123", "FS__123", "FS_1_2", "FS_1_2_3",
		".", "..", "...", ".X11-unix", "FS_..", "FS_.", "systemd-private", "FS_anything-I-want", "FS_123\n", "FS_12\x7f", "FS_REMOTE", "FS_REMOTE_")
	for i, h := range hosts {
		for j, pid := range []string{"42", "0", "1234567890123", "", "4x", "-4"} {
			for k, s := range []string{"67890", "XXXjlv9Zj", "", "0123456789abcdefg", "a-b"} {
				if (i+j+k)%3 == 0 || (j == 0 && k == 0) {
					out = append(out, "FS_REMOTE_"+h+"_"+pid+"_"+s)
				}
			}
		}
	}
	out = append(out, "FS_REMOTE_host_42", "FS_REMOTE__42_abc", "FS_REMOTE___42_abc", "FS_REMOTE_h!_42_abc", "FS_REMOTE_h/x_42_abc", "FS_REMOTE_h_42_abc_", "FS_REMOTE_h_42_abc\n",
		"FS_REMOTE_é_42_abc", "FS_REMOTE_h_４２_abc", "FS_REMOTE_h_42_abc_def", "FS_REMOTE_a_b_c_d_1_e", "FS_REMOTE_h_sync_1", "fs_remote_h_1_a")
	var ips []string
	ips = append(ips, ipv4s...)
	ips = append(ips, ipv6s...)
	ips = append(ips, badIPs[:14]...)
	for i, ip := range ips {
		for _, pfx := range []string{"FS_", "FS_REMOTE_"} {
			out = append(out, pfx+ip+"_19618_XXXQ8dEz7", pfx+ip+"_80_"+suffixes[i%len(suffixes)])
			out = append(out, pfx+ip+"_"+badPorts[i%len(badPorts)]+"_abc", pfx+ip+"_19618_"+badSuffixes[i%len(badSuffixes)], pfx+ip+"_"+ports[i%len(ports)]+"_abc")
		}
	}
	out = append(out, "FS_127.0.0.1_19618", "FS_127.0.0.1_19618_abc_def", "FS_REMOTE_127.0.0.1__abc", "FS_127.0.0.1:19618_abc", "FS_REMOTE_127.0.0.1_19618_abc", "FS_REMOTE_REMOTE_127.0.0.1_19618_abc")
	return out
}

var dirCatalogue = []string{"/tmp", "/tmp/", "//tmp", "/tmp//", "/tmp/.", "/tmp/..", "/tmp/sub", "/tmp/sub/..", "/var/tmp", "/", "", "tmp", "./tmp", "../tmp",
	"/tmp/../tmp", "/TMP", "/tmp2", "/tm", "/tmp\x00", "/tmp/FS_1", "/tmp/FS_REMOTE_h_1_a", "/./tmp", "/../tmp", "/tmp/./.", "/home/user", "/etc", "/tmp ", " /tmp", "/tmp\n", "/tmp/é", "/tmp/\xff", ".", "..", "~", "/proc/self/cwd", "/tmp/sub/sub2"}

func section_validate(c *core.Ctx, tok string, w *world) {
	leaves := leafCatalogue()
	r := c.Rng
	quick := c.Quick()
	// 1. every catalogue leaf directly under the base, both modes, peers chosen to hit the endpoint logic
	var accepted []valCase
	for i, lf := range leaves {
		for _, remote := range []bool{false, true} {
			ps := []peer{peers[2], peers[(i)%len(peers)]}
			if quick && remote != strings.Contains(lf, "REMOTE") {
				ps = ps[:1]
				if i%2 == 1 {
					continue
				}
			}
			if strings.Contains(lf, "::1") || strings.Contains(lf, "0:0:0:0:0:0:0:1") {
				ps = append(ps, peers[3], peers[11])
			}
			if strings.Contains(lf, "ffff") {
				ps = append(ps, peers[5])
			}
			if strings.Contains(lf, "10.0.0.5") {
				ps = append(ps, peers[4])
			}
			for _, p := range ps {
				path := baseDir + "/" + lf
				addVal(c, path, remote, p)
				if _, err := security.VerifValidateFSAuthPath(path, remote, p.netAddr()); err == nil {
					accepted = append(accepted, valCase{Kind: "val", Path: path, Remote: remote, Peer: p})
				}
			}
		}
		if i%3 == 0 || !quick {
			addAddrLeaf(c, lf, i%2 == 0)
			addAddrLeaf(c, lf, i%2 != 0)
		}
	}
	c.CountN("accepted-seed-paths", len(accepted))
	// 2. directory catalogue x joiner x a few leaves
	someLeaves := []string{"FS_12345", "FS_REMOTE_host_42_67890", "FS_127.0.0.1_19618_abc", "FS_REMOTE_127.0.0.1_19618_abc", "FS_x-y", "..", "", "FS_1/FS_2", "sub/FS_12345"}
	for _, d := range dirCatalogue {
		for _, j := range []string{"/", "//", "", "/./", "/../"} {
			for k, lf := range someLeaves {
				if quick && ((len(j) > 2 && k > 1) || (len(j) > 1 && k > 3) || k > 5) {
					continue
				}
				path := d + j + lf
				addVal(c, path, strings.Contains(lf, "REMOTE"), peers[2])
				if k < 2 && (!quick || len(j) <= 2) {
					addLib(c, path, 0)
					addLib(c, path, 1)
					addLib(c, path, 2)
				}
			}
		}
	}
	// 3. exhaustive over short component sequences
	comps := []string{"", ".", "..", "tmp", "FS_1"}
	var seqs [][]string
	var rec func(cur []string, n int)
	rec = func(cur []string, n int) {
		if len(cur) > 0 {
			seqs = append(seqs, append([]string(nil), cur...))
		}
		if n == 0 {
			return
		}
		for _, x := range comps {
			rec(append(cur, x), n-1)
		}
	}
	rec(nil, 4)
	for i, s := range seqs {
		for _, lead := range []string{"/", ""} {
			if quick && lead == "" && len(s) > 3 {
				continue // relative: every sequence is rejected by the first check
			}
			path := lead + strings.Join(s, "/")
			addVal(c, path, false, peers[0])
			if (i+len(lead))%8 == 0 || !quick {
				addLib(c, path, (i/4)%3)
			}
		}
	}
	c.CountN("exhaustive-rooted-component-sequences-upto-4", len(seqs))
	// remote leaf in the same exhaustive frame (shorter)
	seqs = nil
	comps = []string{"", "..", "tmp", "FS_REMOTE_h_1_a"}
	rec(nil, 3)
	for _, s := range seqs {
		addVal(c, "/"+strings.Join(s, "/"), true, peers[0])
	}
	// 4. over-long and odd bytes
	long := strings.Repeat("a", 5000)
	for _, p := range []string{baseDir + "/FS_" + long, baseDir + "/FS_REMOTE_" + long + "_1_a", "/" + long + "/FS_1", baseDir + "/FS_REMOTE_h_" + strings.Repeat("9", 300) + "_a",
		baseDir + "/FS_127.0.0.1_" + strings.Repeat("1", 300) + "_a", baseDir + "/FS_REMOTE_" + strings.Repeat("a_", 600) + "1_a", baseDir + "/FS_REMOTE_" + strings.Repeat("_", 100)} {
		addVal(c, p, strings.Contains(p, "REMOTE"), peers[2])
	}
	for b := 0; b < 256; b++ {
		if quick && b > 0x30 && b < 0x7f && isAlnum(byte(b)) {
			continue
		}
		s := string([]byte{byte(b)})
		addVal(c, baseDir+"/FS_12"+s+"45", false, peers[0])
		if b%4 == 0 || b < 0x30 {
			addVal(c, baseDir+"/FS_REMOTE_ho"+s+"st_42_67890", true, peers[0])
			addVal(c, baseDir+s+"FS_12345", false, peers[0])
		}
	}
	// 5. random mutations of accepted paths
	nMut := 500
	if !quick {
		nMut = 6000
	}
	inserts := []string{"/", "..", ".", "/../", "/./", "//", "\x00", "_", "FS_", "REMOTE_", "\xc3\xa9", "\xff", "-", " ", "\n", "0", "a", ":", "%"}
	for i := 0; i < nMut && len(accepted) > 0; i++ {
		a := accepted[r.Intn(len(accepted))]
		b := []byte(a.Path)
		for k := 1 + r.Intn(2); k > 0; k-- {
			pos := r.Intn(len(b) + 1)
			switch r.Intn(6) {
			case 0:
				if pos < len(b) {
					b[pos] = byte(r.Intn(256))
				}
			case 1:
				ins := inserts[r.Intn(len(inserts))]
				b = append(b[:pos], append([]byte(ins), b[pos:]...)...)
			case 2:
				if pos < len(b) {
					b = append(b[:pos], b[pos+1:]...)
				}
			case 3:
				if pos < len(b) {
					b = append(b[:pos+1], b[pos:]...)
				}
			case 4:
				if pos+1 < len(b) {
					b[pos], b[pos+1] = b[pos+1], b[pos]
				}
			case 5:
				if pos < len(b) {
					b[pos] ^= 1 << uint(r.Intn(8))
				}
			}
		}
		p := a.Peer
		if r.Intn(4) == 0 {
			p = peers[r.Intn(len(peers))]
		}
		rem := a.Remote
		if r.Intn(8) == 0 {
			rem = !rem
		}
		addVal(c, string(b), rem, p)
		c.Count("validate-mutation")
	}
	// 6. IP parser and endpoint check
	for _, s := range ipv4s {
		addIP(c, s)
	}
	for _, s := range ipv6s {
		addIP(c, s)
	}
	for _, s := range badIPs {
		addIP(c, s)
	}
	nIP := 150
	if !quick {
		nIP = 3000
	}
	pool := append(append([]string{}, ipv4s...), ipv6s...)
	for i := 0; i < nIP; i++ {
		b := []byte(pool[r.Intn(len(pool))])
		if r.Intn(3) > 0 && len(b) > 0 {
			pos := r.Intn(len(b))
			alphabet := "0123456789abcdefABCDEF:.:.%g"
			switch r.Intn(3) {
			case 0:
				b[pos] = alphabet[r.Intn(len(alphabet))]
			case 1:
				b = append(b[:pos], append([]byte{alphabet[r.Intn(len(alphabet))]}, b[pos:]...)...)
			default:
				b = append(b[:pos], b[pos+1:]...)
			}
		} else {
			// random well-formed v6 text
			var g []string
			n := 8
			for k := 0; k < n; k++ {
				g = append(g, strconv.FormatUint(uint64(r.Intn(65536)>>uint(4*r.Intn(4))), 16))
			}
			s := strings.Join(g, ":")
			if r.Intn(2) == 0 {
				i0 := r.Intn(7)
				i1 := i0 + 1 + r.Intn(8-i0-1)
				s = strings.Join(g[:i0], ":") + "::" + strings.Join(g[i1:], ":")
			}
			b = []byte(s)
		}
		addIP(c, string(b))
	}
	for _, ip := range append(append([]string{}, pool...), "host", "", "1.2.3") {
		for _, port := range []string{"19618", "80", "", "019618"} {
			for _, p := range peers {
				if quick && (len(ip)+len(port)+len(p.Addr))%5 != 0 {
					continue
				}
				addEndpoint(c, ip, port, p)
			}
		}
	}
	// 7. live endpoints of type *net.TCPAddr (what a TCP connection reports) and port
	// fields that are equal only modulo 2^16, carry zeros/signs, or overflow
	for _, tp := range tcpPeers {
		h, pt, _ := net.SplitHostPort(tp.str())
		pn, _ := strconv.Atoi(pt)
		names := []string{h}
		if ip := net.ParseIP(h); ip != nil && ip.To4() != nil {
			names = append(names, "::ffff:"+ip.To4().String())
		} else if h == "::1" {
			names = append(names, "0:0:0:0:0:0:0:1")
		}
		portFields := []string{pt, strconv.Itoa(pn + 65536), strconv.Itoa(pn + 2*65536), strconv.Itoa(pn + 1<<32), "0" + pt, "00" + pt, "+" + pt, "-" + pt,
			strconv.Itoa(pn - 65536), "0", "99999", strconv.Itoa(pn + 1), pt[:len(pt)-1], "9223372036854775808", "18446744073709551616", strconv.Itoa(pn+65536) + "0", ""}
		for _, nm := range names {
			for _, pf := range portFields {
				for _, pfx := range []string{"FS_", "FS_REMOTE_"} {
					addVal(c, baseDir+"/"+pfx+nm+"_"+pf+"_XXXQ8dEz7", pfx != "FS_", tp)
				}
				addEndpoint(c, nm, pf, tp)
			}
		}
		c.Count("tcpaddr-peer-port-field-sweeps")
	}
	// 8. the base directory is fixed: TMPDIR in the client's environment must not move it
	tmps := []struct {
		mode int
		val  string
	}{{1, w.sandbox + "/store"}, {1, "/var/tmp"}, {1, "tmp"}, {1, "/tmp/"}, {1, ""}, {1, "/"}, {1, w.sandbox + "/none"}, {1, "/tmp/../tmp"}, {2, ""}}
	for _, t := range tmps {
		under := filepath.Clean(t.val)
		if t.val == "" || t.mode == 2 {
			under = "/tmp"
		}
		for _, lf := range []string{"FS_12345", "FS_REMOTE_host_42_67890", "FS_127.0.0.1_19618_abc", "FS_x-y", "sub/FS_12345"} {
			rem := strings.Contains(lf, "REMOTE")
			addValEnv(c, baseDir+"/"+lf, rem, tcpPeers[0], t.mode, t.val)
			addValEnv(c, strings.TrimSuffix(under, "/")+"/"+lf, rem, tcpPeers[0], t.mode, t.val)
			addValEnv(c, t.val+"/"+lf, rem, tcpPeers[0], t.mode, t.val)
		}
	}
	_ = tok
}

// ---------------------------------------------------------------- section B

// sandbox + watched set
type world struct {
	tok     string
	sandbox string   // /tmp/vhC18sb<tok>
	extra   []string // additional paths to lstat
}

func newWorld(tok string) (*world, error) {
	w := &world{tok: tok, sandbox: filepath.Join(baseDir, "vhC18sb"+tok)}
	for _, d := range []string{w.sandbox, w.sandbox + "/cwd", w.sandbox + "/sub", w.sandbox + "/cwd/tmp", w.sandbox + "/store"} {
		if err := os.MkdirAll(d, 0o755); err != nil {
			return nil, err
		}
	}
	if err := os.Symlink(baseDir, w.sandbox+"/lnk"); err != nil && !os.IsExist(err) {
		return nil, err
	}
	if err := os.Symlink(w.sandbox+"/sub", w.sandbox+"/lnksub"); err != nil && !os.IsExist(err) {
		return nil, err
	}
	return w, os.Chdir(w.sandbox + "/cwd")
}
func (w *world) close() {
	os.Chdir("/")
	os.RemoveAll(w.sandbox)
	// anything of ours left under the base
	ents, _ := os.ReadDir(baseDir)
	for _, e := range ents {
		if strings.Contains(e.Name(), w.tok) {
			os.RemoveAll(filepath.Join(baseDir, e.Name()))
		}
	}
	for _, p := range w.extra {
		if strings.Contains(p, w.tok) {
			os.RemoveAll(p)
		}
	}
}

func describe(fi os.FileInfo) string {
	st, _ := fi.Sys().(*syscall.Stat_t)
	ino := uint64(0)
	if st != nil {
		ino = st.Ino
	}
	return fmt.Sprintf("%v ino=%d", fi.Mode(), ino)
}

// snapshot: every entry of the base whose name carries our token, the whole
// sandbox tree, and the extra paths.
func (w *world) snapshot() map[string]string {
	m := map[string]string{}
	ents, _ := os.ReadDir(baseDir)
	for _, e := range ents {
		if strings.Contains(e.Name(), w.tok) {
			p := filepath.Join(baseDir, e.Name())
			if fi, err := os.Lstat(p); err == nil {
				m[p] = describe(fi)
			}
		}
	}
	filepath.Walk(w.sandbox, func(p string, fi os.FileInfo, err error) error {
		if err == nil {
			m[p] = describe(fi)
		}
		return nil
	})
	for _, p := range w.extra {
		if fi, err := os.Lstat(p); err == nil {
			m[p] = describe(fi)
		}
	}
	return m
}

// diff returns paths new in b, and paths of a that are gone or changed in b.
func diff(a, b map[string]string) (added, disturbed []string) {
	for p := range b {
		if _, ok := a[p]; !ok {
			added = append(added, p)
		}
	}
	for p, d := range a {
		if d2, ok := b[p]; !ok || d2 != d {
			disturbed = append(disturbed, p)
		}
	}
	sort.Strings(added)
	sort.Strings(disturbed)
	return
}

// raw wire (written from the protocol description: 1 byte end flag, 4 bytes big-endian length, payload)
func frame(data []byte, eom bool) []byte {
	h := make([]byte, 5, 5+len(data))
	if eom {
		h[0] = 1
	}
	binary.BigEndian.PutUint32(h[1:], uint32(len(data)))
	return append(h, data...)
}
func i64(v int64) []byte {
	b := make([]byte, 8)
	binary.BigEndian.PutUint64(b, uint64(v))
	return b
}
func readFrame(conn net.Conn) ([]byte, bool, error) {
	h := make([]byte, 5)
	if _, err := io.ReadFull(conn, h); err != nil {
		return nil, false, err
	}
	n := binary.BigEndian.Uint32(h[1:])
	if n > 1<<20 {
		return nil, false, errors.New("frame too large")
	}
	d := make([]byte, n)
	if _, err := io.ReadFull(conn, d); err != nil {
		return nil, false, err
	}
	return d, h[0] != 0, nil
}

type exch struct {
	Kind    string `json:"kind"`
	Tok     string `json:"tok"`
	Name    string `json:"scenario"`
	Path    string `json:"path_hex"`
	Remote  bool   `json:"remote"`
	Peer    peer   `json:"peer"`
	Step1   string `json:"step1"`
	Step2   string `json:"step2"`
	Pre     string `json:"pre"`    // "", "dir", "file", "symlink": object put at PrePath before the exchange
	PrePath string `json:"pre_at"` // where
	Watch   string `json:"watch"`  // extra path to watch
	// SetDeclared: call Stream.SetPeerAddr(Declared) on the client stream before the
	// exchange: the stream's DECLARED peer address (configured / advertised / imported)
	// as opposed to the live connection's RemoteAddr (Peer), which is the endpoint
	// an address-qualified name must name.
	SetDeclared bool   `json:"set_declared"`
	Declared    string `json:"declared"`
	// TmpMode: environment of the client during the exchange: 0 as is, 1 TMPDIR=Tmp, 2 TMPDIR unset
	TmpMode int    `json:"tmpdir_mode,omitempty"`
	Tmp     string `json:"tmpdir,omitempty"`
	// Tamper: what another party does to the directory the client created, after the
	// reply was read and before the client's cleanup: "" nothing, "rm" removes it (the
	// real server does), "fill" puts a file inside, "swap-symlink"/"swap-file" replace it
	Tamper string `json:"tamper,omitempty"`
	// NoFD: the client runs with no free file descriptor, so os.OpenRoot fails
	NoFD bool `json:"no_fd,omitempty"`
}

type exchObs struct {
	replyRead  bool
	reply      int64
	replyBytes int
	mid, after []string // new paths
	midDist    []string // disturbed
	afterDist  []string
	midInfo    map[string]string
	nilRet     bool
	panicked   bool
	midTaken   bool
	tampered   bool // the tampering was carried out (the directory existed)
	fdStarved  bool // NoFD: descriptor exhaustion was in force before and after the client's mkdir step
}

var step1Kinds = []string{"ok", "split", "extra", "noeom-close", "close", "trunc-header", "trunc-body", "nonul", "emptymsg"}
var step2Kinds = []string{"result0", "result-1", "result7", "close-noread", "partial-read-close", "read-close", "result-extra", "result-noeom-close", "result-short", "result-trunc", "stall-cancel", "result-early"}

// starveFDs uses up every file descriptor number below a lowered RLIMIT_NOFILE, so
// that any open() in the process fails with EMFILE; the returned function undoes it.
func starveFDs() func() {
	var old syscall.Rlimit
	if syscall.Getrlimit(syscall.RLIMIT_NOFILE, &old) != nil {
		return func() {}
	}
	var held []*os.File
	top := 0
	for i := 0; i < 64; i++ { // the kernel hands out the lowest free number: after a few opens there is no hole below top
		f, err := os.Open(os.DevNull)
		if err != nil {
			break
		}
		held = append(held, f)
		if fd := int(f.Fd()); fd > top {
			top = fd
		} else if i > 8 {
			break
		}
	}
	lim := old
	lim.Cur = uint64(top + 1)
	syscall.Setrlimit(syscall.RLIMIT_NOFILE, &lim)
	done := false
	return func() {
		if done {
			return
		}
		done = true
		syscall.Setrlimit(syscall.RLIMIT_NOFILE, &old)
		for _, f := range held {
			f.Close()
		}
	}
}

func runExchange(w *world, e exch) (o exchObs, err error) {
	withTmpdir(e.TmpMode, e.Tmp, func() { o, err = runExchangeEnv(w, e) })
	return
}

func runExchangeEnv(w *world, e exch) (o exchObs, err error) {
	path := unhx(e.Path)
	if e.Watch != "" {
		w.extra = append(w.extra, e.Watch)
		defer func() { w.extra = w.extra[:len(w.extra)-1] }()
	}
	switch e.Pre {
	case "dir":
		err = os.Mkdir(e.PrePath, 0o755)
	case "file":
		err = os.WriteFile(e.PrePath, []byte("x"), 0o644)
	case "symlink":
		err = os.Symlink(w.sandbox+"/store", e.PrePath)
	case "dangling":
		err = os.Symlink(w.sandbox+"/none", e.PrePath)
	}
	if err != nil {
		return o, fmt.Errorf("pre-state: %w", err)
	}
	if e.Pre != "" {
		defer os.Remove(e.PrePath)
	}
	s0 := w.snapshot()

	restoreFD := func() {}
	probeFD := func() bool { // true = no descriptor can be obtained
		f, err := os.Open(os.DevNull)
		if err == nil {
			f.Close()
			return false
		}
		return errors.Is(err, syscall.EMFILE)
	}
	if e.NoFD {
		restoreFD = starveFDs()
		defer restoreFD()
		o.fdStarved = probeFD()
	}

	cp, sp := net.Pipe()
	cconn := &addrConn{Conn: cp, remote: e.Peer.netAddr(), local: fakeAddr("127.0.0.1:40000")}
	dl := time.Now().Add(30 * time.Second)
	sp.SetDeadline(dl)
	ctx, cancel := context.WithTimeout(context.Background(), 35*time.Second)
	defer cancel()
	cfg := &security.SecurityConfig{AuthMethods: []security.AuthMethod{security.AuthFS}, Authentication: security.SecurityRequired}
	cstream := stream.NewStream(cconn)
	if e.SetDeclared {
		cstream.SetPeerAddr(e.Declared)
	}
	auth := security.NewAuthenticator(cfg, cstream)

	done := make(chan struct{})
	var cerr error
	go func() {
		defer close(done)
		defer func() {
			if r := recover(); r != nil {
				o.panicked = true
				cerr = fmt.Errorf("panic: %v", r)
			}
		}()
		cerr = auth.VerifFSAuthClient(ctx, e.Remote)
	}()

	// ---- scripted server
	srv := func() {
		pz := append([]byte(path), 0)
		proceed := false
		switch e.Step1 {
		case "ok":
			_, werr := sp.Write(frame(pz, true))
			proceed = werr == nil
		case "split":
			h := len(pz) / 2
			sp.Write(frame(pz[:h], false))
			_, werr := sp.Write(frame(pz[h:], true))
			proceed = werr == nil
		case "extra":
			sp.Write(frame(append(pz, 'X'), true))
		case "noeom-close":
			sp.Write(frame(pz, false))
			sp.Close()
		case "close":
			sp.Close()
		case "trunc-header":
			sp.Write([]byte{1, 0, 0})
			sp.Close()
		case "trunc-body":
			f := frame(pz, true)
			sp.Write(f[:len(f)-2])
			sp.Close()
		case "nonul":
			_, werr := sp.Write(frame([]byte(path), true))
			proceed = werr == nil
		case "emptymsg":
			_, werr := sp.Write(frame(nil, true))
			proceed = werr == nil
		}
		if !proceed {
			// the client may still answer (e.g. "extra" stops it before); try to read a reply, non-fatally
			if e.Step1 == "extra" {
				if d, _, rerr := readFrame(sp); rerr == nil && len(d) == 8 {
					o.replyRead, o.reply = true, int64(binary.BigEndian.Uint64(d))
				}
			}
			return
		}
		early := make(chan struct{})
		switch e.Step2 {
		case "close-noread":
			sp.Close()
			return
		case "partial-read-close":
			io.ReadFull(sp, make([]byte, 3))
			sp.Close()
			return
		case "result-early":
			go func() { defer close(early); sp.Write(frame(i64(0), true)) }()
		}
		d, eom, rerr := readFrame(sp)
		if rerr != nil {
			return
		}
		o.replyBytes = len(d)
		if len(d) == 8 && eom {
			o.replyRead, o.reply = true, int64(binary.BigEndian.Uint64(d))
		}
		if e.NoFD {
			o.fdStarved = o.fdStarved && probeFD()
			restoreFD()
		}
		if e.Step2 != "result-early" {
			s1 := w.snapshot()
			o.mid, o.midDist = diff(s0, s1)
			o.midInfo = s1
			o.midTaken = true
		}
		if e.Tamper != "" && len(o.mid) == 1 && strings.HasPrefix(o.midInfo[o.mid[0]], "d") {
			t := o.mid[0]
			var terr error
			switch e.Tamper {
			case "rm":
				terr = os.Remove(t)
			case "fill":
				terr = os.WriteFile(t+"/x", []byte("x"), 0o600)
			case "swap-symlink":
				if terr = os.Remove(t); terr == nil {
					terr = os.Symlink(w.sandbox+"/store", t)
				}
			case "swap-file":
				if terr = os.Remove(t); terr == nil {
					terr = os.WriteFile(t, []byte("x"), 0o600)
				}
			}
			o.tampered = terr == nil
		}
		switch e.Step2 {
		case "result0":
			sp.Write(frame(i64(0), true))
		case "result-1":
			sp.Write(frame(i64(-1), true))
		case "result7":
			sp.Write(frame(i64(7), true))
		case "read-close":
			sp.Close()
		case "result-extra":
			sp.Write(frame(append(i64(0), 'X'), true))
		case "result-noeom-close":
			sp.Write(frame(i64(0), false))
			sp.Close()
		case "result-short":
			sp.Write(frame([]byte{0, 0, 0, 0}, true))
		case "result-trunc":
			sp.Write([]byte{1, 0, 0})
			sp.Close()
		case "stall-cancel":
			cancel()
		case "result-early":
			<-early
		}
	}
	sdone := make(chan struct{})
	go func() { defer close(sdone); srv() }()
	select {
	case <-done:
	case <-time.After(40 * time.Second):
		sp.Close()
		cp.Close()
		<-done
		err = errors.New("client did not return within 40s")
	}
	// the client has returned: nothing more will arrive, end the server script
	sp.Close()
	cp.Close()
	<-sdone
	restoreFD()
	o.nilRet = cerr == nil
	s2 := w.snapshot()
	o.after, o.afterDist = diff(s0, s2)
	// leave nothing behind whatever happened
	for _, p := range o.after {
		os.RemoveAll(p)
	}
	return o, err
}

// abstract script the wire script amounts to (see Model/FSPath.v script)
func scriptTerm(e exch) (term string, readsReply bool) {
	path := unhx(e.Path)
	spath := "IoFail"
	eom1 := "EomOk"
	okPath := func(p string) string { return "(IoOk " + core.Hex([]byte(p)) + ")" }
	fits := len(path) <= 4095 && !strings.Contains(path, "\x00")
	switch e.Step1 {
	case "ok", "split":
		if fits {
			spath = okPath(path)
		}
	case "extra":
		if fits {
			spath, eom1 = okPath(path), "EomMore"
		}
	case "noeom-close":
		if fits {
			spath, eom1 = okPath(path), "EomErr"
		}
	case "nonul":
		if path == "" {
			spath = okPath("")
		}
	case "emptymsg":
		spath = okPath("")
	}
	put, fin := "true", "true"
	res, eom2 := "IoFail", "EomOk"
	reads := true
	switch e.Step2 {
	case "result0":
		res = "(IoOk 0%Z)"
	case "result-early":
		res, reads = "(IoOk 0%Z)", false // the snapshot at reply time would race with the client's cleanup
	case "result-1":
		res = "(IoOk (-1)%Z)"
	case "result7":
		res = "(IoOk 7%Z)"
	case "close-noread", "partial-read-close":
		fin, reads = "false", false
	case "result-extra":
		res, eom2 = "(IoOk 0%Z)", "EomMore"
	case "result-noeom-close":
		res, eom2 = "(IoOk 0%Z)", "EomErr"
	}
	if (spath == "IoFail" || eom1 != "EomOk") && e.Step2 != "result-early" {
		reads = true // the server tries; the model says no reply is ever produced
	}
	return fmt.Sprintf("{| sc_path := %s; sc_eom1 := %s; sc_put := %s; sc_fin := %s; sc_res := %s; sc_eom2 := %s |}", spath, eom1, put, fin, res, eom2), reads
}

func pathsTerm(ps []string) string {
	var xs []string
	for _, p := range ps {
		xs = append(xs, core.Hex([]byte(p)))
	}
	return core.List(xs)
}

// judgeExchange: the direct property oracle on one observed exchange.
func judgeExchange(e exch, o exchObs) (key, msg string) {
	path := unhx(e.Path)
	leaf, ok, why := specAccept(path, e.Remote, e.Peer)
	target := baseDir + "/" + leaf
	if o.panicked {
		return "client-panic", "the client panicked"
	}
	if e.Tamper == "fill" && o.tampered && ok && len(o.afterDist) == 0 && len(o.midDist) == 0 && (len(o.after) == 0 || (len(o.after) == 1 && o.after[0] == target)) {
		// Environment interference, outside what the property ranges over: a party that can
		// write into the client's 0700 directory runs as the client's uid or root. The client
		// only rmdir's, so the filled directory stays; what is left is compared with the model
		// (left_behind / C18_left_behind) by the correspondence, not judged here.
		return "", ""
	}
	if len(o.after) > 0 {
		return "residue-after-exchange", fmt.Sprintf("after the exchange (%s/%s) these paths remain that did not exist before: %q", e.Step1, e.Step2, o.after)
	}
	if len(o.afterDist) > 0 || len(o.midDist) > 0 {
		return "disturbed-existing", fmt.Sprintf("existing filesystem objects were removed or changed: %q %q", o.midDist, o.afterDist)
	}
	if !ok {
		if len(o.mid) > 0 {
			extra := ""
			if e.SetDeclared {
				extra = fmt.Sprintf(" [live peer %q, stream's declared peer address %q]", e.Peer.str(), e.Declared)
			}
			if e.TmpMode != 0 {
				extra += fmt.Sprintf(" [client environment: TMPDIR mode %d value %q]", e.TmpMode, e.Tmp)
			}
			if e.Peer.Has {
				extra += fmt.Sprintf(" [live peer %s of type %T]", e.Peer.str(), e.Peer.netAddr())
			}
			return "effect-for-rejected-path", fmt.Sprintf("server-supplied path %q (not acceptable: %s) made the client create %q%s", path, why, o.mid, extra)
		}
		if o.replyRead && o.reply != -1 {
			return "reply-not-failure", fmt.Sprintf("server-supplied path %q (not acceptable: %s) got reply %d instead of -1", path, why, o.reply)
		}
		return "", ""
	}
	for _, p := range o.mid {
		if p != target {
			return "effect-outside-target", fmt.Sprintf("path %q made the client create %q, expected at most %q", path, p, target)
		}
	}
	if len(o.mid) > 1 {
		return "more-than-one-directory", fmt.Sprintf("%q", o.mid)
	}
	if len(o.mid) == 1 {
		if !strings.HasPrefix(o.midInfo[target], "drwx------") {
			return "created-not-0700-dir", fmt.Sprintf("created object at %q is %s", target, o.midInfo[target])
		}
	}
	if o.replyRead {
		if o.reply != 0 && o.reply != -1 {
			return "reply-not-failure", fmt.Sprintf("reply %d", o.reply)
		}
		if o.midTaken && (o.reply == 0) != (len(o.mid) == 1) {
			return "reply-disagrees-with-effect", fmt.Sprintf("reply %d but created %q", o.reply, o.mid)
		}
	}
	return "", ""
}

func addExchange(c *core.Ctx, w *world, e exch) {
	t0 := time.Now()
	o, err := runExchange(w, e)
	if d := time.Since(t0); d > 200*time.Millisecond {
		fmt.Fprintf(os.Stderr, "slow exchange %s %s/%s: %v\n", e.Name, e.Step1, e.Step2, d)
	}
	if err != nil {
		c.OracleFail("exchange-harness", fmt.Sprintf("%s/%s/%s: %v", e.Name, e.Step1, e.Step2, err), e)
		return
	}
	c.OracleCheck()
	if key, msg := judgeExchange(e, o); key != "" {
		c.OracleFail(key, fmt.Sprintf("[%s %s/%s] %s", e.Name, e.Step1, e.Step2, msg), e)
	}
	sc, reads := scriptTerm(e)
	reply := "None"
	if o.replyRead {
		reply = "(Some " + core.Z(o.reply) + ")"
	}
	if e.NoFD && !o.fdStarved {
		c.Count("exch-fd-starvation-not-in-force-case-dropped")
		return
	}
	cs := "CsEmptyDir"
	if o.tampered {
		cs = map[string]string{"rm": "CsGone", "fill": "CsNonEmptyDir", "swap-symlink": "CsOtherObject", "swap-file": "CsOtherObject"}[e.Tamper]
		c.Count("exch-tamper-" + e.Tamper)
	}
	if e.NoFD {
		c.Count("exch-openroot-fails-no-descriptor")
	}
	c.AddCase(fmt.Sprintf("CExch %s %s %s %s %s %s %s %s %s %s %s", core.Bool(e.Remote), e.Peer.term(), sc, core.Bool(e.Pre == ""), core.Bool(!e.NoFD), cs, core.Bool(reads), reply,
		pathsTerm(o.mid), pathsTerm(o.after), core.Bool(o.nilRet)), e)
	c.Count("exch-step1-" + e.Step1)
	if e.Step1 == "ok" || e.Step1 == "split" {
		c.Count("exch-step2-" + e.Step2)
	}
	if len(o.mid) > 0 {
		c.Count("exch-created-a-directory")
		c.Nontrivial("exch|" + e.Name + "|" + e.Step1 + "|" + e.Step2)
	}
	if o.replyRead {
		c.Count(fmt.Sprintf("exch-reply-%d", o.reply))
	}
	if o.nilRet {
		c.Count("exch-client-returned-nil")
	}
}

type scenario struct {
	name   string
	path   func(u string) string // u = unique alnum suffix carrying the token
	remote bool
	peer   peer
	pre    string
	watch  func(u string) string
	// declared peer address of the stream (SetPeerAddr), when setDecl
	setDecl  bool
	declared string
	tmpMode  int
	tmp      string
	tamper   string
	noFD     bool
}

func scenarios(w *world) []scenario {
	p4 := tcpPeers[0] // a real *net.TCPAddr, as a TCP connection reports
	pstr := peers[2]  // the same endpoint as a string-typed net.Addr
	sb := w.sandbox
	return []scenario{
		{name: "local-ok", path: func(u string) string { return baseDir + "/FS_" + u }},
		{name: "remote-ok", path: func(u string) string { return baseDir + "/FS_REMOTE_vh-host.x_42_" + u }, remote: true},
		{name: "addr-local-ok", path: func(u string) string { return baseDir + "/FS_127.0.0.1_19618_" + u }, peer: p4},
		{name: "addr-remote-ok", path: func(u string) string { return baseDir + "/FS_REMOTE_127.0.0.1_19618_" + u }, remote: true, peer: p4},
		{name: "addr-v6-ok", path: func(u string) string { return baseDir + "/FS_REMOTE_0:0:0:0:0:0:0:1_19618_" + u }, remote: true, peer: peers[3]},
		{name: "addr-wrong-port", path: func(u string) string { return baseDir + "/FS_REMOTE_127.0.0.1_19619_" + u }, remote: true, peer: p4},
		{name: "addr-wrong-ip", path: func(u string) string { return baseDir + "/FS_127.0.0.2_19618_" + u }, peer: p4},
		{name: "addr-remote-wrong-ip", path: func(u string) string { return baseDir + "/FS_REMOTE_127.0.0.2_19618_" + u }, remote: true, peer: p4},
		{name: "addr-remote-hostname-peer", path: func(u string) string { return baseDir + "/FS_REMOTE_127.0.0.1_19618_" + u }, remote: true, peer: peers[7]},
		{name: "addr-names-client-own-endpoint", path: func(u string) string { return baseDir + "/FS_127.0.0.1_40000_" + u }, peer: p4},
		// --- declared (Stream.SetPeerAddr) vs live (RemoteAddr) endpoint: only the live one counts
		{name: "declared-differs-name-live", path: func(u string) string { return baseDir + "/FS_127.0.0.1_19618_" + u }, peer: p4, setDecl: true, declared: "<10.9.8.7:9618>"},
		{name: "declared-differs-name-live-remote", path: func(u string) string { return baseDir + "/FS_REMOTE_127.0.0.1_19618_" + u }, remote: true, peer: p4, setDecl: true, declared: "<10.9.8.7:9618?sock=abc>"},
		{name: "declared-differs-name-declared", path: func(u string) string { return baseDir + "/FS_10.9.8.7_9618_" + u }, peer: p4, setDecl: true, declared: "<10.9.8.7:9618>"},
		{name: "declared-differs-name-declared-remote", path: func(u string) string { return baseDir + "/FS_REMOTE_10.9.8.7_9618_" + u }, remote: true, peer: p4, setDecl: true, declared: "<10.9.8.7:9618>"},
		{name: "declared-bare-name-declared", path: func(u string) string { return baseDir + "/FS_10.9.8.7_9618_" + u }, peer: p4, setDecl: true, declared: "10.9.8.7:9618"},
		{name: "declared-params-name-declared", path: func(u string) string { return baseDir + "/FS_REMOTE_10.9.8.7_9618_" + u }, remote: true, peer: p4, setDecl: true, declared: "<10.9.8.7:9618?addrs=10.9.8.7-9618&sock=x>"},
		{name: "declared-v6-name-declared", path: func(u string) string { return baseDir + "/FS_REMOTE_::1_9618_" + u }, remote: true, peer: p4, setDecl: true, declared: "<[::1]:9618>"},
		{name: "declared-differs-name-neither", path: func(u string) string { return baseDir + "/FS_192.168.1.254_9618_" + u }, peer: p4, setDecl: true, declared: "<10.9.8.7:9618>"},
		{name: "declared-same-port-other-ip-name-declared", path: func(u string) string { return baseDir + "/FS_10.9.8.7_19618_" + u }, peer: p4, setDecl: true, declared: "<10.9.8.7:19618>"},
		{name: "declared-same-ip-other-port-name-declared", path: func(u string) string { return baseDir + "/FS_127.0.0.1_9618_" + u }, peer: p4, setDecl: true, declared: "<127.0.0.1:9618>"},
		{name: "declared-equal-name-live", path: func(u string) string { return baseDir + "/FS_127.0.0.1_19618_" + u }, peer: p4, setDecl: true, declared: "<127.0.0.1:19618>"},
		{name: "declared-unparsable-name-live", path: func(u string) string { return baseDir + "/FS_127.0.0.1_19618_" + u }, peer: p4, setDecl: true, declared: "<not an address>"},
		{name: "declared-hostname-name-live", path: func(u string) string { return baseDir + "/FS_REMOTE_127.0.0.1_19618_" + u }, remote: true, peer: p4, setDecl: true, declared: "<cm.example.org:9618>"},
		{name: "declared-empty-name-live", path: func(u string) string { return baseDir + "/FS_127.0.0.1_19618_" + u }, peer: p4, setDecl: true, declared: ""},
		{name: "declared-only-no-live-address-name-declared", path: func(u string) string { return baseDir + "/FS_10.9.8.7_9618_" + u }, peer: peers[1], setDecl: true, declared: "<10.9.8.7:9618>"},
		{name: "declared-only-nil-live-address-name-declared", path: func(u string) string { return baseDir + "/FS_REMOTE_10.9.8.7_9618_" + u }, remote: true, peer: peers[0], setDecl: true, declared: "<10.9.8.7:9618>"},
		{name: "declared-differs-historical-name", path: func(u string) string { return baseDir + "/FS_" + u }, peer: p4, setDecl: true, declared: "<10.9.8.7:9618>"},
		// --- live endpoint of type *net.TCPAddr / string-typed, port fields equal only modulo 2^16
		{name: "addr-local-ok-strpeer", path: func(u string) string { return baseDir + "/FS_127.0.0.1_19618_" + u }, peer: pstr},
		{name: "addr-remote-wrong-port-strpeer", path: func(u string) string { return baseDir + "/FS_REMOTE_127.0.0.1_19619_" + u }, remote: true, peer: pstr},
		{name: "tcp-port-plus-65536", path: func(u string) string { return baseDir + "/FS_127.0.0.1_85154_" + u }, peer: p4},
		{name: "tcp-port-plus-65536-remote", path: func(u string) string { return baseDir + "/FS_REMOTE_127.0.0.1_85154_" + u }, remote: true, peer: p4},
		{name: "tcp-port-plus-65536-mapped16", path: func(u string) string { return baseDir + "/FS_::ffff:127.0.0.1_85154_" + u }, peer: tcpPeers[1]},
		{name: "tcp-port-plus-65536-v6", path: func(u string) string { return baseDir + "/FS_REMOTE_::1_85154_" + u }, remote: true, peer: tcpPeers[2]},
		{name: "tcp-port80-plus-65536", path: func(u string) string { return baseDir + "/FS_10.0.0.5_65616_" + u }, peer: tcpPeers[3]},
		{name: "tcp-port-leading-zeros", path: func(u string) string { return baseDir + "/FS_10.0.0.5_00080_" + u }, peer: tcpPeers[3]},
		{name: "strpeer-port-plus-65536", path: func(u string) string { return baseDir + "/FS_127.0.0.1_85154_" + u }, peer: pstr},
		{name: "tcp-mapped16-name-v4-ok", path: func(u string) string { return baseDir + "/FS_127.0.0.1_19618_" + u }, peer: tcpPeers[1]},
		{name: "tcp-v4-name-mapped-ok", path: func(u string) string { return baseDir + "/FS_REMOTE_::ffff:127.0.0.1_19618_" + u }, remote: true, peer: p4},
		{name: "tcp-v6-ok", path: func(u string) string { return baseDir + "/FS_REMOTE_::1_19618_" + u }, remote: true, peer: tcpPeers[2]},
		{name: "tcp-v6-zoned-peer", path: func(u string) string { return baseDir + "/FS_REMOTE_fe80::1_19618_" + u }, remote: true, peer: tcpPeers[4]},
		// --- the base directory is fixed: TMPDIR in the client's environment must not move it
		{name: "tmpdir-scratch-path-under-tmp", path: func(u string) string { return baseDir + "/FS_" + u }, tmpMode: 1, tmp: sb + "/store"},
		{name: "tmpdir-scratch-path-under-tmpdir", path: func(u string) string { return sb + "/store/FS_" + u }, tmpMode: 1, tmp: sb + "/store"},
		{name: "tmpdir-scratch-remote-path-under-tmpdir", path: func(u string) string { return sb + "/store/FS_REMOTE_h_42_" + u }, remote: true, tmpMode: 1, tmp: sb + "/store"},
		{name: "tmpdir-vartmp-path-under-tmpdir", path: func(u string) string { return "/var/tmp/FS_" + u }, watch: func(u string) string { return "/var/tmp/FS_" + u }, tmpMode: 1, tmp: "/var/tmp"},
		{name: "tmpdir-vartmp-path-under-tmp", path: func(u string) string { return baseDir + "/FS_127.0.0.1_19618_" + u }, peer: p4, tmpMode: 1, tmp: "/var/tmp"},
		{name: "tmpdir-relative-path-under-tmp", path: func(u string) string { return baseDir + "/FS_" + u }, tmpMode: 1, tmp: "tmp"},
		{name: "tmpdir-relative-path-under-it-abs", path: func(u string) string { return sb + "/cwd/tmp/FS_" + u }, tmpMode: 1, tmp: "tmp"},
		{name: "tmpdir-relative-path-relative", path: func(u string) string { return "tmp/FS_" + u }, tmpMode: 1, tmp: "tmp"},
		{name: "tmpdir-trailing-slash", path: func(u string) string { return baseDir + "/FS_" + u }, tmpMode: 1, tmp: "/tmp/"},
		{name: "tmpdir-empty", path: func(u string) string { return baseDir + "/FS_" + u }, tmpMode: 1, tmp: ""},
		{name: "tmpdir-unset", path: func(u string) string { return baseDir + "/FS_REMOTE_h_42_" + u }, remote: true, tmpMode: 2},
		{name: "tmpdir-root-path-under-root", path: func(u string) string { return "/FS_" + u }, watch: func(u string) string { return "/FS_" + u }, tmpMode: 1, tmp: "/"},
		{name: "tmpdir-missing-dir-path-under-tmp", path: func(u string) string { return baseDir + "/FS_" + u }, tmpMode: 1, tmp: sb + "/none"},
		{name: "tmpdir-symlink-to-tmp-path-under-it", path: func(u string) string { return sb + "/lnk/FS_" + u }, tmpMode: 1, tmp: sb + "/lnk"},
		{name: "addr-no-peer-address", path: func(u string) string { return baseDir + "/FS_127.0.0.1_19618_" + u }, peer: peers[1]},
		{name: "remote-name-in-local-mode", path: func(u string) string { return baseDir + "/FS_REMOTE_h_42_" + u }},
		{name: "local-name-in-remote-mode", path: func(u string) string { return baseDir + "/FS_" + u }, remote: true},
		{name: "nested-parent", path: func(u string) string { return sb + "/sub/FS_" + u }},
		{name: "nested-under-base-dir", path: func(u string) string { return baseDir + "/vhC18sb" + w.tok + "/FS_" + u }},
		{name: "symlinked-parent", path: func(u string) string { return sb + "/lnk/FS_" + u }},
		{name: "traversal-back-into-base", path: func(u string) string { return sb + "/sub/../../FS_" + u }},
		{name: "traversal-out-of-base", path: func(u string) string { return baseDir + "/../tmp/vhC18sb" + w.tok + "/sub/FS_" + u }},
		{name: "dot-segment", path: func(u string) string { return baseDir + "/./FS_" + u }},
		{name: "doubled-slash", path: func(u string) string { return baseDir + "//FS_" + u }},
		{name: "trailing-slash", path: func(u string) string { return baseDir + "/FS_" + u + "/" }},
		{name: "relative", path: func(u string) string { return "FS_" + u }},
		{name: "relative-tmp", path: func(u string) string { return "tmp/FS_" + u }},
		{name: "prefix-only-leaf", path: func(u string) string { return baseDir + "/FS_" + u + "-evil" }},
		{name: "prefix-only-leaf-dot", path: func(u string) string { return baseDir + "/FS_" + u + ".d" }},
		{name: "overlong-suffix", path: func(u string) string { return baseDir + "/FS_" + u + "0123456789" }},
		{name: "wrong-prefix", path: func(u string) string { return baseDir + "/evil_" + u }},
		{name: "other-dir", path: func(u string) string { return "/var/tmp/FS_" + u }, watch: func(u string) string { return "/var/tmp/FS_" + u }},
		{name: "leaf-dotdot", path: func(u string) string { return baseDir + "/.." }},
		{name: "base-itself", path: func(u string) string { return baseDir }},
		{name: "empty-path", path: func(u string) string { return "" }},
		{name: "non-ascii-leaf", path: func(u string) string { return baseDir + "/FS_" + u + "\xc3\xa9" }},
		{name: "control-byte-leaf", path: func(u string) string { return baseDir + "/FS_" + u + "\n" }},
		{name: "overlong-path", path: func(u string) string { return baseDir + "/FS_" + u + strings.Repeat("a", 4200) }},
		{name: "max-length-path", path: func(u string) string { return baseDir + "/FS_" + u + strings.Repeat("a", 4095-len(baseDir+"/FS_"+u)) }},
		{name: "existing-dir-at-target", path: func(u string) string { return baseDir + "/FS_" + u }, pre: "dir"},
		{name: "existing-file-at-target", path: func(u string) string { return baseDir + "/FS_" + u }, pre: "file"},
		{name: "existing-symlink-at-target", path: func(u string) string { return baseDir + "/FS_" + u }, pre: "symlink"},
	}
}

func section_exchange(c *core.Ctx, w *world) {
	n := 0
	uniq := func() string {
		n++
		return w.tok + strconv.FormatInt(int64(n), 36)
	}
	scs := scenarios(w)
	mk := func(s scenario, s1, s2 string) exch {
		u := uniq()
		e := exch{Kind: "exch", Tok: w.tok, Name: s.name, Path: hx(s.path(u)), Remote: s.remote, Peer: s.peer, Step1: s1, Step2: s2, Pre: s.pre,
			SetDeclared: s.setDecl, Declared: s.declared, TmpMode: s.tmpMode, Tmp: s.tmp, Tamper: s.tamper, NoFD: s.noFD}
		if s.pre != "" {
			e.PrePath = s.path(u)
		}
		if s.watch != nil {
			e.Watch = s.watch(u)
		}
		return e
	}
	for i, s := range scs {
		for j, s2 := range step2Kinds {
			if c.Quick() && i >= 5 && s.pre == "" && j >= 3 && (i+j)%4 != 0 {
				continue // rejected-path scenarios: every ending for a quarter of them, the three main endings for all
			}
			addExchange(c, w, mk(s, "ok", s2))
		}
	}
	// other parties acting on the created directory before the client's cleanup; no free descriptor
	for _, s := range scs {
		switch s.name {
		case "local-ok", "remote-ok", "addr-remote-ok":
			for _, tm := range []string{"rm", "fill", "swap-symlink", "swap-file"} {
				for _, s2 := range []string{"result0", "result-1", "read-close", "stall-cancel"} {
					t := s
					t.name, t.tamper = s.name+"+"+tm, tm
					addExchange(c, w, mk(t, "ok", s2))
				}
			}
			for _, s2 := range []string{"result0", "read-close", "close-noread"} {
				t := s
				t.name, t.noFD = s.name+"+no-free-descriptor", true
				addExchange(c, w, mk(t, "ok", s2))
			}
		case "existing-symlink-at-target":
			t := s
			t.name, t.pre = "existing-dangling-symlink-at-target", "dangling"
			for _, s2 := range []string{"result0", "result-1", "close-noread"} {
				addExchange(c, w, mk(t, "ok", s2))
			}
		}
	}
	// first-step variants on accepted and rejected paths
	for _, s1 := range step1Kinds[1:] {
		for _, s := range scs {
			switch s.name {
			case "local-ok", "remote-ok", "addr-remote-ok", "nested-parent", "prefix-only-leaf":
				for _, s2 := range []string{"result0", "close-noread"} {
					addExchange(c, w, mk(s, s1, s2))
				}
			}
		}
	}
}

// ---------------------------------------------------------------- section C

type srvCase struct {
	Kind   string `json:"kind"`
	Obj    string `json:"object"`
	Code   int64  `json:"client_code"`
	Remote bool   `json:"remote"`
	Addr   bool   `json:"addressed"` // server connection has a usable local address (address-qualified name)
}

var srvObjects = []string{"dir0700", "dir0755", "dir0750", "dir0711", "dir0600", "dir0500", "dir0777", "dir01700", "dir02700", "symlink-to-dir0700", "symlink-dangling",
	"file0700", "file0600", "nothing", "fifo0700", "dir0700-one-subdir", "dir0700-two-subdirs", "dir0700-with-file", "dir0700-uid1", "dir0700-uid65534", "dir0700-uid-unknown", "dir0755-uid1",
	// other file types whose S_IFMT value shares bits with S_IFDIR (socket 0140000, block device 0060000) or not (char device)
	"socket0700", "blockdev0700", "chardev0700"}

type srvObs struct {
	path    string
	st      *syscall.Stat_t
	mode    os.FileMode
	exists  bool
	lookup  string
	hasUser bool
	result  int64
	gotRes  bool
	user    string
	nilRet  bool
}

// errSkipObject: the sandbox cannot create this kind of object (no CAP_MKNOD, ...); the case is skipped and counted.
var errSkipObject = errors.New("object kind not creatable here")

func placeObject(w *world, path, obj string) error {
	mkdir := func(mode os.FileMode) error {
		if err := os.Mkdir(path, 0o700); err != nil {
			return err
		}
		return os.Chmod(path, mode)
	}
	switch obj {
	case "dir0700":
		return mkdir(0o700)
	case "dir0755":
		return mkdir(0o755)
	case "dir0750":
		return mkdir(0o750)
	case "dir0711":
		return mkdir(0o711)
	case "dir0600":
		return mkdir(0o600)
	case "dir0500":
		return mkdir(0o500)
	case "dir0777":
		return mkdir(0o777)
	case "dir01700":
		return mkdir(0o700 | os.ModeSticky)
	case "dir02700":
		return mkdir(0o700 | os.ModeSetgid)
	case "symlink-to-dir0700":
		t := w.sandbox + "/store/t" + filepath.Base(path)
		if err := os.Mkdir(t, 0o700); err != nil {
			return err
		}
		return os.Symlink(t, path)
	case "symlink-dangling":
		return os.Symlink(w.sandbox+"/store/none", path)
	case "file0700":
		return os.WriteFile(path, nil, 0o700)
	case "file0600":
		return os.WriteFile(path, nil, 0o600)
	case "nothing":
		return nil
	case "fifo0700":
		return syscall.Mkfifo(path, 0o700)
	case "socket0700":
		// a bound UNIX socket leaves a socket inode at the path; its name may be too long for sun_path,
		// so bind under a short name in the same directory and rename
		short := filepath.Join(filepath.Dir(path), "s"+strconv.Itoa(os.Getpid()))
		os.Remove(short)
		fd, err := syscall.Socket(syscall.AF_UNIX, syscall.SOCK_STREAM, 0)
		if err != nil {
			return errSkipObject
		}
		defer syscall.Close(fd)
		if err := syscall.Bind(fd, &syscall.SockaddrUnix{Name: short}); err != nil {
			return errSkipObject
		}
		if err := os.Rename(short, path); err != nil {
			os.Remove(short)
			return err
		}
		return os.Chmod(path, 0o700)
	case "blockdev0700":
		if err := syscall.Mknod(path, syscall.S_IFBLK|0o700, 7<<8|0); err != nil {
			return errSkipObject // needs CAP_MKNOD
		}
		return os.Chmod(path, 0o700)
	case "chardev0700":
		if err := syscall.Mknod(path, syscall.S_IFCHR|0o700, 1<<8|3); err != nil {
			return errSkipObject
		}
		return os.Chmod(path, 0o700)
	case "dir0700-one-subdir":
		if err := mkdir(0o700); err != nil {
			return err
		}
		return os.Mkdir(path+"/a", 0o700)
	case "dir0700-two-subdirs":
		if err := mkdir(0o700); err != nil {
			return err
		}
		os.Mkdir(path+"/a", 0o700)
		return os.Mkdir(path+"/b", 0o700)
	case "dir0700-with-file":
		if err := mkdir(0o700); err != nil {
			return err
		}
		return os.WriteFile(path+"/f", nil, 0o600)
	case "dir0700-uid1":
		if err := mkdir(0o700); err != nil {
			return err
		}
		return os.Lchown(path, 1, -1)
	case "dir0700-uid65534":
		if err := mkdir(0o700); err != nil {
			return err
		}
		return os.Lchown(path, 65534, -1)
	case "dir0700-uid-unknown":
		if err := mkdir(0o700); err != nil {
			return err
		}
		return os.Lchown(path, 4242421, -1)
	case "dir0755-uid1":
		if err := mkdir(0o755); err != nil {
			return err
		}
		return os.Lchown(path, 1, -1)
	}
	return errors.New("unknown object " + obj)
}

func runServer(w *world, sc srvCase) (o srvObs, err error) {
	cp, sp := net.Pipe()
	var sconn net.Conn = sp
	if sc.Addr {
		sconn = &addrConn{Conn: sp, remote: fakeAddr("127.0.0.1:40000"), local: fakeAddr("127.0.0.1:19618")}
	}
	cp.SetDeadline(time.Now().Add(30 * time.Second))
	ctx, cancel := context.WithTimeout(context.Background(), 35*time.Second)
	defer cancel()
	cfg := &security.SecurityConfig{AuthMethods: []security.AuthMethod{security.AuthFS}, Authentication: security.SecurityRequired}
	auth := security.NewAuthenticator(cfg, stream.NewStream(sconn))
	done := make(chan struct{})
	var serr error
	var neg *security.SecurityNegotiation
	go func() {
		defer close(done)
		defer func() {
			if r := recover(); r != nil {
				serr = fmt.Errorf("panic: %v", r)
			}
		}()
		neg, serr = auth.VerifFSAuthServer(ctx, sc.Remote)
	}()
	d, _, rerr := readFrame(cp)
	if rerr != nil {
		cp.Close()
		<-done
		return o, fmt.Errorf("reading the server's path: %v", rerr)
	}
	o.path = strings.TrimRight(string(d), "\x00")
	if !strings.HasPrefix(o.path, baseDir+"/FS_") || strings.Contains(o.path[len(baseDir)+1:], "/") {
		cp.Close()
		<-done
		return o, fmt.Errorf("server proposed unexpected path %q", o.path)
	}
	if err := placeObject(w, o.path, sc.Obj); err != nil {
		cp.Close()
		<-done
		os.RemoveAll(o.path)
		return o, fmt.Errorf("placing %s: %v", sc.Obj, err)
	}
	if fi, lerr := os.Lstat(o.path); lerr == nil {
		o.exists = true
		o.mode = fi.Mode()
		o.st, _ = fi.Sys().(*syscall.Stat_t)
		if u, uerr := user.LookupId(strconv.Itoa(int(o.st.Uid))); uerr == nil {
			o.lookup, o.hasUser = u.Username, true
		}
	}
	cp.Write(frame(i64(sc.Code), true))
	if d, eom, rerr := readFrame(cp); rerr == nil && len(d) == 8 && eom {
		o.gotRes, o.result = true, int64(binary.BigEndian.Uint64(d))
	}
	<-done
	cp.Close()
	sp.Close()
	o.nilRet = serr == nil
	if neg != nil {
		o.user = neg.User
	}
	os.RemoveAll(o.path)
	os.RemoveAll(w.sandbox + "/store/t" + filepath.Base(o.path))
	return o, nil
}

func addServer(c *core.Ctx, w *world, sc srvCase) {
	o, err := runServer(w, sc)
	if err != nil && strings.Contains(err.Error(), errSkipObject.Error()) {
		c.Count("srv-object-not-creatable-here-" + sc.Obj)
		return
	}
	if err != nil {
		c.OracleFail("server-harness", fmt.Sprintf("%v: %v", sc, err), sc)
		return
	}
	c.OracleCheck()
	if !o.gotRes {
		c.OracleFail("server-no-result", fmt.Sprintf("%v: the server sent no verdict", sc), sc)
		return
	}
	accepted := o.result == 0
	if accepted != o.nilRet {
		c.OracleFail("server-return-disagrees", fmt.Sprintf("%v: verdict %d but returned nil=%v", sc, o.result, o.nilRet), sc)
	}
	if accepted {
		good := o.exists && o.mode.IsDir() && o.mode&os.ModeSymlink == 0 && o.mode.Perm() == 0o700 && o.st != nil && (o.st.Nlink == 1 || o.st.Nlink == 2) && sc.Code == 0
		if !good {
			c.OracleFail("server-accepts-bad-object", fmt.Sprintf("the server accepted %s (mode %v, client code %d) at %s", sc.Obj, o.mode, sc.Code, o.path), sc)
		} else if !o.hasUser || o.user != o.lookup {
			c.OracleFail("server-identity-not-owner", fmt.Sprintf("the server recorded identity %q, the directory's owner is uid %d (%q)", o.user, o.st.Uid, o.lookup), sc)
		}
		c.Count("srv-accept")
		c.Nontrivial("srv|" + sc.Obj + fmt.Sprint(sc.Remote, sc.Addr))
	} else {
		if o.user != "" {
			c.OracleFail("server-identity-on-reject", fmt.Sprintf("the server rejected %s but recorded identity %q", sc.Obj, o.user), sc)
		}
		c.Count("srv-reject")
	}
	st := "None"
	if o.exists && o.st != nil {
		st = fmt.Sprintf("(Some {| st_dir := %s; st_symlink := %s; st_perm := %d; st_nlink := %d; st_uid := %d |})",
			core.Bool(o.mode.IsDir()), core.Bool(o.mode&os.ModeSymlink != 0), uint32(o.mode.Perm()), o.st.Nlink, o.st.Uid)
	}
	c.AddCase(fmt.Sprintf("CSrv %s %s %s %s %s %s", core.Z(sc.Code), st, core.Opt(o.hasUser, core.Hex([]byte(o.lookup))), core.Z(o.result),
		core.Opt(o.user != "", core.Hex([]byte(o.user))), core.Bool(o.nilRet)), sc)
	c.Count("srv-object-" + sc.Obj)
}

func section_server(c *core.Ctx, w *world) {
	for i, obj := range srvObjects {
		addServer(c, w, srvCase{"srv", obj, 0, false, false})
		addServer(c, w, srvCase{"srv", obj, 0, true, true})
		if i%3 == 0 || !c.Quick() {
			addServer(c, w, srvCase{"srv", obj, 0, false, true})
			addServer(c, w, srvCase{"srv", obj, 0, true, false})
		}
	}
	for _, code := range []int64{-1, 1, 7, 1 << 32} {
		addServer(c, w, srvCase{"srv", "dir0700", code, false, false})
		addServer(c, w, srvCase{"srv", "nothing", code, true, true})
	}
}

// ---------------------------------------------------------------- main

func newToken() string {
	v := uint64(os.Getpid())<<24 ^ uint64(time.Now().UnixNano())
	s := strconv.FormatUint(v, 36)
	for len(s) < 8 {
		s = "0" + s
	}
	return "v" + s[len(s)-7:]
}

func quietStdout() func() {
	old := os.Stdout
	if f, err := os.OpenFile(os.DevNull, os.O_WRONLY, 0); err == nil {
		os.Stdout = f
		return func() { os.Stdout = old; f.Close() }
	}
	return func() {}
}

func gen(c *core.Ctx) error {
	c.Rule("A: validateFSAuthPath/fsAddrLeaf/verifyFSPathEndpoint and filepath.Clean/Dir/Base, net.ParseIP on a catalogue of recognised and near-miss leaves x parents x joiners x peers, exhaustive sequences of <=4 components from {'', '.', '..', tmp, FS_1}, every byte value inside a name, over-long fields and random mutations of accepted paths; compared with the Gallina model and judged by an independent restatement of the accepted shapes. B: the whole real client exchange against a raw-wire scripted server (9 ways to deliver the path x 12 ways to continue/end) for 81 path scenarios (13 with live endpoints of type *net.TCPAddr or string-typed and port fields equal only modulo 2^16 / with leading zeros / IPv4-mapped forms, 13 with TMPDIR set, relative, empty or unset in the client environment, 17 of them with a declared stream peer address, Stream.SetPeerAddr, that differs from / equals / is not an address / is empty, against names of the live, the declared-only or neither endpoint), with filesystem snapshots (token-named entries of /tmp, a sandbox tree, extra targets) before / at reply / after. C: the real server against 22 kinds of object left at its path. non-trivial = accepted path, exchange that created a directory, accepted server verification")
	c.Assume("kernel path resolution of os.Root (openat2/RESOLVE_BENEATH) and the absence of concurrent symlink swaps under /tmp are assumed, not checked")
	c.Assume("the harness runs as root: a directory owned by another user is produced by chown; a client that is a different unprivileged user is not exercised")
	c.Assume("os.OpenRoot(/tmp) failing is provoked only through file-descriptor exhaustion (EMFILE); a missing or unreadable /tmp is not exercised")
	c.Assume("PutInt failing (as opposed to FinishMessage failing) cannot be provoked over the wire: PutInt only buffers")
	restore := quietStdout()
	defer restore()
	c.PerFile = 800
	tok := newToken()
	w, err := newWorld(tok)
	if err != nil {
		return err
	}
	defer w.close()
	section_validate(c, tok, w)
	section_exchange(c, w)
	section_server(c, w)
	c.Sample(map[string]interface{}{"token": tok, "sandbox": w.sandbox})
	c.Exhaustive(false)
	return nil
}

func replay(raw json.RawMessage) error {
	var k struct {
		Kind string `json:"kind"`
	}
	if err := json.Unmarshal(raw, &k); err != nil {
		return err
	}
	restore := quietStdout()
	defer restore()
	switch k.Kind {
	case "val":
		var v valCase
		json.Unmarshal(raw, &v)
		var fail string
		withTmpdir(v.SetTmp, v.Tmp, func() { _, _, fail = checkValidate(unhx(v.Path), v.Remote, v.Peer) })
		if fail != "" {
			return errors.New(fail)
		}
		return nil
	case "exch":
		var e exch
		json.Unmarshal(raw, &e)
		w, err := newWorld(e.Tok)
		if err != nil {
			return err
		}
		defer w.close()
		o, err := runExchange(w, e)
		if err != nil {
			return err
		}
		if key, msg := judgeExchange(e, o); key != "" {
			return fmt.Errorf("%s: %s", key, msg)
		}
		return nil
	case "srv":
		var s srvCase
		json.Unmarshal(raw, &s)
		w, err := newWorld(newToken())
		if err != nil {
			return err
		}
		defer w.close()
		o, err := runServer(w, s)
		if err != nil {
			return err
		}
		if o.gotRes && o.result == 0 {
			good := o.exists && o.mode.IsDir() && o.mode&os.ModeSymlink == 0 && o.mode.Perm() == 0o700 && o.st != nil && (o.st.Nlink == 1 || o.st.Nlink == 2) && s.Code == 0
			if !good {
				return fmt.Errorf("the server accepted %s (mode %v, client code %d)", s.Obj, o.mode, s.Code)
			}
			if o.user != o.lookup {
				return fmt.Errorf("identity %q is not the owner %q", o.user, o.lookup)
			}
		}
		return nil
	}
	return nil
}

func facts(b *strings.Builder) error {
	l, r, s := security.VerifFSRegexSources()
	q := func(x string) string { return `"` + strings.ReplaceAll(x, `"`, `""`) + `"` }
	b.WriteString("(* GENERATED by harness/cmd/vh-c18 facts from /repo's current code. Do not edit. *)\n")
	b.WriteString("From Coq Require Import String NArith.\nLocal Open Scope string_scope.\n")
	fmt.Fprintf(b, "Definition fsAuthLocalLeafRE : string := %s.\n", q(l))
	fmt.Fprintf(b, "Definition fsAuthRemoteLeafRE : string := %s.\n", q(r))
	fmt.Fprintf(b, "Definition fsSuffixRE : string := %s.\n", q(s))
	fmt.Fprintf(b, "Definition fsAuthBaseDir : string := %s.\n", q(security.VerifFSAuthBaseDir))
	fmt.Fprintf(b, "Definition MaxDirPathSize : N := %d%%N.\n", security.MaxDirPathSize)
	return nil
}

func main() { core.MainWithFacts("C18", gen, replay, facts) }
