package main

import (
	"errors"
	"io"
	"net"
	"sync"
	"time"
)

// half is one direction of an in-memory duplex connection: an unbounded byte
// queue. Writes never block (unless the instrumented side stalls them), reads
// block until data, EOF (writer closed) or the reader's own Close.
type half struct {
	mu      sync.Mutex
	cond    *sync.Cond
	buf     []byte
	wclosed bool // writer side closed -> reader gets EOF after draining
	rclosed bool // reader side closed -> reads fail, writes fail with EPIPE-like error
}

func newHalf() *half { h := &half{}; h.cond = sync.NewCond(&h.mu); return h }

var errInjected = errors.New("vh-c19: injected connection failure")

// sconn is one end of the duplex connection, with per-call instrumentation:
// every Read/Write is numbered; call number stallAt never completes by itself
// (it returns only after Close, like a peer that went silent); from call number
// failFrom on every call fails with errInjected (a broken connection).
type sconn struct {
	name string
	rd   *half // peer -> us
	wr   *half // us -> peer

	mu         sync.Mutex
	ops        int
	log        []byte
	stallAt    int
	failFrom   int
	realBlock  bool     // stall inside a real net.Pipe end instead of a channel wait
	dead       net.Conn // our end of a pipe nobody serves (realBlock)
	deadPeer   net.Conn
	onStall    func()
	afterOp    func(i int) // called when call i completed normally
	closed     bool
	closeCount int
	deadlines  []string
	closeCh    chan struct{}
	stalled    chan struct{} // closed when the stalling call has begun
}

func newPair() (*sconn, *sconn) {
	ab, ba := newHalf(), newHalf()
	a := &sconn{name: "A", rd: ba, wr: ab, stallAt: -1, failFrom: -1, closeCh: make(chan struct{}), stalled: make(chan struct{})}
	b := &sconn{name: "B", rd: ab, wr: ba, stallAt: -1, failFrom: -1, closeCh: make(chan struct{}), stalled: make(chan struct{})}
	return a, b
}

func (c *sconn) enter(kind byte) (idx int, stall, fail bool) {
	c.mu.Lock()
	defer c.mu.Unlock()
	idx = c.ops
	c.ops++
	c.log = append(c.log, kind)
	return idx, idx == c.stallAt, c.failFrom >= 0 && idx >= c.failFrom
}

func (c *sconn) doStall(kind byte, b []byte) (int, error) {
	close(c.stalled)
	if c.onStall != nil {
		c.onStall()
	}
	if c.realBlock {
		// block inside a genuine net.Pipe call; only Close (which closes c.dead) ends it
		if kind == 'R' {
			_, err := c.dead.Read(b)
			if err == nil {
				err = io.ErrClosedPipe
			}
			return 0, err
		}
		_, err := c.dead.Write(b)
		if err == nil {
			err = io.ErrClosedPipe
		}
		return 0, err
	}
	<-c.closeCh
	return 0, net.ErrClosed
}

func (c *sconn) Read(b []byte) (int, error) {
	idx, stall, fail := c.enter('R')
	if fail {
		return 0, errInjected
	}
	if stall {
		return c.doStall('R', b)
	}
	h := c.rd
	h.mu.Lock()
	for len(h.buf) == 0 && !h.wclosed && !h.rclosed {
		h.cond.Wait()
	}
	if h.rclosed {
		h.mu.Unlock()
		return 0, net.ErrClosed
	}
	if len(h.buf) == 0 {
		h.mu.Unlock()
		return 0, io.EOF
	}
	n := copy(b, h.buf)
	h.buf = h.buf[n:]
	h.mu.Unlock()
	if c.afterOp != nil {
		c.afterOp(idx)
	}
	return n, nil
}

func (c *sconn) Write(b []byte) (int, error) {
	idx, stall, fail := c.enter('W')
	if fail {
		return 0, errInjected
	}
	if stall {
		return c.doStall('W', b)
	}
	c.mu.Lock()
	closed := c.closed
	c.mu.Unlock()
	if closed {
		return 0, net.ErrClosed
	}
	h := c.wr
	h.mu.Lock()
	if h.rclosed {
		h.mu.Unlock()
		return 0, io.ErrClosedPipe
	}
	h.buf = append(h.buf, b...)
	h.cond.Broadcast()
	h.mu.Unlock()
	if c.afterOp != nil {
		c.afterOp(idx)
	}
	return len(b), nil
}

func (c *sconn) Close() error {
	c.mu.Lock()
	c.closeCount++
	already := c.closed
	c.closed = true
	dead, deadPeer := c.dead, c.deadPeer
	c.mu.Unlock()
	if already {
		return nil
	}
	close(c.closeCh)
	if dead != nil {
		_ = dead.Close()
		_ = deadPeer.Close()
	}
	c.rd.mu.Lock()
	c.rd.rclosed = true
	c.rd.cond.Broadcast()
	c.rd.mu.Unlock()
	c.wr.mu.Lock()
	c.wr.wclosed = true
	c.wr.cond.Broadcast()
	c.wr.mu.Unlock()
	return nil
}

func (c *sconn) isClosed() bool { c.mu.Lock(); defer c.mu.Unlock(); return c.closed }
func (c *sconn) opCount() int   { c.mu.Lock(); defer c.mu.Unlock(); return c.ops }
func (c *sconn) opLog() string  { c.mu.Lock(); defer c.mu.Unlock(); return string(c.log) }

func (c *sconn) LocalAddr() net.Addr {
	if c.name == "A" {
		return &net.TCPAddr{IP: net.IPv4(127, 0, 0, 1), Port: 41001}
	}
	return &net.TCPAddr{IP: net.IPv4(127, 0, 0, 1), Port: 9618}
}
func (c *sconn) RemoteAddr() net.Addr {
	if c.name == "A" {
		return &net.TCPAddr{IP: net.IPv4(127, 0, 0, 1), Port: 9618}
	}
	return &net.TCPAddr{IP: net.IPv4(127, 0, 0, 1), Port: 41001}
}

// Deadlines are not implemented (nothing here ever times out by itself) but every
// request to ARM one (a non-zero time) is recorded: the library must not put a
// deadline of its own on the caller's connection.
func (c *sconn) arm(kind string, t time.Time) error {
	if !t.IsZero() {
		c.mu.Lock()
		c.deadlines = append(c.deadlines, kind)
		c.mu.Unlock()
	}
	return nil
}
func (c *sconn) SetDeadline(t time.Time) error      { return c.arm("SetDeadline", t) }
func (c *sconn) SetReadDeadline(t time.Time) error  { return c.arm("SetReadDeadline", t) }
func (c *sconn) SetWriteDeadline(t time.Time) error { return c.arm("SetWriteDeadline", t) }
func (c *sconn) armed() []string {
	c.mu.Lock()
	defer c.mu.Unlock()
	return append([]string(nil), c.deadlines...)
}

// oneShotListener hands out one prepared connection, then blocks until closed.
type oneShotListener struct {
	conn     net.Conn
	once     sync.Once
	handed   chan struct{}
	closed   chan struct{}
	closeOne sync.Once
}

func newOneShotListener(c net.Conn) *oneShotListener {
	return &oneShotListener{conn: c, handed: make(chan struct{}), closed: make(chan struct{})}
}
func (l *oneShotListener) Accept() (net.Conn, error) {
	select {
	case <-l.closed:
		return nil, net.ErrClosed
	default:
	}
	first := false
	l.once.Do(func() { first = true })
	if first {
		close(l.handed)
		return l.conn, nil
	}
	<-l.closed
	return nil, net.ErrClosed
}
func (l *oneShotListener) Close() error { l.closeOne.Do(func() { close(l.closed) }); return nil }
func (l *oneShotListener) Addr() net.Addr {
	return &net.TCPAddr{IP: net.IPv4(127, 0, 0, 1), Port: 9618}
}
func (l *oneShotListener) accepted() bool {
	select {
	case <-l.handed:
		return true
	default:
		return false
	}
}
