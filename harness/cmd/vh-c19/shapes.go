package main

import (
	"bytes"
	"context"
	"errors"
	"fmt"
	"net"
	"os"
	"path/filepath"
	"sync/atomic"
	"time"

	"verifharness/core"

	"github.com/bbockelm/cedar/commands"
	"github.com/bbockelm/cedar/message"
	"github.com/bbockelm/cedar/security"
	"github.com/bbockelm/cedar/server"
	"github.com/bbockelm/cedar/stream"
)

// A shape is a two-party exchange over one connection. f1 is the initiator
// (client), f2 the responder (server); either can be the instrumented side.
type env struct {
	cli, srv security.SecurityConfig
	tmp      string
}

type shape struct {
	name        string
	failing     bool // the undisturbed exchange ends in an error on both sides (the server denies the negotiation)
	selfClosing bool // the instrumented party closes its connection when its work is done (server accept loop)
	plain       bool // plain stream/message operations: the error must be the context's own
	mk          func() (*env, error)
	f1          func(ctx context.Context, e *env, c net.Conn) error
	f2          func(ctx context.Context, e *env, c net.Conn) error
}

func baseCfg(methods []security.AuthMethod, auth, enc security.SecurityLevel) security.SecurityConfig {
	return security.SecurityConfig{
		AuthMethods:    methods,
		Authentication: auth,
		CryptoMethods:  []security.CryptoMethod{security.CryptoAES},
		Encryption:     enc,
		Integrity:      security.SecurityOptional,
		Command:        commands.DC_NOP,
	}
}

// traffic after the handshake: one request/reply over the established stream
func pingClient(ctx context.Context, st *stream.Stream) error {
	m := message.NewMessageForStream(st)
	if err := m.PutInt(ctx, 42); err != nil {
		return err
	}
	if err := m.PutString(ctx, "ping"); err != nil {
		return err
	}
	if err := m.FinishMessage(ctx); err != nil {
		return err
	}
	r := message.NewMessageFromStream(st)
	if v, err := r.GetInt(ctx); err != nil {
		return err
	} else if v != 43 {
		return fmt.Errorf("bad reply %d", v)
	}
	if s, err := r.GetString(ctx); err != nil {
		return err
	} else if s != "pong" {
		return fmt.Errorf("bad reply %q", s)
	}
	return nil
}

func pingServer(ctx context.Context, st *stream.Stream) error {
	r := message.NewMessageFromStream(st)
	if v, err := r.GetInt(ctx); err != nil {
		return err
	} else if v != 42 {
		return fmt.Errorf("bad request %d", v)
	}
	if s, err := r.GetString(ctx); err != nil {
		return err
	} else if s != "ping" {
		return fmt.Errorf("bad request %q", s)
	}
	m := message.NewMessageForStream(st)
	if err := m.PutInt(ctx, 43); err != nil {
		return err
	}
	if err := m.PutString(ctx, "pong"); err != nil {
		return err
	}
	return m.FinishMessage(ctx)
}

// mkStream builds the stream over c. With swap, the stream is first created on a
// throw-away connection and c is installed with SetConnection (connection
// upgrade / wrapping): cancellation must then interrupt and close c, the
// connection actually in use, not the one the stream was constructed with.
func mkStream(c net.Conn, swap bool) *stream.Stream {
	if !swap {
		return stream.NewStream(c)
	}
	old, _ := newPair()
	st := stream.NewStream(old)
	st.SetConnection(c)
	return st
}

func hsClientSw(ctx context.Context, e *env, c net.Conn) error {
	st := mkStream(c, true)
	cfg := e.cli
	a := security.NewAuthenticator(&cfg, st)
	if _, err := a.ClientHandshake(ctx); err != nil {
		return err
	}
	return pingClient(ctx, st)
}

func hsServerSw(ctx context.Context, e *env, c net.Conn) error {
	st := mkStream(c, true)
	cfg := e.srv
	a := security.NewAuthenticator(&cfg, st)
	if _, err := a.ServerHandshake(ctx); err != nil {
		return err
	}
	return pingServer(ctx, st)
}

func hsClient(ctx context.Context, e *env, c net.Conn) error {
	st := stream.NewStream(c)
	cfg := e.cli
	a := security.NewAuthenticator(&cfg, st)
	if _, err := a.ClientHandshake(ctx); err != nil {
		return err
	}
	return pingClient(ctx, st)
}

func hsServer(ctx context.Context, e *env, c net.Conn) error {
	st := stream.NewStream(c)
	cfg := e.srv
	a := security.NewAuthenticator(&cfg, st)
	if _, err := a.ServerHandshake(ctx); err != nil {
		return err
	}
	return pingServer(ctx, st)
}

// serveLoop runs the server side the way a daemon does: through the accept loop
// server.Serve, with ctx being the context handed to Serve. The per-connection work
// (handshake + command) is over when the server has closed the connection.
func serveLoop(ctx context.Context, e *env, c net.Conn) error {
	cfg := e.srv
	srv := server.New(&cfg)
	var okFlag int32
	srv.Handle(commands.DC_NOP, func(ctx context.Context, sc *server.Conn) error {
		err := pingServer(ctx, sc.Stream)
		if err == nil {
			atomic.StoreInt32(&okFlag, 1)
		}
		return err
	})
	l := newOneShotListener(c)
	defer l.Close()
	serveDone := make(chan error, 1)
	go func() { serveDone <- srv.Serve(ctx, l) }()
	closed := c.(*sconn).closeCh
	select {
	case <-closed:
	case err := <-serveDone:
		if !l.accepted() {
			_ = c.Close()
			if err == nil {
				err = errors.New("accept loop ended before the connection was served")
			}
			return err
		}
		<-closed // Serve has returned; the connection's goroutine must finish too
	}
	if atomic.LoadInt32(&okFlag) == 1 {
		return nil
	}
	if err := ctx.Err(); err != nil {
		return fmt.Errorf("connection closed by the server before the command completed: %w", err)
	}
	return errors.New("connection closed by the server before the command completed")
}

func handshakeShape(name string, mk func() (*env, error)) shape {
	return shape{name: name, mk: mk, f1: hsClient, f2: hsServer}
}

func mkSimple(methods []security.AuthMethod, auth, enc security.SecurityLevel) func() (*env, error) {
	return func() (*env, error) {
		e := &env{cli: baseCfg(methods, auth, enc), srv: baseCfg(methods, auth, enc)}
		e.cli.SessionCache = security.NewSessionCache()
		e.cli.PeerName = "vh-c19-server"
		return e, nil
	}
}

// mkDenied: irreconcilable policies (the server requires authentication and shares no
// method with the client): negotiateSecurity fails on the server, which writes a
// rejection ad before giving up (sendNegotiationFailureResponse); the client reads it.
func mkDenied() (*env, error) {
	e, _ := mkSimple([]security.AuthMethod{security.AuthClaimToBe}, security.SecurityRequired, security.SecurityRequired)()
	e.srv.AuthMethods = []security.AuthMethod{security.AuthFS}
	return e, nil
}

func mkToken() (*env, error) {
	dir, err := os.MkdirTemp("", "vhc19tok")
	if err != nil {
		return nil, err
	}
	keyDir := filepath.Join(dir, "keys")
	if err := os.MkdirAll(keyDir, 0o700); err != nil {
		return nil, err
	}
	if err := security.GenerateSigningKey(filepath.Join(keyDir, "vhkey")); err != nil {
		return nil, err
	}
	now := time.Now().Unix()
	tok, err := security.GenerateJWT(keyDir, "vhkey", "alice@vh.test", "vh.test", now-10, now+3600, nil)
	if err != nil {
		return nil, err
	}
	m := []security.AuthMethod{security.AuthToken}
	e := &env{cli: baseCfg(m, security.SecurityRequired, security.SecurityRequired), srv: baseCfg(m, security.SecurityRequired, security.SecurityRequired), tmp: dir}
	e.cli.Token = tok
	e.cli.TrustDomain = "vh.test"
	e.cli.SessionCache = security.NewSessionCache()
	e.cli.PeerName = "vh-c19-server"
	e.srv.TokenSigningKeyDir = keyDir
	e.srv.TrustDomain = "vh.test"
	e.srv.IssuerKeys = []string{"vhkey"}
	return e, nil
}

// mkResume performs one undisturbed full handshake first so that the measured
// run is a session resumption (client cache holds the session, the server's
// global cache too).
func mkResume() (*env, error) {
	e, _ := mkSimple([]security.AuthMethod{security.AuthClaimToBe}, security.SecurityRequired, security.SecurityRequired)()
	a, b := newPair()
	done := make(chan error, 1)
	go func() { done <- hsServer(context.Background(), e, b) }()
	ctx, cancel := context.WithTimeout(context.Background(), 5*time.Second)
	defer cancel()
	if err := hsClient(ctx, e, a); err != nil {
		return nil, fmt.Errorf("priming handshake (client): %w", err)
	}
	select {
	case err := <-done:
		if err != nil {
			return nil, fmt.Errorf("priming handshake (server): %w", err)
		}
	case <-time.After(5 * time.Second):
		return nil, fmt.Errorf("priming handshake (server) timed out")
	}
	_ = a.Close()
	_ = b.Close()
	if e.cli.SessionCache.Size() == 0 {
		return nil, fmt.Errorf("priming handshake cached no session")
	}
	return e, nil
}

// ---- plain stream / message operations --------------------------------------

func mkPlain() (*env, error) { return &env{}, nil }

var plainKey = bytes.Repeat([]byte{0x5a}, 32)

func frames1(enc bool, swap ...bool) func(ctx context.Context, e *env, c net.Conn) error {
	return func(ctx context.Context, e *env, c net.Conn) error {
		st := mkStream(c, len(swap) > 0 && swap[0])
		if enc {
			if err := st.SetSymmetricKey(plainKey); err != nil {
				return err
			}
		}
		for i := 0; i < 3; i++ {
			if err := st.SendMessage(ctx, core.Payload(i, 10+i*700)); err != nil {
				return err
			}
		}
		for i := 0; i < 2; i++ {
			d, err := st.ReceiveFrame(ctx)
			if err != nil {
				return err
			}
			if !bytes.Equal(d, core.Payload(7+i, 33+i*500)) {
				return fmt.Errorf("frame %d differs", i)
			}
		}
		if err := st.SendPartialMessage(ctx, core.Payload(1, 64)); err != nil {
			return err
		}
		if err := st.SendMessage(ctx, core.Payload(2, 64)); err != nil {
			return err
		}
		d, err := st.ReceiveCompleteMessage(ctx)
		if err != nil {
			return err
		}
		if len(d) != 5000+300 {
			return fmt.Errorf("complete message has %d bytes", len(d))
		}
		return nil
	}
}

func frames2(enc bool, swap ...bool) func(ctx context.Context, e *env, c net.Conn) error {
	return func(ctx context.Context, e *env, c net.Conn) error {
		st := mkStream(c, len(swap) > 0 && swap[0])
		if enc {
			if err := st.SetSymmetricKey(plainKey); err != nil {
				return err
			}
		}
		for i := 0; i < 3; i++ {
			d, err := st.ReceiveFrame(ctx)
			if err != nil {
				return err
			}
			if !bytes.Equal(d, core.Payload(i, 10+i*700)) {
				return fmt.Errorf("frame %d differs", i)
			}
		}
		for i := 0; i < 2; i++ {
			if err := st.SendMessage(ctx, core.Payload(7+i, 33+i*500)); err != nil {
				return err
			}
		}
		d, err := st.ReceiveCompleteMessage(ctx)
		if err != nil {
			return err
		}
		if len(d) != 128 {
			return fmt.Errorf("complete message has %d bytes", len(d))
		}
		st.StartMessage()
		if err := st.WriteMessage(ctx, core.Payload(3, 5000)); err != nil { // crosses the frame threshold: partial frame
			return err
		}
		if err := st.WriteMessage(ctx, core.Payload(4, 300)); err != nil {
			return err
		}
		return st.EndMessage(ctx)
	}
}

func msg1(ctx context.Context, e *env, c net.Conn) error {
	st := stream.NewStream(c)
	m := message.NewMessageForStream(st)
	if err := m.PutInt(ctx, 7); err != nil {
		return err
	}
	if err := m.PutString(ctx, string(bytes.Repeat([]byte("x"), 9000))); err != nil {
		return err
	}
	if err := m.PutBytes(ctx, core.Payload(5, 40000)); err != nil {
		return err
	}
	if err := m.PutDouble(ctx, 3.25); err != nil {
		return err
	}
	if err := m.FinishMessage(ctx); err != nil {
		return err
	}
	r := message.NewMessageFromStream(st)
	if _, err := r.GetInt(ctx); err != nil {
		return err
	}
	if s, err := r.GetString(ctx); err != nil {
		return err
	} else if len(s) != 70000 {
		return fmt.Errorf("string has %d bytes", len(s))
	}
	if b, err := r.GetBytes(ctx, 20000); err != nil {
		return err
	} else if len(b) != 20000 {
		return fmt.Errorf("bytes %d", len(b))
	}
	// buffered stream-level reading of a multi-frame message
	if err := st.StartMessageRead(ctx); err != nil {
		return err
	}
	buf := make([]byte, 4096)
	total := 0
	for total < 9000 {
		n, err := st.ReadMessageBytes(ctx, buf)
		if err != nil {
			return err
		}
		if n == 0 {
			break
		}
		total += n
	}
	if total != 9000 {
		return fmt.Errorf("read %d message bytes", total)
	}
	return st.EndMessageRead()
}

func msg2(ctx context.Context, e *env, c net.Conn) error {
	st := stream.NewStream(c)
	r := message.NewMessageFromStream(st)
	if v, err := r.GetInt(ctx); err != nil {
		return err
	} else if v != 7 {
		return fmt.Errorf("int %d", v)
	}
	if s, err := r.GetString(ctx); err != nil {
		return err
	} else if len(s) != 9000 {
		return fmt.Errorf("string has %d bytes", len(s))
	}
	if b, err := r.GetBytes(ctx, 40000); err != nil {
		return err
	} else if len(b) != 40000 {
		return fmt.Errorf("bytes %d", len(b))
	}
	if _, err := r.GetDouble(ctx); err != nil {
		return err
	}
	m := message.NewMessageForStream(st)
	if err := m.PutInt(ctx, 8); err != nil {
		return err
	}
	if err := m.PutString(ctx, string(bytes.Repeat([]byte("y"), 70000))); err != nil {
		return err
	}
	if err := m.PutBytes(ctx, core.Payload(9, 20000)); err != nil {
		return err
	}
	if err := m.FinishMessage(ctx); err != nil {
		return err
	}
	if err := st.SendPartialMessage(ctx, core.Payload(0, 4000)); err != nil {
		return err
	}
	if err := st.SendPartialMessage(ctx, core.Payload(1, 4000)); err != nil {
		return err
	}
	return st.SendMessage(ctx, core.Payload(2, 1000))
}

func file1(ctx context.Context, e *env, c net.Conn) error {
	st := stream.NewStream(c)
	if err := st.SetSymmetricKey(plainKey); err != nil {
		return err
	}
	st.SetEncrypted(false) // key present, encryption off: PutSecret switches it on for the secret
	if err := st.PutSecret(ctx, "s3cret"); err != nil {
		return err
	}
	if _, err := st.PutFile(ctx, filepath.Join(e.tmp, "src")); err != nil {
		return err
	}
	s, err := st.GetSecret(ctx)
	if err != nil {
		return err
	}
	if s != "ack" {
		return fmt.Errorf("secret reply %q", s)
	}
	return nil
}

func file2(ctx context.Context, e *env, c net.Conn) error {
	st := stream.NewStream(c)
	if err := st.SetSymmetricKey(plainKey); err != nil {
		return err
	}
	st.SetEncrypted(false)
	s, err := st.GetSecret(ctx)
	if err != nil {
		return err
	}
	if s != "s3cret" {
		return fmt.Errorf("secret %q", s)
	}
	f, err := os.CreateTemp(e.tmp, "dst")
	if err != nil {
		return err
	}
	name := f.Name()
	_ = f.Close()
	n, err := st.GetFile(ctx, name)
	if err != nil {
		return err
	}
	if n != 150000 {
		return fmt.Errorf("file has %d bytes", n)
	}
	return st.PutSecret(ctx, "ack")
}

func mkFile() (*env, error) {
	dir, err := os.MkdirTemp("", "vhc19file")
	if err != nil {
		return nil, err
	}
	if err := os.WriteFile(filepath.Join(dir, "src"), core.Payload(11, 150000), 0o600); err != nil {
		return nil, err
	}
	return &env{tmp: dir}, nil
}

func allShapes() []shape {
	none := []security.AuthMethod{security.AuthNone}
	return []shape{
		{name: "frames", plain: true, mk: mkPlain, f1: frames1(false), f2: frames2(false)},
		{name: "frames-aes", plain: true, mk: mkPlain, f1: frames1(true), f2: frames2(true)},
		{name: "frames-aes-swapped-conn", plain: true, mk: mkPlain, f1: frames1(true, true), f2: frames2(true, true)},
		{name: "hs-claimtobe-swapped-conn", mk: mkSimple([]security.AuthMethod{security.AuthClaimToBe}, security.SecurityRequired, security.SecurityRequired), f1: hsClientSw, f2: hsServerSw},
		{name: "hs-claimtobe-via-server.Serve", selfClosing: true, mk: mkSimple([]security.AuthMethod{security.AuthClaimToBe}, security.SecurityRequired, security.SecurityRequired), f1: hsClient, f2: serveLoop},
		{name: "hs-negotiation-denied", failing: true, mk: mkDenied, f1: hsClient, f2: hsServer},
		{name: "message", plain: true, mk: mkPlain, f1: msg1, f2: msg2},
		{name: "secret-file", plain: true, mk: mkFile, f1: file1, f2: file2},
		handshakeShape("hs-noauth-clear", mkSimple(none, security.SecurityNever, security.SecurityNever)),
		handshakeShape("hs-noauth-aes", mkSimple(none, security.SecurityOptional, security.SecurityRequired)),
		handshakeShape("hs-claimtobe-aes", mkSimple([]security.AuthMethod{security.AuthClaimToBe}, security.SecurityRequired, security.SecurityRequired)),
		handshakeShape("hs-fs-aes", mkSimple([]security.AuthMethod{security.AuthFS}, security.SecurityRequired, security.SecurityRequired)),
		handshakeShape("hs-retry-fs-then-claimtobe", mkRetry),
		handshakeShape("hs-token-aes", mkToken),
		handshakeShape("hs-resume", mkResume),
	}
}

// mkRetry: the server prefers TOKEN (for which the client has no usable
// credential, so that method fails) and both fall back to CLAIMTOBE: exercises
// the method retry loops whose errors are swallowed with `continue`.
func mkRetry() (*env, error) {
	e, _ := mkSimple([]security.AuthMethod{security.AuthFS, security.AuthClaimToBe}, security.SecurityRequired, security.SecurityRequired)()
	return e, nil
}
