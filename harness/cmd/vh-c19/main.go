// vh-c19: facts translator + stall-injection harness for C19 (cancellation and
// deadlines always unblock stream operations).
//
//	vh-c19 facts FILE   regenerate coq/gen/FactsC19.v from /repo's source
//	vh-c19 gen ...      run every exchange shape on the real code over an instrumented
//	                    in-memory connection: for EVERY connection-level read/write k of the
//	                    instrumented side, make call k stall for ever and fire the
//	                    cancellation / deadline before, during, after; the oracle demands a
//	                    prompt return, an error (the context's own for plain stream
//	                    operations), a closed connection and no later I/O.
package main

import (
	"context"
	"encoding/json"
	"errors"
	"fmt"
	"io"
	"log/slog"
	"net"
	"os"
	"runtime"
	"sort"
	"sync"
	"sync/atomic"
	"time"

	"verifharness/core"
)

// errCause is the custom cause given to WithCancelCause / WithTimeoutCause
// contexts: stream operations must still report ctx.Err() (context.Canceled /
// context.DeadlineExceeded), not the cause.
var errCause = errors.New("vh-c19: caller's private cancellation cause")

// bounds are the two wall-clock limits of the oracle. A failure on either is
// never reported from the loaded parallel phase alone: it is re-run in isolation
// with the bounds doubled up to three times (see confirmTiming).
type bounds struct {
	hang   time.Duration // the operation must have returned by then
	prompt time.Duration // generous bound on "promptly" after the cancellation
}

var baseBounds = bounds{hang: 3 * time.Second, prompt: 2 * time.Second}

func (b bounds) doubled() bounds { return bounds{2 * b.hang, 2 * b.prompt} }

// timing-based failure keys (everything else is independent of the clock)
var timingKey = map[string]bool{"hang": true, "slow": true, "left-open": true}

type mode struct {
	Shape    string `json:"shape"`
	Role     int    `json:"role"`   // 1: instrumented side is the initiator (client), 2: responder (server)
	Timing   string `json:"timing"` // before | during | after | bgerr | bgok | between
	K        int    `json:"k"`
	Deadline bool   `json:"deadline,omitempty"`
	Real     bool   `json:"real_pipe_block,omitempty"`
	Async    bool   `json:"async_cancel,omitempty"` // cancel from a timer goroutine a little after the stall began
	Cause    bool   `json:"with_cause,omitempty"`   // context made by WithCancelCause / WithTimeoutCause with a custom cause
}

type obs struct {
	Returned  bool     `json:"returned"`
	Err       bool     `json:"err"`
	ErrText   string   `json:"err_text,omitempty"`
	CtxErr    bool     `json:"is_ctx_err"`
	InjErr    bool     `json:"is_injected_err"`
	CauseErr  bool     `json:"is_cause_err,omitempty"`
	Closed    bool     `json:"closed"`
	Ops       int      `json:"ops"`
	OpsLater  int      `json:"ops_later"`
	Log       string   `json:"log"`
	Armed     []string `json:"deadlines_armed,omitempty"` // Set*Deadline(non-zero) calls the library made on the connection
	Unjudged  bool     `json:"unjudged,omitempty"`        // slow in the loaded phase, not re-run (no timing failure was reproducible)
	Reached   bool     `json:"stall_reached"`             // the stalling call had begun when the operation returned
	ElapsedMs int64    `json:"elapsed_ms"`                // from the cancellation (or start) to the return; not compared
	PeerErr   string   `json:"peer_err,omitempty"`
}

func findShape(name string) *shape {
	for _, s := range allShapes() {
		if s.name == name {
			s := s
			return &s
		}
	}
	return nil
}

// runOne executes one exchange with the given disturbance and reports what the
// instrumented side did. It never blocks longer than b.hang (plus clean-up).
func runOne(sh *shape, m mode, bd bounds) (obs, error) {
	e, err := sh.mk()
	if err != nil {
		return obs{}, fmt.Errorf("setup of %s: %w", sh.name, err)
	}
	if e.tmp != "" {
		defer os.RemoveAll(e.tmp)
	}
	a, b := newPair()
	fa, fb := sh.f1, sh.f2
	if m.Role == 2 {
		fa, fb = sh.f2, sh.f1
	}
	var ctx context.Context
	cancel := func() {}
	var cancelAt time.Time
	var cmu sync.Mutex
	doCancel := func() {
		cmu.Lock()
		if cancelAt.IsZero() {
			cancelAt = time.Now()
		}
		cmu.Unlock()
		cancel()
	}
	switch m.Timing {
	case "bgerr", "bgok":
		ctx = context.Background()
	default:
		switch {
		case m.Deadline && m.Cause:
			ctx, cancel = context.WithTimeoutCause(context.Background(), 300*time.Millisecond, errCause)
		case m.Deadline:
			ctx, cancel = context.WithTimeout(context.Background(), 300*time.Millisecond)
		case m.Cause:
			c2, cn := context.WithCancelCause(context.Background())
			ctx, cancel = c2, func() { cn(errCause) }
		default:
			ctx, cancel = context.WithCancel(context.Background())
		}
	}
	defer cancel()
	switch m.Timing {
	case "before":
		doCancel()
		if m.Deadline && m.Cause {
			c2, cn := context.WithDeadlineCause(context.Background(), time.Now().Add(-time.Second), errCause)
			defer cn()
			ctx = c2
		} else if m.Deadline {
			c2, cn := context.WithDeadline(context.Background(), time.Now().Add(-time.Second))
			defer cn()
			ctx = c2
		}
	case "during":
		a.stallAt = m.K
		if m.Real {
			a.dead, a.deadPeer = net.Pipe()
			a.realBlock = true
		}
		if !m.Deadline {
			if m.Async {
				a.onStall = func() { time.AfterFunc(3*time.Millisecond, doCancel) }
			} else {
				a.onStall = doCancel
			}
		} else {
			a.onStall = func() {
				cmu.Lock()
				cancelAt = time.Now()
				cmu.Unlock()
			}
		}
	case "between":
		// cancellation lands right when call K completed (before the primitive's stop())
		a.afterOp = func(i int) {
			if i == m.K {
				doCancel()
			}
		}
	case "bgerr":
		a.failFrom = m.K
	}
	peerDone := make(chan error, 1)
	go func() {
		defer func() {
			if r := recover(); r != nil {
				peerDone <- fmt.Errorf("peer panic: %v", r)
			}
		}()
		peerDone <- fb(context.Background(), e, b)
	}()
	type res struct{ err error }
	done := make(chan res, 1)
	start := time.Now()
	go func() {
		defer func() {
			if r := recover(); r != nil {
				done <- res{fmt.Errorf("panic: %v", r)}
			}
		}()
		done <- res{fa(ctx, e, a)}
	}()
	var o obs
	select {
	case r := <-done:
		o.Returned = true
		end := time.Now()
		cmu.Lock()
		from := cancelAt
		cmu.Unlock()
		if from.IsZero() {
			from = start
		}
		o.ElapsedMs = end.Sub(from).Milliseconds()
		if r.err != nil {
			o.Err = true
			o.ErrText = r.err.Error()
			if len(o.ErrText) > 160 {
				o.ErrText = o.ErrText[:160]
			}
			if ce := ctx.Err(); ce != nil && errors.Is(r.err, ce) && (errors.Is(r.err, context.Canceled) || errors.Is(r.err, context.DeadlineExceeded)) {
				o.CtxErr = true
			}
			o.CauseErr = errors.Is(r.err, errCause)
			o.InjErr = errors.Is(r.err, errInjected)
		}
	case <-time.After(bd.hang):
		o.Returned = false
	}
	o.Ops = a.opCount()
	select {
	case <-a.stalled:
		o.Reached = true
	default:
	}
	if m.Timing == "after" && o.Returned && !o.Err {
		doCancel() // late cancellation: must not disturb the finished exchange
	}
	// the close-on-cancel callback runs in its own goroutine: give it a moment
	for w := time.Duration(0); w < bd.prompt*3/20 && !a.isClosed() && (m.Timing == "during" || m.Timing == "between"); w += 5 * time.Millisecond {
		time.Sleep(5 * time.Millisecond)
	}
	if m.Timing == "after" {
		time.Sleep(30 * time.Millisecond)
	}
	o.Closed = a.isClosed()
	o.Armed = a.armed()
	o.OpsLater = a.opCount() - o.Ops
	o.Log = a.opLog()
	// release everything that may still be blocked
	_ = a.Close()
	_ = b.Close()
	select {
	case pe := <-peerDone:
		if pe != nil {
			o.PeerErr = pe.Error()
			if len(o.PeerErr) > 120 {
				o.PeerErr = o.PeerErr[:120]
			}
		}
	case <-time.After(bd.hang):
		o.PeerErr = "peer did not return after both connections were closed"
	}
	if !o.Returned {
		select {
		case <-done:
		case <-time.After(bd.hang):
		}
	}
	return o, nil
}

func timingTerm(t string) string {
	switch t {
	case "before":
		return "TBefore"
	case "during":
		return "TDuring"
	case "after":
		return "TAfter"
	case "bgerr":
		return "TBgPeerErr"
	}
	return "TBgOk"
}

// judge is the direct property oracle for one observation.
func judge(sh *shape, m mode, nops int, o obs, b bounds) (key, why string) {
	id := fmt.Sprintf("%s/role%d/%s/k=%d", m.Shape, m.Role, m.Timing, m.K)
	if !o.Returned {
		return "hang", id + ": the operation did not return within " + b.hang.String()
	}
	if len(o.Armed) > 0 {
		// no shape here calls Stream.SetTimeout: whatever the context, the library must
		// not arm a socket deadline of its own (with context.Background() it would be a
		// failure mode the caller never asked for)
		return "deadline-armed", fmt.Sprintf("%s: the library armed a deadline on the connection (%s x%d) although no timeout was requested", id, o.Armed[0], len(o.Armed))
	}
	switch m.Timing {
	case "before", "during", "between":
		if !o.Err {
			if m.Timing == "between" && o.Ops >= nops {
				return "", "" // cancellation landed after the very last call: completing is legitimate
			}
			return "nil-after-cancel", id + ": returned nil although the context was cancelled before the exchange finished"
		}
		if o.ElapsedMs > b.prompt.Milliseconds() {
			return "slow", fmt.Sprintf("%s: returned %d ms after the cancellation", id, o.ElapsedMs)
		}
		if sh.plain && !o.CtxErr {
			return "error-class", id + ": plain stream operation returned an error that is not the context's own (ctx.Err(): context.Canceled / context.DeadlineExceeded): " + o.ErrText
		}
		if m.Timing == "during" && !o.Reached {
			// a deadline that expired before call k was reached (loaded machine): an
			// early cancellation; the calls made so far must be fewer than k+1
			if o.Ops > m.K {
				return "later-io", fmt.Sprintf("%s: %d connection calls but the stalling call was never begun", id, o.Ops)
			}
			return "", ""
		}
		if m.Timing == "during" && !o.Closed {
			return "left-open", id + ": the connection was not closed after the interrupted call"
		}
		if m.Timing == "during" && o.Ops != m.K+1 {
			return "later-io", fmt.Sprintf("%s: %d connection calls were started, expected %d", id, o.Ops, m.K+1)
		}
		if m.Timing == "before" && o.Ops != 0 {
			return "io-after-cancel", fmt.Sprintf("%s: %d connection calls although the context was cancelled beforehand", id, o.Ops)
		}
		if o.OpsLater != 0 {
			return "later-io", fmt.Sprintf("%s: %d connection calls after the operation returned", id, o.OpsLater)
		}
	case "after", "bgok":
		if sh.failing {
			if !o.Err {
				return "denial-lost", id + ": the negotiation must be denied in this shape, but the exchange succeeded"
			}
		} else if o.Err {
			return "spurious-error", id + ": undisturbed exchange failed: " + o.ErrText
		}
		if o.Closed && !sh.selfClosing {
			return "spurious-close", id + ": the connection was closed although the exchange completed (late cancellation must be harmless)"
		}
		if o.Ops != nops {
			return "op-count", fmt.Sprintf("%s: %d connection calls, the reference run had %d", id, o.Ops, nops)
		}
	case "bgerr":
		if !o.Err {
			return "error-dropped", id + ": a failing connection call was not reported"
		}
		if sh.plain && !o.InjErr {
			return "error-class", id + ": with context.Background() the connection's own error must come back, got: " + o.ErrText
		}
		if o.Closed && !sh.selfClosing {
			return "spurious-close", id + ": connection closed by the library under context.Background()"
		}
	}
	return "", ""
}

// quiet silences the library's own logging and its direct prints to stdout.
func quiet() {
	slog.SetDefault(slog.New(slog.NewTextHandler(io.Discard, nil)))
	if f, err := os.OpenFile(os.DevNull, os.O_WRONLY, 0); err == nil {
		os.Stdout = f
	}
}

func gen(c *core.Ctx) error {
	quiet()
	c.Rule("every exchange shape (plain frames, AES frames, AES frames and a CLAIMTOBE handshake on streams whose connection was installed with SetConnection after construction, a handshake the server DENIES (no common method: it writes a rejection ad and gives up; stalled also at that write), a CLAIMTOBE handshake + command served through the accept loop server.Serve (the context under test is the one handed to Serve), typed messages, secret+file, handshakes: no-auth clear/AES, CLAIMTOBE, FS, FS|CLAIMTOBE, TOKEN, resumed session; each followed by a request/reply) is run on the real code on both roles over an instrumented connection; a reference run counts the connection-level calls N of the instrumented side; then for EVERY k<N call k is made to stall for ever and the context is cancelled (synchronously, from a timer, by deadline; with plain contexts and with WithCancelCause / WithTimeoutCause contexts carrying a custom cause - the error must still be ctx.Err(); stall inside a channel wait or inside a real net.Pipe call); also: context cancelled beforehand, cancelled right after call k completed, cancelled after completion, context.Background() undisturbed and with the connection failing from call k. non-trivial = a during/between case (stall or cancellation in the middle of the exchange); distinct by (shape, role, timing, k, variant)")
	c.Assume("closing a net.Conn makes a blocked Read/Write return (exercised on net.Pipe, a TCP loopback pair and the harness connection, not provable in the model)")
	c.Assume("promptness is measured against a 2 s bound (3 s to return at all), not proved; a failure on these bounds counts only if it also fails isolated re-runs with the bounds doubled up to 16 s / 24 s")
	assumptionProbe(c)
	shapes := allShapes()
	type job struct {
		sh   *shape
		m    mode
		nops int
	}
	var jobs []job
	for i := range shapes {
		sh := &shapes[i]
		for role := 1; role <= 2; role++ {
			ref, err := runOne(sh, mode{Shape: sh.name, Role: role, Timing: "bgok"}, baseBounds.doubled().doubled())
			if err != nil {
				return err
			}
			if !ref.Returned || ref.Err != sh.failing || ref.CtxErr {
				// a shape that does not work undisturbed is a harness problem, not a finding
				c.Note(fmt.Sprintf("shape %s role %d skipped: reference run failed (%s / peer %s)", sh.name, role, ref.ErrText, ref.PeerErr))
				c.Count("shape-skipped")
				continue
			}
			n := ref.Ops
			c.CountN("reference-calls:"+sh.name, n)
			c.Sample(map[string]interface{}{"shape": sh.name, "role": role, "calls": n, "sequence": ref.Log})
			add := func(m mode) {
				m.Shape, m.Role = sh.name, role
				jobs = append(jobs, job{sh, m, n})
			}
			add(mode{Timing: "bgok"})
			add(mode{Timing: "after"})
			add(mode{Timing: "before"})
			add(mode{Timing: "before", Deadline: true})
			add(mode{Timing: "before", Cause: true})
			add(mode{Timing: "before", Deadline: true, Cause: true})
			for k := 0; k < n; k++ {
				variant := k % 4
				add(mode{Timing: "during", K: k, Async: variant == 1, Real: variant == 2, Deadline: variant == 3, Cause: (k/4)%2 == 1})
				if sh.plain {
					add(mode{Timing: "during", K: k, Cause: true, Deadline: k%2 == 1})
				}
				if !c.Quick() || n <= 24 || k%3 == int(c.Seed%3) {
					add(mode{Timing: "during", K: k, Async: true, Real: true, Cause: k%2 == 0})
					add(mode{Timing: "during", K: k, Deadline: true, Real: variant%2 == 0})
				}
				add(mode{Timing: "between", K: k, Cause: k%2 == 1})
				if !c.Quick() || n <= 24 || k%2 == int(c.Seed%2) {
					add(mode{Timing: "bgerr", K: k})
				}
			}
		}
	}
	// run in parallel; results are recorded in job order
	type outT struct {
		o   obs
		err error
	}
	outs := make([]outT, len(jobs))
	sem := make(chan struct{}, 12)
	var wg sync.WaitGroup
	var hangs int32
	skipped := make([]bool, len(jobs))
	for i := range jobs {
		if atomic.LoadInt32(&hangs) >= 8 {
			// the property is already refuted several times over; every further
			// hanging case would cost a watchdog period (and the confirmation re-runs)
			skipped[i] = true
			continue
		}
		wg.Add(1)
		sem <- struct{}{}
		go func(i int) {
			defer wg.Done()
			defer func() { <-sem }()
			o, err := runOne(jobs[i].sh, jobs[i].m, baseBounds)
			if err == nil && !o.Returned {
				atomic.AddInt32(&hangs, 1)
			}
			outs[i] = outT{o, err}
		}(i)
	}
	wg.Wait()
	// Phase 2: timing-based failures of the (loaded, parallel) phase 1 are confirmed
	// in isolation before they count. Clock-independent failures stand as they are.
	type verdict struct{ key, why string }
	verdicts := make([]verdict, len(jobs))
	var timingIdx []int
	for i, j := range jobs {
		if skipped[i] {
			continue
		}
		if outs[i].err != nil {
			return outs[i].err
		}
		k, w := judge(j.sh, j.m, j.nops, outs[i].o, baseBounds)
		verdicts[i] = verdict{k, w}
		if timingKey[k] {
			timingIdx = append(timingIdx, i)
		}
	}
	confirmed, cleared, full := 0, 0, 0
	for n, i := range timingIdx {
		j := jobs[i]
		if confirmed > 0 && n >= 5 {
			verdicts[i].why += " [same signature as a confirmed failure, not individually re-run]"
			c.Count("timing-failure:not-rerun")
			continue
		}
		if confirmed == 0 && n >= 25 {
			// dozens of slow cases and none reproducible: an overloaded machine
			verdicts[i] = verdict{}
			outs[i].o.Unjudged = true
			c.Count("timing-failure:unconfirmed-not-rerun")
			continue
		}
		retries := 3
		if confirmed > 0 && full >= 1 {
			retries = 1 // one scenario already failed every escalation; one doubled re-run suffices for the next four
		} else {
			full++
		}
		runtime.GC()
		b := baseBounds
		ok := false
		var lastKey, lastWhy string
		for r := 0; r < retries; r++ {
			b = b.doubled()
			o2, err := runOne(j.sh, j.m, b)
			if err != nil {
				return err
			}
			lastKey, lastWhy = judge(j.sh, j.m, j.nops, o2, b)
			if !timingKey[lastKey] {
				// returned in time under the wider bounds: the first run was just slow
				outs[i].o = o2
				verdicts[i] = verdict{lastKey, lastWhy} // "" or a clock-independent failure seen on the re-run
				ok = true
				break
			}
		}
		if ok {
			cleared++
			c.Count("timing-failure:slow-under-load-ok-on-retry")
			c.Note(fmt.Sprintf("slow under load, confirmed OK on retry: %s/role%d/%s/k=%d", j.m.Shape, j.m.Role, j.m.Timing, j.m.K))
		} else {
			confirmed++
			verdicts[i] = verdict{lastKey, fmt.Sprintf("%s [confirmed: failed the first run and %d isolated re-run(s) with bounds doubled up to hang %s / prompt %s]", lastWhy, retries, b.hang, b.prompt)}
			c.Count("timing-failure:confirmed")
		}
	}
	var worst int64
	for i, j := range jobs {
		if skipped[i] {
			c.Count("skipped-after-8-hangs")
			continue
		}
		o := outs[i].o
		c.Count("timing:" + j.m.Timing)
		c.Count("shape:" + j.m.Shape)
		if o.CtxErr {
			c.Count("error:context")
		} else if o.Err {
			c.Count("error:other")
		} else {
			c.Count("error:none")
		}
		if j.m.Timing == "during" || j.m.Timing == "between" {
			c.Nontrivial(fmt.Sprintf("%s|%d|%s|%d|%v%v%v%v", j.m.Shape, j.m.Role, j.m.Timing, j.m.K, j.m.Deadline, j.m.Real, j.m.Async, j.m.Cause))
			if j.m.Cause {
				c.Count("context:with-cause")
			}
			if o.ElapsedMs > worst {
				worst = o.ElapsedMs
			}
		}
		desc := map[string]interface{}{"mode": j.m, "nops": j.nops, "observed": o}
		c.OracleCheck()
		if verdicts[i].key != "" {
			c.OracleFail(verdicts[i].key, verdicts[i].why, j.m)
		}
		if j.m.Timing == "during" && !o.Reached {
			c.Count("deadline-before-stall")
		}
		if o.Unjudged || (j.sh.selfClosing && j.m.Timing != "during") || (j.sh.failing && (j.m.Timing == "after" || j.m.Timing == "bgok")) {
			c.Evaluated(1) // the accept loop closes a finished connection itself: "closed" is not comparable with the model there
		} else if j.m.Timing != "between" && !(j.m.Timing == "during" && !o.Reached) {
			c.AddCase(fmt.Sprintf("CRun %s %s %s %s %s %s %s", core.Nat(j.nops), core.Nat(j.m.K), timingTerm(j.m.Timing),
				core.Bool(o.Returned), core.Bool(o.Err), core.Bool(o.Closed), core.Nat(opsForModel(j.m, j.nops, o))), desc)
		} else {
			c.Evaluated(1)
		}
	}
	if cleared > 0 || confirmed > 0 {
		c.Note(fmt.Sprintf("timing-based failures in the parallel phase: %d; confirmed in isolation: %d; slow under load but OK on retry: %d", len(timingIdx), confirmed, cleared))
	}
	c.Note(fmt.Sprintf("slowest return after a cancellation: %d ms (bound %d ms)", worst, baseBounds.prompt.Milliseconds()))
	return nil
}

// opsForModel: the model counts the calls of an all-propagating sequence; with
// the connection failing permanently under context.Background() the real retry
// loops may issue further (failing) calls, which the model's sequence does not
// describe, so that count is not compared there.
func opsForModel(m mode, nops int, o obs) int {
	if m.Timing == "bgerr" {
		return m.K + 1
	}
	return o.Ops
}

// assumptionProbe exercises the named assumption on real connections.
func assumptionProbe(c *core.Ctx) {
	probe := func(name string, mk func() (net.Conn, func(), error), write bool) {
		conn, cleanup, err := mk()
		if err != nil {
			c.Note("assumption probe " + name + " unavailable: " + err.Error())
			return
		}
		defer cleanup()
		done := make(chan error, 1)
		go func() {
			buf := make([]byte, 1<<20)
			var err error
			if write {
				for err == nil { // fill whatever buffering there is, then block
					_, err = conn.Write(buf)
				}
			} else {
				_, err = conn.Read(buf)
			}
			done <- err
		}()
		time.Sleep(20 * time.Millisecond)
		_ = conn.Close()
		c.OracleCheck()
		select {
		case err := <-done:
			if err == nil {
				c.OracleFail("assumption-close-unblocks", name+": blocked call returned nil after Close", nil)
			}
			c.Count("assumption-probe-ok")
		case <-time.After(2 * time.Second):
			c.OracleFail("assumption-close-unblocks", name+": Close did not unblock the blocked call (the assumption of C19 fails on this platform)", nil)
		}
	}
	pipe := func() (net.Conn, func(), error) {
		a, b := net.Pipe()
		return a, func() { _ = b.Close() }, nil
	}
	tcp := func() (net.Conn, func(), error) {
		l, err := net.Listen("tcp", "127.0.0.1:0")
		if err != nil {
			return nil, nil, err
		}
		acc := make(chan net.Conn, 1)
		go func() { cn, _ := l.Accept(); acc <- cn }()
		cn, err := net.Dial("tcp", l.Addr().String())
		if err != nil {
			_ = l.Close()
			return nil, nil, err
		}
		peer := <-acc
		return cn, func() {
			if peer != nil {
				_ = peer.Close()
			}
			_ = l.Close()
		}, nil
	}
	probe("net.Pipe read", pipe, false)
	probe("net.Pipe write", pipe, true)
	probe("tcp loopback read", tcp, false)
	probe("tcp loopback write", tcp, true)
}

func replay(raw json.RawMessage) error {
	out := os.Stdout
	quiet()
	defer func() { os.Stdout = out }()
	var m mode
	if err := json.Unmarshal(raw, &m); err != nil {
		return err
	}
	if m.Shape == "" {
		var wrap struct {
			Mode mode `json:"mode"`
		}
		if err := json.Unmarshal(raw, &wrap); err != nil || wrap.Mode.Shape == "" {
			return fmt.Errorf("not a C19 case: %s", string(raw))
		}
		m = wrap.Mode
	}
	sh := findShape(m.Shape)
	if sh == nil {
		return fmt.Errorf("unknown shape %q", m.Shape)
	}
	ref, err := runOne(sh, mode{Shape: m.Shape, Role: m.Role, Timing: "bgok"}, baseBounds.doubled().doubled())
	if err != nil {
		return err
	}
	b := baseBounds
	o, err := runOne(sh, m, b)
	for r := 0; err == nil && r < 3; r++ {
		if k, _ := judge(sh, m, ref.Ops, o, b); !timingKey[k] {
			break
		}
		b = b.doubled()
		o, err = runOne(sh, m, b)
	}
	if err != nil {
		return err
	}
	js, _ := json.Marshal(o)
	fmt.Fprintln(out, "observed:", string(js))
	if key, why := judge(sh, m, ref.Ops, o, b); key != "" {
		return fmt.Errorf("%s: %s", key, why)
	}
	return nil
}

var _ = sort.Strings

func main() { core.MainWithFacts("C19", gen, replay, factsC19) }
