// facts: translate the context/IO structure of /repo's stream, message and
// security packages into coq/gen/FactsC19.v (plain data). Three lists:
//
//	raw_io    every call that touches a connection-like object directly
//	          (Read/Write on net.Conn / io.Reader / io.Writer / *tls.Conn, io.ReadFull ...)
//	io_sites  every call of a function that (transitively) reaches the stream
//	          primitives readWithContext / writeWithContext, with the kind of
//	          expression supplying its context and what happens to its error
//	ctx_inits every composite literal that stores a context in a struct field
//
// The obligations over these lists are stated and checked in coq/Proofs/C19.v.
package main

import (
	"fmt"
	"go/ast"
	"go/token"
	"go/types"
	"os"
	"sort"
	"strings"
)

var c19Pkgs = []string{"stream", "message", "security", "server", "client", "ccb"}

// corePkgs: the packages whose every call site must also handle its error in an
// accepted way; in the caller packages (server, client, ccb) the obligation is on
// the context that is handed down.
var corePkgs = map[string]bool{"stream": true, "message": true, "security": true}

type fn struct {
	key     string // e.g. stream.Stream.readWithContext
	pkg     *loadedPkg
	file    string
	decl    *ast.FuncDecl
	calls   []*site
	parents map[ast.Node]ast.Node
	ioReach bool
}

type site struct {
	f       *fn
	call    *ast.CallExpr
	callee  string // key of the resolved callee ("" if unknown / external)
	ext     string // full name for external callees
	ord     int
	ctxKind string
	errKind string
}

func shortKey(o *types.Func) string {
	if o == nil || o.Pkg() == nil {
		return ""
	}
	p := o.Pkg().Path()
	if !strings.HasPrefix(p, modPath+"/") {
		return ""
	}
	p = strings.TrimPrefix(p, modPath+"/")
	sig := o.Type().(*types.Signature)
	if r := sig.Recv(); r != nil {
		t := r.Type()
		if pt, ok := t.(*types.Pointer); ok {
			t = pt.Elem()
		}
		if n, ok := t.(*types.Named); ok {
			return p + "." + n.Obj().Name() + "." + o.Name()
		}
		return p + ".?." + o.Name()
	}
	return p + "." + o.Name()
}

func calleeOf(info *types.Info, call *ast.CallExpr) *types.Func {
	var id *ast.Ident
	switch f := ast.Unparen(call.Fun).(type) {
	case *ast.Ident:
		id = f
	case *ast.SelectorExpr:
		id = f.Sel
	default:
		return nil
	}
	if o, ok := info.Uses[id].(*types.Func); ok {
		return o
	}
	return nil
}

func isIfaceRecv(o *types.Func) bool {
	sig := o.Type().(*types.Signature)
	if r := sig.Recv(); r != nil {
		_, ok := r.Type().Underlying().(*types.Interface)
		return ok
	}
	return false
}

func isCtxType(t types.Type) bool { return t != nil && t.String() == "context.Context" }
func isErrType(t types.Type) bool { return t != nil && t.String() == "error" }

func lastResultIsErr(sig *types.Signature) bool {
	r := sig.Results()
	return r.Len() > 0 && isErrType(r.At(r.Len()-1).Type())
}

func buildParents(root ast.Node) map[ast.Node]ast.Node {
	par := map[ast.Node]ast.Node{}
	var stack []ast.Node
	ast.Inspect(root, func(n ast.Node) bool {
		if n == nil {
			stack = stack[:len(stack)-1]
			return true
		}
		if len(stack) > 0 {
			par[n] = stack[len(stack)-1]
		}
		stack = append(stack, n)
		return true
	})
	return par
}

type analysis struct {
	fset  *token.FileSet
	pkgs  map[string]*loadedPkg
	fns   map[string]*fn
	order []string
	byNm  map[string][]string // method name -> keys (for interface dispatch)
}

const (
	primRead  = "stream.Stream.readWithContext"
	primWrite = "stream.Stream.writeWithContext"
)

func analyse(subs []string) (*analysis, error) {
	a := &analysis{fset: token.NewFileSet(), fns: map[string]*fn{}, byNm: map[string][]string{}}
	pk, err := loadPkgs(a.fset, subs)
	if err != nil {
		return nil, err
	}
	a.pkgs = pk
	for _, s := range subs {
		p := pk[s]
		for i, file := range p.Files {
			for _, d := range file.Decls {
				fd, ok := d.(*ast.FuncDecl)
				if !ok || fd.Body == nil {
					continue
				}
				o, _ := p.Info.Defs[fd.Name].(*types.Func)
				if o == nil {
					continue
				}
				k := shortKey(o)
				f := &fn{key: k, pkg: p, file: p.Names[i], decl: fd, parents: buildParents(fd)}
				a.fns[k] = f
				a.order = append(a.order, k)
				if fd.Recv != nil {
					a.byNm[fd.Name.Name] = append(a.byNm[fd.Name.Name], k)
				}
			}
		}
	}
	sort.Strings(a.order)
	// call sites
	for _, k := range a.order {
		f := a.fns[k]
		ast.Inspect(f.decl.Body, func(n ast.Node) bool {
			call, ok := n.(*ast.CallExpr)
			if !ok {
				return true
			}
			o := calleeOf(f.pkg.Info, call)
			if o == nil {
				return true
			}
			s := &site{f: f, call: call, callee: shortKey(o)}
			if s.callee == "" {
				s.ext = o.FullName()
			}
			f.calls = append(f.calls, s)
			return true
		})
	}
	// reachability of the primitives
	for _, p := range []string{primRead, primWrite} {
		if a.fns[p] == nil {
			return nil, fmt.Errorf("primitive %s not found in the source", p)
		}
	}
	reach := map[string]bool{primRead: true, primWrite: true}
	for changed := true; changed; {
		changed = false
		for _, k := range a.order {
			if reach[k] {
				continue
			}
			for _, s := range a.fns[k].calls {
				for _, t := range a.targets(s) {
					if reach[t] {
						reach[k] = true
						changed = true
					}
				}
			}
		}
	}
	for k := range reach {
		a.fns[k].ioReach = true
	}
	return a, nil
}

// targets resolves a call site to analysed functions: the static callee, or,
// for a call through an interface (message.StreamInterface), every analysed
// method of the same name.
func (a *analysis) targets(s *site) []string {
	if s.callee == "" {
		return nil
	}
	if _, ok := a.fns[s.callee]; ok {
		return []string{s.callee}
	}
	o := calleeOf(s.f.pkg.Info, s.call)
	if o != nil && isIfaceRecv(o) {
		return a.byNm[o.Name()]
	}
	// method promoted / declared in a package analysed from export data only
	return nil
}

func (a *analysis) reaches(s *site) bool {
	for _, t := range a.targets(s) {
		if a.fns[t].ioReach {
			return true
		}
	}
	return false
}

// ---- context argument ------------------------------------------------------

func (a *analysis) enclosingFuncs(f *fn, n ast.Node) []ast.Node {
	var out []ast.Node
	for p := f.parents[n]; p != nil; p = f.parents[p] {
		switch p.(type) {
		case *ast.FuncLit, *ast.FuncDecl:
			out = append(out, p)
		}
	}
	return out
}

func funcType(n ast.Node) *ast.FuncType {
	switch v := n.(type) {
	case *ast.FuncLit:
		return v.Type
	case *ast.FuncDecl:
		return v.Type
	}
	return nil
}

func (a *analysis) ctxParamObjs(f *fn, n ast.Node) map[types.Object]bool {
	res := map[types.Object]bool{}
	for _, e := range a.enclosingFuncs(f, n) {
		ft := funcType(e)
		if ft.Params == nil {
			continue
		}
		for _, fld := range ft.Params.List {
			for _, nm := range fld.Names {
				if o := f.pkg.Info.Defs[nm]; o != nil && isCtxType(o.Type()) {
					res[o] = true
				}
			}
		}
	}
	return res
}

// definingRHS finds, in f, the expression a local variable was defined from.
func definingRHS(f *fn, obj types.Object) ast.Expr {
	var rhs ast.Expr
	ast.Inspect(f.decl, func(n ast.Node) bool {
		as, ok := n.(*ast.AssignStmt)
		if !ok {
			return true
		}
		for i, l := range as.Lhs {
			id, ok := l.(*ast.Ident)
			if !ok || f.pkg.Info.Defs[id] != obj {
				continue
			}
			if len(as.Rhs) == len(as.Lhs) {
				rhs = as.Rhs[i]
			} else if len(as.Rhs) == 1 {
				rhs = as.Rhs[0]
			}
		}
		return true
	})
	return rhs
}

func extName(info *types.Info, call *ast.CallExpr) string {
	if o := calleeOf(info, call); o != nil {
		return o.FullName()
	}
	return ""
}

func (a *analysis) classifyCtxExpr(f *fn, at ast.Node, e ast.Expr, depth int) string {
	params := a.ctxParamObjs(f, at)
	switch v := ast.Unparen(e).(type) {
	case *ast.Ident:
		o := f.pkg.Info.Uses[v]
		if o == nil {
			return "CtxOther"
		}
		if depth == 0 {
			// the variable may have been REASSIGNED (`ctx = context.WithoutCancel(ctx)`): flow-insensitively,
			// any assignment of something that is not (derived from) the caller's context taints every use
			for _, rhs := range reassignedRHS(f, o) {
				switch k := a.classifyCtxExpr(f, at, rhs, depth+1); k {
				case "CtxParam", "CtxDerived":
				default:
					return k
				}
			}
		}
		if params[o] {
			return "CtxParam"
		}
		if depth > 4 {
			return "CtxOther"
		}
		if rhs := definingRHS(f, o); rhs != nil {
			if c, ok := ast.Unparen(rhs).(*ast.CallExpr); ok {
				switch extName(f.pkg.Info, c) {
				case "context.WithCancel", "context.WithTimeout", "context.WithDeadline", "context.WithValue",
					"context.WithCancelCause", "context.WithTimeoutCause", "context.WithDeadlineCause":
					if len(c.Args) > 0 {
						switch a.classifyCtxExpr(f, at, c.Args[0], depth+1) {
						case "CtxParam", "CtxDerived":
							return "CtxDerived"
						case "(CtxBackground true)", "(CtxBackground false)":
							return a.background(f, at)
						}
					}
				case "context.Background", "context.TODO", "context.WithoutCancel":
					return a.background(f, at)
				}
			}
		}
		return "CtxOther"
	case *ast.SelectorExpr:
		if sel, ok := f.pkg.Info.Selections[v]; ok && sel.Kind() == types.FieldVal && isCtxType(sel.Type()) {
			return "(CtxField " + coqStr(fieldKey(sel)) + ")"
		}
		return "CtxOther"
	case *ast.CallExpr:
		switch extName(f.pkg.Info, v) {
		case "context.Background", "context.TODO", "context.WithoutCancel":
			return a.background(f, at)
		case "context.WithCancel", "context.WithTimeout", "context.WithDeadline", "context.WithValue",
			"context.WithCancelCause", "context.WithTimeoutCause", "context.WithDeadlineCause":
			if len(v.Args) > 0 && depth <= 4 {
				switch k := a.classifyCtxExpr(f, at, v.Args[0], depth+1); k {
				case "CtxParam", "CtxDerived":
					return "CtxDerived"
				default:
					return k
				}
			}
		}
		return "CtxOther"
	}
	return "CtxOther"
}

// reassignedRHS: right-hand sides of plain assignments (`x = ...`, `x, y = f()`) to obj.
func reassignedRHS(f *fn, obj types.Object) []ast.Expr {
	var out []ast.Expr
	ast.Inspect(f.decl, func(n ast.Node) bool {
		as, ok := n.(*ast.AssignStmt)
		if !ok || as.Tok != token.ASSIGN {
			return true
		}
		for i, l := range as.Lhs {
			id, ok := l.(*ast.Ident)
			if !ok || f.pkg.Info.Uses[id] != obj {
				continue
			}
			if len(as.Rhs) == len(as.Lhs) {
				out = append(out, as.Rhs[i])
			} else if len(as.Rhs) == 1 {
				out = append(out, as.Rhs[0])
			}
		}
		return true
	})
	return out
}

// ctxSubst: every call of context.Background / TODO / WithoutCancel in the analysed
// packages, with whether a context is in scope there (a parameter of an enclosing function).
type ctxSubst struct {
	fn, callee string
	hasCtx     bool
}

func (a *analysis) ctxSubsts() []ctxSubst {
	var out []ctxSubst
	for _, k := range a.order {
		f := a.fns[k]
		ast.Inspect(f.decl.Body, func(n ast.Node) bool {
			c, ok := n.(*ast.CallExpr)
			if !ok {
				return true
			}
			switch nm := extName(f.pkg.Info, c); nm {
			case "context.Background", "context.TODO", "context.WithoutCancel":
				out = append(out, ctxSubst{k, nm, len(a.ctxParamObjs(f, c)) > 0})
			}
			return true
		})
	}
	return out
}

func (a *analysis) background(f *fn, at ast.Node) string {
	if len(a.ctxParamObjs(f, at)) > 0 {
		return "(CtxBackground true)"
	}
	return "(CtxBackground false)"
}

func fieldKey(sel *types.Selection) string {
	t := sel.Recv()
	if p, ok := t.(*types.Pointer); ok {
		t = p.Elem()
	}
	name := "?"
	if n, ok := t.(*types.Named); ok {
		name = n.Obj().Name()
	}
	return name + "." + sel.Obj().Name()
}

func (a *analysis) ctxKind(s *site) string {
	for _, arg := range s.call.Args {
		if tv, ok := s.f.pkg.Info.Types[arg]; ok && isCtxType(tv.Type) {
			return a.classifyCtxExpr(s.f, s.call, arg, 0)
		}
	}
	return "CtxNone"
}

// ---- error handling --------------------------------------------------------

func isNilIdent(e ast.Expr) bool {
	id, ok := ast.Unparen(e).(*ast.Ident)
	return ok && id.Name == "nil"
}

func mentions(n ast.Node, name string) bool {
	found := false
	ast.Inspect(n, func(x ast.Node) bool {
		if id, ok := x.(*ast.Ident); ok && id.Name == name {
			found = true
		}
		return !found
	})
	return found
}

// condIsErrNotNil: `<name> != nil`
func condIs(e ast.Expr, name string, op token.Token) bool {
	be, ok := ast.Unparen(e).(*ast.BinaryExpr)
	if !ok || be.Op != op {
		return false
	}
	id, ok := ast.Unparen(be.X).(*ast.Ident)
	return ok && id.Name == name && isNilIdent(be.Y)
}

func (a *analysis) nearestFunc(f *fn, n ast.Node) ast.Node {
	fs := a.enclosingFuncs(f, n)
	if len(fs) == 0 {
		return f.decl
	}
	return fs[0]
}

func (a *analysis) funcHasErrResult(f *fn, fnNode ast.Node) (hasResults, errLast bool) {
	ft := funcType(fnNode)
	if ft.Results == nil || len(ft.Results.List) == 0 {
		return false, false
	}
	last := ft.Results.List[len(ft.Results.List)-1]
	tv := f.pkg.Info.Types[last.Type]
	return true, isErrType(tv.Type)
}

func funcBody(n ast.Node) *ast.BlockStmt {
	switch v := n.(type) {
	case *ast.FuncLit:
		return v.Body
	case *ast.FuncDecl:
		return v.Body
	}
	return nil
}

func (a *analysis) returnsNonNilErr(f *fn, r *ast.ReturnStmt, fnNode ast.Node) bool {
	_, errLast := a.funcHasErrResult(f, fnNode)
	if !errLast || len(r.Results) == 0 {
		return false
	}
	return !isNilIdent(r.Results[len(r.Results)-1])
}

func (a *analysis) inLoop(f *fn, n ast.Node) ast.Node {
	for p := f.parents[n]; p != nil; p = f.parents[p] {
		switch p.(type) {
		case *ast.ForStmt, *ast.RangeStmt:
			return p
		case *ast.FuncLit, *ast.FuncDecl:
			return nil
		}
	}
	return nil
}

// tailErr: from statement n (not in a loop) to the end of the function, every
// return has a non-nil error and the function's final statement is such a return.
func (a *analysis) tailErr(f *fn, n ast.Node) bool {
	fnNode := a.nearestFunc(f, n)
	body := funcBody(fnNode)
	if body == nil || len(body.List) == 0 {
		return false
	}
	last, ok := body.List[len(body.List)-1].(*ast.ReturnStmt)
	if !ok || !a.returnsNonNilErr(f, last, fnNode) {
		return false
	}
	ok = true
	ast.Inspect(body, func(x ast.Node) bool {
		if _, isLit := x.(*ast.FuncLit); isLit && x != fnNode {
			return false
		}
		if r, isRet := x.(*ast.ReturnStmt); isRet && r.Pos() > n.End() {
			if !a.returnsNonNilErr(f, r, fnNode) {
				ok = false
			}
		}
		return true
	})
	return ok
}

func hasBreakOf(loop ast.Node) bool {
	found := false
	var walk func(n ast.Node, depth int)
	walk = func(n ast.Node, depth int) {
		ast.Inspect(n, func(x ast.Node) bool {
			if x == nil || found {
				return false
			}
			switch v := x.(type) {
			case *ast.FuncLit:
				return false
			case *ast.ForStmt, *ast.RangeStmt, *ast.SwitchStmt, *ast.TypeSwitchStmt, *ast.SelectStmt:
				if x != n {
					// breaks inside bind to the inner statement unless labelled
					ast.Inspect(x, func(y ast.Node) bool {
						if b, ok := y.(*ast.BranchStmt); ok && b.Tok == token.BREAK && b.Label != nil {
							found = true
						}
						return !found
					})
					return false
				}
			case *ast.BranchStmt:
				if v.Tok == token.BREAK || v.Tok == token.GOTO {
					found = true
				}
			}
			return true
		})
	}
	walk(loop, 0)
	return found
}

func loopBody(loop ast.Node) *ast.BlockStmt {
	switch v := loop.(type) {
	case *ast.ForStmt:
		return v.Body
	case *ast.RangeStmt:
		return v.Body
	}
	return nil
}

// retryFlags for `continue` after a swallowed error inside loop:
// head: the first I/O-reaching call of the loop body sits in a top-level
// statement of that body and propagates its error;
// exit: the loop cannot be left except by return (for{} without break), or
// everything after it returns a non-nil error.
func (a *analysis) retryFlags(f *fn, loop ast.Node, visiting map[*site]bool) (head, exit bool) {
	body := loopBody(loop)
	var first *site
	for _, s := range f.calls {
		if s.call.Pos() >= body.Pos() && s.call.End() <= body.End() && a.reaches(s) {
			if first == nil || s.call.Pos() < first.call.Pos() {
				first = s
			}
		}
	}
	if first != nil && !visiting[first] {
		// top-level statement of the loop body?
		var st ast.Node = first.call
		for f.parents[st] != nil && f.parents[st] != ast.Node(body) {
			st = f.parents[st]
		}
		topLevel := false
		for _, x := range body.List {
			if ast.Node(x) == st {
				topLevel = true
			}
		}
		k := a.errKindOf(first, visiting)
		head = topLevel && (k == "EPropagate" || k == "ETail" || k == "ELater")
	}
	if fs, ok := loop.(*ast.ForStmt); ok && fs.Cond == nil && !hasBreakOf(loop) {
		exit = true
	} else {
		exit = a.tailErr(f, loop)
	}
	return
}

func coqBool(b bool) string {
	if b {
		return "true"
	}
	return "false"
}

// condOK: the handler condition fires on every I/O error: `ev != nil`,
// `ev != io.EOF` (an I/O failure is never the bare io.EOF: the stream wraps it),
// or a disjunction containing one of these.
func condOK(e ast.Expr, ev string) bool {
	e = ast.Unparen(e)
	if be, ok := e.(*ast.BinaryExpr); ok {
		if be.Op == token.LOR {
			return condOK(be.X, ev) || condOK(be.Y, ev)
		}
		if be.Op == token.NEQ {
			id, ok := ast.Unparen(be.X).(*ast.Ident)
			if ok && id.Name == ev {
				if isNilIdent(be.Y) {
					return true
				}
				if sel, ok := ast.Unparen(be.Y).(*ast.SelectorExpr); ok && sel.Sel.Name == "EOF" {
					return true
				}
			}
		}
	}
	return false
}

func okKind(k string) bool {
	switch k {
	case "EPropagate", "ETail", "ELater", "EVoidAbort", "(ESwallowRetry true true)", "(ESwallowNext true)", "(EVoidCall true)":
		return true
	}
	return false
}

func rootIdent(e ast.Expr) string {
	for {
		switch v := ast.Unparen(e).(type) {
		case *ast.SelectorExpr:
			e = v.X
		case *ast.Ident:
			return v.Name
		default:
			return ""
		}
	}
}

// sitesIn lists the I/O-reaching call sites of f inside node n, in source order.
func (a *analysis) sitesIn(f *fn, n ast.Node) []*site {
	var out []*site
	for _, s := range f.calls {
		if s.call.Pos() >= n.Pos() && s.call.End() <= n.End() && a.reaches(s) {
			out = append(out, s)
		}
	}
	sort.Slice(out, func(i, j int) bool { return out[i].call.Pos() < out[j].call.Pos() })
	return out
}

// nextOK decides what follows a swallowed error on the fall-through path after
// statement cur: the next statement that does I/O must itself deal with its
// error acceptably (under a cancelled context it fails at once without
// touching the connection), or the path must end in a non-nil error return.
// handler is the node whose identifiers a later sticky check `if X != nil
// { return X }` must mention (the error was recorded there).
func (a *analysis) nextOK(f *fn, cur ast.Node, handler ast.Node, visiting map[*site]bool) bool {
	fnNode := a.nearestFunc(f, cur)
	for depth := 0; depth < 32; depth++ {
		par := f.parents[cur]
		var list []ast.Stmt
		switch p := par.(type) {
		case *ast.BlockStmt:
			list = p.List
		case *ast.CaseClause:
			list = p.Body
		case *ast.IfStmt:
			cur = p
			continue
		default:
			return false
		}
		idx := -1
		for i, st := range list {
			if ast.Node(st) == cur {
				idx = i
			}
		}
		if idx < 0 {
			return false
		}
		for _, st := range list[idx+1:] {
			if r, ok := st.(*ast.ReturnStmt); ok {
				if ss := a.sitesIn(f, r); len(ss) > 0 {
					return true // `return call(ctx, ...)`: tail propagation
				}
				return a.returnsNonNilErr(f, r, fnNode)
			}
			if ss := a.sitesIn(f, st); len(ss) > 0 {
				if visiting[ss[0]] {
					return false
				}
				return okKind(a.errKindOf(ss[0], visiting))
			}
			// nested returns without I/O: a nil return would lose the error
			bad, sticky := false, false
			ast.Inspect(st, func(x ast.Node) bool {
				if _, ok := x.(*ast.FuncLit); ok {
					return false
				}
				if r, ok := x.(*ast.ReturnStmt); ok {
					if !a.returnsNonNilErr(f, r, fnNode) {
						bad = true
					}
				}
				return true
			})
			if bad {
				return false
			}
			if is, ok := st.(*ast.IfStmt); ok && is.Init == nil && len(is.Body.List) == 1 {
				if be, ok := ast.Unparen(is.Cond).(*ast.BinaryExpr); ok && be.Op == token.NEQ && isNilIdent(be.Y) {
					if r, ok := is.Body.List[0].(*ast.ReturnStmt); ok && len(r.Results) > 0 {
						x := exprText(be.X)
						if x != "?" && exprText(r.Results[len(r.Results)-1]) == x && handler != nil && mentions(handler, rootIdent(be.X)) {
							sticky = true
						}
					}
				}
			}
			if sticky {
				return true
			}
		}
		// end of this block: continue after the enclosing statement
		switch gp := f.parents[par].(type) {
		case *ast.FuncDecl, *ast.FuncLit:
			hasRes, _ := a.funcHasErrResult(f, fnNode)
			return !hasRes // a void function simply ends; its call site is checked (EVoidCall)
		case *ast.ForStmt, *ast.RangeStmt:
			return false
		case nil:
			return false
		default:
			_ = gp
			cur = par
		}
	}
	return false
}

func exprText(e ast.Expr) string {
	switch v := ast.Unparen(e).(type) {
	case *ast.Ident:
		return v.Name
	case *ast.SelectorExpr:
		return exprText(v.X) + "." + v.Sel.Name
	}
	return "?"
}

func (a *analysis) classifyHandler(s *site, body *ast.BlockStmt, ifs *ast.IfStmt, visiting map[*site]bool) string {
	f := s.f
	fnNode := a.nearestFunc(f, s.call)
	if len(body.List) > 0 {
		switch last := body.List[len(body.List)-1].(type) {
		case *ast.ReturnStmt:
			hasRes, errLast := a.funcHasErrResult(f, fnNode)
			if !hasRes {
				return "EVoidAbort"
			}
			if errLast && a.returnsNonNilErr(f, last, fnNode) {
				return "EPropagate"
			}
			return "ESwallowReturnNil"
		case *ast.BranchStmt:
			if last.Tok == token.CONTINUE {
				if loop := a.inLoop(f, s.call); loop != nil {
					h, e := a.retryFlags(f, loop, visiting)
					return "(ESwallowRetry " + coqBool(h) + " " + coqBool(e) + ")"
				}
			}
			if last.Tok == token.BREAK {
				if loop := a.inLoop(f, s.call); loop != nil {
					return "(ESwallowNext " + coqBool(a.nextOK(f, loop, body, visiting)) + ")"
				}
			}
			return "EUnknown"
		}
	}
	// handler that records / logs the error and falls through
	if a.inLoop(f, s.call) != nil {
		return "EUnknown"
	}
	var top ast.Node = ifs
	return "(ESwallowNext " + coqBool(a.nextOK(f, top, body, visiting)) + ")"
}

func (a *analysis) stmtOf(f *fn, n ast.Node) ast.Node {
	for p := n; p != nil; p = f.parents[p] {
		if _, ok := p.(ast.Stmt); ok {
			return p
		}
	}
	return nil
}

// dropped: `_ = call(...)` or a bare call statement. Acceptable only as a
// best-effort courtesy on a path that is already failing: the statements that
// follow in the block are further dropped calls or I/O-free statements, ending
// in a non-nil error return.
func (a *analysis) dropped(s *site, visiting map[*site]bool) string {
	f := s.f
	st := a.stmtOf(f, s.call)
	if st == nil || a.inLoop(f, s.call) != nil {
		return "EDropped"
	}
	blk, ok := f.parents[st].(*ast.BlockStmt)
	if !ok {
		return "EDropped"
	}
	fnNode := a.nearestFunc(f, s.call)
	after := false
	for _, x := range blk.List {
		if ast.Node(x) == st {
			after = true
			continue
		}
		if !after {
			continue
		}
		if r, ok := x.(*ast.ReturnStmt); ok {
			if len(a.sitesIn(f, r)) == 0 && a.returnsNonNilErr(f, r, fnNode) {
				return "(ESwallowNext true)"
			}
			return "EDropped"
		}
		for _, other := range a.sitesIn(f, x) {
			par := f.parents[other.call]
			dropStmt := false
			switch p := par.(type) {
			case *ast.ExprStmt:
				dropStmt = true
			case *ast.AssignStmt:
				dropStmt = true
				for _, l := range p.Lhs {
					if id, ok := l.(*ast.Ident); !ok || id.Name != "_" {
						dropStmt = false
					}
				}
			}
			if !dropStmt {
				return "EDropped"
			}
		}
	}
	return "EDropped"
}

func (a *analysis) errKindOf(s *site, visiting map[*site]bool) string {
	if visiting == nil {
		visiting = map[*site]bool{}
	}
	visiting[s] = true
	defer delete(visiting, s)
	f := s.f
	o := calleeOf(f.pkg.Info, s.call)
	sig := o.Type().(*types.Signature)
	par := f.parents[s.call]
	for {
		if pe, ok := par.(*ast.ParenExpr); ok {
			par = f.parents[pe]
			continue
		}
		break
	}
	if !lastResultIsErr(sig) {
		// a callee without an error result: what follows the call must give up
		if es, ok := par.(*ast.ExprStmt); ok {
			return "(EVoidCall " + coqBool(a.inLoop(f, s.call) == nil && a.nextOK(f, es, nil, visiting)) + ")"
		}
		return "ENoErr"
	}
	switch p := par.(type) {
	case *ast.ReturnStmt:
		return "ETail"
	case *ast.ExprStmt:
		return a.dropped(s, visiting)
	case *ast.DeferStmt, *ast.GoStmt:
		return "EDropped"
	case *ast.AssignStmt:
		if len(p.Rhs) != 1 {
			return "EUnknown"
		}
		lhs, ok := p.Lhs[len(p.Lhs)-1].(*ast.Ident)
		if !ok {
			return "EUnknown"
		}
		if lhs.Name == "_" {
			return a.dropped(s, visiting)
		}
		ev := lhs.Name
		switch gp := f.parents[p].(type) {
		case *ast.IfStmt:
			if gp.Init == ast.Stmt(p) && condOK(gp.Cond, ev) {
				return a.classifyHandler(s, gp.Body, gp, visiting)
			}
			return "EUnknown"
		case *ast.BlockStmt:
			return a.afterAssign(s, gp.List, p, ev, visiting)
		case *ast.CaseClause:
			return a.afterAssign(s, gp.Body, p, ev, visiting)
		}
		return "EUnknown"
	}
	return "EUnknown"
}

func (a *analysis) afterAssign(s *site, list []ast.Stmt, as *ast.AssignStmt, ev string, visiting map[*site]bool) string {
	return a.afterStmt(s, list, as, ev, visiting)
}

// afterStmt follows the error variable ev through the statements after `from`.
func (a *analysis) afterStmt(s *site, list []ast.Stmt, from ast.Node, ev string, visiting map[*site]bool) string {
	f := s.f
	idx := -1
	for i, st := range list {
		if ast.Node(st) == from {
			idx = i
		}
	}
	if idx < 0 {
		return "EUnknown"
	}
	for _, st := range list[idx+1:] {
		switch v := st.(type) {
		case *ast.IfStmt:
			if v.Init == nil && condOK(v.Cond, ev) {
				return a.classifyHandler(s, v.Body, v, visiting)
			}
			if v.Init == nil && condIs(v.Cond, ev, token.EQL) {
				continue // `if err == nil { err = next() }` keeps err flowing
			}
			if mentions(v, ev) {
				return "EUnknown"
			}
		case *ast.ReturnStmt:
			if len(v.Results) > 0 && mentions(v.Results[len(v.Results)-1], ev) {
				return "ELater"
			}
			return "EUnknown"
		case *ast.ExprStmt, *ast.DeferStmt:
			continue // logging etc. does not consume the error
		case *ast.AssignStmt:
			for _, l := range v.Lhs {
				if id, ok := l.(*ast.Ident); ok && id.Name == ev {
					return "EUnknown"
				}
			}
		default:
			if mentions(v, ev) {
				return "EUnknown"
			}
		}
	}
	// the assignment ended a branch of an if/else: the check follows the if statement
	if len(list) > 0 {
		var blk ast.Node = f.parents[list[0]]
		if ifs, ok := f.parents[blk].(*ast.IfStmt); ok {
			var top ast.Node = ifs
			for {
				p, ok := f.parents[top].(*ast.IfStmt)
				if !ok {
					break
				}
				top = p
			}
			switch gp := f.parents[top].(type) {
			case *ast.BlockStmt:
				return a.afterStmt(s, gp.List, top, ev, visiting)
			case *ast.CaseClause:
				return a.afterStmt(s, gp.Body, top, ev, visiting)
			}
		}
	}
	// fell off the block: accept only a function whose final statement returns the variable
	fnNode := a.nearestFunc(f, s.call)
	if b := funcBody(fnNode); b != nil && len(b.List) > 0 {
		if r, ok := b.List[len(b.List)-1].(*ast.ReturnStmt); ok && len(r.Results) > 0 && mentions(r.Results[len(r.Results)-1], ev) {
			if a.inLoop(f, s.call) == nil {
				return "ELater"
			}
		}
	}
	return "EUnknown"
}

// ---- raw connection I/O ----------------------------------------------------

var connIfaces = map[string]bool{
	"net.Conn": true, "io.Reader": true, "io.Writer": true, "io.ReadWriter": true,
	"io.ReadCloser": true, "io.WriteCloser": true, "io.ReadWriteCloser": true,
	"*net.TCPConn": true, "*net.UnixConn": true, "net.PacketConn": true,
}

var ioHelpers = map[string]int{ // function -> index of the reader/writer argument
	"io.ReadFull": 0, "io.ReadAtLeast": 0, "io.ReadAll": 0, "io.Copy": -1, "io.CopyN": -1, "io.CopyBuffer": -1,
	"io.WriteString": 0, "bufio.NewReader": 0, "bufio.NewWriter": 0, "bufio.NewReaderSize": 0, "bufio.NewReadWriter": -1,
	"fmt.Fprintf": 0, "fmt.Fprint": 0, "fmt.Fprintln": 0, "fmt.Fscan": 0, "encoding/binary.Read": 0, "encoding/binary.Write": 0,
}

var rwMethods = map[string]bool{"Read": true, "Write": true, "ReadFrom": true, "WriteTo": true, "ReadByte": true, "WriteByte": true, "WriteString": true,
	"Handshake": true, "HandshakeContext": true, "CloseWrite": true}

// classOf says what kind of object an expression used as reader/writer is.
func (a *analysis) classOf(f *fn, e ast.Expr) string {
	tv, ok := f.pkg.Info.Types[e]
	if !ok || tv.Type == nil {
		return "RUnknown"
	}
	ts := tv.Type.String()
	if ts == "*crypto/tls.Conn" {
		return "RTLS"
	}
	if _, isIface := tv.Type.Underlying().(*types.Interface); !isIface && !connIfaces[ts] {
		// concrete non-connection type: bytes.Buffer, os.File, hash state ...
		if n, ok := tv.Type.(*types.Pointer); ok {
			if nn, ok := n.Elem().(*types.Named); ok && nn.Obj().Pkg() != nil && nn.Obj().Pkg().Path() == modPath+"/security" && nn.Obj().Name() == "CEDARTLSConnection" {
				return "RTLS"
			}
		}
		return "RLocal"
	}
	if !connIfaces[ts] {
		// other interfaces (hash.Hash, cipher.AEAD ...) are not connections
		if ts == "hash.Hash" {
			return "RLocal"
		}
	}
	// interface typed: a local variable built by a KDF is not a connection
	if id, ok := ast.Unparen(e).(*ast.Ident); ok {
		if o := f.pkg.Info.Uses[id]; o != nil {
			if rhs := definingRHS(f, o); rhs != nil {
				if c, ok := ast.Unparen(rhs).(*ast.CallExpr); ok {
					n := extName(f.pkg.Info, c)
					if strings.HasPrefix(n, "golang.org/x/crypto/hkdf.") || strings.HasPrefix(n, "crypto/hkdf.") {
						return "RLocal"
					}
				}
			}
		}
	}
	if connIfaces[ts] {
		return "RConn"
	}
	return "RLocal"
}

type rawSite struct{ fn, callee, class string }

func (a *analysis) rawIO() []rawSite {
	var out []rawSite
	for _, k := range a.order {
		f := a.fns[k]
		for _, s := range f.calls {
			o := calleeOf(f.pkg.Info, s.call)
			if o == nil {
				continue
			}
			sig := o.Type().(*types.Signature)
			if sig.Recv() != nil && (o.Name() == "SetDeadline" || o.Name() == "SetReadDeadline" || o.Name() == "SetWriteDeadline") {
				if sel, ok := ast.Unparen(s.call.Fun).(*ast.SelectorExpr); ok {
					if c := a.classOf(f, sel.X); c == "RConn" || c == "RTLS" || c == "RUnknown" {
						out = append(out, rawSite{k, o.Name(), "RDeadline"})
					}
				}
				continue
			}
			if sig.Recv() != nil && rwMethods[o.Name()] {
				sel, ok := ast.Unparen(s.call.Fun).(*ast.SelectorExpr)
				if !ok {
					continue
				}
				c := a.classOf(f, sel.X)
				if c == "RLocal" {
					continue
				}
				out = append(out, rawSite{k, o.Name(), c})
				continue
			}
			if idx, ok := ioHelpers[o.FullName()]; ok {
				worst := "RLocal"
				for i, arg := range s.call.Args {
					if idx >= 0 && i != idx {
						continue
					}
					if c := a.classOf(f, arg); c != "RLocal" {
						worst = c
					}
				}
				if worst != "RLocal" {
					out = append(out, rawSite{k, o.FullName(), worst})
				}
			}
		}
	}
	return out
}

// ---- context stored in struct fields --------------------------------------

type ctxInit struct{ fn, field, kind string }

func (a *analysis) ctxInits() []ctxInit {
	var out []ctxInit
	for _, k := range a.order {
		f := a.fns[k]
		ast.Inspect(f.decl.Body, func(n ast.Node) bool {
			switch v := n.(type) {
			case *ast.CompositeLit:
				tv := f.pkg.Info.Types[v]
				t := tv.Type
				nn, _ := t.(*types.Named)
				if nn == nil {
					return true
				}
				st, ok := nn.Underlying().(*types.Struct)
				if !ok {
					return true
				}
				for i := 0; i < st.NumFields(); i++ {
					if !isCtxType(st.Field(i).Type()) {
						continue
					}
					kind := "CtxOther" // field left nil
					for j, el := range v.Elts {
						if kv, ok := el.(*ast.KeyValueExpr); ok {
							if id, ok := kv.Key.(*ast.Ident); ok && id.Name == st.Field(i).Name() {
								kind = a.classifyCtxExpr(f, v, kv.Value, 0)
							}
						} else if j == i {
							kind = a.classifyCtxExpr(f, v, el, 0)
						}
					}
					out = append(out, ctxInit{k, nn.Obj().Name() + "." + st.Field(i).Name(), kind})
				}
			case *ast.AssignStmt:
				for i, l := range v.Lhs {
					sel, ok := l.(*ast.SelectorExpr)
					if !ok {
						continue
					}
					s, ok := f.pkg.Info.Selections[sel]
					if !ok || s.Kind() != types.FieldVal || !isCtxType(s.Type()) {
						continue
					}
					kind := "CtxOther"
					if len(v.Rhs) == len(v.Lhs) {
						kind = a.classifyCtxExpr(f, v, v.Rhs[i], 0)
					}
					out = append(out, ctxInit{k, fieldKey(s), kind})
				}
			}
			return true
		})
	}
	return out
}

// ---- output ---------------------------------------------------------------

func coqStr(s string) string { return `"` + strings.ReplaceAll(s, `"`, `""`) + `"` }

// sitesDump, when set (VH_C19_SITES=<file>), receives "file:line<TAB>function<TAB>callee" for
// every call site listed in the facts: used by the audit to list the blocking call
// sites that no harness shape reaches (crossed with a coverage profile).
var sitesDump *[]string

func factsC19(b *strings.Builder) error {
	if f := os.Getenv("VH_C19_SITES"); f != "" {
		var l []string
		sitesDump = &l
		defer func() { _ = os.WriteFile(f, []byte(strings.Join(l, "\n")+"\n"), 0o644) }()
	}
	a, err := analyse(c19Pkgs)
	if err != nil {
		return err
	}
	b.WriteString("(* GENERATED by harness/cmd/vh-c19 facts from /repo's current source. Do not edit. *)\n")
	b.WriteString("From Coq Require Import List String.\nFrom Cedar Require Import Model.Cancel.\nImport ListNotations.\nLocal Open Scope string_scope.\n\n")
	// primitives' shape (checked structurally, see primShape)
	for _, p := range []string{primRead, primWrite} {
		sh := primShape(a, a.fns[p])
		fmt.Fprintf(b, "Definition shape_%s : prim_shape := %s.\n", map[string]string{primRead: "read", primWrite: "write"}[p], sh)
	}
	// intern function names
	ids := map[string]int{}
	var names []string
	id := func(n string) int {
		if i, ok := ids[n]; ok {
			return i
		}
		ids[n] = len(names)
		names = append(names, n)
		return ids[n]
	}
	raws := a.rawIO()
	var rawLines, siteLines, callerLines, initLines []string
	for _, r := range raws {
		rawLines = append(rawLines, fmt.Sprintf("  mk_raw %d %s %s", id(r.fn), coqStr(r.callee), r.class))
	}
	for _, k := range a.order {
		f := a.fns[k]
		ord := 0
		sort.SliceStable(f.calls, func(i, j int) bool { return f.calls[i].call.Pos() < f.calls[j].call.Pos() })
		for _, s := range f.calls {
			if !a.reaches(s) {
				continue
			}
			s.ord = ord
			ord++
			s.ctxKind = a.ctxKind(s)
			s.errKind = a.errKindOf(s, nil)
			if sitesDump != nil {
				pos := a.fset.Position(s.call.Pos())
				*sitesDump = append(*sitesDump, fmt.Sprintf("%s:%d\t%s\t%s", pos.Filename, pos.Line, k, s.callee))
			}
			line := fmt.Sprintf("  mk_site %d %d %d %s %s (* %s -> %s *)", id(k), id(s.callee), s.ord, s.ctxKind, s.errKind, k, s.callee)
			if corePkgs[k[:strings.Index(k, ".")]] {
				siteLines = append(siteLines, line)
			} else {
				callerLines = append(callerLines, line)
			}
		}
	}
	for _, c := range a.ctxInits() {
		initLines = append(initLines, fmt.Sprintf("  mk_init %d %s %s", id(c.fn), coqStr(c.field), c.kind))
	}
	b.WriteString("\nDefinition fn_names : list string := [\n")
	for i, n := range names {
		sep := ";"
		if i == len(names)-1 {
			sep = ""
		}
		fmt.Fprintf(b, "  %s%s (* %d *)\n", coqStr(n), sep, i)
	}
	b.WriteString("].\n\nDefinition raw_io : list raw_site := [\n" + joinCoq(rawLines))
	b.WriteString("\n].\n\nDefinition io_sites : list io_site := [\n" + joinCoq(siteLines))
	b.WriteString("\n].\n\n(* call sites in the caller packages server/, client/, ccb/ *)\nDefinition caller_sites : list io_site := [\n" + joinCoq(callerLines))
	var substLines []string
	for _, c := range a.ctxSubsts() {
		substLines = append(substLines, fmt.Sprintf("  mk_subst %d %s %v", id(c.fn), coqStr(c.callee), c.hasCtx))
	}
	b.WriteString("\n].\n\n(* every context.Background / TODO / WithoutCancel call in stream, message, security, server, client, ccb *)\nDefinition ctx_substs : list ctx_subst := [\n" + joinCoq(substLines))
	b.WriteString("\n].\n\nDefinition ctx_inits : list ctx_init := [\n" + joinCoq(initLines))
	b.WriteString("\n].\n")
	return nil
}

// joinCoq joins list elements with `;`, keeping a trailing comment after the separator.
func joinCoq(lines []string) string {
	var sb strings.Builder
	for i, l := range lines {
		if i < len(lines)-1 {
			if j := strings.Index(l, " (* "); j >= 0 {
				l = l[:j] + ";" + l[j:]
			} else {
				l += ";"
			}
		}
		sb.WriteString(l)
		if i < len(lines)-1 {
			sb.WriteString("\n")
		}
	}
	return sb.String()
}

// primShape checks the statement structure of readWithContext/writeWithContext
// against the model primitive: (1) the first statement returns ctx.Err() when
// it is non-nil, (2) a `ctx.Done() == nil` fast path whose body performs the
// blocking call without a watcher, (3) `stop := context.AfterFunc(ctx, func(){ s.conn.Close() })`
// before the blocking call, (4) `if !stop() { return ctx.Err() }` right after it.
func primShape(a *analysis, f *fn) string {
	body := f.decl.Body.List
	flag := func(b bool) string { return coqBool(b) }
	src := func(n ast.Node) string {
		var sb strings.Builder
		ast.Inspect(n, func(x ast.Node) bool {
			switch v := x.(type) {
			case *ast.Ident:
				sb.WriteString(v.Name + " ")
			case *ast.BasicLit:
				sb.WriteString(v.Value + " ")
			case *ast.UnaryExpr:
				sb.WriteString(v.Op.String() + " ")
			case *ast.BinaryExpr:
				sb.WriteString(v.Op.String() + " ")
			case *ast.ReturnStmt:
				sb.WriteString("return ")
			}
			return true
		})
		return sb.String()
	}
	precheck, fast, reg, stopchk := false, false, false, false
	regIdx, blockIdx, stopIdx := -1, -1, -1
	isBlocking := func(st ast.Stmt) bool {
		hit := false
		ast.Inspect(st, func(x ast.Node) bool {
			if c, ok := x.(*ast.CallExpr); ok {
				n := extName(f.pkg.Info, c)
				if n == "io.ReadFull" || strings.HasSuffix(n, ".Write") || strings.HasSuffix(n, ".Read") {
					hit = true
				}
			}
			return true
		})
		return hit
	}
	for i, st := range body {
		switch v := st.(type) {
		case *ast.IfStmt:
			s := src(v)
			if i == 0 && strings.Contains(src(v.Cond), "ctx Err") && strings.Contains(s, "!= ") && strings.Contains(src(v.Body), "return ctx Err") {
				precheck = true
			}
			if strings.Contains(src(v.Cond), "ctx Done") && strings.Contains(src(v.Cond), "== ") && isBlocking(v.Body) && regIdx < 0 {
				fast = true
			}
			if regIdx >= 0 && blockIdx >= 0 && stopIdx < 0 && strings.HasPrefix(src(v.Cond), "! stop") && strings.Contains(src(v.Body), "return ctx Err") {
				stopchk = true
				stopIdx = i
			}
		case *ast.AssignStmt:
			if len(v.Rhs) == 1 {
				if c, ok := v.Rhs[0].(*ast.CallExpr); ok && extName(f.pkg.Info, c) == "context.AfterFunc" && len(c.Args) == 2 {
					if id, ok := c.Args[0].(*ast.Ident); ok && id.Name == "ctx" && strings.Contains(src(c.Args[1]), "conn Close") {
						reg = true
						regIdx = i
					}
				}
			}
			if regIdx >= 0 && i > regIdx && blockIdx < 0 && isBlocking(v) {
				blockIdx = i
			}
		}
	}
	ordered := regIdx >= 0 && blockIdx == regIdx+1 && stopIdx == blockIdx+1
	return fmt.Sprintf("mk_shape %s %s %s %s %s", flag(precheck), flag(fast), flag(reg), flag(stopchk), flag(ordered))
}
