package main

// Resumed handshakes: the real ClientHandshake (explicit SessionID, or the
// command map) / ServerHandshake resuming a cache entry of a given shape, against
// a scripted peer.

import (
	"fmt"
	"sync"
	"time"

	"verifharness/core"
	"verifharness/peer"

	"github.com/PelicanPlatform/classad/classad"
	"github.com/bbockelm/cedar/security"
)

type resSpec struct {
	Kind      string      `json:"kind"` // rescli | ressrv
	Cfg       peer.Policy `json:"cfg"`
	Explicit  bool        `json:"explicit,omitempty"` // client: SecurityConfig.SessionID names the session
	Key       string      `json:"key"`                // none | empty-aes | k32-aes | k32-aesgcm | k16-aes | k32-blowfish
	Authed    string      `json:"authed"`             // absent | true | false   (policy attribute Authenticated)
	Reply     string      `json:"reply,omitempty"`    // client role: what the scripted server answers
	WantReply bool        `json:"want,omitempty"`     // server role: ResumeResponse requested
}

const resSid = "verif-resumed-session-0001"

func resEntry(sp resSpec, addr string) *security.SessionEntry {
	var ki *security.KeyInfo
	mk := func(n int, proto string) *security.KeyInfo {
		b := make([]byte, n)
		for i := range b {
			b[i] = byte(17*i + 3)
		}
		return &security.KeyInfo{Data: b, Protocol: proto}
	}
	switch sp.Key {
	case "empty-aes":
		ki = mk(0, "AES")
	case "k32-aes":
		ki = mk(32, "AES")
	case "k32-aesgcm":
		ki = mk(32, "AESGCM")
	case "k16-aes":
		ki = mk(16, "AES")
	case "k32-blowfish":
		ki = mk(32, "BLOWFISH")
	}
	pol := classad.New()
	_ = pol.Set("AuthMethods", "CLAIMTOBE")
	_ = pol.Set("CryptoMethods", "AES")
	_ = pol.Set("User", "alice@verif.local")
	switch sp.Authed {
	case "true":
		_ = pol.Set("Authenticated", true)
	case "false":
		_ = pol.Set("Authenticated", false)
	}
	return security.NewSessionEntry(resSid, addr, ki, pol, time.Now().Add(time.Hour), 30*time.Minute, "")
}

func runRes(sp resSpec) obs {
	ca, sa, tap := peer.Pipe()
	var res peer.Result
	var wg sync.WaitGroup
	wg.Add(2)
	isCli := sp.Kind == "rescli"
	cfg := sp.Cfg.Config()
	cache := security.NewSessionCache()
	cfg.SessionCache = cache
	if isCli {
		cfg.PeerName = "resume-server.verif:9618"
		cache.Store(resEntry(sp, cfg.PeerName))
		if sp.Explicit {
			cfg.SessionID = resSid
		} else {
			cache.MapCommand("", cfg.PeerName, fmt.Sprintf("%d", cfg.Command), resSid)
		}
		go func() { defer wg.Done(); peer.ServeResume(sa, sp.Reply) }()
		go func() {
			defer wg.Done()
			res = peer.RunClient(ca, cfg)
			if res.Err != nil {
				ca.Close()
			}
		}()
	} else {
		cache.Store(resEntry(sp, "<peerA:1>"))
		go func() { defer wg.Done(); peer.DialResume(ca, resSid, sp.WantReply, 60007) }()
		go func() {
			defer wg.Done()
			res = peer.RunServer(sa, cfg)
			if res.Err != nil {
				sa.Close()
			}
		}()
	}
	wg.Wait()
	o := obs{Err: res.Err != nil, Hang: res.Hang, Real: res.Encrypted}
	if res.Err != nil {
		o.ErrText = res.Err.Error()
	}
	if res.Err == nil && res.Neg != nil {
		o.Auth, o.Enc, o.Meth = res.Neg.Authentication, res.Neg.Encryption, string(res.Neg.NegotiatedAuth)
		off := tap.Len(isCli)
		if err := peer.SendMarker(res.Stream, marker); err != nil {
			o.MarkerErr = true
		}
		o.Clear = tap.Contains(isCli, off, marker)
	}
	ca.Close()
	sa.Close()
	return o
}

// the property on a resumed handshake
func judgeRes(sp resSpec, o obs) (string, string) {
	if o.Hang {
		return "hang", "handshake did not terminate"
	}
	if o.Err {
		return "", ""
	}
	if o.MarkerErr {
		return "marker", "could not write on the stream after a successful resumed handshake"
	}
	if sp.Cfg.Auth == "REQUIRED" && sp.Authed != "true" && sp.Kind == "ressrv" {
		// known finding: ServerHandshake does not hold a resumed session to the
		// authenticator's (default) Authentication=REQUIRED; the dispatching server
		// enforces the resumed command's own policy on the restored outcome (C05).
		if o.Auth {
			return "resumed-report-auth", "server reported Authentication=true for a session not recorded as authenticated"
		}
		return "resumed-auth-required-server", fmt.Sprintf("ServerHandshake resumed a session recorded as Authenticated=%s although the authenticator's own Authentication=REQUIRED (reported Authentication=false)", sp.Authed)
	}
	if sp.Cfg.Auth == "REQUIRED" && sp.Authed != "true" {
		return "resumed-auth-required", fmt.Sprintf("resumed a session recorded as Authenticated=%s although own Authentication=REQUIRED", sp.Authed)
	}
	if (sp.Cfg.Enc == "REQUIRED" || sp.Cfg.Integ == "REQUIRED") && (!o.Real || o.Clear) {
		return "resumed-enc-required", fmt.Sprintf("resumed handshake succeeded with Encryption/Integrity REQUIRED on a plaintext stream (IsEncrypted=%v, cleartext=%v)", o.Real, o.Clear)
	}
	if o.Enc != o.Real || o.Real == o.Clear {
		return "resumed-report-enc", fmt.Sprintf("resumed handshake reported Encryption=%v, IsEncrypted=%v, cleartext on the wire=%v", o.Enc, o.Real, o.Clear)
	}
	if o.Auth != (sp.Authed == "true") {
		return "resumed-report-auth", fmt.Sprintf("resumed handshake reported Authentication=%v for a session recorded as Authenticated=%s", o.Auth, sp.Authed)
	}
	return "", ""
}

func ekeyTerm(k string) string {
	switch k {
	case "empty-aes":
		return "(EKEmpty true)"
	case "k32-aes", "k32-aesgcm":
		return "(EK32 true)"
	case "k16-aes":
		return "(EKBadLen true)"
	case "k32-blowfish":
		return "(EK32 false)"
	}
	return "EKNone"
}
func authedTerm(a string) string {
	switch a {
	case "true":
		return "(Some true)"
	case "false":
		return "(Some false)"
	}
	return "None"
}
func replyTerm(r string) string {
	switch r {
	case "authorized":
		return "(RReply RAuthorized)"
	case "norc":
		return "(RReply RNone)"
	case "notfound", "denied":
		return "(RReply ROther)"
	}
	return "RClosed"
}

func resTerm(sp resSpec, o obs) string {
	tail := fmt.Sprintf("%s %s %s %s", core.Bool(o.Err), core.Bool(o.Auth), core.Bool(o.Enc), core.Bool(o.Real))
	if sp.Kind == "rescli" {
		return fmt.Sprintf("(CResCli %s %s %s %s %s)", cfgTerm(sp.Cfg), ekeyTerm(sp.Key), authedTerm(sp.Authed), replyTerm(sp.Reply), tail)
	}
	return fmt.Sprintf("(CResSrv %s %s %s %s %s)", cfgTerm(sp.Cfg), ekeyTerm(sp.Key), authedTerm(sp.Authed), core.Bool(sp.WantReply), tail)
}

func genResumed(c *core.Ctx, bt *batcher, emit bool) {
	var specs []resSpec
	allKeys := []string{"none", "empty-aes", "k32-aes", "k32-aesgcm", "k16-aes", "k32-blowfish"}
	usable := []string{"k32-aes", "k32-aesgcm"}
	for _, a := range fourLevels {
		for _, e := range fourLevels {
			for _, integ := range []string{"OPTIONAL", "REQUIRED"} {
				if integ == "REQUIRED" && e != "OPTIONAL" && e != "NEVER" {
					continue
				}
				cfg := peer.Policy{Auth: a, Enc: e, Integ: integ, Methods: []string{"CLAIMTOBE"}, Ciphers: []string{"AES"}, Command: 60007}
				for _, authed := range []string{"absent", "true", "false"} {
					// client, explicitly named session: every key shape, every reply
					for _, k := range allKeys {
						for _, r := range []string{"authorized", "norc", "notfound", "denied", "close"} {
							if c.Quick() && r != "authorized" && (k != "k32-aes" || authed != "true") {
								continue
							}
							specs = append(specs, resSpec{Kind: "rescli", Cfg: cfg, Explicit: true, Key: k, Authed: authed, Reply: r})
						}
					}
					// client through the command map, server: sessions with a usable key
					// (resumption of sessions without one is C06's subject)
					for _, k := range usable {
						specs = append(specs, resSpec{Kind: "rescli", Cfg: cfg, Key: k, Authed: authed, Reply: "authorized"})
						for _, w := range []bool{true, false} {
							specs = append(specs, resSpec{Kind: "ressrv", Cfg: cfg, Key: k, Authed: authed, WantReply: w})
						}
					}
				}
			}
		}
	}
	res := make([]obs, len(specs))
	var wg sync.WaitGroup
	sem := make(chan struct{}, 8)
	for i := range specs {
		wg.Add(1)
		sem <- struct{}{}
		go func(i int) {
			defer wg.Done()
			defer func() { <-sem }()
			res[i] = runRes(specs[i])
		}(i)
	}
	wg.Wait()
	fails := map[string]int{}
	for i, sp := range specs {
		o := res[i]
		c.OracleCheck()
		if key, txt := judgeRes(sp, o); key != "" {
			fails[key]++
			if fails[key] <= 3 {
				c.OracleFail("c03-"+key, fmt.Sprintf("%s role=%s policy{auth=%s enc=%s integ=%s} entry{key=%s authenticated=%s} explicit=%v reply=%s",
					txt, sp.Kind, sp.Cfg.Auth, sp.Cfg.Enc, sp.Cfg.Integ, sp.Key, sp.Authed, sp.Explicit, sp.Reply), sp)
			}
		}
		if emit {
			bt.add(resTerm(sp, o), sp)
		} else {
			c.Evaluated(1)
		}
		if o.Err {
			c.Count(sp.Kind + " error")
		} else {
			c.Count(fmt.Sprintf("%s ok auth=%v enc=%v", sp.Kind, o.Auth, o.Real))
			c.Nontrivial(fmt.Sprint(sp))
		}
	}
	for k, n := range fails {
		c.Note(fmt.Sprintf("oracle failures %s: %d", k, n))
	}
}
