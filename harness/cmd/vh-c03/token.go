package main

// TOKEN authentication really running (the only method family that leaves a
// shared secret in the negotiation before key agreement), combined with a peer
// that omits / truncates / garbles its ECDH key: the peer is an honest cedar
// endpoint behind a relay (peer.Relay) that edits only the key attribute of the
// two security ads and copies everything else verbatim.  The endpoint under
// test ("victim") is judged by the ordinary oracle and compared with the model;
// what it was sent is read back from the tap on its side of the relay.

import (
	"crypto/ecdh"
	"encoding/base64"
	"fmt"
	"runtime"
	"sync"

	"verifharness/core"
	"verifharness/peer"
)

type tokSpec struct {
	Kind    string       `json:"kind"` // tokcli | toksrv   (which end is under test)
	Cfg     peer.Policy  `json:"cfg"`  // the victim's policy
	Other   peer.Policy  `json:"other"`
	CliEdit peer.KeyEdit `json:"cliedit,omitempty"` // what the relay does to the client's key
	SrvEdit peer.KeyEdit `json:"srvedit,omitempty"` // ... to the server's key
}

func keyClass(attr string) string {
	if attr == "" {
		return "KMissing"
	}
	raw, err := base64.StdEncoding.DecodeString(attr)
	if err != nil {
		return "KBad"
	}
	if _, err := ecdh.P256().NewPublicKey(raw); err != nil {
		return "KBad"
	}
	return "KGood"
}

type tokOut struct {
	o        obs
	cad, sad map[string]string
	rounds   []round
	ok       bool
	otherErr bool
	otherEnc bool
}

func runTok(w *peer.TokenWorld, sp tokSpec) tokOut {
	c1, r1, tapC := peer.Pipe()
	r2, s1, tapS := peer.Pipe()
	victimCli := sp.Kind == "tokcli"
	cpol, spol := sp.Cfg, sp.Other
	if !victimCli {
		cpol, spol = sp.Other, sp.Cfg
	}
	var cr, sr peer.Result
	rd := make(chan struct{})
	go func() { peer.Relay(r1, r2, sp.CliEdit, sp.SrvEdit); close(rd) }()
	var wg sync.WaitGroup
	wg.Add(2)
	go func() {
		defer wg.Done()
		sr = peer.RunServer(s1, w.Server(spol.Config()))
		if sr.Err != nil {
			s1.Close()
		}
	}()
	go func() {
		defer wg.Done()
		cr = peer.RunClient(c1, w.Client(cpol.Config()))
		if cr.Err != nil {
			c1.Close()
		}
	}()
	wg.Wait()
	res, other, tap := cr, sr, tapC
	if !victimCli {
		res, other, tap = sr, cr, tapS
	}
	var out tokOut
	out.otherErr, out.otherEnc = other.Err != nil, other.Encrypted
	o := obs{Err: res.Err != nil, Hang: res.Hang, Real: res.Encrypted}
	if res.Err != nil {
		o.ErrText = res.Err.Error()
	}
	// the handshake traffic as seen on the victim's side of the relay (before the marker)
	out.cad, out.sad, out.rounds, out.ok = walk(tap)
	if res.Err == nil && res.Neg != nil {
		o.Auth, o.Enc, o.Meth = res.Neg.Authentication, res.Neg.Encryption, string(res.Neg.NegotiatedAuth)
		off := tap.Len(victimCli)
		if err := peer.SendMarker(res.Stream, marker); err != nil {
			o.MarkerErr = true
		}
		o.Clear = tap.Contains(victimCli, off, marker)
	}
	for _, r := range out.rounds {
		name := map[int64]string{2: "CLAIMTOBE", 4: "FS", 2048: "TOKEN"}[r.Reply]
		if name != "" && (r.Res == "ok" || r.Res == "fail") {
			o.Ran = append(o.Ran, peer.Exchange{Method: name, OK: r.Res == "ok"})
		}
	}
	out.o = o
	c1.Close()
	s1.Close()
	<-rd
	return out
}

func tokTerm(sp tokSpec, t tokOut) string {
	var replies, masks []string
	for _, r := range t.rounds {
		if r.Mask == 0 {
			masks = append(masks, "(mkM 0%Z XAbort)")
			continue
		}
		masks = append(masks, fmt.Sprintf("(mkM %s %s)", core.Z(r.Mask), xres(r.Res)))
		replies = append(replies, fmt.Sprintf("(mkReply %s %s %s)", core.Z(r.Reply), xres(r.Res), core.Bool(r.Res == "ok")))
	}
	o := t.o
	tail := fmt.Sprintf("%s %s %s %s %s %s", core.Bool(o.Err), core.Bool(o.Auth), core.Bool(o.Enc), methTerm(o.Meth), ranTerm(o.Ran), core.Bool(o.Real))
	if sp.Kind == "tokcli" {
		post := "PAbsent"
		if !t.otherErr {
			post = "PClear"
			if t.otherEnc {
				post = "PSealed"
			}
		}
		return fmt.Sprintf("(CCli %s (mkS %s %s %s %s %s %s %s %s %s %s RAuthorized) %s)", cfgTerm(sp.Cfg),
			rcTerm(t.sad["ReturnCode"]), sstrTerm(t.sad["Authentication"]), sstrTerm(t.sad["Encryption"]),
			methList(split(t.sad["AuthMethodsList"])), methList(split(t.sad["AuthMethods"])),
			ciphList(split(t.sad["CryptoMethodsList"])), ciphList(split(t.sad["CryptoMethods"])),
			keyClass(t.sad["ECDHPublicKey"]), core.List(replies), post, tail)
	}
	return fmt.Sprintf("(CSrv %s (mkC true %s %s %s %s %s %s) %s)", cfgTerm(sp.Cfg),
		sstrTerm(t.cad["Authentication"]), sstrTerm(t.cad["Encryption"]),
		methList(split(t.cad["AuthMethods"])), ciphList(split(t.cad["CryptoMethods"])), keyClass(t.cad["ECDHPublicKey"]),
		core.List(masks), tail)
}

func tokSpecs() []tokSpec {
	var out []tokSpec
	lists := [][2][]string{ // victim list, other list
		{{"TOKEN"}, {"TOKEN"}},
		{{"TOKEN", "CLAIMTOBE"}, {"TOKEN", "CLAIMTOBE"}},
		{{"CLAIMTOBE", "TOKEN"}, {"TOKEN"}},
	}
	prot := [][2]string{{"REQUIRED", "OPTIONAL"}, {"OPTIONAL", "REQUIRED"}, {"REQUIRED", "REQUIRED"}, {"PREFERRED", "NEVER"}, {"OPTIONAL", "OPTIONAL"}, {"NEVER", "REQUIRED"}}
	for _, kind := range []string{"tokcli", "toksrv"} {
		// the relay edits: for a client under test both keys are edited (a server that kept
		// its key would seal the post-auth ad for a client that stays in plaintext)
		edits := [][2]peer.KeyEdit{{"", ""}, {"drop", "drop"}, {"truncate", "truncate"}, {"garbage", "drop"}}
		if kind == "toksrv" {
			edits = [][2]peer.KeyEdit{{"", ""}, {"drop", ""}, {"truncate", ""}, {"garbage", ""}, {"drop", "drop"}}
		}
		for li, l := range lists {
			for _, a := range []string{"REQUIRED", "OPTIONAL"} {
				for _, p := range prot {
					for _, e := range edits {
						otherEnc := "OPTIONAL"
						if p[0] == "NEVER" {
							otherEnc = "PREFERRED"
						}
						v := peer.Policy{Auth: a, Enc: p[0], Integ: p[1], Methods: l[0], Ciphers: []string{"AES"}, Command: 60007}
						o := peer.Policy{Auth: "PREFERRED", Enc: otherEnc, Integ: "OPTIONAL", Methods: l[1], Ciphers: []string{"AES"}, Command: 60007}
						if li == 2 {
							o.Auth = "REQUIRED"
						}
						out = append(out, tokSpec{Kind: kind, Cfg: v, Other: o, CliEdit: e[0], SrvEdit: e[1]})
					}
				}
			}
		}
	}
	return out
}

func judgeTok(sp tokSpec, t tokOut) (string, string) {
	k := "cli"
	if sp.Kind == "toksrv" {
		k = "srv"
	}
	o := t.o
	o.GotAd = false // the advertised-list check belongs to the scripted-client runs
	return judge(spec{Kind: k, Cfg: sp.Cfg}, o)
}

func genTokenRelay(c *core.Ctx, bt *batcher) error {
	w, err := peer.NewTokenWorld("verif.local")
	if err != nil {
		return err
	}
	defer w.Cleanup()
	specs := tokSpecs()
	outs := make([]tokOut, len(specs))
	var wg sync.WaitGroup
	sem := make(chan struct{}, runtime.NumCPU())
	for i := range specs {
		wg.Add(1)
		sem <- struct{}{}
		go func(i int) {
			defer wg.Done()
			defer func() { <-sem }()
			outs[i] = runTok(w, specs[i])
		}(i)
	}
	wg.Wait()
	fails := map[string]int{}
	for i, sp := range specs {
		t := outs[i]
		c.OracleCheck()
		if key, txt := judgeTok(sp, t); key != "" {
			fails[key]++
			if fails[key] <= 3 {
				c.OracleFail("c03-"+key, fmt.Sprintf("%s role=%s (TOKEN run behind a key-editing relay: client key %q, server key %q) policy{auth=%s enc=%s integ=%s %v}",
					txt, sp.Kind, sp.CliEdit, sp.SrvEdit, sp.Cfg.Auth, sp.Cfg.Enc, sp.Cfg.Integ, sp.Cfg.Methods), sp)
			}
		}
		if !t.ok {
			c.Count("token unparsable")
			continue
		}
		bt.add(tokTerm(sp, t), sp)
		switch {
		case t.o.Err:
			c.Count(sp.Kind + " error")
		default:
			c.Count(fmt.Sprintf("%s ok auth=%v enc=%v", sp.Kind, t.o.Auth, t.o.Real))
			c.Nontrivial(fmt.Sprint(sp))
		}
		for _, r := range t.rounds {
			if r.Reply == 2048 && r.Res == "ok" {
				c.Count("TOKEN exchange completed")
			}
		}
	}
	for k, n := range fails {
		c.Note(fmt.Sprintf("oracle failures (token) %s: %d", k, n))
	}
	return nil
}
