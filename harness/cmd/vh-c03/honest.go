package main

// Honest peers as a special case of "arbitrary peer": the real client against the
// real server; what each end SENT is read back from the tap and written as the
// peer script of the other end, so that Model/Handshake.v (client_hs, server_hs)
// is also compared with the real code on runs where sub-protocols other than
// CLAIMTOBE complete (FS) and where the peer is cedar itself.

import (
	"context"
	"fmt"
	"os"
	"runtime"
	"strings"
	"sync"

	"verifharness/core"
	"verifharness/mock"
	"verifharness/peer"

	"github.com/bbockelm/cedar/message"
)

type honestSpec struct {
	Kind string      `json:"kind"` // honest
	C    peer.Policy `json:"c"`
	S    peer.Policy `json:"s"`
}

func adStrings(msg []byte, skipInt bool, keys []string) (map[string]string, bool) {
	st := &mock.Stream{In: []mock.Frame{{Data: msg, EOM: true}}}
	m := message.NewMessageFromStream(st)
	ctx := context.Background()
	if skipInt {
		if _, err := m.GetInt(ctx); err != nil {
			return nil, false
		}
	}
	ad, err := m.GetClassAdWithMaxSize(ctx, 1<<16)
	if err != nil {
		return nil, false
	}
	out := map[string]string{}
	for _, k := range keys {
		if s, ok := ad.EvaluateAttrString(k); ok {
			out[k] = s
		}
	}
	return out, true
}

type round struct {
	Mask, Reply int64
	Res         string // ok | fail | none (nothing on the wire) | abort
}

// walk reads the cleartext authentication phase back from the tap (reference
// reading of the protocol: bitmask / reply, CLAIMTOBE claim+ack, FS path +
// client result + server result, hasKey message after a success).
func walk(tap *peer.Tap) (cad, sad map[string]string, rounds []round, ok bool) {
	msgs, pos := tap.OrderedMessages()
	cm, sm := msgs[0], msgs[1]
	cpos, spos := pos[0], pos[1]
	if len(cm) == 0 || len(sm) == 0 {
		return nil, nil, nil, false
	}
	keys := []string{"ReturnCode", "Authentication", "Encryption", "AuthMethods", "AuthMethodsList", "CryptoMethods", "CryptoMethodsList", "ECDHPublicKey"}
	cad, ok1 := adStrings(cm[0], true, keys)
	sad, ok2 := adStrings(sm[0], false, keys)
	if !ok1 || !ok2 {
		return nil, nil, nil, false
	}
	if rc := sad["ReturnCode"]; (rc != "" && rc != "AUTHORIZED") || sad["Authentication"] != "YES" {
		return cad, sad, nil, true
	}
	ci, si := 1, 1
	for ci < len(cm) {
		b, okb := peer.ReadInt64(cm[ci])
		ci++
		if !okb {
			return cad, sad, rounds, true
		}
		if b == 0 {
			rounds = append(rounds, round{0, -1, "abort"})
			return cad, sad, rounds, true
		}
		if si >= len(sm) {
			return cad, sad, rounds, true
		}
		r, _ := peer.ReadInt64(sm[si])
		si++
		rd := round{b, r, "none"}
		switch r {
		case 2:
			if ci < len(cm) && si < len(sm) {
				st, _ := peer.ReadInt64(cm[ci])
				ack, _ := peer.ReadInt64(sm[si])
				ci++
				si++
				rd.Res = "fail"
				if st == 1 && ack == 1 {
					rd.Res = "ok"
				}
			} else {
				rd.Res = "abort"
			}
		case 4:
			if si+1 < len(sm) && ci < len(cm) {
				cres, _ := peer.ReadInt64(cm[ci])
				sres, _ := peer.ReadInt64(sm[si+1])
				ci++
				si += 2
				rd.Res = "fail"
				if cres == 0 && sres == 0 {
					rd.Res = "ok"
				}
			} else {
				rd.Res = "abort"
			}
		case 2048: // TOKEN (AKEP2): client step 1, server step 2, client step 3; after a success the
			// server's key-exchange message comes next, after a failure the client's next bitmask
			if ci+1 < len(cm) && si < len(sm) {
				ci += 2
				si++
				rd.Res = "fail"
				if si < len(sm) && (ci >= len(cm) || spos[si] < cpos[ci]) {
					rd.Res = "ok"
					si++
				}
			} else {
				rd.Res = "abort"
			}
		case 0:
			rd.Res = "abort"
		}
		rounds = append(rounds, rd)
		if rd.Res == "ok" || rd.Res == "abort" {
			return cad, sad, rounds, true
		}
	}
	return cad, sad, rounds, true
}

func xres(s string) string {
	switch s {
	case "ok":
		return "XOk"
	case "fail", "none":
		return "XFail"
	}
	return "XAbort"
}

func keyPresent(ad map[string]string) string {
	if ad["ECDHPublicKey"] != "" {
		return "KGood"
	}
	return "KMissing"
}

func genHonestPairs(c *core.Ctx, bt *batcher) {
	type shape struct{ C, S []string }
	mshapes := []shape{
		{[]string{"CLAIMTOBE"}, []string{"CLAIMTOBE"}},
		{[]string{"CLAIMTOBE", "FS"}, []string{"FS", "CLAIMTOBE"}},
		{[]string{"CLAIMTOBE", "PASSWORD"}, []string{"PASSWORD", "CLAIMTOBE"}},
		{[]string{"CLAIMTOBE"}, []string{"PASSWORD"}},
	}
	cshapes := []shape{{[]string{"AES"}, []string{"AES"}}, {[]string{"AES"}, nil}}
	var specs []honestSpec
	nonReq := []string{"OPTIONAL", "NEVER", "PREFERRED"} // Integrity rotates over the non-REQUIRED levels
	n := 0
	for _, ca := range fourLevels {
		for _, sa := range fourLevels {
			for _, ce := range fourLevels {
				for _, se := range fourLevels {
					for _, ms := range mshapes {
						for _, cs := range cshapes {
							n++
							if c.Quick() && n%2 == 0 {
								continue
							}
							specs = append(specs, honestSpec{"honest",
								peer.Policy{Auth: ca, Enc: ce, Integ: nonReq[n%3], Methods: ms.C, Ciphers: cs.C, Command: 60007},
								peer.Policy{Auth: sa, Enc: se, Integ: nonReq[(n/3)%3], Methods: ms.S, Ciphers: cs.S}})
						}
					}
				}
			}
		}
	}
	type out struct {
		cr, sr peer.Result
		tap    *peer.Tap
	}
	outs := make([]out, len(specs))
	if devnull, err := os.OpenFile(os.DevNull, os.O_WRONLY, 0); err == nil {
		saved := os.Stdout
		os.Stdout = devnull // cedar's FS server prints a warning per directory the client already removed
		defer func() { os.Stdout = saved; devnull.Close() }()
	}
	var wg sync.WaitGroup
	sem := make(chan struct{}, runtime.NumCPU())
	for i := range specs {
		wg.Add(1)
		sem <- struct{}{}
		go func(i int) {
			defer wg.Done()
			defer func() { <-sem }()
			ca, sa, tap := peer.Pipe()
			var w sync.WaitGroup
			w.Add(2)
			go func() {
				defer w.Done()
				outs[i].sr = peer.RunServer(sa, specs[i].S.Config())
				if outs[i].sr.Err != nil {
					sa.Close()
				}
			}()
			go func() {
				defer w.Done()
				outs[i].cr = peer.RunClient(ca, specs[i].C.Config())
				if outs[i].cr.Err != nil {
					ca.Close()
				}
			}()
			w.Wait()
			outs[i].tap = tap
			ca.Close()
			sa.Close()
		}(i)
	}
	wg.Wait()
	for i, sp := range specs {
		o := outs[i]
		cad, sad, rounds, ok := walk(o.tap)
		if !ok {
			c.Count("honest unparsable")
			continue
		}
		var ran []peer.Exchange
		var replies, masks []string
		for _, r := range rounds {
			if r.Mask == 0 {
				masks = append(masks, "(mkM 0%Z XAbort)")
				continue
			}
			masks = append(masks, fmt.Sprintf("(mkM %s %s)", core.Z(r.Mask), xres(r.Res)))
			replies = append(replies, fmt.Sprintf("(mkReply %s %s %s)", core.Z(r.Reply), xres(r.Res), core.Bool(r.Res == "ok")))
			name := map[int64]string{2: "CLAIMTOBE", 4: "FS", 2048: "TOKEN"}[r.Reply]
			if name != "" && (r.Res == "ok" || r.Res == "fail") {
				ran = append(ran, peer.Exchange{Method: name, OK: r.Res == "ok"})
			}
		}
		obsOf := func(r peer.Result) string {
			a, e, m := false, false, ""
			if r.Err == nil && r.Neg != nil {
				a, e, m = r.Neg.Authentication, r.Neg.Encryption, string(r.Neg.NegotiatedAuth)
			}
			return fmt.Sprintf("%s %s %s %s %s %s", core.Bool(r.Err != nil), core.Bool(a), core.Bool(e), methTerm(m), ranTerm(ran), core.Bool(r.Encrypted))
		}
		post := "PAbsent"
		if o.sr.Err == nil {
			post = "PClear"
			if o.sr.Encrypted {
				post = "PSealed"
			}
		}
		cli := fmt.Sprintf("(CCli %s (mkS %s %s %s %s %s %s %s %s %s %s RAuthorized) %s)", cfgTerm(sp.C),
			rcTerm(sad["ReturnCode"]), sstrTerm(sad["Authentication"]), sstrTerm(sad["Encryption"]),
			methList(split(sad["AuthMethodsList"])), methList(split(sad["AuthMethods"])),
			ciphList(split(sad["CryptoMethodsList"])), ciphList(split(sad["CryptoMethods"])),
			keyPresent(sad), core.List(replies), post, obsOf(o.cr))
		srv := fmt.Sprintf("(CSrv %s (mkC true %s %s %s %s %s %s) %s)", cfgTerm(sp.S),
			sstrTerm(cad["Authentication"]), sstrTerm(cad["Encryption"]),
			methList(split(cad["AuthMethods"])), ciphList(split(cad["CryptoMethods"])), keyPresent(cad),
			core.List(masks), obsOf(o.sr))
		bt.add(cli, sp)
		bt.add(srv, sp)
		c.Evaluated(0)
		switch {
		case o.cr.Err == nil && o.sr.Err == nil:
			c.Count("honest ok")
		default:
			c.Count("honest failed")
		}
		for _, r := range rounds {
			if r.Reply == 4 && r.Res == "ok" {
				c.Count("honest FS exchange completed")
			}
		}
	}
	_ = strings.Join
}
