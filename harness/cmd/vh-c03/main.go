// vh-c03: correspondence + oracle for C03 (REQUIRED means required; the reported
// handshake outcome is what happened, against arbitrary peers).
//
// The real ClientHandshake / ServerHandshake run unmodified against scripted
// peers (harness/peer) speaking the real wire protocol over an in-memory tapped
// connection, for all 4x4 local policies x integrity x method lists x both roles
// x a catalogue of peer deviations.  Observed: error/no-error, the reported
// Authentication / Encryption / NegotiatedAuth, Stream.IsEncrypted(), whether
// the next bytes the endpoint writes are visible in clear on the wire, and which
// authentication exchanges the scripted peer took part in.  The oracle checks
// the property directly; every run is also a Coq case for Model/Handshake.v.
package main

import (
	"bytes"
	"encoding/json"
	"fmt"
	"hash/fnv"
	"math/rand"
	"os"
	"path/filepath"
	"runtime"
	"sort"
	"strings"
	"sync"
	"time"

	"verifharness/core"
	"verifharness/peer"

	"github.com/bbockelm/cedar/security"
)

// ---------- Coq term printers ---------------------------------------------

func lvlTerm(s string) string {
	switch s {
	case "REQUIRED":
		return "Rq"
	case "PREFERRED":
		return "Pf"
	case "OPTIONAL":
		return "Op"
	case "NEVER":
		return "Nv"
	}
	return "Ot"
}

var methNames = map[string]string{"FS": "mFS", "IDTOKENS": "mIDT", "TOKEN": "mTOK", "SCITOKENS": "mSCI", "SSL": "mSSL",
	"KERBEROS": "mKRB", "CLAIMTOBE": "mCTB", "PASSWORD": "mPW", "NONE": "mNONE"}
var otherIdx = map[string]int{}

func other(s string) int {
	if k, ok := otherIdx[s]; ok {
		return k
	}
	k := len(otherIdx) + 1
	otherIdx[s] = k
	return k
}
func methTerm(s string) string {
	if t, ok := methNames[s]; ok {
		return t
	}
	return fmt.Sprintf("(mX %d)", other("m:"+s))
}
func ciphTerm(s string) string {
	switch s {
	case "AES":
		return "cAES"
	case "BLOWFISH":
		return "cBF"
	case "3DES":
		return "c3DES"
	}
	return fmt.Sprintf("(cX %d)", other("c:"+s))
}
func split(s string) []string {
	var out []string
	for _, x := range strings.Split(s, ",") {
		if t := strings.TrimSpace(x); t != "" {
			out = append(out, t)
		}
	}
	return out
}
func methList(ms []string) string {
	var t []string
	for _, m := range ms {
		t = append(t, methTerm(m))
	}
	return core.List(t)
}
func ciphList(cs []string) string {
	var t []string
	for _, c := range cs {
		t = append(t, ciphTerm(c))
	}
	return core.List(t)
}
func sstrTerm(s string) string {
	switch s {
	case "YES":
		return "SYes"
	case "NO":
		return "SNo"
	}
	return "(SLvl " + lvlTerm(s) + ")"
}
func keyTerm(k string) string {
	switch k {
	case peer.KeyGood:
		return "KGood"
	case peer.KeyUnknown:
		return "KUnknown"
	case peer.KeyMissing:
		return "KMissing"
	}
	return "KBad"
}
func rcTerm(s string) string {
	switch s {
	case "":
		return "RNone"
	case "AUTHORIZED":
		return "RAuthorized"
	}
	return "ROther"
}
func postTerm(s string) string {
	switch s {
	case "clear":
		return "PClear"
	case "sealed":
		return "PSealed"
	}
	return "PAbsent"
}
func cfgTerm(p peer.Policy) string {
	integ := p.Integ
	if integ == "" {
		integ = "OPTIONAL"
	}
	return fmt.Sprintf("(mkCfg %s %s %s %s %s true)", lvlTerm(p.Auth), lvlTerm(p.Enc), lvlTerm(integ), methList(p.Methods), ciphList(p.Ciphers))
}
func ranTerm(r []peer.Exchange) string {
	var t []string
	for _, e := range r {
		t = append(t, core.Pair(methTerm(e.Method), core.Bool(e.OK)))
	}
	return core.List(t)
}
func srvScriptTerm(s peer.SrvScript) string {
	var rs []string
	for _, r := range s.Replies {
		// how the selected method's exchange ends against this scripted peer: it serves
		// CLAIMTOBE (acknowledging or rejecting the claim) and goes away on anything else
		res := "XAbort"
		if r.Bit == 2 {
			res = "XFail"
			if r.Ack {
				res = "XOk"
			}
		}
		rs = append(rs, fmt.Sprintf("(mkReply %s %s %s)", core.Z(r.Bit), res, core.Bool(r.HasKeyOK)))
	}
	return fmt.Sprintf("(mkS %s %s %s %s %s %s %s %s %s %s %s)", rcTerm(s.RC), sstrTerm(s.Auth), sstrTerm(s.Enc),
		methList(split(s.List)), methList(split(s.Single)), ciphList(split(s.CList)), ciphList(split(s.CSingle)),
		keyTerm(s.Key), core.List(rs), postTerm(s.Post), rcTerm(s.PostRC))
}
func cliScriptTerm(s peer.CliScript, own []string) string {
	var ms []string
	for _, m := range s.Masks {
		// how the exchange of the method the server selects ends against this scripted
		// peer: it speaks CLAIMTOBE only and goes away on any other selection
		cl := "XAbort"
		sel := ""
		for _, o := range own {
			if bitOf(o)&m.Mask != 0 {
				sel = o
				break
			}
		}
		if sel == "CLAIMTOBE" {
			switch m.Claim {
			case "ok":
				cl = "XOk"
			case "fail":
				cl = "XFail"
			}
		}
		ms = append(ms, fmt.Sprintf("(mkM %s %s)", core.Z(m.Mask), cl))
	}
	return fmt.Sprintf("(mkC %s %s %s %s %s %s %s)", core.Bool(s.CmdOK), sstrTerm(s.Auth), sstrTerm(s.Enc),
		methList(split(s.Methods)), ciphList(split(s.Ciphers)), keyTerm(s.Key), core.List(ms))
}

// batcher groups runs into one Coq case (a list of case1 terms): Coq's start-up
// cost per case file dominates, so fewer, larger files are much faster.
type batcher struct {
	c     *core.Ctx
	n     int
	terms []string
	descs []interface{}
}

func (b *batcher) add(term string, desc interface{}) {
	b.terms = append(b.terms, term)
	b.descs = append(b.descs, desc)
	b.c.Evaluated(1)
	if len(b.terms) >= b.n {
		b.flush()
	}
}
func (b *batcher) flush() {
	if len(b.terms) == 0 {
		return
	}
	b.c.AddCase(core.List(b.terms), map[string]interface{}{"batch": b.descs})
	b.c.Evaluated(-1)
	b.terms, b.descs = nil, nil
}

// ---------- one run ----------------------------------------------------------

type spec struct {
	Kind string      `json:"kind"` // cli | srv
	Cfg  peer.Policy `json:"cfg"`  // the policy in force for the handshake
	// Def, if set (server role): the authenticator's own default config; Cfg is then
	// what its ServerConfigForCommand hook returns for the requested command
	Def *peer.Policy    `json:"def,omitempty"`
	Srv *peer.SrvScript `json:"srv,omitempty"`
	Cli *peer.CliScript `json:"cli,omitempty"`
	Tag string          `json:"tag"`
}

type obs struct {
	Err       bool
	ErrText   string
	Hang      bool
	Auth, Enc bool
	Meth      string
	Real      bool // Stream.IsEncrypted()
	Clear     bool // marker written after the handshake is visible in clear on the wire
	MarkerErr bool
	Ran       []peer.Exchange
	PeerNote  string
	KeyBad    bool   // the endpoint's key differs from the one the peer derived independently
	GotAd     bool   // server role: the scripted client received the server's security ad
	AdvList   string // ... and this is its AuthMethodsList
}

var marker = []byte("C03-MARKER-plaintext-canary-0123456789abcdef")

func runSpec(sp spec, seed int64) obs {
	ca, sa, tap := peer.Pipe()
	h := fnv.New64a()
	js, _ := json.Marshal(sp)
	h.Write(js)
	rng := rand.New(rand.NewSource(seed ^ int64(h.Sum64())))
	var res peer.Result
	var lg *peer.Log
	var wg sync.WaitGroup
	wg.Add(2)
	isCli := sp.Kind == "cli"
	if isCli {
		go func() { defer wg.Done(); lg = peer.ServeScript(sa, *sp.Srv, rng) }()
		go func() {
			defer wg.Done()
			res = peer.RunClient(ca, sp.Cfg.Config())
			if res.Err != nil {
				ca.Close()
			}
		}()
	} else {
		go func() { defer wg.Done(); lg = peer.DialScript(ca, *sp.Cli, rng) }()
		go func() {
			defer wg.Done()
			if sp.Def != nil {
				res = peer.RunServerPerCommand(sa, sp.Def.Config(), sp.Cfg.Config())
			} else {
				res = peer.RunServer(sa, sp.Cfg.Config())
			}
			if res.Err != nil {
				sa.Close()
			}
		}()
	}
	wg.Wait()
	o := obs{Err: res.Err != nil, Hang: res.Hang, Real: res.Encrypted, Ran: lg.Ran, PeerNote: lg.Note}
	if !isCli {
		_, o.GotAd = lg.PeerAd["Authentication"]
		o.AdvList = lg.PeerAd["AuthMethodsList"]
	}
	if res.Err != nil {
		o.ErrText = res.Err.Error()
	}
	if res.Err == nil && res.Neg != nil {
		o.Auth, o.Enc, o.Meth = res.Neg.Authentication, res.Neg.Encryption, string(res.Neg.NegotiatedAuth)
		// the next bytes the endpoint writes: cleartext or not
		off := tap.Len(isCli)
		if err := peer.SendMarker(res.Stream, marker); err != nil {
			o.MarkerErr = true
		}
		o.Clear = tap.Contains(isCli, off, marker)
		if res.Encrypted && lg.DerivedKey != nil && !bytes.Equal(res.Key, lg.DerivedKey) {
			o.KeyBad = true
		}
	}
	ca.Close()
	sa.Close()
	return o
}

// ---------- the oracle: the property, checked directly ----------------------

func inList(x string, l []string) bool {
	for _, y := range l {
		if x == y {
			return true
		}
	}
	return false
}

func judge(sp spec, o obs) (string, string) {
	if o.Hang {
		return "hang", "handshake did not terminate"
	}
	if sp.Kind == "srv" && o.GotAd && o.AdvList != strings.Join(sp.Cfg.Methods, ",") {
		return "advertised-methods", fmt.Sprintf("the server advertised AuthMethodsList=%q, the policy in force lists %v", o.AdvList, sp.Cfg.Methods)
	}
	if o.Err {
		return "", ""
	}
	if o.MarkerErr {
		return "marker", "could not write on the stream after a successful handshake"
	}
	lastOK := ""
	for _, e := range o.Ran {
		if e.OK {
			lastOK = e.Method
		}
	}
	if sp.Cfg.Auth == "REQUIRED" && (lastOK == "" || !inList(lastOK, sp.Cfg.Methods)) {
		return "auth-required", fmt.Sprintf("success with Authentication=REQUIRED but no own-listed method ran to success (ran %v, own %v)", o.Ran, sp.Cfg.Methods)
	}
	if (sp.Cfg.Enc == "REQUIRED" || sp.Cfg.Integ == "REQUIRED") && (!o.Real || o.Clear) {
		return "enc-required", fmt.Sprintf("success with Encryption/Integrity REQUIRED on a plaintext stream (IsEncrypted=%v, cleartext on the wire=%v)", o.Real, o.Clear)
	}
	if o.Enc != o.Real || o.Real == o.Clear {
		return "report-enc", fmt.Sprintf("reported Encryption=%v, IsEncrypted=%v, cleartext on the wire=%v", o.Enc, o.Real, o.Clear)
	}
	if o.KeyBad {
		return "key-not-derived", "the stream is encrypted with a key other than HKDF(ECDH(own key, the peer's advertised key)) as computed independently by the peer"
	}
	if o.Auth != (lastOK != "") {
		return "report-auth", fmt.Sprintf("reported Authentication=%v but exchanges on the wire were %v", o.Auth, o.Ran)
	}
	if o.Auth && (o.Meth != lastOK || !inList(lastOK, sp.Cfg.Methods)) {
		return "report-method", fmt.Sprintf("reported NegotiatedAuth=%q; ran on the wire %v; own list %v", o.Meth, o.Ran, sp.Cfg.Methods)
	}
	return "", ""
}

func caseTerm(sp spec, o obs) string {
	tail := fmt.Sprintf("%s %s %s %s %s %s", core.Bool(o.Err), core.Bool(o.Auth), core.Bool(o.Enc), methTerm(o.Meth), ranTerm(o.Ran), core.Bool(o.Real))
	if sp.Kind == "cli" {
		return fmt.Sprintf("(CCli %s %s %s)", cfgTerm(sp.Cfg), srvScriptTerm(*sp.Srv), tail)
	}
	return fmt.Sprintf("(CSrv %s %s %s)", cfgTerm(sp.Cfg), cliScriptTerm(*sp.Cli, sp.Cfg.Methods), tail)
}

// ---------- generation --------------------------------------------------------

var fourLevels = []string{"REQUIRED", "PREFERRED", "OPTIONAL", "NEVER"}

func bitOf(m string) int64 {
	switch m {
	case "CLAIMTOBE":
		return 2
	case "FS":
		return 4
	case "PASSWORD":
		return 512
	case "KERBEROS":
		return 64
	case "SSL":
		return 256
	case "TOKEN", "IDTOKENS":
		return 2048
	case "SCITOKENS":
		return 4096
	}
	return 0
}
func maskOf(ms []string) int64 {
	var b int64
	for _, m := range ms {
		b |= bitOf(m)
	}
	return b
}

// reference reading of when the client installs a key (used only to avoid
// generating runs whose outcome depends on random ciphertext bytes)
func clientWillEncrypt(cfg peer.Policy, s peer.SrvScript) bool {
	if s.Key != peer.KeyGood && s.Key != peer.KeyUnknown {
		return false
	}
	cl := s.CList
	if cl == "" {
		cl = s.CSingle
	}
	return inList("AES", cfg.Ciphers) && inList("AES", split(cl))
}

func clientScripts(cfg peer.Policy, quick bool) []spec {
	list := strings.Join(cfg.Methods, ",")
	first := ""
	if len(cfg.Methods) > 0 {
		first = cfg.Methods[0]
	}
	ok := peer.Reply{Bit: 2, Ack: true, HasKeyOK: true}
	base := peer.SrvScript{Auth: "YES", Enc: "YES", List: list, Single: first, CList: "AES", CSingle: "AES", Key: peer.KeyGood,
		Replies: []peer.Reply{ok}, Post: "sealed", PostRC: "AUTHORIZED"}
	var out []spec
	add := func(tag string, s peer.SrvScript) {
		c := s
		c.Replies = append([]peer.Reply(nil), s.Replies...)
		if c.Post == "sealed" && !clientWillEncrypt(cfg, c) {
			// A sealed post-auth ad sent to a client that stays in plaintext is parsed
			// as a ClassAd from ciphertext bytes: the result depends on random bytes
			// (a negative attribute count reads as an empty ad).  Not generated.
			return
		}
		out = append(out, spec{Kind: "cli", Cfg: cfg, Srv: &c, Tag: tag})
	}
	replySets := map[string][]peer.Reply{
		"ctb-ok":          {ok},
		"ctb-reject-ok":   {{Bit: 2}, ok},
		"pw-then-ctb":     {{Bit: 512}, ok},
		"zero":            {{Bit: 0}},
		"multi-then-ctb":  {{Bit: 6}, ok},
		"fs-bit":          {{Bit: 4}},
		"unknown-bit-ctb": {{Bit: 16}, ok},
		"none":            {},
	}
	names := make([]string, 0, len(replySets))
	for k := range replySets {
		names = append(names, k)
	}
	sort.Strings(names)
	keys := []string{peer.KeyGood, peer.KeyMissing, peer.KeyTruncated}
	if quick {
		keys = []string{peer.KeyGood, peer.KeyMissing}
	}
	for _, key := range keys {
		for _, post := range []string{"clear", "sealed"} {
			s := base
			s.Key, s.Post = key, post
			s.Auth, s.Replies = "NO", nil
			add("auth-no/"+key+"/"+post, s)
			for _, rn := range names {
				s := base
				s.Key, s.Post, s.Replies = key, post, replySets[rn]
				add("auth-yes/"+rn+"/"+key+"/"+post, s)
			}
		}
	}
	// single deviations from the honest baseline (and from the NO / clear variant)
	for _, clearVariant := range []bool{false, true} {
		b := base
		tag := "single/"
		if clearVariant {
			b.Post, b.Key = "clear", peer.KeyMissing
			tag = "single-clear/"
		}
		s := b
		s.RC = "DENIED"
		add(tag+"rc-denied", s)
		s = b
		s.RC = "AUTHORIZED"
		add(tag+"rc-authorized", s)
		s = b
		s.PostRC = "DENIED"
		add(tag+"post-denied", s)
		s = b
		s.PostRC = ""
		add(tag+"post-rc-absent", s)
		s = b
		s.Post = "absent"
		add(tag+"post-absent", s)
		for _, a := range []string{"REQUIRED", "NEVER", "", "yes"} {
			s = b
			s.Auth = a
			add(tag+"auth-str-"+a, s)
		}
		for _, e := range []string{"NO", "REQUIRED", "NEVER", ""} {
			s = b
			s.Enc = e
			add(tag+"enc-str-"+e, s)
		}
		s = b
		s.CList, s.CSingle = "", ""
		add(tag+"no-cipher", s)
		s = b
		s.CList, s.CSingle = "BLOWFISH,3DES", "BLOWFISH"
		add(tag+"blowfish-only", s)
		s = b
		s.CList, s.CSingle = "", "AES"
		add(tag+"cipher-single-only", s)
		for _, k := range []string{peer.KeyUnknown, peer.KeyOffCurve, peer.KeyGarbage, peer.KeyTruncated} {
			s = b
			s.Key = k
			add(tag+"key-"+k, s)
			s.Post = "clear"
			add(tag+"key-"+k+"-clear", s)
		}
		s = b
		s.Replies = []peer.Reply{{Bit: 2, Ack: true, HasKeyOK: false}}
		add(tag+"haskey-bad", s)
		s = b
		s.List, s.Single = "", "CLAIMTOBE"
		add(tag+"list-empty-single-ctb", s)
		s = b
		s.List, s.Single = "", ""
		add(tag+"no-methods", s)
		s = b
		s.List, s.Single = "CLAIMTOBE,FS,PASSWORD,KERBEROS", "CLAIMTOBE"
		add(tag+"superset-list", s)
		s = b
		s.Replies = []peer.Reply{{Bit: 2}, {Bit: 512}, {Bit: 4}, ok}
		add(tag+"long-retry", s)
		s = b
		s.Replies = []peer.Reply{{Bit: -1}, {Bit: 1 << 40}, ok}
		add(tag+"wild-bits", s)
		// post-auth ads that contradict what happened on the wire (cedar's own server
		// sends none of these attributes; the client must not take its outcome from them)
		for i, ex := range []map[string]string{
			{"AuthMethods": "SSL"},
			{"AuthMethods": "KERBEROS", "Authentication": "NO", "Encryption": "NO", "CryptoMethods": "BLOWFISH", "User": "root@elsewhere"},
			{"Authentication": "NO", "NegotiatedAuth": "FS"},
			{"Encryption": "YES", "CryptoMethods": "AES", "Integrity": "YES"},
			{"AuthMethods": "CLAIMTOBE,FS", "AuthMethodsList": "FS"},
		} {
			s = b
			s.PostExtra = ex
			s.PostExtraBool = map[string]bool{"Authenticated": i%2 == 0, "Encrypted": i%2 == 1}
			add(fmt.Sprintf("%spost-contradicts-%d", tag, i), s)
			s.Auth, s.Replies = "NO", nil
			add(fmt.Sprintf("%spost-contradicts-%d-noauth", tag, i), s)
		}
	}
	return out
}

func serverScripts(cfg peer.Policy, quick bool) []spec {
	var out []spec
	add := func(tag string, s peer.CliScript) {
		c := s
		c.Masks = append([]peer.MaskStep(nil), s.Masks...)
		out = append(out, spec{Kind: "srv", Cfg: cfg, Cli: &c, Tag: tag})
	}
	own := maskOf(cfg.Methods)
	maskSets := map[string][]peer.MaskStep{
		"honest":       {{Mask: own | 2, Claim: "ok"}},
		"fail-then-ok": {{Mask: 2, Claim: "fail"}, {Mask: 2, Claim: "ok"}},
		"zero":         {{Mask: 0}},
		"foreign-then": {{Mask: 64 | 256, Claim: "ok"}, {Mask: 2, Claim: "ok"}},
		"all-bits":     {{Mask: -1, Claim: "ok"}},
		"abort":        {{Mask: 2, Claim: "abort"}},
		"pw-then-ctb":  {{Mask: 512, Claim: "ok"}, {Mask: 2 | 512, Claim: "ok"}},
		"none":         {},
	}
	names := make([]string, 0, len(maskSets))
	for k := range maskSets {
		names = append(names, k)
	}
	sort.Strings(names)
	levels := [][2]string{{"OPTIONAL", "OPTIONAL"}, {"NEVER", "NEVER"}, {"NO", "NO"}, {"PREFERRED", "REQUIRED"}, {"REQUIRED", "PREFERRED"}, {"", "never"}}
	keys := []string{peer.KeyGood, peer.KeyMissing, peer.KeyOffCurve}
	if quick {
		levels = levels[:4]
		keys = keys[:2]
	}
	base := peer.CliScript{CmdOK: true, Auth: "OPTIONAL", Enc: "OPTIONAL", Integ: "OPTIONAL", Methods: "CLAIMTOBE,FS,PASSWORD", Ciphers: "AES", Key: peer.KeyGood}
	for _, lv := range levels {
		for _, key := range keys {
			for _, mn := range names {
				s := base
				s.Auth, s.Enc, s.Key, s.Masks = lv[0], lv[1], key, maskSets[mn]
				add("lv-"+lv[0]+"-"+lv[1]+"/"+key+"/"+mn, s)
			}
		}
	}
	b := base
	b.Masks = maskSets["honest"]
	s := b
	s.CmdOK = false
	add("single/wrong-command", s)
	for _, k := range []string{peer.KeyTruncated, peer.KeyGarbage, peer.KeyUnknown, peer.KeyOffCurve} {
		s = b
		s.Key = k
		add("single/key-"+k, s)
	}
	for _, c := range []string{"", "BLOWFISH", "BLOWFISH,AES", "3DES,BLOWFISH"} {
		s = b
		s.Ciphers = c
		add("single/ciphers-"+c, s)
		s.Key = peer.KeyMissing
		add("single/ciphers-"+c+"-nokey", s)
	}
	for _, m := range []string{"", "CLAIMTOBE", "FS", "PASSWORD", "NONE", "KERBEROS,CLAIMTOBE"} {
		s = b
		s.Methods = m
		add("single/methods-"+m, s)
	}
	s = b
	s.Masks = []peer.MaskStep{{Mask: 4, Claim: "ok"}}
	add("single/fs-only-mask", s)
	s = b
	s.Masks = []peer.MaskStep{{Mask: 2, Claim: "fail"}, {Mask: 512}, {Mask: 64}, {Mask: 2, Claim: "ok"}}
	add("single/long-retry", s)
	return out
}

// perCommandSpecs: servers whose ServerConfigForCommand hook returns a policy that
// DIFFERS from the authenticator's own default config (stricter and laxer levels,
// shorter / different method lists, different cipher lists), driven by the same
// scripted clients.  The policy in force - the one the model and the oracle use -
// is the per-command one.
func perCommandSpecs(quick bool) []spec {
	pols := []peer.Policy{
		{Auth: "OPTIONAL", Enc: "OPTIONAL", Integ: "OPTIONAL", Methods: []string{"CLAIMTOBE", "FS"}, Ciphers: []string{"AES"}},
		{Auth: "OPTIONAL", Enc: "REQUIRED", Integ: "OPTIONAL", Methods: []string{"CLAIMTOBE", "FS"}, Ciphers: []string{"AES"}},
		{Auth: "OPTIONAL", Enc: "OPTIONAL", Integ: "REQUIRED", Methods: []string{"CLAIMTOBE"}, Ciphers: []string{"AES"}},
		{Auth: "REQUIRED", Enc: "OPTIONAL", Integ: "OPTIONAL", Methods: []string{"FS"}, Ciphers: []string{"AES"}},
		{Auth: "REQUIRED", Enc: "REQUIRED", Integ: "REQUIRED", Methods: []string{"CLAIMTOBE"}, Ciphers: []string{"AES"}},
		{Auth: "PREFERRED", Enc: "PREFERRED", Integ: "OPTIONAL", Methods: []string{"PASSWORD", "CLAIMTOBE"}, Ciphers: nil},
		{Auth: "NEVER", Enc: "NEVER", Integ: "NEVER", Methods: []string{"CLAIMTOBE"}, Ciphers: []string{"AES"}},
		{Auth: "REQUIRED", Enc: "PREFERRED", Integ: "OPTIONAL", Methods: []string{"PASSWORD", "FS"}, Ciphers: []string{"BLOWFISH", "AES"}},
	}
	var out []spec
	for i, def := range pols {
		for j, pc := range pols {
			if i == j {
				continue
			}
			d := def
			d.Command, pc.Command = 60007, 60007
			for k, sp := range serverScripts(pc, quick) {
				if quick && (k+i+j)%2 != 0 && !strings.Contains(sp.Tag, "/honest") {
					continue
				}
				sp.Def = &d
				sp.Tag = "percmd/" + sp.Tag
				out = append(out, sp)
			}
		}
	}
	return out
}

// resumed handshakes are emitted as Coq cases once Model/Handshake.v covers them
const emitResumed = true

// runCorpus replays the minimised past disagreements kept in /verif/corpus/C03
// (witnesses of the defects found so far) before anything is generated.
func runCorpus(c *core.Ctx) {
	exe, err := os.Executable()
	if err != nil {
		return
	}
	dir := filepath.Join(filepath.Dir(filepath.Dir(exe)), "corpus", "C03")
	if d := os.Getenv("VERIF_CORPUS"); d != "" {
		dir = d
	}
	files, _ := filepath.Glob(filepath.Join(dir, "*.json"))
	sort.Strings(files)
	for _, f := range files {
		raw, err := os.ReadFile(f)
		if err != nil {
			continue
		}
		c.OracleCheck()
		c.Evaluated(1)
		c.Count("corpus")
		if err := replay(json.RawMessage(raw)); err != nil {
			c.OracleFail("c03-corpus", fmt.Sprintf("corpus case %s: %v", filepath.Base(f), err), json.RawMessage(raw))
		}
	}
}

func gen(c *core.Ctx) error {
	t0 := time.Now()
	peer.Quiet()
	runCorpus(c)
	lists := [][]string{{"CLAIMTOBE"}, {"FS"}, {"FS", "CLAIMTOBE"}, {"CLAIMTOBE", "PASSWORD"}, {"PASSWORD", "CLAIMTOBE", "FS"},
		{"NONE"}, {"NONE", "CLAIMTOBE"}, {"KERBEROS", "BOGUS", "CLAIMTOBE"}}
	var cfgs []peer.Policy
	for _, a := range fourLevels {
		for _, e := range fourLevels {
			for li, l := range lists {
				for _, integ := range []string{"OPTIONAL", "REQUIRED"} {
					if integ == "REQUIRED" && (e == "REQUIRED" || e == "PREFERRED") && c.Quick() {
						continue
					}
					if c.Quick() && li >= 2 && integ == "REQUIRED" {
						continue
					}
					if c.Quick() && li >= 5 && (a == "PREFERRED" || e == "PREFERRED" || e == "NEVER") {
						continue // quick: the NONE / unknown-name lists on a quarter of the policies
					}
					ciphers := []string{"AES"}
					if li == 3 {
						ciphers = []string{"BLOWFISH", "AES"}
					}
					cfgs = append(cfgs, peer.Policy{Auth: a, Enc: e, Integ: integ, Methods: l, Ciphers: ciphers, Command: 60007})
				}
			}
		}
	}
	// an endpoint with no usable cipher of its own
	for _, a := range []string{"REQUIRED", "OPTIONAL"} {
		for _, e := range fourLevels {
			cfgs = append(cfgs, peer.Policy{Auth: a, Enc: e, Integ: "OPTIONAL", Methods: []string{"CLAIMTOBE"}, Ciphers: nil, Command: 60007})
		}
	}
	var specs []spec
	specs = append(specs, perCommandSpecs(c.Quick())...)
	for i, cfg := range cfgs {
		cs := clientScripts(cfg, c.Quick())
		ss := serverScripts(cfg, c.Quick())
		if c.Quick() {
			// quick tier: every config gets the full catalogue of one role and a third of the other
			keep := func(in []spec, every int, off int) []spec {
				var o []spec
				for k, s := range in {
					if (k+off)%every == 0 || strings.HasPrefix(s.Tag, "auth-no/") || strings.Contains(s.Tag, "ctb-ok") {
						o = append(o, s)
					}
				}
				return o
			}
			if i%2 == 0 {
				ss = keep(ss, 3, i)
				cs = keep(cs, 2, i)
			} else {
				cs = keep(cs, 3, i)
				ss = keep(ss, 2, i)
			}
		}
		specs = append(specs, cs...)
		specs = append(specs, ss...)
	}
	res := make([]obs, len(specs))
	var wg sync.WaitGroup
	sem := make(chan struct{}, runtime.NumCPU())
	for i := range specs {
		wg.Add(1)
		sem <- struct{}{}
		go func(i int) {
			defer wg.Done()
			defer func() { <-sem }()
			res[i] = runSpec(specs[i], c.Seed)
		}(i)
		if i%512 == 0 {
			security.GetSessionCache().Clear()
		}
	}
	wg.Wait()
	fails := map[string]int{}
	bt := &batcher{c: c, n: 6}
	defer bt.flush()
	for i, sp := range specs {
		o := res[i]
		c.OracleCheck()
		if key, txt := judge(sp, o); key != "" {
			fails[key]++
			if fails[key] <= 3 {
				def := ""
				if sp.Def != nil {
					def = fmt.Sprintf(" (per-command policy; authenticator default{auth=%s enc=%s integ=%s %v %v})",
						sp.Def.Auth, sp.Def.Enc, sp.Def.Integ, sp.Def.Methods, sp.Def.Ciphers)
				}
				c.OracleFail("c03-"+key, fmt.Sprintf("%s role=%s policy{auth=%s enc=%s integ=%s %v %v}%s peer=%s", txt, sp.Kind,
					sp.Cfg.Auth, sp.Cfg.Enc, sp.Cfg.Integ, sp.Cfg.Methods, sp.Cfg.Ciphers, def, sp.Tag), sp)
			}
		}
		bt.add(caseTerm(sp, o), sp)
		role := sp.Kind
		switch {
		case o.Err:
			c.Count(role + " error")
		default:
			c.Count(fmt.Sprintf("%s ok auth=%v enc=%v", role, o.Auth, o.Real))
			c.Nontrivial(fmt.Sprint(role, sp.Cfg, sp.Tag))
		}
		if len(o.Ran) > 0 {
			c.Count(role + " exchange-ran")
		}
		if i%1499 == 0 {
			c.Sample(map[string]interface{}{"role": role, "policy": sp.Cfg, "peer": sp.Tag, "err": o.Err, "auth": o.Auth, "enc": o.Real, "ran": o.Ran})
		}
	}
	ks := make([]string, 0, len(fails))
	for k := range fails {
		ks = append(ks, k)
	}
	sort.Strings(ks)
	for _, k := range ks {
		c.Note(fmt.Sprintf("oracle failures %s: %d", k, fails[k]))
	}
	t1 := time.Now()
	genResumed(c, bt, emitResumed)
	t2 := time.Now()
	genHonestPairs(c, bt)
	if err := genTokenRelay(c, bt); err != nil {
		return err
	}
	c.Note(fmt.Sprintf("timing: scripted %.1fs resumed %.1fs honest %.1fs", t1.Sub(t0).Seconds(), t2.Sub(t1).Seconds(), time.Since(t2).Seconds()))
	c.Rule("on every successful handshake against a scripted peer: Authentication=REQUIRED => an own-listed method ran to success as seen by the peer; Encryption/Integrity=REQUIRED => Stream.IsEncrypted and the next bytes written are not cleartext on the wire; reported Encryption == IsEncrypted == not-cleartext; reported Authentication == an exchange succeeded, reported NegotiatedAuth == that method; and (error, reported fields, IsEncrypted, exchanges seen) == Model/Handshake.v")
	c.Exhaustive(false)
	c.Assume("scripted peers serve CLAIMTOBE and the PASSWORD stub only; a peer that selects another method goes away")
	c.Assume("full (non-resumed) handshakes only; session resumption is not generated here")
	return nil
}

func replay(raw json.RawMessage) error {
	peer.Quiet()
	var bd struct {
		Batch []json.RawMessage `json:"batch"`
	}
	if json.Unmarshal(raw, &bd) == nil && len(bd.Batch) > 0 {
		for _, x := range bd.Batch {
			if err := replay(x); err != nil {
				return err
			}
		}
		return nil
	}
	var hk struct {
		Kind string `json:"kind"`
	}
	if json.Unmarshal(raw, &hk) == nil && hk.Kind == "honest" {
		return nil // honest pairs carry no oracle of their own here (C10 judges them); model comparison only
	}
	var ts tokSpec
	if json.Unmarshal(raw, &ts) == nil && (ts.Kind == "tokcli" || ts.Kind == "toksrv") {
		w, err := peer.NewTokenWorld("verif.local")
		if err != nil {
			return err
		}
		defer w.Cleanup()
		if key, txt := judgeTok(ts, runTok(w, ts)); key != "" {
			return fmt.Errorf("%s: %s", key, txt)
		}
		return nil
	}
	var rs resSpec
	if json.Unmarshal(raw, &rs) == nil && (rs.Kind == "rescli" || rs.Kind == "ressrv") {
		if key, txt := judgeRes(rs, runRes(rs)); key != "" {
			return fmt.Errorf("%s: %s", key, txt)
		}
		return nil
	}
	var sp spec
	if err := json.Unmarshal(raw, &sp); err != nil {
		return err
	}
	o := runSpec(sp, 1)
	if key, txt := judge(sp, o); key != "" {
		return fmt.Errorf("%s: %s", key, txt)
	}
	return nil
}

func main() { core.Main("C03", gen, replay) }
