package main

import (
	"fmt"
	"go/ast"
	"go/parser"
	"go/token"
	"go/types"
	"os"
	"path/filepath"
	"strconv"
	"strings"

	"verifharness/core"

	"github.com/bbockelm/cedar/security"
)

// facts regenerates coq/gen/FactsC16.v from /repo's current source: the HKDF
// parameters and key length of the claim key derivation, which strings function
// locates the '#' / ']' of the claim-id grammar, the delimiters of the cipher list
// rewrite, the file-transfer prefix and the match-session identities.
func facts(w *strings.Builder) error {
	repo := os.Getenv("VERIF_REPO")
	if repo == "" {
		repo = "/repo"
	}
	fset := token.NewFileSet()
	parse := func(name string) (*ast.File, error) {
		return parser.ParseFile(fset, filepath.Join(repo, "security", name), nil, 0)
	}
	inh, err := parse("inherited_session.go")
	if err != nil {
		return err
	}
	cs, err := parse("claim_session.go")
	if err != nil {
		return err
	}
	cm, err := parse("claim_mint.go")
	if err != nil {
		return err
	}
	fn := func(f *ast.File, name string) *ast.FuncDecl {
		for _, d := range f.Decls {
			if fd, ok := d.(*ast.FuncDecl); ok && fd.Name.Name == name && fd.Body != nil {
				return fd
			}
		}
		return nil
	}
	sel := func(e ast.Expr) string { // pkg.Name of a call target
		if s, ok := e.(*ast.SelectorExpr); ok {
			if x, ok := s.X.(*ast.Ident); ok {
				return x.Name + "." + s.Sel.Name
			}
		}
		if id, ok := e.(*ast.Ident); ok {
			return id.Name
		}
		return ""
	}
	strLit := func(e ast.Expr) (string, bool) { // "lit" or []byte("lit")
		if c, ok := e.(*ast.CallExpr); ok && len(c.Args) == 1 {
			e = c.Args[0]
		}
		if bl, ok := e.(*ast.BasicLit); ok && bl.Kind == token.STRING {
			s, err := strconv.Unquote(bl.Value)
			return s, err == nil
		}
		return "", false
	}
	calls := func(fd *ast.FuncDecl, target string) []*ast.CallExpr {
		var out []*ast.CallExpr
		if fd == nil {
			return nil
		}
		ast.Inspect(fd.Body, func(n ast.Node) bool {
			if c, ok := n.(*ast.CallExpr); ok && sel(c.Fun) == target {
				out = append(out, c)
			}
			return true
		})
		return out
	}

	// 1. deriveSessionKey: hkdf.New(hash, []byte(sessionKey), []byte(salt), []byte(info))
	var salt, info string
	hk := calls(fn(inh, "deriveSessionKey"), "hkdf.New")
	if len(hk) != 1 || len(hk[0].Args) != 4 {
		return fmt.Errorf("pattern hkdf.New(hash, secret, salt, info) not found exactly once in deriveSessionKey")
	}
	var ok1, ok2 bool
	salt, ok1 = strLit(hk[0].Args[2])
	info, ok2 = strLit(hk[0].Args[3])
	if !ok1 || !ok2 {
		return fmt.Errorf("hkdf.New salt/info in deriveSessionKey are not string literals")
	}
	// 2. every caller in the claim files derives with a literal key length
	keyLens := map[string]bool{}
	nDerive := 0
	for _, f := range []*ast.File{cs, cm} {
		for _, d := range f.Decls {
			fd, ok := d.(*ast.FuncDecl)
			if !ok {
				continue
			}
			for _, c := range calls(fd, "deriveSessionKey") {
				nDerive++
				if len(c.Args) == 2 {
					if bl, ok := c.Args[1].(*ast.BasicLit); ok && bl.Kind == token.INT {
						keyLens[bl.Value] = true
						continue
					}
				}
				keyLens["?"] = true
			}
			// any other HKDF / hash based derivation inside the claim files is a second derivation
			for _, t := range []string{"hkdf.New", "hkdf.Extract", "hkdf.Expand", "hmac.New", "pbkdf2.Key"} {
				if len(calls(fd, t)) > 0 {
					keyLens["other:"+t+"@"+fd.Name.Name] = true
				}
			}
		}
	}
	if nDerive == 0 {
		return fmt.Errorf("no call of deriveSessionKey in claim_session.go / claim_mint.go")
	}
	var lens []string
	for k := range keyLens {
		lens = append(lens, k)
	}
	lens = core.SortedKeys(func() map[string]int {
		m := map[string]int{}
		for _, k := range lens {
			m[k] = 1
		}
		return m
	}())
	// 2b. the input keying material is the secret itself at every step: the expression handed to
	// hkdf.New, the first argument of every deriveSessionKey / second of every deriveClaimKeyInfo call,
	// and every assignment to a variable named secret in the claim files
	ikm := []string{"deriveSessionKey:hkdf.New(" + types.ExprString(hk[0].Args[1]) + ")"}
	if fd := fn(inh, "deriveSessionKey"); fd != nil && fd.Type.Params != nil && len(fd.Type.Params.List) > 0 && len(fd.Type.Params.List[0].Names) > 0 {
		ikm = append(ikm, "deriveSessionKey:param0="+fd.Type.Params.List[0].Names[0].Name)
		// the parameter must not be reassigned inside
		ast.Inspect(fd.Body, func(n ast.Node) bool {
			if as, ok := n.(*ast.AssignStmt); ok {
				for _, l := range as.Lhs {
					if id, ok := l.(*ast.Ident); ok && id.Name == fd.Type.Params.List[0].Names[0].Name {
						ikm = append(ikm, "deriveSessionKey:reassigns-param")
					}
				}
			}
			return true
		})
	}
	for _, f := range []*ast.File{cs, cm} {
		for _, d := range f.Decls {
			fd, ok := d.(*ast.FuncDecl)
			if !ok || fd.Body == nil {
				continue
			}
			for _, c := range calls(fd, "deriveSessionKey") {
				if len(c.Args) > 0 {
					ikm = append(ikm, fd.Name.Name+":deriveSessionKey("+types.ExprString(c.Args[0])+")")
				}
			}
			for _, c := range calls(fd, "deriveClaimKeyInfo") {
				if len(c.Args) > 1 {
					ikm = append(ikm, fd.Name.Name+":deriveClaimKeyInfo(_, "+types.ExprString(c.Args[1])+")")
				}
			}
			ast.Inspect(fd.Body, func(n ast.Node) bool {
				if as, ok := n.(*ast.AssignStmt); ok {
					for i, l := range as.Lhs {
						if id, ok := l.(*ast.Ident); ok && id.Name == "secret" {
							rhs := as.Rhs[0]
							if i < len(as.Rhs) && len(as.Rhs) == len(as.Lhs) {
								rhs = as.Rhs[i]
							}
							ikm = append(ikm, fd.Name.Name+":secret"+as.Tok.String()+types.ExprString(rhs))
						}
					}
				}
				return true
			})
		}
	}

	// 3. grammar: which strings functions find the '#' and the ']' in ParseClaimIDStrict
	var grammar []string
	ps := fn(cs, "ParseClaimIDStrict")
	if ps == nil {
		return fmt.Errorf("ParseClaimIDStrict not found")
	}
	ast.Inspect(ps.Body, func(n ast.Node) bool {
		if c, ok := n.(*ast.CallExpr); ok && strings.HasPrefix(sel(c.Fun), "strings.") && len(c.Args) == 2 {
			if lit, ok := strLit(c.Args[1]); ok {
				grammar = append(grammar, sel(c.Fun)+"("+lit+")")
			}
		}
		return true
	})
	// 4. cipher list rewrites
	var rewrites []string
	for _, p := range []struct {
		f    *ast.File
		name string
	}{{cm, "ExportSecSessionInfo"}, {cs, "ImportSecSessionInfo"}} {
		for _, c := range calls(fn(p.f, p.name), "strings.ReplaceAll") {
			if len(c.Args) == 3 {
				a, ok1 := strLit(c.Args[1])
				b, ok2 := strLit(c.Args[2])
				if ok1 && ok2 {
					rewrites = append(rewrites, p.name+":"+a+"->"+b)
				}
			}
		}
	}
	// 5. unexported constant fileTransferSessionPrefix
	ftPrefix, found := "", false
	for _, d := range cs.Decls {
		gd, ok := d.(*ast.GenDecl)
		if !ok || gd.Tok != token.CONST {
			continue
		}
		for _, sp := range gd.Specs {
			vs := sp.(*ast.ValueSpec)
			for i, n := range vs.Names {
				if n.Name == "fileTransferSessionPrefix" && i < len(vs.Values) {
					ftPrefix, found = strLit(vs.Values[i])
				}
			}
		}
	}
	if !found {
		return fmt.Errorf("constant fileTransferSessionPrefix not found")
	}

	w.WriteString("(* GENERATED by harness/cmd/vh-c16 (facts) from /repo's current source. Do not edit. *)\n")
	w.WriteString("From Coq Require Import List NArith String.\nFrom Cedar Require Import Lib.Bytes.\nImport ListNotations.\nLocal Open Scope string_scope.\n")
	h := func(s string) string { return core.Hex([]byte(s)) }
	hl := func(xs []string) string {
		ts := make([]string, len(xs))
		for i, x := range xs {
			ts[i] = h(x)
		}
		return "[" + strings.Join(ts, "; ") + "]"
	}
	fmt.Fprintf(w, "Definition kdf_salt : bytes := %s.\n", h(salt))
	fmt.Fprintf(w, "Definition kdf_info : bytes := %s.\n", h(info))
	fmt.Fprintf(w, "Definition claim_key_lens : list bytes := %s.\n", hl(lens))
	fmt.Fprintf(w, "Definition key_material_flow : list bytes := %s.\n", hl(ikm))
	fmt.Fprintf(w, "Definition strict_grammar_calls : list bytes := %s.\n", hl(grammar))
	fmt.Fprintf(w, "Definition cipher_rewrites : list bytes := %s.\n", hl(rewrites))
	fmt.Fprintf(w, "Definition ft_prefix : bytes := %s.\n", h(ftPrefix))
	fmt.Fprintf(w, "Definition submit_side_fqu : bytes := %s.\n", h(security.SubmitSideMatchSessionFQU))
	fmt.Fprintf(w, "Definition execute_side_fqu : bytes := %s.\n", h(security.ExecuteSideMatchSessionFQU))
	fmt.Fprintf(w, "Definition auth_method_match : bytes := %s.\n", h(security.AuthMethodMatch))
	fmt.Fprintf(w, "Definition secret_random_bytes : N := %d%%N.\n", security.VerifC16SecretLen)
	return nil
}
