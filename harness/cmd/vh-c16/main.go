// vh-c16: correspondence + direct property oracle for C16 (a minted claim id and
// its import yield one shared, working session; the public form never contains
// the secret; the policy text round-trips).
package main

import (
	"bytes"
	"context"
	"crypto/hmac"
	"crypto/sha256"
	"encoding/json"
	"fmt"
	"io"
	"log/slog"
	"math"
	"net"
	"regexp"
	"sort"
	"strconv"
	"strings"
	"time"

	"verifharness/core"

	"github.com/PelicanPlatform/classad/classad"
	"github.com/bbockelm/cedar/message"
	"github.com/bbockelm/cedar/security"
	"github.com/bbockelm/cedar/stream"
)

// ---------------------------------------------------------------------------
// independent reference pieces (written from the HTCondor documentation of the
// claim id, not from cedar's code)

// specHKDF is HKDF-SHA256 (RFC 5869) with HTCondor's parameters for
// CONDOR_AESGCM session keys: salt "htcondor", info "keygen".
func specHKDF(secret []byte, n int) []byte {
	ext := hmac.New(sha256.New, []byte("htcondor"))
	ext.Write(secret)
	prk := ext.Sum(nil)
	var out, t []byte
	for i := byte(1); len(out) < n; i++ {
		h := hmac.New(sha256.New, prk)
		h.Write(t)
		h.Write([]byte("keygen"))
		h.Write([]byte{i})
		t = h.Sum(nil)
		out = append(out, t...)
	}
	return out[:n]
}

// specSplit cuts a claim id <sid>#[info]key the way ClaimIdParser does.
func specSplit(claim string) (sid, info, key string, ok bool) {
	h := strings.LastIndexByte(claim, '#')
	if h < 0 || h+1 >= len(claim) || claim[h+1] != '[' {
		return "", "", "", false
	}
	rb := strings.LastIndexByte(claim, ']')
	if rb < h {
		return "", "", "", false
	}
	return claim[:h], claim[h+1 : rb+1], claim[rb+1:], true
}

var reExpires = regexp.MustCompile(`[\[;]SessionExpires=(-?[0-9]+);`)

func textExpires(info string) int64 {
	m := reExpires.FindStringSubmatch(info)
	if m == nil {
		return 0
	}
	n, _ := strconv.ParseInt(m[1], 10, 64)
	return n
}

// ---------------------------------------------------------------------------
// Coq term printers

// rawLit prints a byte string as a Coq term: (lit "...") for printable ASCII, hex otherwise.
func rawLit(s string) string {
	for i := 0; i < len(s); i++ {
		if s[i] < 32 || s[i] > 126 {
			return core.Hex([]byte(s))
		}
	}
	return `(lit "` + strings.ReplaceAll(s, `"`, `""`) + `")`
}

// shared strings of the case being printed: the session id is bound to s_ and the
// secret to k_ by wrap(), so that the long literals are elaborated once per case.
type shr struct{ sid, secret string }

var cur shr

func appT(parts ...string) string {
	var ps []string
	for _, p := range parts {
		if p != "" {
			ps = append(ps, p)
		}
	}
	switch len(ps) {
	case 0:
		return rawLit("")
	case 1:
		return ps[0]
	}
	t := ps[len(ps)-1]
	for i := len(ps) - 2; i >= 0; i-- {
		t = "(app " + ps[i] + " " + t + ")"
	}
	return t
}
func litOrEmpty(s string) string {
	if s == "" {
		return ""
	}
	return rawLit(s)
}
func tail(s string) string {
	if cur.secret != "" && strings.HasSuffix(s, cur.secret) {
		return appT(litOrEmpty(s[:len(s)-len(cur.secret)]), "k_")
	}
	return litOrEmpty(s)
}
func hx(s string) string {
	if cur.sid != "" {
		if i := strings.Index(s, cur.sid); i >= 0 {
			return appT(litOrEmpty(s[:i]), "s_", tail(s[i+len(cur.sid):]))
		}
	}
	return appT(tail(s))
}
func wrap(term string) string {
	if cur.sid == "" {
		return term
	}
	t := term
	if cur.secret != "" {
		t = "(let k_ := " + rawLit(cur.secret) + " in " + t + ")"
	}
	return "(let s_ := " + rawLit(cur.sid) + " in " + t + ")"
}

func zlist(xs []int) string {
	ts := make([]string, len(xs))
	for i, x := range xs {
		ts[i] = core.Z(int64(x))
	}
	return core.List(ts)
}
func hxlist(xs []string) string {
	ts := make([]string, len(xs))
	for i, x := range xs {
		ts[i] = hx(x)
	}
	return core.List(ts)
}

type pv struct {
	Name string `json:"n"`
	Kind string `json:"k"` // s i b
	S    string `json:"s,omitempty"`
	I    int64  `json:"i,omitempty"`
	B    bool   `json:"b,omitempty"`
}

func (p pv) term() string {
	switch p.Kind {
	case "s":
		return "(" + hx(p.Name) + ", PStr " + hx(p.S) + ")"
	case "i":
		return "(" + hx(p.Name) + ", PInt " + core.Z(p.I) + ")"
	default:
		return "(" + hx(p.Name) + ", PBool " + core.Bool(p.B) + ")"
	}
}
func policyTerm(ps []pv) string {
	ts := make([]string, len(ps))
	for i, p := range ps {
		ts[i] = p.term()
	}
	return core.List(ts)
}

// projectPolicy lists every attribute of a ClassAd as (name, typed value), sorted.
func projectPolicy(ad *classad.ClassAd) ([]pv, error) {
	var out []pv
	names := ad.GetAttributes()
	sort.Strings(names)
	for _, n := range names {
		if s, ok := ad.EvaluateAttrString(n); ok {
			out = append(out, pv{Name: n, Kind: "s", S: s})
		} else if i, ok := ad.EvaluateAttrInt(n); ok {
			out = append(out, pv{Name: n, Kind: "i", I: i})
		} else if b, ok := ad.EvaluateAttrBool(n); ok {
			out = append(out, pv{Name: n, Kind: "b", B: b})
		} else {
			return nil, fmt.Errorf("attribute %s has an unexpected type", n)
		}
	}
	return out, nil
}

func pget(ps []pv, n string) (pv, bool) {
	for _, p := range ps {
		if p.Name == n {
			return p, true
		}
	}
	return pv{}, false
}
func pstr(ps []pv, n string) string {
	if p, ok := pget(ps, n); ok && p.Kind == "s" {
		return p.S
	}
	return "\x00absent"
}

type entryObs struct {
	ID, Addr, Proto, Tag string
	Key                  []byte
	Policy               []pv
	ExpZero              bool
	ExpSecs, ExpNsec     int64
	LeaseNs              int64
	Inherited            bool
}

func observeEntry(e *security.SessionEntry) (entryObs, error) {
	var o entryObs
	o.ID, o.Addr, o.Tag = e.ID(), e.Addr(), e.Tag()
	if ki := e.KeyInfo(); ki != nil {
		o.Key, o.Proto = append([]byte(nil), ki.Data...), ki.Protocol
	}
	ps, err := projectPolicy(e.Policy())
	if err != nil {
		return o, err
	}
	o.Policy = ps
	t := e.Expiration()
	o.ExpZero = t.IsZero()
	if !o.ExpZero {
		o.ExpSecs, o.ExpNsec = t.Unix(), int64(t.Nanosecond())
	}
	o.LeaseNs = int64(e.Lease())
	o.Inherited = e.IsInherited()
	return o, nil
}

func keyTerm(key []byte, secrets ...string) string {
	for _, s := range secrets {
		if s != "" && bytes.Equal(key, specHKDF([]byte(s), len(key))) {
			return fmt.Sprintf("(Kdf %s %s %d %s)", rawLit("htcondor"), rawLit("keygen"), len(key), hx(s))
		}
	}
	return "(KRaw " + core.Hex(key) + ")"
}

func (o entryObs) term(secrets ...string) string {
	exp := "OXNone"
	if !o.ExpZero {
		exp = "(OXAt " + core.Z(o.ExpSecs) + " " + core.Z(o.ExpNsec) + ")"
	}
	return "(Build_oentry " + strings.Join([]string{hx(o.ID), hx(o.Addr), keyTerm(o.Key, secrets...), hx(o.Proto),
		policyTerm(o.Policy), exp, core.Z(o.LeaseNs), hx(o.Tag), core.Bool(o.Inherited)}, " ") + ")"
}

func cmdKeys(c *security.SessionCache, sid string) ([]string, bool) {
	m := security.VerifC16CommandMap(c)
	ks := make([]string, 0, len(m))
	all := true
	for k, v := range m {
		ks = append(ks, k)
		if v != sid {
			all = false
		}
	}
	sort.Strings(ks)
	return ks, all
}

// ---------------------------------------------------------------------------
// minting options as data

type mintOpts struct {
	Sinful   string `json:"sinful"`
	Birth    int64  `json:"birth"`
	Seq      int    `json:"seq"`
	PeerFQU  string `json:"fqu,omitempty"`
	PeerAddr string `json:"addr,omitempty"`
	Enc      *bool  `json:"enc,omitempty"`
	Integ    *bool  `json:"integ,omitempty"`
	Crypto   string `json:"crypto,omitempty"`
	Version  string `json:"version,omitempty"`
	LifeNs   int64  `json:"life_ns,omitempty"`
	Extra    []int  `json:"extra,omitempty"`
	Valid    []int  `json:"valid,omitempty"`
	Tag      string `json:"tag,omitempty"`
}

func (o mintOpts) real() security.MintClaimOptions {
	return security.MintClaimOptions{Sinful: o.Sinful, Birthdate: o.Birth, SequenceNum: o.Seq, PeerFQU: o.PeerFQU,
		PeerAddr: o.PeerAddr, Encryption: o.Enc, Integrity: o.Integ, CryptoMethods: o.Crypto, RemoteVersion: o.Version,
		Lifetime: time.Duration(o.LifeNs), ExtraValidCommands: o.Extra, ValidCommands: o.Valid, Tag: o.Tag}
}
func optBool(b *bool) string {
	if b == nil {
		return "None"
	}
	return "(Some " + core.Bool(*b) + ")"
}
func (o mintOpts) term() string {
	return "(Build_mint_opts " + strings.Join([]string{hx(o.Sinful), core.Z(o.Birth), core.Z(int64(o.Seq)), hx(o.PeerFQU), hx(o.PeerAddr),
		optBool(o.Enc), optBool(o.Integ), hx(o.Crypto), hx(o.Version), core.Z(o.LifeNs), zlist(o.Extra), zlist(o.Valid), hx(o.Tag)}, " ") + ")"
}

type impOpts struct {
	PeerAddr string `json:"addr,omitempty"`
	PeerFQU  string `json:"fqu,omitempty"`
	DurNs    int64  `json:"dur_ns,omitempty"`
	Tag      string `json:"tag,omitempty"`
	Extra    []int  `json:"extra,omitempty"`
}

func (o impOpts) real() security.ClaimSessionOptions {
	return security.ClaimSessionOptions{PeerAddr: o.PeerAddr, PeerFQU: o.PeerFQU, Duration: time.Duration(o.DurNs), Tag: o.Tag, ExtraValidCommands: o.Extra}
}
func (o impOpts) term() string {
	return "(Build_import_opts " + strings.Join([]string{hx(o.PeerAddr), hx(o.PeerFQU), core.Z(o.DurNs), hx(o.Tag), zlist(o.Extra)}, " ") + ")"
}

// ---------------------------------------------------------------------------
// real handshake over net.Pipe naming the session explicitly

var bg = context.Background()

type hsResult struct {
	CliErr, SrvErr         string
	CliResumed, SrvResumed bool
	CliEnc, SrvEnc         bool
	SrvUser                string
	SrvCmd                 int
	SrvAuth                string
	Got, Back              string
	CliAuth                string
}

func (r hsResult) delivered() bool { return r.Got != "" || r.Back != "" }

// works: the session was resumed on both sides (no fresh handshake), the stream
// is encrypted, and a payload made the round trip.
func (r hsResult) works(ping string) bool {
	return r.CliErr == "" && r.SrvErr == "" && r.CliResumed && r.SrvResumed && r.CliEnc && r.SrvEnc &&
		r.Got == ping && r.Back == "pong:"+ping
}

func handshake(cli, srv *security.SessionCache, sid string, cmd int, ping string) (r hsResult) {
	sc, cc := net.Pipe()
	defer sc.Close()
	defer cc.Close()
	ctx, cancel := context.WithTimeout(bg, 5*time.Second)
	defer cancel()
	dl := time.Now().Add(5 * time.Second)
	_ = sc.SetDeadline(dl)
	_ = cc.SetDeadline(dl)
	done := make(chan struct{})
	go func() {
		defer close(done)
		defer func() {
			if p := recover(); p != nil {
				r.SrvErr = fmt.Sprint("panic: ", p)
				sc.Close()
			}
		}()
		ss := stream.NewStream(sc)
		a := security.NewAuthenticator(&security.SecurityConfig{
			AuthMethods:    []security.AuthMethod{security.AuthFS},
			Authentication: security.SecurityOptional,
			CryptoMethods:  []security.CryptoMethod{security.CryptoAES},
			Encryption:     security.SecurityOptional,
			SessionCache:   srv,
		}, ss)
		neg, err := a.ServerHandshake(ctx)
		if err != nil {
			r.SrvErr = "handshake"
			sc.Close()
			return
		}
		r.SrvResumed, r.SrvEnc, r.SrvUser, r.SrvCmd, r.SrvAuth = neg.SessionResumed, ss.IsEncrypted(), neg.User, neg.Command, string(neg.NegotiatedAuth)
		m := message.NewMessageFromStream(ss)
		s, err := m.GetString(ctx)
		if err != nil {
			r.SrvErr = "read"
			sc.Close()
			return
		}
		r.Got = s
		o := message.NewMessageForStream(ss)
		_ = o.PutString(ctx, "pong:"+s)
		if err := o.FinishMessage(ctx); err != nil {
			r.SrvErr = "write"
		}
	}()
	func() {
		defer func() {
			if p := recover(); p != nil {
				r.CliErr = fmt.Sprint("panic: ", p)
				cc.Close()
			}
		}()
		cs := stream.NewStream(cc)
		a := security.NewAuthenticator(&security.SecurityConfig{Command: cmd, SessionCache: cli, SessionID: sid}, cs)
		neg, err := a.ClientHandshake(ctx)
		if err != nil {
			r.CliErr = "handshake"
			cc.Close()
			return
		}
		r.CliResumed, r.CliEnc, r.CliAuth = neg.SessionResumed, cs.IsEncrypted(), string(neg.NegotiatedAuth)
		o := message.NewMessageForStream(cs)
		_ = o.PutString(ctx, ping)
		if err := o.FinishMessage(ctx); err != nil {
			r.CliErr = "write"
			cc.Close()
			return
		}
		m := message.NewMessageFromStream(cs)
		s, err := m.GetString(ctx)
		if err != nil {
			r.CliErr = "read"
			cc.Close()
			return
		}
		r.Back = s
	}()
	<-done
	return r
}

// ---------------------------------------------------------------------------
// the mint x import scenario: cases for the model + the direct oracle

type scenario struct {
	Kind    string   `json:"kind"` // "mint"
	Opts    mintOpts `json:"opts"`
	Imp     impOpts  `json:"imp"`
	Corrupt int      `json:"corrupt"` // how many corruption positions to drive through a real handshake: -1 all
	Hs      bool     `json:"hs"`
}

type fail struct{ key, desc string }

type sink interface {
	AddCase(term string, desc interface{})
	OracleCheck()
	Count(kind string)
}
type nullSink struct{}

func (nullSink) AddCase(string, interface{}) {}
func (nullSink) OracleCheck()                {}
func (nullSink) Count(string)                {}

func yesNo(b *bool) string {
	if b == nil || *b {
		return "YES"
	}
	return "NO"
}
func joinInts(xs []int) string {
	ss := make([]string, len(xs))
	for i, x := range xs {
		ss[i] = strconv.Itoa(x)
	}
	return strings.Join(ss, ",")
}

// expected short version for the version strings the generator uses (tabulated by hand)
var versionPool = []struct{ full, short string }{
	{"", ""},
	{"25.4.0", "25.4.0"},
	{"$CondorVersion: 25.4.0 2025-10-31 BuildID: 847437 PackageID: 25.4.0-0.847437 GitSHA: a6507f91 RC $", "25.4.0"},
	{"$CondorVersion: 9.0.17 Sep 29 2022 $", "9.0.17"},
	{"$CondorVersion: 10.0.1, Jan 01 2026 $", "10.0.1"},
	{"$CondorVersion: unknown $", "$CondorVersion: unknown $"},
	{"10.9", "10.9"},
	{"25.4#0", "25.4#0"},                                     // '#': cannot be carried, mint must refuse
	{"9.x;1", "9.x;1"},                                       // ';'
	{`1";SessionExpires=5;X="`, `1";SessionExpires=5;X="`}, // would smuggle a second SessionExpires
	{"$CondorVersion: 9.0.1;, x $", "9.0.1"},                 // trailing ";," is stripped: representable
}

// specShort: the documented short form of a version string, written from the doc comment of
// shortVersion (no blank and no '$': unchanged; else the first blank-separated token that contains
// a '.' and starts with a digit, without trailing ';' / ','; else unchanged).
func specShort(full string) string {
	if !strings.ContainsAny(full, " $") {
		return full
	}
	for _, tok := range strings.Fields(full) {
		if strings.Contains(tok, ".") && tok[0] >= '0' && tok[0] <= '9' {
			return strings.TrimRight(tok, ";,")
		}
	}
	return full
}

// unrepresentable: a cipher list / version that cannot be carried inside a claim id: '#' ends the
// session id, ';' ends an attribute, '.' is the in-claim list delimiter.
func unrepresentable(crypto, version string) bool {
	if crypto == "" {
		crypto = "AES"
	}
	return strings.ContainsAny(crypto, "#;.") || (version != "" && strings.ContainsAny(specShort(version), "#;"))
}

func shortOf(full string) (string, bool) {
	for _, v := range versionPool {
		if v.full == full {
			return v.short, true
		}
	}
	return "", false
}

func hasSecretWindow(text, secret string, w int) bool {
	if len(secret) < w {
		return secret != "" && strings.Contains(text, secret)
	}
	for i := 0; i+w <= len(secret); i++ {
		if strings.Contains(text, secret[i:i+w]) {
			return true
		}
	}
	return false
}

func otherHex(c byte, k int) byte {
	const hexd = "0123456789abcdef"
	for i := 0; i < 16; i++ {
		d := hexd[(k+i)%16]
		if d != c {
			return d
		}
	}
	return 'x'
}

func isLowerHex(s string) bool {
	for i := 0; i < len(s); i++ {
		if !(s[i] >= '0' && s[i] <= '9' || s[i] >= 'a' && s[i] <= 'f') {
			return false
		}
	}
	return true
}

// runScenario drives the real code.  It returns the oracle failures.
func runScenario(sc scenario, out sink, rnd func(int) int) (fails []fail) {
	bad := func(key, f string, a ...interface{}) { fails = append(fails, fail{key, fmt.Sprintf(f, a...)}) }
	defer func() {
		if p := recover(); p != nil {
			bad("panic", "panic in claim code: %v", p)
		}
	}()
	o := sc.Opts
	A := security.NewSessionCache()
	lo := time.Now().UnixNano()
	mc, err := security.MintClaimSession(A, o.real())
	hi := time.Now().UnixNano()
	desc := sc
	first := strings.TrimSpace(strings.SplitN(func() string {
		if o.Crypto == "" {
			return "AES"
		}
		return o.Crypto
	}(), ",", 2)[0])
	wantErr := o.Sinful == "" || (first != "AES" && first != "AESGCM") || unrepresentable(o.Crypto, o.Version)
	out.OracleCheck()
	if err != nil {
		out.AddCase(fmt.Sprintf("(CMint %s %s %s %s %s None)", o.term(), hx("00"), core.Z(0), core.Z(lo), core.Z(hi)), desc)
		out.Count("mint-error")
		if !wantErr {
			bad("mint-refused", "MintClaimSession refused legal options: %v", err)
		}
		return
	}
	if wantErr {
		bad("mint-accepted", "MintClaimSession accepted options it documents as illegal (crypto %q)", o.Crypto)
	}
	claim, sid, pub := mc.ClaimID(), mc.SessionID(), mc.PublicClaimID()
	out.Count("mint-ok")

	// -- grammar, independently of cedar's parser
	wantSid := fmt.Sprintf("%s#%d#%d", o.Sinful, o.Birth, o.Seq)
	out.OracleCheck()
	if sid != wantSid {
		bad("sid", "session id %q, want %q", sid, wantSid)
	}
	ssid, sinfo, secret, ok := specSplit(claim)
	out.OracleCheck()
	if !ok || ssid != wantSid || !strings.HasPrefix(claim, wantSid+"#[") {
		bad("grammar", "claim id %q is not <sid>#[info]key for sid %q", claim, wantSid)
		return
	}
	out.OracleCheck()
	if len(secret) != 2*security.VerifC16SecretLen || !isLowerHex(secret) {
		bad("secret-shape", "secret %q is not %d lowercase hex characters", secret, 2*security.VerifC16SecretLen)
	}
	sessExp := textExpires(sinfo)
	cur = shr{sid: wantSid, secret: secret}
	defer func() { cur = shr{} }()

	entA, okA := security.VerifC16Entry(A, sid)
	out.OracleCheck()
	if !okA {
		bad("mint-not-registered", "minted session %q is not in the minter's cache", sid)
		return
	}
	obsA, err := observeEntry(entA)
	if err != nil {
		bad("policy-type", "%v", err)
		return
	}
	cmdsA, allA := cmdKeys(A, sid)
	out.AddCase(wrap(fmt.Sprintf("(CMint %s %s %s %s %s (Some (%s, %s, %s, %s, %s)))", o.term(), hx(secret), core.Z(sessExp), core.Z(lo), core.Z(hi),
		hx(claim), hx(pub), hx(sid), obsA.term(secret), hxlist(cmdsA))), desc)

	// -- cedar's own strict parser on the minted text
	p := security.ParseClaimIDStrict(claim)
	out.OracleCheck()
	if p.SecSessionID() != wantSid || p.SecSessionInfo() != sinfo || p.SecSessionKey() != secret {
		bad("parse-mint", "ParseClaimIDStrict(%q) = (%q, %q, %q), minted (%q, %q, <secret>)", claim, p.SecSessionID(), p.SecSessionInfo(), p.SecSessionKey(), wantSid, sinfo)
	}

	// -- the public form
	for name, text := range map[string]string{"MintedClaim.PublicClaimID": pub, "ParseClaimIDStrict.PublicClaimID": p.PublicClaimID(),
		"ParseClaimID.PublicClaimID": security.ParseClaimID(claim).PublicClaimID(), "SessionID": sid} {
		out.OracleCheck()
		// a public form that is a prefix of the session id (+ "#...") carries only public data; anything
		// else is scanned, with the session id itself cut out so that its own digits cannot collide
		body := strings.TrimSuffix(text, "#...")
		if strings.HasPrefix(wantSid, body) {
			continue
		}
		if hasSecretWindow(strings.ReplaceAll(text, wantSid, ""), secret, 6) {
			bad("public-leaks-secret", "%s = %q contains part of the secret %q", name, text, secret)
		}
	}
	// the same identifiers in the shapes a pool hands out when match-password sessions are off
	// (no [session_info] block), and degenerate ones: no public rendering may show the secret
	for _, v := range []string{claim, wantSid + "#" + secret, o.Sinful + "#" + secret, "#" + secret, wantSid + "#" + sinfo, wantSid + "##" + secret, wantSid + "#" + secret + "]", wantSid + "#[" + secret} {
		out.OracleCheck()
		for _, f := range publicOracle(v) {
			fails = append(fails, f)
		}
	}
	out.OracleCheck()
	if pub != wantSid+"#..." || p.PublicClaimID() != pub {
		bad("public-form", "public claim id %q / %q, want %q", pub, p.PublicClaimID(), wantSid+"#...")
	}

	// -- minter's entry reflects the options
	check := func(side string, e entryObs, fqu, defFqu, addr, tag string) {
		out.OracleCheck()
		if e.ID != wantSid || e.Addr != addr || e.Tag != tag || e.LeaseNs != 0 || !e.Inherited {
			bad("entry-fields", "%s entry id/addr/tag/lease/inherited = %q/%q/%q/%d/%v", side, e.ID, e.Addr, e.Tag, e.LeaseNs, e.Inherited)
		}
		out.OracleCheck()
		if e.Proto != "AESGCM" || len(e.Key) != 32 || !bytes.Equal(e.Key, specHKDF([]byte(secret), 32)) {
			bad("key-not-hkdf", "%s key (%s, %d bytes) is not HKDF-SHA256(secret, salt htcondor, info keygen)", side, e.Proto, len(e.Key))
		}
		want := map[string]string{"Encryption": yesNo(o.Enc), "Integrity": yesNo(o.Integ), "CryptoMethods": "AESGCM",
			"AuthMethods": "MATCH", "Sid": wantSid, "SecUseSession": "YES", "Enact": "YES"}
		if fqu == "" {
			fqu = defFqu
		}
		want["User"] = fqu
		if len(o.Valid) > 0 {
			want["ValidCommands"] = joinInts(o.Valid)
		} else {
			want["ValidCommands"] = "\x00absent"
		}
		if sv, known := shortOf(o.Version); known {
			if sv == "" {
				sv = "\x00absent"
			}
			want["RemoteVersion"] = sv
		}
		for _, n := range sortedKeys(want) {
			out.OracleCheck()
			if got := pstr(e.Policy, n); got != want[n] {
				bad("policy-"+n, "%s policy %s = %q, want %q (options %+v)", side, n, strings.TrimPrefix(got, "\x00"), strings.TrimPrefix(want[n], "\x00"), o)
			}
		}
		out.OracleCheck()
		if a, ok := pget(e.Policy, "Authenticated"); !ok || a.Kind != "b" || !a.B {
			bad("policy-Authenticated", "%s policy is not marked Authenticated", side)
		}
	}
	check("minter", obsA, o.PeerFQU, security.SubmitSideMatchSessionFQU, o.PeerAddr, o.Tag)

	// expiry: SessionExpires in the text, in the policy and on the entry are one absolute time
	out.OracleCheck()
	if o.LifeNs > 0 {
		addSecs := func(now, d int64) int64 { return now/1e9 + d/1e9 + (now%1e9+d%1e9)/1e9 } // no int64 overflow
		eLo, eHi := addSecs(lo, o.LifeNs), addSecs(hi, o.LifeNs)
		if sessExp < eLo || sessExp > eHi {
			bad("expiry-text", "SessionExpires in the claim text is %d, want now+lifetime in [%d,%d]", sessExp, eLo, eHi)
		}
		if obsA.ExpZero || obsA.ExpSecs != sessExp || obsA.ExpNsec != 0 {
			bad("expiry-minter", "minter entry expires at %d.%09d (zero=%v), claim text says %d", obsA.ExpSecs, obsA.ExpNsec, obsA.ExpZero, sessExp)
		}
		if pstr(obsA.Policy, "SessionExpires") != strconv.FormatInt(sessExp, 10) {
			bad("expiry-policy", "minter policy SessionExpires = %q, claim text says %d", pstr(obsA.Policy, "SessionExpires"), sessExp)
		}
	} else if sessExp != 0 || !obsA.ExpZero {
		bad("expiry-unbounded", "no lifetime requested but SessionExpires=%d / entry expiry zero=%v", sessExp, obsA.ExpZero)
	}

	// command map of the minter
	wantCmds := func(addr, tag string, extra []int) []string {
		if addr == "" {
			return nil
		}
		set := map[string]bool{}
		for _, c := range append(append([]int{}, o.Valid...), extra...) {
			k := fmt.Sprintf("{%s,<%d>}", addr, c)
			if tag != "" {
				k = fmt.Sprintf("{%s,%s,<%d>}", tag, addr, c)
			}
			set[k] = true
		}
		ks := make([]string, 0, len(set))
		for k := range set {
			ks = append(ks, k)
		}
		sort.Strings(ks)
		return ks
	}
	out.OracleCheck()
	if w := wantCmds(o.PeerAddr, o.Tag, o.Extra); !allA || strings.Join(w, "|") != strings.Join(cmdsA, "|") {
		bad("cmdmap-minter", "minter command map %v, want %v -> %q", cmdsA, w, sid)
	}

	// -- import on a second cache
	B := security.NewSessionCache()
	ilo := time.Now().UnixNano()
	isid, ierr := security.ImportClaimSession(B, claim, sc.Imp.real())
	ihi := time.Now().UnixNano()
	out.OracleCheck()
	if ierr != nil {
		out.AddCase(wrap(fmt.Sprintf("(CImport false %s %s %s %s None)", hx(claim), sc.Imp.term(), core.Z(ilo), core.Z(ihi))), desc)
		bad("import-refused", "ImportClaimSession refused a freshly minted claim id: %v", ierr)
		return
	}
	out.OracleCheck()
	if isid != sid {
		bad("sid-differs", "importer's session id %q differs from the minter's %q", isid, sid)
	}
	entB, okB := security.VerifC16Entry(B, isid)
	if !okB {
		bad("import-not-registered", "imported session %q is not in the importer's cache", isid)
		return
	}
	obsB, err := observeEntry(entB)
	if err != nil {
		bad("policy-type", "%v", err)
		return
	}
	cmdsB, allB := cmdKeys(B, isid)
	out.AddCase(wrap(fmt.Sprintf("(CImport false %s %s %s %s (Some (%s, %s, %s)))", hx(claim), sc.Imp.term(), core.Z(ilo), core.Z(ihi),
		hx(isid), obsB.term(secret), hxlist(cmdsB))), desc)
	check("importer", obsB, sc.Imp.PeerFQU, security.ExecuteSideMatchSessionFQU, sc.Imp.PeerAddr, sc.Imp.Tag)
	out.OracleCheck()
	if w := wantCmds(sc.Imp.PeerAddr, sc.Imp.Tag, sc.Imp.Extra); !allB || strings.Join(w, "|") != strings.Join(cmdsB, "|") {
		bad("cmdmap-importer", "importer command map %v, want %v -> %q", cmdsB, w, isid)
	}

	// -- the two entries, field by field
	out.OracleCheck()
	if !bytes.Equal(obsA.Key, obsB.Key) || obsA.Proto != obsB.Proto {
		bad("key-differs", "minter and importer derived different keys for claim %q", wantSid)
	}
	for _, n := range []string{"Encryption", "Integrity", "CryptoMethods", "ValidCommands", "SessionExpires", "RemoteVersion", "AuthMethods", "Sid", "SecUseSession", "Enact"} {
		out.OracleCheck()
		if a, b := pstr(obsA.Policy, n), pstr(obsB.Policy, n); a != b {
			bad("policy-differs-"+n, "minter has %s=%q, importer has %q", n, strings.TrimPrefix(a, "\x00"), strings.TrimPrefix(b, "\x00"))
		}
	}
	out.OracleCheck()
	if len(obsA.Policy) != len(obsB.Policy) {
		bad("policy-differs-attrs", "minter policy has %d attributes, importer %d", len(obsA.Policy), len(obsB.Policy))
	}
	out.OracleCheck()
	if o.LifeNs > 0 || sc.Imp.DurNs <= 0 {
		if obsA.ExpZero != obsB.ExpZero || obsA.ExpSecs != obsB.ExpSecs || obsA.ExpNsec != obsB.ExpNsec {
			bad("expiry-differs", "minter expires %d.%09d (zero=%v), importer %d.%09d (zero=%v)", obsA.ExpSecs, obsA.ExpNsec, obsA.ExpZero, obsB.ExpSecs, obsB.ExpNsec, obsB.ExpZero)
		}
	} else {
		t := obsB.ExpSecs*1e9 + obsB.ExpNsec
		if obsB.ExpZero || t < ilo+sc.Imp.DurNs || t > ihi+sc.Imp.DurNs {
			bad("expiry-fallback", "importer fallback duration not applied")
		}
	}

	// -- file-transfer session derived from the same claim, on two caches
	B2, D := security.NewSessionCache(), security.NewSessionCache()
	flo := time.Now().UnixNano()
	ftB, errB := security.ImportFileTransferSession(B2, claim, sc.Imp.real())
	fhi := time.Now().UnixNano()
	ftD, errD := security.ImportFileTransferSession(D, claim, security.ClaimSessionOptions{PeerFQU: security.SubmitSideMatchSessionFQU})
	out.OracleCheck()
	if errB != nil || errD != nil || ftB != "filetrans."+wantSid || ftD != ftB {
		bad("ft-import", "ImportFileTransferSession: %v / %v, ids %q %q", errB, errD, ftB, ftD)
	} else {
		eB, _ := security.VerifC16Entry(B2, ftB)
		eD, _ := security.VerifC16Entry(D, ftD)
		oB, err1 := observeEntry(eB)
		oD, err2 := observeEntry(eD)
		if err1 == nil && err2 == nil {
			cm, _ := cmdKeys(B2, ftB)
			out.AddCase(wrap(fmt.Sprintf("(CImport true %s %s %s %s (Some (%s, %s, %s)))", hx(claim), sc.Imp.term(), core.Z(flo), core.Z(fhi),
				hx(ftB), oB.term(secret), hxlist(cm))), desc)
			out.OracleCheck()
			if !bytes.Equal(oB.Key, obsA.Key) || !bytes.Equal(oD.Key, obsA.Key) || oB.Proto != "AESGCM" {
				bad("ft-key", "file-transfer session key differs from the claim session key")
			}
			out.OracleCheck()
			if pstr(oB.Policy, "Encryption") != "YES" || pstr(oB.Policy, "Integrity") != "YES" || pstr(oB.Policy, "CryptoMethods") != "AESGCM" || pstr(oB.Policy, "Sid") != ftB {
				bad("ft-policy", "file-transfer policy is not the importer's WRITE policy")
			}
		}
	}

	// -- sequences of imports into ONE cache: a later import replaces what an earlier one filed
	fails = append(fails, oneCacheSequences(sc, out, rnd, claim, secret, wantSid, obsA, A)...)

	// -- single-character corruptions of the secret, every position x every class of change:
	// the importer must be refused or hold exactly HKDF(the corrupted secret), never the minter's key
	npos := len(secret)
	base := len(claim) - len(secret)
	var hsPositions []int
	if sc.Corrupt < 0 {
		for i := 0; i < npos; i++ {
			hsPositions = append(hsPositions, i)
		}
	} else {
		for i := 0; i < sc.Corrupt; i++ {
			hsPositions = append(hsPositions, rnd(npos))
		}
		for i := 0; i < npos; i++ { // make sure a letter (case flip possible) is among them
			if secret[i] >= 'a' && secret[i] <= 'f' {
				hsPositions = append(hsPositions, i)
				break
			}
		}
	}
	casesLeft := 2
	for i := 0; i < npos; i++ {
		for _, v := range variants(secret[i], rnd) {
			cb := []byte(claim)
			cb[base+i] = v.b
			cclaim := string(cb)
			C := security.NewSessionCache()
			out.OracleCheck()
			clo := time.Now().UnixNano()
			csid, err := security.ImportClaimSession(C, cclaim, security.ClaimSessionOptions{})
			chi := time.Now().UnixNano()
			if err != nil {
				continue // refusing a corrupted claim is fine
			}
			eC, ok := security.VerifC16Entry(C, csid)
			if !ok || eC.KeyInfo() == nil {
				continue
			}
			out.Count("corrupt-" + v.kind)
			if bytes.Equal(eC.KeyInfo().Data, obsA.Key) {
				bad("corrupt-secret-same-key", "secret[%d] corrupted %q -> %q (%s) still derives the minter's key", i, secret[i], v.b, v.kind)
			}
			_, _, ckey, cok := specSplit(cclaim)
			if cok && !bytes.Equal(eC.KeyInfo().Data, specHKDF([]byte(ckey), 32)) {
				bad("corrupt-secret-key-not-hkdf", "importer of a claim with secret[%d] corrupted %q -> %q (%s) does not hold HKDF(its own secret %q)", i, secret[i], v.b, v.kind, ckey)
			}
			if casesLeft > 0 && (v.kind == "case" || v.kind == "space") {
				casesLeft--
				if obsC, err := observeEntry(eC); err == nil {
					cm, _ := cmdKeys(C, csid)
					out.AddCase(wrap(fmt.Sprintf("(CImport false %s %s %s %s (Some (%s, %s, %s)))", hx(cclaim), impOpts{}.term(), core.Z(clo), core.Z(chi),
						hx(csid), obsC.term(ckey), hxlist(cm))), desc)
				}
			}
		}
	}

	// insertions and deletions (not same-length, so outside C16_corrupted_secret): refused, or the
	// key of exactly what an independent splitter takes as the secret; the minter's key only if that
	// still is the minted secret (a delimiter inserted in front of it)
	for i := 0; i <= npos; i++ {
		var muts []string
		if i < npos {
			muts = append(muts, claim[:base+i]+claim[base+i+1:])
		}
		for _, ins := range []byte{otherHex('0', rnd(16)), ']', '#', ' '} {
			muts = append(muts, claim[:base+i]+string(ins)+claim[base+i:])
		}
		for _, cclaim := range muts {
			C := security.NewSessionCache()
			out.OracleCheck()
			csid, err := security.ImportClaimSession(C, cclaim, security.ClaimSessionOptions{})
			if err != nil {
				continue
			}
			eC, ok := security.VerifC16Entry(C, csid)
			if !ok || eC.KeyInfo() == nil {
				continue
			}
			out.Count("corrupt-indel")
			_, _, ckey, cok := specSplit(cclaim)
			if !cok || !bytes.Equal(eC.KeyInfo().Data, specHKDF([]byte(ckey), 32)) {
				bad("corrupt-secret-key-not-hkdf", "importer of %q (an insertion/deletion in the secret) does not hold HKDF(its own secret %q)", cclaim, ckey)
			}
			if ckey != secret && bytes.Equal(eC.KeyInfo().Data, obsA.Key) {
				bad("corrupt-secret-same-key", "claim %q with an insertion/deletion in the secret still derives the minter's key", cclaim)
			}
		}
	}

	if !sc.Hs {
		return
	}
	// -- a real handshake naming the session, in both directions, then the file-transfer session
	ping := "ping-" + secret[:4]
	out.OracleCheck()
	if r := handshake(B, A, sid, 443, ping); !r.works(ping) || r.SrvUser != obsA.policyUser() || r.SrvCmd != 443 || r.SrvAuth != "MATCH" || r.CliAuth != "MATCH" {
		bad("resume-importer-to-minter", "importer -> minter did not resume the claim session: %+v", r)
	}
	out.OracleCheck()
	if r := handshake(A, B, sid, 444, ping); !r.works(ping) || r.SrvUser != obsB.policyUser() || r.SrvCmd != 444 {
		bad("resume-minter-to-importer", "minter -> importer did not resume the claim session: %+v", r)
	}
	if errB == nil && errD == nil {
		out.OracleCheck()
		if r := handshake(B2, D, ftB, 61000, ping); !r.works(ping) {
			bad("resume-filetrans", "file-transfer session did not resume between two importers: %+v", r)
		}
	}
	out.Count("handshake-pairs")

	// -- single-character corruptions of the secret through real handshakes
	for _, i := range hsPositions {
		for _, v := range variants(secret[i], rnd) {
			if v.kind != "hex" && v.kind != "case" && rnd(4) != 0 {
				continue // the look-alike classes always, the other classes sampled
			}
			cb := []byte(claim)
			cb[base+i] = v.b
			C := security.NewSessionCache()
			csid, err := security.ImportClaimSession(C, string(cb), security.ClaimSessionOptions{})
			if err != nil {
				continue
			}
			// the good side: a fresh cache holding the genuine session (a client drops a session whose
			// resumption failed, by design, so the minter's own cache is not reused across attempts)
			for dir := 0; dir < 2; dir++ {
				G := security.NewSessionCache()
				if _, err := security.ImportClaimSession(G, claim, security.ClaimSessionOptions{PeerFQU: security.SubmitSideMatchSessionFQU}); err != nil {
					bad("import-refused", "ImportClaimSession refused a freshly minted claim id: %v", err)
					return
				}
				out.OracleCheck()
				if dir == 0 {
					if r := handshake(C, G, csid, 443, ping); r.delivered() || r.works(ping) {
						bad("corrupt-secret-resumes", "importer with secret[%d] corrupted %q -> %q (%s) talks to the holder of the genuine session: %+v", i, secret[i], v.b, v.kind, r)
					}
				} else if r := handshake(G, C, sid, 443, ping); r.delivered() || r.works(ping) {
					bad("corrupt-secret-resumes", "holder of the genuine session talks to an importer with secret[%d] corrupted %q -> %q (%s): %+v", i, secret[i], v.b, v.kind, r)
				}
			}
			out.Count("corrupt-handshakes")
		}
	}
	return
}

type seqStep struct {
	ft    bool
	claim string
	io    impOpts
}

func seqTerm(steps []seqStep) string {
	ts := make([]string, len(steps))
	for i, st := range steps {
		ts[i] = "(" + core.Bool(st.ft) + ", " + hx(st.claim) + ", " + st.io.term() + ")"
	}
	return core.List(ts)
}

// runSeq imports the steps into one fresh cache and returns the cache, the entry filed under id
// (or !ok), the CSeq case, and the clock window.
func runSeq(out sink, desc interface{}, steps []seqStep, id string, secrets ...string) (*security.SessionCache, entryObs, bool) {
	S := security.NewSessionCache()
	lo := time.Now().UnixNano()
	for _, st := range steps {
		if st.ft {
			_, _ = security.ImportFileTransferSession(S, st.claim, st.io.real())
		} else {
			_, _ = security.ImportClaimSession(S, st.claim, st.io.real())
		}
	}
	hi := time.Now().UnixNano()
	e, ok := security.VerifC16Entry(S, id)
	head := fmt.Sprintf("(CSeq %s %s %s %s ", seqTerm(steps), hx(id), core.Z(lo), core.Z(hi))
	cm := security.VerifC16CommandMap(S)
	cks := make([]string, 0, len(cm))
	for k := range cm {
		cks = append(cks, k)
	}
	sort.Strings(cks)
	pairs := make([]string, len(cks))
	for i, k := range cks {
		pairs[i] = "(" + hx(k) + ", " + hx(cm[k]) + ")"
	}
	tailT := " " + core.List(pairs) + ")"
	if !ok {
		out.AddCase(wrap(head+"None"+tailT), desc)
		return S, entryObs{}, false
	}
	obs, err := observeEntry(e)
	if err != nil {
		return S, entryObs{}, false
	}
	out.AddCase(wrap(head+"(Some "+obs.term(secrets...)+")"+tailT), desc)
	out.Count("one-cache-sequences")
	return S, obs, true
}

func sameSession(a, b entryObs, withExpiry bool) string {
	if !bytes.Equal(a.Key, b.Key) || a.Proto != b.Proto {
		return "key"
	}
	for _, n := range []string{"Encryption", "Integrity", "CryptoMethods", "ValidCommands", "SessionExpires", "RemoteVersion", "Sid"} {
		if pstr(a.Policy, n) != pstr(b.Policy, n) {
			return "policy " + n
		}
	}
	if withExpiry && (a.ExpZero != b.ExpZero || a.ExpSecs != b.ExpSecs || a.ExpNsec != b.ExpNsec) {
		return "expiry"
	}
	return ""
}

// oneCacheSequences: the importing cache has a history.  (a) a corrupted-secret copy first, then
// the genuine claim; (b) the genuine claim twice; (c) the claim, then a re-issue of the same
// session id (new secret, later expiry); (d) the same for the file-transfer session; (e) a mint
// into a cache that already holds the id.  After each, the entry under the id must be the one
// derived from the LAST text, must agree with its minter, and must resume with it.
func oneCacheSequences(sc scenario, out sink, rnd func(int) int, claim, secret, sid string, obsA entryObs, A *security.SessionCache) (fails []fail) {
	bad := func(key, f string, a ...interface{}) { fails = append(fails, fail{key, fmt.Sprintf(f, a...)}) }
	o := sc.Opts
	ping := "ping-" + secret[:4]
	base := len(claim) - len(secret)
	// the corrupted copy: a case flip if the secret has a letter, else another digit
	pos := rnd(len(secret))
	for i := 0; i < len(secret); i++ {
		if c := secret[(pos+i)%len(secret)]; c >= 'a' && c <= 'f' {
			pos = (pos + i) % len(secret)
			break
		}
	}
	cb := []byte(claim)
	cb[base+pos] = variants(secret[pos], rnd)[rnd(2)%len(variants(secret[pos], rnd))].b
	corrupted := string(cb)
	csecret := corrupted[base:]
	absExpiry := o.LifeNs > 0 // otherwise the importer's (zero) fallback applies: zero on both sides

	// (a) corrupted, then genuine
	S, obs, ok := runSeq(out, sc, []seqStep{{false, corrupted, impOpts{}}, {false, claim, impOpts{}}}, sid, secret, csecret)
	out.OracleCheck()
	if !ok {
		bad("seq-missing", "after import(corrupted) and import(genuine) the cache has no entry for %q", sid)
	} else if d := sameSession(obs, obsA, true); d != "" {
		bad("seq-stale-after-corrupted", "import(corrupted secret) then import(genuine claim) into one cache: the entry differs from the minter's in %s (a stale entry survived)", d)
	} else if sc.Hs {
		out.OracleCheck()
		if r := handshake(S, A, sid, 443, ping); !r.works(ping) {
			bad("seq-stale-after-corrupted", "after import(corrupted) then import(genuine) the importer cannot resume with the minter: %+v", r)
		}
		out.OracleCheck()
		if r := handshake(A, S, sid, 444, ping); !r.works(ping) {
			bad("seq-stale-after-corrupted", "after import(corrupted) then import(genuine) the minter cannot resume with the importer: %+v", r)
		}
	}
	// and the other order: genuine, then corrupted: the entry must be the corrupted one's (not the minter's key)
	_, obs, ok = runSeq(out, sc, []seqStep{{false, claim, impOpts{}}, {false, corrupted, impOpts{}}}, sid, csecret, secret)
	out.OracleCheck()
	if ok && bytes.Equal(obs.Key, obsA.Key) {
		if _, _, ck, cok := specSplit(corrupted); cok && ck != secret {
			bad("seq-last-import-ignored", "import(genuine) then import(corrupted secret): the cache still holds the first key")
		}
	}

	// (b) twice the same
	_, obs2, ok2 := runSeq(out, sc, []seqStep{{false, claim, sc.Imp}, {false, claim, sc.Imp}}, sid, secret)
	out.OracleCheck()
	if !ok2 {
		bad("seq-missing", "after importing the same claim twice the cache has no entry for %q", sid)
	} else if d := sameSession(obs2, obsA, absExpiry || sc.Imp.DurNs <= 0); d != "" {
		bad("seq-not-idempotent", "importing the same claim twice: the entry differs from the minter's in %s", d)
	}

	// (c) re-issue of the same session id: new secret, later expiry
	o2 := o
	if o2.LifeNs > math.MaxInt64/2 {
		o2.LifeNs -= int64(2 * time.Hour)
	} else if o2.LifeNs > 0 {
		o2.LifeNs += int64(2 * time.Hour)
	} else {
		o2.LifeNs = int64(3 * time.Hour)
	}
	A2 := security.NewSessionCache()
	mc2, err := security.MintClaimSession(A2, o2.real())
	if err == nil && mc2.SessionID() == sid {
		claim2 := mc2.ClaimID()
		_, _, secret2, _ := specSplit(claim2)
		eA2, okA2 := security.VerifC16Entry(A2, sid)
		if okA2 {
			obsA2, _ := observeEntry(eA2)
			S3, obs3, ok3 := runSeq(out, sc, []seqStep{{false, claim, impOpts{}}, {false, claim2, impOpts{}}}, sid, secret2, secret)
			out.OracleCheck()
			if !ok3 {
				bad("seq-missing", "after import(claim) and import(re-issued claim) the cache has no entry for %q", sid)
			} else if d := sameSession(obs3, obsA2, true); d != "" {
				bad("seq-stale-after-reissue", "import(claim) then import(re-issue with a new secret and a later SessionExpires): the entry differs from the re-issuing minter's in %s (expiry %d vs %d)", d, obs3.ExpSecs, obsA2.ExpSecs)
			} else if sc.Hs {
				out.OracleCheck()
				if r := handshake(S3, A2, sid, 443, ping); !r.works(ping) {
					bad("seq-stale-after-reissue", "after a re-issue the importer cannot resume with the re-issuing minter: %+v", r)
				}
			}
			// (e) a mint into a cache that already holds the id (the importer of the first claim re-mints)
			S5 := security.NewSessionCache()
			_, _ = security.ImportClaimSession(S5, claim, security.ClaimSessionOptions{})
			mc5, err5 := security.MintClaimSession(S5, o2.real())
			out.OracleCheck()
			if err5 == nil {
				_, _, secret5, _ := specSplit(mc5.ClaimID())
				if e5, ok5 := security.VerifC16Entry(S5, sid); !ok5 || e5.KeyInfo() == nil || !bytes.Equal(e5.KeyInfo().Data, specHKDF([]byte(secret5), 32)) {
					bad("seq-mint-stale", "MintClaimSession into a cache already holding %q did not file the newly minted session", sid)
				}
			}
		}
	}

	// (f) the same claim imported again under another peer address / tag / command set: only the
	// last import's mappings may point at the session (Store drops those of the entry it replaces)
	io1 := impOpts{PeerAddr: "<10.9.9.1:9618>", Extra: []int{443, 60021}}
	io2 := impOpts{PeerAddr: "<10.9.9.2:9618>", Tag: "t2", Extra: []int{444}}
	S6, _, ok6 := runSeq(out, sc, []seqStep{{false, claim, io1}, {false, claim, io2}}, sid, secret)
	out.OracleCheck()
	if ok6 {
		for k, v := range security.VerifC16CommandMap(S6) {
			if v == sid && strings.Contains(k, io1.PeerAddr) {
				bad("seq-stale-command-mapping", "after re-importing %q under another address the mapping %q of the replaced entry still points at it", sid, k)
			}
		}
		if security.VerifC16CommandMap(S6)[fmt.Sprintf("{t2,%s,<444>}", io2.PeerAddr)] != sid {
			bad("seq-command-mapping-missing", "the re-imported session is not found by its new {tag,addr,<cmd>}")
		}
	}
	// a second session id in the same cache keeps its own mappings, except a key the new import claims
	if err == nil && mc2 != nil {
		ob := o
		ob.Seq = o.Seq + 1
		if mb, errb := security.MintClaimSession(security.NewSessionCache(), ob.real()); errb == nil {
			_, _, secretB, _ := specSplit(mb.ClaimID())
			ioB := impOpts{PeerAddr: io1.PeerAddr, Extra: []int{443, 500}}
			S7, _, _ := runSeq(out, sc, []seqStep{{false, mb.ClaimID(), ioB}, {false, claim, io1}}, mb.SessionID(), secretB, secret)
			out.OracleCheck()
			m7 := security.VerifC16CommandMap(S7)
			k500 := fmt.Sprintf("{%s,<500>}", io1.PeerAddr)
			k443 := fmt.Sprintf("{%s,<443>}", io1.PeerAddr)
			if m7[k500] != mb.SessionID() || m7[k443] != sid {
				bad("seq-command-mapping-other-id", "two sessions in one cache: {addr,<500>} -> %q (want %q), {addr,<443>} -> %q (want %q)", m7[k500], mb.SessionID(), m7[k443], sid)
			}
		}
	}

	// (d) file-transfer session: corrupted then genuine
	ftid := "filetrans." + sid
	_, obs4, ok4 := runSeq(out, sc, []seqStep{{true, corrupted, impOpts{}}, {true, claim, impOpts{}}}, ftid, secret, csecret)
	out.OracleCheck()
	if !ok4 {
		bad("seq-missing", "after two file-transfer imports the cache has no entry for %q", ftid)
	} else if !bytes.Equal(obs4.Key, obsA.Key) {
		bad("seq-ft-stale", "ImportFileTransferSession(corrupted) then (genuine) into one cache: the key is not the claim's key")
	}
	return
}

// variants lists the single-character corruptions tried at one position of the secret:
// another hex digit, the same letter in the other case, the neighbouring digit/letter,
// white space, NUL, a non-hex letter, a grammar delimiter.
type variant struct {
	kind string
	b    byte
}

func variants(c byte, rnd func(int) int) []variant {
	vs := []variant{{"hex", otherHex(c, rnd(16))}}
	if c >= 'a' && c <= 'f' {
		vs = append(vs, variant{"case", c - 'a' + 'A'})
	}
	if c >= 'A' && c <= 'F' {
		vs = append(vs, variant{"case", c - 'A' + 'a'})
	}
	switch {
	case c == '9':
		vs = append(vs, variant{"adjacent", '8'})
	case c == 'f':
		vs = append(vs, variant{"adjacent", 'e'})
	default:
		vs = append(vs, variant{"adjacent", c + 1})
	}
	vs = append(vs, variant{"space", " \t"[rnd(2)]}, variant{"nul", 0}, variant{"nonhex", "gZ_O"[rnd(4)]}, variant{"delimiter", "#]["[rnd(3)]})
	return vs
}

func (e entryObs) policyUser() string { return pstr(e.Policy, "User") }

func sortedKeys(m map[string]string) []string {
	ks := make([]string, 0, len(m))
	for k := range m {
		ks = append(ks, k)
	}
	sort.Strings(ks)
	return ks
}

// ---------------------------------------------------------------------------
// unit-level cases: grammar, attribute parser, export/import, short version, key, expiry

func safeAttrs(info string) (m map[string]string, panicked bool) {
	defer func() {
		if recover() != nil {
			panicked = true
		}
	}()
	m, _ = security.ImportSessionInfoAttributes(info)
	return
}

func smapTerm(m map[string]string) string {
	ks := make([]string, 0, len(m))
	for k := range m {
		ks = append(ks, k)
	}
	sort.Strings(ks)
	ts := make([]string, len(ks))
	for i, k := range ks {
		ts[i] = "(" + hx(k) + ", " + hx(m[k]) + ")"
	}
	return core.List(ts)
}

func randFrom(c *core.Ctx, alphabet string, maxLen int) string {
	n := c.Rng.Intn(maxLen + 1)
	b := make([]byte, n)
	for i := range b {
		b[i] = alphabet[c.Rng.Intn(len(alphabet))]
	}
	return string(b)
}

// publicOracle is the direct oracle for the secrecy clause on one claim id, whatever its shape (with
// or without a [session_info] block) and whichever parser read it: every loggable rendering must equal
// the reference redaction (the part in front of the delimiting '#' plus "#...", or nothing at all when
// there is no such part) and must not contain the key material as a substring.
func publicOracle(claim string) (fails []fail) {
	bad := func(key, f string, a ...interface{}) { fails = append(fails, fail{key, fmt.Sprintf(f, a...)}) }
	// key material, found independently of cedar's parsers: what follows the last '#' (behind the
	// info block if there is one), and what the loose grammar takes as key
	var keys []string
	if h := strings.LastIndexByte(claim, '#'); h >= 0 {
		after := claim[h+1:]
		keys = append(keys, after)
		if _, _, k, ok := specSplit(claim); ok {
			keys = append(keys, k)
		}
	}
	if parts := strings.SplitN(claim, "#", 3); len(parts) == 3 {
		keys = append(keys, parts[2])
	}
	// reference redactions
	refStrict := ""
	if sid, _, _, ok := specSplit(claim); ok && sid != "" {
		refStrict = sid + "#..."
	}
	refLoose := ""
	head := claim
	if i := strings.IndexByte(claim, '#'); i >= 0 {
		head = claim[:i]
	}
	if head != "" {
		refLoose = head + "#..."
	}
	type rendering struct{ name, text, ref string }
	var rs []rendering
	func() {
		defer func() {
			if p := recover(); p != nil {
				bad("public-panic", "rendering the public form of %q panics: %v", claim, p)
			}
		}()
		st := security.ParseClaimIDStrict(claim)
		lo := security.ParseClaimID(claim)
		rs = append(rs, rendering{"ParseClaimIDStrict(..).PublicClaimID()", st.PublicClaimID(), refStrict},
			rendering{"ParseClaimID(..).PublicClaimID()", lo.PublicClaimID(), refLoose})
		// the keys cedar's own parsers extract are key material too
		keys = append(keys, st.SecSessionKey(), lo.SecSessionKey())
	}()
	for _, r := range rs {
		if r.text != r.ref {
			bad("public-form", "%s of %q is %q, the reference redaction is %q", r.name, claim, r.text, r.ref)
		}
		for _, k := range keys {
			// short keys occur in the public part by chance; 8 characters and more do not
			if len(k) >= 8 && strings.Contains(r.text, k) && !strings.Contains(strings.TrimSuffix(r.ref, "#..."), k) {
				bad("public-leaks-secret", "%s of %q is %q and contains the key material %q", r.name, claim, r.text, k)
				break
			}
		}
	}
	return
}

func parseCase(c *core.Ctx, claim string) {
	for _, f := range publicOracle(claim) {
		c.OracleFail(f.key, f.desc, map[string]interface{}{"kind": "parse", "claim": claim})
	}
	c.OracleCheck()
	p := security.ParseClaimIDStrict(claim)
	l := security.ParseClaimID(claim)
	// SecSessionInfo()/SecSessionKey() are the raw fields; the sessionID field is visible through PublicClaimID
	rawSid := func(x *security.ClaimID) string { return strings.TrimSuffix(x.PublicClaimID(), "#...") }
	c.AddCase(fmt.Sprintf("(CParse %s %s %s %s %s %s %s %s %s %s)", hx(claim),
		hx(rawSid(p)), hx(p.SecSessionInfo()), hx(p.SecSessionKey()), hx(p.SecSessionID()), hx(p.PublicClaimID()),
		hx(rawSid(l)), hx(l.SecSessionInfo()), hx(l.SecSessionKey()), hx(l.PublicClaimID())),
		map[string]interface{}{"kind": "parse", "claim": claim})
	c.Count("parse")
	// oracle: the pieces of the strict parse are pieces of the input, in order, around the last '#'
	c.OracleCheck()
	if sid, info, key, ok := specSplit(claim); ok {
		if p.SecSessionID() != sid || p.SecSessionInfo() != info || p.SecSessionKey() != key {
			c.OracleFail("parse-last-hash", fmt.Sprintf("ParseClaimIDStrict(%q) = (%q,%q,%q), ClaimIdParser gives (%q,%q,%q)", claim, p.SecSessionID(), p.SecSessionInfo(), p.SecSessionKey(), sid, info, key),
				map[string]interface{}{"kind": "parse", "claim": claim})
		}
		c.Nontrivial("parse:" + claim)
	} else if p.SecSessionID() != "" || p.SecSessionInfo() != "" {
		c.OracleFail("parse-no-info", fmt.Sprintf("ParseClaimIDStrict(%q) reports a session (%q,%q) without an info block", claim, p.SecSessionID(), p.SecSessionInfo()),
			map[string]interface{}{"kind": "parse", "claim": claim})
	}
}

type polIn struct {
	Attrs []pv `json:"attrs"`
}

func (p polIn) ad() *classad.ClassAd {
	ad := classad.New()
	for _, a := range p.Attrs {
		switch a.Kind {
		case "s":
			_ = ad.Set(a.Name, a.S)
		case "i":
			_ = ad.Set(a.Name, a.I)
		default:
			_ = ad.Set(a.Name, a.B)
		}
	}
	return ad
}

// exportCase: ExportSecSessionInfo on an arbitrary policy; then ImportSecSessionInfo on its
// output; oracle: the render/parse round trip on policies free of ';' (and '.' in cipher names).
func exportCase(c *core.Ctx, p polIn) error {
	desc := map[string]interface{}{"kind": "export", "policy": p}
	info, err := security.ExportSecSessionInfo(p.ad())
	// what cannot be carried inside a claim id must be refused, everything else rendered
	mustRefuse := false
	for _, a := range p.Attrs {
		if a.Kind != "s" || a.S == "" {
			continue
		}
		switch a.Name {
		case "Integrity", "Encryption", "ValidCommands":
			mustRefuse = mustRefuse || strings.ContainsAny(a.S, "#;")
		case "CryptoMethods":
			mustRefuse = mustRefuse || strings.ContainsAny(a.S, "#;.")
		case "RemoteVersion":
			mustRefuse = mustRefuse || strings.ContainsAny(specShort(a.S), "#;")
		}
	}
	c.OracleCheck()
	if err != nil {
		c.AddCase(fmt.Sprintf("(CExport %s None)", policyTerm(p.Attrs)), desc)
		c.Count("export-error")
		if !mustRefuse {
			c.OracleFail("export-refused", fmt.Sprintf("ExportSecSessionInfo refused a policy every value of which can be carried in a claim id: %v", err), desc)
		}
		return nil
	}
	if mustRefuse {
		c.OracleFail("export-accepted-unrepresentable", fmt.Sprintf("ExportSecSessionInfo rendered %q from a policy with a value that cannot be carried in a claim id", info), desc)
	}
	c.AddCase(fmt.Sprintf("(CExport %s (Some %s))", policyTerm(p.Attrs), hx(info)), desc)
	c.Count("export-ok")
	importInfoCase(c, info)
	if f := roundTripOracle(p, info); f != "" {
		c.OracleFail("policy-roundtrip", f, desc)
	}
	c.OracleCheck()
	return nil
}

// roundTripOracle returns a description of the failure, "" if the property holds (or does not apply).
func roundTripOracle(p polIn, info string) string {
	if strings.Contains(info, "#") || len(info) < 2 || info[0] != '[' || info[len(info)-1] != ']' {
		return fmt.Sprintf("exported info %q is not a bracketed '#'-free block", info)
	}
	back, err := security.ImportSecSessionInfo(info)
	if err != nil {
		return fmt.Sprintf("ImportSecSessionInfo(%q) failed: %v", info, err)
	}
	get := func(n string) (string, bool) { return back.EvaluateAttrString(n) }
	src := map[string]pv{}
	for _, a := range p.Attrs {
		src[a.Name] = a
	}
	for _, n := range []string{"Integrity", "Encryption", "ValidCommands"} {
		a, ok := src[n]
		want, has := "", false
		if ok && a.Kind == "s" && a.S != "" {
			want, has = a.S, true
		}
		got, gok := get(n)
		if has != gok || got != want {
			return fmt.Sprintf("%s: exported %q (present=%v), imported %q (present=%v) via %q", n, want, has, got, gok, info)
		}
	}
	if a, ok := src["CryptoMethods"]; ok && a.Kind == "s" && a.S != "" {
		if got, gok := get("CryptoMethods"); !gok || got != a.S {
			return fmt.Sprintf("CryptoMethods: exported %q, imported %q via %q", a.S, got, info)
		}
	}
	if a, ok := src["SessionExpires"]; ok && a.Kind == "i" && a.I != 0 {
		got, gok := get("SessionExpires")
		n, err := strconv.ParseInt(got, 10, 64)
		if !gok || err != nil || n != a.I {
			return fmt.Sprintf("SessionExpires: exported %d, imported %q via %q", a.I, got, info)
		}
		if a.I > 0 {
			if t := security.VerifC16ClaimExpiration(back, 0); t.Unix() != a.I || t.Nanosecond() != 0 {
				return fmt.Sprintf("SessionExpires %d: claimExpiration gives %v", a.I, t)
			}
		}
	}
	if a, ok := src["RemoteVersion"]; ok && a.Kind == "s" && a.S != "" {
		if sv := specShort(a.S); true {
			if got, gok := get("RemoteVersion"); !gok || got != sv {
				return fmt.Sprintf("RemoteVersion %q: imported %q, want %q via %q", a.S, got, sv, info)
			}
		}
	}
	return ""
}

func importInfoCase(c *core.Ctx, info string) {
	desc := map[string]interface{}{"kind": "import-info", "info": info}
	var ad *classad.ClassAd
	var err error
	panicked := false
	func() {
		defer func() {
			if recover() != nil {
				panicked = true
			}
		}()
		ad, err = security.ImportSecSessionInfo(info)
	}()
	c.OracleCheck()
	if panicked {
		c.OracleFail("import-info-panic", fmt.Sprintf("ImportSecSessionInfo(%q) panics", info), desc)
		return
	}
	if err != nil {
		c.AddCase(fmt.Sprintf("(CImportInfo %s None)", hx(info)), desc)
		c.Count("import-info-error")
		return
	}
	ps, perr := projectPolicy(ad)
	if perr != nil {
		c.OracleFail("policy-type", perr.Error(), desc)
		return
	}
	c.AddCase(fmt.Sprintf("(CImportInfo %s (Some %s))", hx(info), policyTerm(ps)), desc)
	c.Count("import-info-ok")
}

func attrsCase(c *core.Ctx, info string) {
	desc := map[string]interface{}{"kind": "attrs", "info": info}
	m, panicked := safeAttrs(info)
	c.OracleCheck()
	if panicked {
		c.AddCase(fmt.Sprintf("(CAttrs %s None)", hx(info)), desc)
		c.OracleFail("import-attrs-panic", fmt.Sprintf("ImportSessionInfoAttributes(%q) panics", info), desc)
		return
	}
	c.AddCase(fmt.Sprintf("(CAttrs %s (Some %s))", hx(info), smapTerm(m)), desc)
	c.Count("attrs")
}

func keyCase(c *core.Ctx, secret string, n int) {
	desc := map[string]interface{}{"kind": "key", "secret": secret, "len": n}
	k, err := security.VerifC16DeriveSessionKey(secret, n)
	c.OracleCheck()
	if err != nil {
		c.AddCase(fmt.Sprintf("(CKey %s %d None)", hx(secret), n), desc)
		if secret != "" {
			c.OracleFail("key-refused", "deriveSessionKey refused a non-empty secret", desc)
		}
		return
	}
	c.AddCase(fmt.Sprintf("(CKey %s %d (Some %s))", hx(secret), n, keyTerm(k, secret)), desc)
	if !bytes.Equal(k, specHKDF([]byte(secret), n)) {
		c.OracleFail("key-not-hkdf", fmt.Sprintf("deriveSessionKey(%q) is not HKDF-SHA256(salt htcondor, info keygen)", secret), desc)
	}
	c.Count("key")
}

// claimKeyCase: deriveClaimKeyInfo (shared by the mint and the import path) on a policy and an
// arbitrary secret; the key must be HKDF of exactly that secret.
func claimKeyCase(c *core.Ctx, crypto *string, secret string) {
	desc := map[string]interface{}{"kind": "claimkey", "crypto": crypto, "secret": []byte(secret)}
	ad := classad.New()
	var ps []pv
	if crypto != nil {
		_ = ad.Set("CryptoMethods", *crypto)
		ps = append(ps, pv{Name: "CryptoMethods", Kind: "s", S: *crypto})
	}
	ki, err := security.VerifC16DeriveClaimKeyInfo(ad, secret)
	c.OracleCheck()
	if err != nil || ki == nil {
		c.AddCase(fmt.Sprintf("(CClaimKey %s %s None)", policyTerm(ps), hx(secret)), desc)
		c.Count("claimkey-error")
		return
	}
	c.AddCase(fmt.Sprintf("(CClaimKey %s %s (Some (%s, %s)))", policyTerm(ps), hx(secret), keyTerm(ki.Data, secret), hx(ki.Protocol)), desc)
	c.Count("claimkey-ok")
	if !bytes.Equal(ki.Data, specHKDF([]byte(secret), 32)) || ki.Protocol != "AESGCM" {
		c.OracleFail("claimkey-not-hkdf", fmt.Sprintf("deriveClaimKeyInfo(%q) is not HKDF-SHA256 of exactly that secret (salt htcondor, info keygen)", secret), desc)
	}
}

func expiryCase(c *core.Ctx, s string, fb int64) {
	desc := map[string]interface{}{"kind": "expiry", "s": s, "fallback": fb}
	ad := classad.New()
	_ = ad.Set("SessionExpires", s)
	lo := time.Now().UnixNano()
	t := security.VerifC16ClaimExpiration(ad, time.Duration(fb))
	hi := time.Now().UnixNano()
	obs := "OXNone"
	if !t.IsZero() {
		obs = "(OXAt " + core.Z(t.Unix()) + " " + core.Z(int64(t.Nanosecond())) + ")"
	}
	c.AddCase(fmt.Sprintf("(CExpiry %s %s %s %s %s)", hx(s), core.Z(fb), core.Z(lo), core.Z(hi), obs), desc)
	c.Count("expiry")
}

// importCase: ImportClaimSession / ImportFileTransferSession on an arbitrary claim string.
func importCase(c *core.Ctx, ft bool, claim string, io impOpts) {
	desc := map[string]interface{}{"kind": "import", "ft": ft, "claim": claim, "imp": io}
	cache := security.NewSessionCache()
	var sid string
	var err error
	panicked := false
	lo := time.Now().UnixNano()
	func() {
		defer func() {
			if recover() != nil {
				panicked = true
			}
		}()
		if ft {
			sid, err = security.ImportFileTransferSession(cache, claim, io.real())
		} else {
			sid, err = security.ImportClaimSession(cache, claim, io.real())
		}
	}()
	hi := time.Now().UnixNano()
	c.OracleCheck()
	if panicked {
		c.OracleFail("import-panic", fmt.Sprintf("importing claim id %q panics", claim), desc)
		return
	}
	head := fmt.Sprintf("(CImport %s %s %s %s %s ", core.Bool(ft), hx(claim), io.term(), core.Z(lo), core.Z(hi))
	if err != nil {
		c.AddCase(head+"None)", desc)
		c.Count("import-error")
		// an error is logged by the caller: it must not quote the key material
		c.OracleCheck()
		if k := claim[strings.LastIndexByte(claim, '#')+1:]; len(k) >= 8 && strings.Contains(err.Error(), k) {
			c.OracleFail("error-leaks-secret", fmt.Sprintf("the error returned for claim id %q quotes its key material: %v", claim, err), desc)
		}
		return
	}
	e, ok := security.VerifC16Entry(cache, sid)
	if !ok {
		c.OracleFail("import-not-registered", fmt.Sprintf("imported session %q is not in the cache", sid), desc)
		return
	}
	obs, perr := observeEntry(e)
	if perr != nil {
		c.OracleFail("policy-type", perr.Error(), desc)
		return
	}
	cm, _ := cmdKeys(cache, sid)
	k1 := claim[strings.LastIndexByte(claim, '#')+1:]
	k2 := claim[strings.LastIndexByte(claim, ']')+1:]
	c.AddCase(head+fmt.Sprintf("(Some (%s, %s, %s)))", hx(sid), obs.term(k2, k1), hxlist(cm)), desc)
	c.Count("import-ok")
	// whoever imports a claim id with a session gets the id in front of the last '#'
	c.OracleCheck()
	if ssid, _, key, ok := specSplit(claim); !ok || key == "" || strings.TrimPrefix(sid, "filetrans.") != ssid {
		c.OracleFail("import-sid", fmt.Sprintf("claim %q imported as session %q", claim, sid), desc)
	}
}

// ---------------------------------------------------------------------------

func bp(b bool) *bool { return &b }

var sinfuls = []string{
	"<127.0.0.1:9618>",
	"<127.0.0.1:9618?sock=slot1#1>",
	"<[::1]:9618?addrs=[--1]-9618&noUDP&sock=startd_1234_abcd>",
	"<10.0.0.5:9618?addrs=10.0.0.5-9618+[2001--1]-9618&alias=n1.example.org&noUDP&sock=startd_1_a#b#c>",
	"<192.168.1.10:9618?CCBID=10.1.1.1:9618%3fsock%3dcollector#23&PrivNet=cluster.example.org&noUDP>",
	"startd#[x]y", // not a sinful at all: the grammar must still split on the last '#'
	"a]b#[c",
}
var cryptos = []string{"", "AES", "AES,BLOWFISH", "AES, 3DES, BLOWFISH", "AESGCM", "AESGCM,AES", " AES ,X", "BLOWFISH", "BLOWFISH,AES", "aes", ",AES",
	"AES,X.Y", "AES,X;Y", `AES,X";Encryption="NO`, "AES,X#Y"}
var lifetimes = []int64{0, int64(time.Hour), int64(time.Second), int64(500 * time.Millisecond), 1, -int64(time.Second), int64(400 * 24 * time.Hour), math.MaxInt64}
var valids = [][]int{nil, {443}, {443, 444, 60021}, {404, -1, 0}}
var toggles = [][2]*bool{{nil, nil}, {bp(true), bp(true)}, {bp(false), bp(true)}, {bp(true), bp(false)}, {bp(false), bp(false)}, {nil, bp(false)}}

func scenarioAt(c *core.Ctx, i int) scenario {
	r := c.Rng
	o := mintOpts{
		Sinful:  sinfuls[i%len(sinfuls)],
		Crypto:  cryptos[(i/len(sinfuls))%len(cryptos)],
		LifeNs:  lifetimes[(i/3)%len(lifetimes)],
		Valid:   valids[(i/5)%len(valids)],
		Version: versionPool[(i/2)%len(versionPool)].full,
		Birth:   []int64{1700000000, 0, -5, math.MaxInt32, 1}[r.Intn(5)],
		Seq:     []int{7, 0, 1, 2147483647, 123456}[r.Intn(5)],
	}
	t := toggles[(i/7)%len(toggles)]
	o.Enc, o.Integ = t[0], t[1]
	if i%53 == 17 {
		o.Sinful = "" // refused
	}
	if r.Intn(3) == 0 {
		o.PeerAddr = "<10.0.0.9:9618?sock=schedd_1_2>"
		if r.Intn(2) == 0 {
			o.Extra = []int{60021}
		}
		if r.Intn(3) == 0 {
			o.Tag = "t1"
		}
	}
	if r.Intn(4) == 0 {
		o.PeerFQU = "negotiator-side@matchsession"
	}
	imp := impOpts{}
	switch r.Intn(4) {
	case 0:
		imp.PeerAddr = o.Sinful
		imp.Extra = []int{443, 60021}
	case 1:
		imp.PeerAddr = o.Sinful
		imp.Tag = "ctx"
		imp.PeerFQU = "execute-side@matchsession"
	case 2:
		imp.DurNs = int64(30 * time.Minute)
	}
	// a session bounded to a second or less may legitimately be expired before it is used
	return scenario{Kind: "mint", Opts: o, Imp: imp, Hs: o.LifeNs <= 0 || o.LifeNs >= int64(time.Hour), Corrupt: 1}
}

type ctxSink struct{ c *core.Ctx }

func (s ctxSink) AddCase(t string, d interface{}) { s.c.AddCase(t, d) }
func (s ctxSink) OracleCheck()                    { s.c.OracleCheck() }
func (s ctxSink) Count(k string)                  { s.c.Count(k) }

func gen(c *core.Ctx) error {
	slog.SetDefault(slog.New(slog.NewTextHandler(io.Discard, nil)))
	c.Rule("every case is one call of the real cedar function (ParseClaimIDStrict/ParseClaimID, ImportSessionInfoAttributes, ExportSecSessionInfo, ImportSecSessionInfo, shortVersion, deriveSessionKey, claimExpiration, MintClaimSession, ImportClaimSession, ImportFileTransferSession) with its projected result; the Coq model is evaluated on the same input. Oracle: mint x import on two caches compared field by field, real resumed handshakes in both directions, every single-character corruption of the secret, public form, render/parse round trip.")
	c.PerFile = 350
	c.Assume("HKDF-SHA256 behaves as the free term Kdf of coq/Lib/SymC16.v (distinct secrets give distinct keys)")
	c.Assume("strings.TrimSpace / strings.Fields are modelled for ASCII white space; the generator feeds bytes < 0x80 only")
	c.Assume("ClassAd attribute values used by the claim code are strings, integers and booleans")
	sink := ctxSink{c}
	rnd := func(n int) int { return c.Rng.Intn(n) }

	// 1. mint x import scenarios
	nScen := 112
	if !c.Quick() {
		nScen = 2400
	}
	for i := 0; i < nScen; i++ {
		sc := scenarioAt(c, i)
		if i%16 == 3 {
			sc.Corrupt = -1 // every position through a real handshake
		}
		if i < 8 {
			c.Sample(sc)
		}
		for _, f := range runScenario(sc, sink, rnd) {
			c.OracleFail(f.key, f.desc, sc)
		}
		c.Nontrivial(fmt.Sprintf("%+v|%+v", sc.Opts, sc.Imp))
	}
	// two mints with the same options: fresh secret, same public form
	for i := 0; i < 6; i++ {
		o := scenarioAt(c, i*13).Opts
		o.Crypto = "AES"
		m1, e1 := security.MintClaimSession(security.NewSessionCache(), o.real())
		m2, e2 := security.MintClaimSession(security.NewSessionCache(), o.real())
		c.OracleCheck()
		if e1 != nil || e2 != nil {
			continue
		}
		lifeOK := o.LifeNs <= 0
		if m1.ClaimID() == m2.ClaimID() {
			c.OracleFail("secret-not-fresh", "two mints produced the same claim id", scenario{Kind: "mint", Opts: o})
		}
		if m1.PublicClaimID() != m2.PublicClaimID() || (lifeOK && m1.SessionID() != m2.SessionID()) {
			c.OracleFail("public-depends-on-secret", "public claim ids of two mints with equal options differ", scenario{Kind: "mint", Opts: o})
		}
	}

	// 2. grammar
	var claims []string
	for _, s := range sinfuls {
		for _, info := range []string{`[Encryption="YES";Integrity="YES";CryptoMethods="AES";]`, `[]`, `[`, `]`, ``, `[a]b]`, `[CryptoMethods="AES";]x]y`, `x[y]`} {
			for _, key := range []string{"0123456789abcdef", "", "k#y", "k]y", "[k]", "#"} {
				claims = append(claims, s+"#1700000000#7#"+info+key)
			}
		}
	}
	for i := 0; i < 24; i++ {
		sec := randFrom(c, "0123456789abcdef", 0) + fmt.Sprintf("%064x", c.Rng.Uint64())[32:] + fmt.Sprintf("%032x", c.Rng.Uint64())
		s0 := sinfuls[i%len(sinfuls)]
		claims = append(claims, s0+"#1700000000#"+strconv.Itoa(i)+"#"+sec, s0+"#"+sec, "#"+sec, sec, s0+"#1#2#[]"+sec, s0+"#1#2#"+sec+"#", s0+"#1#2#x[y]"+sec)
	}
	claims = append(claims, "", "#", "##", "#[", "#[]", "#[]k", "a#[]k", "a#[b]", "a#b#[c]d", "a#[b]#c", "a#[b#c]d", "[a]#b", "a#]b[", "nohash", "a#b", "a#b#c", "a#b#c#d", "a#[x]", "a#[x]k]", "a#[x]k[")
	nRand := 300
	if !c.Quick() {
		nRand = 6000
	}
	for i := 0; i < nRand; i++ {
		claims = append(claims, randFrom(c, "##[[]]ab", 12))
	}
	for _, cl := range claims {
		parseCase(c, cl)
	}

	// 2b. import of hand-written and malformed claim ids
	const k64 = "0123456789abcdef0123456789abcdef0123456789abcdef0123456789abcdef"
	imports := []string{
		`<127.0.0.1:9618>#1700000000#7#[Encryption="YES";Integrity="YES";CryptoMethods="AES";]` + k64,
		`<127.0.0.1:9618>#1700000000#7#[Encryption="YES";Integrity="YES";CryptoMethods="AES";ValidCommands="443, 444,,";SessionExpires=1700000123;ShortVersion="25.4.0";]` + k64,
		`<127.0.0.1:9618?sock=a#b>#1#1#[CryptoMethods="BLOWFISH";CryptoMethodsList="AES.BLOWFISH";SessionExpires=4102444800;]` + k64,
		`<10.0.0.1:9618>#1#1#[CryptoMethods="BLOWFISH";]` + k64,
		`<10.0.0.1:9618>#1#1#[CryptoMethods="BLOWFISH";CryptoMethodsList="BLOWFISH.AES";]` + k64,
		`<10.0.0.1:9618>#1#1#[CryptoMethods="";]` + k64, `<10.0.0.1:9618>#1#1#[CryptoMethods=" ,AES";]` + k64, `<10.0.0.1:9618>#1#1#[CryptoMethods="AESGCM";]` + k64,
		`<10.0.0.1:9618>#1#1#[]` + k64, `<10.0.0.1:9618>#1#1#[]`, `<10.0.0.1:9618>#1#1#justakey`, `#[]k`, `x#[`, `x#[]k]`, `x#[A=";]k`, `x#[A="]k`, ``, `nohash`,
		`x#[SessionExpires="12";]k`, `x#[SessionExpires=0;]k`, `x#[SessionExpires=-4;]k`, `x#[SessionExpires= 99 ;]k`, `x#[SessionExpires=1e3;]k`,
		`x#[Encryption="NO";Integrity="NO";User="root";Sid="other";Authenticated=false;]k`,
	}
	ios := []impOpts{{}, {PeerAddr: "<10.0.0.1:9618>", Extra: []int{60021}}, {PeerAddr: "<10.0.0.1:9618>", Tag: "tg", DurNs: int64(time.Hour), PeerFQU: "x@y"}}
	for _, cl := range imports {
		for _, io := range ios {
			importCase(c, false, cl, io)
			importCase(c, true, cl, io)
		}
	}
	for i := 0; i < 120; i++ {
		cl := randFrom(c, "#[]ab", 5) + "#[" + randFrom(c, `;="AES.,CryptoMethods `, 10) + "]" + randFrom(c, "#]k0", 3)
		importCase(c, i%3 == 0, cl, ios[i%3])
	}

	// 3. attribute parser and ImportSecSessionInfo
	infos := []string{``, `[]`, `[`, `]`, `[;]`, `[A=";]`, `[A="]`, `[A=""]`, `[A="";]`, `[=x;]`, `[A=1;A=2;]`, `[ A = "x" ; B=y ]`, `A="x"`, `[A="x";`, `A="x";]`,
		`[Encryption="YES";Integrity="YES";CryptoMethods="AES";SessionExpires=1700000123;ValidCommands="443,444";ShortVersion="25.4.0";]`,
		`[CryptoMethods="BLOWFISH";CryptoMethodsList="AES.BLOWFISH";]`, `[CryptoMethodsList="";CryptoMethods="AES.X";]`, `[CryptoMethodsList="AES";]`,
		`[Encryption="a=b";x]`, `[[A="x";]]`, `[A="x]";]`, "[\tA\t=\t\"x\"\t;\n]", `[A=x"]`, `[A="x]`, `[SessionExpires="12";]`, `[encryption="NO";]`}
	nRand = 240
	if !c.Quick() {
		nRand = 5000
	}
	for i := 0; i < nRand; i++ {
		infos = append(infos, randFrom(c, `[];;==""AB .,`, 14))
		if i%4 == 0 {
			infos = append(infos, "["+randFrom(c, `;=" ABx`, 6)+`Encryption="`+randFrom(c, `;="NOYES `, 4)+`";`+randFrom(c, `;=" AB`, 5)+"]")
		}
	}
	for _, in := range infos {
		attrsCase(c, in)
		importInfoCase(c, in)
	}

	// 4. export + round trip
	strPool := map[string][]interface{}{
		"Encryption":     {"YES", "NO", "", nil, "yes", int64(7), "Y;N", "a#b", " YES ", `Y"S`, "a=b"},
		"Integrity":      {"YES", "NO", nil, "", true},
		"ValidCommands":  {nil, "443", "443,444", "60021, 443", "", "1;2"},
		"SessionExpires": {nil, int64(0), int64(1700000000), int64(-5), int64(math.MaxInt64), int64(math.MinInt64), int64(1), "1700000000", " 12 ", "abc", "", "+5", "-0", "9223372036854775808", "1e3", true},
		"CryptoMethods":  {nil, "AES", "AES,BLOWFISH", "AES, 3DES,BLOWFISH", "BLOWFISH", "AES.X", "", ",AES", "AESGCM", " AES ,B", "A;B,C"},
		"RemoteVersion":  {nil, "", "25.4.0", versionPool[2].full, versionPool[3].full, versionPool[4].full, versionPool[5].full, "1 2", "a b.c 3.4;, x", "$Id$", "9.x;"},
	}
	names := []string{"Encryption", "Integrity", "ValidCommands", "SessionExpires", "CryptoMethods", "RemoteVersion"}
	mk := func(pick func(n string, k int) int) polIn {
		var p polIn
		for _, n := range names {
			v := strPool[n][pick(n, len(strPool[n]))]
			switch x := v.(type) {
			case nil:
			case string:
				p.Attrs = append(p.Attrs, pv{Name: n, Kind: "s", S: x})
			case int64:
				p.Attrs = append(p.Attrs, pv{Name: n, Kind: "i", I: x})
			case bool:
				p.Attrs = append(p.Attrs, pv{Name: n, Kind: "b", B: x})
			}
		}
		return p
	}
	// each value of each attribute at least once against a benign rest
	for _, n := range names {
		for k := range strPool[n] {
			nn, kk := n, k
			if err := exportCase(c, mk(func(m string, _ int) int {
				if m == nn {
					return kk
				}
				return 0
			})); err != nil {
				return err
			}
		}
	}
	nRand = 200
	if !c.Quick() {
		nRand = 4000
	}
	for i := 0; i < nRand; i++ {
		p := mk(func(_ string, k int) int { return c.Rng.Intn(k) })
		if c.Rng.Intn(5) == 0 {
			p.Attrs = append(p.Attrs, pv{Name: "Unrelated", Kind: "s", S: "x"})
		}
		if err := exportCase(c, p); err != nil {
			return err
		}
	}

	// 5. shortVersion
	vers := []string{"", "1.2.3", " 1.2.3", "x 1.2.3, y", "x 1.2.3;,; y", "x .5 y", "a.b 1.x", "$", " ", "v1.2 2.0", "1.2\t3.4", "$CondorVersion: 8.9.13 $", "a b"}
	for _, v := range versionPool {
		vers = append(vers, v.full)
	}
	for i := 0; i < 150; i++ {
		vers = append(vers, randFrom(c, "$ .;,12ab", 10))
	}
	for _, v := range vers {
		got := security.VerifC16ShortVersion(v)
		c.AddCase(fmt.Sprintf("(CShort %s %s)", hx(v), hx(got)), map[string]interface{}{"kind": "short", "v": v})
		c.Count("short-version")
		c.OracleCheck()
		if want, known := shortOf(v); known && got != want {
			c.OracleFail("short-version", fmt.Sprintf("shortVersion(%q) = %q, want %q", v, got, want), map[string]interface{}{"kind": "short", "v": v})
		}
	}

	// 6. key derivation
	for _, s := range []string{"", "0", "0123456789abcdef0123456789abcdef0123456789abcdef0123456789abcdef", "secret with spaces", "#]["} {
		for _, n := range []int{32, 16, 1, 64} {
			keyCase(c, s, n)
		}
	}
	for i := 0; i < 40; i++ {
		keyCase(c, randFrom(c, "0123456789abcdef", 64), 32)
	}

	// 6b. deriveClaimKeyInfo on look-alike secrets: the key must depend on every byte as given
	const lower = "0123456789abcdef0123456789abcdef0123456789abcdef0123456789abcdef"
	lookalikes := []string{lower, strings.ToUpper(lower), "0123456789Abcdef" + lower[16:], lower[:63] + "F", " " + lower, lower + " ", lower + "\n", lower + "\x00", "\x00" + lower,
		lower[:32], lower + lower[:2], "0" + lower, strings.TrimLeft(lower, "0"), "0x" + lower, "Secret", "secret", "SECRET", "a", "A", " a", "a ", "\ta", "", "k#y", "k]y"}
	aes, multi, blow, lowaes := "AES", "AES,BLOWFISH", "BLOWFISH", "aes"
	for _, sct := range lookalikes {
		for _, cp := range []*string{nil, &aes, &multi, &blow, &lowaes} {
			claimKeyCase(c, cp, sct)
		}
		keyCase(c, sct, 32)
		// and through the whole import path, as the trailing key of a claim id
		if !strings.ContainsAny(sct, "#]") {
			importCase(c, false, `<10.0.0.1:9618>#1#1#[CryptoMethods="AES";]`+sct, impOpts{})
			importCase(c, true, `<10.0.0.1:9618>#1#1#[CryptoMethods="AES";]`+sct, impOpts{})
		}
	}
	// distinct look-alike secrets must give pairwise distinct keys
	seen := map[string]string{}
	for _, sct := range lookalikes {
		if sct == "" {
			continue
		}
		ki, err := security.VerifC16DeriveClaimKeyInfo(classad.New(), sct)
		c.OracleCheck()
		if err != nil {
			continue
		}
		if prev, dup := seen[string(ki.Data)]; dup {
			c.OracleFail("claimkey-collision", fmt.Sprintf("secrets %q and %q derive the same claim key", prev, sct), map[string]interface{}{"kind": "claimkey", "secret": []byte(sct)})
		}
		seen[string(ki.Data)] = sct
	}

	// 7. expiry strings (integer versus string, signs, blanks, overflow)
	exps := []string{"1700000000", " 1700000000 ", "\t5\n", "0", "-1", "+7", "", " ", "12a", "1 2", "9223372036854775807", "9223372036854775808", "-9223372036854775808", "-9223372036854775809",
		"00012", "1_000", "0x10", "1e3", "١٢", "--1", "+-1", "+", "-", "99999999999999999999999"}
	for _, s := range exps {
		if !isASCII(s) {
			continue
		}
		expiryCase(c, s, 0)
		expiryCase(c, s, int64(time.Minute))
	}
	for i := 0; i < 120; i++ {
		expiryCase(c, randFrom(c, "0123456789 +-", 12), []int64{0, int64(time.Second)}[i%2])
	}
	c.Exhaustive(false)
	return nil
}

func isASCII(s string) bool {
	for i := 0; i < len(s); i++ {
		if s[i] >= 0x80 {
			return false
		}
	}
	return true
}

func replay(raw json.RawMessage) error {
	slog.SetDefault(slog.New(slog.NewTextHandler(io.Discard, nil)))
	var k struct {
		Kind   string `json:"kind"`
		Claim  string `json:"claim"`
		Info   string `json:"info"`
		V      string `json:"v"`
		Secret string `json:"secret"`
		Len    int    `json:"len"`
		Policy polIn  `json:"policy"`
	}
	if err := json.Unmarshal(raw, &k); err != nil {
		return err
	}
	switch k.Kind {
	case "mint":
		var sc scenario
		if err := json.Unmarshal(raw, &sc); err != nil {
			return err
		}
		sc.Corrupt = -1
		n := 0
		if fs := runScenario(sc, nullSink{}, func(m int) int { n++; return n % m }); len(fs) > 0 {
			return fmt.Errorf("%s: %s", fs[0].key, fs[0].desc)
		}
	case "parse":
		if fs := publicOracle(k.Claim); len(fs) > 0 {
			return fmt.Errorf("%s: %s", fs[0].key, fs[0].desc)
		}
		p := security.ParseClaimIDStrict(k.Claim)
		if sid, info, key, ok := specSplit(k.Claim); ok {
			if p.SecSessionID() != sid || p.SecSessionInfo() != info || p.SecSessionKey() != key {
				return fmt.Errorf("ParseClaimIDStrict(%q) = (%q,%q,%q), want (%q,%q,%q)", k.Claim, p.SecSessionID(), p.SecSessionInfo(), p.SecSessionKey(), sid, info, key)
			}
		} else if p.SecSessionID() != "" || p.SecSessionInfo() != "" {
			return fmt.Errorf("ParseClaimIDStrict(%q) reports a session without an info block", k.Claim)
		}
	case "attrs", "import-info":
		if _, panicked := safeAttrs(k.Info); panicked {
			return fmt.Errorf("ImportSessionInfoAttributes(%q) panics", k.Info)
		}
	case "export":
		info, err := security.ExportSecSessionInfo(k.Policy.ad())
		if err != nil {
			for _, a := range k.Policy.Attrs {
				if a.Kind == "s" && strings.ContainsAny(a.S, "#;.") {
					return nil
				}
			}
			return fmt.Errorf("ExportSecSessionInfo refused: %v", err)
		}
		if f := roundTripOracle(k.Policy, info); f != "" {
			return fmt.Errorf("%s", f)
		}
	case "short":
		if want, known := shortOf(k.V); known && security.VerifC16ShortVersion(k.V) != want {
			return fmt.Errorf("shortVersion(%q) = %q, want %q", k.V, security.VerifC16ShortVersion(k.V), want)
		}
	case "claimkey":
		var ck struct {
			Crypto *string `json:"crypto"`
			Secret []byte  `json:"secret"`
		}
		if err := json.Unmarshal(raw, &ck); err != nil {
			return err
		}
		ad := classad.New()
		if ck.Crypto != nil {
			_ = ad.Set("CryptoMethods", *ck.Crypto)
		}
		if ki, err := security.VerifC16DeriveClaimKeyInfo(ad, string(ck.Secret)); err == nil && !bytes.Equal(ki.Data, specHKDF(ck.Secret, 32)) {
			return fmt.Errorf("deriveClaimKeyInfo(%q) is not HKDF-SHA256 of exactly that secret", ck.Secret)
		}
	case "key":
		got, err := security.VerifC16DeriveSessionKey(k.Secret, k.Len)
		if err == nil && !bytes.Equal(got, specHKDF([]byte(k.Secret), k.Len)) {
			return fmt.Errorf("deriveSessionKey(%q) is not HKDF-SHA256(salt htcondor, info keygen)", k.Secret)
		}
	}
	return nil
}

func main() { core.MainWithFacts("C16", gen, replay, facts) }
