// vh-c06: correspondence + oracle for C06 (session resumption requires the
// session key and never revives a dead session).
//
// Scripted resumption requests (public message/stream packages over net.Pipe)
// and the real client against the real ServerHandshake with a shared cache;
// sessions with and without a key (established by real handshakes or stored
// directly), virtual time by shifting expiries, Invalidate / InvalidateExpired /
// renew; whole and truncated byte-for-byte replays of a recorded resumed
// connection against a fresh connection. The Coq model (Model/Resume.v) is run
// on the same operation sequences (Run/C06.v).
package main

import (
	"bytes"
	"context"
	"crypto/sha256"
	"encoding/json"
	"errors"
	"fmt"
	"io"
	"log/slog"
	"net"
	"strings"
	"sync"
	"time"

	"verifharness/core"

	"github.com/PelicanPlatform/classad/classad"
	"github.com/bbockelm/cedar/commands"
	"github.com/bbockelm/cedar/message"
	"github.com/bbockelm/cedar/security"
	"github.com/bbockelm/cedar/server"
	"github.com/bbockelm/cedar/stream"
)

const (
	sessDuration = 2100
	sessLease    = 950
	canary       = "CANARY-7f3a-secret-payload"
	appWord      = "hello-from-requester"
	clientAddr   = "<192.0.2.7:40000>"
	otherAddr    = "<198.51.100.9:5555>"
	srvName      = "<10.0.0.1:9618>"

	// the command table of the dispatching server (op.Via): one command of each dispatch class
	cmdServed  = 421   // registered, level READ: the Authorizer admits everyone
	cmdAuthReq = 60007 // registered, level DAEMON, per-command policy Authentication REQUIRED: only authenticated sessions with an identity
	cmdDenied  = 477   // registered, level ADMINISTRATOR: the Authorizer admits no one
	cmdRawOnly = 60021 // registered as a raw (unauthenticated) command only
	cmdUnreg   = 60099 // not registered
)

// ---- operations ---------------------------------------------------------------

type op struct {
	Kind string `json:"k"` // est raw mint ft rekey resume renew tick inval sweep
	// est: Enc (true = AES session, false = plaintext session)
	Enc  bool `json:"enc,omitempty"`
	Auth bool `json:"auth,omitempty"` // est: CLAIMTOBE authentication, the server maps the identity (PostAuthPolicy)
	Opt  bool `json:"opt,omitempty"`  // resume: the serving config has Encryption/Integrity OPTIONAL instead of REQUIRED
	// raw: key variant, where, policy
	Key    string `json:"key,omitempty"`    // nil empty aes32 aesgcm32 aes16 blowfish32
	Custom bool   `json:"custom,omitempty"` // store into the server's custom cache (raw); serve with a custom cache (resume)
	Pol    string `json:"pol,omitempty"`    // none auth unauth
	NoExp  bool   `json:"noexp,omitempty"`  // raw: zero expiration
	Inh    bool   `json:"inh,omitempty"`    // raw: SetInherited(true), as every imported (inherited / claim / minted) session is
	Inv    bool   `json:"inv,omitempty"`    // resume: Invalidate(session) lands while the server is writing its reply
	// resume: the request names an id DERIVED from session N's id (filetrans xfer suffix upper substr);
	// the requester may hold session N's key
	Derive string `json:"derive,omitempty"`
	// mint: Encryption / Integrity switched off in the claim's own policy; raw: policy strings Encryption/Integrity ("NO/NO", ...)
	EncOff bool   `json:"encoff,omitempty"`
	IntOff bool   `json:"intoff,omitempty"`
	PolSec string `json:"polsec,omitempty"`
	// raw: the policy is marked CedarClientSideSession=true (what storeClientSession records);
	// est: client and server halves share ONE cache (the process-wide one)
	ClientSide bool `json:"clientside,omitempty"`
	Shared     bool `json:"shared,omitempty"`
	// est: lifetime the CLIENT proposes in its security ad (SecurityConfig.SessionDuration / SessionLease; 0 = attribute absent).
	// The server's own duration and lease decide how long ITS entry lives.
	// est: the SERVER's own SessionDuration and SessionLease are 2^40 s (their nanosecond count overflows int64:
	// the entry expires at once - it fails safe)
	BigDur   bool `json:"bigdur,omitempty"`
	AskDur   int  `json:"askdur,omitempty"`
	AskLease int  `json:"asklease,omitempty"`
	// est / resume: the connection is accepted by a dispatching server.Server (ServeConn) with the fixed command table;
	// Cmd picks the dispatch class (served / refused by the per-command policy / by the Authorizer / raw-only / unregistered)
	Via bool `json:"via,omitempty"`
	// resume, Req "guess": the key the requester (who never held the session key) tries: zero ff sid other old
	Guess string `json:"guess,omitempty"`
	// resume, Req "legit": the client's OWN policy has Authentication REQUIRED (it refuses an unauthenticated session after the server resumed it)
	AuthReq bool `json:"authreq,omitempty"`
	// resume
	N     int    `json:"n,omitempty"`     // target session ordinal (also renew / inval / rekey)
	Req   string `json:"req,omitempty"`   // legit idonly wrongkey rightkey unknown onechar
	Want  bool   `json:"want,omitempty"`  // ResumeResponse
	Other bool   `json:"other,omitempty"` // arrives from another address
	Cmd   int    `json:"cmd,omitempty"`
	Dt    int    `json:"dt,omitempty"`
}

type history struct {
	Ops       []op `json:"ops"`
	UseCustom bool `json:"use_custom"` // the server is configured with its own SessionCache
}

type sess struct {
	id         string
	key        []byte   // nil = none.  A COPY of the key bytes taken when the session was stored (never the cache's own slice)
	gen        int      // how many times the id was registered again with a fresh key (rekey)
	oldKeys    [][]byte // the keys of earlier registrations of this id
	raw        op       // raw: the op that stored it (rekey stores the same shape again)
	storedKey  []byte   // est: copy of the key bytes found in the server's cache entry right after the handshake
	estServed  bool     // est via: the dispatcher ran the handler
	proto      string
	usable     bool
	custom     bool
	exp        int64 // virtual seconds; -1 = never
	lease      int64
	dead       bool
	authd      bool
	user       string
	valid      string
	hasPol     bool
	client     *security.SessionCache // client cache holding the client's copy (est only)
	keyKind    string
	claimID    string // mint: the secret claim id
	clientSide bool   // the record is marked as the client-side record of a session negotiated with another server
	// est only: what the cache entry recorded, and the identity the client was told
	storedUser  string
	storedAuthd bool
	clientUser  string
}

type world struct {
	h      history
	custom *security.SessionCache
	sess   []*sess
	now    int64
	keyLog map[*security.SessionCache]map[string]*keyRec
}

// keyRec: the key material an entry object carried when it was first seen in a cache
type keyRec struct {
	entry *security.SessionEntry
	has   bool
	data  []byte
	proto string
}

func cp(b []byte) []byte {
	if b == nil {
		return nil
	}
	return append([]byte{}, b...)
}

// ---- connection plumbing ---------------------------------------------------------

type recConn struct {
	net.Conn
	mu      sync.Mutex
	rd, wr  bytes.Buffer
	onWrite func() // runs once, when the first write on this end begins (before it can block on the peer)
}

func (r *recConn) Read(p []byte) (int, error) {
	n, err := r.Conn.Read(p)
	r.mu.Lock()
	r.rd.Write(p[:n])
	r.mu.Unlock()
	return n, err
}
func (r *recConn) Write(p []byte) (int, error) {
	if f := r.onWrite; f != nil {
		r.onWrite = nil
		f()
	}
	n, err := r.Conn.Write(p)
	r.mu.Lock()
	r.wr.Write(p[:n])
	r.mu.Unlock()
	return n, err
}
func (r *recConn) read() []byte {
	r.mu.Lock()
	defer r.mu.Unlock()
	return append([]byte(nil), r.rd.Bytes()...)
}
func (r *recConn) wrote() []byte {
	r.mu.Lock()
	defer r.mu.Unlock()
	return append([]byte(nil), r.wr.Bytes()...)
}

func ctxT() (context.Context, context.CancelFunc) {
	return context.WithTimeout(context.Background(), 3*time.Second)
}

func serverConfig(enc bool, custom *security.SessionCache) *security.SecurityConfig {
	return serverConfigX(enc, custom, false, false)
}

// auth: CLAIMTOBE authentication required and the authenticated identity is mapped
// (as server.Server does with an FQUMapper); optional: Encryption OPTIONAL instead of REQUIRED.
func serverConfigX(enc bool, custom *security.SessionCache, auth, optional bool) *security.SecurityConfig {
	e := security.SecurityRequired
	cm := []security.CryptoMethod{security.CryptoAES}
	if !enc {
		e = security.SecurityNever
		cm = nil // no cipher in common: no key exchange, the session is stored without a key
	} else if optional {
		e = security.SecurityOptional
	}
	cfg := &security.SecurityConfig{
		AuthMethods:     []security.AuthMethod{security.AuthNone},
		Authentication:  security.SecurityOptional,
		CryptoMethods:   cm,
		Encryption:      e,
		Integrity:       security.SecurityOptional,
		SessionDuration: sessDuration,
		SessionLease:    sessLease,
		SessionCache:    custom,
	}
	if auth {
		cfg.AuthMethods = []security.AuthMethod{security.AuthClaimToBe}
		cfg.Authentication = security.SecurityRequired
		cfg.TrustDomain = "verif.pool"
		cfg.PostAuthPolicy = func(authUser, peerAddr string, authenticated, encrypted bool) (string, []int) {
			if authUser == "" {
				return "", nil
			}
			return "mapped-" + authUser + "@verif.pool", nil
		}
	}
	return cfg
}

// what the server end observed
type srvObs struct {
	ok          bool
	user        string
	authd       bool
	encFlag     bool
	resumed     bool
	command     int
	sid         string
	valid       string
	streamEnc   bool
	streamKey   []byte
	appAccepted bool
	appInt      int
	appStr      string
	sentCanary  bool
	wrote       []byte
	readBytes   []byte
	served      bool // via: the dispatcher ran the command's handler
	hsOnly      bool // via: the handshake succeeded (AUTHORIZED seen by the requester) but the command was refused: no negotiation / stream observation
}

// serve runs the real ServerHandshake on conn, then the application phase:
// read one message (int, string), then send the canary message.
func serve(conn net.Conn, cfg *security.SecurityConfig, peer string) srvObs {
	return serveH(conn, cfg, peer, nil)
}

// serveH: onFirstWrite runs in the server goroutine at the moment it starts writing its first
// frame (for a resumption with ResumeResponse: the reply) - the deterministic stand-in for another
// goroutine acting while that write is blocked on a slow requester.
func serveH(conn net.Conn, cfg *security.SecurityConfig, peer string, onFirstWrite func()) srvObs {
	defer conn.Close()
	rec := &recConn{Conn: conn, onWrite: onFirstWrite}
	st := stream.NewStream(rec)
	st.SetPeerAddr(peer)
	auth := security.NewAuthenticator(cfg, st)
	ctx, cancel := ctxT()
	defer cancel()
	var o srvObs
	neg, err := auth.ServerHandshake(ctx)
	if err != nil || neg == nil {
		o.wrote, o.readBytes = rec.wrote(), rec.read()
		return o
	}
	appPhase(ctx, st, neg, &o)
	o.wrote, o.readBytes = rec.wrote(), rec.read()
	return o
}

// appPhase: what the application does with an authenticated connection: the stream is snapshotted before any
// application byte, then one message (int, string) is read and the canary message sent.
func appPhase(ctx context.Context, st *stream.Stream, neg *security.SecurityNegotiation, o *srvObs) {
	o.ok = true
	o.user, o.authd, o.encFlag, o.resumed, o.command, o.sid, o.valid = neg.User, neg.Authentication, neg.Encryption, neg.SessionResumed, neg.Command, neg.SessionId, neg.ValidCommands
	snap := st.VerifSnapshot()
	o.streamEnc = snap.HasKey && snap.Encrypted
	o.streamKey = cp(snap.Key)
	rm := message.NewMessageFromStream(st)
	if v, e1 := rm.GetInt(ctx); e1 == nil {
		if s, e2 := rm.GetString(ctx); e2 == nil {
			o.appAccepted, o.appInt, o.appStr = true, v, s
		}
	}
	wm := message.NewMessageForStream(st)
	if wm.PutInt(ctx, 0x5ca1ab1e) == nil && wm.PutString(ctx, canary) == nil && wm.FinishMessage(ctx) == nil {
		o.sentCanary = true
	}
}

// newDispatcher: the real dispatching server over cfg with one command of every dispatch class. Every handler is the
// application phase above.
func newDispatcher(cfg *security.SecurityConfig, o *srvObs) *server.Server {
	srv := server.New(cfg)
	h := func(ctx context.Context, c *server.Conn) error {
		o.served = true
		if c.Negotiation == nil {
			return nil // a raw command: no session at all
		}
		cx, cancel := ctxT()
		defer cancel()
		appPhase(cx, c.Stream, c.Negotiation, o)
		o.command = c.Command // the command the dispatcher routed
		return nil
	}
	srv.Handle(cmdServed, h, "READ")
	srv.Handle(cmdAuthReq, h, "DAEMON")
	srv.Handle(cmdDenied, h, "ADMINISTRATOR")
	srv.HandleRaw(cmdRawOnly, h)
	authReq := *cfg
	authReq.Authentication = security.SecurityRequired
	srv.SecurityConfigForCommand = func(cmd int) *security.SecurityConfig {
		if cmd == cmdAuthReq {
			c := authReq
			return &c
		}
		return nil
	}
	srv.Authorizer = func(perm, peer, user string) bool { return perm == "READ" || (perm == "DAEMON" && user != "") }
	srv.FQUMapper = func(u, peer string) string {
		if u == "" {
			return ""
		}
		return "mapped-" + u + "@verif.pool"
	}
	return srv
}

// the dispatch decision the command table prescribes for a session with this authentication status and identity
func expectServed(cmd int, authd bool, user string) bool {
	switch cmd {
	case cmdServed:
		return true
	case cmdAuthReq:
		return authd && user != ""
	}
	return false
}

// serveVia: the connection is accepted by the dispatching server (ServeConn: command integer, handshake, dispatch).
func serveVia(conn net.Conn, cfg *security.SecurityConfig) (o srvObs) {
	rec := &recConn{Conn: conn}
	srv := newDispatcher(cfg, &o)
	ctx, cancel := ctxT()
	defer cancel()
	func() {
		defer func() { _ = recover() }()
		_ = srv.ServeConn(ctx, rec)
	}()
	_ = conn.Close()
	o.wrote, o.readBytes = rec.wrote(), rec.read()
	return o
}

// what the requester observed
type reqObs struct {
	reply      string // none authorized sidnotfound other broken
	gotCanary  bool   // decoded the canary through its own stream
	rawCanary  bool   // canary visible in the raw bytes received
	resumed    bool   // legit client: handshake succeeded as a resumption
	clientErr  string
	clientKey  []byte
	clientUser string
	wrote      []byte
	readBytes  []byte
}

func sendApp(st *stream.Stream) {
	ctx, cancel := ctxT()
	defer cancel()
	m := message.NewMessageForStream(st)
	if m.PutInt(ctx, 42) == nil && m.PutString(ctx, appWord) == nil {
		_ = m.FinishMessage(ctx)
	}
}
func readCanary(st *stream.Stream) bool {
	ctx, cancel := ctxT()
	defer cancel()
	m := message.NewMessageFromStream(st)
	if v, err := m.GetInt(ctx); err != nil || v != 0x5ca1ab1e {
		return false
	}
	s, err := m.GetString(ctx)
	return err == nil && s == canary
}

// scripted requester: names sid; key == nil means it holds no key
func scripted(conn net.Conn, sid string, want bool, cmd int, key []byte) reqObs {
	defer conn.Close()
	rec := &recConn{Conn: conn}
	st := stream.NewStream(rec)
	ctx, cancel := ctxT()
	defer cancel()
	var o reqObs
	o.reply = "none"
	m := message.NewMessageForStream(st)
	ad := classad.New()
	_ = ad.Set("Command", cmd)
	_ = ad.Set("UseSession", "YES")
	_ = ad.Set("Sid", sid)
	if want {
		_ = ad.Set("ResumeResponse", true)
	}
	if m.PutInt(ctx, commands.DC_AUTHENTICATE) != nil || m.PutClassAd(ctx, ad) != nil || m.FinishMessage(ctx) != nil {
		o.reply = "broken"
		return o
	}
	if want {
		rm := message.NewMessageFromStream(st)
		rad, err := rm.GetClassAdWithMaxSize(ctx, 4096)
		if err != nil {
			o.reply = "broken"
		} else if rc, ok := rad.EvaluateAttrString("ReturnCode"); ok && rc == "AUTHORIZED" {
			o.reply = "authorized"
		} else if ok && rc == "SID_NOT_FOUND" {
			o.reply = "sidnotfound"
		} else {
			o.reply = "other"
		}
	}
	if key != nil {
		_ = st.SetSymmetricKey(key)
	} else {
		st.FinalizeDigests()
	}
	sendApp(st)
	if key != nil {
		o.gotCanary = readCanary(st)
	}
	_, _ = io.Copy(io.Discard, rec) // until the server closes
	o.wrote, o.readBytes = rec.wrote(), rec.read()
	o.rawCanary = bytes.Contains(o.readBytes, []byte(canary))
	return o
}

// the real client resuming session id from its cache
func legit(conn net.Conn, cache *security.SessionCache, id string, cmd int) reqObs {
	return legitX(conn, cache, id, cmd, false)
}

// authReq: the client's own policy has Authentication REQUIRED
func legitX(conn net.Conn, cache *security.SessionCache, id string, cmd int, authReq bool) reqObs {
	defer conn.Close()
	rec := &recConn{Conn: conn}
	st := stream.NewStream(rec)
	cfg := &security.SecurityConfig{
		AuthMethods: []security.AuthMethod{security.AuthNone}, Authentication: security.SecurityOptional,
		CryptoMethods: []security.CryptoMethod{security.CryptoAES}, Encryption: security.SecurityPreferred, Integrity: security.SecurityOptional,
		Command: cmd, PeerName: srvName, SessionCache: cache, SessionID: id,
	}
	if authReq {
		cfg.Authentication = security.SecurityRequired
	}
	auth := security.NewAuthenticator(cfg, st)
	ctx, cancel := ctxT()
	defer cancel()
	var o reqObs
	o.reply = "none"
	neg, err := auth.ClientHandshake(ctx)
	if err != nil {
		o.clientErr = "err"
		if security.IsSessionResumptionError(err) {
			o.clientErr = "resumeerr"
		}
		o.wrote, o.readBytes = rec.wrote(), rec.read()
		o.reply = wireReply(o.readBytes)
		return o
	}
	o.resumed = true
	o.clientKey = st.VerifSnapshot().Key
	o.clientUser = neg.User
	sendApp(st)
	o.gotCanary = readCanary(st)
	_, _ = io.Copy(io.Discard, rec)
	o.wrote, o.readBytes = rec.wrote(), rec.read()
	o.rawCanary = bytes.Contains(o.readBytes, []byte(canary))
	// reply as seen on the wire
	o.reply = wireReply(o.readBytes)
	return o
}

type bufConn struct{ r *bytes.Reader }

func (b *bufConn) Read(p []byte) (int, error)       { return b.r.Read(p) }
func (b *bufConn) Write(p []byte) (int, error)      { return len(p), nil }
func (b *bufConn) Close() error                     { return nil }
func (b *bufConn) LocalAddr() net.Addr              { return nil }
func (b *bufConn) RemoteAddr() net.Addr             { return nil }
func (b *bufConn) SetDeadline(time.Time) error      { return nil }
func (b *bufConn) SetReadDeadline(time.Time) error  { return nil }
func (b *bufConn) SetWriteDeadline(time.Time) error { return nil }

func wireReply(b []byte) string {
	if len(b) == 0 {
		return "none"
	}
	ctx, cancel := ctxT()
	defer cancel()
	st := stream.NewStream(&bufConn{bytes.NewReader(b)})
	ad, err := message.NewMessageFromStream(st).GetClassAdWithMaxSize(ctx, 4096)
	if err != nil {
		return "other"
	}
	rc, _ := ad.EvaluateAttrString("ReturnCode")
	switch rc {
	case "AUTHORIZED":
		return "authorized"
	case "SID_NOT_FOUND":
		return "sidnotfound"
	}
	return "other"
}

// ---- world ---------------------------------------------------------------------

func newWorld(h history) *world {
	w := &world{h: h}
	if h.UseCustom {
		w.custom = security.NewSessionCache()
	}
	security.GetSessionCache().Clear()
	return w
}

func detKey(n, tag int) []byte {
	h := sha256.Sum256([]byte(fmt.Sprintf("c06-key-%d-%d", n, tag)))
	return h[:]
}

func (w *world) cacheOf(s *sess) *security.SessionCache {
	if s.custom && w.custom != nil {
		return w.custom
	}
	return security.GetSessionCache()
}

// establish by a real full handshake; returns the new session
func (w *world) establish(enc, authn, shared bool, askDur, askLease int, bigDur bool) *sess {
	return w.establishX(enc, authn, shared, askDur, askLease, bigDur, false, cmdServed)
}

// via: the connection is accepted by the dispatching server, the client asks for command cmd (which the dispatcher may
// refuse AFTER the handshake stored the session)
func (w *world) establishX(enc, authn, shared bool, askDur, askLease int, bigDur, via bool, cmd int) *sess {
	cc, sc := net.Pipe()
	ch := make(chan srvObs, 1)
	scfg := serverConfigX(enc, w.custom, authn, false)
	if bigDur {
		scfg.SessionDuration, scfg.SessionLease = 1<<40, 1<<40
	}
	if via {
		go func() { ch <- serveVia(sc, scfg) }()
	} else {
		go func() { ch <- serve(sc, scfg, clientAddr) }()
	}
	ccache := security.NewSessionCache()
	peerName := srvName
	if shared && w.custom == nil {
		ccache = security.GetSessionCache() // client and server of the session live in one process
		// (its own server name per establishment: a route cached by an earlier one must not turn this
		// full handshake into a resumption)
		peerName = fmt.Sprintf("<10.0.0.%d:9618>", 100+len(w.sess))
	}
	st := stream.NewStream(cc)
	cfg := &security.SecurityConfig{
		AuthMethods: []security.AuthMethod{security.AuthNone}, Authentication: security.SecurityOptional,
		CryptoMethods: []security.CryptoMethod{security.CryptoAES}, Encryption: security.SecurityPreferred, Integrity: security.SecurityOptional,
		Command: cmd, PeerName: peerName, SessionCache: ccache,
		SessionDuration: askDur, SessionLease: askLease,
	}
	if authn {
		cfg.AuthMethods = []security.AuthMethod{security.AuthClaimToBe}
		cfg.Authentication = security.SecurityRequired
		cfg.TrustDomain = "verif.pool"
	}
	auth := security.NewAuthenticator(cfg, st)
	ctx, cancel := ctxT()
	neg, err := auth.ClientHandshake(ctx)
	cancel()
	var negotiated []byte // the key the handshake left on the client's stream: the reference, independent of any cache
	if err == nil {
		if snap := st.VerifSnapshot(); snap.HasKey {
			negotiated = cp(snap.Key)
		}
		sendApp(st)
		readCanary(st)
	}
	cc.Close()
	so := <-ch
	if err != nil || neg == nil || (!so.ok && !via) {
		return nil
	}
	e, ok := security.GetSessionCache().VerifSessionKeys()[neg.SessionId]
	if !ok {
		return nil
	}
	s := &sess{id: neg.SessionId, exp: w.now + sessDuration, lease: sessLease, client: ccache, hasPol: true}
	s.key = negotiated
	if ki := e.KeyInfo(); ki != nil {
		s.proto = ki.Protocol
		s.storedKey = cp(ki.Data)
	}
	s.usable = s.key != nil && len(s.key) == 32 && (s.proto == "AES" || s.proto == "AESGCM")
	if pol := e.Policy(); pol != nil {
		s.storedAuthd, _ = pol.EvaluateAttrBool("Authenticated")
		s.storedUser, _ = pol.EvaluateAttrString("User")
		s.valid, _ = pol.EvaluateAttrString("ValidCommands")
	}
	// the identity and authentication status the ORIGINAL handshake established on the server
	// (its negotiation result), not what happens to be in the cache entry
	s.user, s.authd = so.user, so.authd
	if !so.ok { // via: the dispatcher refused the command, no handler saw the negotiation
		s.user, s.authd = s.storedUser, s.storedAuthd
	}
	s.estServed = so.served
	s.clientUser = neg.User
	s.keyKind = map[bool]string{true: "aes32", false: "nil"}[s.key != nil]
	return s
}

// mint registers a claim session the way a startd does (MintClaimSession: imported state, flagged inherited)
func (w *world) mint(n int, encOff, intOff bool) *sess {
	c := security.GetSessionCache()
	opts := security.MintClaimOptions{
		Sinful: fmt.Sprintf("<10.9.9.9:9618?sock=startd_%d>", n), Birthdate: 1700000000, SequenceNum: n,
		Lifetime: sessDuration * time.Second,
	}
	no := false
	if encOff {
		opts.Encryption = &no
	}
	if intOff {
		opts.Integrity = &no
	}
	m, err := security.MintClaimSession(c, opts)
	if err != nil {
		return nil
	}
	e, ok := c.VerifSessionKeys()[m.SessionID()]
	if !ok {
		return nil
	}
	s := &sess{id: m.SessionID(), exp: w.now + sessDuration, lease: int64(e.Lease() / time.Second), keyKind: "minted", claimID: m.ClaimID()}
	return fillFromEntry(s, e)
}

// importFT registers the file-transfer session a shadow derives from minted claim `of` ("filetrans."+id, same secret)
func (w *world) importFT(of *sess) *sess {
	c := security.GetSessionCache()
	id, err := security.ImportFileTransferSession(c, of.claimID, security.ClaimSessionOptions{PeerAddr: clientAddr, Duration: sessDuration * time.Second})
	if err != nil {
		return nil
	}
	e, ok := c.VerifSessionKeys()[id]
	if !ok {
		return nil
	}
	exp := w.now + sessDuration
	if e.Expiration().IsZero() {
		exp = -1
	}
	s := &sess{id: id, exp: exp, lease: int64(e.Lease() / time.Second), keyKind: "filetrans"}
	return fillFromEntry(s, e)
}

func fillFromEntry(s *sess, e *security.SessionEntry) *sess {
	if ki := e.KeyInfo(); ki != nil {
		s.key, s.proto = cp(ki.Data), ki.Protocol
	}
	s.usable = s.key != nil && len(s.key) == 32 && (s.proto == "AES" || s.proto == "AESGCM")
	if pol := e.Policy(); pol != nil {
		s.hasPol = true
		s.authd, _ = pol.EvaluateAttrBool("Authenticated")
		s.user, _ = pol.EvaluateAttrString("User")
		s.valid, _ = pol.EvaluateAttrString("ValidCommands")
	}
	return s
}

// derive builds an id from a stored id that names no session of its own
func derive(id, how string) string {
	switch how {
	case "filetrans":
		return "filetrans." + id
	case "xfer":
		return "xfer." + id
	case "suffix":
		return id + ".1"
	case "upper":
		u := strings.ToUpper(id)
		if u == id {
			u = strings.ToLower(id)
		}
		return u
	case "substr":
		if len(id) > 1 {
			return id[:len(id)-1]
		}
	}
	return id + "~"
}

func (w *world) storeRaw(o op, n int) *sess { return w.storeRawG(o, n, 0) }

// gen > 0: the id is registered again, with a fresh key (a NEW session under the old id)
func (w *world) storeRawG(o op, n, gen int) *sess {
	s := &sess{id: fmt.Sprintf("rawhost:77:1700000000:%d", n), lease: sessLease, exp: w.now + sessDuration, custom: o.Custom && w.custom != nil, keyKind: o.Key, raw: o, gen: gen}
	var ki *security.KeyInfo
	switch o.Key {
	case "empty":
		ki = &security.KeyInfo{Data: []byte{}, Protocol: "AES"}
	case "aes32":
		ki = &security.KeyInfo{Data: detKey(n, gen), Protocol: "AES"}
	case "aesgcm32":
		ki = &security.KeyInfo{Data: detKey(n, gen), Protocol: "AESGCM"}
	case "aes16":
		ki = &security.KeyInfo{Data: detKey(n, gen)[:16], Protocol: "AES"}
	case "blowfish32":
		ki = &security.KeyInfo{Data: detKey(n, gen), Protocol: "BLOWFISH"}
	case "noproto32": // key bytes without a cipher name
		ki = &security.KeyInfo{Data: detKey(n, gen), Protocol: ""}
	}
	if ki != nil {
		s.key, s.proto = cp(ki.Data), ki.Protocol
	}
	s.usable = o.Key == "aes32" || o.Key == "aesgcm32"
	var pol *classad.ClassAd
	if o.Pol != "none" {
		pol = classad.New()
		s.hasPol = true
		s.authd = o.Pol == "auth"
		_ = pol.Set("Authenticated", s.authd)
		if s.authd {
			s.user = "alice@example.org"
			_ = pol.Set("User", s.user)
		}
		s.valid = "421,60007"
		_ = pol.Set("ValidCommands", s.valid)
		if o.ClientSide {
			s.clientSide, s.usable = true, false
			s.keyKind += "+client-side"
			_ = pol.Set("CedarClientSideSession", true)
		}
		if parts := strings.Split(o.PolSec, "/"); len(parts) == 2 { // the session's own Encryption / Integrity policy strings
			_ = pol.Set("Encryption", parts[0])
			_ = pol.Set("Integrity", parts[1])
		}
	}
	exp := time.Now().Add(sessDuration * time.Second)
	if o.NoExp {
		exp = time.Time{}
		s.exp = -1
	}
	en := security.NewSessionEntry(s.id, clientAddr, ki, pol, exp, sessLease*time.Second, "")
	if o.Inh {
		en.SetInherited(true)
	}
	w.cacheOf(s).Store(en)
	return s
}

func (w *world) live(s *sess) bool {
	return s != nil && !s.dead && (s.exp < 0 || !(w.now > s.exp))
}

type failure struct{ key, desc string }

type runOut struct {
	steps  []string
	fails  []failure
	checks int
	counts map[string]int
	ok     int
}

func hexs(s string) string {
	if s == "" {
		return "[]"
	}
	var b strings.Builder
	b.WriteString("[")
	for i := 0; i < len(s); i++ {
		if i > 0 {
			b.WriteString("; ")
		}
		fmt.Fprintf(&b, "x%02x", s[i])
	}
	b.WriteString("]")
	return b.String()
}

func (w *world) snapTerm() string { return w.snapTermWith(nil, false) }

// snapTermWith: the snapshot as it was before `was` was dropped from the cache by the client half
// (stored, found, not expired) when pretend is set
func (w *world) snapTermWith(was *sess, pretend bool) string {
	var xs []string
	for i, s := range w.sess {
		if s == nil {
			continue
		}
		e, ok := w.cacheOf(s).VerifSessionKeys()[s.id]
		_, lk := w.cacheOf(s).Lookup(s.id)
		if pretend && s == was {
			xs = append(xs, fmt.Sprintf("SS n%d %s true true false", i+1, core.Bool(s.custom)))
			continue
		}
		xs = append(xs, fmt.Sprintf("SS n%d %s %s %s %s", i+1, core.Bool(s.custom), core.Bool(ok), core.Bool(lk), core.Bool(ok && e.IsExpired())))
		if ok {
			xs = append(xs, w.keyObs(i, s, e))
		}
	}
	return core.List(xs)
}

// keyObs: the key bytes the cache holds for session i+1 right now, named by the registration whose key they are
// (owner ordinal + generation; owner 0 = the key of no registration this history made)
func (w *world) keyObs(i int, s *sess, e *security.SessionEntry) string {
	ki := e.KeyInfo()
	if ki == nil {
		return fmt.Sprintf("SK n%d %s n0 KNone", i+1, core.Bool(s.custom))
	}
	owner, gen := 0, 0
	match := func(x *sess, ord int) bool {
		if x.key != nil && bytes.Equal(ki.Data, x.key) {
			owner, gen = ord, x.gen
			return true
		}
		for g, k := range x.oldKeys {
			if bytes.Equal(ki.Data, k) {
				owner, gen = ord, g
				return true
			}
		}
		return false
	}
	if !match(s, i+1) {
		for j, x := range w.sess {
			if x != nil && x != s && match(x, j+1) {
				break
			}
		}
	}
	return fmt.Sprintf("SK n%d %s n%d %s", i+1, core.Bool(s.custom), owner, kspecTerm(ki.Protocol, len(ki.Data), gen))
}

func kspecTerm(proto string, n, gen int) string {
	if gen == 0 {
		return fmt.Sprintf("(KKey %s n%d)", hexs(proto), n)
	}
	return fmt.Sprintf("(KKeyG %s n%d n%d)", hexs(proto), n, gen)
}

// every cache this history can touch: the process-wide one, the server's own, the clients' own
func (w *world) caches() []*security.SessionCache {
	cs := []*security.SessionCache{security.GetSessionCache()}
	add := func(c *security.SessionCache) {
		if c == nil {
			return
		}
		for _, x := range cs {
			if x == c {
				return
			}
		}
		cs = append(cs, c)
	}
	add(w.custom)
	for _, s := range w.sess {
		if s != nil {
			add(s.client)
		}
	}
	return cs
}

// checkKeys is the invariant cached-key-changed: the key material of a cache entry is byte-identical from the moment
// the entry is stored until it is removed - whatever happened in between (refused commands, failed resumptions, renewals,
// refusals by the client's own policy). Two independent views: (1) per cache and id, the entry OBJECT seen last time
// still carries the bytes it carried then; (2) per session this history stored, the cache holds the bytes it was stored with.
func (w *world) checkKeys(what string, fail func(key, f string, a ...interface{})) {
	if w.keyLog == nil {
		w.keyLog = map[*security.SessionCache]map[string]*keyRec{}
	}
	for ci, c := range w.caches() {
		log := w.keyLog[c]
		if log == nil {
			log = map[string]*keyRec{}
			w.keyLog[c] = log
		}
		cur := c.VerifSessionKeys()
		for id, e := range cur {
			ki := e.KeyInfo()
			rec := log[id]
			if rec != nil && rec.entry == e {
				if (ki != nil) != rec.has || (ki != nil && (!bytes.Equal(ki.Data, rec.data) || ki.Protocol != rec.proto)) {
					fail("cached-key-changed", "after %s: the key material of cache entry %q (cache #%d; 0 = process-wide) is no longer what the entry was stored with (%s)", what, id, ci, keyDiff(rec, ki))
				} else {
					continue
				}
			}
			r := &keyRec{entry: e}
			if ki != nil {
				r.has, r.data, r.proto = true, cp(ki.Data), ki.Protocol
			}
			log[id] = r
		}
		for id := range log {
			if _, ok := cur[id]; !ok {
				delete(log, id)
			}
		}
	}
	for i, s := range w.sess {
		if s == nil {
			continue
		}
		e, ok := w.cacheOf(s).VerifSessionKeys()[s.id]
		if !ok {
			continue
		}
		ki := e.KeyInfo()
		if (ki == nil) != (s.key == nil) || (ki != nil && !bytes.Equal(ki.Data, s.key)) {
			fail("cached-key-changed", "after %s: the server's cache no longer holds the key session %d was stored with", what, i+1)
		}
	}
}

func keyDiff(rec *keyRec, ki *security.KeyInfo) string {
	if ki == nil {
		return "key removed"
	}
	if !rec.has {
		return "key added"
	}
	zero := true
	for _, b := range ki.Data {
		if b != 0 {
			zero = false
		}
	}
	return fmt.Sprintf("%d bytes before, %d now, all zero now=%v, cipher %q -> %q", len(rec.data), len(ki.Data), zero && len(ki.Data) > 0, rec.proto, ki.Protocol)
}

// guessKey: what a requester that never held session `target`'s key tries
func (w *world) guessKey(o op, sid string, target *sess) []byte {
	switch o.Guess {
	case "ff":
		return bytes.Repeat([]byte{0xff}, 32)
	case "sid": // the session id's own bytes
		k := make([]byte, 32)
		for i := range k {
			k[i] = sid[i%len(sid)]
		}
		return k
	case "other": // the key of another session
		for _, x := range w.sess {
			if x != nil && x != target && len(x.key) == 32 {
				return cp(x.key)
			}
		}
		return detKey(o.N, 98)
	case "old": // the key an earlier registration of this id had
		if target != nil && len(target.oldKeys) > 0 && len(target.oldKeys[len(target.oldKeys)-1]) == 32 {
			return cp(target.oldKeys[len(target.oldKeys)-1])
		}
		return detKey(o.N, 97)
	}
	return make([]byte, 32) // all zero
}

func mutateID(id string) string {
	// one character of the host part differs
	b := []byte(id)
	if len(b) == 0 {
		return "x"
	}
	if b[0] == 'q' {
		b[0] = 'r'
	} else {
		b[0] = 'q'
	}
	return string(b)
}

func runHistory(h history) (out runOut) {
	w := newWorld(h)
	out = runOut{counts: map[string]int{}}
	fail := func(key, f string, a ...interface{}) {
		out.fails = append(out.fails, failure{key, fmt.Sprintf(f, a...)})
	}
	sessOf := func(n int) *sess {
		if n >= 1 && n <= len(w.sess) {
			return w.sess[n-1]
		}
		return nil
	}
	prev := ""
	defer func() {
		if prev != "" {
			out.checks++
			w.checkKeys(prev, fail)
		}
	}()
	for i, o := range h.Ops {
		what := fmt.Sprintf("step %d (%s)", i, o.Kind)
		if prev != "" {
			out.checks++
			w.checkKeys(prev, fail)
		}
		prev = what
		out.counts["op-"+o.Kind]++
		var term string
		switch o.Kind {
		case "est":
			ecmd := o.Cmd
			if ecmd == 0 {
				ecmd = cmdServed
			}
			s := w.establishX(o.Enc, o.Auth, o.Shared && !o.BigDur, o.AskDur, o.AskLease, o.BigDur, o.Via, ecmd)
			if o.Via {
				out.counts[fmt.Sprintf("est-via-dispatcher-cmd=%d", ecmd)]++
			}
			if o.AskDur != 0 || o.AskLease != 0 {
				out.counts["est-client-proposes-lifetime"]++
			}
			w.sess = append(w.sess, s)
			if s == nil {
				fail("establish-failed", "%s: full handshake against the honest server failed", what)
				return out
			}
			out.checks++
			if o.Enc != (s.key != nil) {
				fail("stored-key-mismatch", "%s: encrypted=%v session stored with key present=%v", what, o.Enc, s.key != nil)
			}
			if !bytes.Equal(s.storedKey, s.key) {
				fail("cached-key-changed", "%s: the key in the server's cache entry after the handshake (command %d, handler ran=%v) is not the key the handshake negotiated (the one on the client's stream)", what, ecmd, s.estServed)
			}
			if o.Via {
				out.checks++
				if s.estServed != expectServed(ecmd, s.authd, s.user) {
					fail("dispatch-disagrees", "%s: full handshake for command %d (authenticated=%v user=%q): handler ran=%v", what, ecmd, s.authd, s.user, s.estServed)
				}
			}
			if o.Auth && (!s.authd || !strings.HasPrefix(s.user, "mapped-")) {
				fail("establish-failed", "%s: CLAIMTOBE handshake with identity mapping established user=%q authenticated=%v", what, s.user, s.authd)
			}
			if (!o.Via || s.estServed) && (s.storedUser != s.user || s.storedAuthd != s.authd) {
				fail("stored-identity-differs", "%s: the handshake established user=%q authenticated=%v but the session was cached with user=%q authenticated=%v", what, s.user, s.authd, s.storedUser, s.storedAuthd)
			}
			if o.Auth {
				out.counts["est-authenticated-mapped"]++
			}
			term = fmt.Sprintf("YStore n%d false %s %s %s %s z%d z%d", len(w.sess), keyTerm(s), core.Bool(s.authd),
				core.Opt(s.user != "", hexs(s.user)), core.Opt(s.valid != "", hexs(s.valid)), sessDuration, sessLease)
			if o.BigDur {
				// 2^40 s * 10^9 wraps to a negative int64: the server's entry (and the client's copy) is expired from the start
				s.dead = true // (exp < 0 would mean "never expires" in this bookkeeping)
				term = fmt.Sprintf("YStore n%d false %s %s %s %s zhuge zhuge", len(w.sess), keyTerm(s), core.Bool(s.authd),
					core.Opt(s.user != "", hexs(s.user)), core.Opt(s.valid != "", hexs(s.valid)))
				out.counts["est-server-duration-overflows"]++
			}
		case "raw":
			s := w.storeRaw(o, len(w.sess)+1)
			w.sess = append(w.sess, s)
			if o.NoExp {
				term = fmt.Sprintf("YStoreRaw n%d %s %s %s z%d", len(w.sess), core.Bool(s.custom), keyTerm(s), polTerm(s), sessLease)
			} else {
				term = fmt.Sprintf("YStoreP n%d %s %s %s z%d z%d", len(w.sess), core.Bool(s.custom), keyTerm(s), polTerm(s), sessDuration, sessLease)
			}
		case "rekey":
			// the id of a directly stored session is registered again with a fresh key: a NEW session under the old id
			old := sessOf(o.N)
			if old == nil || old.raw.Kind != "raw" {
				continue
			}
			s := w.storeRawG(old.raw, o.N, old.gen+1)
			s.oldKeys = append(append([][]byte{}, old.oldKeys...), old.key)
			w.sess[o.N-1] = s
			if old.raw.NoExp {
				term = fmt.Sprintf("YStoreRaw n%d %s %s %s z%d", o.N, core.Bool(s.custom), keyTerm(s), polTerm(s), sessLease)
			} else {
				term = fmt.Sprintf("YStoreP n%d %s %s %s z%d z%d", o.N, core.Bool(s.custom), keyTerm(s), polTerm(s), sessDuration, sessLease)
			}
		case "mint":
			s := w.mint(len(w.sess)+1, o.EncOff, o.IntOff)
			w.sess = append(w.sess, s)
			if s == nil {
				fail("establish-failed", "%s: MintClaimSession failed", what)
				return out
			}
			term = fmt.Sprintf("YStoreP n%d false %s %s z%d z%d", len(w.sess), keyTerm(s), polTerm(s), sessDuration, s.lease)
		case "ft":
			of := sessOf(o.N)
			if of == nil || of.claimID == "" {
				continue
			}
			already := false
			for _, x := range w.sess {
				if x != nil && x.id == "filetrans."+of.id {
					already = true
				}
			}
			if already {
				continue
			}
			s := w.importFT(of)
			w.sess = append(w.sess, s)
			if s == nil {
				fail("establish-failed", "%s: ImportFileTransferSession failed", what)
				return out
			}
			if s.exp < 0 {
				term = fmt.Sprintf("YStoreRaw n%d false %s %s z%d", len(w.sess), keyTerm(s), polTerm(s), s.lease)
			} else {
				term = fmt.Sprintf("YStoreP n%d false %s %s z%d z%d", len(w.sess), keyTerm(s), polTerm(s), sessDuration, s.lease)
			}
		case "tick":
			d := -time.Duration(o.Dt) * time.Second
			shifted := map[*security.SessionEntry]bool{}
			shift := func(c *security.SessionCache) {
				if c != nil {
					for _, e := range c.VerifSessionKeys() {
						if !shifted[e] {
							shifted[e] = true
							e.VerifShiftExpiration(d)
						}
					}
				}
			}
			shift(security.GetSessionCache())
			shift(w.custom)
			for _, s := range w.sess {
				if s != nil {
					shift(s.client)
				}
			}
			w.now += int64(o.Dt)
			term = fmt.Sprintf("YTick z%d", o.Dt)
			if o.Dt < 0 { // the clock steps back
				term = fmt.Sprintf("YTick zm%d", -o.Dt)
				out.counts["clock-steps-back"]++
			}
		case "inval":
			s := sessOf(o.N)
			if s == nil {
				continue
			}
			ret := w.cacheOf(s).Invalidate(s.id)
			s.dead = true
			term = fmt.Sprintf("YInvalidate n%d %s %s", o.N, core.Bool(s.custom), core.Bool(ret))
		case "sweep":
			n := security.GetSessionCache().InvalidateExpired()
			for _, s := range w.sess {
				if s != nil && !s.custom && s.exp >= 0 && w.now > s.exp {
					s.dead = true
				}
			}
			term = fmt.Sprintf("YSweep z%d", n)
		case "renew":
			s := sessOf(o.N)
			if s == nil {
				continue
			}
			e, ok := w.cacheOf(s).Lookup(s.id)
			out.checks++
			if ok != w.live(s) {
				fail("lookup-liveness", "%s: Lookup found=%v, session live=%v", what, ok, w.live(s))
			}
			if ok {
				e.RenewLease()
				w.cacheOf(s).Store(e)
				if s.lease != 0 {
					s.exp = w.now + s.lease
				}
			}
			term = fmt.Sprintf("YRenew n%d %s %s", o.N, core.Bool(s.custom), core.Bool(ok))
		case "resume":
			if o.Via { // the handshake's outcome must be visible to the requester; the in-flight Invalidate hook is for the bare handshake
				o.Want, o.Inv = true, false
				out.counts[fmt.Sprintf("resume-via-dispatcher-cmd=%d", o.Cmd)]++
			}
			s := sessOf(o.N)
			sid, sidTerm := "", ""
			var target *sess
			switch o.Req {
			case "unknown":
				sid = fmt.Sprintf("nosuchhost:1:1700000000:%d", 900+o.N)
				sidTerm = fmt.Sprintf("(QUnknown n%d)", o.N)
			case "onechar":
				if s == nil {
					continue
				}
				sid = mutateID(s.id)
				sidTerm = fmt.Sprintf("(QOneChar n%d)", o.N)
			default:
				if s == nil {
					continue
				}
				sid, target = s.id, s
				sidTerm = fmt.Sprintf("(QSess n%d)", o.N)
			}
			var baseKey []byte
			if o.Derive != "" && s != nil && (o.Req == "rightkey" || o.Req == "idonly" || o.Req == "wrongkey") {
				// an id derived from session N's id: it names a session only if exactly that id was registered
				sid, target, baseKey = derive(s.id, o.Derive), nil, s.key
				dk := map[string]int{"filetrans": 1, "xfer": 2, "suffix": 3, "upper": 4, "substr": 5}[o.Derive]
				sidTerm = fmt.Sprintf("(QDerived n%d n%d)", o.N, dk)
				for i, x := range w.sess {
					if x != nil && x.id == sid {
						target = x
						sidTerm = fmt.Sprintf("(QSess n%d)", i+1)
					}
				}
				if o.Req == "rightkey" && len(baseKey) != 32 {
					continue
				}
			}
			if o.Req == "legit" && (target == nil || target.client == nil) {
				continue
			}
			if o.Req == "legit" && target.client == security.GetSessionCache() && target.exp >= 0 && w.now > target.exp {
				// shared cache: the client half's own id lookup would lazily delete the expired shared record
				// before anything reaches the server; that is a client-cache effect (C07), not a resumption request
				continue
			}
			if o.Req == "rightkey" && baseKey == nil && (target == nil || target.key == nil || len(target.key) != 32) {
				continue
			}
			peer := clientAddr
			if o.Other {
				peer = otherAddr
			}
			cc, sc := net.Pipe()
			ch := make(chan srvObs, 1)
			var hook func()
			invRan, invRet := false, false
			if o.Inv {
				if target == nil || o.Req == "legit" || o.Derive != "" {
					continue
				}
				hook = func() { invRan, invRet = true, w.cacheOf(target).Invalidate(target.id) }
			}
			if o.Via {
				go func() { ch <- serveVia(sc, serverConfigX(true, w.custom, false, o.Opt)) }()
			} else {
				go func() { ch <- serveH(sc, serverConfigX(true, w.custom, false, o.Opt), peer, hook) }()
			}
			var guessed []byte
			sharedLegit := o.Req == "legit" && target != nil && target.client == security.GetSessionCache()
			_, storedBefore := security.GetSessionCache().VerifSessionKeys()[sid]
			var ro reqObs
			want := o.Want || o.Inv
			cmd := o.Cmd
			switch o.Req {
			case "legit":
				ro = legitX(cc, target.client, sid, cmd, o.AuthReq)
				want = true
			case "guess":
				guessed = w.guessKey(o, sid, target)
				ro = scripted(cc, sid, want, cmd, guessed)
				out.counts["resume-guess-"+o.Guess]++
			case "wrongkey":
				ro = scripted(cc, sid, want, cmd, detKey(o.N, 99))
			case "rightkey":
				k := baseKey
				if k == nil {
					k = target.key
				}
				ro = scripted(cc, sid, want, cmd, k)
			default: // idonly unknown onechar
				ro = scripted(cc, sid, want, cmd, nil)
			}
			so := <-ch
			if o.Via && !so.ok && ro.reply == "authorized" {
				// the requester was told AUTHORIZED, then the dispatcher refused the command: no handler saw the negotiation
				so.ok, so.hsOnly = true, true
			}
			out.counts["resume-"+o.Req+"-ok="+fmt.Sprint(so.ok)]++
			if o.Req == "legit" && len(ro.wrote) == 0 {
				// the client found no usable cached copy and sent nothing: not a resumption request
				out.counts["legit-client-sent-nothing"]++
				out.steps = append(out.steps, fmt.Sprintf("St (YTick z0) %s", w.snapTerm()))
				continue
			}

			// ---- the direct oracle ----
			out.checks++
			var lazyDeleted *sess
			holdsKey := o.Req == "legit" || (o.Req == "rightkey" && (baseKey == nil || (target != nil && bytes.Equal(baseKey, target.key)))) ||
				(o.Req == "guess" && target != nil && target.key != nil && bytes.Equal(guessed, target.key))
			// the client's own policy refuses the session AFTER the server resumed it (checkResumedSession on the client)
			clientRefused := o.Req == "legit" && o.AuthReq && so.ok && ro.clientErr == "err"
			if clientRefused {
				out.counts["client-policy-refused-resumed-session"]++
				if target != nil && target.authd {
					fail("identity-not-restored", "%s: a client requiring authentication refused the resumed session although it was established authenticated", what)
				}
			}
			if so.ok {
				out.ok++
				switch {
				case target == nil:
					fail("resumed-unknown-session", "%s: server resumed id %s which names no session", what, o.Req)
				case target.clientSide:
					fail("client-side-record-resumed", "%s: server resumed session %d, the client-side record of a session negotiated with another server; requester got user=%q authenticated=%v", what, o.N, so.user, so.authd)
				case !w.live(target):
					fail("dead-session-resumed", "%s: server resumed session %d which is expired or invalidated", what, o.N)
				case !target.usable || target.key == nil:
					fail("keyless-session-resumed", "%s: server resumed session %d which carries no usable key (%s); requester got Authentication=%v user=%q, stream encrypted=%v", what, o.N, target.keyKind, so.authd, so.user, so.streamEnc)
				}
				if so.hsOnly {
					// nothing of the negotiation is visible
				} else if !so.streamEnc {
					fail("resumed-stream-not-encrypted", "%s: ServerHandshake returned success on a resumption but the stream is not encrypting (reported Encryption=%v)", what, so.encFlag)
				} else if target != nil && !bytes.Equal(so.streamKey, target.key) {
					fail("resumed-with-other-key", "%s: stream key differs from the session's key", what)
				}
				if !so.hsOnly && so.encFlag != so.streamEnc {
					fail("encryption-flag-disagrees", "%s: negotiation reports Encryption=%v, stream encrypting=%v", what, so.encFlag, so.streamEnc)
				}
				if so.hsOnly {
				} else if target != nil && target.hasPol && (so.user != target.user || so.authd != target.authd) {
					fail("identity-not-restored", "%s: resumed with user=%q authenticated=%v, established with user=%q authenticated=%v", what, so.user, so.authd, target.user, target.authd)
				}
				if !so.hsOnly && target != nil && !target.hasPol && (so.user != "" || so.authd) {
					fail("identity-not-restored", "%s: session without policy resumed with user=%q authenticated=%v", what, so.user, so.authd)
				}
				if !so.hsOnly && so.sid != sid {
					fail("identity-not-restored", "%s: negotiation names another session id", what)
				}
				if o.Via && target != nil {
					if exp := expectServed(cmd, target.authd, target.user); exp != so.served {
						fail("dispatch-disagrees", "%s: resumed session (authenticated=%v user=%q) asked for command %d: handler ran=%v, the command table says %v", what, target.authd, target.user, cmd, so.served, exp)
					}
					if !so.served {
						out.counts["resumed-then-command-refused"]++
					}
				}
				if target != nil && target.lease != 0 {
					target.exp = w.now + target.lease
				}
			} else {
				if target != nil && target.exp >= 0 && w.now > target.exp && len(ro.wrote) > 0 {
					lazyDeleted = target // the server's LookupNonExpired removed the expired entry for good
				}
				if target != nil && w.live(target) && target.usable && o.Req != "legit" || (o.Req == "legit" && target != nil && w.live(target) && target.usable && ro.clientErr == "") {
					fail("live-session-refused", "%s: server refused a live session with a usable key", what)
				}
				if want && ro.reply != "sidnotfound" && !(o.Req == "legit" && ro.clientErr == "resumeerr" && ro.reply == "none") {
					fail("no-sid-not-found-reply", "%s: resumption refused but the requester that asked for a reply saw %q", what, ro.reply)
				}
				if !want && len(so.wrote) != 0 {
					fail("unrequested-reply", "%s: server wrote %d bytes though no reply was requested", what, len(so.wrote))
				}
			}
			if want && so.ok && ro.reply != "authorized" {
				fail("no-authorized-reply", "%s: resumption succeeded but the requester saw %q", what, ro.reply)
			}
			if so.appAccepted && !holdsKey {
				fail("app-data-accepted-without-key", "%s: a requester without the session key (%s) got application data accepted (%d, %q)", what, o.Req, so.appInt, so.appStr)
				fail("keyless-requester-data-accepted", "%s: a requester that never held the session key (%s %s) got its data (%d, %q) accepted by the application as user=%q authenticated=%v", what, o.Req, o.Guess, so.appInt, so.appStr, so.user, so.authd)
			}
			if (ro.gotCanary || ro.rawCanary) && !holdsKey {
				fail("keyless-requester-read-reply", "%s: a requester that never held the session key (%s %s) could open what the server sent to it", what, o.Req, o.Guess)
			}
			if ro.rawCanary {
				fail("server-data-readable-without-key", "%s: what the server sent after the handshake is readable in clear by the requester (%s)", what, o.Req)
			}
			if ro.gotCanary && !holdsKey {
				fail("server-data-readable-without-key", "%s: a requester without the session key decoded the server's data", what)
			}
			if holdsKey && so.ok && !clientRefused && (!o.Via || so.served) && (!so.appAccepted || so.appStr != appWord || !ro.gotCanary) {
				fail("key-holder-cannot-talk", "%s: requester holding the right key: app accepted=%v canary read=%v", what, so.appAccepted, ro.gotCanary)
			}
			if o.Req == "legit" && so.ok && !so.hsOnly && !clientRefused {
				if !bytes.Equal(ro.clientKey, so.streamKey) {
					fail("keys-differ", "%s: client and server streams hold different keys after resumption", what)
				}
				noID := func(u string) string { // both spellings say: no authenticated identity
					if u == "unauthenticated@unmapped" {
						return ""
					}
					return u
				}
				if target != nil && ro.resumed && noID(ro.clientUser) != noID(target.clientUser) {
					fail("identity-not-restored", "%s: client resumed with user=%q, the original handshake told it %q", what, ro.clientUser, target.clientUser)
				}
			}
			if lazyDeleted != nil {
				lazyDeleted.dead = true
			}
			rep := map[string]string{"none": "NoReply", "authorized": "(ReplyAuthorized [])", "sidnotfound": "ReplySidNotFound", "other": "NoReply", "broken": "NoReply"}[ro.reply]
			if !want {
				rep = "NoReply"
				if len(so.wrote) != 0 && !so.ok {
					rep = "ReplySidNotFound"
				}
			}
			keyEq := so.ok && target != nil && bytes.Equal(so.streamKey, target.key)
			term = fmt.Sprintf("YResume %s %s z%d %s %s %s %s %s %s %s %s", sidTerm, core.Bool(want), cmd, core.Bool(so.ok), rep,
				core.Bool(so.authd), core.Opt(so.user != "", hexs(so.user)), core.Opt(so.valid != "", hexs(so.valid)),
				core.Bool(so.encFlag), core.Bool(so.resumed), core.Bool(so.streamEnc && keyEq))
			if o.Via {
				term = fmt.Sprintf("YServe %s z%d %s %s %s %s %s %s %s %s %s %s", sidTerm, cmd, core.Bool(o.Opt), core.Bool(so.ok), rep, core.Bool(so.served),
					core.Bool(so.authd), core.Opt(so.user != "", hexs(so.user)), core.Opt(so.valid != "", hexs(so.valid)),
					core.Bool(so.encFlag), core.Bool(so.resumed), core.Bool(so.streamEnc && keyEq))
			}
			if o.Inv {
				out.checks++
				if !invRan {
					fail("no-reply-written", "%s: the server wrote nothing although a reply was requested", what)
				}
				// the session was invalidated while this resumption was in flight: from now on it is dead
				target.dead = true
				if _, still := w.cacheOf(target).VerifSessionKeys()[target.id]; still {
					fail("invalidated-session-reinserted", "%s: session %d was invalidated while the resumption reply was being written, and is in the cache again after the resumption completed", what, o.N)
				}
				term = "YResumeInv" + strings.TrimPrefix(term, "YResume") + " " + core.Bool(target.custom) + " " + core.Bool(invRet)
				out.counts["resume-with-invalidate-during-reply"]++
			}
			if so.ok && !so.hsOnly && so.command != cmd {
				fail("command-not-restored", "%s: resumed command %d, requested %d", what, so.command, cmd)
			}
			if _, storedAfter := security.GetSessionCache().VerifSessionKeys()[sid]; sharedLegit && !so.ok && storedBefore && !storedAfter && !(target.exp >= 0 && w.now > target.exp) {
				// client and server share the cache: the client's drop-on-failure (Invalidate of the session it
				// could not resume) removed the shared record
				out.steps = append(out.steps, fmt.Sprintf("St (%s) %s", term, w.snapTermWith(target, true)))
				term = fmt.Sprintf("YInvalidate n%d false true", o.N)
				target.dead = true
				out.counts["shared-cache-client-dropped-record"]++
			}
		default:
			continue
		}
		out.steps = append(out.steps, fmt.Sprintf("St (%s) %s", term, w.snapTerm()))
	}
	return out
}

func keyTerm(s *sess) string {
	if s.key == nil {
		return "KNone"
	}
	return kspecTerm(s.proto, len(s.key), s.gen)
}
func polTerm(s *sess) string {
	if !s.hasPol {
		return "PNone"
	}
	if s.clientSide {
		return fmt.Sprintf("(PClient %s %s %s)", core.Bool(s.authd), core.Opt(s.user != "", hexs(s.user)), core.Opt(s.valid != "", hexs(s.valid)))
	}
	return fmt.Sprintf("(PSome %s %s %s)", core.Bool(s.authd), core.Opt(s.user != "", hexs(s.user)), core.Opt(s.valid != "", hexs(s.valid)))
}

// duplex is an in-memory connection end whose write direction can be closed on its own
type duplex struct {
	r *io.PipeReader
	w *io.PipeWriter
}

func (d *duplex) Read(p []byte) (int, error)       { return d.r.Read(p) }
func (d *duplex) Write(p []byte) (int, error)      { return d.w.Write(p) }
func (d *duplex) Close() error                     { d.w.Close(); return d.r.Close() }
func (d *duplex) CloseWrite() error                { return d.w.Close() }
func (d *duplex) LocalAddr() net.Addr              { return nil }
func (d *duplex) RemoteAddr() net.Addr             { return nil }
func (d *duplex) SetDeadline(time.Time) error      { return nil }
func (d *duplex) SetReadDeadline(time.Time) error  { return nil }
func (d *duplex) SetWriteDeadline(time.Time) error { return nil }
func duplexPair() (*duplex, *duplex) {
	r1, w1 := io.Pipe()
	r2, w2 := io.Pipe()
	return &duplex{r1, w2}, &duplex{r2, w1}
}

// ---- replay of a recorded resumed connection ------------------------------------

type replayCase struct {
	Dir   string `json:"dir"`   // c2s s2c
	Cut   int    `json:"cut"`   // bytes of the recording that are replayed (-1 = all)
	State string `json:"state"` // live expired invalidated
}

// runReplay establishes an encrypted session, records one legitimately resumed
// connection, then replays one direction of the recording on a fresh connection.
// Returns whether the replayed bytes were accepted as application data.
func runReplay(rc replayCase) (accepted bool, detail string, recLen int, transcriptRepeats bool, err error) {
	w := newWorld(history{})
	s := w.establish(true, false, false, 0, 0, false)
	if s == nil || s.key == nil {
		return false, "", 0, false, errors.New("could not establish an encrypted session")
	}
	record := func() (reqObs, srvObs) {
		cc, sc := net.Pipe()
		ch := make(chan srvObs, 1)
		go func() { ch <- serve(sc, serverConfig(true, nil), clientAddr) }()
		ro := legit(cc, s.client, s.id, 421)
		return ro, <-ch
	}
	ro1, so1 := record()
	if !so1.ok || !so1.appAccepted || !ro1.gotCanary {
		return false, "", 0, false, errors.New("legitimate resumption did not work")
	}
	ro2, so2 := record()
	if !so2.ok {
		return false, "", 0, false, errors.New("second legitimate resumption did not work")
	}
	// the cleartext part of both resumptions (request / reply) is byte-identical: no fresh value
	reqLen := func(b []byte) int { // length of the first frame
		if len(b) < 5 {
			return len(b)
		}
		return 5 + int(b[1])<<24 + int(b[2])<<16 + int(b[3])<<8 + int(b[4])
	}
	q1, q2 := ro1.wrote[:reqLen(ro1.wrote)], ro2.wrote[:reqLen(ro2.wrote)]
	p1, p2 := so1.wrote[:reqLen(so1.wrote)], so2.wrote[:reqLen(so2.wrote)]
	transcriptRepeats = bytes.Equal(q1, q2) && bytes.Equal(p1, p2)
	switch rc.State {
	case "expired":
		for _, c := range []*security.SessionCache{security.GetSessionCache(), s.client} {
			for _, e := range c.VerifSessionKeys() {
				e.VerifShiftExpiration(-5000 * time.Second)
			}
		}
	case "invalidated":
		security.GetSessionCache().Invalidate(s.id)
		s.client.Invalidate(s.id)
	}
	if rc.Dir == "c2s" {
		data := ro1.wrote
		recLen = len(data)
		if rc.Cut >= 0 && rc.Cut < len(data) {
			data = data[:rc.Cut]
		}
		cc, sc := duplexPair()
		ch := make(chan srvObs, 1)
		go func() { ch <- serve(sc, serverConfig(true, nil), otherAddr) }()
		go func() { _, _ = io.Copy(io.Discard, cc) }()
		_, _ = cc.Write(data)
		_ = cc.CloseWrite() // the replayer has nothing more to say; it keeps reading
		so := <-ch
		cc.Close()
		return so.appAccepted, fmt.Sprintf("server handshake ok=%v, application message accepted=%v (%d, %q)", so.ok, so.appAccepted, so.appInt, so.appStr), recLen, transcriptRepeats, nil
	}
	// s2c: a fresh real client resuming the same session reads the recorded server bytes
	data := so1.wrote
	recLen = len(data)
	if rc.Cut >= 0 && rc.Cut < len(data) {
		data = data[:rc.Cut]
	}
	cc, sc := duplexPair()
	go func() {
		go func() { _, _ = io.Copy(io.Discard, sc) }()
		_, _ = sc.Write(data)
		_ = sc.CloseWrite()
	}()
	ro := legit(cc, s.client, s.id, 421)
	sc.Close()
	return ro.gotCanary, fmt.Sprintf("client handshake resumed=%v (%s), recorded server message accepted=%v", ro.resumed, ro.clientErr, ro.gotCanary), recLen, transcriptRepeats, nil
}

// ---- generation ---------------------------------------------------------------

func randOp(c *core.Ctx, nsess int, custom bool) op {
	r := c.Rng
	keys := []string{"nil", "nil", "empty", "aes32", "aesgcm32", "aes16", "blowfish32", "noproto32", "noproto32"}
	pols := []string{"none", "auth", "auth", "unauth"}
	reqs := []string{"legit", "legit", "idonly", "idonly", "wrongkey", "rightkey", "unknown", "onechar", "guess", "guess"}
	viaCmds := []int{cmdServed, cmdServed, cmdAuthReq, cmdDenied, cmdRawOnly, cmdUnreg, 0}
	x := r.Intn(100)
	switch {
	case nsess == 0 || x < 14:
		if r.Intn(2) == 0 {
			enc := r.Intn(3) > 0
			o := op{Kind: "est", Enc: enc, Auth: r.Intn(2) == 0, Shared: r.Intn(3) == 0}
			if r.Intn(2) == 0 {
				o.AskDur = []int{100, 9000, 2100, 1 << 40, 1, 86400}[r.Intn(6)]
			}
			if r.Intn(3) == 0 {
				o.AskLease = []int{5, 9000, 950, 1 << 40}[r.Intn(4)]
			}
			return o
		}
		if r.Intn(4) == 0 {
			return op{Kind: "mint", EncOff: r.Intn(2) == 0, IntOff: r.Intn(2) == 0}
		}
		return op{Kind: "raw", Key: keys[r.Intn(len(keys))], Custom: custom && r.Intn(2) == 0, Pol: pols[r.Intn(4)], NoExp: r.Intn(8) == 0, Inh: r.Intn(3) == 0, ClientSide: r.Intn(5) == 0,
			PolSec: []string{"", "", "NO/NO", "NO/YES", "YES/NO", "YES/YES", "NEVER/NEVER"}[r.Intn(7)]}
	case x < 62:
		o := op{Kind: "resume", N: 1 + r.Intn(nsess), Req: reqs[r.Intn(len(reqs))], Want: r.Intn(3) > 0, Other: r.Intn(4) == 0, Opt: r.Intn(2) == 0, Cmd: []int{421, 60007, 0}[r.Intn(3)]}
		if o.Req == "guess" {
			o.Guess = []string{"zero", "zero", "ff", "sid", "other", "old"}[r.Intn(6)]
		}
		if o.Req == "legit" && r.Intn(5) == 0 {
			o.AuthReq = true
		}
		if r.Intn(5) < 2 {
			o.Via, o.Want, o.Cmd = true, true, viaCmds[r.Intn(len(viaCmds))]
			return o
		}
		if r.Intn(8) == 0 && (o.Req == "idonly" || o.Req == "rightkey" || o.Req == "wrongkey") {
			o.Inv = true
		} else if r.Intn(5) == 0 {
			o.Derive = []string{"filetrans", "filetrans", "xfer", "suffix", "upper", "substr"}[r.Intn(6)]
		}
		return o
	case x < 64:
		return op{Kind: "renew", N: 1 + r.Intn(nsess)}
	case x < 66:
		return op{Kind: "rekey", N: 1 + r.Intn(nsess)}
	case x < 70:
		return op{Kind: "ft", N: 1 + r.Intn(nsess)}
	case x < 86:
		return op{Kind: "tick", Dt: []int{500, 1500, 500, 3000}[r.Intn(4)]}
	case x < 94:
		return op{Kind: "inval", N: 1 + r.Intn(nsess)}
	default:
		return op{Kind: "sweep"}
	}
}

func emit(c *core.Ctx, h history) {
	out := runHistory(h)
	c.AddCase("Case "+core.Bool(h.UseCustom)+" "+core.List(out.steps), h)
	for i := 0; i < out.checks; i++ {
		c.OracleCheck()
	}
	for k, v := range out.counts {
		c.CountN(k, v)
	}
	for _, f := range out.fails {
		c.OracleFail(f.key, f.desc, h)
	}
	if out.ok > 0 {
		b, _ := json.Marshal(h)
		c.Nontrivial(string(b))
		c.Count("history-with-successful-resumption")
	}
}

func quiet() {
	slog.SetDefault(slog.New(slog.NewTextHandler(io.Discard, &slog.HandlerOptions{Level: slog.LevelError + 10})))
}

func gen(c *core.Ctx) error {
	quiet()
	c.Rule("operation sequences establish (real full handshake, AES or plaintext) / store (entries with no key, empty key, AES/AESGCM 32-byte key, 16-byte key, BLOWFISH key; with/without policy; global or custom cache) / resume / renew / tick (virtual time) / Invalidate / InvalidateExpired against the real ServerHandshake; resumption requests: the real client, id only, wrong key, right key (scripted), unknown id, id differing in one character, with and without ResumeResponse, from another address. After a successful ServerHandshake the stream state is snapshotted before any application byte, then one application message is read and a canary message sent. Exhaustive: for a session of each of four kinds every sequence of up to 3 (thorough 4) operations over a 7-letter alphabet; longer sequences sampled. Every step is compared with the Coq model; the oracle is independent bookkeeping of liveness and keys. Replays: either direction of a recorded resumed connection, whole and truncated at every frame boundary and inside frames, against a fresh connection with the session live / expired / invalidated. non-trivial = history with at least one successful resumption")
	c.Assume("the key is what the cache entry holds; AES-GCM itself is ideal (Lib/Sym.v)")
	c.Exhaustive(false)

	R := func(n int, req string, want bool) op { return op{Kind: "resume", N: n, Req: req, Want: want, Cmd: 421} }
	directed := [][]op{
		{{Kind: "est", Enc: false}, R(1, "idonly", true), R(1, "idonly", false), R(1, "legit", true)},
		{{Kind: "est", Enc: true}, R(1, "idonly", true), R(1, "wrongkey", true), R(1, "legit", true), R(1, "wrongkey", false), R(1, "idonly", false), R(1, "legit", true)},
		{{Kind: "raw", Key: "nil", Pol: "auth"}, R(1, "idonly", true), R(1, "idonly", false)},
		{{Kind: "raw", Key: "empty", Pol: "auth"}, R(1, "idonly", true)},
		{{Kind: "raw", Key: "blowfish32", Pol: "auth"}, R(1, "idonly", true), R(1, "rightkey", true)},
		{{Kind: "raw", Key: "aes16", Pol: "auth"}, R(1, "idonly", true)},
		// imported state past its expiration
		{{Kind: "raw", Key: "aesgcm32", Pol: "auth", Inh: true}, R(1, "rightkey", true), {Kind: "tick", Dt: 3000}, R(1, "rightkey", true), R(1, "rightkey", false), R(1, "idonly", true)},
		{{Kind: "mint"}, R(1, "rightkey", true), {Kind: "tick", Dt: 1500}, R(1, "rightkey", true), {Kind: "tick", Dt: 1500}, R(1, "rightkey", true), R(1, "idonly", true), {Kind: "renew", N: 1}, R(1, "rightkey", false)},
		{{Kind: "raw", Key: "aes32", Pol: "auth", Inh: true}, {Kind: "tick", Dt: 3000}, {Kind: "renew", N: 1}, R(1, "rightkey", true), {Kind: "sweep"}, R(1, "rightkey", true)},
		// the server's own duration overflows int64 nanoseconds; a clock stepping back
		{{Kind: "est", Enc: true, BigDur: true}, R(1, "rightkey", true), R(1, "idonly", true), {Kind: "tick", Dt: 500}, R(1, "rightkey", true), {Kind: "sweep"}, R(1, "rightkey", true)},
		{{Kind: "raw", Key: "aes32", Pol: "auth"}, {Kind: "tick", Dt: 3000}, {Kind: "tick", Dt: -1500}, R(1, "rightkey", true), {Kind: "tick", Dt: 1500}, R(1, "rightkey", true), {Kind: "tick", Dt: -500}, {Kind: "tick", Dt: -500}, R(1, "idonly", true)},
		{{Kind: "est", Enc: true}, {Kind: "tick", Dt: 3000}, R(1, "rightkey", true), {Kind: "tick", Dt: -1500}, {Kind: "tick", Dt: -1500}, R(1, "rightkey", true), R(1, "idonly", true)},
		// the client proposes a lifetime of its own: the server's entry lives for the SERVER's duration and lease
		{{Kind: "est", Enc: true, AskDur: 9000}, {Kind: "tick", Dt: 1500}, R(1, "rightkey", true), {Kind: "tick", Dt: 500}, {Kind: "tick", Dt: 500}, R(1, "rightkey", true), R(1, "rightkey", false)},
		{{Kind: "est", Enc: true, AskDur: 1 << 40, AskLease: 1 << 40}, {Kind: "tick", Dt: 3000}, R(1, "rightkey", true), R(1, "idonly", true), {Kind: "renew", N: 1}},
		{{Kind: "est", Enc: true, AskDur: 100, AskLease: 5}, {Kind: "tick", Dt: 500}, R(1, "rightkey", true), {Kind: "tick", Dt: 500}, R(1, "rightkey", true), {Kind: "tick", Dt: 500}, R(1, "rightkey", true)},
		{{Kind: "est", Enc: true, Auth: true, AskLease: 9000}, {Kind: "tick", Dt: 1500}, R(1, "rightkey", true), {Kind: "tick", Dt: 1500}, R(1, "rightkey", true)},
		// the client-side record of a session negotiated with another server is not resumed by the server half
		{{Kind: "raw", Key: "aes32", Pol: "auth", ClientSide: true}, R(1, "rightkey", true), R(1, "idonly", true), {Kind: "resume", N: 1, Req: "rightkey", Opt: true, Cmd: 421}},
		{{Kind: "raw", Key: "aesgcm32", Pol: "unauth", ClientSide: true, Custom: true}, R(1, "rightkey", true), R(1, "rightkey", false)},
		// client and server halves of one session share the process-wide cache
		{{Kind: "est", Enc: true, Shared: true}, R(1, "legit", true), R(1, "idonly", true), {Kind: "tick", Dt: 500}, R(1, "legit", true), {Kind: "inval", N: 1}, R(1, "legit", true)},
		{{Kind: "est", Enc: true, Auth: true, Shared: true}, R(1, "legit", true), {Kind: "est", Enc: true, Shared: true}, R(2, "legit", true), R(1, "legit", true)},
		// ids derived from a stored id: only the exact live id may resume
		{{Kind: "mint"}, {Kind: "resume", N: 1, Req: "rightkey", Want: true, Derive: "filetrans", Cmd: 421}, {Kind: "resume", N: 1, Req: "rightkey", Derive: "filetrans", Opt: true, Cmd: 421},
			{Kind: "resume", N: 1, Req: "idonly", Want: true, Derive: "filetrans", Cmd: 421}, {Kind: "resume", N: 1, Req: "rightkey", Want: true, Derive: "xfer", Cmd: 421},
			{Kind: "resume", N: 1, Req: "rightkey", Want: true, Derive: "suffix", Cmd: 421}, {Kind: "resume", N: 1, Req: "rightkey", Want: true, Derive: "upper", Cmd: 421},
			{Kind: "resume", N: 1, Req: "rightkey", Want: true, Derive: "substr", Cmd: 421}, R(1, "rightkey", true)},
		{{Kind: "mint"}, {Kind: "ft", N: 1}, {Kind: "resume", N: 1, Req: "rightkey", Want: true, Derive: "filetrans", Cmd: 421}, {Kind: "inval", N: 2},
			{Kind: "resume", N: 1, Req: "rightkey", Want: true, Derive: "filetrans", Cmd: 421}, {Kind: "resume", N: 1, Req: "rightkey", Derive: "filetrans", Cmd: 421}, R(1, "rightkey", true)},
		{{Kind: "mint"}, {Kind: "ft", N: 1}, {Kind: "tick", Dt: 3000}, {Kind: "resume", N: 1, Req: "rightkey", Want: true, Derive: "filetrans", Cmd: 421}, R(1, "rightkey", true), R(2, "rightkey", true)},
		{{Kind: "raw", Key: "aes32", Pol: "auth"}, {Kind: "resume", N: 1, Req: "rightkey", Want: true, Derive: "filetrans", Cmd: 421}, {Kind: "resume", N: 1, Req: "rightkey", Want: true, Derive: "upper", Cmd: 421}},
		// the session's own policy says no encryption / no integrity: the key is installed all the same
		{{Kind: "mint", EncOff: true, IntOff: true}, {Kind: "resume", N: 1, Req: "idonly", Want: true, Opt: true, Cmd: 421}, {Kind: "resume", N: 1, Req: "idonly", Opt: true, Cmd: 421},
			{Kind: "resume", N: 1, Req: "rightkey", Want: true, Opt: true, Cmd: 421}, {Kind: "resume", N: 1, Req: "wrongkey", Want: true, Opt: true, Cmd: 421}, R(1, "idonly", true)},
		{{Kind: "mint", EncOff: true}, {Kind: "resume", N: 1, Req: "idonly", Want: true, Opt: true, Cmd: 421}, {Kind: "resume", N: 1, Req: "rightkey", Want: true, Opt: true, Cmd: 421}},
		{{Kind: "mint", IntOff: true}, {Kind: "resume", N: 1, Req: "idonly", Want: true, Opt: true, Cmd: 421}, {Kind: "resume", N: 1, Req: "rightkey", Want: true, Opt: true, Cmd: 421}},
		{{Kind: "raw", Key: "aesgcm32", Pol: "auth", PolSec: "NO/NO"}, {Kind: "resume", N: 1, Req: "idonly", Want: true, Opt: true, Cmd: 421}, {Kind: "resume", N: 1, Req: "rightkey", Want: true, Opt: true, Cmd: 421}, {Kind: "resume", N: 1, Req: "idonly", Opt: true, Cmd: 421}},
		{{Kind: "raw", Key: "aes32", Pol: "unauth", PolSec: "NEVER/NEVER"}, {Kind: "resume", N: 1, Req: "idonly", Want: true, Opt: true, Cmd: 421}, {Kind: "resume", N: 1, Req: "rightkey", Want: true, Opt: true, Cmd: 421}},
		// Invalidate lands while the reply of an in-flight resumption is being written
		{{Kind: "raw", Key: "aes32", Pol: "auth"}, {Kind: "resume", N: 1, Req: "rightkey", Want: true, Inv: true, Cmd: 421}, R(1, "rightkey", true), R(1, "rightkey", false), R(1, "idonly", true)},
		{{Kind: "est", Enc: true}, {Kind: "resume", N: 1, Req: "idonly", Want: true, Inv: true, Cmd: 421}, R(1, "legit", true), R(1, "idonly", true)},
		{{Kind: "mint"}, {Kind: "tick", Dt: 500}, {Kind: "resume", N: 1, Req: "rightkey", Want: true, Inv: true, Opt: true, Cmd: 60007}, {Kind: "tick", Dt: 500}, R(1, "rightkey", true)},
		{{Kind: "raw", Key: "noproto32", Pol: "auth"}, {Kind: "resume", N: 1, Req: "idonly", Want: true, Opt: true, Cmd: 421}, {Kind: "resume", N: 1, Req: "idonly", Opt: true, Cmd: 421}, R(1, "idonly", true), {Kind: "resume", N: 1, Req: "rightkey", Want: true, Opt: true, Cmd: 421}},
		{{Kind: "est", Enc: true, Auth: true}, R(1, "legit", true), {Kind: "resume", N: 1, Req: "legit", Want: true, Opt: true, Cmd: 60007}, R(1, "idonly", true), {Kind: "tick", Dt: 500}, R(1, "legit", true)},
		{{Kind: "est", Enc: false, Auth: true}, R(1, "legit", true), {Kind: "resume", N: 1, Req: "idonly", Want: true, Opt: true, Cmd: 421}},
		{{Kind: "raw", Key: "aesgcm32", Pol: "auth"}, R(1, "rightkey", true), R(1, "idonly", true), R(1, "rightkey", false), {Kind: "resume", N: 1, Req: "rightkey", Want: true, Other: true, Cmd: 60007}},
		{{Kind: "raw", Key: "aes32", Pol: "none"}, R(1, "rightkey", true), R(1, "unknown", true), R(1, "unknown", false), R(1, "onechar", true), R(1, "onechar", false)},
		{{Kind: "est", Enc: true}, {Kind: "tick", Dt: 1500}, R(1, "legit", true), {Kind: "tick", Dt: 500}, {Kind: "tick", Dt: 500}, R(1, "legit", true), R(1, "idonly", true)},
		{{Kind: "est", Enc: true}, {Kind: "tick", Dt: 3000}, R(1, "legit", true), R(1, "idonly", true), {Kind: "renew", N: 1}, R(1, "idonly", true)},
		{{Kind: "raw", Key: "aes32", Pol: "auth"}, {Kind: "inval", N: 1}, R(1, "rightkey", true), R(1, "rightkey", false), {Kind: "renew", N: 1}, R(1, "rightkey", true)},
		{{Kind: "raw", Key: "aes32", Pol: "auth"}, {Kind: "tick", Dt: 3000}, {Kind: "sweep"}, R(1, "rightkey", true)},
		{{Kind: "raw", Key: "aes32", Pol: "auth", NoExp: true}, {Kind: "tick", Dt: 3000}, R(1, "rightkey", true), {Kind: "tick", Dt: 3000}, R(1, "rightkey", true)},
		{{Kind: "raw", Key: "aes32", Pol: "auth"}, {Kind: "tick", Dt: 1500}, {Kind: "renew", N: 1}, {Kind: "tick", Dt: 500}, {Kind: "tick", Dt: 500}, R(1, "rightkey", true), {Kind: "tick", Dt: 500}, R(1, "rightkey", true)},
	}
	// histories through the dispatching server: resumptions whose command the dispatcher then refuses (unregistered,
	// raw-only, per-command policy, Authorizer), full handshakes whose command it refuses, between attempts of a
	// requester that never held the key (guessing all-zero, all-0xFF, the id's bytes, another session's key, an earlier
	// key of the id) and of the key holder
	V := func(n int, req, guess string, cmd int) op {
		return op{Kind: "resume", N: n, Req: req, Guess: guess, Want: true, Via: true, Cmd: cmd}
	}
	directed = append(directed, [][]op{
		{{Kind: "mint"}, V(1, "rightkey", "", cmdServed), V(1, "guess", "zero", cmdServed), V(1, "idonly", "", cmdUnreg), V(1, "guess", "zero", cmdServed), V(1, "rightkey", "", cmdServed)},
		{{Kind: "raw", Key: "aes32", Pol: "auth"}, V(1, "idonly", "", cmdDenied), V(1, "guess", "zero", cmdServed), V(1, "idonly", "", cmdRawOnly), V(1, "guess", "ff", cmdServed), V(1, "rightkey", "", cmdAuthReq), V(1, "guess", "sid", cmdAuthReq), V(1, "idonly", "", 0), V(1, "guess", "zero", cmdAuthReq)},
		{{Kind: "raw", Key: "aesgcm32", Pol: "unauth"}, V(1, "rightkey", "", cmdAuthReq), V(1, "guess", "zero", cmdServed), V(1, "rightkey", "", cmdServed), {Kind: "inval", N: 1}, V(1, "rightkey", "", cmdServed), V(1, "guess", "zero", cmdServed)},
		{{Kind: "est", Enc: true, Via: true, Cmd: cmdUnreg}, R(1, "legit", true), V(1, "guess", "zero", cmdServed), V(1, "legit", "", cmdServed)},
		{{Kind: "est", Enc: true, Auth: true, Via: true, Cmd: cmdDenied}, V(1, "legit", "", cmdAuthReq), V(1, "guess", "zero", cmdAuthReq), V(1, "legit", "", cmdDenied), V(1, "guess", "zero", cmdServed)},
		{{Kind: "est", Enc: true, Via: true, Cmd: cmdRawOnly}, V(1, "guess", "zero", cmdServed), V(1, "legit", "", cmdAuthReq), V(1, "guess", "ff", cmdServed), V(1, "legit", "", cmdServed)},
		{{Kind: "est", Enc: true, Auth: true, Via: true}, V(1, "legit", "", cmdServed), V(1, "idonly", "", cmdUnreg), V(1, "legit", "", cmdAuthReq), V(1, "guess", "zero", cmdAuthReq)},
		{{Kind: "raw", Key: "aes32", Pol: "auth"}, {Kind: "rekey", N: 1}, V(1, "guess", "old", cmdServed), V(1, "rightkey", "", cmdServed), V(1, "idonly", "", cmdUnreg), V(1, "guess", "old", cmdServed), V(1, "guess", "zero", cmdServed), {Kind: "rekey", N: 1}, V(1, "guess", "old", cmdServed)},
		{{Kind: "raw", Key: "aes32", Pol: "auth"}, {Kind: "raw", Key: "aesgcm32", Pol: "auth"}, V(1, "guess", "other", cmdServed), V(2, "idonly", "", cmdDenied), V(1, "guess", "other", cmdServed), V(2, "guess", "zero", cmdServed), V(2, "rightkey", "", cmdServed)},
		{{Kind: "mint"}, V(1, "idonly", "", cmdUnreg), {Kind: "tick", Dt: 3000}, V(1, "guess", "zero", cmdServed), V(1, "rightkey", "", cmdServed)},
		{{Kind: "mint"}, {Kind: "ft", N: 1}, V(2, "idonly", "", cmdRawOnly), V(1, "guess", "zero", cmdServed), V(2, "guess", "zero", cmdServed), V(2, "guess", "other", cmdServed)},
		// the client's OWN policy (Authentication REQUIRED) refuses a session the server has just resumed
		{{Kind: "est", Enc: true}, {Kind: "resume", N: 1, Req: "legit", Want: true, AuthReq: true, Cmd: 421}, R(1, "legit", true), {Kind: "resume", N: 1, Req: "legit", Want: true, AuthReq: true, Via: true, Cmd: cmdServed}, V(1, "legit", "", cmdServed), V(1, "guess", "zero", cmdServed)},
		{{Kind: "est", Enc: true, Shared: true}, {Kind: "resume", N: 1, Req: "legit", Want: true, AuthReq: true, Cmd: 421}, R(1, "legit", true), R(1, "idonly", true), {Kind: "resume", N: 1, Req: "guess", Guess: "zero", Want: true, Cmd: 421}},
		{{Kind: "est", Enc: true, Auth: true}, {Kind: "resume", N: 1, Req: "legit", Want: true, AuthReq: true, Cmd: 421}, R(1, "legit", true)},
	}...)
	for _, ops := range directed {
		for _, cu := range []bool{false, true} {
			h := history{Ops: ops, UseCustom: cu}
			if cu {
				h.Ops = append([]op(nil), ops...)
				for i := range h.Ops {
					if h.Ops[i].Kind == "raw" {
						h.Ops[i].Custom = true
					}
				}
			}
			emit(c, h)
			c.Count("directed")
		}
	}
	// exhaustive: one session of each kind, then EVERY sequence of up to 3 (thorough: 4) operations
	// over resume-by-id-only / resume-by-a-key-holder / renew / tick (short) / tick (past expiry) /
	// Invalidate / InvalidateExpired
	maxLen := 3
	if !c.Quick() {
		maxLen = 4
	}
	type kind struct {
		first  op
		holder string
	}
	for _, k := range []kind{
		{op{Kind: "est", Enc: true}, "legit"},
		{op{Kind: "est", Enc: true, AskDur: 9000, AskLease: 9000}, "rightkey"},
		{op{Kind: "raw", Key: "aes32", Pol: "auth", ClientSide: true}, "rightkey"},
		{op{Kind: "est", Enc: true, Auth: true}, "legit"},
		{op{Kind: "est", Enc: false}, "legit"},
		{op{Kind: "raw", Key: "aes32", Pol: "auth"}, "rightkey"},
		{op{Kind: "mint"}, "rightkey"},
		{op{Kind: "mint", EncOff: true, IntOff: true}, "rightkey"},
		{op{Kind: "raw", Key: "nil", Pol: "auth"}, "wrongkey"},
	} {
		alpha := []op{{Kind: "resume", N: 1, Req: "idonly", Want: true, Opt: true, Cmd: 421}, R(1, k.holder, true), {Kind: "renew", N: 1}, {Kind: "tick", Dt: 1500}, {Kind: "tick", Dt: 3000}, {Kind: "inval", N: 1}, {Kind: "sweep"}, {Kind: "resume", N: 1, Req: "idonly", Want: true, Inv: true, Cmd: 421}}
		var rec func(prefix []op, depth int)
		rec = func(prefix []op, depth int) {
			if len(prefix) > 1 {
				emit(c, history{Ops: append([]op(nil), prefix...)})
				c.Count("exhaustive-sequences")
			}
			if depth == maxLen {
				return
			}
			for _, a := range alpha {
				rec(append(prefix, a), depth+1)
			}
		}
		rec([]op{k.first}, 0)
	}
	// exhaustive, through the dispatcher: for a keyed session of each of three kinds EVERY sequence of up to 3 (thorough 4)
	// operations over: a key-less resumption for an unregistered command / a key holder's resumption for the command that
	// requires authentication / a key-less requester guessing the all-zero key for a served command / the key holder for a
	// served command / Invalidate / tick past expiry
	for _, k := range []kind{
		{op{Kind: "raw", Key: "aes32", Pol: "auth"}, "rightkey"},
		{op{Kind: "est", Enc: true}, "legit"},
		{op{Kind: "mint"}, "rightkey"},
	} {
		alpha := []op{V(1, "idonly", "", cmdUnreg), V(1, k.holder, "", cmdAuthReq), V(1, "guess", "zero", cmdServed), V(1, k.holder, "", cmdServed), {Kind: "inval", N: 1}, {Kind: "tick", Dt: 3000}}
		var rec func(prefix []op, depth int)
		rec = func(prefix []op, depth int) {
			if len(prefix) > 1 {
				emit(c, history{Ops: append([]op(nil), prefix...)})
				c.Count("exhaustive-sequences-through-dispatcher")
			}
			if depth == maxLen {
				return
			}
			for _, a := range alpha {
				rec(append(prefix, a), depth+1)
			}
		}
		rec([]op{k.first}, 0)
	}
	n := 300
	if !c.Quick() {
		n = 6000
	}
	for i := 0; i < n; i++ {
		l := 3 + c.Rng.Intn(6)
		cu := c.Rng.Intn(3) == 0
		var ops []op
		ns := 0
		for k := 0; k < l; k++ {
			o := randOp(c, ns, cu)
			if o.Kind == "est" || o.Kind == "raw" || o.Kind == "mint" || o.Kind == "ft" {
				ns++ // (an ft that is skipped leaves a gap; later ordinals beyond the list are skipped too)
			}
			ops = append(ops, o)
		}
		h := history{Ops: ops, UseCustom: cu}
		emit(c, h)
		c.Count("sampled")
		if i < 3 {
			c.Sample(h)
		}
	}

	// replays
	_, _, lenC, _, err := runReplay(replayCase{Dir: "c2s", Cut: -1, State: "invalidated"})
	if err != nil {
		return err
	}
	_, _, lenS, _, err := runReplay(replayCase{Dir: "s2c", Cut: 0, State: "invalidated"})
	if err != nil {
		return err
	}
	var rcs []replayCase
	for _, st := range []string{"live", "expired", "invalidated"} {
		for _, d := range []string{"c2s", "s2c"} {
			total := lenC
			if d == "s2c" {
				total = lenS
			}
			cuts := []int{-1, 0, 1, 5, total / 2, total - 1, total - 17}
			for k := 0; k < 6; k++ {
				cuts = append(cuts, c.Rng.Intn(total+1))
			}
			if st != "live" {
				cuts = []int{-1, total - 1}
			}
			for _, cut := range cuts {
				if cut < -1 {
					continue
				}
				rcs = append(rcs, replayCase{Dir: d, Cut: cut, State: st})
			}
		}
	}
	for _, rc := range rcs {
		acc, detail, _, repeats, err := runReplay(rc)
		if err != nil {
			return err
		}
		c.OracleCheck()
		c.Evaluated(1)
		c.Count("replay-" + rc.Dir + "-" + rc.State + "-accepted=" + fmt.Sprint(acc))
		if !repeats {
			c.Note("resumption transcripts of two connections differ (a fresh value is present)")
		}
		if acc {
			desc := map[string]interface{}{"kind": "replay", "replay": rc}
			if rc.State == "live" {
				c.OracleFail("replay-of-recorded-resumed-connection", fmt.Sprintf("a byte-for-byte replay (%s, %d bytes) of a recorded resumed connection is accepted on a fresh connection: %s", rc.Dir, rc.Cut, detail), desc)
			} else {
				c.OracleFail("replay-accepted-for-dead-session", fmt.Sprintf("replay (%s) accepted although the session is %s: %s", rc.Dir, rc.State, detail), desc)
			}
		}
	}
	return nil
}

func replay(raw json.RawMessage) error {
	quiet()
	var probe struct {
		Kind   string     `json:"kind"`
		Replay replayCase `json:"replay"`
	}
	if json.Unmarshal(raw, &probe) == nil && probe.Kind == "replay" {
		acc, detail, _, _, err := runReplay(probe.Replay)
		if err != nil {
			return nil
		}
		if acc {
			return errors.New("replay accepted: " + detail)
		}
		return nil
	}
	var h history
	if err := json.Unmarshal(raw, &h); err != nil {
		return err
	}
	out := runHistory(h)
	if len(out.fails) > 0 {
		return errors.New(out.fails[0].key + ": " + out.fails[0].desc)
	}
	return nil
}

func main() { core.Main("C06", gen, replay) }
