// Coq term printers for Run/C11.v cases.
package main

import (
	"fmt"
	"sort"
	"strings"
	"time"

	"verifharness/core"
)

func zBig(v jv) string {
	s := v.N.String()
	if strings.HasPrefix(s, "-") {
		return "(" + s + ")%Z"
	}
	return s + "%Z"
}
func (t *tables) jvTerm(v jv) string {
	switch v.Kind {
	case 'a':
		return "JAbsent"
	case 's':
		return "(JStr " + t.hex([]byte(v.S)) + ")"
	case 'n':
		return "(JNum " + zBig(v) + ")"
	}
	return "JOther"
}
func (t *tables) claimsTerm(c claimsView) string {
	return "(mk_claims " + strings.Join([]string{t.jvTerm(c.Kid), t.jvTerm(c.Exp), t.jvTerm(c.Iat), t.jvTerm(c.Sub), t.jvTerm(c.Iss), t.jvTerm(c.Scope)}, " ") + ")"
}

// lit prints a byte string as a list of Byte constructors (far cheaper for Coq to
// elaborate than a hex string literal).
func lit(b []byte) string {
	if len(b) == 0 {
		return "[]"
	}
	var sb strings.Builder
	sb.WriteByte('[')
	for i, c := range b {
		if i > 0 {
			sb.WriteString("; ")
		}
		fmt.Fprintf(&sb, "x%02x", c)
	}
	sb.WriteByte(']')
	return sb.String()
}

// vars: atomic byte strings of a case (token, nonces, keys, MACs ...) bound once
// by `let` and referenced wherever they occur inside longer byte strings.
type vars struct{ vals [][]byte }

func (v *vars) add(b []byte) {
	if len(b) < 12 {
		return
	}
	for _, x := range v.vals {
		if string(x) == string(b) {
			return
		}
	}
	v.vals = append(v.vals, append([]byte{}, b...))
}
func (v *vars) hex(b []byte) string {
	var parts []string
	start := 0
	for i := 0; i < len(b); {
		best, bl := -1, 0
		for k, x := range v.vals {
			if len(x) > bl && len(x) <= len(b)-i && string(b[i:i+len(x)]) == string(x) {
				best, bl = k, len(x)
			}
		}
		if best < 0 {
			i++
			continue
		}
		if i > start {
			parts = append(parts, lit(b[start:i]))
		}
		parts = append(parts, fmt.Sprintf("v%d", best))
		i += bl
		start = i
	}
	if start < len(b) || len(parts) == 0 {
		parts = append(parts, lit(b[start:]))
	}
	if len(parts) == 1 {
		return parts[0]
	}
	return "(" + strings.Join(parts, " ++ ") + ")%list"
}
func (v *vars) wrap(body string) string {
	var sb strings.Builder
	sb.WriteString("(")
	for k, x := range v.vals {
		fmt.Fprintf(&sb, "let v%d : bytes := %s in ", k, lit(x))
	}
	sb.WriteString(body + ")")
	return sb.String()
}

type e3 struct{ A, B, V []byte }
type e2 struct{ A, V []byte }

// tables collects the reference evaluations handed to the model.
type tables struct {
	sign, kdf, mac []e3
	skey           []e2
	json           map[string]string // decoded bytes -> term
	w              *world
	v              *vars
	kids           map[string]bool // named keys the case needs (nil: all)
}

func newTables(w *world) *tables {
	t := &tables{json: map[string]string{}, w: w, v: &vars{}}
	t.v.add(w.Pool)
	return t
}
func (t *tables) hex(b []byte) string { return t.v.hex(b) }

func add3(l *[]e3, a, b, v []byte) {
	for _, e := range *l {
		if string(e.A) == string(a) && string(e.B) == string(b) {
			return
		}
	}
	*l = append(*l, e3{a, b, v})
}
func (t *tables) addSign(key, text []byte) []byte {
	v := refSign(key, text)
	t.v.add(key)
	t.v.add(text)
	t.v.add(v)
	add3(&t.sign, key, text, v)
	return v
}
func (t *tables) addKdf(sig, tok []byte) []byte {
	v := refKdf(sig, tok)
	t.v.add(sig)
	t.v.add(tok)
	t.v.add(v)
	add3(&t.kdf, sig, tok, v)
	return v
}
func (t *tables) addMac(k, m []byte) []byte {
	v := refMac(k, m)
	t.v.add(k)
	t.v.add(v)
	add3(&t.mac, k, m, v)
	return v
}
func (t *tables) addSkey(rb []byte) []byte {
	v := refSkey(rb)
	t.v.add(rb)
	t.v.add(v)
	for _, e := range t.skey {
		if string(e.A) == string(rb) {
			return v
		}
	}
	t.skey = append(t.skey, e2{rb, v})
	return v
}

// addTokenJSON registers the JSON view of every base64url-decodable part of tok.
func (t *tables) addTokenJSON(tok []byte) {
	parts := strings.Split(string(tok), ".")
	if len(parts) > 3 {
		parts = parts[:3]
	}
	for _, p := range parts {
		b, ok := b64d(p)
		if !ok {
			continue
		}
		if _, have := t.json[string(b)]; have {
			continue
		}
		c, ok := jsonView(b)
		t.v.add(b)
		if ok {
			t.json[string(b)] = "(Some " + t.claimsTerm(c) + ")"
		} else {
			t.json[string(b)] = "None"
		}
	}
}

func (t *tables) l3(l []e3) string {
	var xs []string
	for _, e := range l {
		xs = append(xs, "("+t.hex(e.A)+", "+t.hex(e.B)+", "+t.hex(e.V)+")")
	}
	return core.List(xs)
}

func (t *tables) term() string {
	var sk []string
	for _, e := range t.skey {
		sk = append(sk, core.Pair(t.hex(e.A), t.hex(e.V)))
	}
	var js []string
	keys := make([]string, 0, len(t.json))
	for k := range t.json {
		keys = append(keys, k)
	}
	sort.Strings(keys)
	for _, k := range keys {
		js = append(js, core.Pair(t.hex([]byte(k)), t.json[k]))
	}
	var nm []string
	nk := make([]string, 0, len(t.w.Named))
	for k := range t.w.Named {
		nk = append(nk, k)
	}
	sort.Strings(nk)
	for _, k := range nk {
		if t.kids != nil && !t.kids[k] {
			continue
		}
		nm = append(nm, core.Pair(t.hex([]byte(k)), t.hex(t.w.Named[k])))
	}
	pool := "None"
	if t.w.Pool != nil {
		pool = "(Some " + t.hex(t.w.Pool) + ")"
	}
	return "(mk_tables " + strings.Join([]string{t.l3(t.sign), t.l3(t.kdf), t.l3(t.mac), core.List(sk), core.List(js),
		pool, core.List(nm), core.Z(int64(t.w.MaxAge)), t.hex([]byte(t.w.Trust)), lit([]byte(t.w.Env)), durTerm(t.w.Env)}, " ") + ")"
}

func (t *tables) framesTerm(fr []frame) string {
	var xs []string
	for _, f := range fr {
		xs = append(xs, core.Pair(t.hex(f.D), core.Bool(f.EOM)))
	}
	return core.List(xs)
}
func (t *tables) optBytes(b []byte, some bool) string { return core.Opt(some, t.hex(b)) }

// needKid restricts the named-key table of the case to the key ids the token names.
func (t *tables) needKid(kid string) {
	if t.kids == nil {
		t.kids = map[string]bool{}
	}
	t.kids[kid] = true
}

// durTerm: what time.ParseDuration answers for the strings a reader of
// SEC_TOKEN_MAX_AGE may hand it (the value itself and the value followed by "s").
func durTerm(env string) string {
	if env == "" {
		return "[]"
	}
	var xs []string
	for _, q := range []string{env + "s", env} {
		v := "None"
		if d, err := time.ParseDuration(q); err == nil {
			v = "(Some " + core.Z(int64(d)) + ")"
		}
		xs = append(xs, core.Pair(lit([]byte(q)), v))
	}
	return core.List(xs)
}
