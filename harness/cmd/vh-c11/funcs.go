// Function-level correspondence: VerifyIDToken, validateTokenAndDeriveKeys,
// loadSingleToken, validateTokenTiming, loadSigningKey and the modelled library
// pieces (base64url decoding, strings.TrimSpace).
package main

import (
	"bytes"
	"encoding/json"
	"fmt"
	"math"
	"math/big"
	"strings"
	"time"

	"verifharness/core"

	"github.com/bbockelm/cedar/security"
)

type fDoc struct {
	Kind    string  `json:"kind"`
	W       *world  `json:"world,omitempty"`
	Tok     tokSpec `json:"tok,omitempty"`
	Wrap    mut     `json:"wrap,omitempty"`
	Claimed string  `json:"claimed,omitempty"`
	Kid     string  `json:"kid,omitempty"`
	Exp     *tv     `json:"exp,omitempty"`
	Iat     *tv     `json:"iat,omitempty"`
	MaxAge  int     `json:"maxage,omitempty"`
	Env     string  `json:"env,omitempty"`
}

// tv: a time claim value relative to now
type tv struct {
	Kind string  `json:"k"` // absent f64 i64 int str nil frac huge neghuge
	Off  int64   `json:"off"`
	Frac float64 `json:"frac"`
}

func (t tv) value(now int64) (interface{}, bool, jv) {
	switch t.Kind {
	case "absent":
		return nil, false, jv{Kind: 'a'}
	case "f64":
		return float64(now + t.Off), true, jv{Kind: 'n', N: big.NewInt(now + t.Off)}
	case "i64":
		return int64(now + t.Off), true, jv{Kind: 'n', N: big.NewInt(now + t.Off)}
	case "int":
		return int(now + t.Off), true, jv{Kind: 'n', N: big.NewInt(now + t.Off)}
	case "frac":
		f := float64(now+t.Off) + t.Frac
		z, _ := new(big.Float).SetFloat64(f).Int(nil)
		return f, true, jv{Kind: 'n', N: z}
	case "huge":
		z, _ := new(big.Float).SetFloat64(1e30).Int(nil)
		return 1e30, true, jv{Kind: 'n', N: z}
	case "neghuge":
		z, _ := new(big.Float).SetFloat64(-1e30).Int(nil)
		return -1e30, true, jv{Kind: 'n', N: z}
	case "absf": // an absolute float64 value
		z, _ := new(big.Float).SetFloat64(float64(t.Off)).Int(nil)
		return float64(t.Off), true, jv{Kind: 'n', N: z}
	case "absi": // an absolute int64 value
		return t.Off, true, jv{Kind: 'n', N: big.NewInt(t.Off)}
	case "str":
		return fmt.Sprint(now + t.Off), true, jv{Kind: 's', S: fmt.Sprint(now + t.Off)}
	}
	return nil, true, jv{Kind: 'o'}
}

// stable runs f until the wall-clock second did not change across it.
func stable(f func(now int64)) {
	for i := 0; i < 8; i++ {
		now := time.Now().Unix()
		f(now)
		if time.Now().Unix() == now {
			return
		}
	}
}

func timingCase(d *fDoc) (term string, fails []string) {
	stable(func(now int64) {
		fails = nil
		claims := map[string]interface{}{}
		ev, ep, ej := d.Exp.value(now)
		iv, ip, ij := d.Iat.value(now)
		if ep {
			claims["exp"] = ev
		}
		if ip {
			claims["iat"] = iv
		}
		w := world{MaxAge: d.MaxAge, Env: d.Env}
		var err error
		w.withEnv(func() {
			err = security.VerifC11ValidateTokenTiming(claims, &security.SecurityConfig{TokenMaxAge: d.MaxAge})
		})
		valid, known := refTiming(claimsView{Exp: ej, Iat: ij}, now, w.maxAge())
		if known && valid != (err == nil) {
			fails = append(fails, fmt.Sprintf("timing: implementation ok=%v, time claims valid=%v", err == nil, valid))
		}
		t := newTables(&w)
		term = "(CTiming " + strings.Join([]string{core.Z(now), core.Z(int64(d.MaxAge)), lit([]byte(d.Env)), durTerm(d.Env), t.jvTerm(ej), t.jvTerm(ij), core.Bool(err == nil)}, " ") + ")"
	})
	return
}

// full token text for VerifyIDToken / loadSingleToken cases
func fullToken(t tokSpec, wrap mut, now int64) string {
	hp, sig := t.mint(now)
	parts := strings.Split(hp, ".")
	p0, p1, p2 := parts[0], parts[1], b64e(sig)
	switch t.Mut.Kind {
	case "flip-h":
		p0 = string(flipBit([]byte(p0), t.Mut.Arg))
	case "flip-p":
		p1 = string(flipBit([]byte(p1), t.Mut.Arg))
	case "flip-s":
		p2 = string(flipBit([]byte(p2), t.Mut.Arg))
	case "sig-trunc":
		p2 = b64e(sig[:31])
	case "sig-ext":
		p2 = b64e(append(append([]byte{}, sig...), 0))
	case "sig-empty":
		p2 = ""
	case "sig-nl":
		p2 = p2[:10] + "\r\n" + p2[10:]
	case "sig-pad":
		p2 = p2 + "="
	case "sig-std":
		p2 = strings.NewReplacer("-", "+", "_", "/").Replace(p2)
	case "sig-of-payload-only":
		p2 = b64e(refSign(t.SignKey, []byte(p1)))
	}
	full := p0 + "." + p1 + "." + p2
	switch t.Mut.Kind {
	case "parts2":
		full = p0 + "." + p1
	case "parts4":
		full = full + "." + p2
	case "empty":
		full = ""
	case "dots":
		full = ".."
	}
	switch wrap.Kind {
	case "ws":
		ws := []string{" ", "\n", "\t \r\n", "\u00a0", "\u2003", "\u3000", "\u0085", "\v\f", "\u1680\u2000\u2001\u2002\u2004\u2005", "\u2006\u2007\u2008\u2009\u200a", "\u2028\u2029\u202f\u205f"}
		full = ws[wrap.Arg%len(ws)] + full + ws[(wrap.Arg/3)%len(ws)]
	case "inner-ws":
		full = full[:5] + " " + full[5:]
	case "nbsp-half":
		full = "\xc2" + full + "\xa0"
	case "zwsp":
		full = "\u200b" + full
	}
	return full
}

func refVerify(w *world, now int64, tok string) (accept bool, known bool) {
	parts := strings.Split(strings.TrimSpace(tok), ".")
	if len(parts) != 3 {
		return false, true
	}
	hb, ok := b64d(parts[0])
	if !ok {
		return false, true
	}
	h, ok := jsonView(hb)
	if !ok {
		return false, true
	}
	kid := "POOL"
	if h.Kid.Kind == 's' && h.Kid.S != "" {
		kid = h.Kid.S
	}
	key, ok := w.refKey(kid)
	if !ok {
		return false, true
	}
	sig, ok := b64d(parts[2])
	if !ok || !bytes.Equal(sig, refSign(key, []byte(parts[0]+"."+parts[1]))) {
		return false, true
	}
	pb, ok := b64d(parts[1])
	if !ok {
		return false, true
	}
	c, ok := jsonView(pb)
	if !ok {
		return false, true
	}
	valid, known := refTiming(c, now, w.maxAge())
	if !known {
		return false, false
	}
	return valid && c.Sub.Kind == 's' && c.Sub.S != "", true
}

func verifyTables(w *world, tok string) *tables {
	tb := newTables(w)
	t := strings.TrimSpace(tok)
	tb.addTokenJSON([]byte(t))
	tb.needKid(kidOfToken([]byte(t)))
	parts := strings.Split(t, ".")
	for _, p := range parts {
		tb.v.add([]byte(p))
	}
	if len(parts) >= 2 {
		if hb, ok := b64d(parts[0]); ok {
			if h, ok := jsonView(hb); ok {
				kid := "POOL"
				if h.Kid.Kind == 's' && h.Kid.S != "" {
					kid = h.Kid.S
				}
				if key, ok := w.refKey(kid); ok {
					tb.addSign(key, []byte(parts[0]+"."+parts[1]))
				}
			}
		}
	}
	return tb
}

func verifyCase(d *fDoc) (term string, fails []string, accepted bool) {
	stable(func(now int64) {
		fails = nil
		tok := fullToken(d.Tok, d.Wrap, now)
		var cl *security.IDTokenClaims
		var err error
		d.W.withEnv(func() { cl, err = security.VerifyIDToken(tok, d.W.serverCfg()) })
		accepted = err == nil
		exp, known := refVerify(d.W, now, tok)
		if known && exp != accepted {
			fails = append(fails, fmt.Sprintf("verify: implementation accepts=%v, token valid=%v", accepted, exp))
		}
		obs := "None"
		t := verifyTables(d.W, tok)
		if err == nil {
			obs = "(Some (" + strings.Join([]string{t.hex([]byte(cl.Subject)), t.hex([]byte(cl.Issuer)), t.hex([]byte(cl.Scope)),
				core.Z(cl.Expiry), core.Z(cl.IssuedAt)}, ", ") + "))"
		}
		term = t.v.wrap("CVerify " + strings.Join([]string{t.term(), core.Z(now), t.hex([]byte(tok)), obs}, " "))
	})
	return
}

func validateCase(d *fDoc) (term string, fails []string, accepted bool) {
	stable(func(now int64) {
		fails = nil
		sent, _, _ := d.Tok.applied(now)
		var cid, sid string
		var sig, K []byte
		var err error
		d.W.withEnv(func() {
			cid, sid, sig, K, err = security.VerifC11ValidateToken(d.Claimed, string(sent), d.W.serverCfg())
		})
		accepted = err == nil
		rv := refValidate(d.W, now, sent)
		tb := newTables(d.W)
		tb.addTokenJSON(sent)
		tb.v.add(sent)
		tb.needKid(kidOfToken(sent))
		if rv.HasKey {
			tb.addSign(rv.Key, sent)
			tb.addKdf(rv.Sig, sent)
		}
		if rv.Known {
			if rv.OK != accepted {
				fails = append(fails, fmt.Sprintf("validate: implementation accepts=%v, token valid under a held key=%v", accepted, rv.OK))
			} else if accepted {
				if cid != rv.Sub {
					fails = append(fails, "validate: identity is not the token subject")
				}
				if !bytes.Equal(sig, rv.Sig) || !bytes.Equal(K, rv.K) || sid != d.W.serverID() {
					fails = append(fails, "validate: signature / derived key / server id differ from the reference")
				}
			}
		}
		obs := "None"
		if err == nil {
			obs = "(Some (" + strings.Join([]string{tb.hex([]byte(cid)), tb.hex([]byte(sid)), tb.hex(sig), tb.hex(K)}, ", ") + "))"
		}
		term = tb.v.wrap("CValidate " + strings.Join([]string{tb.term(), core.Z(now), tb.hex([]byte(d.Claimed)), tb.hex(sent), obs}, " "))
	})
	return
}

func loadCase(d *fDoc) (term string, fails []string) {
	now := time.Now().Unix()
	tok := fullToken(d.Tok, d.Wrap, now)
	cid, tk, sig, err := security.VerifC11LoadSingleToken(tok)
	tb := newTables(&world{})
	tb.addTokenJSON([]byte(tok))
	for _, p := range strings.Split(tok, ".") {
		tb.v.add([]byte(p))
	}
	obs := "None"
	if err == nil {
		obs = "(Some (" + strings.Join([]string{tb.hex([]byte(cid)), tb.hex([]byte(tk)), tb.hex(sig)}, ", ") + "))"
		parts := strings.Split(tok, ".")
		if len(parts) != 3 || tk != parts[0]+"."+parts[1] {
			fails = append(fails, "load: token text is not header.payload of the input")
		} else if want, ok := b64d(parts[2]); !ok || !bytes.Equal(want, sig) {
			fails = append(fails, "load: signature is not the decoded third part")
		}
		if cid == "" {
			fails = append(fails, "load: empty subject accepted")
		}
	}
	term = tb.v.wrap("CLoad " + strings.Join([]string{tb.term(), tb.hex([]byte(tok)), obs}, " "))
	return
}

func keyCase(d *fDoc) (term string, fails []string) {
	var key []byte
	var err error
	d.W.withEnv(func() { key, err = security.VerifC11LoadSigningKey(d.Kid, d.W.serverCfg()) })
	want, ok := d.W.refKey(d.Kid)
	if ok != (err == nil) || (ok && !bytes.Equal(want, key)) {
		fails = append(fails, "loadSigningKey differs from the reference key store")
	}
	t := newTables(d.W)
	t.needKid(d.Kid)
	t.v.add(d.W.Named[d.Kid])
	t.v.add(key)
	term = t.v.wrap("CKey " + strings.Join([]string{t.term(), t.hex([]byte(d.Kid)), t.optBytes(key, err == nil)}, " "))
	return
}

func replayFunc(raw json.RawMessage) error {
	var d fDoc
	if err := json.Unmarshal(raw, &d); err != nil {
		return nil
	}
	var fails []string
	switch d.Kind {
	case "timing":
		_, fails = timingCase(&d)
	case "verify":
		_, fails, _ = verifyCase(&d)
	case "validate":
		_, fails, _ = validateCase(&d)
	case "load":
		_, fails = loadCase(&d)
	case "key":
		_, fails = keyCase(&d)
	}
	if len(fails) > 0 {
		return fmt.Errorf("%s: %v", d.Kind, fails)
	}
	return nil
}

func genFuncs(c *core.Ctx, kr *keyring) error {
	emit := func(d *fDoc, term string, fails []string) {
		raw, _ := json.Marshal(d)
		doc := replayDoc{Role: "func", F: raw, Why: fails}
		c.AddCaseW(term, doc, 1+len(term)/600)
		c.OracleCheck()
		c.Count("func:" + d.Kind)
		for _, f := range fails {
			c.OracleFail("func:"+d.Kind, f, doc)
		}
	}
	// ---- validateTokenTiming: grid around both boundaries
	var tvs []tv
	for _, k := range []string{"absent", "str", "nil", "huge", "neghuge"} {
		tvs = append(tvs, tv{Kind: k})
	}
	expVals := append([]tv{}, tvs...)
	for _, off := range []int64{-2, -1, 0, 1, 2, 1000} {
		expVals = append(expVals, tv{Kind: "f64", Off: off})
	}
	expVals = append(expVals, tv{Kind: "i64", Off: 0}, tv{Kind: "i64", Off: 1}, tv{Kind: "int", Off: 0}, tv{Kind: "int", Off: 1},
		tv{Kind: "frac", Off: 0, Frac: 0.5}, tv{Kind: "frac", Off: 1, Frac: 0.5}, tv{Kind: "frac", Off: 1, Frac: -0.5})
	n := 0
	for _, ma := range []int{0, 1, 600, -5} {
		w := world{MaxAge: ma}
		iatVals := append([]tv{}, tvs...)
		for _, d := range []int64{-2, -1, 0, 1, 2} {
			iatVals = append(iatVals, tv{Kind: "f64", Off: -(w.maxAge() + d)})
		}
		iatVals = append(iatVals, tv{Kind: "i64", Off: -w.maxAge()}, tv{Kind: "i64", Off: -w.maxAge() - 1}, tv{Kind: "int", Off: -w.maxAge() - 1},
			tv{Kind: "f64", Off: 5000}, tv{Kind: "frac", Off: -w.maxAge() - 1, Frac: 0.5}, tv{Kind: "frac", Off: -w.maxAge() - 1, Frac: -0.5},
			// issued so long ago that now - iat does not fit in an int64
			tv{Kind: "absf", Off: -9000000000000000000}, tv{Kind: "absi", Off: -9000000000000000000}, tv{Kind: "absi", Off: math.MinInt64},
			tv{Kind: "absi", Off: math.MinInt64 + 1700000000}, tv{Kind: "absi", Off: 0}, tv{Kind: "absi", Off: -1})
		for i := range expVals {
			for j := range iatVals {
				n++
				if c.Quick() && ma != 0 && (i+j)%3 != 0 {
					continue
				}
				d := &fDoc{Kind: "timing", Exp: &expVals[i], Iat: &iatVals[j], MaxAge: ma}
				term, fails := timingCase(d)
				emit(d, term, fails)
				c.Nontrivial(fmt.Sprintf("t|%d|%d|%d", ma, i, j))
			}
		}
	}
	// ---- validateTokenTiming: source of the maximum age (config > environment > default)
	for _, env := range []string{"600", "0", "600s", "-5", "abc", "1.5", "1m30", "+7", " 600", "3600", "7200", "10m", "99999999999999999999", "9223372036"} {
		for _, cfg := range []int{0, 300} {
			w := world{MaxAge: cfg, Env: env}
			ages := []int64{1, 2, 6, 7, 8, 90, 91, 299, 300, 301, 599, 600, 601, 2000, 3599, 3600, 3601, 5000, 7200, 7201}
			if ma := w.maxAge(); ma > 0 {
				ages = append(ages, ma-1, ma, ma+1)
			}
			for k, age := range ages {
				if c.Quick() && cfg != 0 && k%3 != 0 {
					continue
				}
				d := &fDoc{Kind: "timing", Exp: &tv{Kind: "f64", Off: 1000}, Iat: &tv{Kind: "f64", Off: -age}, MaxAge: cfg, Env: env}
				term, fails := timingCase(d)
				emit(d, term, fails)
				c.Count("func:timing:env")
				c.Nontrivial(fmt.Sprintf("te|%s|%d|%d", env, cfg, age))
			}
		}
	}
	// ---- loadSigningKey
	{
		worlds := []world{kr.w0, {Pool: nil, Named: kr.w0.Named}, {Pool: []byte{}, Named: map[string][]byte{}}, {Pool: []byte{0x11}, Named: kr.w0.Named}, kr.wLongPool,
			{Pool: kr.w0.Pool, Named: kr.w0.Named, EnvPaths: true}, {Pool: nil, Named: kr.w0.Named, EnvPaths: true}}
		for wi := range worlds {
			kids := []string{"POOL", "k1", "k2", "empty", "nokey", "", "../keys/k1", "a/b", "..", "k1..", "pool", "POOL "}
			if wi == 0 {
				for _, n := range longKeyLens {
					kids = append(kids, longKid(n))
				}
			}
			for _, kid := range kids {
				d := &fDoc{Kind: "key", W: &worlds[wi], Kid: kid}
				term, fails := keyCase(d)
				emit(d, term, fails)
				c.Nontrivial(fmt.Sprintf("k|%d|%s", wi, kid))
			}
		}
	}
	// ---- token catalogue shared by VerifyIDToken / validate / load
	type tcase struct {
		name string
		t    tokSpec
		w    *world
	}
	std := func() tokSpec {
		return tokSpec{Hdr: hdrFor("k1"), Pl: stdPl, ExpOff: 600, IatOff: -10, SignKey: kr.k1}
	}
	var toks []tcase
	addT := func(name string, f func(t *tokSpec), w *world) {
		t := std()
		if f != nil {
			f(&t)
		}
		toks = append(toks, tcase{name, t, w})
	}
	addT("honest", nil, &kr.w0)
	addT("honest-w1", nil, &kr.w1)
	addT("pool", func(t *tokSpec) { t.Hdr, t.SignKey = hdrFor("POOL"), kr.poolSign() }, &kr.w0)
	addT("kid-empty", func(t *tokSpec) { t.Hdr, t.SignKey = hdrFor(""), kr.poolSign() }, &kr.w0)
	addT("no-kid", func(t *tokSpec) { t.Hdr, t.SignKey = `{"alg":"HS256"}`, kr.poolSign() }, &kr.w0)
	addT("kid-number", func(t *tokSpec) { t.Hdr, t.SignKey = `{"kid":7}`, kr.poolSign() }, &kr.w0)
	addT("hdr-null", func(t *tokSpec) { t.Hdr, t.SignKey = `null`, kr.poolSign() }, &kr.w0)
	addT("hdr-array", func(t *tokSpec) { t.Hdr = `[]` }, &kr.w0)
	for _, n := range longKeyLens {
		n := n
		addT(fmt.Sprintf("longkey%d", n), func(t *tokSpec) { t.Hdr, t.SignKey = hdrFor(longKid(n)), kr.long[n] }, &kr.w0)
		for kind := 0; kind < 3; kind++ {
			kind := kind
			addT(fmt.Sprintf("longkey%d-variant%d", n, kind), func(t *tokSpec) {
				t.Hdr, t.SignKey = hdrFor(longKid(n)), keyVariant(kr.long[n], kind)
			}, &kr.w0)
		}
	}
	{
		dbl := append(append([]byte{}, kr.longPool...), kr.longPool...)
		addT("longpool", func(t *tokSpec) { t.Hdr, t.SignKey = hdrFor("POOL"), dbl }, &kr.wLongPool)
		for kind := 0; kind < 3; kind++ {
			kind := kind
			addT(fmt.Sprintf("longpool-variant%d", kind), func(t *tokSpec) { t.Hdr, t.SignKey = hdrFor("POOL"), keyVariant(dbl, kind) }, &kr.wLongPool)
		}
	}
	addT("key-other", func(t *tokSpec) { t.SignKey = kr.evil }, &kr.w0)
	addT("key-k2-as-k1", func(t *tokSpec) { t.SignKey = kr.k2 }, &kr.w0)
	addT("pool-undoubled", func(t *tokSpec) { t.Hdr, t.SignKey = hdrFor("POOL"), kr.pool }, &kr.w0)
	for _, kid := range []string{"nokey", "../keys/k1", "empty", "K1"} {
		kid := kid
		addT("kid-"+kid, func(t *tokSpec) { t.Hdr = hdrFor(kid) }, &kr.w0)
	}
	for _, w := range []*world{&kr.w0, &kr.w1} {
		for _, d := range []int64{-1, 0, 1, 2} {
			d := d
			addT(fmt.Sprintf("exp%+d", d), func(t *tokSpec) { t.ExpOff = d }, w)
		}
		for _, d := range []int64{-1, 0, 1} {
			d := d
			ma := w.maxAge()
			addT(fmt.Sprintf("age=max%+d", d), func(t *tokSpec) { t.IatOff = -(ma + d) }, w)
		}
	}
	envWorlds := map[string]*world{}
	for _, v := range envAgeCases {
		v := v
		key := fmt.Sprintf("%s|%d", v.env, v.cfg)
		if envWorlds[key] == nil {
			w := kr.w0
			w.MaxAge, w.Env = v.cfg, v.env
			envWorlds[key] = &w
		}
		addT(fmt.Sprintf("env-%q-cfg%d-age%d", v.env, v.cfg, v.age), func(t *tokSpec) { t.IatOff, t.ExpOff = -v.age, 9000 }, envWorlds[key])
	}
	for _, v := range []struct{ name, pl string }{
		{"no-exp", `{"iat":%IAT%,"sub":"alice@pool.example"}`},
		{"no-times", `{"sub":"alice@pool.example","scope":"condor:/READ","iss":"x"}`},
		{"exp-string", `{"exp":"%EXP%","sub":"alice@pool.example"}`},
		{"exp-null", `{"exp":null,"sub":"alice@pool.example"}`},
		{"iat-bool", `{"iat":true,"sub":"alice@pool.example"}`},
		{"exp-frac", `{"exp":%EXP%.75,"sub":"alice@pool.example"}`},
		{"exp-huge", `{"exp":1e30,"sub":"alice@pool.example"}`},
		{"iat-neg-huge", `{"iat":-1e30,"sub":"alice@pool.example"}`},
		{"iat-ancient", `{"exp":%EXP%,"iat":-9000000000000000000,"sub":"alice@pool.example"}`},
		{"iat-min", `{"exp":%EXP%,"iat":-9223372036854775808,"sub":"alice@pool.example"}`},
		{"iat-zero", `{"exp":%EXP%,"iat":0,"sub":"alice@pool.example"}`},
		{"sub-absent", `{"exp":%EXP%,"iat":%IAT%}`},
		{"sub-empty", `{"exp":%EXP%,"sub":""}`},
		{"sub-number", `{"exp":%EXP%,"sub":42}`},
		{"sub-null", `{"exp":%EXP%,"sub":null}`},
		{"iss-number", `{"exp":%EXP%,"sub":"a","iss":1,"scope":[1]}`},
		{"payload-not-json", `{"exp":`},
		{"payload-null", `null`},
		{"sub-nul", `{"sub":"a\u0000b"}`},
		{"sub-utf8", `{"sub":"élève@x"}`},
	} {
		v := v
		addT("pl-"+v.name, func(t *tokSpec) { t.Pl = v.pl }, &kr.w0)
	}
	stride := func(n, quick int) int {
		if !c.Quick() {
			return 1
		}
		s := n / quick
		if s < 1 {
			s = 1
		}
		return s
	}
	// single-bit alterations of each segment and structural alterations of the honest token
	{
		hp, sig := std().mint(1700000000)
		parts := strings.Split(hp, ".")
		for seg, ln := range map[string]int{"flip-h": len(parts[0]) * 8, "flip-p": len(parts[1]) * 8, "flip-s": len(b64e(sig)) * 8} {
			seg := seg
			for i := 0; i < ln; i += stride(ln, 60) {
				i := i
				addT(fmt.Sprintf("%s-%d", seg, i), func(t *tokSpec) { t.Mut = mut{seg, i} }, &kr.w0)
			}
		}
		for _, k := range []string{"sig-trunc", "sig-ext", "sig-empty", "sig-nl", "sig-pad", "sig-std", "sig-of-payload-only", "parts2", "parts4", "empty", "dots"} {
			k := k
			addT(k, func(t *tokSpec) { t.Mut = mut{k, 0} }, &kr.w0)
		}
	}
	nflip := 0
	for _, tc := range toks {
		tc := tc
		model := true
		if strings.HasPrefix(tc.t.Mut.Kind, "flip-") {
			model = nflip%boolInt(c.Quick(), 8, 2) == 0
			nflip++
		}
		emit := func(d *fDoc, term string, fails []string) {
			if model {
				emit(d, term, fails)
				return
			}
			c.Evaluated(1)
			c.OracleCheck()
			c.Count("func:" + d.Kind + ":oracle-only")
			raw, _ := json.Marshal(d)
			for _, f := range fails {
				c.OracleFail("func:"+d.Kind, f, replayDoc{Role: "func", F: raw, Why: fails})
			}
		}
		d := &fDoc{Kind: "verify", W: tc.w, Tok: tc.t}
		term, fails, acc := verifyCase(d)
		emit(d, term, fails)
		c.Count(fmt.Sprintf("verify:accept=%v", acc))
		c.Nontrivial(fmt.Sprintf("v|%s|%d|%v", tc.name, tc.w.MaxAge, acc))
		if tc.name == "honest" {
			c.Sample(map[string]interface{}{"fn": "VerifyIDToken", "case": tc.name, "accept": acc})
		}
		if !strings.HasPrefix(tc.t.Mut.Kind, "flip-h") && tc.w == &kr.w0 && (model || !c.Quick()) {
			d2 := &fDoc{Kind: "load", Tok: tc.t}
			term, fails = loadCase(d2)
			emit(d2, term, fails)
		}
		if tc.t.Mut.Kind == "" || ((model || !c.Quick()) && (strings.HasPrefix(tc.t.Mut.Kind, "flip-h") || strings.HasPrefix(tc.t.Mut.Kind, "flip-p"))) {
			for _, claimed := range []string{"root@pool.example"} {
				d3 := &fDoc{Kind: "validate", W: tc.w, Tok: tc.t, Claimed: claimed}
				term, fails, acc := validateCase(d3)
				emit(d3, term, fails)
				c.Count(fmt.Sprintf("validate:accept=%v", acc))
				c.Nontrivial(fmt.Sprintf("va|%s|%d|%s|%v", tc.name, tc.w.MaxAge, claimed, acc))
			}
		}
	}
	for i, wk := range []mut{{"ws", 0}, {"ws", 1}, {"ws", 2}, {"ws", 3}, {"ws", 4}, {"ws", 5}, {"ws", 6}, {"ws", 7}, {"ws", 8}, {"ws", 13}, {"ws", 22},
		{"inner-ws", 0}, {"nbsp-half", 0}, {"zwsp", 0}} {
		d := &fDoc{Kind: "verify", W: &kr.w0, Tok: std(), Wrap: wk}
		term, fails, acc := verifyCase(d)
		emit(d, term, fails)
		c.Nontrivial(fmt.Sprintf("vw|%d|%v", i, acc))
	}
	// ---- library pieces the model spells out: base64url decoding, TrimSpace
	alpha := []byte("ABCDEFGHIJKLMNOPQRSTUVWXYZabcdefghijklmnopqrstuvwxyz0123456789-_")
	odd := []byte("\r\n=+/ .~\x00\xff")
	nb := 400
	if !c.Quick() {
		nb = 4000
	}
	for i := 0; i < nb; i++ {
		ln := c.Rng.Intn(14)
		if i < 40 {
			ln = i % 10
		}
		s := make([]byte, ln)
		for j := range s {
			if c.Rng.Intn(12) == 0 {
				s[j] = odd[c.Rng.Intn(len(odd))]
			} else {
				s[j] = alpha[c.Rng.Intn(len(alpha))]
			}
		}
		dec, ok := b64d(string(s))
		c.AddCase("(CB64 "+lit(s)+" "+core.Opt(ok, lit(dec))+")", replayDoc{Role: "lib"})
		c.Count(fmt.Sprintf("lib:b64 ok=%v", ok))
	}
	sp := []string{" ", "\t", "\n", "\v", "\f", "\r", "\u0085", "\u00a0", "\u1680", "\u2000", "\u2005", "\u200a", "\u2028", "\u2029", "\u202f", "\u205f", "\u3000",
		"\u200b", "\u180e", "\xc2", "\xa0", "\xe2\x80", "\x80", "a", "b.c", "\x00", "\u2060", "\ufeff", "\x1c", "\x1f", "\xe1\x9a", "\xe3\x80\x80\x80"}
	nt := 300
	if !c.Quick() {
		nt = 3000
	}
	for i := 0; i < nt; i++ {
		var b strings.Builder
		for k := c.Rng.Intn(6); k > 0; k-- {
			b.WriteString(sp[c.Rng.Intn(len(sp))])
		}
		s := b.String()
		c.AddCase("(CTrim "+lit([]byte(s))+" "+lit([]byte(strings.TrimSpace(s)))+")", replayDoc{Role: "lib"})
		c.Count("lib:trimspace")
	}
	_ = n
	return nil
}
