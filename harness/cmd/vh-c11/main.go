// vh-c11: correspondence + direct property oracle for C11 (TOKEN authentication
// proves possession of a valid token, in both directions).
//
// The real handshake roles run over net.Pipe against scripted peers that alter
// exactly one element of an otherwise valid exchange per run.  Each run is
// (a) judged by a direct oracle written against an independent reference
// implementation of the primitives (ref.go) and (b) written out as a Coq case
// for Run/C11.v, where the Gallina model is evaluated on the same frames.
package main

import (
	"encoding/json"
	"fmt"
	"go/ast"
	"go/parser"
	"go/token"
	"math"
	"os"
	"path/filepath"
	"strings"
	"time"

	"verifharness/core"

	"github.com/bbockelm/cedar/security"
)

const stdPl = `{"exp":%EXP%,"iat":%IAT%,"sub":"alice@pool.example"}`
const stdSub = "alice@pool.example"

func hdrFor(kid string) string { return `{"alg":"HS256","kid":"` + kid + `","typ":"JWT"}` }

type keyring struct {
	pool, k1, k2, evil []byte         // raw key bytes as the issuer holds them
	long               map[int][]byte // named keys "L<n>" of n bytes, around and beyond AUTH_PW_KEY_LEN
	longPool           []byte         // a pool key whose doubled form exceeds AUTH_PW_KEY_LEN
	w0, w1, wLongPool  world
}

// key lengths around and beyond AUTH_PW_KEY_LEN (256): the signature must depend on every key byte
var longKeyLens = []int{255, 256, 257, 300, 1024}

func longKid(n int) string { return fmt.Sprintf("L%d", n) }

// keyVariant: a key an issuer that does NOT hold [key] could have: the first
// 256 bytes only (kind 0), or all bytes but the last one changed (kind 1), or
// one more byte (kind 2)
func keyVariant(key []byte, kind int) []byte {
	switch kind {
	case 0:
		if len(key) > 256 {
			return append([]byte{}, key[:256]...)
		}
		return append([]byte{}, key[:len(key)-1]...)
	case 1:
		k := append([]byte{}, key...)
		k[len(k)-1] ^= 0x01
		return k
	}
	return append(append([]byte{}, key...), 0x00)
}

func scr(b []byte) []byte { return unscramble(b) } // XOR is an involution

func newKeyring(c *core.Ctx) *keyring {
	rnd := func(n int) []byte {
		b := make([]byte, n)
		for i := range b {
			b[i] = byte(c.Rng.Intn(256))
		}
		return b
	}
	k := &keyring{pool: rnd(24), k1: rnd(16), k2: rnd(16), evil: rnd(16)}
	named := map[string][]byte{"k1": scr(k.k1), "k2": scr(k.k2), "empty": {}}
	k.long = map[int][]byte{}
	for _, n := range longKeyLens {
		k.long[n] = rnd(n)
		named[longKid(n)] = scr(k.long[n])
	}
	k.longPool = rnd(150)
	k.wLongPool = world{Pool: scr(k.longPool), Named: named, MaxAge: 0, Trust: "pool.example"}
	k.w0 = world{Pool: scr(k.pool), Named: named, MaxAge: 0, Trust: "pool.example"}
	k.w1 = world{Pool: scr(k.pool), Named: named, MaxAge: 600, Trust: ""}
	return k
}
func (k *keyring) poolSign() []byte { return append(append([]byte{}, k.pool...), k.pool...) }

func strp(s string) *string { return &s }

// serverCatalogue enumerates the single-deviation cases for the server role.
func serverCatalogue(c *core.Ctx, kr *keyring) []sCase {
	var out []sCase
	ra := func(n int) []byte {
		b := make([]byte, n)
		for i := range b {
			b[i] = byte(c.Rng.Intn(256))
		}
		return b
	}
	base := func(name string) sCase {
		// an honest client draws 256 bytes; the server accepts any length up to 256,
		// most scripted runs use a short nonce to keep the generated Coq terms small
		n := 16
		if strings.HasPrefix(name, "honest") || (!c.Quick() && denseFamily(name) == "") {
			n = 256
		}
		return sCase{Name: name, W: kr.w0, Sub: stdSub, Expect: 1, RA: ra(n),
			Tok: tokSpec{Hdr: hdrFor("k1"), Pl: stdPl, ExpOff: 600, IatOff: -10, SignKey: kr.k1}}
	}
	dense := map[string]int{}
	add := func(s sCase) {
		// dense bit-flip families: every case runs on the implementation with the direct
		// oracle; in the quick tier only every 4th also becomes a Coq case
		if fam := denseFamily(s.Name); fam != "" {
			s.NoModel = dense[fam]%boolInt(c.Quick(), 8, 2) != 0
			dense[fam]++
		}
		out = append(out, s)
	}
	stride := func(n, quick int) int {
		if !c.Quick() {
			return 1
		}
		s := n / quick
		if s < 1 {
			s = 1
		}
		return s
	}
	// --- unmodified exchanges
	add(base("honest"))
	{
		s := base("honest-w1")
		s.W = kr.w1
		add(s)
		s = base("honest-pool")
		s.Tok.Hdr, s.Tok.SignKey = hdrFor("POOL"), kr.poolSign()
		add(s)
		s = base("honest-kid-empty")
		s.Tok.Hdr, s.Tok.SignKey = hdrFor(""), kr.poolSign()
		add(s)
		s = base("honest-no-kid")
		s.Tok.Hdr, s.Tok.SignKey = `{"alg":"HS256"}`, kr.poolSign()
		add(s)
		s = base("honest-k2")
		s.Tok.Hdr, s.Tok.SignKey = hdrFor("k2"), kr.k2
		add(s)
		s = base("honest-no-at")
		s.Sub, s.Tok.Pl = "bob", strings.Replace(stdPl, stdSub, "bob", 1)
		add(s)
		s = base("honest-two-at")
		s.Sub, s.Tok.Pl = "bob@a@b", strings.Replace(stdPl, stdSub, "bob@a@b", 1)
		add(s)
	}
	// --- key locations taken from the environment instead of the config
	{
		w := kr.w0
		w.EnvPaths = true
		s := base("honest-envpaths-named")
		s.W = w
		add(s)
		s = base("honest-envpaths-pool")
		s.W, s.Tok.Hdr, s.Tok.SignKey = w, hdrFor("POOL"), kr.poolSign()
		add(s)
		s = base("envpaths-key-other")
		s.W, s.Tok.SignKey, s.Expect = w, kr.evil, 0
		add(s)
		s = base("envpaths-kid-traversal")
		s.W, s.Tok.Hdr, s.Expect = w, hdrFor("../keys/k1"), 0
		add(s)
	}
	// --- long keys: every byte of the key the server holds enters the signature
	for _, n := range longKeyLens {
		if n == 1024 && c.Quick() {
			continue // covered at the VerifyIDToken / loadSigningKey level in the quick tier
		}
		s := base(fmt.Sprintf("honest-longkey%d", n))
		s.Tok.Hdr, s.Tok.SignKey = hdrFor(longKid(n)), kr.long[n]
		add(s)
		for kind := 0; kind < 3; kind++ {
			s = base(fmt.Sprintf("key-long%d-variant%d", n, kind))
			s.Tok.Hdr, s.Tok.SignKey, s.Expect = hdrFor(longKid(n)), keyVariant(kr.long[n], kind), 0
			add(s)
		}
	}
	{
		dbl := append(append([]byte{}, kr.longPool...), kr.longPool...)
		s := base("honest-longpool")
		s.W, s.Tok.Hdr, s.Tok.SignKey = kr.wLongPool, hdrFor("POOL"), dbl
		add(s)
		for kind := 0; kind < 3; kind++ {
			s = base(fmt.Sprintf("key-longpool-variant%d", kind))
			s.W, s.Tok.Hdr, s.Tok.SignKey, s.Expect = kr.wLongPool, hdrFor("POOL"), keyVariant(dbl, kind), 0
			add(s)
		}
	}
	// --- keys
	{
		s := base("key-other")
		s.Tok.SignKey, s.Expect = kr.evil, 0
		add(s)
		s = base("key-k2-as-k1")
		s.Tok.SignKey, s.Expect = kr.k2, 0
		add(s)
		s = base("key-pool-undoubled")
		s.Tok.Hdr, s.Tok.SignKey, s.Expect = hdrFor("POOL"), kr.pool, 0
		add(s)
		for _, kid := range []string{"nokey", "../keys/k1", "k1/", "..", "empty", "K1"} {
			s = base("kid-" + kid)
			s.Tok.Hdr, s.Expect = hdrFor(kid), 0
			add(s)
		}
		s = base("kid-number")
		s.Tok.Hdr, s.Tok.SignKey, s.Expect = `{"alg":"HS256","kid":7}`, kr.poolSign(), 0
		add(s)
		s = base("kid-null")
		s.Tok.Hdr, s.Tok.SignKey, s.Expect = `{"alg":"HS256","kid":null}`, kr.poolSign(), 0
		add(s)
		s = base("hdr-not-object")
		s.Tok.Hdr, s.Expect = `[1,2]`, 0
		add(s)
		s = base("hdr-null")
		s.Tok.Hdr, s.Tok.SignKey = `null`, kr.poolSign()
		add(s)
		s = base("no-pool-configured")
		s.W.Pool = nil
		s.Tok.Hdr, s.Tok.SignKey, s.Expect = hdrFor("POOL"), kr.poolSign(), 0
		add(s)
	}
	// --- time claims at the boundaries
	for _, w := range []world{kr.w0, kr.w1} {
		for _, d := range []int64{-2, -1, 0, 1, 2, 3} {
			s := base(fmt.Sprintf("exp%+d-maxage%d", d, w.MaxAge))
			s.W, s.Tok.ExpOff = w, d
			if d <= 0 {
				s.Expect = 0
			}
			add(s)
		}
		ma := w.maxAge()
		for _, d := range []int64{-2, -1, 0, 1, 2} {
			s := base(fmt.Sprintf("age=max%+d-maxage%d", d, w.MaxAge))
			s.W, s.Tok.IatOff = w, -(ma + d)
			if d > 0 {
				s.Expect = 0
			}
			add(s)
		}
	}
	// --- where the maximum age comes from: TokenMaxAge > SEC_TOKEN_MAX_AGE (seconds) > default
	for _, v := range envAgeCases {
		w := kr.w0
		w.MaxAge, w.Env = v.cfg, v.env
		s := base(fmt.Sprintf("env-%q-cfg%d-age%d", v.env, v.cfg, v.age))
		s.W, s.Tok.IatOff, s.Tok.ExpOff = w, -v.age, 9000
		if ma := w.maxAge(); ma > 0 && v.age > ma {
			s.Expect = 0
		}
		add(s)
	}
	for _, v := range []struct {
		name, pl string
		exp      int
	}{
		{"no-exp", `{"iat":%IAT%,"sub":"alice@pool.example"}`, 1},
		{"no-iat", `{"exp":%EXP%,"sub":"alice@pool.example"}`, 1},
		{"no-times", `{"sub":"alice@pool.example"}`, 1},
		{"exp-string", `{"exp":"%EXP%","iat":%IAT%,"sub":"alice@pool.example"}`, 0},
		{"exp-null", `{"exp":null,"iat":%IAT%,"sub":"alice@pool.example"}`, 0},
		{"iat-string", `{"exp":%EXP%,"iat":"%IAT%","sub":"alice@pool.example"}`, 0},
		{"iat-bool", `{"exp":%EXP%,"iat":true,"sub":"alice@pool.example"}`, 0},
		{"exp-frac", `{"exp":%EXP%.75,"iat":%IAT%,"sub":"alice@pool.example"}`, 1},
		{"exp-huge", `{"exp":1e30,"iat":%IAT%,"sub":"alice@pool.example"}`, -1},
		{"exp-neg-huge", `{"exp":-1e30,"iat":%IAT%,"sub":"alice@pool.example"}`, -1},
		{"iat-future", `{"exp":%EXP%,"iat":99999999999,"sub":"alice@pool.example"}`, 1},
		{"iat-huge", `{"exp":%EXP%,"iat":-1e30,"sub":"alice@pool.example"}`, 0},
		{"iat-ancient", `{"exp":%EXP%,"iat":-9000000000000000000,"sub":"alice@pool.example"}`, 0},
		{"iat-min", `{"exp":%EXP%,"iat":-9223372036854775808,"sub":"alice@pool.example"}`, 0},
		{"iat-zero", `{"exp":%EXP%,"iat":0,"sub":"alice@pool.example"}`, 0},
		{"dup-exp", `{"exp":1,"exp":%EXP%,"iat":%IAT%,"sub":"alice@pool.example"}`, 1},
		{"payload-not-json", `{"exp":%EXP%,`, 0},
		{"payload-array", `[]`, 0},
	} {
		s := base("pl-" + v.name)
		s.Tok.Pl, s.Expect = v.pl, v.exp
		add(s)
	}
	{
		s := base("exp-frac-now")
		s.Tok.Pl, s.Tok.ExpOff, s.Expect = `{"exp":%EXP%.75,"sub":"alice@pool.example"}`, 0, 0
		add(s)
	}
	// --- subject and claimed identity
	for _, v := range []struct {
		name, pl, sub string
		claimed       *string
		exp           int
	}{
		{"claimed-other", stdPl, stdSub, strp("root@pool.example"), 1},
		{"claimed-empty", stdPl, stdSub, strp(""), 1},
		{"sub-absent-claimed-root", `{"exp":%EXP%,"iat":%IAT%,"iss":"pool.example"}`, "root@pool.example", nil, 0},
		{"sub-absent-claimed-empty", `{"exp":%EXP%,"iat":%IAT%}`, "", nil, 0},
		{"sub-empty", `{"exp":%EXP%,"iat":%IAT%,"sub":""}`, "root@pool.example", nil, 0},
		{"sub-number", `{"exp":%EXP%,"iat":%IAT%,"sub":42}`, "42", nil, 0},
		{"sub-null", `{"exp":%EXP%,"iat":%IAT%,"sub":null}`, "root@pool.example", nil, 0},
		{"sub-case", `{"exp":%EXP%,"iat":%IAT%,"Sub":"alice@pool.example"}`, "alice@pool.example", nil, 0},
		{"sub-dup", `{"exp":%EXP%,"iat":%IAT%,"sub":"root@x","sub":"alice@pool.example"}`, stdSub, nil, 1},
	} {
		s := base("id-" + v.name)
		s.Tok.Pl, s.Sub, s.Claimed, s.Expect = v.pl, v.sub, v.claimed, v.exp
		add(s)
	}
	// --- every bit of the token text / of the signature the client keys from
	{
		hp, _ := base("").Tok.mint(1700000000)
		parts := strings.Split(hp, ".")
		for _, adapt := range []bool{false, true} {
			nh := len(parts[0]) * 8
			for i := 0; i < nh; i += stride(nh, 40) * boolInt(adapt, 3, 1) {
				s := base(fmt.Sprintf("flip-h-%d-adapt%v", i, adapt))
				s.Tok.Mut, s.Tok.Adapt, s.Expect = mut{"flip-h", i}, adapt, 0
				add(s)
			}
			np := len(parts[1]) * 8
			for i := 0; i < np; i += stride(np, 60) * boolInt(adapt, 3, 1) {
				s := base(fmt.Sprintf("flip-p-%d-adapt%v", i, adapt))
				s.Tok.Mut, s.Tok.Adapt, s.Expect = mut{"flip-p", i}, adapt, 0
				add(s)
			}
		}
		for i := 0; i < 256; i += stride(256, 48) {
			s := base(fmt.Sprintf("flip-s-%d", i))
			s.Tok.Mut, s.Expect = mut{"flip-s", i}, 0
			add(s)
		}
		for _, k := range []string{"parts1", "parts3", "empty", "nl"} {
			for _, adapt := range []bool{false, true} {
				s := base(fmt.Sprintf("tok-%s-adapt%v", k, adapt))
				s.Tok.Mut, s.Tok.Adapt, s.Expect = mut{k, 0}, adapt, 0
				add(s)
			}
		}
	}
	// --- message 1
	m1 := func(name string, m mut, exp int) {
		s := base("m1-" + name)
		s.M1, s.Expect = m, exp
		add(s)
	}
	for _, st := range []int{-1, 1, 2, 256, -2} {
		m1(fmt.Sprintf("status%d", st), mut{"status", st}, 0)
		m1(fmt.Sprintf("status%d-empty", st), mut{"status-empty", st}, 0)
	}
	m1("status0-empty", mut{"status-empty", 0}, 0)
	for _, d := range []int{-1, 1, -19, 2000} {
		m1(fmt.Sprintf("idlen%+d", d), mut{"idlen", d}, 0)
	}
	m1("id-1023", mut{"id-big", 1023}, 1) // claimed id of maximal size, identity still the subject
	m1("id-1024", mut{"id-big", 1024}, 0)
	m1("id-1025", mut{"id-big", 1025}, 0)
	for _, d := range []int{-1, 1, -257, 1 << 20} {
		m1(fmt.Sprintf("ralen%+d", d), mut{"ralen", d}, 0)
	}
	for _, n := range []int{0, 1, 16, 255} {
		m1(fmt.Sprintf("ra-size%d", n), mut{"ra-size", n}, 1)
	}
	m1("ra-size257", mut{"ra-size", 257}, 0)
	for _, n := range []int{1, 8, 300} {
		m1(fmt.Sprintf("trail%d", n), mut{"trail", n}, 0)
	}
	m1("trail-frame", mut{"trail-frame", 0}, 0)
	m1("no-eom", mut{"no-eom", 0}, 0)
	for _, n := range []int{0, 7, 8, 20, 60, -1, -10, -17} {
		m1(fmt.Sprintf("cut%d", n), mut{"cut", n}, 0)
	}
	for _, n := range []int{1, 9, 50} {
		m1(fmt.Sprintf("split%d", n), mut{"split", n}, 1)
	}
	// --- message 3
	m3 := func(name string, m mut, exp int) {
		s := base("m3-" + name)
		s.M3, s.Expect = m, exp
		add(s)
	}
	for _, st := range []int{-1, 1, 2, 256, -2} {
		m3(fmt.Sprintf("status%d", st), mut{"status", st}, 0)
		m3(fmt.Sprintf("status%d-empty", st), mut{"status-empty", st}, 0)
	}
	m3("status0-empty", mut{"status-empty", 0}, 0)
	for _, a := range []int{1, 2} {
		m3(fmt.Sprintf("id%d", a), mut{"id", a}, 0)
	}
	{
		s := base("m3-id-claimed")
		s.Claimed, s.M3, s.Expect = strp("root@pool.example"), mut{"id", 0}, 0
		add(s)
		s = base("m3-mac-over-claimed")
		s.Claimed, s.M3, s.Expect = strp("root@pool.example"), mut{"mac-msg", 0}, 0
		add(s)
	}
	for _, d := range []int{-1, 1} {
		m3(fmt.Sprintf("idlen%+d", d), mut{"idlen", d}, 0)
		m3(fmt.Sprintf("rblen%+d", d), mut{"rblen", d}, 0)
		m3(fmt.Sprintf("maclen%+d", d), mut{"maclen", d}, 0)
	}
	m3("maclen-huge", mut{"maclen", 1 << 30}, 0)
	m3("maclen-neg", mut{"maclen", -21}, 0)
	for i := 0; i < 2048; i += stride(2048, 24) {
		m3(fmt.Sprintf("rb-flip%d", i), mut{"rb-flip", i}, 0)
	}
	for _, k := range []string{"rb-trunc", "rb-empty", "rb-ext", "rb-other", "mac-empty", "mac-ext"} {
		m3(k, mut{k, 0}, 0)
	}
	for i := 0; i < 160; i += stride(160, 160) {
		m3(fmt.Sprintf("mac-flip%d", i), mut{"mac-flip", i}, 0)
	}
	for _, n := range []int{19, 16, 1} {
		m3(fmt.Sprintf("mac-trunc%d", n), mut{"mac-trunc", n}, 0)
	}
	for a := 0; a < 3; a++ {
		m3(fmt.Sprintf("mac-key%d", a), mut{"mac-key", a}, 0)
	}
	for a := 1; a < 5; a++ {
		m3(fmt.Sprintf("mac-msg%d", a), mut{"mac-msg", a}, 0)
	}
	for _, n := range []int{1, 8} {
		m3(fmt.Sprintf("trail%d", n), mut{"trail", n}, 0)
	}
	m3("none", mut{"none", 0}, 0)
	m3("trail-frame", mut{"trail-frame", 0}, 1) // a further frame after the complete message is never read
	m3("no-eom", mut{"no-eom", 0}, 0)
	for _, n := range []int{0, 8, 30, -1, -20, -21, -30} {
		m3(fmt.Sprintf("cut%d", n), mut{"cut", n}, 0)
	}
	for _, n := range []int{1, 9, 100} {
		m3(fmt.Sprintf("split%d", n), mut{"split", n}, 1)
	}
	return out
}

// denseFamily names the bit-flip family a case belongs to ("" if none).
func denseFamily(name string) string {
	for _, f := range []string{"flip-h-", "flip-p-", "flip-s-", "m3-rb-flip", "m3-mac-flip", "m2-ra-flip", "m2-mac-flip", "sig-flip"} {
		if strings.HasPrefix(name, f) {
			return f
		}
	}
	return ""
}

// single deviations in the source of the maximum age: the age is placed on both sides
// of the environment value, of the config value and of the default
var envAgeCases = []struct {
	env string
	cfg int
	age int64
}{
	{"600", 0, 599}, {"600", 0, 600}, {"600", 0, 601}, {"600", 0, 2000}, {"600", 0, 3600}, {"600", 0, 3601},
	{"600s", 0, 2000}, {"600s", 0, 3600}, {"600s", 0, 3601}, {"abc", 0, 3600}, {"abc", 0, 3601},
	{"0", 0, 5000}, {"-5", 0, 5000}, {"600", 300, 300}, {"600", 300, 301}, {"600", 300, 599}, {"600", 300, 2000},
	{"1m30", 0, 90}, {"1m30", 0, 91}, {"1.5", 0, 1}, {"1.5", 0, 2}, {"7200", 0, 3601}, {"7200", 0, 7200}, {"7200", 0, 7201},
	{" 600", 0, 2000}, {"+600", 0, 601}, {"10m", 0, 601},
}

func boolInt(b bool, t, f int) int {
	if b {
		return t
	}
	return f
}

func clientCatalogue(c *core.Ctx, kr *keyring) []cCase {
	var out []cCase
	rb := func(n int) []byte {
		b := make([]byte, n)
		for i := range b {
			b[i] = byte(c.Rng.Intn(256))
		}
		return b
	}
	base := func(name string) cCase {
		n := 16 // the client accepts any server nonce up to 256 bytes; short ones keep the Coq terms small
		if strings.HasPrefix(name, "honest") || (!c.Quick() && denseFamily(name) == "") {
			n = 256
		}
		return cCase{Name: name, Sub: stdSub, Expect: 1, RB: rb(n), SID: "server@pool.example",
			Tok: tokSpec{Hdr: hdrFor("k1"), Pl: stdPl, ExpOff: 600, IatOff: -10, SignKey: kr.k1}}
	}
	dense := map[string]int{}
	add := func(s cCase) {
		if fam := denseFamily(s.Name); fam != "" {
			s.NoModel = dense[fam]%boolInt(c.Quick(), 8, 2) != 0
			dense[fam]++
		}
		out = append(out, s)
	}
	stride := func(n, quick int) int {
		if !c.Quick() {
			return 1
		}
		s := n / quick
		if s < 1 {
			s = 1
		}
		return s
	}
	add(base("honest"))
	{
		s := base("honest-idtokens")
		s.IDTokens = true
		add(s)
		s = base("idtokens-mac-empty")
		s.IDTokens, s.M2, s.Expect = true, mut{"mac-empty", 0}, 0
		add(s)
	}
	m2 := func(name string, m mut, exp int) {
		s := base("m2-" + name)
		s.M2, s.Expect = m, exp
		add(s)
	}
	// the client's stored signature differs from the one the server computes
	for i := 0; i < 256; i += stride(256, 32) {
		s := base(fmt.Sprintf("sig-flip%d", i))
		s.Tok.Mut = mut{"flip-s", i}
		// the scripted server proves knowledge of the CORRUPTED signature: accepted, it is the client's own
		add(s)
	}
	{
		// server knows only the signature under another key
		s := base("server-other-key")
		s.M2, s.Expect = mut{"mac-key", 0}, 0
		add(s)
		s = base("client-no-token")
		s.Tok.Mut, s.Expect = mut{"garbage", 0}, 0
		add(s)
		s = base("client-two-part-token")
		s.Tok.Mut, s.Expect = mut{"parts2", 0}, 0
		add(s)
		s = base("client-no-token-server-error")
		s.Tok.Mut, s.M2, s.Expect = mut{"garbage", 0}, mut{"status-empty", -1}, 0
		add(s)
	}
	for _, st := range []int{-1, 1, 2, 256, -2} {
		m2(fmt.Sprintf("status%d", st), mut{"status", st}, 0)
		m2(fmt.Sprintf("status%d-empty", st), mut{"status-empty", st}, 0)
	}
	m2("status0-empty", mut{"status-empty", 0}, 0)
	for a := 0; a < 3; a++ {
		m2(fmt.Sprintf("cid%d", a), mut{"cid", a}, 0)
	}
	m2("none", mut{"none", 0}, 0)
	m2("sid-any", mut{"sid-any", 0}, 1)
	m2("sid-swap", mut{"sid-swap", 0}, 0)
	for _, d := range []int{-1, 1} {
		for _, k := range []string{"cidlen", "sidlen", "ralen", "rblen", "maclen"} {
			m2(fmt.Sprintf("%s%+d", k, d), mut{k, d}, 0)
		}
	}
	m2("maclen-huge", mut{"maclen", 1 << 30}, 0)
	m2("maclen-neg", mut{"maclen", -21}, 0)
	for i := 0; i < 2048; i += stride(2048, 24) {
		m2(fmt.Sprintf("ra-flip%d", i), mut{"ra-flip", i}, 0)
	}
	for _, k := range []string{"ra-trunc", "ra-empty", "ra-ext", "mac-empty", "mac-ext"} {
		m2(k, mut{k, 0}, 0)
	}
	for _, n := range []int{0, 1, 255} {
		m2(fmt.Sprintf("rb-size%d", n), mut{"rb-size", n}, 1)
	}
	m2("rb-size257", mut{"rb-size", 257}, 0)
	for i := 0; i < 160; i += stride(160, 160) {
		m2(fmt.Sprintf("mac-flip%d", i), mut{"mac-flip", i}, 0)
	}
	for _, n := range []int{19, 16, 1} {
		m2(fmt.Sprintf("mac-trunc%d", n), mut{"mac-trunc", n}, 0)
	}
	for a := 0; a < 3; a++ {
		m2(fmt.Sprintf("mac-key%d", a), mut{"mac-key", a}, 0)
	}
	for a := 0; a < 4; a++ {
		m2(fmt.Sprintf("mac-msg%d", a), mut{"mac-msg", a}, 0)
	}
	// receiveTokenStep2 has no end-of-message probe: trailing bytes do not affect what was proved
	for _, n := range []int{1, 8} {
		m2(fmt.Sprintf("trail%d", n), mut{"trail", n}, 1)
	}
	m2("trail-frame", mut{"trail-frame", 0}, 1)
	for _, n := range []int{0, 8, 40, 100, -1, -20, -21, -40} {
		m2(fmt.Sprintf("cut%d", n), mut{"cut", n}, 0)
	}
	for _, n := range []int{1, 9, 100} {
		m2(fmt.Sprintf("split%d", n), mut{"split", n}, 1)
	}
	return out
}

type replayDoc struct {
	Role string          `json:"role"`
	Evil []byte          `json:"evil"`
	S    *sCase          `json:"s,omitempty"`
	C    *cCase          `json:"c,omitempty"`
	F    json.RawMessage `json:"f,omitempty"`
	Why  []string        `json:"why,omitempty"`
}

func gen(c *core.Ctx) error {
	devnull, _ := os.OpenFile(os.DevNull, os.O_WRONLY, 0)
	os.Stdout = devnull // cedar prints diagnostics with fmt.Printf
	os.Unsetenv("SEC_TOKEN_MAX_AGE")
	os.Unsetenv("SEC_TOKEN_POOL_SIGNING_KEY_FILE")
	os.Unsetenv("SEC_PASSWORD_DIRECTORY")
	c.Rule("one deviation per run from a valid three-message TOKEN exchange (server role and client role over net.Pipe), " +
		"plus direct calls of VerifyIDToken / validateTokenAndDeriveKeys / loadSingleToken / validateTokenTiming / loadSigningKey " +
		"and of the modelled library pieces (base64url, TrimSpace); non-trivial = distinct (role, deviation, outcome, message-2/3 shape)")
	c.Assume("environment variables SEC_TOKEN_POOL_SIGNING_KEY_FILE, SEC_PASSWORD_DIRECTORY are unset; SEC_TOKEN_MAX_AGE is set per case by the harness")
	c.Assume("encoding/json and the JSON number -> float64 -> int64 conversion (amd64) are parameters of the model, supplied per case")
	c.Assume("HKDF-SHA256 / HMAC-SHA256 / HMAC-SHA1 behave as the ideal functions of Lib/SymC11.v; their use (inputs, salts, order) is checked against an independent reference")
	kr := newKeyring(c)
	// Freshness oracle: the nonce the real code draws for an OK message (RB in the
	// server role, RA in the client role) is AUTH_PW_KEY_LEN random bytes, never
	// seen before in this run in either role (so a recorded exchange cannot be
	// replayed), not constant, and not the peer's nonce echoed back.
	seenNonce := map[string]string{}
	fresh := func(role, name string, nonce, peerNonce []byte) []string {
		if len(nonce) == 0 {
			return nil
		}
		c.OracleCheck()
		c.Count("oracle:nonce-freshness")
		var out []string
		if len(nonce) != security.AUTH_PW_KEY_LEN {
			out = append(out, fmt.Sprintf("nonce-length %d", len(nonce)))
		}
		distinct := map[byte]bool{}
		for _, b := range nonce {
			distinct[b] = true
		}
		if len(distinct) < 16 {
			out = append(out, "nonce-not-random (fewer than 16 distinct byte values)")
		}
		if string(nonce) == string(peerNonce) {
			out = append(out, "nonce-equals-peer-nonce")
		}
		if prev, dup := seenNonce[string(nonce)]; dup {
			out = append(out, "nonce-not-fresh (same as in "+prev+")")
		}
		seenNonce[string(nonce)] = role + "/" + name
		return out
	}
	scat := serverCatalogue(c, kr)
	for i := 0; i < len(scat); i++ {
		sc := scat[i]
		r := runS(&sc, kr.evil)
		if sc.Name == "honest" && r.obs.Accept {
			// replay the recorded exchange (both client messages, or message 3 only)
			// against a new server run: its nonce is new, so it must be refused
			a := sc
			a.Name, a.ReplayPre, a.ReplayPost, a.Expect = "replay-recorded-exchange", r.pre, r.obs.Post, 0
			b := sc
			b.Name, b.ReplayPost, b.Expect = "replay-recorded-m3", r.obs.Post, 0
			scat = append(scat, a, b)
		}
		r.fails = append(r.fails, fresh("server", sc.Name, r.rb, parse1(r.pre).RA)...)
		doc := replayDoc{Role: "server", Evil: kr.evil, S: &sc}
		if sc.NoModel {
			c.Evaluated(1)
			c.Count("server:oracle-only")
		} else {
			term := r.term()
			c.AddCaseW(term, doc, 1+len(term)/600)
		}
		c.OracleCheck()
		c.Count("server:" + strings.SplitN(sc.Name, "-", 2)[0])
		c.Count(fmt.Sprintf("server:accept=%v", r.obs.Accept))
		if len(r.obs.Sent) == 0 {
			c.Count("server:aborted-before-msg2")
		} else if parse2(r.obs.Sent).Status != 0 {
			c.Count("server:msg2-error-status")
		}
		c.Nontrivial(fmt.Sprintf("s|%s|%v|%d", sc.Name, r.obs.Accept, len(r.obs.Sent)))
		if sc.Name == "honest" || sc.Name == "m3-mac-flip0" || sc.Name == "id-claimed-other" {
			c.Sample(map[string]interface{}{"role": "server", "case": sc.Name, "m1": sc.M1, "m3": sc.M3, "tokmut": sc.Tok.Mut,
				"accept": r.obs.Accept, "user": r.obs.User, "expected": sc.Expect})
		}
		for _, f := range r.fails {
			doc.Why = r.fails
			c.OracleFail("server:"+f, fmt.Sprintf("server role, case %s: %s (accept=%v user=%q)", sc.Name, f, r.obs.Accept, r.obs.User), doc)
		}
	}
	ccat := clientCatalogue(c, kr)
	for i := 0; i < len(ccat); i++ {
		cc := ccat[i]
		r := runC(&cc, kr.evil)
		if cc.Name == "honest" && r.obs.Accept {
			// the same client (same token) is shown the recorded message 2 again
			a := cc
			a.Name, a.ReplayM2, a.Expect = "replay-recorded-m2", r.obs.Script, 0
			a.Tok.Fixed = r.now
			ccat = append(ccat, a)
		}
		r.fails = append(r.fails, fresh("client", cc.Name, r.ra, parse2(r.obs.Script).RB)...)
		doc := replayDoc{Role: "client", Evil: kr.evil, C: &cc}
		if cc.NoModel {
			c.Evaluated(1)
			c.Count("client:oracle-only")
		} else {
			term := r.term()
			c.AddCaseW(term, doc, 1+len(term)/600)
		}
		c.OracleCheck()
		c.Count("client:" + strings.SplitN(cc.Name, "-", 2)[0])
		c.Count(fmt.Sprintf("client:accept=%v", r.obs.Accept))
		c.Nontrivial(fmt.Sprintf("c|%s|%v|%d", cc.Name, r.obs.Accept, len(r.obs.Sent)))
		if cc.Name == "honest" || cc.Name == "m2-mac-flip0" {
			c.Sample(map[string]interface{}{"role": "client", "case": cc.Name, "m2": cc.M2, "accept": r.obs.Accept, "expected": cc.Expect})
		}
		for _, f := range r.fails {
			doc.Why = r.fails
			c.OracleFail("client:"+f, fmt.Sprintf("client role, case %s: %s (accept=%v)", cc.Name, f, r.obs.Accept), doc)
		}
	}
	if err := genFuncs(c, kr); err != nil {
		return err
	}
	c.Exhaustive(false)
	return nil
}

func replay(raw json.RawMessage) error {
	devnull, _ := os.OpenFile(os.DevNull, os.O_WRONLY, 0)
	saved := os.Stdout
	os.Stdout = devnull
	defer func() { os.Stdout = saved }()
	var d replayDoc
	if err := json.Unmarshal(raw, &d); err != nil {
		return nil
	}
	switch d.Role {
	case "server":
		r := runS(d.S, d.Evil)
		if len(r.fails) > 0 {
			return fmt.Errorf("server role %s: %v", d.S.Name, r.fails)
		}
	case "client":
		r := runC(d.C, d.Evil)
		if len(r.fails) > 0 {
			return fmt.Errorf("client role %s: %v", d.C.Name, r.fails)
		}
	case "func":
		return replayFunc(d.F)
	}
	return nil
}

// facts regenerates coq/gen/FactsC11.v from the compiled package and the source.
func facts(w *strings.Builder) error {
	repo := os.Getenv("VERIF_REPO")
	if repo == "" {
		repo = "/repo"
	}
	fset := token.NewFileSet()
	f, err := parser.ParseFile(fset, filepath.Join(repo, "security", "token_auth.go"), nil, 0)
	if err != nil {
		return err
	}
	def := int64(math.MinInt64)
	for _, d := range f.Decls {
		fd, ok := d.(*ast.FuncDecl)
		if !ok || fd.Name.Name != "validateTokenTiming" || fd.Body == nil {
			continue
		}
		ast.Inspect(fd.Body, func(n ast.Node) bool {
			as, ok := n.(*ast.AssignStmt)
			if !ok || len(as.Lhs) != 1 || len(as.Rhs) != 1 || as.Tok != token.DEFINE {
				return true
			}
			id, ok := as.Lhs[0].(*ast.Ident)
			if !ok || id.Name != "maxAge" {
				return true
			}
			if call, ok := as.Rhs[0].(*ast.CallExpr); ok && len(call.Args) == 1 {
				if bl, ok := call.Args[0].(*ast.BasicLit); ok && bl.Kind == token.INT {
					fmt.Sscan(bl.Value, &def)
				}
			}
			return true
		})
	}
	if def == math.MinInt64 {
		return fmt.Errorf("pattern `maxAge := int64(<literal>)` not found in validateTokenTiming")
	}
	z := func(v int64) string {
		if v < 0 {
			return fmt.Sprintf("(%d)", v)
		}
		return fmt.Sprint(v)
	}
	w.WriteString("(* GENERATED by harness/cmd/vh-c11 (facts) from /repo's current source. Do not edit. *)\n")
	w.WriteString("From Coq Require Import ZArith.\nLocal Open Scope Z_scope.\n")
	fmt.Fprintf(w, "Definition AuthPwAOk : Z := %s.\n", z(security.AUTH_PW_A_OK))
	fmt.Fprintf(w, "Definition AuthPwError : Z := %s.\n", z(security.AUTH_PW_ERROR))
	fmt.Fprintf(w, "Definition AuthPwAbort : Z := %s.\n", z(security.AUTH_PW_ABORT))
	fmt.Fprintf(w, "Definition AuthPwKeyLen : Z := %s.\n", z(security.AUTH_PW_KEY_LEN))
	fmt.Fprintf(w, "Definition AuthPwMaxNameLen : Z := %s.\n", z(security.AUTH_PW_MAX_NAME_LEN))
	fmt.Fprintf(w, "Definition AuthPwMaxTokenLen : Z := %s.\n", z(security.AUTH_PW_MAX_TOKEN_LEN))
	fmt.Fprintf(w, "Definition DefaultTokenMaxAge : Z := %s.\n", z(def))
	return nil
}

func main() {
	_ = time.Now
	core.MainWithFacts("C11", gen, replay, facts)
}
