// Wire helpers and the scripted peers that drive the real TOKEN handshake.
package main

import (
	"context"
	"encoding/binary"
	"fmt"
	"net"
	"path/filepath"
	"time"

	"github.com/bbockelm/cedar/security"
	"github.com/bbockelm/cedar/stream"
)

type frame struct {
	D   []byte `json:"d"`
	EOM bool   `json:"eom"`
}

// field of a message: 'i' 64-bit big-endian integer, 's' NUL-terminated string, 'b' raw bytes
type field struct {
	K byte
	I int64
	B []byte
}

func fi(v int64) field  { return field{K: 'i', I: v} }
func fs(b []byte) field { return field{K: 's', B: b} }
func fb(b []byte) field { return field{K: 'b', B: b} }

func encode(fields []field) []byte {
	var out []byte
	for _, f := range fields {
		switch f.K {
		case 'i':
			var t [8]byte
			binary.BigEndian.PutUint64(t[:], uint64(f.I))
			out = append(out, t[:]...)
		case 's':
			out = append(out, f.B...)
			out = append(out, 0)
		default:
			out = append(out, f.B...)
		}
	}
	return out
}

// cut a message body into frames at the given offsets; the last frame carries EOM
func framesOf(body []byte, cuts []int) []frame {
	var fr []frame
	prev := 0
	for _, c := range cuts {
		if c <= prev || c >= len(body) {
			continue
		}
		fr = append(fr, frame{append([]byte{}, body[prev:c]...), false})
		prev = c
	}
	fr = append(fr, frame{append([]byte{}, body[prev:]...), true})
	return fr
}

// parser over the concatenated payloads of a received message
type rd struct {
	b   []byte
	bad bool
}

func (r *rd) int() int64 {
	if len(r.b) < 8 {
		r.bad = true
		r.b = nil
		return 0
	}
	v := int64(binary.BigEndian.Uint64(r.b[:8]))
	r.b = r.b[8:]
	return v
}
func (r *rd) str() []byte {
	for i, c := range r.b {
		if c == 0 {
			s := r.b[:i]
			r.b = r.b[i+1:]
			return s
		}
	}
	r.bad = true
	s := r.b
	r.b = nil
	return s
}
func (r *rd) raw(n int64) []byte {
	if n <= 0 {
		return []byte{}
	}
	if int64(len(r.b)) < n {
		r.bad = true
		r.b = nil
		return nil
	}
	s := r.b[:n]
	r.b = r.b[n:]
	return s
}

// body: payload of the first message (frames up to and including the first EOM)
func body(fr []frame) []byte {
	var b []byte
	for _, f := range fr {
		b = append(b, f.D...)
		if f.EOM {
			break
		}
	}
	return b
}

type msg1 struct {
	Status  int64
	ID, Tok []byte
	RA      []byte
	OK      bool
}
type msg2 struct {
	Status           int64
	CID, SID, RA, RB []byte
	MAC              []byte
	OK               bool
}
type msg3 struct {
	Status      int64
	ID, RB, MAC []byte
	OK          bool
}

func complete(fr []frame) bool {
	for _, f := range fr {
		if f.EOM {
			return true
		}
	}
	return false
}

func parse1(fr []frame) msg1 {
	r := &rd{b: body(fr)}
	var m msg1
	m.Status = r.int()
	r.int()
	m.ID = r.str()
	m.Tok = r.str()
	m.RA = r.raw(r.int())
	m.OK = complete(fr) && !r.bad && len(r.b) == 0
	return m
}
func parse2(fr []frame) msg2 {
	r := &rd{b: body(fr)}
	var m msg2
	m.Status = r.int()
	r.int()
	m.CID = r.str()
	r.int()
	m.SID = r.str()
	m.RA = r.raw(r.int())
	m.RB = r.raw(r.int())
	m.MAC = r.raw(r.int())
	m.OK = complete(fr) && !r.bad && len(r.b) == 0
	return m
}
func parse3(fr []frame) msg3 {
	r := &rd{b: body(fr)}
	var m msg3
	m.Status = r.int()
	r.int()
	m.ID = r.str()
	m.RB = r.raw(r.int())
	m.MAC = r.raw(r.int())
	m.OK = complete(fr) && !r.bad && len(r.b) == 0
	return m
}

// in-memory credential store
type memCreds map[string][]byte

func (m memCreds) ReadCredential(path string) ([]byte, error) {
	// resolve like a filesystem would, so that a key id such as "../keys/k1" reaches a
	// real key if the implementation ever lets it through
	if b, ok := m[filepath.Clean(path)]; ok {
		return append([]byte{}, b...), nil
	}
	return nil, fmt.Errorf("no such credential %s", path)
}

func (w *world) serverCfg() *security.SecurityConfig {
	mc := memCreds{}
	cfg := &security.SecurityConfig{Credentials: mc, TokenMaxAge: w.MaxAge, TrustDomain: w.Trust,
		TokenSigningKeyDir: "/keys"}
	if w.Pool != nil {
		cfg.TokenPoolSigningKeyFile = "/pool/POOL"
		mc["/pool/POOL"] = w.Pool
	} else {
		cfg.TokenPoolSigningKeyFile = "/pool/missing"
	}
	if w.EnvPaths {
		// the locations are left to the environment (see setEnv)
		cfg.TokenSigningKeyDir, cfg.TokenPoolSigningKeyFile = "", ""
	}
	for k, v := range w.Named {
		mc["/keys/"+k] = v
	}
	return cfg
}

const runTimeout = 5 * time.Second

// readMsg reads frames up to and including an EOM frame (or until the connection fails).
func readMsg(ctx context.Context, s *stream.Stream) []frame {
	var fr []frame
	for {
		d, eom, err := s.ReadFrame(ctx)
		if err != nil {
			return fr
		}
		fr = append(fr, frame{append([]byte{}, d...), eom})
		if eom {
			return fr
		}
	}
}
func writeFrames(ctx context.Context, s *stream.Stream, fr []frame) bool {
	for _, f := range fr {
		if err := s.WriteFrame(ctx, f.D, f.EOM); err != nil {
			return false
		}
	}
	return true
}

type srvObs struct {
	Accept bool
	Panic  string
	User   string
	Skey   []byte
	Sent   []frame // message 2 as received by the peer (nil: nothing was sent)
	Post   []frame // the frames the script produced after message 2
	T0, T1 int64
}

// runServer drives the real server role: the scripted peer writes [pre], reads
// the server's message 2 (if any), writes post(m2) and closes.
func runServer(w *world, pre []frame, post func(sent []frame) []frame) srvObs {
	var o srvObs
	sc, cc := net.Pipe()
	dl := time.Now().Add(runTimeout)
	_ = sc.SetDeadline(dl)
	_ = cc.SetDeadline(dl)
	ctx, cancel := context.WithDeadline(context.Background(), dl)
	defer cancel()
	cfg := w.serverCfg()
	neg := &security.SecurityNegotiation{IsClient: false, ServerConfig: cfg}
	auth := security.NewAuthenticator(cfg, stream.NewStream(sc))
	done := make(chan error, 1)
	defer w.setEnv()()
	o.T0 = time.Now().Unix()
	go func() {
		defer func() {
			if r := recover(); r != nil {
				o.Panic = fmt.Sprint(r)
				_ = sc.Close()
				done <- fmt.Errorf("panic")
			}
		}()
		err := security.VerifC11TokenAuth(ctx, auth, security.AuthToken, neg)
		_ = sc.Close()
		done <- err
	}()
	m2ch := make(chan []frame, 1)
	go func() { m2ch <- readMsg(ctx, stream.NewStream(cc)) }()
	ws := stream.NewStream(cc)
	writeFrames(ctx, ws, pre)
	sent := <-m2ch
	o.Sent = sent
	o.Post = post(sent)
	writeFrames(ctx, ws, o.Post)
	_ = cc.Close()
	err := <-done
	o.T1 = time.Now().Unix()
	o.Accept = err == nil
	if o.Accept {
		o.User = neg.User
		o.Skey = neg.GetSharedSecret()
	}
	return o
}

type cliObs struct {
	Accept bool
	Panic  string
	Skey   []byte
	Sent   [][]frame // message 1 and (if sent) message 3
	Script []frame   // the frames the scripted server produced
}

// runClient drives the real client role with a directly configured token.
func runClient(token string, method security.AuthMethod, mk func(m1 []frame) []frame) cliObs {
	var o cliObs
	sc, cc := net.Pipe()
	dl := time.Now().Add(runTimeout)
	_ = sc.SetDeadline(dl)
	_ = cc.SetDeadline(dl)
	ctx, cancel := context.WithDeadline(context.Background(), dl)
	defer cancel()
	cfg := &security.SecurityConfig{Token: token}
	neg := &security.SecurityNegotiation{IsClient: true, ClientConfig: cfg}
	auth := security.NewAuthenticator(cfg, stream.NewStream(cc))
	done := make(chan error, 1)
	go func() {
		defer func() {
			if r := recover(); r != nil {
				o.Panic = fmt.Sprint(r)
				_ = cc.Close()
				done <- fmt.Errorf("panic")
			}
		}()
		err := security.VerifC11TokenAuth(ctx, auth, method, neg)
		_ = cc.Close()
		done <- err
	}()
	rs := stream.NewStream(sc)
	ws := stream.NewStream(sc)
	m1 := readMsg(ctx, rs)
	if len(m1) > 0 {
		o.Sent = append(o.Sent, m1)
	}
	o.Script = mk(m1)
	wdone := make(chan bool, 1)
	go func() {
		writeFrames(ctx, ws, o.Script)
		wdone <- true
	}()
	// message 3 (the client may write it while we are still writing trailing frames)
	m3 := readMsg(ctx, rs)
	if len(m3) > 0 {
		o.Sent = append(o.Sent, m3)
	}
	err := <-done
	_ = sc.Close()
	<-wdone
	o.Accept = err == nil
	if o.Accept {
		o.Skey = neg.GetSharedSecret()
	}
	return o
}
