// Server-role cases: the harness plays a scripted client against the real
// performTokenAuthenticationServer.
package main

import (
	"bytes"
	"fmt"
	"strings"
	"time"

	"verifharness/core"
)

type mut struct {
	Kind string `json:"k,omitempty"`
	Arg  int    `json:"a,omitempty"`
}

type tokSpec struct {
	Hdr     string `json:"hdr"`
	Pl      string `json:"pl"` // %EXP% / %IAT% are replaced by now+ExpOff / now+IatOff
	ExpOff  int64  `json:"expoff"`
	IatOff  int64  `json:"iatoff"`
	SignKey []byte `json:"signkey"`         // key material fed to the signature (as the issuer holds it)
	Mut     mut    `json:"mut"`             // alteration of the token text sent / of the client's signature
	Adapt   bool   `json:"adapt"`           // the client derives K from the altered token text
	Fixed   int64  `json:"fixed,omitempty"` // mint relative to this instant instead of the current second (replays)
}

func (t tokSpec) mint(now int64) (hp string, sig []byte) {
	if t.Fixed != 0 {
		now = t.Fixed
	}
	pl := strings.ReplaceAll(t.Pl, "%EXP%", fmt.Sprint(now+t.ExpOff))
	pl = strings.ReplaceAll(pl, "%IAT%", fmt.Sprint(now+t.IatOff))
	hp = b64e([]byte(t.Hdr)) + "." + b64e([]byte(pl))
	return hp, refSign(t.SignKey, []byte(hp))
}

func flipBit(b []byte, bit int) []byte {
	o := append([]byte{}, b...)
	if len(o) == 0 {
		return o
	}
	bit %= len(o) * 8
	o[bit/8] ^= 1 << uint(bit%8)
	return o
}

// applied: the token text that travels and the signature / token the client keys from
func (t tokSpec) applied(now int64) (sent []byte, cliTok []byte, cliSig []byte) {
	hp, sig := t.mint(now)
	parts := strings.Split(hp, ".")
	sent, cliTok, cliSig = []byte(hp), []byte(hp), sig
	switch t.Mut.Kind {
	case "flip-h":
		sent = []byte(string(flipBit([]byte(parts[0]), t.Mut.Arg)) + "." + parts[1])
	case "flip-p":
		sent = []byte(parts[0] + "." + string(flipBit([]byte(parts[1]), t.Mut.Arg)))
	case "flip-s":
		cliSig = flipBit(sig, t.Mut.Arg)
	case "parts1":
		sent = []byte(parts[0])
	case "parts3":
		sent = []byte(hp + "." + b64e(sig))
	case "empty":
		sent = []byte{}
	case "nl":
		sent = []byte(parts[0] + "\n." + parts[1])
	}
	if t.Adapt {
		cliTok = sent
	}
	return
}

type sCase struct {
	Name    string  `json:"name"`
	W       world   `json:"world"`
	Tok     tokSpec `json:"tok"`
	Sub     string  `json:"sub"`     // identity an honest holder of this token has
	Claimed *string `json:"claimed"` // nil: claim the subject
	M1      mut     `json:"m1"`
	M3      mut     `json:"m3"`
	Expect  int     `json:"expect"` // 1 must accept, 0 must reject, -1 no expectation
	NoModel bool    `json:"nomodel,omitempty"`
	// replay of a recorded exchange: these frames are sent instead of freshly built ones
	ReplayPre  []frame `json:"replay_pre,omitempty"`
	ReplayPost []frame `json:"replay_post,omitempty"`
	RA         []byte  `json:"ra"`
}

func rep(c byte, n int) []byte { return bytes.Repeat([]byte{c}, n) }

func buildM1(claimed, tok, ra []byte, m mut) (fr []frame, raSeen []byte) {
	status := int64(0)
	idlen, ralen := int64(len(claimed)), int64(len(ra))
	var trail []byte
	switch m.Kind {
	case "status":
		status = int64(m.Arg)
	case "status-empty":
		status, claimed, idlen, tok, ra, ralen = int64(m.Arg), nil, 0, nil, nil, 0
	case "idlen":
		idlen += int64(m.Arg)
	case "id-big":
		claimed = rep('a', m.Arg)
		idlen = int64(m.Arg)
	case "ralen":
		ralen += int64(m.Arg)
	case "ra-size":
		if m.Arg <= len(ra) {
			ra = ra[:m.Arg]
		} else {
			ra = append(append([]byte{}, ra...), rep(0x5a, m.Arg-len(ra))...)
		}
		ralen = int64(len(ra))
	case "trail":
		trail = rep(0x41, m.Arg)
	}
	b := append(encode([]field{fi(status), fi(idlen), fs(claimed), fs(tok), fi(ralen), fb(ra)}), trail...)
	var cuts []int
	switch m.Kind {
	case "cut": // keep the first Arg bytes (Arg < 0: drop -Arg bytes from the end)
		if m.Arg < 0 && -m.Arg <= len(b) {
			b = b[:len(b)+m.Arg]
		} else if m.Arg >= 0 && m.Arg < len(b) {
			b = b[:m.Arg]
		}
	case "split":
		cuts = []int{m.Arg, 2 * m.Arg, 3*m.Arg + 1}
	}
	fr = framesOf(b, cuts)
	switch m.Kind {
	case "trail-frame":
		fr = append(fr, frame{[]byte{1, 2, 3}, true})
	case "no-eom":
		fr[len(fr)-1].EOM = false
		fr = append(fr, frame{[]byte{0x5a}, true})
	}
	return fr, ra
}

type m3in struct {
	cid, claimed, rb, ra, sid []byte
	K, Kevil, sig             []byte
	srvMAC                    []byte
}

func buildM3(in m3in, m mut) []frame {
	status := int64(0)
	id, rb := in.cid, in.rb
	mac := refMac(in.K, macC(in.cid, in.rb))
	idlen := int64(len(id))
	var rblen, maclen int64
	var trail []byte
	dlen, dmac := int64(0), int64(0)
	empty := false
	switch m.Kind {
	case "status":
		status = int64(m.Arg)
	case "status-empty":
		status, empty = int64(m.Arg), true
	case "id":
		switch m.Arg {
		case 0:
			id = in.claimed
		case 1:
			id = append(append([]byte{}, in.cid...), 'x')
		default:
			id = []byte{}
		}
		idlen = int64(len(id))
	case "idlen":
		idlen += int64(m.Arg)
	case "rb-flip":
		rb = flipBit(rb, m.Arg)
	case "rb-trunc":
		if len(rb) > 0 {
			rb = rb[:len(rb)-1]
		}
	case "rb-empty":
		rb = []byte{}
	case "rb-ext":
		rb = append(append([]byte{}, rb...), 0)
	case "rb-other":
		rb = rep(0x77, len(rb))
	case "rblen":
		dlen = int64(m.Arg)
	case "mac-flip":
		mac = flipBit(mac, m.Arg)
	case "mac-trunc":
		if m.Arg < len(mac) {
			mac = mac[:m.Arg]
		}
	case "mac-empty":
		mac = []byte{}
	case "mac-ext":
		mac = append(append([]byte{}, mac...), 0)
	case "mac-key":
		switch m.Arg {
		case 0:
			mac = refMac(in.Kevil, macC(in.cid, in.rb))
		case 1:
			mac = refMac(in.sig, macC(in.cid, in.rb))
		default:
			mac = refMac([]byte{}, macC(in.cid, in.rb))
		}
	case "mac-msg":
		switch m.Arg {
		case 0:
			mac = refMac(in.K, macC(in.claimed, in.rb))
		case 1:
			mac = refMac(in.K, macC(in.cid, in.ra))
		case 2:
			mac = in.srvMAC
		case 3:
			mac = refMac(in.K, macT(in.cid, in.sid, in.ra, in.rb))
		default:
			mac = refMac(in.K, append(append([]byte{}, in.cid...), in.rb...))
		}
	case "maclen":
		dmac = int64(m.Arg)
	case "trail":
		trail = rep(0x42, m.Arg)
	}
	rblen, maclen = int64(len(rb))+dlen, int64(len(mac))+dmac
	if m.Kind == "none" { // the peer goes away instead of answering
		return nil
	}
	var b []byte
	if empty {
		b = encode([]field{fi(status), fi(0), fs(nil), fi(0), fi(0)})
	} else {
		b = encode([]field{fi(status), fi(idlen), fs(id), fi(rblen), fb(rb), fi(maclen), fb(mac)})
	}
	b = append(b, trail...)
	var cuts []int
	switch m.Kind {
	case "cut": // keep the first Arg bytes (Arg < 0: drop -Arg bytes from the end)
		if m.Arg < 0 && -m.Arg <= len(b) {
			b = b[:len(b)+m.Arg]
		} else if m.Arg >= 0 && m.Arg < len(b) {
			b = b[:m.Arg]
		}
	case "split":
		cuts = []int{m.Arg, 2 * m.Arg, 3*m.Arg + 1}
	}
	fr := framesOf(b, cuts)
	if m.Kind == "trail-frame" {
		fr = append(fr, frame{[]byte{9}, true})
	}
	if m.Kind == "no-eom" {
		fr[len(fr)-1].EOM = false
		fr = append(fr, frame{[]byte{0x5a}, true})
	}
	return fr
}

func userOf(sub string) string { return strings.Split(sub, "@")[0] }

type sRun struct {
	now    int64
	obs    srvObs
	pre    []frame
	sent   []byte // token text as sent
	tb     *tables
	rb     []byte
	fails  []string
	cliSig []byte
}

// runS executes one server-role case (retrying if the wall-clock second changed) and
// evaluates the direct property oracle.
func runS(sc *sCase, evilKey []byte) sRun {
	var r sRun
	for attempt := 0; attempt < 8; attempt++ {
		r = sRun{}
		now := time.Now().Unix()
		r.now = now
		sent, cliTok, cliSig := sc.Tok.applied(now)
		r.sent, r.cliSig = sent, cliSig
		claimed := []byte(sc.Sub)
		if sc.Claimed != nil {
			claimed = []byte(*sc.Claimed)
		}
		K := refKdf(cliSig, cliTok)
		Kevil := refKdf(refSign(evilKey, cliTok), cliTok)
		pre, raSeen := buildM1(claimed, sent, sc.RA, sc.M1)
		if sc.ReplayPre != nil {
			pre = sc.ReplayPre
		}
		r.pre = pre
		post := func(s []frame) []frame {
			if sc.ReplayPost != nil {
				return sc.ReplayPost
			}
			m2 := parse2(s)
			return buildM3(m3in{cid: []byte(sc.Sub), claimed: claimed, rb: m2.RB, ra: raSeen, sid: m2.SID,
				K: K, Kevil: Kevil, sig: cliSig, srvMAC: m2.MAC}, sc.M3)
		}
		r.obs = runServer(&sc.W, pre, post)
		if r.obs.T0 == now && r.obs.T1 == now {
			break
		}
	}
	now := r.now
	o := r.obs
	m1 := parse1(r.pre)
	m2 := parse2(o.Sent)
	m3 := parse3(o.Post)
	r.rb = []byte{}
	if m2.OK && m2.Status == 0 {
		r.rb = m2.RB
	}
	// tables from the server's point of view
	tb := newTables(&sc.W)
	r.tb = tb
	tb.addTokenJSON(m1.Tok)
	tb.v.add(m1.Tok)
	tb.v.add(m1.RA)
	tb.v.add(m1.ID)
	tb.needKid(kidOfToken(m1.Tok))
	rv := refValidate(&sc.W, now, m1.Tok)
	if rv.HasKey {
		tb.addSign(rv.Key, m1.Tok)
		tb.addKdf(rv.Sig, m1.Tok)
		ids := [][]byte{m1.ID, []byte(rv.Sub), m2.CID}
		for _, id := range ids {
			tb.addMac(rv.K, macT(id, []byte(sc.W.serverID()), m1.RA, r.rb))
			tb.addMac(rv.K, macC(id, r.rb))
		}
	}
	tb.addSkey(r.rb)
	// ---- direct property oracle -------------------------------------
	fail := func(s string) { r.fails = append(r.fails, s) }
	if o.Panic != "" {
		fail("panic")
	}
	if o.Accept {
		if sc.Expect == 0 {
			fail("accept-invalid")
		}
		switch {
		case !rv.Known:
		case !rv.OK:
			fail("accept:token-not-valid-under-held-key")
		default:
			if !(m1.OK && m1.Status == 0) {
				fail("accept:msg1-malformed-or-status")
			}
			if !(m3.OK && m3.Status == 0) {
				fail("accept:msg3-malformed-or-status")
			}
			if !bytes.Equal(m3.MAC, refMac(rv.K, macC([]byte(rv.Sub), r.rb))) {
				fail("accept:client-mac-not-under-token-signature")
			}
			if !bytes.Equal(m3.RB, r.rb) || len(r.rb) == 0 {
				fail("accept:rb-echo")
			}
			if !bytes.Equal(m3.ID, []byte(rv.Sub)) {
				fail("accept:msg3-id-not-subject")
			}
			if o.User != userOf(rv.Sub) {
				fail("accept:identity-not-token-subject")
			}
			if !bytes.Equal(o.Skey, refSkey(r.rb)) {
				fail("accept:session-key")
			}
		}
	} else if sc.Expect == 1 {
		fail("reject-valid")
	}
	if m2.OK && m2.Status == 0 {
		// the server's own proof must be the MAC an honest client expects
		if !rv.OK || !bytes.Equal(m2.MAC, refMac(rv.K, macT([]byte(rv.Sub), []byte(sc.W.serverID()), m1.RA, m2.RB))) ||
			!bytes.Equal(m2.RA, m1.RA) || !bytes.Equal(m2.CID, []byte(rv.Sub)) || len(m2.RB) != 256 {
			if rv.Known {
				fail("server-proof-wrong")
			}
		}
	}
	return r
}

func (r *sRun) term() string {
	o := r.obs
	all := append(append([]frame{}, r.pre...), o.Post...)
	sent := "None"
	if len(o.Sent) > 0 {
		sent = "(Some " + r.tb.framesTerm(o.Sent) + ")"
	}
	t := r.tb
	return t.v.wrap("CServer " + strings.Join([]string{t.term(), core.Z(r.now), t.hex(r.rb), t.framesTerm(all),
		core.Bool(o.Accept), t.hex([]byte(o.User)), t.hex(o.Skey), sent}, " "))
}

// kidOfToken: the key id a token's header names ("" if it cannot be read)
func kidOfToken(tok []byte) string {
	parts := strings.Split(string(tok), ".")
	hb, ok := b64d(parts[0])
	if !ok {
		return ""
	}
	h, ok := jsonView(hb)
	if !ok || h.Kid.Kind != 's' {
		return ""
	}
	return h.Kid.S
}
