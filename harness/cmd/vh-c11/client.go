// Client-role cases: the harness plays a scripted server against the real
// performTokenAuthenticationClient.
package main

import (
	"bytes"
	"strings"
	"time"

	"verifharness/core"

	"github.com/bbockelm/cedar/security"
)

type cCase struct {
	Name     string  `json:"name"`
	Tok      tokSpec `json:"tok"` // the client's token (Mut flip-s: its stored signature is corrupted)
	Sub      string  `json:"sub"`
	M2       mut     `json:"m2"`
	Expect   int     `json:"expect"`
	NoModel  bool    `json:"nomodel,omitempty"`
	ReplayM2 []frame `json:"replay_m2,omitempty"` // a recorded message 2 is sent instead of a fresh one
	IDTokens bool    `json:"idtokens,omitempty"`  // negotiate the method as IDTOKENS instead of TOKEN
	RB       []byte  `json:"rb"`
	SID      string  `json:"sid"`
}

type m2in struct {
	cid, sid, ra, rb []byte
	K, Kevil, sig    []byte
}

func buildM2(in m2in, m mut) []frame {
	status := int64(0)
	cid, sid, ra, rb := in.cid, in.sid, in.ra, in.rb
	macSid := sid
	mac := []byte(nil)
	var dcid, dsid, dra, drb, dmac int64
	var trail []byte
	empty := false
	switch m.Kind {
	case "status":
		status = int64(m.Arg)
	case "status-empty":
		status, empty = int64(m.Arg), true
	case "cid":
		switch m.Arg {
		case 0:
			cid = append(append([]byte{}, cid...), 'x')
		case 1:
			cid = []byte("root@pool.example")
		default:
			cid = []byte{}
		}
	case "cidlen":
		dcid = int64(m.Arg)
	case "sid-any":
		sid = []byte("whoever@elsewhere")
		macSid = sid
	case "sid-swap":
		sid = []byte("other@pool.example") // MAC still over the original server id
	case "sidlen":
		dsid = int64(m.Arg)
	case "ra-flip":
		ra = flipBit(ra, m.Arg)
	case "ra-trunc":
		if len(ra) > 0 {
			ra = ra[:len(ra)-1]
		}
	case "ra-empty":
		ra = []byte{}
	case "ra-ext":
		ra = append(append([]byte{}, ra...), 0)
	case "ralen":
		dra = int64(m.Arg)
	case "rb-size":
		rb = rep(0x33, m.Arg)
	case "rblen":
		drb = int64(m.Arg)
	}
	good := refMac(in.K, macT(in.cid, macSid, in.ra, rb))
	mac = good
	switch m.Kind {
	case "mac-flip":
		mac = flipBit(mac, m.Arg)
	case "mac-trunc":
		if m.Arg < len(mac) {
			mac = mac[:m.Arg]
		}
	case "mac-empty":
		mac = []byte{}
	case "mac-ext":
		mac = append(append([]byte{}, mac...), 0)
	case "mac-key":
		switch m.Arg {
		case 0:
			mac = refMac(in.Kevil, macT(in.cid, macSid, in.ra, rb))
		case 1:
			mac = refMac(in.sig, macT(in.cid, macSid, in.ra, rb))
		default:
			mac = refMac([]byte{}, macT(in.cid, macSid, in.ra, rb))
		}
	case "mac-msg":
		switch m.Arg {
		case 0:
			mac = refMac(in.K, macC(in.cid, rb)) // the proof the CLIENT would send (reflection)
		case 1:
			mac = refMac(in.K, macT(in.cid, macSid, rb, in.ra)) // nonces swapped
		case 2:
			mac = refMac(in.K, macT(in.cid, macSid, rep(0, len(in.ra)), rb)) // stale RA
		default:
			mac = refMac(in.K, macT(macSid, in.cid, in.ra, rb)) // identities swapped
		}
	case "maclen":
		dmac = int64(m.Arg)
	case "trail":
		trail = rep(0x43, m.Arg)
	}
	if m.Kind == "none" { // the peer goes away instead of answering
		return nil
	}
	var b []byte
	if empty {
		b = encode([]field{fi(status), fi(0), fs(nil), fi(0), fs(nil), fi(0), fi(0), fi(0)})
	} else {
		b = encode([]field{fi(status), fi(int64(len(cid)) + dcid), fs(cid), fi(int64(len(sid)) + dsid), fs(sid),
			fi(int64(len(ra)) + dra), fb(ra), fi(int64(len(rb)) + drb), fb(rb), fi(int64(len(mac)) + dmac), fb(mac)})
	}
	b = append(b, trail...)
	var cuts []int
	switch m.Kind {
	case "cut": // keep the first Arg bytes (Arg < 0: drop -Arg bytes from the end)
		if m.Arg < 0 && -m.Arg <= len(b) {
			b = b[:len(b)+m.Arg]
		} else if m.Arg >= 0 && m.Arg < len(b) {
			b = b[:m.Arg]
		}
	case "split":
		cuts = []int{m.Arg, 2 * m.Arg, 3*m.Arg + 1}
	}
	fr := framesOf(b, cuts)
	if m.Kind == "trail-frame" {
		fr = append(fr, frame{[]byte{9}, true})
	}
	return fr
}

type cRun struct {
	obs        cliObs
	ldOK       bool
	ldCid      string
	ldTok      string
	ldSig      []byte
	tb         *tables
	ra         []byte
	fails      []string
	tokenFull  string
	now        int64
	emptyWorld world
}

func runC(cc *cCase, evilKey []byte) cRun {
	var r cRun
	now := time.Now().Unix()
	r.now = now
	hp, sig := cc.Tok.mint(now)
	useSig := sig
	if cc.Tok.Mut.Kind == "flip-s" {
		useSig = flipBit(sig, cc.Tok.Mut.Arg)
	}
	full := hp + "." + b64e(useSig)
	switch cc.Tok.Mut.Kind {
	case "parts2":
		full = hp
	case "garbage":
		full = "not-a-token"
	}
	r.tokenFull = full
	// the loaded token is an input of the client model: obtained from the real loader
	method := security.AuthToken
	if cc.IDTokens {
		method = security.AuthIDTokens
	}
	cid, tok, lsig, err := security.VerifC11LoadToken(method, &security.SecurityConfig{Token: full})
	r.ldOK = err == nil
	if r.ldOK {
		r.ldCid, r.ldTok, r.ldSig = cid, tok, lsig
	}
	K := refKdf(useSig, []byte(hp))
	Kevil := refKdf(refSign(evilKey, []byte(hp)), []byte(hp))
	var m1 msg1
	r.obs = runClient(full, method, func(fr []frame) []frame {
		m1 = parse1(fr)
		if cc.ReplayM2 != nil {
			return cc.ReplayM2
		}
		return buildM2(m2in{cid: []byte(cc.Sub), sid: []byte(cc.SID), ra: m1.RA, rb: cc.RB, K: K, Kevil: Kevil, sig: useSig}, cc.M2)
	})
	o := r.obs
	r.ra = []byte{}
	if m1.OK && m1.Status == 0 {
		r.ra = m1.RA
	}
	m2 := parse2(o.Script)
	tb := newTables(&r.emptyWorld)
	r.tb = tb
	tb.v.add(r.ra)
	tb.v.add([]byte(r.ldCid))
	if r.ldOK {
		k := tb.addKdf(r.ldSig, []byte(r.ldTok))
		tb.addMac(k, macT([]byte(r.ldCid), m2.SID, r.ra, m2.RB))
		tb.addMac(k, macC([]byte(r.ldCid), m2.RB))
	}
	tb.addSkey(m2.RB)
	// ---- direct property oracle -------------------------------------
	fail := func(s string) { r.fails = append(r.fails, s) }
	if o.Panic != "" {
		fail("panic")
	}
	if o.Accept {
		if cc.Expect == 0 {
			fail("client-accept-invalid")
		}
		if !r.ldOK {
			fail("client-accept:no-token")
		} else {
			Kc := refKdf(r.ldSig, []byte(r.ldTok))
			if m2.Status != 0 {
				fail("client-accept:status")
			}
			if !bytes.Equal(m2.MAC, refMac(Kc, macT([]byte(r.ldCid), m2.SID, r.ra, m2.RB))) {
				fail("client-accept:server-mac-not-under-token-signature")
			}
			if !bytes.Equal(m2.RA, r.ra) || len(r.ra) != 256 {
				fail("client-accept:ra-echo")
			}
			if !bytes.Equal(m2.CID, []byte(r.ldCid)) {
				fail("client-accept:id-echo")
			}
			if !bytes.Equal(o.Skey, refSkey(m2.RB)) {
				fail("client-accept:session-key")
			}
			if len(o.Sent) == 2 {
				m3 := parse3(o.Sent[1])
				if !m3.OK || m3.Status != 0 || !bytes.Equal(m3.MAC, refMac(Kc, macC([]byte(r.ldCid), m2.RB))) ||
					!bytes.Equal(m3.RB, m2.RB) || !bytes.Equal(m3.ID, []byte(r.ldCid)) {
					fail("client-proof-wrong")
				}
			} else {
				fail("client-accept:no-msg3")
			}
		}
	} else if cc.Expect == 1 {
		fail("client-reject-valid")
	}
	if m1.OK && m1.Status == 0 && r.ldOK {
		if !bytes.Equal(m1.ID, []byte(r.ldCid)) || !bytes.Equal(m1.Tok, []byte(r.ldTok)) {
			fail("client-msg1-wrong")
		}
	}
	return r
}

func (r *cRun) term() string {
	o := r.obs
	ld := "None"
	if r.ldOK {
		ld = "(Some (" + r.tb.hex([]byte(r.ldCid)) + ", " + r.tb.hex([]byte(r.ldTok)) + ", " + r.tb.hex(r.ldSig) + "))"
	}
	var sent []string
	for _, m := range o.Sent {
		sent = append(sent, r.tb.framesTerm(m))
	}
	return r.tb.v.wrap("CClient " + strings.Join([]string{r.tb.term(), ld, r.tb.hex(r.ra), r.tb.framesTerm(o.Script),
		core.Bool(o.Accept), r.tb.hex(o.Skey), core.List(sent)}, " "))
}
