// Reference implementation of the TOKEN (AKEP2 / IDTOKENS) primitives written
// from HTCondor's condor_auth_passwd description, independent of cedar's code:
// only the Go standard library is used (HKDF is spelled out with crypto/hmac).
package main

import (
	"bytes"
	"crypto/hmac"
	"crypto/sha1"
	"crypto/sha256"
	"encoding/base64"
	"encoding/json"
	"math/big"
	"os"
	"strings"
	"time"
)

// setup_seed() table for K (condor_auth_passwd.cpp), 256 bytes.
var seedKA = []byte{62, 74, 80, 32, 71, 213, 244, 229, 220, 124, 105, 187, 82, 16, 203, 182, 22, 122, 221, 128, 132, 247, 221, 158, 243, 173, 44, 202, 113, 210, 131, 221, 17, 74, 79, 187, 123, 30, 233, 10, 223, 168, 98, 196, 67, 4, 222, 84, 115, 163, 23, 47, 115, 92, 44, 187, 110, 119, 91, 93, 64, 211, 159, 172, 232, 115, 24, 37, 35, 249, 37, 43, 98, 59, 224, 212, 177, 103, 163, 168, 4, 12, 172, 254, 233, 238, 61, 160, 44, 10, 187, 244, 217, 216, 177, 31, 137, 0, 76, 148, 57, 35, 206, 93, 149, 8, 187, 63, 4, 188, 102, 163, 250, 32, 161, 58, 65, 108, 94, 111, 78, 13, 49, 135, 212, 95, 199, 131, 53, 197, 228, 133, 219, 44, 90, 55, 23, 151, 12, 194, 110, 123, 107, 157, 25, 101, 180, 122, 103, 223, 119, 163, 31, 34, 240, 138, 108, 11, 165, 112, 151, 162, 26, 156, 167, 198, 4, 36, 247, 39, 57, 171, 92, 185, 21, 164, 24, 91, 209, 9, 130, 142, 53, 228, 33, 8, 171, 133, 28, 8, 163, 223, 253, 224, 227, 176, 111, 61, 57, 56, 205, 173, 109, 246, 239, 154, 111, 109, 194, 203, 116, 240, 34, 133, 18, 235, 122, 61, 104, 35, 1, 6, 132, 176, 21, 193, 42, 195, 1, 76, 79, 159, 147, 142, 56, 77, 173, 30, 59, 215, 69, 255, 140, 20, 31, 215, 11, 70, 91, 168, 175, 93, 27, 152, 180, 177}

func hkdfSHA256(ikm, salt, info []byte, n int) []byte {
	ext := hmac.New(sha256.New, salt)
	ext.Write(ikm)
	prk := ext.Sum(nil)
	var out, t []byte
	for ctr := byte(1); len(out) < n; ctr++ {
		h := hmac.New(sha256.New, prk)
		h.Write(t)
		h.Write(info)
		h.Write([]byte{ctr})
		t = h.Sum(nil)
		out = append(out, t...)
	}
	return out[:n]
}

// refSign: signature of "header.payload" under a signing key.
func refSign(key []byte, text []byte) []byte {
	jwtKey := hkdfSHA256(key, []byte("htcondor"), []byte("master jwt"), 32)
	h := hmac.New(sha256.New, jwtKey)
	h.Write(text)
	return h.Sum(nil)
}

// refKdf: K = hkdf(signature, seedKA || token, "master ka").
func refKdf(sig, token []byte) []byte {
	salt := append(append([]byte{}, seedKA...), token...)
	return hkdfSHA256(sig, salt, []byte("master ka"), 32)
}

// refMac: HMAC-SHA1.
func refMac(k, msg []byte) []byte {
	h := hmac.New(sha1.New, k)
	h.Write(msg)
	return h.Sum(nil)
}

// refSkey: session key W = hkdf(rb, "session key", "htcondor").
func refSkey(rb []byte) []byte {
	return hkdfSHA256(rb, []byte("session key"), []byte("htcondor"), 32)
}

func macT(cid, sid, ra, rb []byte) []byte {
	var b bytes.Buffer
	b.Write(cid)
	b.WriteByte(' ')
	b.Write(sid)
	b.WriteByte(0)
	b.Write(ra)
	b.Write(rb)
	return b.Bytes()
}
func macC(cid, rb []byte) []byte {
	var b bytes.Buffer
	b.Write(cid)
	b.WriteByte(0)
	b.Write(rb)
	return b.Bytes()
}

func unscramble(d []byte) []byte {
	db := []byte{0xde, 0xad, 0xbe, 0xef}
	o := make([]byte, len(d))
	for i := range d {
		o[i] = d[i] ^ db[i%4]
	}
	return o
}

// world: what the server holds.
type world struct {
	Pool   []byte            `json:"pool"`   // pool key file contents (scrambled); nil = not configured
	Named  map[string][]byte `json:"named"`  // keyDir/<kid> contents (scrambled)
	MaxAge int               `json:"maxage"` // TokenMaxAge
	Env    string            `json:"env"`    // SEC_TOKEN_MAX_AGE ("" = unset)
	// EnvPaths: the key locations come from SEC_TOKEN_POOL_SIGNING_KEY_FILE /
	// SEC_PASSWORD_DIRECTORY instead of the config fields
	EnvPaths bool   `json:"envpaths,omitempty"`
	Trust    string `json:"trust"`
}

// refKey: the signing key the server uses for a key id.
func (w *world) refKey(kid string) ([]byte, bool) {
	if kid == "POOL" {
		if w.Pool == nil {
			return nil, false
		}
		k := unscramble(w.Pool)
		if len(k) == 0 {
			return nil, false
		}
		return append(append([]byte{}, k...), k...), true
	}
	if strings.Contains(kid, "/") || strings.Contains(kid, "..") {
		return nil, false
	}
	d, ok := w.Named[kid]
	if !ok {
		return nil, false
	}
	k := unscramble(d)
	if len(k) == 0 {
		return nil, false
	}
	return k, true
}

// maxAge: the configured maximum token age in seconds. A positive TokenMaxAge
// wins; otherwise SEC_TOKEN_MAX_AGE is a number of seconds (HTCondor's knob; read
// as the duration "<value>s"); a value that does not parse is ignored; default
// one hour. A result <= 0 means "no age limit".
func (w *world) maxAge() int64 {
	if w.MaxAge > 0 {
		return int64(w.MaxAge)
	}
	if w.Env != "" {
		if d, err := time.ParseDuration(w.Env + "s"); err == nil {
			return int64(d / time.Second)
		}
	}
	return 3600
}

// setEnv puts the process environment in the state the world describes and
// returns the function that clears it again.
func (w *world) setEnv() func() {
	vars := []string{"SEC_TOKEN_MAX_AGE", "SEC_TOKEN_POOL_SIGNING_KEY_FILE", "SEC_PASSWORD_DIRECTORY"}
	for _, v := range vars {
		os.Unsetenv(v)
	}
	if w != nil {
		if w.Env != "" {
			os.Setenv("SEC_TOKEN_MAX_AGE", w.Env)
		}
		if w.EnvPaths {
			if w.Pool != nil {
				os.Setenv("SEC_TOKEN_POOL_SIGNING_KEY_FILE", "/pool/POOL")
			}
			os.Setenv("SEC_PASSWORD_DIRECTORY", "/keys")
		}
	}
	return func() {
		for _, v := range vars {
			os.Unsetenv(v)
		}
	}
}

// withEnv runs f with the environment the world describes.
func (w *world) withEnv(f func()) {
	defer w.setEnv()()
	f()
}

func (w *world) serverID() string {
	if w.Trust == "" {
		return "server@htcondor"
	}
	return "server@" + w.Trust
}

// ---- JSON view ---------------------------------------------------------
type jv struct {
	Kind byte // 'a' absent, 's' string, 'n' number, 'o' other
	S    string
	N    *big.Int // number truncated toward zero
}
type claimsView struct{ Kid, Exp, Iat, Sub, Iss, Scope jv }

func viewOf(m map[string]interface{}, k string) jv {
	v, ok := m[k]
	if !ok {
		return jv{Kind: 'a'}
	}
	switch x := v.(type) {
	case string:
		return jv{Kind: 's', S: x}
	case float64:
		bf := new(big.Float).SetFloat64(x)
		z, _ := bf.Int(nil)
		return jv{Kind: 'n', N: z}
	default:
		return jv{Kind: 'o'}
	}
}

// jsonView: encoding/json into a generic map, then the six keys cedar reads.
func jsonView(b []byte) (claimsView, bool) {
	var m map[string]interface{}
	if err := json.Unmarshal(b, &m); err != nil {
		return claimsView{}, false
	}
	return claimsView{viewOf(m, "kid"), viewOf(m, "exp"), viewOf(m, "iat"), viewOf(m, "sub"), viewOf(m, "iss"), viewOf(m, "scope")}, true
}

func b64d(s string) ([]byte, bool) {
	b, err := base64.RawURLEncoding.DecodeString(s)
	return b, err == nil
}
func b64e(b []byte) string { return base64.RawURLEncoding.EncodeToString(b) }

var minI64 = new(big.Int).Lsh(big.NewInt(-1), 63)
var maxI64 = new(big.Int).Sub(new(big.Int).Lsh(big.NewInt(1), 63), big.NewInt(1))

// timeClaim: (present, mathematical value truncated toward zero, is-a-number).
func timeClaim(v jv) (present bool, val *big.Int, ok bool) {
	switch v.Kind {
	case 'a':
		return false, nil, true
	case 'n':
		return true, v.N, true
	}
	return true, nil, false
}

// refTiming: are the time claims valid at now, read as the integers they denote?
// exp must lie strictly after now; the token must not be older than maxAge (> 0).
// known=false only where the answer depends on the platform's float64 -> int64
// conversion of a value ABOVE the int64 range (a claim further in the future than
// any clock); values below the range are "infinitely old / long expired" on every
// platform and are judged.
func refTiming(c claimsView, now, maxAge int64) (valid bool, known bool) {
	ep, ev, eok := timeClaim(c.Exp)
	ip, iv, iok := timeClaim(c.Iat)
	if !eok || !iok {
		return false, true
	}
	bnow := big.NewInt(now)
	if ep && ev.Cmp(bnow) <= 0 {
		return false, true
	}
	if ip && maxAge > 0 && iv.Cmp(maxI64) <= 0 {
		age := new(big.Int).Sub(bnow, iv)
		if age.Cmp(big.NewInt(maxAge)) > 0 {
			return false, true
		}
	}
	if (ep && ev.Cmp(maxI64) > 0) || (ip && iv.Cmp(maxI64) > 0) {
		return false, false
	}
	return true, true
}

// refToken: what a correct server derives from a two-part token (header.payload).
type refTok struct {
	OK     bool // token is valid at now under a key the server holds, sub is a non-empty string
	Known  bool
	Sub    string
	Key    []byte
	Sig    []byte
	K      []byte
	HasKey bool
}

func refValidate(w *world, now int64, token []byte) refTok {
	r := refTok{Known: true}
	parts := strings.Split(string(token), ".")
	if len(token) == 0 || len(parts) != 2 {
		return r
	}
	hb, ok := b64d(parts[0])
	if !ok {
		return r
	}
	h, ok := jsonView(hb)
	if !ok {
		return r
	}
	kid := "POOL"
	switch h.Kid.Kind {
	case 's':
		if h.Kid.S != "" {
			kid = h.Kid.S
		}
	case 'a':
	default:
		return r
	}
	key, ok := w.refKey(kid)
	if !ok {
		return r
	}
	r.HasKey, r.Key = true, key
	r.Sig = refSign(key, token)
	r.K = refKdf(r.Sig, token)
	pb, ok := b64d(parts[1])
	if !ok {
		return r
	}
	c, ok := jsonView(pb)
	if !ok {
		return r
	}
	valid, known := refTiming(c, now, w.maxAge())
	if !known {
		r.Known = false
		return r
	}
	if !valid {
		return r
	}
	if c.Sub.Kind != 's' || c.Sub.S == "" {
		return r
	}
	r.Sub = c.Sub.S
	r.OK = true
	return r
}
