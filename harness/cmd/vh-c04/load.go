// Source loader (same approach as vh-c17 / vh-c19; duplicated on purpose: each
// property owns its files). It type-checks /repo's packages from source with
// go/types; dependencies come from compiler export data located by
// `go list -export` (what golang.org/x/tools/go/packages does, with the
// standard library only so the harness needs no extra module).
package main

import (
	"bytes"
	"encoding/json"
	"fmt"
	"go/ast"
	"go/importer"
	"go/parser"
	"go/token"
	"go/types"
	"io"
	"os"
	"os/exec"
	"path/filepath"
)

func repoDir() string {
	if r := os.Getenv("VERIF_REPO"); r != "" {
		return r
	}
	return "/repo"
}

type listedPkg struct {
	ImportPath string
	Dir        string
	Export     string
	GoFiles    []string
	Standard   bool
}

type loadedPkg struct {
	Path  string
	Dir   string
	Files []*ast.File
	Names []string // file names, parallel to Files
	Types *types.Package
	Info  *types.Info
}

const modPath = "github.com/bbockelm/cedar"

// loadPkgs type-checks the named sub-packages (e.g. "stream") of the cedar
// module from their ordinary (untagged) source files.
func loadPkgs(fset *token.FileSet, subs []string) (map[string]*loadedPkg, error) {
	args := []string{"list", "-export", "-deps", "-json=ImportPath,Dir,Export,GoFiles,Standard"}
	for _, s := range subs {
		args = append(args, "./"+s)
	}
	cmd := exec.Command("go", args...)
	cmd.Dir = repoDir()
	cmd.Env = append(os.Environ(), "GOFLAGS=-mod=mod", "GOPROXY=off")
	var stderr bytes.Buffer
	cmd.Stderr = &stderr
	out, err := cmd.Output()
	if err != nil {
		return nil, fmt.Errorf("go list failed: %v\n%s", err, stderr.String())
	}
	listed := map[string]*listedPkg{}
	dec := json.NewDecoder(bytes.NewReader(out))
	for {
		var p listedPkg
		if err := dec.Decode(&p); err == io.EOF {
			break
		} else if err != nil {
			return nil, err
		}
		q := p
		listed[p.ImportPath] = &q
	}
	lookup := func(path string) (io.ReadCloser, error) {
		p, ok := listed[path]
		if !ok || p.Export == "" {
			return nil, fmt.Errorf("no export data for %s", path)
		}
		return os.Open(p.Export)
	}
	imp := importer.ForCompiler(fset, "gc", lookup)
	res := map[string]*loadedPkg{}
	for _, s := range subs {
		ip := modPath + "/" + s
		lp, ok := listed[ip]
		if !ok {
			return nil, fmt.Errorf("package %s not listed", ip)
		}
		pk := &loadedPkg{Path: ip, Dir: lp.Dir}
		for _, f := range lp.GoFiles {
			af, err := parser.ParseFile(fset, filepath.Join(lp.Dir, f), nil, parser.ParseComments)
			if err != nil {
				return nil, err
			}
			pk.Files = append(pk.Files, af)
			pk.Names = append(pk.Names, f)
		}
		pk.Info = &types.Info{
			Types:      map[ast.Expr]types.TypeAndValue{},
			Defs:       map[*ast.Ident]types.Object{},
			Uses:       map[*ast.Ident]types.Object{},
			Selections: map[*ast.SelectorExpr]*types.Selection{},
		}
		conf := types.Config{Importer: imp, Error: func(error) {}}
		tp, err := conf.Check(ip, fset, pk.Files, pk.Info)
		if err != nil {
			return nil, fmt.Errorf("type-check %s: %v", ip, err)
		}
		pk.Types = tp
		res[s] = pk
	}
	return res, nil
}
