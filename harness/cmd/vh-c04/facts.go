// facts: translate, from /repo's current source, what the handshake code does with a
// Stream and what the Stream's own methods do with the transcript digests, into
// coq/gen/FactsC04.v (plain data, keyed on function / method / field names only: no line
// numbers, no statement order, no local variable names). The obligations over these lists
// are stated and proved in coq/Proofs/C04sites.v and re-proved by vm_compute on every run.
//
// Handshake packages (everything that can run before or during a handshake):
//
//	security, server, client, client/sharedport, ccb     (non-test, untagged files)
//
// Lists about the handshake packages (+ message, which holds the only code that talks to
// the StreamInterface a Message wraps):
//
//	stream_calls   (function, method)         every call whose receiver is a stream.Stream
//	iface_calls    (function, method)         every call whose receiver is a message.StreamInterface
//	iface_values   (function, static type)    every value converted to a message.StreamInterface
//	stream_escapes (function, callee)         every *stream.Stream handed to a function outside the scanned packages
//	conn_uses      (function, use)            what is done with the result of Stream.GetConnection()
//	raw_io         (function, callee, type)   every Read/Write-like call on a connection-like value, io.ReadFull(conn) ...
//	digest_ctor    (function, what)           every construction of a Stream / of digest state other than stream.NewStream
//	finalize_sites (function, calls after)    every call of FinalizeDigests with the stream-affecting calls that can follow it
//
// Lists about package stream itself:
//
//	digest_touch   (function, field, kind)    every access to the six digest fields: update / sum / reset / assign / init / read
//	digest_guards  (function, field, guards)  the conditions (by class) under which each update happens
//	transport_io   (function, kind)           who calls readWithContext / writeWithContext (read / write) and who touches
//	                                          the connection's Read/Write directly (raw-read / raw-write)
//	success_paths  (function, dir, hashed)    every success return of a function doing transport I/O: was the digest fed before it
//	reaches        (method, primitives)       for every method of Stream, the transport-I/O functions it can reach
package main

import (
	"fmt"
	"go/ast"
	"go/token"
	"go/types"
	"sort"
	"strings"
)

var hsPkgs = []string{"security", "server", "client", "client/sharedport", "ccb"}
var allPkgs = append([]string{"stream", "message"}, hsPkgs...)

var digestFields = []string{"sendDigest", "recvDigest", "sendDigestWritten", "recvDigestWritten", "finalSendDigest", "finalRecvDigest"}

type factSet struct {
	rows map[string]bool
}

func (f *factSet) add(cols ...string) {
	if f.rows == nil {
		f.rows = map[string]bool{}
	}
	f.rows[strings.Join(cols, "\x00")] = true
}
func (f *factSet) sorted() [][]string {
	var ks []string
	for k := range f.rows {
		ks = append(ks, k)
	}
	sort.Strings(ks)
	var out [][]string
	for _, k := range ks {
		out = append(out, strings.Split(k, "\x00"))
	}
	return out
}

func q(s string) string { return `"` + strings.ReplaceAll(s, `"`, `""`) + `"` }

func isNamed(t types.Type, pkgSuffix, name string) bool {
	if p, ok := t.(*types.Pointer); ok {
		t = p.Elem()
	}
	n, ok := t.(*types.Named)
	if !ok || n.Obj().Pkg() == nil {
		return false
	}
	return n.Obj().Name() == name && n.Obj().Pkg().Path() == modPath+"/"+pkgSuffix
}
func isStream(t types.Type) bool { return t != nil && isNamed(t, "stream", "Stream") }
func isStreamIface(t types.Type) bool {
	if t == nil {
		return false
	}
	n, ok := t.(*types.Named)
	return ok && n.Obj().Pkg() != nil && n.Obj().Pkg().Path() == modPath+"/message" && n.Obj().Name() == "StreamInterface"
}

func typeStr(t types.Type) string {
	return types.TypeString(t, func(p *types.Package) string {
		return strings.TrimPrefix(p.Path(), modPath+"/")
	})
}

// connLike: the value can carry transport bytes: it has RemoteAddr() (a net.Conn, *tls.Conn,
// *net.TCPConn, *net.UnixConn, cedar's own conn wrappers ...), or it is a bare io interface that
// could hide one.
func connLike(t types.Type) bool { return connStrict(t) || bareIO(t) }

// connStrict: the value IS a connection (has RemoteAddr()).
func connStrict(t types.Type) bool {
	if t == nil {
		return false
	}
	ms := types.NewMethodSet(t)
	if ms.Lookup(nil, "RemoteAddr") != nil {
		return true
	}
	if _, ok := t.(*types.Pointer); !ok {
		if _, isIface := t.Underlying().(*types.Interface); !isIface {
			if types.NewMethodSet(types.NewPointer(t)).Lookup(nil, "RemoteAddr") != nil {
				return true
			}
		}
	}
	return false
}

// ioIface: an interface type through which bytes can be read or written but which no longer says it
// is a connection (io.Reader, io.Writer, any interface with Read or Write and no RemoteAddr).
func ioIface(t types.Type) bool {
	if t == nil {
		return false
	}
	it, ok := t.Underlying().(*types.Interface)
	if !ok || it.NumMethods() == 0 {
		return false
	}
	ms := types.NewMethodSet(t)
	if ms.Lookup(nil, "RemoteAddr") != nil {
		return false
	}
	return ms.Lookup(nil, "Read") != nil || ms.Lookup(nil, "Write") != nil
}

// bareIO: package stream keeps its connection in io.Reader / io.Writer fields.
func bareIO(t types.Type) bool {
	if t == nil {
		return false
	}
	if n, ok := t.(*types.Named); ok && n.Obj().Pkg() != nil && n.Obj().Pkg().Path() == "io" {
		switch n.Obj().Name() {
		case "Reader", "Writer", "ReadWriter", "ReadWriteCloser", "ReadCloser", "WriteCloser":
			return true
		}
	}
	return false
}

var ioMethodNames = map[string]bool{
	"Read": true, "Write": true, "ReadFrom": true, "WriteTo": true, "ReadMsgUnix": true, "WriteMsgUnix": true,
	"ReadByte": true, "WriteString": true, "Handshake": true, "HandshakeContext": true, "File": true, "SyscallConn": true,
}

var ioFuncPkgs = map[string]bool{"io": true, "bufio": true, "io/ioutil": true, "net/textproto": true, "encoding/binary": true, "encoding/json": true, "encoding/gob": true}

func funcKey(pkgSub string, fd *ast.FuncDecl) string {
	if fd.Recv != nil && len(fd.Recv.List) > 0 {
		t := fd.Recv.List[0].Type
		if st, ok := t.(*ast.StarExpr); ok {
			t = st.X
		}
		if ix, ok := t.(*ast.IndexExpr); ok {
			t = ix.X
		}
		if id, ok := t.(*ast.Ident); ok {
			return pkgSub + "." + id.Name + "." + fd.Name.Name
		}
	}
	return pkgSub + "." + fd.Name.Name
}

func parentsOf(root ast.Node) map[ast.Node]ast.Node {
	par := map[ast.Node]ast.Node{}
	var stack []ast.Node
	ast.Inspect(root, func(n ast.Node) bool {
		if n == nil {
			stack = stack[:len(stack)-1]
			return true
		}
		if len(stack) > 0 {
			par[n] = stack[len(stack)-1]
		}
		stack = append(stack, n)
		return true
	})
	return par
}

func calleeObj(info *types.Info, call *ast.CallExpr) *types.Func {
	var id *ast.Ident
	switch f := ast.Unparen(call.Fun).(type) {
	case *ast.Ident:
		id = f
	case *ast.SelectorExpr:
		id = f.Sel
	case *ast.IndexExpr:
		if s, ok := f.X.(*ast.SelectorExpr); ok {
			id = s.Sel
		} else if i, ok := f.X.(*ast.Ident); ok {
			id = i
		}
	}
	if id == nil {
		return nil
	}
	fn, _ := info.Uses[id].(*types.Func)
	return fn
}

func calleeName(info *types.Info, call *ast.CallExpr) string {
	if fn := calleeObj(info, call); fn != nil {
		p := ""
		if fn.Pkg() != nil {
			p = strings.TrimPrefix(fn.Pkg().Path(), modPath+"/")
		}
		if sig, ok := fn.Type().(*types.Signature); ok && sig.Recv() != nil {
			t := sig.Recv().Type()
			if pt, ok := t.(*types.Pointer); ok {
				t = pt.Elem()
			}
			if n, ok := t.(*types.Named); ok {
				return p + "." + n.Obj().Name() + "." + fn.Name()
			}
		}
		return p + "." + fn.Name()
	}
	switch f := ast.Unparen(call.Fun).(type) {
	case *ast.SelectorExpr:
		return "?." + f.Sel.Name
	case *ast.Ident:
		return "?." + f.Name
	}
	return "?"
}

// recvTypeOfMethodCall: static type of the receiver expression of x.M(...), nil if not a method call
func recvTypeOfMethodCall(info *types.Info, call *ast.CallExpr) (types.Type, string) {
	sel, ok := ast.Unparen(call.Fun).(*ast.SelectorExpr)
	if !ok {
		return nil, ""
	}
	s := info.Selections[sel]
	if s == nil || s.Kind() != types.MethodVal {
		return nil, ""
	}
	return s.Recv(), sel.Sel.Name
}

func isNilIdent(info *types.Info, e ast.Expr) bool {
	id, ok := ast.Unparen(e).(*ast.Ident)
	if !ok {
		return false
	}
	_, isNil := info.Uses[id].(*types.Nil)
	return isNil
}

// classifyUse says what happens to the value of expression e (the result of GetConnection() or a
// variable holding it); variables defined from it are followed.
func classifyUse(info *types.Info, par map[ast.Node]ast.Node, body ast.Node, e ast.Expr, depth int, out func(string)) {
	if depth > 4 {
		out("other:deep")
		return
	}
	p := par[e]
	for {
		if pe, ok := p.(*ast.ParenExpr); ok {
			e = pe
			p = par[pe]
			continue
		}
		break
	}
	followVar := func(id *ast.Ident) {
		obj := info.Defs[id]
		if obj == nil {
			obj = info.Uses[id]
		}
		if obj == nil {
			out("other:untracked-var")
			return
		}
		if _, isVar := obj.(*types.Var); !isVar || obj.Parent() == nil || obj.Parent() == obj.Pkg().Scope() {
			out("store:global:" + id.Name)
			return
		}
		if v := obj.(*types.Var); v.IsField() {
			out("store:field:" + id.Name)
			return
		}
		ast.Inspect(body, func(n ast.Node) bool {
			u, ok := n.(*ast.Ident)
			if !ok || info.Uses[u] != obj {
				return true
			}
			// a plain re-assignment target is not a use of the value
			if as, ok := par[u].(*ast.AssignStmt); ok {
				for _, l := range as.Lhs {
					if l == ast.Expr(u) {
						return true
					}
				}
			}
			classifyUse(info, par, body, u, depth+1, out)
			return true
		})
	}
	switch x := p.(type) {
	case *ast.SelectorExpr:
		if x.X == e {
			if c, ok := par[x].(*ast.CallExpr); ok && c.Fun == ast.Expr(x) {
				out("call:" + x.Sel.Name)
			} else {
				out("sel:" + x.Sel.Name)
			}
			return
		}
	case *ast.BinaryExpr:
		if (x.Op == token.EQL || x.Op == token.NEQ) && (isNilIdent(info, x.X) || isNilIdent(info, x.Y)) {
			out("nilcheck")
			return
		}
	case *ast.CallExpr:
		for _, a := range x.Args {
			if a == e {
				out("arg:" + calleeName(info, x))
				return
			}
		}
	case *ast.ReturnStmt:
		out("return")
		return
	case *ast.TypeAssertExpr:
		out("typeassert:" + typeStr(info.TypeOf(x)))
		return
	case *ast.AssignStmt:
		for i, r := range x.Rhs {
			if r != e {
				continue
			}
			if len(x.Lhs) != len(x.Rhs) {
				out("other:tuple-assign")
				return
			}
			switch l := ast.Unparen(x.Lhs[i]).(type) {
			case *ast.Ident:
				if l.Name == "_" {
					out("discard")
					return
				}
				followVar(l)
			case *ast.SelectorExpr:
				out("store:field:" + l.Sel.Name)
			default:
				out("store:other")
			}
			return
		}
	case *ast.ValueSpec:
		for i, r := range x.Values {
			if r == e && i < len(x.Names) {
				followVar(x.Names[i])
				return
			}
		}
	case *ast.KeyValueExpr:
		if k, ok := x.Key.(*ast.Ident); ok {
			out("store:field:" + k.Name)
		} else {
			out("store:lit")
		}
		return
	case *ast.CompositeLit:
		out("store:lit")
		return
	case *ast.ExprStmt:
		out("discard")
		return
	}
	out(fmt.Sprintf("other:%T", p))
}

// ---- stream package -----------------------------------------------------

// fieldOfStream: if e is <x>.<field> where x is a stream.Stream and field one of the digest fields
func digestFieldOf(info *types.Info, e ast.Expr) string {
	sel, ok := ast.Unparen(e).(*ast.SelectorExpr)
	if !ok {
		return ""
	}
	s := info.Selections[sel]
	if s == nil || s.Kind() != types.FieldVal || !isStream(s.Recv()) {
		return ""
	}
	for _, f := range digestFields {
		if sel.Sel.Name == f {
			return f
		}
	}
	return ""
}

// guardClass abstracts an if-condition guarding a digest update; names of locals do not matter.
//
//	live       <stream>.<hash> != nil && <stream>.<final> == nil   (either order; the digest of this direction is still running)
//	nonempty   len(<ident>) > 0                                     (skipping a zero-byte Write changes no digest)
//	zerolen    <ident> == 0                                         (the zero-length-frame branch)
//	else       the negation of a condition of an enclosing if whose else-branch we are in: "else:" + class
//	other:<source text>
func guardClass(info *types.Info, fset *token.FileSet, cond ast.Expr, dirField string) string {
	cond = ast.Unparen(cond)
	if b, ok := cond.(*ast.BinaryExpr); ok {
		if b.Op == token.LAND {
			hash, final := "", ""
			for _, side := range []ast.Expr{b.X, b.Y} {
				sb, ok := ast.Unparen(side).(*ast.BinaryExpr)
				if !ok {
					return "other:" + render(fset, cond)
				}
				var fld string
				if isNilIdent(info, sb.Y) {
					fld = digestFieldOf(info, sb.X)
				} else if isNilIdent(info, sb.X) {
					fld = digestFieldOf(info, sb.Y)
				}
				switch {
				case sb.Op == token.NEQ && (fld == "sendDigest" || fld == "recvDigest"):
					hash = fld
				case sb.Op == token.EQL && (fld == "finalSendDigest" || fld == "finalRecvDigest"):
					final = fld
				default:
					return "other:" + render(fset, cond)
				}
			}
			if (hash == "sendDigest" && final == "finalSendDigest") || (hash == "recvDigest" && final == "finalRecvDigest") {
				if hash == dirField {
					return "live"
				}
				return "live-of-other-direction"
			}
			return "other:" + render(fset, cond)
		}
		if b.Op == token.GTR {
			if c, ok := ast.Unparen(b.X).(*ast.CallExpr); ok && len(c.Args) == 1 {
				if f, ok := c.Fun.(*ast.Ident); ok && f.Name == "len" {
					if _, ok := ast.Unparen(c.Args[0]).(*ast.Ident); ok {
						if l, ok := ast.Unparen(b.Y).(*ast.BasicLit); ok && l.Value == "0" {
							return "nonempty"
						}
					}
				}
			}
		}
		if b.Op == token.EQL {
			if _, ok := ast.Unparen(b.X).(*ast.Ident); ok {
				if l, ok := ast.Unparen(b.Y).(*ast.BasicLit); ok && l.Value == "0" {
					return "zerolen"
				}
			}
		}
	}
	return "other:" + render(fset, cond)
}

func render(fset *token.FileSet, e ast.Expr) string {
	var b strings.Builder
	// compact, position-free rendering
	ast.Inspect(e, func(n ast.Node) bool {
		switch x := n.(type) {
		case *ast.Ident:
			b.WriteString(x.Name + " ")
		case *ast.BasicLit:
			b.WriteString(x.Value + " ")
		case *ast.BinaryExpr:
			b.WriteString("(" + x.Op.String() + ") ")
		case *ast.UnaryExpr:
			b.WriteString(x.Op.String() + " ")
		}
		return true
	})
	s := strings.TrimSpace(b.String())
	if len(s) > 120 {
		s = s[:120]
	}
	return s
}

type streamFacts struct {
	touch, guards, tio, succ factSet
	reaches                  map[string][]string
	methods                  []string
}

func scanStreamPkg(fset *token.FileSet, pk *loadedPkg) (*streamFacts, error) {
	sf := &streamFacts{reaches: map[string][]string{}}
	info := pk.Info
	// the six fields must exist
	obj := pk.Types.Scope().Lookup("Stream")
	if obj == nil {
		return nil, fmt.Errorf("stream.Stream not found")
	}
	st, ok := obj.Type().Underlying().(*types.Struct)
	if !ok {
		return nil, fmt.Errorf("stream.Stream is not a struct")
	}
	have := map[string]bool{}
	for i := 0; i < st.NumFields(); i++ {
		have[st.Field(i).Name()] = true
		// a NEW hash-typed or digest-named field would escape the six names: refuse
		n := st.Field(i).Name()
		known := false
		for _, f := range digestFields {
			known = known || f == n
		}
		if !known && (strings.Contains(strings.ToLower(n), "digest") || strings.HasSuffix(typeStr(st.Field(i).Type()), "hash.Hash")) {
			return nil, fmt.Errorf("stream.Stream has a digest-like field %q the translator does not know", n)
		}
	}
	for _, f := range digestFields {
		if !have[f] {
			return nil, fmt.Errorf("stream.Stream has no field %q any more: the digest facts are anchored in it", f)
		}
	}
	type fnInfo struct {
		key   string
		name  string
		decl  *ast.FuncDecl
		calls map[string]bool // names of Stream methods / package functions called (intra-package)
	}
	fns := map[string]*fnInfo{}
	var order []string
	for _, af := range pk.Files {
		for _, d := range af.Decls {
			fd, ok := d.(*ast.FuncDecl)
			if !ok || fd.Body == nil {
				continue
			}
			fi := &fnInfo{key: funcKey("stream", fd), name: fd.Name.Name, decl: fd, calls: map[string]bool{}}
			fns[fi.key] = fi
			order = append(order, fi.key)
		}
	}
	sort.Strings(order)
	for _, k := range order {
		fi := fns[k]
		fd := fi.decl
		par := parentsOf(fd)
		isMethod := strings.HasPrefix(fi.key, "stream.Stream.")
		if isMethod {
			sf.methods = append(sf.methods, fi.name)
		}
		type upd struct {
			field string
			node  ast.Node
		}
		var updates []upd
		ast.Inspect(fd.Body, func(n ast.Node) bool {
			switch x := n.(type) {
			case *ast.CallExpr:
				if fn := calleeObj(info, x); fn != nil && fn.Pkg() != nil && fn.Pkg().Path() == modPath+"/stream" {
					ck := fn.Name()
					if sig, ok := fn.Type().(*types.Signature); ok && sig.Recv() != nil {
						t := sig.Recv().Type()
						if pt, ok := t.(*types.Pointer); ok {
							t = pt.Elem()
						}
						if nn, ok := t.(*types.Named); ok {
							ck = "stream." + nn.Obj().Name() + "." + fn.Name()
						}
					} else {
						ck = "stream." + fn.Name()
					}
					fi.calls[ck] = true
					if ck == "stream.Stream.readWithContext" {
						sf.tio.add(fi.key, "read")
					}
					if ck == "stream.Stream.writeWithContext" {
						sf.tio.add(fi.key, "write")
					}
				}
				// direct use of the connection: a Read/Write-like method on a conn-like receiver, or io.ReadFull(conn-like ...)
				if rt, m := recvTypeOfMethodCall(info, x); rt != nil && ioMethodNames[m] && connLike(rt) {
					kind := "raw-write"
					if strings.HasPrefix(m, "Read") {
						kind = "raw-read"
					} else if !strings.HasPrefix(m, "Write") {
						kind = "raw-" + m
					}
					sf.tio.add(fi.key, kind)
				}
				if fn := calleeObj(info, x); fn != nil && fn.Pkg() != nil && ioFuncPkgs[fn.Pkg().Path()] {
					for _, a := range x.Args {
						if connLike(info.TypeOf(a)) {
							kind := "raw-write"
							if strings.Contains(fn.Name(), "Read") {
								kind = "raw-read"
							} else if strings.Contains(fn.Name(), "Copy") {
								kind = "raw-copy"
							}
							sf.tio.add(fi.key, kind)
						}
					}
				}
				// digest method calls
				if sel, ok := ast.Unparen(x.Fun).(*ast.SelectorExpr); ok {
					if f := digestFieldOf(info, sel.X); f != "" {
						switch sel.Sel.Name {
						case "Write":
							sf.touch.add(fi.key, f, "update")
							updates = append(updates, upd{f, x})
						case "Sum":
							sf.touch.add(fi.key, f, "sum")
						case "Reset":
							sf.touch.add(fi.key, f, "reset")
						default:
							sf.touch.add(fi.key, f, "call:"+sel.Sel.Name)
						}
					}
				}
			case *ast.SelectorExpr:
				f := digestFieldOf(info, x)
				if f == "" {
					return true
				}
				p := par[x]
				if ps, ok := p.(*ast.SelectorExpr); ok && ps.X == ast.Expr(x) {
					if pc, ok := par[ps].(*ast.CallExpr); ok && pc.Fun == ast.Expr(ps) {
						return true // method call on the field, handled above
					}
				}
				if as, ok := p.(*ast.AssignStmt); ok {
					for _, l := range as.Lhs {
						if l == ast.Expr(x) {
							sf.touch.add(fi.key, f, "assign")
							return true
						}
					}
				}
				if u, ok := p.(*ast.UnaryExpr); ok && u.Op == token.AND {
					sf.touch.add(fi.key, f, "address-taken")
					return true
				}
				sf.touch.add(fi.key, f, "read")
			case *ast.CompositeLit:
				if isStream(info.TypeOf(x)) {
					for _, el := range x.Elts {
						if kv, ok := el.(*ast.KeyValueExpr); ok {
							if id, ok := kv.Key.(*ast.Ident); ok {
								for _, f := range digestFields {
									if id.Name == f {
										sf.touch.add(fi.key, f, "init")
									}
								}
							}
						}
					}
					sf.touch.add(fi.key, "*", "new-stream-literal")
				}
			}
			return true
		})
		// guards of every update
		for _, u := range updates {
			var gs []string
			var child ast.Node = u.node
			for p := par[u.node]; p != nil && p != ast.Node(fd); child, p = p, par[p] {
				switch x := p.(type) {
				case *ast.IfStmt:
					if child == ast.Node(x.Body) {
						gs = append(gs, guardClass(info, fset, x.Cond, u.field))
					} else if x.Else != nil && child == x.Else {
						gs = append(gs, "else:"+guardClass(info, fset, x.Cond, u.field))
					}
				case *ast.ForStmt, *ast.RangeStmt:
					gs = append(gs, "loop")
				case *ast.SwitchStmt, *ast.TypeSwitchStmt, *ast.SelectStmt:
					gs = append(gs, "switch")
				case *ast.FuncLit:
					gs = append(gs, "closure")
				case *ast.GoStmt:
					gs = append(gs, "go")
				case *ast.DeferStmt:
					gs = append(gs, "defer")
				}
			}
			sort.Strings(gs)
			var ded []string
			for i, g := range gs {
				if i == 0 || g != gs[i-1] {
					ded = append(ded, g)
				}
			}
			// which argument is hashed: the header (a 5-byte array/slice) or the payload
			what := "?"
			if ce, ok := u.node.(*ast.CallExpr); ok && len(ce.Args) == 1 {
				what = "bytes"
				t := info.TypeOf(ce.Args[0])
				if se, ok := ast.Unparen(ce.Args[0]).(*ast.SliceExpr); ok {
					t = info.TypeOf(se.X)
				}
				if a, ok := t.Underlying().(*types.Array); ok && a.Len() == 5 {
					what = "header"
				}
			}
			sf.guards.add(fi.key, u.field, what, strings.Join(ded, ","))
		}
		// success paths of functions that read / write the transport through the primitives
		var dirs []string
		if sf.tio.rows[fi.key+"\x00read"] {
			dirs = append(dirs, "recvDigest")
		}
		if sf.tio.rows[fi.key+"\x00write"] {
			dirs = append(dirs, "sendDigest")
		}
		for _, dir := range dirs {
			// the update statements of this direction, lifted to their outermost enclosing "live" if
			type anchor struct {
				stmt  ast.Node
				block ast.Node
			}
			var anchors []anchor
			for _, u := range updates {
				if u.field != dir {
					continue
				}
				var top ast.Node = u.node
				// climb to the statement directly inside a block
				for par[top] != nil {
					if _, ok := par[top].(*ast.BlockStmt); ok {
						break
					}
					top = par[top]
				}
				// if that block is the body of a "live" if, lift to the if
				for {
					blk, ok := par[top].(*ast.BlockStmt)
					if !ok {
						break
					}
					ifs, ok := par[blk].(*ast.IfStmt)
					if !ok || ifs.Body != blk {
						break
					}
					c := guardClass(info, fset, ifs.Cond, dir)
					if c == "live" || c == "nonempty" {
						top = ifs
						continue
					}
					break
				}
				anchors = append(anchors, anchor{top, par[top]})
			}
			ast.Inspect(fd.Body, func(n ast.Node) bool {
				if _, ok := n.(*ast.FuncLit); ok {
					return false
				}
				rs, ok := n.(*ast.ReturnStmt)
				if !ok || len(rs.Results) == 0 {
					return true
				}
				last := rs.Results[len(rs.Results)-1]
				if !isNilIdent(info, last) {
					return true // an error return (or a tail call, listed through `reaches`)
				}
				hashed := false
				for _, a := range anchors {
					if a.stmt.Pos() >= rs.Pos() {
						continue
					}
					// the anchor's block must enclose the return
					for p := ast.Node(rs); p != nil; p = par[p] {
						if p == a.block {
							hashed = true
							break
						}
					}
				}
				h := "unhashed"
				if hashed {
					h = "hashed"
				}
				sf.succ.add(fi.key, dir, h)
				return true
			})
		}
	}
	// reaches: transport-I/O functions reachable from every Stream method
	prim := map[string]bool{}
	for _, r := range sf.tio.sorted() {
		prim[r[0]] = true
	}
	for _, k := range order {
		if !strings.HasPrefix(k, "stream.Stream.") {
			continue
		}
		seen := map[string]bool{}
		var out []string
		var dfs func(string)
		dfs = func(c string) {
			if seen[c] {
				return
			}
			seen[c] = true
			if prim[c] && c != k {
				out = append(out, strings.TrimPrefix(c, "stream.Stream."))
				// do not look through a primitive: what it reaches is its own row
				return
			}
			if f := fns[c]; f != nil {
				for cc := range f.calls {
					dfs(cc)
				}
			}
		}
		dfs(k)
		if prim[k] {
			out = append(out, "<self>")
		}
		sort.Strings(out)
		sf.reaches[strings.TrimPrefix(k, "stream.Stream.")] = out
	}
	sort.Strings(sf.methods)
	return sf, nil
}

// ---- handshake packages ------------------------------------------------

type hsFacts struct {
	streamCalls, ifaceCalls, ifaceValues, escapes, connUses, rawIO, ctor, finalize, newStreams, stores factSet
}

// streamAffecting: calls after a FinalizeDigests that would put bytes on / take bytes off the stream
// or install a key
func streamAffecting(info *types.Info, call *ast.CallExpr) string {
	if rt, m := recvTypeOfMethodCall(info, call); rt != nil {
		if isStream(rt) || isStreamIface(rt) {
			switch m {
			case "IsEncrypted", "IsAuthenticated", "GetPeerAddr", "IsConnected", "GetConnection", "GetTimeout", "GetEncryption":
				return ""
			}
			return "Stream." + m
		}
		if isNamed(rt, "message", "Message") {
			return "Message." + m
		}
	}
	if fn := calleeObj(info, call); fn != nil && fn.Pkg() != nil && fn.Pkg().Path() == modPath+"/message" {
		return "message." + fn.Name()
	}
	return ""
}

func scanHandshakePkg(fset *token.FileSet, sub string, pk *loadedPkg, scanned map[string]bool, hf *hsFacts, ifaceOnly bool) {
	info := pk.Info
	for _, af := range pk.Files {
		for _, d := range af.Decls {
			fd, ok := d.(*ast.FuncDecl)
			if !ok || fd.Body == nil {
				continue
			}
			key := funcKey(sub, fd)
			par := parentsOf(fd)
			nNew := 0
			ast.Inspect(fd.Body, func(n ast.Node) bool {
				switch x := n.(type) {
				case *ast.CallExpr:
					rt, m := recvTypeOfMethodCall(info, x)
					if rt != nil && isStreamIface(rt) {
						hf.ifaceCalls.add(key, m)
					}
					if ifaceOnly {
						return true
					}
					if rt != nil && isStream(rt) {
						hf.streamCalls.add(key, m)
						if m == "GetConnection" {
							classifyUse(info, par, fd.Body, x, 0, func(u string) { hf.connUses.add(key, u) })
						}
						if m == "FinalizeDigests" {
							after := map[string]bool{}
							ast.Inspect(fd.Body, func(n2 ast.Node) bool {
								c2, ok := n2.(*ast.CallExpr)
								if !ok || c2.Pos() <= x.Pos() {
									return true
								}
								if a := streamAffecting(info, c2); a != "" {
									after[a] = true
								}
								return true
							})
							var as []string
							for a := range after {
								as = append(as, a)
							}
							sort.Strings(as)
							hf.finalize.add(key, strings.Join(as, ","))
						}
					}
					// method values (s.ReceiveFrame passed around) are caught below as SelectorExpr
					if rt != nil && ioMethodNames[m] && connStrict(rt) {
						hf.rawIO.add(key, m, typeStr(rt))
					}
					fn := calleeObj(info, x)
					if fn != nil && fn.Pkg() != nil {
						sig, _ := fn.Type().(*types.Signature)
						if ioFuncPkgs[fn.Pkg().Path()] {
							for _, a := range x.Args {
								if t := info.TypeOf(a); connStrict(t) {
									hf.rawIO.add(key, fn.Pkg().Path()+"."+fn.Name(), typeStr(t))
								}
							}
						}
						p := strings.TrimPrefix(fn.Pkg().Path(), modPath+"/")
						if fn.Pkg().Path() == modPath+"/stream" && sig != nil && sig.Recv() == nil {
							switch fn.Name() {
							case "NewStream":
								nNew++
							case "DefaultKeepAliveConfig":
							default:
								hf.ctor.add(key, "stream."+fn.Name())
							}
						}
						// a *Stream handed to code outside the scanned packages
						if !scanned[p] || !strings.HasPrefix(fn.Pkg().Path(), modPath+"/") {
							for _, a := range x.Args {
								if t := info.TypeOf(a); t != nil && isStream(t) {
									hf.escapes.add(key, calleeName(info, x))
								}
							}
						}
					} else if fn == nil {
						// call through a function value: a Stream argument goes to code we cannot name
						for _, a := range x.Args {
							if t := info.TypeOf(a); t != nil && isStream(t) {
								hf.escapes.add(key, "funcvalue:"+calleeName(info, x))
							}
						}
					}
				case *ast.SelectorExpr:
					if ifaceOnly {
						return true
					}
					// a method VALUE of a Stream (not called here)
					if s := info.Selections[x]; s != nil && s.Kind() == types.MethodVal && isStream(s.Recv()) {
						if c, ok := par[x].(*ast.CallExpr); !ok || c.Fun != ast.Expr(x) {
							hf.streamCalls.add(key, "methodvalue:"+x.Sel.Name)
						}
					}
				case *ast.CompositeLit:
					if ifaceOnly {
						return true
					}
					if t := info.TypeOf(x); t != nil && isStream(t) {
						hf.ctor.add(key, "stream.Stream literal")
					}
				}
				return true
			})
			if ifaceOnly {
				continue
			}
			if nNew == 1 {
				hf.newStreams.add(key, "one")
			} else if nNew > 1 {
				hf.newStreams.add(key, "several")
			}
			// every implicit or explicit conversion of a value to message.StreamInterface
			var srcDst ast.Expr // the destination expression of the conversion being recorded, if it has one
			ast.Inspect(fd.Body, func(n ast.Node) bool {
				record := func(dst types.Type, src ast.Expr) {
					if dst == nil || src == nil {
						return
					}
					// a connection handed on as a bare reader / writer: its bytes can then move unseen
					if ioIface(dst) {
						if st := info.TypeOf(src); connStrict(st) {
							hf.rawIO.add(key, "as:"+typeStr(dst), typeStr(st))
						}
					}
					// a Stream stored in a field: the Stream (and so the digest state) an object works on changes
					if isStream(dst) {
						if se, ok := ast.Unparen(srcDst).(*ast.SelectorExpr); ok {
							if sl := info.Selections[se]; sl != nil && sl.Kind() == types.FieldVal {
								hf.stores.add(key, se.Sel.Name)
							}
						} else if id, ok := srcDst.(*ast.Ident); ok {
							if v, ok := info.Uses[id].(*types.Var); ok && v.IsField() {
								hf.stores.add(key, id.Name)
							}
						}
					}
					if !isStreamIface(dst) {
						return
					}
					st := info.TypeOf(src)
					if st == nil || isStreamIface(st) {
						return
					}
					if b, ok := st.(*types.Basic); ok && b.Kind() == types.UntypedNil {
						return
					}
					hf.ifaceValues.add(key, typeStr(st))
				}
				srcDst = nil
				switch x := n.(type) {
				case *ast.CallExpr:
					if tv, ok := info.Types[x.Fun]; ok && tv.IsType() && len(x.Args) == 1 {
						record(tv.Type, x.Args[0])
						return true
					}
					if sig, ok := info.TypeOf(x.Fun).(*types.Signature); ok {
						for i, a := range x.Args {
							var pt types.Type
							if i < sig.Params().Len() {
								pt = sig.Params().At(i).Type()
							} else if sig.Variadic() && sig.Params().Len() > 0 {
								if sl, ok := sig.Params().At(sig.Params().Len() - 1).Type().(*types.Slice); ok {
									pt = sl.Elem()
								}
							}
							record(pt, a)
						}
					}
				case *ast.AssignStmt:
					if len(x.Lhs) == len(x.Rhs) {
						for i := range x.Lhs {
							srcDst = x.Lhs[i]
							record(info.TypeOf(x.Lhs[i]), x.Rhs[i])
						}
						srcDst = nil
					}
				case *ast.ValueSpec:
					if x.Type != nil {
						for _, v := range x.Values {
							record(info.TypeOf(x.Type), v)
						}
					}
				case *ast.KeyValueExpr:
					srcDst = x.Key
					record(info.TypeOf(x.Key), x.Value)
					srcDst = nil
				case *ast.ReturnStmt:
					// the enclosing function's result types
					if fd.Type.Results != nil {
						var rts []types.Type
						for _, f := range fd.Type.Results.List {
							k := len(f.Names)
							if k == 0 {
								k = 1
							}
							for j := 0; j < k; j++ {
								rts = append(rts, info.TypeOf(f.Type))
							}
						}
						if len(rts) == len(x.Results) {
							for i, r := range x.Results {
								record(rts[i], r)
							}
						}
					}
				}
				return true
			})
		}
	}
}

func writeList(w *strings.Builder, name, typ string, rows [][]string, fmtRow func([]string) string) {
	fmt.Fprintf(w, "Definition %s : list (%s) := [\n", name, typ)
	for i, r := range rows {
		sep := ";"
		if i == len(rows)-1 {
			sep = ""
		}
		fmt.Fprintf(w, "  %s%s\n", fmtRow(r), sep)
	}
	w.WriteString("].\n\n")
}

func tuple(r []string) string {
	var qs []string
	for _, c := range r {
		qs = append(qs, q(c))
	}
	return "(" + strings.Join(qs, ", ") + ")"
}

func strList(csv string) string {
	if csv == "" {
		return "[]"
	}
	var qs []string
	for _, c := range strings.Split(csv, ",") {
		qs = append(qs, q(c))
	}
	return "[" + strings.Join(qs, "; ") + "]"
}

func facts(w *strings.Builder) error {
	fset := token.NewFileSet()
	pkgs, err := loadPkgs(fset, allPkgs)
	if err != nil {
		return err
	}
	sf, err := scanStreamPkg(fset, pkgs["stream"])
	if err != nil {
		return err
	}
	scanned := map[string]bool{}
	for _, p := range allPkgs {
		scanned[p] = true
	}
	hf := &hsFacts{}
	for _, p := range hsPkgs {
		scanHandshakePkg(fset, p, pkgs[p], scanned, hf, false)
	}
	scanHandshakePkg(fset, "message", pkgs["message"], scanned, hf, true)

	w.WriteString("(* GENERATED by harness/cmd/vh-c04 (facts) from /repo's current source. Do not edit.\n")
	w.WriteString("   What the handshake packages (security, server, client, client/sharedport, ccb; message for the\n")
	w.WriteString("   StreamInterface) do with a Stream, and what package stream does with the transcript digests.\n")
	w.WriteString("   Keys are function / method / field names; no positions, no order, no local names. *)\n")
	w.WriteString("From Coq Require Import List String.\nImport ListNotations.\nOpen Scope string_scope.\n\n")
	w.WriteString("(* handshake packages: (function, Stream method called) *)\n")
	writeList(w, "stream_calls", "string * string", hf.streamCalls.sorted(), tuple)
	w.WriteString("(* handshake packages + message: (function, StreamInterface method called) *)\n")
	writeList(w, "iface_calls", "string * string", hf.ifaceCalls.sorted(), tuple)
	w.WriteString("(* handshake packages: (function, static type of a value converted to message.StreamInterface) *)\n")
	writeList(w, "iface_values", "string * string", hf.ifaceValues.sorted(), tuple)
	w.WriteString("(* handshake packages: (function, callee outside the scanned packages that is handed a Stream) *)\n")
	writeList(w, "stream_escapes", "string * string", hf.escapes.sorted(), tuple)
	w.WriteString("(* handshake packages: (function, what is done with the result of GetConnection()) *)\n")
	writeList(w, "conn_uses", "string * string", hf.connUses.sorted(), tuple)
	w.WriteString("(* handshake packages: (function, I/O call, static type of the connection-like value) *)\n")
	writeList(w, "raw_io", "string * string * string", hf.rawIO.sorted(), tuple)
	w.WriteString("(* handshake packages: (function, construction of a Stream / of digest state other than stream.NewStream) *)\n")
	writeList(w, "digest_ctor", "string * string", hf.ctor.sorted(), tuple)
	w.WriteString("(* handshake packages: (function, one | several) calls of stream.NewStream: a fresh Stream is a fresh digest state *)\n")
	writeList(w, "new_streams", "string * string", hf.newStreams.sorted(), tuple)
	w.WriteString("(* handshake packages: (function, field) every store of a Stream into a struct field *)\n")
	writeList(w, "stream_stores", "string * string", hf.stores.sorted(), tuple)
	w.WriteString("(* handshake packages: (function calling FinalizeDigests, stream-affecting calls that can follow it there) *)\n")
	writeList(w, "finalize_sites", "string * list string", hf.finalize.sorted(), func(r []string) string {
		return "(" + q(r[0]) + ", " + strList(r[1]) + ")"
	})
	w.WriteString("(* package stream: (function, digest field, kind of access) *)\n")
	writeList(w, "digest_touch", "string * string * string", sf.touch.sorted(), tuple)
	w.WriteString("(* package stream: (function, digest field, what is hashed, classes of the conditions around the update) *)\n")
	writeList(w, "digest_guards", "string * string * string * list string", sf.guards.sorted(), func(r []string) string {
		return "(" + q(r[0]) + ", " + q(r[1]) + ", " + q(r[2]) + ", " + strList(r[3]) + ")"
	})
	w.WriteString("(* package stream: (function, read | write = calls readWithContext | writeWithContext; raw-* = touches the connection itself) *)\n")
	writeList(w, "transport_io", "string * string", sf.tio.sorted(), tuple)
	w.WriteString("(* package stream: (function doing transport I/O, digest of that direction, hashed | unhashed) per success return *)\n")
	writeList(w, "success_paths", "string * string * string", sf.succ.sorted(), tuple)
	w.WriteString("(* package stream: (method of Stream, transport-I/O functions it reaches; <self> = it is one) *)\n")
	var rrows [][]string
	for _, m := range sf.methods {
		rrows = append(rrows, []string{m, strings.Join(sf.reaches[m], ",")})
	}
	writeList(w, "reaches", "string * list string", rrows, func(r []string) string {
		return "(" + q(r[0]) + ", " + strList(r[1]) + ")"
	})
	return nil
}
