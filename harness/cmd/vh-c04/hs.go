package main

import "verifharness/core"

type hsCase struct {
	Shape string `json:"shape"`
	Dir   string `json:"dir"`
	Kind  string `json:"kind"`
	Off   int    `json:"off"`
	Xor   int    `json:"xor"`
}

func part2(c *core.Ctx)       {}
func runHS(h *hsCase) error { return nil }
