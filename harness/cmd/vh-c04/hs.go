package main

// Part 2 of vh-c04: real ClientHandshake / ServerHandshake through an editing relay.

import (
	"context"
	"fmt"
	"io"
	"os"
	"sync"
	"time"

	"verifharness/core"
	"verifharness/peer"
	ss "verifharness/streamsim"

	"github.com/bbockelm/cedar/security"
	"github.com/bbockelm/cedar/stream"
)

type hsCase struct {
	Shape string `json:"shape"` // noauth claimtobe fs token resumed
	Dir   string `json:"dir"`   // c2s s2c
	Kind  string `json:"kind"`  // none flip insert0 insert1 drop split
	Frame int    `json:"frame"` // index of the frame (per direction) the edit applies to
	Off   int    `json:"off"`   // flip: byte offset inside the frame (header included)
	Xor   int    `json:"xor"`
}

// relay forwards frames between two in-memory pipes, editing one direction.
type relay struct {
	c       hsCase
	changed bool
	mu      sync.Mutex
	frames  map[string][][]byte // original frames seen per direction
}

func (r *relay) pump(dir string, src, dst *peer.Conn, wg *sync.WaitGroup) {
	defer wg.Done()
	defer dst.Close()
	idx := 0
	for {
		hdr := make([]byte, 5)
		if _, err := io.ReadFull(src, hdr); err != nil {
			return
		}
		n := int(uint32(hdr[1])<<24 | uint32(hdr[2])<<16 | uint32(hdr[3])<<8 | uint32(hdr[4]))
		if n > 4<<20 {
			return
		}
		body := make([]byte, n)
		if _, err := io.ReadFull(src, body); err != nil {
			return
		}
		fr := append(hdr, body...)
		r.mu.Lock()
		r.frames[dir] = append(r.frames[dir], append([]byte(nil), fr...))
		r.mu.Unlock()
		out := [][]byte{fr}
		if dir == r.c.Dir && idx == r.c.Frame {
			switch r.c.Kind {
			case "flip":
				if r.c.Off < len(fr) {
					m := append([]byte(nil), fr...)
					m[r.c.Off] ^= byte(r.c.Xor)
					out = [][]byte{m}
					r.changed = true
				}
			case "insert0":
				out = [][]byte{{0, 0, 0, 0, 0}, fr}
				r.changed = true
			case "insert1":
				out = [][]byte{{1, 0, 0, 0, 0}, fr}
				r.changed = true
			case "drop":
				out = nil
				r.changed = true
			case "split":
				if n >= 2 {
					h := n / 2
					a := ss.RawFrame{Flag: 0, Len: uint32(h), Body: body[:h]}.Bytes()
					b := ss.RawFrame{Flag: hdr[0], Len: uint32(n - h), Body: body[h:]}.Bytes()
					out = [][]byte{a, b}
					r.changed = true
				}
			}
		}
		for _, o := range out {
			if _, err := dst.Write(o); err != nil {
				return
			}
		}
		idx++
	}
}

type endpoints struct {
	ccfg, scfg *security.SecurityConfig
}

var tokWorld *peer.TokenWorld

func world() *peer.TokenWorld {
	if tokWorld == nil {
		w, err := peer.NewTokenWorld("verif.local")
		if err != nil {
			panic(err)
		}
		tokWorld = w
	}
	return tokWorld
}

func mkEndpoints(shape string) *endpoints {
	p := peer.Policy{Auth: "NEVER", Enc: "REQUIRED", Integ: "REQUIRED", Methods: []string{"CLAIMTOBE"}, Ciphers: []string{"AES"}, Command: 60007}
	if shape != "noauth" {
		p.Auth = "REQUIRED"
	}
	switch shape {
	case "fs":
		p.Methods = []string{"FS"}
	case "token":
		p.Methods = []string{"TOKEN"}
	}
	e := &endpoints{ccfg: p.Config(), scfg: p.Config()}
	if shape == "token" {
		e.ccfg = world().Client(e.ccfg)
		e.scfg = world().Server(e.scfg)
	}
	return e
}

type hsOutcome struct {
	cli, srv    peer.Result
	changed     bool
	c2sAccepted bool // every application message client->server was delivered, in order
	s2cAccepted bool
	c2sGot      int  // application messages the server accepted (reading on after refusals)
	s2cGot      int
	c2sLate     bool // one was accepted AFTER an earlier one had been refused
	s2cLate     bool
	clearFrames map[string]int // cleartext frames per direction (baseline runs)
	frameLens   map[string][]int
	resumed     bool
}

// one connection through the relay
func connect(e *endpoints, c hsCase) hsOutcome {
	cA, rA, _ := peer.Pipe()
	rB, sB, _ := peer.Pipe()
	r := &relay{c: c, frames: map[string][][]byte{}}
	var wg sync.WaitGroup
	wg.Add(2)
	go r.pump("c2s", rA, rB, &wg)
	go r.pump("s2c", rB, rA, &wg)
	var out hsOutcome
	var hw sync.WaitGroup
	hw.Add(2)
	go func() {
		defer hw.Done()
		out.srv = peer.RunServer(sB, e.scfg)
		// a failure BEFORE the key was installed ends the connection at once (that is also what
		// releases the peer); after it, the stream stays open: its owner may read on
		if out.srv.Err != nil && (out.srv.Stream == nil || !out.srv.Stream.IsEncrypted()) {
			sB.Close()
		}
	}()
	go func() {
		defer hw.Done()
		out.cli = peer.RunClient(cA, e.ccfg)
		if out.cli.Err != nil && (out.cli.Stream == nil || !out.cli.Stream.IsEncrypted()) {
			cA.Close()
		}
	}()
	hw.Wait()
	// application phase: three messages each way; the receiver reads on after a refusal. It runs
	// towards every endpoint whose key is installed - also one whose own handshake then failed
	// (its first protected frame, the post-authentication ad, was refused): such an endpoint
	// must not accept anything later either.
	if out.cli.Stream != nil && out.srv.Stream != nil {
		if out.srv.Stream.IsEncrypted() {
			out.c2sGot, out.c2sLate = exchange(out.cli.Stream, out.srv.Stream, "application c2s")
			out.c2sAccepted = out.c2sGot == nApp && out.cli.Err == nil && out.srv.Err == nil
		}
		if out.cli.Stream.IsEncrypted() {
			out.s2cGot, out.s2cLate = exchange(out.srv.Stream, out.cli.Stream, "application s2c")
			out.s2cAccepted = out.s2cGot == nApp && out.cli.Err == nil && out.srv.Err == nil
		}
	}
	cA.Close()
	sB.Close()
	wg.Wait()
	out.changed = r.changed
	// classify frames of this run: cleartext until the first frame the session key opens
	out.clearFrames = map[string]int{}
	out.frameLens = map[string][]int{}
	key := out.cli.Key
	for _, dir := range []string{"c2s", "s2c"} {
		n := 0
		for _, fr := range r.frames[dir] {
			out.frameLens[dir] = append(out.frameLens[dir], len(fr))
		}
		if len(key) == 32 {
			d := ss.NewDir(key)
			other := ss.NewDir(key)
			// feed the cleartext of BOTH directions in wire order is not needed to find the first
			// protected frame: try to open each frame as a first frame with every digest combination
			// is overkill; a protected frame is recognised by its length pattern instead: it cannot be
			// parsed as a cleartext handshake message. We use the simple rule: frames before the
			// server's post-auth ad / the first application message are cleartext.
			_ = d
			_ = other
		}
		_ = n
	}
	return out
}

const nApp = 3

// exchange: `from` sends nApp application messages, `to` issues nApp whole-message reads and
// goes on after a refused one. Returns how many it accepted and whether one was accepted after
// an earlier refusal. Only messages equal to what was sent, in order, count as "accepted in
// order"; any OTHER accepted payload counts too (got) - nothing at all may come through.
func exchange(from, to *stream.Stream, tag string) (got int, late bool) {
	ctx, cancel := context.WithTimeout(context.Background(), peer.Timeout*3/4)
	defer cancel()
	type res struct {
		got  int
		late bool
	}
	done := make(chan res, 1)
	go func() {
		var r res
		refused := false
		for i := 0; i < nApp; i++ {
			if ctx.Err() != nil {
				break
			}
			m, err := to.ReceiveCompleteMessage(ctx)
			if err != nil {
				refused = true
				continue
			}
			_ = m
			r.got++
			if refused {
				r.late = true
			}
		}
		done <- r
	}()
	for i := 0; i < nApp; i++ {
		if err := from.SendMessage(ctx, []byte(fmt.Sprintf("%s %d", tag, i))); err != nil {
			cancel()
			break
		}
	}
	select {
	case r := <-done:
		return r.got, r.late
	case <-time.After(peer.Timeout):
		return 0, false
	}
}

// Safety-net timeouts (never an oracle): a run whose relay removed bytes stalls until the
// timeout, so the tampered runs use a short one; runs that must SUCCEED (the untampered baseline
// of a shape, the re-run of an unexpected failure) get a long one, so that a loaded machine or a
// slow /tmp (FS creates and checks a directory) cannot turn into a false "clean run failed".
const (
	stallTimeout = 900 * time.Millisecond
	calmTimeout  = 20 * time.Second
)

// runShape performs the connection(s) of a shape with edit c applied to the LAST connection.
func runShape(c hsCase) (hsOutcome, error) {
	e := mkEndpoints(c.Shape)
	if c.Shape == "resumed" {
		first := connect(e, hsCase{Kind: "none"})
		if first.cli.Err != nil || first.srv.Err != nil {
			return first, fmt.Errorf("establishing handshake failed: %v / %v", first.cli.Err, first.srv.Err)
		}
	}
	out := connect(e, c)
	return out, nil
}

func runHS(h *hsCase) error {
	out, err := runShape(*h)
	if err != nil {
		return err
	}
	if !out.changed {
		if out.cli.Err != nil || out.srv.Err != nil || !out.c2sAccepted || !out.s2cAccepted {
			return fmt.Errorf("untampered %s handshake or exchange failed: cli=%v srv=%v c2s=%v s2c=%v", h.Shape, out.cli.Err, out.srv.Err, out.c2sAccepted, out.s2cAccepted)
		}
		return nil
	}
	if out.c2sGot > 0 || out.s2cGot > 0 {
		msg := fmt.Sprintf("%s: relay altered cleartext (%s frame %d %s off %d xor %#x) yet application data was accepted (c2s %d of %d, s2c %d of %d; client handshake err=%v, server handshake err=%v)", h.Shape, h.Dir, h.Frame, h.Kind, h.Off, h.Xor, out.c2sGot, nApp, out.s2cGot, nApp, out.cli.Err != nil, out.srv.Err != nil)
		if out.c2sLate || out.s2cLate || out.cli.Err != nil || out.srv.Err != nil {
			return &oracleErr{"data-after-tamper-reading-on", msg + ": a receiver that read on after a refused protected frame accepted a later one"}
		}
		return fmt.Errorf("%s", msg)
	}
	return nil
}

// number of cleartext frames per direction for each shape: everything the endpoints exchange
// before the server's post-authentication ad (the first protected frame server->client) and
// before the client's first application message. Determined from an untampered run: the
// protected frames are the LAST frame(s) of each direction.
func part2(c *core.Ctx) {
	peer.Quiet()
	saved0 := peer.Timeout
	defer func() { peer.Timeout = saved0 }()
	defer func() {
		if tokWorld != nil {
			tokWorld.Cleanup()
			tokWorld = nil
		}
	}()
	// cedar's FS method prints a line per refused / vanished directory: keep the generator's stdout clean
	if devnull, err := os.OpenFile(os.DevNull, os.O_WRONLY, 0); err == nil {
		saved := os.Stdout
		os.Stdout = devnull
		defer func() { os.Stdout = saved; devnull.Close() }()
	}
	for _, shape := range []string{"noauth", "claimtobe", "fs", "token", "resumed"} {
		peer.Timeout = calmTimeout
		base, err := runShape(hsCase{Shape: shape, Kind: "none"})
		peer.Timeout = stallTimeout
		c.OracleCheck()
		c.Evaluated(1)
		if err != nil || base.cli.Err != nil || base.srv.Err != nil || !base.c2sAccepted || !base.s2cAccepted {
			c.OracleFail("clean-run-failed", fmt.Sprintf("untampered %s run failed: %v cli=%v srv=%v c2s=%v s2c=%v", shape, err, base.cli.Err, base.srv.Err, base.c2sAccepted, base.s2cAccepted),
				&desc{Part: 2, HS: &hsCase{Shape: shape, Kind: "none"}})
			continue
		}
		if !base.cli.Encrypted || !base.srv.Encrypted {
			c.OracleFail("clean-run-not-encrypted", shape+": session not encrypted; shape unusable", &desc{Part: 2, HS: &hsCase{Shape: shape, Kind: "none"}})
			continue
		}
		// protected frames at the tail: s2c: post-auth ad (full handshakes only) + 1 app message;
		// c2s: 1 app message. On a resumed session the server sends no cleartext at all or a short reply.
		tail := map[string]int{"c2s": nApp, "s2c": nApp + 1}
		if shape == "resumed" {
			tail["s2c"] = nApp
		}
		c.Note(fmt.Sprintf("part 2 %s: frames c2s=%v s2c=%v (last %d/%d protected)", shape, base.frameLens["c2s"], base.frameLens["s2c"], tail["c2s"], tail["s2c"]))
		stride := 1
		if c.Quick() {
			stride = 9
		}
		xors := []int{0x01, 0x80}
		if c.Quick() {
			xors = []int{0x01}
		}
		var jobs []hsCase
		try := func(h hsCase) { jobs = append(jobs, h) }
		runJobs := func() {
			// the runs of a shape are independent (own pipes, own configs and caches): four at a time.
			// Most of a run's wall time is the 900 ms a stalled handshake waits for bytes the relay
			// removed. Results are reported in generation order.
			errs := make([]error, len(jobs))
			var wg sync.WaitGroup
			next := make(chan int)
			for w := 0; w < 4; w++ {
				wg.Add(1)
				go func() {
					defer wg.Done()
					for i := range next {
						errs[i] = runHS(&jobs[i])
					}
				}()
			}
			for i := range jobs {
				next <- i
			}
			close(next)
			wg.Wait()
			for i := range jobs {
				h := jobs[i]
				c.OracleCheck()
				c.Evaluated(1)
				err := errs[i]
				if _, keyed := err.(*oracleErr); err != nil && !keyed {
					// re-run alone and unhurried before reporting: the property is deterministic, a real failure reproduces
					peer.Timeout = calmTimeout
					err = runHS(&h)
					peer.Timeout = stallTimeout
				}
				if err != nil {
					c.OracleFail(keyOf(err, "binding-e2e"), err.Error(), &desc{Part: 2, HS: &h})
				}
				c.Nontrivial(fmt.Sprint(h))
				c.Count("hs-" + shape + "-" + h.Kind)
			}
		}
		for _, dir := range []string{"c2s", "s2c"} {
			nclear := len(base.frameLens[dir]) - tail[dir]
			for fi := 0; fi < nclear; fi++ {
				flen := base.frameLens[dir][fi]
				start := (fi*7 + len(shape)) % stride
				for off := start; off < flen; off += stride {
					for _, x := range xors {
						try(hsCase{Shape: shape, Dir: dir, Kind: "flip", Frame: fi, Off: off, Xor: x})
					}
				}
				// header bytes always (end flag and length field)
				for off := 0; off < 5 && stride > 1; off++ {
					try(hsCase{Shape: shape, Dir: dir, Kind: "flip", Frame: fi, Off: off, Xor: 0x01})
				}
				try(hsCase{Shape: shape, Dir: dir, Kind: "insert0", Frame: fi})
				try(hsCase{Shape: shape, Dir: dir, Kind: "insert1", Frame: fi})
				try(hsCase{Shape: shape, Dir: dir, Kind: "split", Frame: fi})
				if !c.Quick() || fi == 0 {
					try(hsCase{Shape: shape, Dir: dir, Kind: "drop", Frame: fi})
				}
			}
		}
		runJobs()
		c.Sample(map[string]interface{}{"part": 2, "shape": shape, "frames_c2s": base.frameLens["c2s"], "frames_s2c": base.frameLens["s2c"]})
	}
}
