package main

// Part 2 of vh-c04: real ClientHandshake / ServerHandshake through an editing relay.

import (
	"bytes"
	"context"
	"fmt"
	"io"
	"sync"
	"time"

	"verifharness/core"
	"verifharness/peer"
	ss "verifharness/streamsim"

	"github.com/bbockelm/cedar/security"
	"github.com/bbockelm/cedar/stream"
)

type hsCase struct {
	Shape string `json:"shape"` // noauth claimtobe resumed
	Dir   string `json:"dir"`   // c2s s2c
	Kind  string `json:"kind"`  // none flip insert0 insert1 drop split
	Frame int    `json:"frame"` // index of the frame (per direction) the edit applies to
	Off   int    `json:"off"`   // flip: byte offset inside the frame (header included)
	Xor   int    `json:"xor"`
}

// relay forwards frames between two in-memory pipes, editing one direction.
type relay struct {
	c       hsCase
	changed bool
	mu      sync.Mutex
	frames  map[string][][]byte // original frames seen per direction
}

func (r *relay) pump(dir string, src, dst *peer.Conn, wg *sync.WaitGroup) {
	defer wg.Done()
	defer dst.Close()
	idx := 0
	for {
		hdr := make([]byte, 5)
		if _, err := io.ReadFull(src, hdr); err != nil {
			return
		}
		n := int(uint32(hdr[1])<<24 | uint32(hdr[2])<<16 | uint32(hdr[3])<<8 | uint32(hdr[4]))
		if n > 4<<20 {
			return
		}
		body := make([]byte, n)
		if _, err := io.ReadFull(src, body); err != nil {
			return
		}
		fr := append(hdr, body...)
		r.mu.Lock()
		r.frames[dir] = append(r.frames[dir], append([]byte(nil), fr...))
		r.mu.Unlock()
		out := [][]byte{fr}
		if dir == r.c.Dir && idx == r.c.Frame {
			switch r.c.Kind {
			case "flip":
				if r.c.Off < len(fr) {
					m := append([]byte(nil), fr...)
					m[r.c.Off] ^= byte(r.c.Xor)
					out = [][]byte{m}
					r.changed = true
				}
			case "insert0":
				out = [][]byte{{0, 0, 0, 0, 0}, fr}
				r.changed = true
			case "insert1":
				out = [][]byte{{1, 0, 0, 0, 0}, fr}
				r.changed = true
			case "drop":
				out = nil
				r.changed = true
			case "split":
				if n >= 2 {
					h := n / 2
					a := ss.RawFrame{Flag: 0, Len: uint32(h), Body: body[:h]}.Bytes()
					b := ss.RawFrame{Flag: hdr[0], Len: uint32(n - h), Body: body[h:]}.Bytes()
					out = [][]byte{a, b}
					r.changed = true
				}
			}
		}
		for _, o := range out {
			if _, err := dst.Write(o); err != nil {
				return
			}
		}
		idx++
	}
}

type endpoints struct {
	ccfg, scfg *security.SecurityConfig
}

func mkEndpoints(shape string) *endpoints {
	p := peer.Policy{Auth: "NEVER", Enc: "REQUIRED", Integ: "REQUIRED", Methods: []string{"CLAIMTOBE"}, Ciphers: []string{"AES"}, Command: 60007}
	if shape != "noauth" {
		p.Auth = "REQUIRED"
	}
	e := &endpoints{ccfg: p.Config(), scfg: p.Config()}
	return e
}

type hsOutcome struct {
	cli, srv    peer.Result
	changed     bool
	c2sAccepted bool
	s2cAccepted bool
	clearFrames map[string]int // cleartext frames per direction (baseline runs)
	frameLens   map[string][]int
	resumed     bool
}

// one connection through the relay
func connect(e *endpoints, c hsCase) hsOutcome {
	old := peer.Timeout
	peer.Timeout = 900 * time.Millisecond
	defer func() { peer.Timeout = old }()
	cA, rA, _ := peer.Pipe()
	rB, sB, _ := peer.Pipe()
	r := &relay{c: c, frames: map[string][][]byte{}}
	var wg sync.WaitGroup
	wg.Add(2)
	go r.pump("c2s", rA, rB, &wg)
	go r.pump("s2c", rB, rA, &wg)
	var out hsOutcome
	var hw sync.WaitGroup
	hw.Add(2)
	go func() {
		defer hw.Done()
		out.srv = peer.RunServer(sB, e.scfg)
		if out.srv.Err != nil {
			sB.Close()
		}
	}()
	go func() {
		defer hw.Done()
		out.cli = peer.RunClient(cA, e.ccfg)
		if out.cli.Err != nil {
			cA.Close()
		}
	}()
	hw.Wait()
	if out.cli.Err == nil && out.srv.Err == nil && out.cli.Stream != nil && out.srv.Stream != nil {
		out.c2sAccepted = exchange(out.cli.Stream, out.srv.Stream, []byte("application c2s"))
		out.s2cAccepted = exchange(out.srv.Stream, out.cli.Stream, []byte("application s2c"))
	}
	cA.Close()
	sB.Close()
	wg.Wait()
	out.changed = r.changed
	// classify frames of this run: cleartext until the first frame the session key opens
	out.clearFrames = map[string]int{}
	out.frameLens = map[string][]int{}
	key := out.cli.Key
	for _, dir := range []string{"c2s", "s2c"} {
		n := 0
		for _, fr := range r.frames[dir] {
			out.frameLens[dir] = append(out.frameLens[dir], len(fr))
		}
		if len(key) == 32 {
			d := ss.NewDir(key)
			other := ss.NewDir(key)
			// feed the cleartext of BOTH directions in wire order is not needed to find the first
			// protected frame: try to open each frame as a first frame with every digest combination
			// is overkill; a protected frame is recognised by its length pattern instead: it cannot be
			// parsed as a cleartext handshake message. We use the simple rule: frames before the
			// server's post-auth ad / the first application message are cleartext.
			_ = d
			_ = other
		}
		_ = n
	}
	return out
}

func exchange(from, to *stream.Stream, msg []byte) bool {
	ctx, cancel := context.WithTimeout(context.Background(), 700*time.Millisecond)
	defer cancel()
	done := make(chan bool, 1)
	go func() {
		got, err := to.ReceiveCompleteMessage(ctx)
		done <- err == nil && bytes.Equal(got, msg)
	}()
	if err := from.SendMessage(ctx, msg); err != nil {
		return false
	}
	select {
	case ok := <-done:
		return ok
	case <-time.After(900 * time.Millisecond):
		return false
	}
}

// runShape performs the connection(s) of a shape with edit c applied to the LAST connection.
func runShape(c hsCase) (hsOutcome, error) {
	e := mkEndpoints(c.Shape)
	if c.Shape == "resumed" {
		first := connect(e, hsCase{Kind: "none"})
		if first.cli.Err != nil || first.srv.Err != nil {
			return first, fmt.Errorf("establishing handshake failed: %v / %v", first.cli.Err, first.srv.Err)
		}
	}
	out := connect(e, c)
	return out, nil
}

func runHS(h *hsCase) error {
	out, err := runShape(*h)
	if err != nil {
		return err
	}
	if !out.changed {
		if out.cli.Err != nil || out.srv.Err != nil || !out.c2sAccepted || !out.s2cAccepted {
			return fmt.Errorf("untampered %s handshake or exchange failed: cli=%v srv=%v c2s=%v s2c=%v", h.Shape, out.cli.Err, out.srv.Err, out.c2sAccepted, out.s2cAccepted)
		}
		return nil
	}
	if out.c2sAccepted || out.s2cAccepted {
		return fmt.Errorf("%s: relay altered cleartext (%s frame %d %s off %d xor %#x) yet application data was accepted (c2s=%v s2c=%v)", h.Shape, h.Dir, h.Frame, h.Kind, h.Off, h.Xor, out.c2sAccepted, out.s2cAccepted)
	}
	return nil
}

// number of cleartext frames per direction for each shape: everything the endpoints exchange
// before the server's post-authentication ad (the first protected frame server->client) and
// before the client's first application message. Determined from an untampered run: the
// protected frames are the LAST frame(s) of each direction.
func part2(c *core.Ctx) {
	peer.Quiet()
	for _, shape := range []string{"noauth", "claimtobe", "resumed"} {
		base, err := runShape(hsCase{Shape: shape, Kind: "none"})
		c.OracleCheck()
		c.Evaluated(1)
		if err != nil || base.cli.Err != nil || base.srv.Err != nil || !base.c2sAccepted || !base.s2cAccepted {
			c.OracleFail("clean-run-failed", fmt.Sprintf("untampered %s run failed: %v cli=%v srv=%v c2s=%v s2c=%v", shape, err, base.cli.Err, base.srv.Err, base.c2sAccepted, base.s2cAccepted),
				&desc{Part: 2, HS: &hsCase{Shape: shape, Kind: "none"}})
			continue
		}
		if !base.cli.Encrypted || !base.srv.Encrypted {
			c.OracleFail("clean-run-not-encrypted", shape+": session not encrypted; shape unusable", &desc{Part: 2, HS: &hsCase{Shape: shape, Kind: "none"}})
			continue
		}
		// protected frames at the tail: s2c: post-auth ad (full handshakes only) + 1 app message;
		// c2s: 1 app message. On a resumed session the server sends no cleartext at all or a short reply.
		tail := map[string]int{"c2s": 1, "s2c": 2}
		if shape == "resumed" {
			tail["s2c"] = 1
		}
		c.Note(fmt.Sprintf("part 2 %s: frames c2s=%v s2c=%v (last %d/%d protected)", shape, base.frameLens["c2s"], base.frameLens["s2c"], tail["c2s"], tail["s2c"]))
		stride := 1
		if c.Quick() {
			stride = 9
		}
		xors := []int{0x01, 0x80}
		if c.Quick() {
			xors = []int{0x01}
		}
		try := func(h hsCase) {
			c.OracleCheck()
			c.Evaluated(1)
			if err := runHS(&h); err != nil {
				c.OracleFail("binding-e2e", err.Error(), &desc{Part: 2, HS: &h})
			}
			c.Nontrivial(fmt.Sprint(h))
			c.Count("hs-" + shape + "-" + h.Kind)
		}
		for _, dir := range []string{"c2s", "s2c"} {
			nclear := len(base.frameLens[dir]) - tail[dir]
			for fi := 0; fi < nclear; fi++ {
				flen := base.frameLens[dir][fi]
				start := (fi*7 + len(shape)) % stride
				for off := start; off < flen; off += stride {
					for _, x := range xors {
						try(hsCase{Shape: shape, Dir: dir, Kind: "flip", Frame: fi, Off: off, Xor: x})
					}
				}
				// header bytes always (end flag and length field)
				for off := 0; off < 5 && stride > 1; off++ {
					try(hsCase{Shape: shape, Dir: dir, Kind: "flip", Frame: fi, Off: off, Xor: 0x01})
				}
				try(hsCase{Shape: shape, Dir: dir, Kind: "insert0", Frame: fi})
				try(hsCase{Shape: shape, Dir: dir, Kind: "insert1", Frame: fi})
				try(hsCase{Shape: shape, Dir: dir, Kind: "split", Frame: fi})
				if !c.Quick() || fi == 0 {
					try(hsCase{Shape: shape, Dir: dir, Kind: "drop", Frame: fi})
				}
			}
		}
		c.Sample(map[string]interface{}{"part": 2, "shape": shape, "frames_c2s": base.frameLens["c2s"], "frames_s2c": base.frameLens["s2c"]})
	}
}
