// vh-c04: correspondence + oracle for C04 (the cleartext handshake is bound into the secure channel).
//
// Part 1 (model correspondence): two real Streams exchange cleartext frames through an editing
// relay (the harness), install the same key, then exchange the first protected frames; the Coq
// model predicts exactly which first frames authenticate.
// Part 2 (end-to-end oracle): real ClientHandshake / ServerHandshake through a byte- and
// frame-editing relay; after any edit of the cleartext negotiation no application message may
// be accepted by either endpoint.
package main

import (
	"bytes"
	"encoding/json"
	"fmt"
	"time"

	"verifharness/core"
	"verifharness/peer"
	ss "verifharness/streamsim"
)

var key = bytes.Repeat([]byte{0x24}, 32)

type desc struct {
	Part  int     `json:"part"`
	Case  ss.Case `json:"case"`
	Edit  string  `json:"edit"`
	Clean bool    `json:"clean"` // relay changed no byte in either direction
	Mode  int     `json:"mode,omitempty"` // 0: one protected message each way; 1/2: three, the receiver reads on after a refusal (frame reads / ReceiveCompleteMessage)
	HS    *hsCase `json:"hs,omitempty"`
}

func wire(flag int, d []byte) []byte {
	return ss.RawFrame{Flag: byte(flag), Len: uint32(len(d)), Body: d}.Bytes()
}

func cleanOf(sent []ss.Data, seen []ss.SeenFrame) bool {
	var a, b []byte
	for _, d := range sent {
		a = append(a, wire(1, d.Bytes())...)
	}
	for _, f := range seen {
		b = append(b, wire(f.Flag, f.D.Bytes())...)
	}
	return bytes.Equal(a, b)
}

func asSeen(sent []ss.Data) []ss.SeenFrame {
	var out []ss.SeenFrame
	for _, d := range sent {
		out = append(out, ss.SeenFrame{Flag: 1, D: d})
	}
	return out
}

// appMsgs are the protected application messages a sender emits once the key is installed.
var appMsgs = [][]byte{[]byte("application data"), []byte("second message"), []byte("third")}

// firstFrames: the protected phases that follow the key installation.
//
//	mode 0: one message each way, read with ReceiveCompleteMessage (the first protected frame)
//	mode 1: three messages, the receiver issues four frame reads and KEEPS READING after a
//	        failure (ReceiveFrameWithEnd): after a refused first frame nothing later may open
//	mode 2: the same with ReceiveCompleteMessage as the reader
func firstFrames(mode int) []ss.Step {
	ph := func(a bool) ss.Step {
		if mode == 0 {
			m := ss.Msg{Kind: "direct", Chunks: []ss.Data{ss.Lit(appMsgs[0])}}
			return ss.Step{Kind: "phase", ASends: a, SOps: m.SOps(), ROps: []ss.ROp{{Op: "complete"}}}
		}
		st := ss.Step{Kind: "phase", ASends: a, ReadOn: true}
		api := "framewe"
		if mode == 2 {
			api = "complete"
		}
		for _, b := range appMsgs {
			m := ss.Msg{Kind: "direct", Chunks: []ss.Data{ss.Lit(b)}}
			st.SOps = append(st.SOps, m.SOps()...)
			st.ROps = append(st.ROps, ss.ROp{Op: api})
		}
		st.ROps = append(st.ROps, ss.ROp{Op: api}) // one more read than frames sent
		return st
	}
	return []ss.Step{ph(true), ph(false)}
}

// keyed oracle failure
type oracleErr struct {
	key string
	msg string
}

func (e *oracleErr) Error() string { return e.msg }

func keyOf(err error, def string) string {
	if oe, ok := err.(*oracleErr); ok {
		return oe.key
	}
	return def
}

// oracle for part 1: after tampering NO protected message may be accepted, neither the first nor -
// when the receiver reads on after the refusal - any later one; an untampered run delivers every
// message in order (a relay that changes nothing must be harmless) and nothing else.
func check1(d *desc, obs *ss.Obs) error {
	if obs.SetupErr != nil {
		return nil // the cleartext phase itself failed: nothing was accepted
	}
	for i, po := range obs.Phases {
		if po == nil {
			continue
		}
		want := 1
		if d.Mode != 0 {
			want = len(appMsgs)
		}
		var got [][]byte
		firstRefused := false
		for ri, r := range po.RRes {
			if r.OK {
				got = append(got, r.Data)
			} else if ri == 0 {
				firstRefused = true
			}
		}
		if !d.Clean && len(got) > 0 {
			if firstRefused {
				return &oracleErr{"data-after-tamper-reading-on", fmt.Sprintf("edit %q: cleartext was altered in transit and the first protected frame of phase %d was refused, yet the receiver, reading on, accepted %d later message(s) (first: %q)", d.Edit, i, len(got), got[0])}
			}
			return fmt.Errorf("edit %q: cleartext was altered in transit, yet the first protected frame of phase %d authenticated and application data was accepted", d.Edit, i)
		}
		if d.Clean {
			if len(got) != want {
				return fmt.Errorf("edit %q (no byte changed): phase %d delivered %d of %d protected messages", d.Edit, i, len(got), want)
			}
			for j := range got {
				if !bytes.Equal(got[j], appMsgs[j]) {
					return fmt.Errorf("edit %q (no byte changed): phase %d message %d differs from what was sent", d.Edit, i, j)
				}
			}
		}
	}
	return nil
}

func run1(c *core.Ctx, d *desc) error {
	// each direction's first protected frame is tested in its own case (after a failure the model does not follow)
	for _, aFirst := range []bool{true, false} {
		cs := d.Case
		steps := firstFrames(d.Mode)
		if !aFirst {
			steps[0], steps[1] = steps[1], steps[0]
		}
		cs.Steps = steps
		obs, term := ss.Exec(&cs)
		if c != nil && obs.SetupErr == nil {
			dd := *d
			dd.Case = cs
			c.AddCase(term, &dd)
		}
		if err := check1(d, obs); err != nil {
			return err
		}
	}
	return nil
}

func gen(c *core.Ctx) error {
	c.Rule("part 1: cleartext messages each way between two real Streams through an editing relay (every byte of every payload altered in turn, end flag altered, frame dropped / duplicated / inserted incl. zero-length / split / merged / reordered, in either direction or both), then SetSymmetricKey on both and, each way, either the first protected frame or three protected messages with the receiver READING ON after a refusal (frame reads / ReceiveCompleteMessage, rotating), compared with the Coq model; part 2: real ClientHandshake/ServerHandshake (no authentication, CLAIMTOBE, FS, TOKEN, resumed session) through a relay that alters one byte of the cleartext transcript (every offset, stride in quick) or inserts/removes/splits a cleartext frame, then three application messages each way with the receiver reading on after a refusal - also on the stream of an endpoint whose own handshake failed after its key was installed; oracle: after any alteration no application message is accepted by either endpoint, first or later. non-trivial = run in which the relay altered the cleartext; distinct by (shape, edit)")
	k := 0
	try := func(d *desc) {
		k++
		c.OracleCheck()
		d.Clean = cleanOf(d.Case.Setup.PreAB, d.Case.Setup.SeenAB) && cleanOf(d.Case.Setup.PreBA, d.Case.Setup.SeenBA)
		d.Mode = k % 3
		if err := run1(c, d); err != nil {
			c.OracleFail(keyOf(err, "binding"), err.Error(), d)
		}
		c.Count(fmt.Sprintf("protected-phase-mode-%d", d.Mode))
		if !d.Clean {
			c.Nontrivial(fmt.Sprint(len(d.Case.Setup.PreAB), len(d.Case.Setup.PreBA), d.Edit))
		}
		c.Count("stream-" + editClass(d.Edit))
		if k%53 == 1 {
			c.Sample(map[string]interface{}{"part": 1, "edit": d.Edit, "sent_ab": len(d.Case.Setup.PreAB), "sent_ba": len(d.Case.Setup.PreBA)})
		}
	}
	shapes := [][2][]ss.Data{
		{{ss.Lit([]byte("client ad"))}, {ss.Lit([]byte("server ad"))}},
		{{ss.Lit([]byte("c1")), ss.Lit([]byte("c2-longer")), ss.Lit(nil)}, {ss.Lit([]byte("s1"))}},
		{{ss.Lit([]byte("only client speaks"))}, nil},
		{nil, {ss.Lit([]byte("only server speaks")), ss.Lit([]byte("x"))}},
		{nil, nil},
		// cleartext frames larger than 4 KiB and 8 KiB (a large token or certificate in the negotiation)
		{{ss.Lit([]byte("hello")), ss.Pay(3, 5000)}, {ss.Pay(9, 9001), ss.Lit([]byte("ok"))}},
	}
	for si, sh := range shapes {
		mkN := 0
		mk := func(edit string, seenAB, seenBA []ss.SeenFrame) *desc {
			// both ends also call SetConnection mid-negotiation / before the keys and FinalizeDigests
			// before the keys in a rotating subset of the cases: none of it may weaken the binding
			mkN++
			opts := []int{0, 1, 0, 2, 0, 4, 3, 0, 7, 5}[mkN%10]
			return &desc{Part: 1, Edit: edit, Case: ss.Case{Setup: ss.Setup{Kind: "relay", Key: key, PreAB: sh[0], SeenAB: seenAB, PreBA: sh[1], SeenBA: seenBA, RelayOpts: opts}}}
		}
		try(mk("none", asSeen(sh[0]), asSeen(sh[1])))
		for _, o := range []int{1, 2, 4, 7} {
			d := mk("none", asSeen(sh[0]), asSeen(sh[1]))
			d.Case.Setup.RelayOpts = o
			try(d)
		}
		for dir := 0; dir < 2; dir++ {
			sent := sh[dir]
			other := asSeen(sh[1-dir])
			put := func(edit string, seen []ss.SeenFrame) {
				if dir == 0 {
					try(mk(fmt.Sprintf("AB %s", edit), seen, other))
				} else {
					try(mk(fmt.Sprintf("BA %s", edit), other, seen))
				}
			}
			base := asSeen(sent)
			cp := func() []ss.SeenFrame { return append([]ss.SeenFrame(nil), base...) }
			for i := range base {
				b := base[i].D.Bytes()
				// every byte of the payload
				for pos := range b {
					if c.Quick() && si > 1 && pos%3 != 0 && len(b) <= 200 {
						continue
					}
					if len(b) > 200 { // large frames: the offsets around every 4 KiB boundary and both ends
						near := pos < 2 || pos >= len(b)-2
						for _, bd := range []int{1024, 4096, 8192} {
							if pos >= bd-1 && pos <= bd+1 {
								near = true
							}
						}
						if !near {
							continue
						}
					}
					m := append([]byte(nil), b...)
					m[pos] ^= 0x01
					e := cp()
					e[i] = ss.SeenFrame{Flag: 1, D: ss.Lit(m)}
					put(fmt.Sprintf("flip byte %d of message %d", pos, i), e)
				}
				// end flag
				for _, fl := range []int{0, 2, 10} {
					e := cp()
					e[i].Flag = fl
					put(fmt.Sprintf("flag %d on message %d", fl, i), e)
				}
				// drop / duplicate
				put(fmt.Sprintf("drop message %d", i), append(cp()[:i], cp()[i+1:]...))
				put(fmt.Sprintf("duplicate message %d", i), append(append(cp()[:i+1], base[i]), cp()[i+1:]...))
				// truncate / extend payload
				if len(b) > 0 {
					e := cp()
					e[i] = ss.SeenFrame{Flag: 1, D: ss.Lit(b[:len(b)-1])}
					put(fmt.Sprintf("truncate message %d", i), e)
				}
				e := cp()
				e[i] = ss.SeenFrame{Flag: 1, D: ss.Lit(append(append([]byte(nil), b...), 0))}
				put(fmt.Sprintf("extend message %d", i), e)
				// split into two frames (partial + final)
				if len(b) > 1 {
					e := append(append(cp()[:i], ss.SeenFrame{Flag: 0, D: ss.Lit(b[:1])}, ss.SeenFrame{Flag: 1, D: ss.Lit(b[1:])}), cp()[i+1:]...)
					put(fmt.Sprintf("split message %d", i), e)
				}
				// merge with the next
				if i+1 < len(base) {
					nb := append(append([]byte(nil), b...), base[i+1].D.Bytes()...)
					e := append(append(cp()[:i], ss.SeenFrame{Flag: 1, D: ss.Lit(nb)}), cp()[i+2:]...)
					put(fmt.Sprintf("merge messages %d,%d", i, i+1), e)
					e2 := cp()
					e2[i], e2[i+1] = e2[i+1], e2[i]
					put(fmt.Sprintf("swap messages %d,%d", i, i+1), e2)
				}
			}
			// insert frames at every position
			for p := 0; p <= len(base); p++ {
				for _, ins := range []ss.SeenFrame{{Flag: 1, D: ss.Lit(nil)}, {Flag: 0, D: ss.Lit(nil)}, {Flag: 1, D: ss.Lit([]byte("injected"))}} {
					e := append(append(cp()[:p], ins), cp()[p:]...)
					put(fmt.Sprintf("insert frame (flag %d, %d bytes) at %d", ins.Flag, len(ins.D.Bytes()), p), e)
				}
			}
		}
		// both directions edited consistently so that each side's own send and receive digests
		// coincide pairwise with ... the OTHER side's? (swap attack: hand each side what it sent)
		if len(sh[0]) > 0 && len(sh[1]) > 0 {
			try(mk("reflect: each side is handed its own cleartext", asSeen(sh[1]), asSeen(sh[0])))
		}
	}
	part2(c)
	return nil
}

func editClass(e string) string {
	for _, p := range []string{"none", "AB flip", "BA flip", "AB flag", "BA flag", "AB drop", "BA drop", "AB duplicate", "BA duplicate", "AB truncate", "BA truncate", "AB extend", "BA extend", "AB split", "BA split", "AB merge", "BA merge", "AB swap", "BA swap", "AB insert", "BA insert", "reflect"} {
		if len(e) >= len(p) && e[:len(p)] == p {
			return p
		}
	}
	return "other"
}

func replay(raw json.RawMessage) error {
	var d desc
	if err := json.Unmarshal(raw, &d); err != nil {
		return err
	}
	if d.Part == 2 && d.HS != nil {
		peer.Quiet()
		peer.Timeout = 5 * time.Second
		defer func() {
			if tokWorld != nil {
				tokWorld.Cleanup()
				tokWorld = nil
			}
		}()
		return runHS(d.HS)
	}
	d.Clean = cleanOf(d.Case.Setup.PreAB, d.Case.Setup.SeenAB) && cleanOf(d.Case.Setup.PreBA, d.Case.Setup.SeenBA)
	return run1(nil, &d)
}

func main() { core.MainWithFacts("C04", gen, replay, facts) }
