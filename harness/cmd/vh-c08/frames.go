// frames.go: one ad as explicit frames on a real stream, read by the FOUR real receivers
// (GetClassAdRaw, GetClassAd, SkipClassAdRaw, GetClassAdWithMaxSize at every cap), against the
// model receivers on the very same frames (Coq case CFrames).
//
//   - cap sweep: for a catalogue of ads every cap from 0 to total+3 (total = what the ad is charged)
//     goes through the real GetClassAdWithMaxSize; direct oracle capped-success-differs /
//     capped-refuses-fitting, independent of the model.
//   - scripted sender: the ad's bytes are produced by the real Message writer and handed to the real
//     Stream.WriteFrame in SMALL frames, cut at every position of a segment, the put_secret field
//     under the real crypto-for-secret toggle: length prefix and payload of the secret, marker and
//     secret, fall into different frames.
package main

import (
	"bytes"
	"context"
	"encoding/json"
	"fmt"
	"sort"
	"strings"

	"verifharness/core"

	"github.com/PelicanPlatform/classad/classad"
	"github.com/bbockelm/cedar/message"
)

type fitem struct {
	Secret bool   `json:"s"`
	Text   string `json:"t"` // the wire string "Name = value"
}

type fcase struct {
	Kind   string  `json:"kind"`   // "frames"
	Sender string  `json:"sender"` // ad | raw | rawbytes | script
	Opts   int     `json:"opts"`
	Attrs  []wattr `json:"attrs"` // ad / raw / rawbytes
	Items  []fitem `json:"items"` // script
	My     string  `json:"my"`
	Tg     string  `json:"tg"`
	Key    bool    `json:"key"`
	Enc    bool    `json:"enc"`
	Seg    int     `json:"seg"` // script: the segment that is cut (-1 none)
	Cut    []int   `json:"cut"` // script: cut positions inside that segment
	Sweep  bool    `json:"sweep"`
}

type sent struct {
	Wire    []byte
	Frames  []tframe
	Strings []string // every wire string of the ad in order (markers, secrets, the two type names)
	NSegs   int
	SegLen  []int
}

// segStream captures what the real Message writer produces in one string mode
type segStream struct {
	enc bool
	out []byte
}

func (s *segStream) ReadFrame(c context.Context) ([]byte, bool, error) { return nil, false, fmt.Errorf("write only") }
func (s *segStream) WriteFrame(c context.Context, data []byte, eom bool) error {
	s.out = append(s.out, data...)
	return nil
}
func (s *segStream) IsEncrypted() bool { return s.enc }

type seg struct {
	secret bool
	data   []byte
}

// the bytes of the scripted ad, segment by segment: a new segment wherever the sender has to toggle crypto
func scriptSegments(fc fcase) ([]seg, []string, error) {
	toggles := fc.Key && !fc.Enc
	var segs []seg
	var strs []string
	cur := &segStream{enc: fc.Enc}
	m := message.NewMessageForStream(cur)
	closeSeg := func(secret bool) error {
		if err := m.FlushFrame(ctx, false); err != nil {
			return err
		}
		if len(cur.out) > 0 {
			segs = append(segs, seg{secret, cur.out})
		}
		return nil
	}
	if err := m.PutInt(ctx, len(fc.Items)); err != nil {
		return nil, nil, err
	}
	for _, it := range fc.Items {
		if it.Secret {
			if err := m.PutString(ctx, message.SecretMarker); err != nil {
				return nil, nil, err
			}
			strs = append(strs, message.SecretMarker)
			if toggles {
				if err := closeSeg(false); err != nil {
					return nil, nil, err
				}
				cur = &segStream{enc: true}
				m = message.NewMessageForStream(cur)
				if err := m.PutString(ctx, it.Text); err != nil {
					return nil, nil, err
				}
				if err := closeSeg(true); err != nil {
					return nil, nil, err
				}
				cur = &segStream{enc: fc.Enc}
				m = message.NewMessageForStream(cur)
				strs = append(strs, it.Text)
				continue
			}
		}
		if err := m.PutString(ctx, it.Text); err != nil {
			return nil, nil, err
		}
		strs = append(strs, it.Text)
	}
	for _, s := range []string{fc.My, fc.Tg} {
		if err := m.PutString(ctx, s); err != nil {
			return nil, nil, err
		}
		strs = append(strs, s)
	}
	if err := m.PutInt(ctx, trailerInt); err != nil {
		return nil, nil, err
	}
	if err := m.PutString(ctx, trailerStr); err != nil {
		return nil, nil, err
	}
	if err := closeSeg(false); err != nil {
		return nil, nil, err
	}
	return segs, strs, nil
}

func sendFrames(fc fcase) (*sent, error) {
	out := &sent{}
	conn := &memConn{}
	rs := &recStream{s: newStream(conn, fc.Key, fc.Enc), conn: conn}
	if fc.Sender == "script" {
		segs, strs, err := scriptSegments(fc)
		if err != nil {
			return nil, err
		}
		out.Strings, out.NSegs = strs, len(segs)
		for i, sg := range segs {
			out.SegLen = append(out.SegLen, len(sg.data))
			pieces := [][]byte{sg.data}
			if i == fc.Seg {
				pieces = nil
				cuts := append([]int(nil), fc.Cut...)
				sort.Ints(cuts)
				last := 0
				for _, p := range cuts {
					if p <= last || p >= len(sg.data) {
						continue
					}
					pieces = append(pieces, sg.data[last:p])
					last = p
				}
				pieces = append(pieces, sg.data[last:])
			}
			if sg.secret {
				rs.PrepareCryptoForSecret()
			}
			for j, p := range pieces {
				if err := rs.WriteFrame(ctx, p, i == len(segs)-1 && j == len(pieces)-1); err != nil {
					return nil, err
				}
			}
			if sg.secret {
				rs.RestoreCryptoAfterSecret()
			}
		}
		out.Frames, out.Wire = rs.frames, append([]byte(nil), conn.wr.Bytes()...)
		return out, nil
	}
	m := message.NewMessageForStream(rs)
	switch fc.Sender {
	case "raw", "rawbytes":
		var exprs []string
		var bb [][]byte
		for _, a := range fc.Attrs {
			e := a.Name + " = " + a.Text
			exprs = append(exprs, e)
			bb = append(bb, []byte(e))
		}
		out.Strings = append(append([]string(nil), exprs...), fc.My, fc.Tg)
		var err error
		if fc.Sender == "raw" {
			err = m.PutClassAdRaw(ctx, exprs, fc.My, fc.Tg)
		} else {
			err = m.PutClassAdRawBytes(ctx, bb, fc.My, fc.Tg)
		}
		if err != nil {
			return nil, err
		}
	default:
		ad := classad.New()
		for _, a := range fc.Attrs {
			e, err := classad.ParseExpr(a.Text)
			if err != nil {
				return nil, fmt.Errorf("generator produced unparsable %q: %v", a.Text, err)
			}
			ad.InsertExpr(a.Name, e)
		}
		if fc.My != "" {
			_ = ad.Set("MyType", fc.My)
		}
		if fc.Tg != "" {
			_ = ad.Set("TargetType", fc.Tg)
		}
		optIn := fc.Opts&32 != 0 && fc.Opts&2 == 0
		if fc.Opts&4 != 0 {
			out.Strings = append(out.Strings, "ServerTime = 1699200000")
		}
		for _, n := range ad.GetAttributes() {
			e, _ := ad.Lookup(n)
			if classad.IsPrivateAttribute(n) {
				if !optIn {
					continue
				}
				if fc.Key && !fc.Enc {
					out.Strings = append(out.Strings, message.SecretMarker)
				}
			}
			out.Strings = append(out.Strings, n+" = "+e.String())
		}
		out.Strings = append(out.Strings, fc.My, fc.Tg)
		if err := m.PutClassAdWithOptions(ctx, ad, &message.PutClassAdConfig{Options: message.PutClassAdOptions(fc.Opts)}); err != nil {
			return nil, err
		}
	}
	if err := m.PutInt(ctx, trailerInt); err != nil {
		return nil, err
	}
	if err := m.PutString(ctx, trailerStr); err != nil {
		return nil, err
	}
	if err := m.FinishMessage(ctx); err != nil {
		return nil, err
	}
	out.Frames, out.Wire = rs.frames, append([]byte(nil), conn.wr.Bytes()...)
	return out, nil
}

// recvOne runs one receiver on a fresh real stream over the recorded bytes and then reads the
// sentinel the sender put behind the ad
func recvOne(fc fcase, wire []byte, f func(m *message.Message) error) (ok bool, err error) {
	defer func() {
		if r := recover(); r != nil {
			ok, err = false, fmt.Errorf("panic: %v", r)
		}
	}()
	pc := &memConn{rd: bytes.NewReader(wire)}
	rm := message.NewMessageFromStream(newStream(pc, fc.Key, fc.Enc))
	if err := f(rm); err != nil {
		return false, err
	}
	n, err := rm.GetInt(ctx)
	if err != nil || n != trailerInt {
		return false, fmt.Errorf("after the ad the next integer read is %d (%v), the sender wrote the sentinel %d: not the same bytes consumed", n, err, trailerInt)
	}
	s, err := rm.GetString(ctx)
	if err != nil || s != trailerStr {
		return false, fmt.Errorf("after the ad the trailer string reads %q (%v)", s, err)
	}
	return true, nil
}

// adDiff: two received ads attribute by attribute (expression text and evaluated value), MyType, TargetType
func adDiff(got, want *classad.ClassAd) string {
	if got == nil || want == nil {
		return "no ad returned"
	}
	gn, wn := got.GetAttributes(), want.GetAttributes()
	sort.Strings(gn)
	sort.Strings(wn)
	if strings.Join(gn, ",") != strings.Join(wn, ",") {
		return fmt.Sprintf("attributes %v, the uncapped receiver returns %v", gn, wn)
	}
	for _, n := range wn {
		a, _ := got.Lookup(n)
		b, _ := want.Lookup(n)
		if a == nil || b == nil || a.String() != b.String() {
			return fmt.Sprintf("attribute %q differs", n)
		}
		if !sameLit(valueLit(got.EvaluateAttr(n)), valueLit(want.EvaluateAttr(n))) {
			return fmt.Sprintf("attribute %q evaluates to %s, uncapped %s", n, valueLit(got.EvaluateAttr(n)), valueLit(want.EvaluateAttr(n)))
		}
	}
	for _, n := range []string{"MyType", "TargetType"} {
		a, _ := got.EvaluateAttrString(n)
		b, _ := want.EvaluateAttrString(n)
		if a != b {
			return fmt.Sprintf("%s is %q, the uncapped receiver returns %q", n, a, b)
		}
	}
	return ""
}

type frun struct {
	S                    *sent
	RawOK, GetOK, SkipOK bool
	RawErr, GetErr, SkErr error
	Total                int
	CapOK                []bool // index = cap, 0..Total+3 (only when Sweep)
	Key, Msg             string // first oracle failure
}

func runFrames(fc fcase) (*frun, error) {
	s, err := sendFrames(fc)
	if err != nil {
		return nil, err
	}
	r := &frun{S: s}
	for _, x := range s.Strings {
		r.Total += len(x) + 1
	}
	var plain *classad.ClassAd
	r.RawOK, r.RawErr = recvOne(fc, s.Wire, func(m *message.Message) error { _, err := m.GetClassAdRaw(ctx); return err })
	r.GetOK, r.GetErr = recvOne(fc, s.Wire, func(m *message.Message) error {
		ad, err := m.GetClassAd(ctx)
		plain = ad
		return err
	})
	r.SkipOK, r.SkErr = recvOne(fc, s.Wire, func(m *message.Message) error { return m.SkipClassAdRaw(ctx) })
	fail := func(key, msg string) {
		if r.Key == "" {
			r.Key, r.Msg = key, msg
		}
	}
	where := fmt.Sprintf("%s sender, stream key=%v enc=%v, %d frames", fc.Sender, fc.Key, fc.Enc, len(s.Frames))
	if !r.GetOK {
		fail("getclassad-fails", fmt.Sprintf("%s: GetClassAd: %v", where, r.GetErr))
	}
	if !r.RawOK {
		fail("getclassadraw-fails", fmt.Sprintf("%s: GetClassAdRaw: %v", where, r.RawErr))
	}
	if !r.SkipOK {
		fail("skip-desync", fmt.Sprintf("%s (cut %v in segment %d): SkipClassAdRaw does not consume the bytes GetClassAd consumes: %v", where, fc.Cut, fc.Seg, r.SkErr))
	}
	caps := []int{0, r.Total, r.Total + 1, 1 << 26}
	if fc.Sweep {
		caps = caps[:0]
		for c := 0; c <= r.Total+3; c++ {
			caps = append(caps, c)
		}
		r.CapOK = make([]bool, len(caps))
	}
	for i, c := range caps {
		var got *classad.ClassAd
		var adErr error
		ok, err := recvOne(fc, s.Wire, func(m *message.Message) error {
			ad, err := m.GetClassAdWithMaxSize(ctx, c)
			got, adErr = ad, err
			return err
		})
		if fc.Sweep {
			r.CapOK[i] = ok
		}
		if adErr == nil {
			// the capped receiver reported success: it must have read what the uncapped one reads
			if !ok {
				fail("capped-success-differs", fmt.Sprintf("%s: GetClassAdWithMaxSize(%d) returns an ad (the ad is charged %d bytes) but has not consumed the bytes GetClassAd consumes: %v", where, c, r.Total, err))
			} else if r.GetOK {
				if d := adDiff(got, plain); d != "" {
					fail("capped-success-differs", fmt.Sprintf("%s: GetClassAdWithMaxSize(%d) returns a different ad than GetClassAd on the same bytes: %s", where, c, d))
				}
			}
		} else if r.GetOK && (c <= 0 || c >= r.Total) {
			fail("capped-refuses-fitting", fmt.Sprintf("%s: GetClassAdWithMaxSize(%d) refuses an ad that is charged %d bytes: %v", where, c, r.Total, adErr))
		}
	}
	return r, nil
}

func frameCase(c *core.Ctx, fc fcase) error {
	fc.Kind = "frames"
	r, err := runFrames(fc)
	if err != nil {
		return err
	}
	c.OracleCheck()
	if r.Key != "" {
		c.OracleFail(r.Key, r.Msg, fc)
	} else {
		js, _ := json.Marshal(fc)
		c.Nontrivial(string(js))
	}
	if fc.Sweep {
		c.CountN("capped-reads-swept", len(r.CapOK))
		c.Count("capped-sweeps")
		c.Evaluated(len(r.CapOK))
	}
	if fc.Sender == "script" {
		c.Count("scripted-frames")
		sealed := 0
		for _, f := range r.S.Frames {
			if f.Sealed {
				sealed++
			}
		}
		if fc.Key && !fc.Enc && sealed >= 2 {
			c.Count("scripted-secret-spans-frames")
		}
	}
	if len(r.S.Frames) > 1 {
		c.Count("frames-multi")
	}
	var fr []string
	weight := 1
	for _, f := range r.S.Frames {
		fr = append(fr, fmt.Sprintf("(%s, %s, %s)", core.Bool(f.Sealed), core.Bool(f.EOM), bs(string(f.Data))))
		weight += len(f.Data) / 1500
	}
	// cap ranges for the model: every cap when the ad is small, otherwise the neighbourhood of every
	// string boundary, both ends and a stride (the REAL receiver saw every cap either way)
	var ranges []string
	if fc.Sweep {
		pick := make([]bool, len(r.CapOK))
		if r.Total <= 700 {
			for i := range pick {
				pick[i] = true
			}
		} else {
			mark := func(x int) {
				for d := -2; d <= 2; d++ {
					if x+d >= 0 && x+d < len(pick) {
						pick[x+d] = true
					}
				}
			}
			acc := 0
			mark(0)
			for _, s := range r.S.Strings {
				acc += len(s) + 1
				mark(acc)
			}
			for i := 0; i < len(pick); i += 1499 {
				pick[i] = true
			}
		}
		for i := 0; i < len(pick); {
			if !pick[i] {
				i++
				continue
			}
			j := i
			for j+1 < len(pick) && pick[j+1] && r.CapOK[j+1] == r.CapOK[i] {
				j++
			}
			ranges = append(ranges, fmt.Sprintf("(%s, %s, %s)", core.Z(int64(i)), core.Nat(j-i+1), core.Bool(r.CapOK[i])))
			weight += (j - i + 1) * (1 + r.Total/300) / 40
			i = j + 1
		}
	}
	c.AddCaseW(fmt.Sprintf("CFrames %s %s %s %s %s %s %s", core.Bool(fc.Key), core.Bool(fc.Enc), core.List(fr),
		core.Bool(r.RawOK), core.Bool(r.GetOK), core.Bool(r.SkipOK), core.List(ranges)), fc, weight)
	return nil
}

func replayFrames(raw json.RawMessage) error {
	var fc fcase
	if err := json.Unmarshal(raw, &fc); err != nil {
		return err
	}
	r, err := runFrames(fc)
	if err != nil {
		return err
	}
	if r.Key != "" {
		return fmt.Errorf("%s: %s", r.Key, r.Msg)
	}
	return nil
}

// genFrames: the cap-sweep catalogue and the scripted small-frame sender
func genFrames(c *core.Ctx) error {
	base := []wattr{{"Name", `"slot1@host"`}, {"Cpus", "4"}, {"Requirements", `(Arch == "X86_64") && (Memory >= 1024)`}}
	priv := append(append([]wattr(nil), base...), wattr{"ClaimId", `"<10.0.0.1:9618>#1699#4#secret"`}, wattr{"Rank", "1.5"})
	sweeps := []fcase{
		{Sender: "ad", Attrs: base, My: "Machine", Tg: "Job"},
		{Sender: "raw", Attrs: base, My: "Machine", Tg: "Job"},
		{Sender: "raw", Attrs: base, My: "Machine", Tg: ""},
		{Sender: "raw", Attrs: base, My: "", Tg: "Job"},
		{Sender: "raw", Attrs: base, My: "", Tg: ""},
		{Sender: "rawbytes", Attrs: base[:2], My: "Scheduler", Tg: "J"},
		{Sender: "ad", Opts: 32, Attrs: priv, My: "Machine", Tg: "Job"},
		{Sender: "ad", Opts: 32 | 4, Attrs: priv, My: "", Tg: "Job"},
		{Sender: "ad", Attrs: priv, My: "Machine", Tg: ""},
		{Sender: "raw", Attrs: nil, My: "Machine", Tg: "Job"},
		{Sender: "script", Seg: 1, Cut: []int{3, 8, 9, 20}, My: "Machine", Tg: "Job",
			Items: []fitem{{false, "Name = \"x\""}, {true, "ClaimId = \"abc#def\""}, {false, "Cpus = 4"}, {true, "Capability = \"k\""}}},
	}
	// one ad from the grammar per run
	sweeps = append(sweeps, fcase{Sender: []string{"ad", "raw"}[c.Rng.Intn(2)], Attrs: genAttrs(c, 2+c.Rng.Intn(3), true), My: []string{"Machine", ""}[c.Rng.Intn(2)], Tg: "Job"})
	for _, fc := range sweeps {
		fc.Sweep = true
		for _, st := range states {
			fc.Key, fc.Enc = st[0], st[1]
			if err := frameCase(c, fc); err != nil {
				return err
			}
		}
	}
	// multi-frame through the real sender: a string longer than a frame; every cap, two stream states
	// (thorough: all four)
	big := fcase{Sender: "raw", Sweep: true, My: "Machine", Tg: "Job",
		Attrs: []wattr{{"A", "1"}, {"Big", `"` + strings.Repeat("v", 16500+c.Rng.Intn(300)) + `"`}, {"Z", `"z"`}}}
	for i, st := range states {
		if c.Quick() && i != 0 && i != 1 {
			continue
		}
		big.Key, big.Enc = st[0], st[1]
		if err := frameCase(c, big); err != nil {
			return err
		}
	}
	// scripted sender: every cut position of every segment, one and two cuts
	scripts := []fcase{
		{Sender: "script", My: "Machine", Tg: "Job",
			Items: []fitem{{false, "Name = \"x\""}, {true, "ClaimId = \"<10.0.0.1:9618>#1#secret\""}, {false, "Cpus = 4"}}},
		{Sender: "script", My: "", Tg: "Job",
			Items: []fitem{{true, "Capability = \"k1\""}, {true, "_condor_priv_x = 17"}}},
	}
	for si, sc := range scripts {
		for sti, st := range states {
			sc.Key, sc.Enc = st[0], st[1]
			toggles := sc.Key && !sc.Enc
			if si > 0 && !toggles && c.Quick() {
				continue
			}
			sc.Seg, sc.Cut = -1, nil
			s0, err := sendFrames(sc)
			if err != nil {
				return err
			}
			for sg := 0; sg < s0.NSegs; sg++ {
				n := s0.SegLen[sg]
				if si > 0 && sg%2 == 0 && c.Quick() {
					continue // second script, quick tier: the two secret segments only
				}
				for p := 1; p < n; p++ {
					// the keyed, non-encrypting stream: EVERY position; the other states (no toggle, one
					// segment): every third position in the quick tier
					if !toggles && c.Quick() && (p+sti)%3 != 0 {
						continue
					}
					x := sc
					x.Seg, x.Cut = sg, []int{p}
					if p%5 == 0 && p+1 < n {
						x.Cut = []int{p, p + 1 + c.Rng.Intn(n-p-1)}
					}
					if err := frameCase(c, x); err != nil {
						return err
					}
				}
			}
		}
	}
	return nil
}
