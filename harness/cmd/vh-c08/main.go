// vh-c08: correspondence + oracle for C08 (ClassAds survive the wire; the
// decoder's literal shortcuts agree with the full parser; the three receivers
// consume the same bytes).
package main

import (
	"bytes"
	"context"
	"encoding/json"
	"fmt"
	"io"
	"math"
	"net"
	"strconv"
	"strings"
	"time"

	"verifharness/core"

	"github.com/PelicanPlatform/classad/ast"
	"github.com/PelicanPlatform/classad/classad"
	"github.com/PelicanPlatform/classad/parser"
	"github.com/bbockelm/cedar/message"
	"github.com/bbockelm/cedar/stream"
)

var ctx = context.Background()

// ---------------------------------------------------------------------------
// observing literals

type olit struct {
	Kind string // bool int real str
	B    bool
	I    int64
	F    float64
	S    string
}

func (o *olit) term() string {
	if o == nil {
		return "None"
	}
	return "(Some " + o.inner() + ")"
}
func (o *olit) inner() string {
	switch o.Kind {
	case "bool":
		return "(OBool " + core.Bool(o.B) + ")"
	case "int":
		return "(OInt " + core.Z(o.I) + ")"
	case "real":
		return "(OReal " + core.Bool(math.Signbit(o.F)) + ")"
	}
	return "(OStr " + core.Hex([]byte(o.S)) + ")"
}
func sameLit(a, b *olit) bool {
	if a == nil || b == nil {
		return a == b
	}
	if a.Kind != b.Kind {
		return false
	}
	switch a.Kind {
	case "bool":
		return a.B == b.B
	case "int":
		return a.I == b.I
	case "real":
		return math.Float64bits(a.F) == math.Float64bits(b.F) || (math.IsNaN(a.F) && math.IsNaN(b.F))
	}
	return a.S == b.S
}
func (o *olit) String() string {
	if o == nil {
		return "<not a literal>"
	}
	switch o.Kind {
	case "bool":
		return fmt.Sprintf("bool %v", o.B)
	case "int":
		return fmt.Sprintf("int %d", o.I)
	case "real":
		return fmt.Sprintf("real %v", o.F)
	}
	return fmt.Sprintf("string %q", o.S)
}

func valueLit(v classad.Value) *olit {
	switch {
	case v.IsBool():
		b, _ := v.BoolValue()
		return &olit{Kind: "bool", B: b}
	case v.IsInteger():
		i, _ := v.IntValue()
		return &olit{Kind: "int", I: i}
	case v.IsReal():
		f, _ := v.RealValue()
		return &olit{Kind: "real", F: f}
	case v.IsString():
		s, _ := v.StringValue()
		return &olit{Kind: "str", S: s}
	}
	return nil
}

// the literal fast path on one value text (hook): nil = "not a simple literal"
func tryLit(text string) (res *olit) {
	defer func() {
		if r := recover(); r != nil {
			res = &olit{Kind: "str", S: fmt.Sprintf("<panic %v>", r)}
		}
	}()
	ad := classad.New()
	if err := message.VerifTryInsertLiteral(ad, "x", text); err != nil {
		return nil
	}
	return valueLit(ad.EvaluateAttr("x"))
}

// what the full parser reads the text as, if that is one (optionally signed) literal
func astLit(e ast.Expr) *olit {
	switch v := e.(type) {
	case *ast.BooleanLiteral:
		return &olit{Kind: "bool", B: v.Value}
	case *ast.IntegerLiteral:
		return &olit{Kind: "int", I: v.Value}
	case *ast.RealLiteral:
		return &olit{Kind: "real", F: v.Value}
	case *ast.StringLiteral:
		return &olit{Kind: "str", S: v.Value}
	case *ast.UnaryOp:
		if v.Op != "-" && v.Op != "+" {
			return nil
		}
		switch in := v.Expr.(type) {
		case *ast.IntegerLiteral:
			if in.Value < 0 {
				return nil // the operand is itself a folded "-9223372036854775808": two signs, not one literal
			}
			if v.Op == "-" {
				return &olit{Kind: "int", I: -in.Value}
			}
			return &olit{Kind: "int", I: in.Value}
		case *ast.RealLiteral:
			if v.Op == "-" {
				return &olit{Kind: "real", F: -in.Value}
			}
			return &olit{Kind: "real", F: in.Value}
		}
	}
	return nil
}
func lexLit(text string) (*olit, ast.Expr, error) {
	e, err := parser.ParseExpr(text)
	if err != nil {
		return nil, nil, err
	}
	return astLit(e), e, nil
}

// checkText runs the direct oracle on one value text: if the shortcut fires,
// the parser must read the text as that very literal; and the complete decoder
// (parseAndInsertExpression) must store what the parser reads.
func checkText(text string) (key, msg string) {
	t := tryLit(text)
	l, e, perr := lexLit(text)
	if t != nil && !sameLit(t, l) {
		what := l.String()
		if perr != nil {
			what = "a syntax error"
		} else if l == nil {
			what = "the expression " + e.String()
		}
		return "shortcut-disagrees", fmt.Sprintf("value text %q: literal shortcut stores %s, the ClassAd parser reads %s", text, t, what)
	}
	if strings.ContainsRune(text, 0) {
		return "", ""
	}
	// whole decoder on "x = text"
	ad := classad.New()
	var derr error
	func() {
		defer func() {
			if r := recover(); r != nil {
				derr = fmt.Errorf("panic: %v", r)
			}
		}()
		derr = message.VerifParseAndInsertExpression(ad, "x = "+text)
	}()
	if perr != nil && derr == nil {
		// the parser rejects the text, the decoder stored something: only the documented
		// old-ClassAd reading of ONE quoted string is allowed (backslash literal, \" = quote)
		t := strings.TrimSpace(text)
		ok := len(t) >= 2 && t[0] == '"' && t[len(t)-1] == '"'
		var want []byte
		if ok {
			in := t[1 : len(t)-1]
			for i := 0; i < len(in); i++ {
				if in[i] == '\\' && i+1 < len(in) && in[i+1] == '"' {
					want = append(want, '"')
					i++
					continue
				}
				if in[i] == '"' {
					ok = false
					break
				}
				want = append(want, in[i])
			}
		}
		got := valueLit(ad.EvaluateAttr("x"))
		if ok && got != nil && got.Kind == "str" && got.S != string(want) {
			return "oldstring-differs", fmt.Sprintf("value text %q is rejected by the strict parser and read as one old-ClassAd string: the decoder stored %q, old ClassAd syntax (only \\\" is an escape, every other backslash is literal) yields %q", text, got.S, string(want))
		}
		if !ok || got == nil || got.Kind != "str" || got.S != string(want) {
			return "decoder-accepts-unparsable", fmt.Sprintf("value text %q is not a ClassAd expression (nor one old-style quoted string) but the decoder stored %s", text, got)
		}
	}
	if perr == nil {
		if derr != nil {
			return "decoder-rejects", fmt.Sprintf("value text %q parses as %s but the decoder rejects it: %v", text, e.String(), derr)
		}
		got, _ := ad.Lookup("x")
		if d := diffExpr(got, e); d != "" {
			return "decoder-disagrees", fmt.Sprintf("value text %q: %s", text, d)
		}
	}
	return "", ""
}

// diffExpr compares a received expression with what the parser makes of the
// sender's text: literals by type and value, everything else by rendering.
func diffExpr(got *classad.Expr, want ast.Expr) string {
	if got == nil {
		return "attribute missing"
	}
	if wl := astLit(want); wl != nil {
		gl := valueLit(got.Eval(classad.New()))
		if !sameLit(gl, wl) {
			return fmt.Sprintf("decoder stores %s (%s), the parser reads %s", gl, got.String(), wl)
		}
		return ""
	}
	if got.String() != want.String() {
		return fmt.Sprintf("decoder stores %s, the parser reads %s", got.String(), want.String())
	}
	return ""
}

// ---------------------------------------------------------------------------
// real streams over memory

type memConn struct {
	wr bytes.Buffer
	rd *bytes.Reader
}

func (m *memConn) Read(p []byte) (int, error) {
	if m.rd == nil {
		return 0, io.EOF
	}
	return m.rd.Read(p)
}
func (m *memConn) Write(p []byte) (int, error)        { return m.wr.Write(p) }
func (m *memConn) Close() error                       { return nil }
func (m *memConn) LocalAddr() net.Addr                { return nil }
func (m *memConn) RemoteAddr() net.Addr               { return nil }
func (m *memConn) SetDeadline(t time.Time) error      { return nil }
func (m *memConn) SetReadDeadline(t time.Time) error  { return nil }
func (m *memConn) SetWriteDeadline(t time.Time) error { return nil }

type tframe struct {
	Sealed bool
	EOM    bool
	Data   []byte
}
type recStream struct {
	s      *stream.Stream
	conn   *memConn
	frames []tframe
}

func (r *recStream) ReadFrame(c context.Context) ([]byte, bool, error) { return r.s.ReadFrame(c) }
func (r *recStream) WriteFrame(c context.Context, data []byte, eom bool) error {
	before := r.conn.wr.Len()
	plain := append([]byte(nil), data...)
	err := r.s.WriteFrame(c, data, eom)
	wrote := r.conn.wr.Bytes()[before:]
	clear := len(wrote) == 5+len(plain) && bytes.Equal(wrote[5:], plain)
	r.frames = append(r.frames, tframe{Sealed: !clear, EOM: eom, Data: plain})
	return err
}
func (r *recStream) IsEncrypted() bool           { return r.s.IsEncrypted() }
func (r *recStream) PrepareCryptoForSecret()     { r.s.PrepareCryptoForSecret() }
func (r *recStream) RestoreCryptoAfterSecret()   { r.s.RestoreCryptoAfterSecret() }
func (r *recStream) CryptoForSecretIsNoop() bool { return r.s.CryptoForSecretIsNoop() }

var sessionKey = []byte("0123456789abcdef0123456789ABCDEF")

func newStream(conn *memConn, key, enc bool) *stream.Stream {
	s := stream.NewStream(conn)
	if key {
		if err := s.SetSymmetricKey(sessionKey); err != nil {
			panic(err)
		}
	}
	s.SetEncrypted(enc)
	return s
}

const trailerInt = 24225
const trailerStr = "tail"

// ---------------------------------------------------------------------------
// wire scenarios

type wattr struct {
	Name string `json:"n"`
	Text string `json:"t"` // expression text (parsed by the sender) or, in raw mode, the literal wire text after '='
}
type wire struct {
	Kind  string  `json:"kind"` // "wire"
	Raw   bool    `json:"raw"`  // PutClassAdRaw with Pad-ded texts instead of PutClassAd
	NonText bool  `json:"non_text"` // carries bytes that are not UTF-8 text: only "all receivers succeed and consume the same bytes" is in scope
	BadT  bool    `json:"bad_type_name"` // a type slot holds something that is not a type name: the raw-text receiver must refuse it
	Man   bool    `json:"manual"` // count, strings, marker + secret as two plain strings (what a C++ peer sends when it need not toggle crypto)
	Opts  int     `json:"opts"`
	Attrs []wattr `json:"attrs"`
	Pad   int     `json:"pad"`
	My    string  `json:"my"`
	Tg    string  `json:"tg"`
	Key   bool    `json:"key"`
	Enc   bool    `json:"enc"`
	Only  []int   `json:"only_states,omitempty"` // indices into states; empty = all four
}

func (w wire) wants(i int) bool {
	if len(w.Only) == 0 {
		return true
	}
	for _, x := range w.Only {
		if x == i {
			return true
		}
	}
	return false
}

type wireResult struct {
	Frames                []tframe
	Exprs                 []string // what was rendered onto the wire, in order
	Names, Texts          []string
	MyType, TargetType    string
	RawOK, GetOK, SkipOK  bool
	RawErr, GetErr, SkErr error
	Got                   *classad.ClassAd
	RawText               string
	MaxOK                 bool // GetClassAdWithMaxSize (generous budget) succeeded and read the trailer
	MaxErr                error
	GotMax                *classad.ClassAd
	RawBytesSame          bool // PutClassAdRawBytes wrote the bytes PutClassAdRaw wrote
	BodyOK                bool // GetInt + GetClassAdRawBody
	BodyErr               error
	BodyText              string
}

func pad(k int, s string) string {
	switch k % 4 {
	case 1:
		return "  " + s + " "
	case 2:
		return "\t" + s + "  \t"
	case 3:
		return " " + s
	}
	return s
}

func runWire(w wire) (*wireResult, error) {
	res := &wireResult{}
	conn := &memConn{}
	rs := &recStream{s: newStream(conn, w.Key, w.Enc), conn: conn}
	m := message.NewMessageForStream(rs)
	if w.Man {
		if err := m.PutInt(ctx, len(w.Attrs)); err != nil {
			return nil, err
		}
		for _, a := range w.Attrs {
			e := a.Name + " = " + a.Text
			res.Exprs = append(res.Exprs, e)
			res.Names = append(res.Names, a.Name)
			res.Texts = append(res.Texts, a.Text)
			if classad.IsPrivateAttribute(a.Name) {
				if err := m.PutString(ctx, message.SecretMarker); err != nil {
					return nil, err
				}
			}
			if err := m.PutString(ctx, e); err != nil {
				return nil, err
			}
		}
		res.MyType, res.TargetType = w.My, w.Tg
		if err := m.PutString(ctx, w.My); err != nil {
			return nil, err
		}
		if err := m.PutString(ctx, w.Tg); err != nil {
			return nil, err
		}
	} else if w.Raw {
		for i, a := range w.Attrs {
			e := pad(w.Pad+i, a.Name) + "=" + pad(w.Pad+2*i+1, a.Text)
			if (w.Pad+i)%3 == 0 {
				e = a.Name + " = " + a.Text
			}
			if w.Pad < 0 { // compact rendering, as stored text or other peers may send it
				e = a.Name + []string{"=", "= ", " ="}[(i-w.Pad)%3] + a.Text
			}
			res.Exprs = append(res.Exprs, e)
			res.Names = append(res.Names, a.Name)
			res.Texts = append(res.Texts, a.Text)
		}
		res.MyType, res.TargetType = w.My, w.Tg
		if err := m.PutClassAdRaw(ctx, res.Exprs, w.My, w.Tg); err != nil {
			return nil, err
		}
	} else {
		ad := classad.New()
		for _, a := range w.Attrs {
			e, err := classad.ParseExpr(a.Text)
			if err != nil {
				return nil, fmt.Errorf("generator produced unparsable %q: %v", a.Text, err)
			}
			ad.InsertExpr(a.Name, e)
		}
		if w.My != "" {
			_ = ad.Set("MyType", w.My)
		}
		if w.Tg != "" {
			_ = ad.Set("TargetType", w.Tg)
		}
		for _, n := range ad.GetAttributes() {
			e, _ := ad.Lookup(n)
			res.Names = append(res.Names, n)
			res.Texts = append(res.Texts, e.String())
		}
		if s, ok := ad.EvaluateAttrString("MyType"); ok {
			res.MyType = s
		}
		if s, ok := ad.EvaluateAttrString("TargetType"); ok {
			res.TargetType = s
		}
		if err := m.PutClassAdWithOptions(ctx, ad, &message.PutClassAdConfig{Options: message.PutClassAdOptions(w.Opts)}); err != nil {
			return nil, err
		}
	}
	if err := m.PutInt(ctx, trailerInt); err != nil {
		return nil, err
	}
	if err := m.PutString(ctx, trailerStr); err != nil {
		return nil, err
	}
	if err := m.FinishMessage(ctx); err != nil {
		return nil, err
	}
	res.Frames = rs.frames
	wireBytes := append([]byte(nil), conn.wr.Bytes()...)
	recv := func(f func(m *message.Message) error) (ok bool, err error) {
		defer func() {
			if r := recover(); r != nil {
				ok, err = false, fmt.Errorf("panic: %v", r)
			}
		}()
		pc := &memConn{rd: bytes.NewReader(wireBytes)}
		rm := message.NewMessageFromStream(newStream(pc, w.Key, w.Enc))
		if err := f(rm); err != nil {
			return false, err
		}
		n, err := rm.GetInt(ctx)
		if err != nil || n != trailerInt {
			return false, fmt.Errorf("after the ad the next integer read is %d (%v), sender wrote %d: not the same bytes consumed", n, err, trailerInt)
		}
		s, err := rm.GetString(ctx)
		if err != nil || s != trailerStr {
			return false, fmt.Errorf("after the ad the trailer string reads %q (%v)", s, err)
		}
		return true, nil
	}
	res.RawOK, res.RawErr = recv(func(rm *message.Message) error {
		t, err := rm.GetClassAdRaw(ctx)
		res.RawText = t
		return err
	})
	res.BodyOK, res.BodyErr = recv(func(rm *message.Message) error {
		n, err := rm.GetInt(ctx)
		if err != nil {
			return err
		}
		t, err := rm.GetClassAdRawBody(ctx, n)
		res.BodyText = t
		return err
	})
	res.GetOK, res.GetErr = recv(func(rm *message.Message) error {
		ad, err := rm.GetClassAd(ctx)
		res.Got = ad
		return err
	})
	res.SkipOK, res.SkErr = recv(func(rm *message.Message) error { return rm.SkipClassAdRaw(ctx) })
	res.MaxOK, res.MaxErr = recv(func(rm *message.Message) error {
		ad, err := rm.GetClassAdWithMaxSize(ctx, 1<<26)
		res.GotMax = ad
		return err
	})
	res.RawBytesSame = true
	if w.Raw {
		c2 := &memConn{}
		m2 := message.NewMessageForStream(newStream(c2, false, w.Enc && !w.Key))
		var bb [][]byte
		for _, e := range res.Exprs {
			bb = append(bb, []byte(e))
		}
		c3 := &memConn{}
		m3 := message.NewMessageForStream(newStream(c3, false, w.Enc && !w.Key))
		if err := m2.PutClassAdRawBytes(ctx, bb, w.My, w.Tg); err != nil {
			return nil, err
		}
		if err := m3.PutClassAdRaw(ctx, res.Exprs, w.My, w.Tg); err != nil {
			return nil, err
		}
		_ = m2.FinishMessage(ctx)
		_ = m3.FinishMessage(ctx)
		res.RawBytesSame = bytes.Equal(c2.wr.Bytes(), c3.wr.Bytes())
	}
	return res, nil
}

func wireOracle(w wire, res *wireResult) (key, msg string) {
	if w.BadT {
		// isTypeName is ENFORCED by the raw-text receivers; the parsing and skipping ones take the string as it is
		if res.RawOK || res.BodyOK {
			return "typename-not-enforced", fmt.Sprintf("GetClassAdRaw accepted the type names %q / %q", trunc(w.My), trunc(w.Tg))
		}
		if !res.GetOK || !res.SkipOK || !res.MaxOK {
			return "typename-receivers", fmt.Sprintf("with type names %q / %q: GetClassAd %v, SkipClassAdRaw %v, GetClassAdWithMaxSize %v", trunc(w.My), trunc(w.Tg), res.GetErr, res.SkErr, res.MaxErr)
		}
		if s, _ := res.Got.EvaluateAttrString("MyType"); s != w.My {
			return "mytype-differs", fmt.Sprintf("MyType received %q, sent %q", s, w.My)
		}
		return "", ""
	}
	hasEq := false
	for _, n := range res.Names {
		hasEq = hasEq || strings.Contains(n, "=")
	}
	if !res.GetOK && hasEq && res.RawOK && res.SkipOK {
		return "attr-name-with-equals", fmt.Sprintf("an attribute whose (quoted) name contains '=' is rendered unquoted; the parsing receiver splits inside the name: %v", res.GetErr)
	}
	if !res.GetOK {
		return "getclassad-fails", fmt.Sprintf("GetClassAd: %v", res.GetErr)
	}
	if !res.RawOK {
		return "getclassadraw-fails", fmt.Sprintf("GetClassAdRaw: %v", res.RawErr)
	}
	if !res.SkipOK {
		return "skip-desync", fmt.Sprintf("SkipClassAdRaw does not consume the bytes GetClassAd consumes: %v", res.SkErr)
	}
	if w.NonText {
		if !res.MaxOK || !res.BodyOK {
			return "maxsize-differs", fmt.Sprintf("GetClassAdWithMaxSize / GetClassAdRawBody fail or consume other bytes: %v %v", res.MaxErr, res.BodyErr)
		}
		return "", "" // values of non-text strings are outside the statement (0xAD is the wire's NULL-string marker)
	}
	if !res.MaxOK {
		return "maxsize-differs", fmt.Sprintf("GetClassAdWithMaxSize (64 MiB budget) fails or consumes other bytes than GetClassAd: %v", res.MaxErr)
	}
	if res.GotMax == nil || res.GotMax.StringWithPrivate() != res.Got.StringWithPrivate() {
		return "maxsize-differs", "GetClassAdWithMaxSize reconstructs a different ad than GetClassAd"
	}
	if !res.RawBytesSame {
		return "rawbytes-differs", "PutClassAdRawBytes does not write the bytes PutClassAdRaw writes"
	}
	optIn := w.Raw || w.Man || (w.Opts&32 != 0 && w.Opts&2 == 0)
	expected := map[string]bool{}
	for i, n := range res.Names {
		if !optIn && classad.IsPrivateAttribute(n) {
			if _, ok := res.Got.Lookup(n); ok {
				return "private-received", fmt.Sprintf("private attribute %q was received", n)
			}
			continue
		}
		expected[strings.ToLower(n)] = true
		if strings.EqualFold(n, "MyType") || strings.EqualFold(n, "TargetType") {
			continue
		}
		want, err := parser.ParseExpr(res.Texts[i])
		if err != nil {
			continue // (raw mode only) not a ClassAd expression: nothing to compare with
		}
		got, ok := res.Got.Lookup(n)
		if !ok {
			return "attribute-lost", fmt.Sprintf("attribute %q was not received", n)
		}
		if d := diffExpr(got, want); d != "" {
			return "value-differs", fmt.Sprintf("attribute %q sent as %q: %s", n, res.Texts[i], d)
		}
	}
	if res.MyType != "" {
		expected["mytype"] = true
	}
	if res.TargetType != "" {
		expected["targettype"] = true
	}
	if w.Opts&4 != 0 && !w.Raw && !w.Man {
		expected["servertime"] = true
	}
	for _, n := range res.Got.GetAttributes() {
		if !expected[strings.ToLower(n)] {
			return "attribute-invented", fmt.Sprintf("received attribute %q was not sent", n)
		}
	}
	if len(res.Got.GetAttributes()) != len(expected) {
		return "attribute-count", fmt.Sprintf("received %d attributes, expected %d", len(res.Got.GetAttributes()), len(expected))
	}
	if w.Opts&1 == 0 || w.Raw || w.Man {
		bodyHas := func(n string) bool {
			for _, x := range res.Names {
				if strings.EqualFold(x, n) {
					return true
				}
			}
			return false
		}
		if s, _ := res.Got.EvaluateAttrString("MyType"); s != res.MyType && !(res.MyType == "" && bodyHas("MyType")) {
			return "mytype-differs", fmt.Sprintf("MyType received %q, sent %q", s, res.MyType)
		}
		if s, _ := res.Got.EvaluateAttrString("TargetType"); s != res.TargetType && !(res.TargetType == "" && bodyHas("TargetType")) {
			return "targettype-differs", fmt.Sprintf("TargetType received %q, sent %q", s, res.TargetType)
		}
	}
	// raw text: the expression strings in order
	var sent []string
	if w.Raw || w.Man {
		sent = res.Exprs
	} else {
		if w.Opts&4 != 0 {
			sent = append(sent, "ServerTime = 1699200000")
		}
		for i, n := range res.Names {
			if !optIn && classad.IsPrivateAttribute(n) {
				continue
			}
			sent = append(sent, n+" = "+res.Texts[i])
		}
	}
	wantRaw := ""
	for _, e := range sent {
		wantRaw += e + "\n"
	}
	if !strings.HasPrefix(res.RawText, wantRaw) {
		return "raw-text-differs", fmt.Sprintf("GetClassAdRaw returned %q, sender rendered %q", trunc(res.RawText), trunc(wantRaw))
	}
	// ... followed by exactly the type names that travelled in the two type slots
	wantTypes := ""
	if w.Opts&1 == 0 || w.Raw || w.Man {
		if res.MyType != "" {
			wantTypes += fmt.Sprintf("MyType = %q\n", res.MyType)
		}
		if res.TargetType != "" {
			wantTypes += fmt.Sprintf("TargetType = %q\n", res.TargetType)
		}
	}
	// (a slot that merely repeats a body expression of exactly that attribute with that value may be
	// rendered once or twice: the reconstructed ad is the same)
	altTypes := ""
	repeats := func(attr, val string) bool {
		for i, n := range res.Names {
			if strings.EqualFold(n, attr) && strings.TrimSpace(res.Texts[i]) == fmt.Sprintf("%q", val) {
				return true
			}
		}
		return false
	}
	if w.Opts&1 == 0 || w.Raw || w.Man {
		if res.MyType != "" && !repeats("MyType", res.MyType) {
			altTypes += fmt.Sprintf("MyType = %q\n", res.MyType)
		}
		if res.TargetType != "" && !repeats("TargetType", res.TargetType) {
			altTypes += fmt.Sprintf("TargetType = %q\n", res.TargetType)
		}
	}
	if got := res.RawText[len(wantRaw):]; got != wantTypes && got != altTypes {
		return "raw-types-differ", fmt.Sprintf("GetClassAdRaw renders the type slots (MyType %q, TargetType %q) as %q, expected %q", res.MyType, res.TargetType, got, wantTypes)
	}
	if !res.BodyOK || res.BodyText != res.RawText {
		return "raw-body-differs", fmt.Sprintf("GetInt + GetClassAdRawBody returns %q (%v), GetClassAdRaw %q", trunc(res.BodyText), res.BodyErr, trunc(res.RawText))
	}
	return "", ""
}

func trunc(s string) string {
	if len(s) > 160 {
		return s[:160] + "..."
	}
	return s
}

// ---------------------------------------------------------------------------
// Coq terms

func bs(s string) string {
	if len(s) < 200 {
		return core.Hex([]byte(s))
	}
	var parts []string
	i, lit := 0, 0
	for i < len(s) {
		j := i
		for j < len(s) && s[j] == s[i] {
			j++
		}
		if j-i >= 64 {
			if lit < i {
				parts = append(parts, chunks(s[lit:i])...)
			}
			parts = append(parts, fmt.Sprintf("rep %d %s", j-i, core.Hex([]byte{s[i]})))
			lit = j
		}
		i = j
	}
	if lit < len(s) {
		parts = append(parts, chunks(s[lit:])...)
	}
	return "(" + strings.Join(parts, " ++ ") + ")%list"
}
func chunks(s string) []string {
	var out []string
	for len(s) > 1000 {
		out = append(out, core.Hex([]byte(s[:1000])))
		s = s[1000:]
	}
	return append(out, core.Hex([]byte(s)))
}
func bsList(l []string) string {
	var xs []string
	for _, s := range l {
		xs = append(xs, bs(s))
	}
	return core.List(xs)
}
func dig(b []byte) string {
	var sum uint64
	for _, x := range b {
		sum += uint64(x)
	}
	first, last := b, b
	if len(first) > 8 {
		first = first[:8]
	}
	if len(last) > 8 {
		last = last[len(last)-8:]
	}
	return fmt.Sprintf("(%d, %d, %s, %s)", len(b), sum%4294967296, core.Hex(first), core.Hex(last))
}

// ---------------------------------------------------------------------------
// generators

const alphabet = "0179-+.eEx_\"\\tTa "

func enumBlock(c *core.Ctx, prefix string, n int) {
	var obsT, obsL []string
	buf := make([]byte, n)
	idx := 0
	var rec func(k int)
	rec = func(k int) {
		if k == n {
			text := prefix + string(buf)
			t := tryLit(text)
			l, _, _ := lexLit(text)
			if t != nil {
				obsT = append(obsT, fmt.Sprintf("(%d, %s)", idx, t.inner()))
				c.Count("enum-shortcut-" + t.Kind)
			}
			if l != nil {
				obsL = append(obsL, fmt.Sprintf("(%d, %s)", idx, l.inner()))
				c.Count("enum-parser-literal-" + l.Kind)
				c.Nontrivial(text)
			}
			c.OracleCheck()
			if key, msg := checkText(text); key != "" {
				c.OracleFail(key, msg, map[string]interface{}{"kind": "lit", "text": []byte(text)})
			}
			idx++
			return
		}
		for i := 0; i < len(alphabet); i++ {
			buf[k] = alphabet[i]
			rec(k + 1)
		}
	}
	rec(0)
	c.Evaluated(idx - 1)
	c.CountN("enum-texts", idx)
	w := 1 + idx/60
	c.AddCaseW(fmt.Sprintf("CEnum %s %s %s %s %s", core.Hex([]byte(alphabet)), core.Hex([]byte(prefix)), core.Nat(n), core.List(obsT), core.List(obsL)),
		map[string]interface{}{"kind": "enum", "prefix": []byte(prefix), "n": n}, w)
}

var directed = []string{
	`"a" + "b"`, `"a" "b"`, `"a"  "b" "c"`, `"a"b"`, `"a"/*c*/"b"`, `"a" // x`, "007", "-007", "00", "-0", "0", "-00", "1.", "-1.", "1.e5", "1.5e", "1.5e+", "1.5e+3", "1.5E-3", "0x1.8p1", "-0x1.8p1", "0x1p-2",
	"0X1.P+2", "1_0.5", "1_000", "1__0.5", "_1.5", "1.5_", "falſe", "FALſE", "trıe", "K", "true", "TRUE", "tRuE", "false", "FALSE", "fAlSe", " true ", " true ", "true　", "\u0085false", "true​",
	"true.x", "my.true", "MY.x", "target.false", "truex", "true1", "true_", "true false", "-true", "+false", "!true", "true;", "1;", "1]", "-5", "+5", "- 5", "+ 5", "-  5  ", "--5", "-+5", "+-5", "-(5)", "(5)", "5 5", "5a", "5e", "5e5", "5E+5", "-5e-5", "5.5.5",
	".5", "-.5", "+.5", ". 5", ".", "-", "+", "", " ", "\"", "\"\"", "\"\\\"", "\"\\\\\"", "\"\\\"\"", `"\t\n\r\b\f\'"`, `"\a"`, `"\S"`, `"\\\\server\Share"`, `"C:\\\\dir\l"`, `"\\\\\S"`, `"a\\\\b\q\"c"`, `"\0"`, `"\00"`, `"\000"`, `"\001"`, `"\1"`, `"\18"`, `"\101"`, `"\377"`, `"\400"`, `"\477"`, `"\777"`, `"\9"`, `"\08"`,
	"\"\xff\"", "\"\xc3\xa9\"", "\"\xc3\"", "\"\xe2\x9c\x93\"", "\"\xe2\x9c\"", "\"\xf0\x9f\x99\x82\"", "\"\xed\xa0\x80\"", "\"\xc0\x80\"", "\"\xf4\x90\x80\x80\"", "\"\xef\xbf\xbd\"", "\"a\x00b\"", "\"line1\nline2\"", "\"tab\there\"",
	"9223372036854775807", "9223372036854775808", "-9223372036854775808", "--9223372036854775808", "+-9223372036854775808", "- -5", "-9223372036854775809", "+9223372036854775808", "- 9223372036854775808", "18446744073709551616", "99999999999999999999", "-99999999999999999999",
	"1e400", "1.0e400", "-1.0e400", "1.0e308", "1.8e308", "1.7976931348623157e308", "1.7976931348623159e308", "1.0e-400", "-1.0e-400", "4.9e-324", "2.0e-324", "0.0", "-0.0", "0.0e0", "-0.0e-5", "00.5", "007.5", "-007.50",
	"1.5e005", "1.5e+005", "123456789012345678901234567890.5", "0.1234567890123456789012345678901234567890", "1.5e99999999999999999999", "1.5e-99999999999999999999",
	"inf", "-inf", "nan", "-nan.", "infinity", "Inf.", "-Infinity", "1.5f", "1.5d", "1,5", "1.5 ", " 1.5", "\t42\n", "\v42\f", "42\r\n", "\xc2\xa042", "42\xe2\x80\xa8", "\xe1\x9a\x8042", "42\xe2\x81\x9f", "42\xe2\x80\x8b", "\xc242", "42\xc2", "42\xe2\x80",
	"undefined", "error", "UNDEFINED", "x", "Cpus", "1 + 1", "1+1", "1 -1", "1-1", "\"a\"+\"b\"", "{1}", "[a=1]", "strcat(\"a\")", "1 ? 2 : 3", "1.5 .5", "1.5.", "1..5", "1.e", "e5", "E", "-e5", "0e0", "0e", "0.e0", "1e1.5", "1.5e1.5",
}

// mutate produces a near-literal text from a valid literal
func mutate(c *core.Ctx) string {
	seeds := []string{"true", "FALSE", "42", "-17", "0", "3.14", "-2.5e10", ".5", "1.0E-7", `"hello"`, `"a b"`, `""`, `"é✓"`, "9223372036854775807", "-9223372036854775808", `"x" "y"`, "100000.0", "1.5e+300"}
	ext := alphabet + "\"\"\\\\..eE--++0123456789 \tfFlLsSuUrR;]/*'(){}=\xc3\xa9\xff\xc2\xa0\xe2\x80\x83"
	b := []byte(seeds[c.Rng.Intn(len(seeds))])
	for k := c.Rng.Intn(3); k >= 0; k-- {
		ch := ext[c.Rng.Intn(len(ext))]
		switch c.Rng.Intn(3) {
		case 0:
			p := c.Rng.Intn(len(b) + 1)
			b = append(b[:p], append([]byte{ch}, b[p:]...)...)
		case 1:
			if len(b) > 0 {
				p := c.Rng.Intn(len(b))
				b = append(b[:p], b[p+1:]...)
			}
		default:
			if len(b) > 0 {
				b[c.Rng.Intn(len(b))] = ch
			}
		}
	}
	return string(b)
}

func litCase(c *core.Ctx, text string) {
	t := tryLit(text)
	l, _, _ := lexLit(text)
	_, ferr := strconv.ParseFloat(strings.TrimSpace(text), 64)
	ovf := false
	if ne, ok := ferr.(*strconv.NumError); ok && ne.Err == strconv.ErrRange {
		ovf = true
	}
	twoSided := !strings.ContainsAny(text, "/;")
	desc := map[string]interface{}{"kind": "lit", "text": []byte(text)}
	c.AddCase(fmt.Sprintf("CLit %s %s %s %s %s", bs(text), core.Bool(ovf), t.term(), l.term(), core.Bool(twoSided)), desc)
	c.OracleCheck()
	if key, msg := checkText(text); key != "" {
		c.OracleFail(key, msg, desc)
	}
	if l != nil {
		c.Nontrivial(text)
		c.Count("directed-parser-literal-" + l.Kind)
	} else {
		c.Count("directed-not-literal")
	}
	if t != nil {
		c.Count("directed-shortcut-" + t.Kind)
	}
}

// refOldString: the content of an OLD-ClassAd string literal as HTCondor reads it (Lexer::tokenizeStringOld):
// \" is a quote, every other byte - a lone or doubled backslash included - is literal; an
// unescaped quote inside means the text is not one string.
func refOldString(inner string) (string, bool) {
	var out []byte
	for i := 0; i < len(inner); i++ {
		if inner[i] == '\\' && i+1 < len(inner) && inner[i+1] == '"' {
			out = append(out, '"')
			i++
			continue
		}
		if inner[i] == '"' {
			return "", false
		}
		out = append(out, inner[i])
	}
	return string(out), true
}

// splitCase: one whole expression string through parseAndInsertExpression (hook). Reference, written
// from the wire format: the name is everything before the FIRST '=' (blanks trimmed), the value
// text everything after it; the value is what the full parser assigns to that text.
func splitCase(c *core.Ctx, e string) {
	ad := classad.New()
	var derr error
	func() {
		defer func() {
			if r := recover(); r != nil {
				derr = fmt.Errorf("panic: %v", r)
			}
		}()
		derr = message.VerifParseAndInsertExpression(ad, e)
	}()
	desc := map[string]interface{}{"kind": "split", "text": []byte(e)}
	obs := "None"
	var gotName string
	names := ad.GetAttributes()
	if derr == nil && len(names) == 1 {
		gotName = names[0]
		x, _ := ad.Lookup(gotName)
		var ol *olit
		if x != nil {
			if pe, err := parser.ParseExpr(x.String()); err == nil && astLit(pe) != nil {
				ol = valueLit(x.Eval(classad.New()))
			}
		}
		obs = fmt.Sprintf("(Some (%s, %s))", bs(gotName), ol.term())
	}
	c.AddCase(fmt.Sprintf("CSplit %s %s", bs(e), obs), desc)
	c.OracleCheck()
	if key, msg := splitOracle(e, ad, derr); key != "" {
		c.OracleFail(key, msg, desc)
	} else if derr == nil {
		c.Nontrivial("split:" + e)
	}
	c.Count("split-cases")
}

func splitOracle(e string, ad *classad.ClassAd, derr error) (string, string) {
	i := strings.IndexByte(e, '=')
	if i < 0 {
		if derr == nil {
			return "split-differs", fmt.Sprintf("expression string %q has no '=' but was accepted", e)
		}
		return "", ""
	}
	refName, refVal := strings.TrimSpace(e[:i]), strings.TrimSpace(e[i+1:])
	want, perr := parser.ParseExpr(refVal)
	if refName == "" || perr != nil {
		return "", "" // nothing the statement promises (the old-string fallback is checked elsewhere)
	}
	if derr != nil {
		return "split-differs", fmt.Sprintf("expression string %q (name %q, value %q - a valid expression) is rejected by the parsing receiver: %v", e, refName, refVal, derr)
	}
	names := ad.GetAttributes()
	if len(names) != 1 || names[0] != refName {
		return "split-differs", fmt.Sprintf("expression string %q: attribute stored as %q, the text before the first '=' is %q", e, names, refName)
	}
	got, _ := ad.Lookup(refName)
	if d := diffExpr(got, want); d != "" {
		return "split-differs", fmt.Sprintf("expression string %q (value text %q): %s", e, refVal, d)
	}
	return "", ""
}

var splitSeps = []string{" = ", "=", " =", "= ", "  =  ", "\t=\t", " =\t", "   ="}
var splitNames = []string{"A", "Args", "Req", "x_1", "MyType", "ZKM"}
var splitValues = []string{`"--mode = fast"`, `"a = b"`, `"a=b"`, `" = "`, `"="`, `"x" "= y"`, `A == 1`, `A==1`, `A =?= 1`, `A=?=1`, `A =!= UNDEFINED`, `B=!=2`,
	`x =?= "p = q"`, `strcat("k = ", "v")`, `strcat("k=","v")`, `{ "a = b", 2 }`, `[ p = 1 ]`, `[p=1;q="r = s"]`, `[ p = 1; q = [ r = 2 ] ].q.r`,
	`ifThenElse(a == b, "y = 1", "n")`, `(A = 1)`, `A = 1`, `1`, `-5`, `true`, `1.5`, `"plain"`, `a <= b`, `a >= b`, `a != b`, `!(a == b)`, `a = = b`, `= 1`, `"unterminated = `, ``}

// ---- expression grammar ----------------------------------------------------

var strAtoms = []string{`"hello"`, `""`, `"a b"`, `"quote \" inside"`, `"back\\slash"`, `"tab\there"`, `"nl\nx"`, `"caf\303\251"`, `"é✓🙂"`, `"a=b"`, `"semi;colon]"`, `"// not a comment"`, `"it's"`, `"\001\177"`,
	`"<10.0.0.1:9618?sock=x>#1#2"`, `"  padded  "`, `"true"`, `"42"`, `"a\" + \"b"`}
var intAtoms = []string{"0", "1", "42", "-1", "-42", "9223372036854775807", "-9223372036854775808", "-9223372036854775807", "2147483648", "1000000"}
var realAtoms = []string{"0.0", "-0.0", "1.5", "-2.25", "3.14159", "1.0e308", "1.7976931348623157e308", "5.0e-324", "1.0e-7", "100000.0", "1.0e21", "123456789.125", "0.1", "-1.0e-300", "1e10", "2E5"}
var boolAtoms = []string{"true", "false", "TRUE", "False", "tRuE"}
var refAtoms = []string{"Cpus", "Memory", "MY.Disk", "TARGET.Arch", "x_1", "undefined", "error", "PARENT.a"}
var binOps = []string{"+", "-", "*", "/", "%", "&&", "||", "==", "!=", "<", "<=", ">", ">=", "=?=", "=!=", "is", "isnt", "&", "|", "^", "<<", ">>", ">>>"}
var funcs = []string{"strcat", "ifThenElse", "size", "real", "int", "toUpper", "member", "min", "floor"}

func genAtom(c *core.Ctx) string {
	pick := func(l []string) string { return l[c.Rng.Intn(len(l))] }
	switch c.Rng.Intn(10) {
	case 0, 1:
		return pick(strAtoms)
	case 2, 3:
		return pick(intAtoms)
	case 4, 5:
		return pick(realAtoms)
	case 6:
		return pick(boolAtoms)
	case 7:
		return pick(refAtoms)
	case 8:
		return fmt.Sprint(c.Rng.Int63() - c.Rng.Int63())
	}
	return strconv.FormatFloat(c.Rng.NormFloat64()*math.Pow(10, float64(c.Rng.Intn(40)-20)), 'g', -1, 64)
}
func genExpr(c *core.Ctx, depth int) string {
	if depth <= 0 || c.Rng.Intn(3) == 0 {
		return genAtom(c)
	}
	switch c.Rng.Intn(9) {
	case 0, 1, 2:
		return genExpr(c, depth-1) + " " + binOps[c.Rng.Intn(len(binOps))] + " " + genExpr(c, depth-1)
	case 3:
		return []string{"-", "!", "~", "+"}[c.Rng.Intn(4)] + genExpr(c, depth-1)
	case 4:
		return genExpr(c, depth-1) + " ? " + genExpr(c, depth-1) + " : " + genExpr(c, depth-1)
	case 5:
		n := c.Rng.Intn(3)
		var args []string
		for i := 0; i <= n; i++ {
			args = append(args, genExpr(c, depth-1))
		}
		return funcs[c.Rng.Intn(len(funcs))] + "(" + strings.Join(args, ", ") + ")"
	case 6:
		n := c.Rng.Intn(4)
		var el []string
		for i := 0; i < n; i++ {
			el = append(el, genExpr(c, depth-1))
		}
		return "{" + strings.Join(el, ", ") + "}"
	case 7:
		return "[a = " + genExpr(c, depth-1) + "; b = " + genExpr(c, depth-1) + "]"
	}
	return "(" + genExpr(c, depth-1) + ")"
}

func genAttrs(c *core.Ctx, n int, literalBias bool) []wattr {
	var out []wattr
	used := map[string]bool{"mytype": true, "targettype": true}
	names := []string{"Name", "Cpus", "Memory", "Requirements", "Rank", "Owner", "Arch", "OpSys", "Disk", "State", "Activity", "LoadAvg", "KFlops", "Start", "x", "Y_2", "_z", "ClaimId", "_condor_privX", "JobUniverse", "Args", "Env", "Cmd", "Iwd", "ZKMa", "ZK", "Zeta", "zkm", "MyTypeVersion", "TargetTypeHint", "mytypes", "XMyType", "TargetTyp", "MYTYPE_2"}
	for len(out) < n {
		nm := names[c.Rng.Intn(len(names))]
		if c.Rng.Intn(6) == 0 {
			nm = fmt.Sprintf("Attr%d", c.Rng.Intn(1000))
		}
		if used[strings.ToLower(nm)] {
			continue
		}
		used[strings.ToLower(nm)] = true
		var text string
		if literalBias && c.Rng.Intn(3) != 0 {
			text = genAtom(c)
		} else {
			text = genExpr(c, 1+c.Rng.Intn(3))
		}
		if _, err := parser.ParseExpr(text); err != nil {
			continue
		}
		out = append(out, wattr{nm, text})
	}
	return out
}

var states = [][2]bool{{false, false}, {true, true}, {true, false}, {false, true}}

func wireCase(c *core.Ctx, w wire) error {
	var runs []string
	var first *wireResult
	for si, st := range states {
		w.Key, w.Enc = st[0], st[1]
		if w.Man && w.Key && !w.Enc {
			continue // a peer that does not toggle crypto cannot use a keyed, non-encrypting stream
		}
		if !w.wants(si) {
			continue
		}
		res, err := runWire(w)
		if err != nil {
			return err
		}
		if first == nil {
			first = res
		}
		var fr []string
		for _, f := range res.Frames {
			fr = append(fr, fmt.Sprintf("(%s, %s, %s)", core.Bool(f.Sealed), core.Bool(f.EOM), dig(f.Data)))
		}
		runs = append(runs, fmt.Sprintf("{| w_key := %s; w_enc := %s; w_frames := %s; w_raw_ok := %s; w_get_ok := %s; w_skip_ok := %s |}",
			core.Bool(w.Key), core.Bool(w.Enc), core.List(fr), core.Bool(res.RawOK), core.Bool(res.GetOK), core.Bool(res.SkipOK)))
		c.OracleCheck()
		if key, msg := wireOracle(w, res); key != "" {
			c.OracleFail(key, fmt.Sprintf("stream key=%v enc=%v: %s", w.Key, w.Enc, msg), w)
		} else {
			js, _ := json.Marshal(w)
			c.Nontrivial(string(js))
		}
		if len(res.Frames) > 1 {
			c.Count("wire-multi-frame")
		} else {
			c.Count("wire-single-frame")
		}
		nSealed := 0
		for _, f := range res.Frames {
			if f.Sealed {
				nSealed++
			}
		}
		if w.Key && !w.Enc && nSealed > 0 {
			c.Count("wire-secret-marker")
		}
	}
	c.Evaluated(len(states) - 1)
	for _, n := range first.Names {
		if strings.Contains(n, "=") {
			return nil // known finding attr-name-with-equals: the model's GetClassAd takes every string as parseable; oracle only
		}
	}
	weight := 2
	for _, t := range first.Texts {
		weight += len(t) / 1500
	}
	if w.Man {
		var its []string
		for i, n := range first.Names {
			its = append(its, core.Pair(core.Bool(classad.IsPrivateAttribute(n)), bs(first.Exprs[i])))
		}
		c.Count("wire-manual-marker")
		c.AddCaseW(fmt.Sprintf("CWireManual %s %s %s %s", core.List(its), bs(w.My), bs(w.Tg), core.List(runs)), w, weight)
	} else if w.Raw {
		c.AddCaseW(fmt.Sprintf("CWire %s %s %s %s", bsList(first.Exprs), bs(w.My), bs(w.Tg), core.List(runs)), w, weight)
	} else {
		var at []string
		for i := range first.Names {
			at = append(at, core.Pair(bs(first.Names[i]), bs(first.Texts[i])))
		}
		c.AddCaseW(fmt.Sprintf("CWireAd %d %s %s %s %s", w.Opts, core.List(at), bs(first.MyType), bs(first.TargetType), core.List(runs)), w, weight)
	}
	return nil
}

func gen(c *core.Ctx) error {
	c.Rule("(1) every text of length <= 4 (quick) / 5 (thorough) over the 17-symbol literal alphabet `0 1 7 9 - + . e E x _ \" \\ t T a space`: the real tryInsertLiteral (hook) against try_literal and the real parser.ParseExpr against lex_literal, two-sided; oracle on each text: if the shortcut fires the parser must read the very same literal, and parseAndInsertExpression must store what the parser reads; (2) a directed list (known leads, int64/float64 extremes, every escape, UTF-8 valid and invalid, Unicode blanks and fold look-alikes) and random edits of valid literals; (3) decodeOldClassAdString over all strings of length <= 5 over {a \" \\}; (4) ads from an expression grammar (operators, calls, lists, nested ads, escapes, UTF-8, extremes, booleans in any case) through PutClassAd / PutClassAdWithOptions(IncludePrivate) / PutClassAdRaw (padded texts) plus a trailer on real streams in four states (single- and multi-frame), received by GetClassAd, GetClassAdRaw and SkipClassAdRaw: frames against the model sender, the three model receivers against the real ones, each received attribute against the parser's reading of the sent text by value and type, trailer read after each receiver; (5) the FOURTH receiver GetClassAdWithMaxSize: for a catalogue of ads (with/without MyType/TargetType, private fields, PutClassAd / PutClassAdRaw / PutClassAdRawBytes / scripted senders, four stream states, single- and multi-frame) EVERY cap from 0 to total+3 (exhaustive over the caps of each ad) through the real receiver, compared with the model receiver get_ad_capped on the recorded frames; direct oracle: a capped read that reports success must return the ad GetClassAd returns on the same bytes and leave the sentinel next (capped-success-differs), and must succeed once the cap covers the charged total (capped-refuses-fitting); (6) a scripted sender writing the ad through the real Message writer and Stream.WriteFrame in small frames, cut at EVERY position of every segment (one and two cuts), the put_secret field under the real crypto toggle so that its length prefix and payload, and the marker and the secret, sit in different frames; one ad with a > 1 MiB private value through the real sender; four receivers on each, model receivers on the recorded frames. non-trivial = text the parser reads as a literal, or wire scenario that round-tripped")
	c.Assume("the numeric value of a real literal is strconv.ParseFloat of its text on both paths (checked by bit comparison in the oracle, not modelled)")

	// 1. exhaustive enumeration
	maxLen := 4
	if !c.Quick() {
		maxLen = 5
	}
	for n := 0; n <= 3; n++ {
		enumBlock(c, "", n)
	}
	for n := 4; n <= maxLen; n++ {
		var pre func(p string, k int)
		pre = func(p string, k int) {
			if k == 0 {
				enumBlock(c, p, 3)
				return
			}
			for i := 0; i < len(alphabet); i++ {
				pre(p+string(alphabet[i]), k-1)
			}
		}
		pre("", n-3)
	}
	c.Exhaustive(false)

	// 2. directed and mutated texts
	for _, t := range directed {
		litCase(c, t)
	}
	nMut := 1500
	if !c.Quick() {
		nMut = 20000
	}
	for i := 0; i < nMut; i++ {
		litCase(c, mutate(c))
	}
	for _, a := range [][]string{strAtoms, intAtoms, realAtoms, boolAtoms} {
		for _, t := range a {
			litCase(c, t)
			litCase(c, "  "+t+"\t")
		}
	}

	// 3. old-ClassAd string fallback
	var oldRec func(p string, k int)
	oldRec = func(p string, k int) {
		got, ok := message.VerifDecodeOldClassAdString(p)
		c.OracleCheck()
		if want, wok := refOldString(p); ok != wok || (ok && got != want) {
			c.OracleFail("oldstring-differs", fmt.Sprintf("old-ClassAd string %q: the fallback decoder yields %q (ok=%v); old ClassAd syntax (only \\\" is an escape, every other backslash is literal, an unescaped quote ends the string) yields %q (ok=%v)", p, got, ok, want, wok),
				map[string]interface{}{"kind": "old", "text": []byte(p)})
		}
		c.AddCase(fmt.Sprintf("COld %s %s", core.Hex([]byte(p)), core.Opt(ok, core.Hex([]byte(got)))), map[string]interface{}{"kind": "old", "text": []byte(p)})
		c.Count("old-string")
		if k == 0 {
			return
		}
		for _, ch := range "a\"\\" {
			oldRec(p+string(ch), k-1)
		}
	}
	oldRec("", 4)

	// 3b. the name/value split of the parsing receiver: every rendering of the separator x values
	// that themselves contain '=', ' = ', '==', '=?=', '=!='
	for _, n := range splitNames {
		for _, sep := range splitSeps {
			for _, v := range splitValues {
				splitCase(c, n+sep+v)
			}
		}
	}
	for _, e := range []string{"", "=", " = ", "A", "A B", "= 5", " =5", "A=", "A =", "A = ", "A==1", "A=?=1", "A =?= 1", "a b = 1", "A = 1 = 2", "A=B=C", "A = \"x\" = 1"} {
		splitCase(c, e)
	}
	// 4. wire
	nAds := 40
	if !c.Quick() {
		nAds = 400
	}
	// the leads, as an ordinary ad through the public API
	if err := wireCase(c, wire{Kind: "wire", Attrs: []wattr{{"A", `"a" + "b"`}, {"B", `"x" "y"`}, {"C", "-5"}, {"D", "1.5e3"}, {"E", `strcat("p", "q")`}, {"F", "TRUE"}}, My: "Machine", Tg: "Job"}); err != nil {
		return err
	}
	for i := 0; i < nAds; i++ {
		w := wire{Kind: "wire", Attrs: genAttrs(c, 1+c.Rng.Intn(8), i%2 == 0)}
		if c.Rng.Intn(4) != 0 {
			w.My = []string{"Machine", "Job", "Scheduler"}[c.Rng.Intn(3)]
		}
		if c.Rng.Intn(2) == 0 {
			w.Tg = []string{"Machine", "Job"}[c.Rng.Intn(2)]
		}
		switch i % 4 {
		case 1:
			w.Opts = 32 // IncludePrivate: the secret-marker path on a keyed, non-encrypting stream
			has := false
			for _, a := range w.Attrs {
				has = has || classad.IsPrivateAttribute(a.Name)
			}
			if !has {
				w.Attrs = append(w.Attrs, wattr{[]string{"ClaimId", "capability", "_condor_priv_k"}[c.Rng.Intn(3)], genAtom(c)})
			}
		case 2:
			w.Raw, w.Pad = true, c.Rng.Intn(100)
		case 3:
			w.Opts = []int{4, 32 | 4, 16, 8}[c.Rng.Intn(4)]
		}
		if i%10 == 9 { // multi-frame: a long string value and many attributes
			w.Attrs = append(w.Attrs, wattr{"BigValue", `"` + strings.Repeat("v", 14000+c.Rng.Intn(9000)) + `"`}, wattr{"TransferKey", `"` + strings.Repeat("s", 17000) + `"`})
			w.Attrs = append(w.Attrs, genAttrs(c, 6, true)...)
			seen := map[string]bool{}
			var uniq []wattr
			for _, a := range w.Attrs {
				if !seen[strings.ToLower(a.Name)] {
					seen[strings.ToLower(a.Name)] = true
					uniq = append(uniq, a)
				}
			}
			w.Attrs = uniq
		}
		if err := wireCase(c, w); err != nil {
			return err
		}
	}
	// names and values that resemble the secret marker without being it
	if err := wireCase(c, wire{Kind: "wire", Attrs: []wattr{{"ZKMa", `"ZKM"`}, {"ZK", "ZKM"}, {"Z", "1"}, {"ZKM_", `strcat("ZKM")`}}, My: "ZKM", Tg: "ZKMZKM"}); err != nil {
		return err
	}
	if err := wireCase(c, wire{Kind: "wire", Raw: true, Pad: 1, Attrs: []wattr{{"ZKMa", `"ZKM"`}, {"ZK", "ZKM"}, {"ZKM", "2"}}, My: "ZKM"}); err != nil {
		return err
	}
	// marker + secret written as two ordinary strings (both string modes): what a peer that need not
	// toggle crypto sends, e.g. C++ on an encrypted stream
	for i := 0; i < 6; i++ {
		w := wire{Kind: "wire", Man: true, Attrs: genAttrs(c, 2+c.Rng.Intn(4), true), My: "Machine", Tg: []string{"", "Job"}[i%2]}
		w.Attrs = append(w.Attrs, wattr{[]string{"ClaimId", "TransferKey", "_condor_priv_x"}[i%3], genAtom(c)})
		if i%2 == 1 {
			w.Attrs = append([]wattr{{"Capability", `"cap-first"`}}, w.Attrs...)
		}
		seen := map[string]bool{}
		var uniq []wattr
		for _, a := range w.Attrs {
			if !seen[strings.ToLower(a.Name)] {
				seen[strings.ToLower(a.Name)] = true
				uniq = append(uniq, a)
			}
		}
		w.Attrs = uniq
		if err := wireCase(c, w); err != nil {
			return err
		}
	}
	// compact renderings (no blanks around the first '=') of values that contain ' = ', '==', '=?='
	for p := -1; p >= -3; p-- {
		if err := wireCase(c, wire{Kind: "wire", Raw: true, Pad: p, My: "Job", Attrs: []wattr{
			{"Args", `"--mode = fast"`}, {"Req", `(Cpus == 1) && (Arch =?= "x = y")`}, {"Env", `strcat("k = ", "v")`},
			{"Nested", `[ p = 1; q = "r = s" ]`}, {"N", "42"}, {"S", `"a=b"`}, {"L", `{ "a = b", 2 }`}, {"T", `x =!= undefined`}}}); err != nil {
			return err
		}
	}
	// attribute names that merely resemble MyType / TargetType (prefix, suffix, other case), with the
	// type names in the slots only, in the body only, in both, or absent; every sender
	typeish := []wattr{{"MyTypeVersion", "3"}, {"TargetTypeHint", `"Job"`}, {"mytypes", `{ "a", "b" }`}, {"XMyType", `"x"`}, {"TargetTyp", "1.5"}, {"MYTYPE_2", "true"}, {"Cpus", "4"}}
	for i, tt := range [][2]string{{"Machine", "Job"}, {"Machine", ""}, {"", "Job"}, {"", ""}} {
		for _, mode := range []string{"raw", "man", "ad"} {
			w := wire{Kind: "wire", Attrs: append([]wattr(nil), typeish[i%2:]...), My: tt[0], Tg: tt[1], Raw: mode == "raw", Man: mode == "man", Pad: i}
			if err := wireCase(c, w); err != nil {
				return err
			}
		}
	}
	for _, w := range []wire{
		{Kind: "wire", Raw: true, Pad: 0, Attrs: []wattr{{"MyType", `"Job"`}, {"Cpus", "1"}}, My: "", Tg: ""},
		{Kind: "wire", Raw: true, Pad: 3, Attrs: []wattr{{"Cpus", "1"}, {"mytype", `"Job"`}, {"TARGETTYPE", `"Machine"`}}, My: "Job", Tg: "Machine"},
		{Kind: "wire", Man: true, Attrs: []wattr{{"TargetTypeHint", "1"}, {"ClaimId", `"s3cr3t-mytype"`}, {"MyTypeVersion", "2"}}, My: "Machine", Tg: "Job"},
	} {
		if err := wireCase(c, w); err != nil {
			return err
		}
	}
	// type slots that do not hold a type name ('=', quote, backslash, newline, 129 bytes): refused by the
	// raw-text receivers (isTypeName), taken as they are by the others
	for i, bad := range []string{"a=b", `q"x`, `back\\slash`, "two\nlines", "cr\rx", strings.Repeat("T", 129), `Name = "x"`} {
		w := wire{Kind: "wire", Raw: true, BadT: true, Pad: i, Attrs: []wattr{{"Name", `"x"`}, {"Cpus", "4"}}, My: bad, Tg: "Job"}
		if i%2 == 1 {
			w.My, w.Tg = "Machine", bad
			w.BadT = true
		}
		if err := wireCase(c, w); err != nil {
			return err
		}
		c.Count("wire-bad-type-name")
	}
	// outside the hypotheses of the round-trip theorems (known findings): an attribute name that needs
	// quoting because it contains '=', and (consumption only) strings that are not UTF-8 text
	{
		if err := wireCase(c, wire{Kind: "wire", Man: true, Attrs: []wattr{{"a=b", "5"}, {"Z", "1"}}, My: "Job"}); err != nil {
			return err
		}
		// not text (0xAD can never start valid UTF-8 and is the NULL-string marker): consumption only
		if err := wireCase(c, wire{Kind: "wire", Raw: true, NonText: true, Pad: 3, Attrs: []wattr{{"Name", `"x"`}, {"Bin", "\"\xff\xfe\""}}, My: "\xadfoo", Tg: "\xc3"}); err != nil {
			return err
		}
	}
	// a type name as long as isTypeName allows
	if err := wireCase(c, wire{Kind: "wire", Attrs: []wattr{{"Name", `"x"`}, {"Cpus", "4"}}, My: strings.Repeat("T", 128), Tg: strings.Repeat("j", 100)}); err != nil {
		return err
	}
	// raw texts that are literals in every spelling, padded
	var rawAttrs []wattr
	for i, t := range append(append(append([]string{}, intAtoms...), realAtoms...), append(boolAtoms, strAtoms...)...) {
		rawAttrs = append(rawAttrs, wattr{fmt.Sprintf("L%d", i), t})
	}
	for p := 0; p < 4; p++ {
		if err := wireCase(c, wire{Kind: "wire", Raw: true, Pad: p, Attrs: rawAttrs, My: "Machine"}); err != nil {
			return err
		}
	}
	// a private attribute whose rendered text does not fit one frame (> 1 MiB) through the real sender with
	// IncludePrivate: on the keyed, non-encrypting stream the put_secret field spans several sealed frames
	// (length prefix alone, then 1 MiB chunks)
	if err := wireCase(c, wire{Kind: "wire", Opts: 32, Only: []int{2}, My: "Machine", Tg: "Job",
		Attrs: []wattr{{"Name", `"x"`}, {"ClaimIdList", `"` + strings.Repeat("c", 1048576+4000+c.Rng.Intn(3000)) + `"`}, {"Cpus", "4"}}}); err != nil {
		return err
	}
	c.Count("wire-secret-over-1MiB")
	// the four receivers on explicit frames: exhaustive cap sweep, scripted small-frame sender
	if err := genFrames(c); err != nil {
		return err
	}
	c.Sample(map[string]interface{}{"alphabet": alphabet, "max_len": maxLen, "directed": len(directed), "mutated": nMut, "wire_ads": nAds + 5})
	return nil
}

func replay(raw json.RawMessage) error {
	var d struct {
		Kind   string `json:"kind"`
		Text   []byte `json:"text"`
		Prefix []byte `json:"prefix"`
		N      int    `json:"n"`
	}
	if err := json.Unmarshal(raw, &d); err != nil {
		return err
	}
	switch d.Kind {
	case "old":
		got, ok := message.VerifDecodeOldClassAdString(string(d.Text))
		if want, wok := refOldString(string(d.Text)); ok != wok || (ok && got != want) {
			return fmt.Errorf("oldstring-differs: %q decodes to %q (ok=%v), old ClassAd syntax yields %q (ok=%v)", d.Text, got, ok, want, wok)
		}
		return nil
	case "split":
		e := string(d.Text)
		ad := classad.New()
		var derr error
		func() {
			defer func() {
				if r := recover(); r != nil {
					derr = fmt.Errorf("panic: %v", r)
				}
			}()
			derr = message.VerifParseAndInsertExpression(ad, e)
		}()
		if key, msg := splitOracle(e, ad, derr); key != "" {
			return fmt.Errorf("%s: %s", key, msg)
		}
		return nil
	case "lit":
		if key, msg := checkText(string(d.Text)); key != "" {
			return fmt.Errorf("%s: %s", key, msg)
		}
		return nil
	case "enum":
		buf := make([]byte, d.N)
		var err error
		var rec func(k int)
		rec = func(k int) {
			if err != nil {
				return
			}
			if k == d.N {
				if key, msg := checkText(string(d.Prefix) + string(buf)); key != "" {
					err = fmt.Errorf("%s: %s", key, msg)
				}
				return
			}
			for i := 0; i < len(alphabet); i++ {
				buf[k] = alphabet[i]
				rec(k + 1)
			}
		}
		rec(0)
		return err
	case "frames":
		return replayFrames(raw)
	case "wire":
		var w wire
		if err := json.Unmarshal(raw, &w); err != nil {
			return err
		}
		for si, st := range states {
			w.Key, w.Enc = st[0], st[1]
			if w.Man && w.Key && !w.Enc {
				continue
			}
			if !w.wants(si) {
				continue
			}
			res, err := runWire(w)
			if err != nil {
				return err
			}
			if key, msg := wireOracle(w, res); key != "" {
				return fmt.Errorf("%s (key=%v enc=%v): %s", key, w.Key, w.Enc, msg)
			}
		}
		return nil
	}
	return nil
}

func main() { core.Main("C08", gen, replay) }
