// api.go: every exported value method of message.Message is either driven by this
// harness (apiExercised: the correspondence and the oracles go through it, and the run
// fails if one of them was never called) or on apiAllowed with the reason it is covered
// elsewhere.  `vh-c14 facts` lists the methods found in /repo's source next to these two
// tables in coq/gen/FactsC14.v; Props/C14.v proves that nothing is left over.
package main

import (
	"bytes"
	"context"
	"fmt"
	"go/ast"
	"go/parser"
	"go/token"
	"math"
	"math/big"
	"os"
	"path/filepath"
	"runtime"
	"sort"
	"strings"

	"verifharness/core"
	"verifharness/mock"

	"github.com/bbockelm/cedar/message"
)

var called = map[string]int{}

var apiExercised = []string{
	"PutChar", "PutInt", "PutInt32", "PutInt64", "PutUint32", "PutFloat", "PutDouble", "PutString", "PutStringBytes", "PutBytes",
	"PutClassAdRaw", "PutClassAdRawBytes", "FinishMessage",
	"GetChar", "GetInt", "GetInt32", "GetInt64", "GetUint32", "GetFloat", "GetDouble", "GetString", "GetBytes", "GetRemainingBytes",
	"CodeChar", "CodeInt", "CodeInt32", "CodeInt64", "CodeFloat", "CodeDouble", "CodeString",
}

var apiAllowed = [][2]string{
	{"IsEncode", "state query, no value written or read"},
	{"IsDecode", "state query, no value written or read"},
	{"Finished", "state query, no value written or read (C13 correspondence)"},
	{"FlushFrame", "framing only, encodes no value; the writer theorems include an explicit flush (WFlush) at any point and FinishMessage = FlushFrame(true) is exercised"},
	{"GetStringWithMaxSize", "bounded decoder: C13 correspondence and theorems (C13_cap)"},
	{"SkipString", "bounded decoder: C13 correspondence"},
	{"GetClassAd", "ClassAd layer: C08 / C13 correspondence"},
	{"GetClassAdWithMaxSize", "ClassAd layer: C13 correspondence (C13_cap_classad_*)"},
	{"GetClassAdRaw", "ClassAd layer: C13 correspondence"},
	{"GetClassAdRawBody", "ClassAd layer: C13 correspondence"},
	{"SkipClassAdRaw", "ClassAd layer: C13 correspondence"},
	{"PutClassAd", "ClassAd layer: C08 / C09 correspondence"},
	{"PutClassAdWithOptions", "ClassAd layer: C09 correspondence"},
}

// which entry points can carry a value of each kind
var putAPIs = map[string][]string{
	"char":   {"PutChar", "CodeChar"},
	"int":    {"PutInt64", "PutInt", "CodeInt64", "CodeInt"},
	"int32":  {"PutInt32", "CodeInt32"},
	"uint32": {"PutUint32"},
	"str":    {"PutString", "CodeString"},
	"double": {"PutDouble", "CodeDouble"},
	"float":  {"PutFloat", "CodeFloat"},
	"strb":   {"PutStringBytes"},
	"bytes":  {"PutBytes"},
}

func (v val) api() string {
	if v.API != "" {
		return v.API
	}
	return putAPIs[v.Kind][0]
}

// the reading entry point paired with a writing one: Put* -> Get*, Code* -> the same Code*
func getAPIFor(putAPI string) string {
	switch {
	case strings.HasPrefix(putAPI, "Code"):
		return putAPI
	case putAPI == "PutStringBytes":
		return "GetString"
	case strings.HasPrefix(putAPI, "Put"):
		return "Get" + putAPI[3:]
	}
	return ""
}

// putVia sends v through the entry point v.api().  For the Code* family (encode
// direction) it also reports if the call changed the caller's variable.
func putVia(m *message.Message, v val) (err error, modified string) {
	a := v.api()
	called[a]++
	changed := func(ok bool) {
		if !ok {
			modified = a + " in encode direction changed the caller's value"
		}
	}
	switch a {
	case "PutChar":
		return m.PutChar(ctx, byte(v.I)), ""
	case "CodeChar":
		x := byte(v.I)
		err = m.CodeChar(ctx, &x)
		changed(x == byte(v.I))
	case "PutInt64":
		return m.PutInt64(ctx, v.I), ""
	case "PutInt":
		return m.PutInt(ctx, int(v.I)), ""
	case "CodeInt64":
		x := v.I
		err = m.CodeInt64(ctx, &x)
		changed(x == v.I)
	case "CodeInt":
		x := int(v.I)
		err = m.CodeInt(ctx, &x)
		changed(x == int(v.I))
	case "PutInt32":
		return m.PutInt32(ctx, int32(v.I)), ""
	case "CodeInt32":
		x := int32(v.I)
		err = m.CodeInt32(ctx, &x)
		changed(x == int32(v.I))
	case "PutUint32":
		return m.PutUint32(ctx, uint32(v.I)), ""
	case "PutString":
		return m.PutString(ctx, string(v.bytes())), ""
	case "CodeString":
		x := string(v.bytes())
		err = m.CodeString(ctx, &x)
		changed(x == string(v.bytes()))
	case "PutDouble":
		return m.PutDouble(ctx, math.Float64frombits(v.Bits)), ""
	case "CodeDouble":
		x := math.Float64frombits(v.Bits)
		err = m.CodeDouble(ctx, &x)
		changed(math.Float64bits(x) == v.Bits)
	case "PutFloat":
		return m.PutFloat(ctx, math.Float32frombits(uint32(v.I))), ""
	case "CodeFloat":
		x := math.Float32frombits(uint32(v.I))
		err = m.CodeFloat(ctx, &x)
		changed(math.Float32bits(x) == uint32(v.I))
	default:
		return fmt.Errorf("harness: no entry point %q for kind %q", a, v.Kind), ""
	}
	return err, modified
}

// getVia reads one value through g.API (default: the Get* method of g.Op).
func getVia(m *message.Message, g gop) (gres, error) {
	a := g.API
	if a == "" {
		a = map[string]string{"char": "GetChar", "int": "GetInt64", "int32": "GetInt32", "uint32": "GetUint32", "str": "GetString", "double": "GetDouble", "float": "GetFloat"}[g.Op]
	}
	called[a]++
	switch a {
	case "GetChar":
		c, err := m.GetChar(ctx)
		return gres{Kind: "char", I: int64(c)}, err
	case "CodeChar":
		c := byte(0x99)
		err := m.CodeChar(ctx, &c)
		return gres{Kind: "char", I: int64(c)}, err
	case "GetInt64":
		v, err := m.GetInt64(ctx)
		return gres{Kind: "int", I: v}, err
	case "GetInt":
		v, err := m.GetInt(ctx)
		return gres{Kind: "int", I: int64(v)}, err
	case "CodeInt64":
		v := int64(-0x5a5a5a5a5a5a5a5a)
		err := m.CodeInt64(ctx, &v)
		return gres{Kind: "int", I: v}, err
	case "CodeInt":
		v := int(-0x5a5a5a5a5a5a5a5a)
		err := m.CodeInt(ctx, &v)
		return gres{Kind: "int", I: int64(v)}, err
	case "GetInt32":
		v, err := m.GetInt32(ctx)
		return gres{Kind: "int", I: int64(v)}, err
	case "CodeInt32":
		v := int32(-0x5a5a5a5a)
		err := m.CodeInt32(ctx, &v)
		return gres{Kind: "int", I: int64(v)}, err
	case "GetUint32":
		v, err := m.GetUint32(ctx)
		return gres{Kind: "int", I: int64(v)}, err
	case "GetString":
		s, err := m.GetString(ctx)
		return gres{Kind: "bytes", B: []byte(s)}, err
	case "CodeString":
		s := "stale"
		err := m.CodeString(ctx, &s)
		return gres{Kind: "bytes", B: []byte(s)}, err
	case "GetDouble":
		d, err := m.GetDouble(ctx)
		return gres{Kind: "double", Bits: math.Float64bits(d)}, err
	case "CodeDouble":
		d := 12345.678
		err := m.CodeDouble(ctx, &d)
		return gres{Kind: "double", Bits: math.Float64bits(d)}, err
	case "GetFloat":
		f, err := m.GetFloat(ctx)
		return gres{Kind: "float", Bits: uint64(math.Float32bits(f))}, err
	case "CodeFloat":
		f := float32(12345.678)
		err := m.CodeFloat(ctx, &f)
		return gres{Kind: "float", Bits: uint64(math.Float32bits(f))}, err
	}
	return gres{}, fmt.Errorf("harness: no entry point %q", a)
}

// ---- float32: PutFloat(f) = PutDouble(float64(f)); GetFloat = float32(GetDouble) ----

// widenBits: the binary64 pattern of a binary32 pattern (exact), by bit manipulation
func widenBits(b uint32) uint64 {
	s := uint64(b>>31) << 63
	e := int((b >> 23) & 0xff)
	m := uint64(b & 0x7fffff)
	switch {
	case e == 0xff:
		return s | 0x7ff<<52 | m<<29
	case e == 0:
		if m == 0 {
			return s
		}
		n := 64 - leadingZeros(m) // subnormal m * 2^-149 = 1.xxx * 2^(n-1-149)
		return s | uint64(n-1-149+1023)<<52 | (m<<uint(53-n))&(1<<52-1)
	}
	return s | uint64(e-127+1023)<<52 | m<<29
}

// narrowBits: the binary32 pattern nearest (ties to even) to a finite binary64 pattern, via math/big
func narrowBits(b uint64) uint32 {
	x := bigOfBits(b)
	f, _ := new(big.Float).SetPrec(64).Set(x).Float32()
	r := math.Float32bits(f)
	if b>>63 == 1 && r<<1 == 0 {
		r = 1 << 31
	}
	return r
}

func finite32(b uint32) bool { return (b>>23)&0xff != 0xff }

// ---- translator fact ----------------------------------------------------------------
func facts(w *strings.Builder) error {
	repo := os.Getenv("VERIF_REPO")
	if repo == "" {
		repo = "/repo"
	}
	files, err := filepath.Glob(filepath.Join(repo, "message", "*.go"))
	if err != nil {
		return err
	}
	fset := token.NewFileSet()
	set := map[string]bool{}
	for _, f := range files {
		base := filepath.Base(f)
		if strings.HasSuffix(base, "_test.go") || strings.HasPrefix(base, "verif_hooks") { // hooks: build tag verif, add-only exports for the harnesses
			continue
		}
		af, err := parser.ParseFile(fset, f, nil, 0)
		if err != nil {
			return err
		}
		for _, d := range af.Decls {
			fd, ok := d.(*ast.FuncDecl)
			if !ok || fd.Recv == nil || len(fd.Recv.List) != 1 || !fd.Name.IsExported() {
				continue
			}
			t := fd.Recv.List[0].Type
			if st, ok := t.(*ast.StarExpr); ok {
				t = st.X
			}
			if id, ok := t.(*ast.Ident); ok && id.Name == "Message" {
				set[fd.Name.Name] = true
			}
		}
	}
	if len(set) == 0 {
		return fmt.Errorf("no exported methods of message.Message found under %s", repo)
	}
	var names []string
	for n := range set {
		names = append(names, n)
	}
	sort.Strings(names)
	q := func(xs []string) string {
		var out []string
		for _, x := range xs {
			out = append(out, `"`+x+`"`)
		}
		return "[" + strings.Join(out, "; ") + "]"
	}
	w.WriteString("(* GENERATED by harness/cmd/vh-c14 facts from /repo's current source (go/parser over message/*.go). Do not edit. *)\n")
	w.WriteString("From Coq Require Import String List.\nImport ListNotations.\nLocal Open Scope string_scope.\n")
	w.WriteString("(* every exported method of message.Message *)\n")
	w.WriteString("Definition message_methods : list string := " + q(names) + ".\n")
	w.WriteString("(* entry points driven by vh-c14 (the run fails if one of them is never called) *)\n")
	w.WriteString("Definition harness_exercised : list string := " + q(apiExercised) + ".\n")
	w.WriteString("(* entry points covered elsewhere, with the reason *)\n")
	var al []string
	for _, a := range apiAllowed {
		al = append(al, `("`+a[0]+`", "`+a[1]+`")`)
	}
	w.WriteString("Definition harness_allowed : list (string * string) := [" + strings.Join(al, ";\n  ") + "].\n")
	return nil
}

// everyExercisedWasCalled: the exercised table is not a promise but an observation
func everyExercisedWasCalled() error {
	var missing []string
	for _, a := range apiExercised {
		if called[a] == 0 {
			missing = append(missing, a)
		}
	}
	if len(missing) > 0 {
		return fmt.Errorf("entry points listed as exercised but never called in this run: %v", missing)
	}
	return nil
}

// apiRound: one message of vs (all written through the entry point api), encoded (layout
// oracle + model writer) and decoded through the paired entry point at the writer's own
// framing, a random multi-cut and one byte per frame (round-trip oracle + model reader).
func apiRound(c *core.Ctx, enc bool, vs []val, tag string) {
	fr, ok := encodeCase(c, enc, vs)
	if !ok {
		return
	}
	c.Count("enc-api-" + tag)
	all := concat(fr)
	var exp []gres
	for _, x := range vs {
		exp = append(exp, expect(x))
	}
	var every, some []int
	for p := 1; p < len(all); p++ {
		every = append(every, p)
	}
	for k := 0; k < 3 && len(all) > 0; k++ {
		some = append(some, c.Rng.Intn(len(all)+1))
	}
	sort.Ints(some)
	for _, cs := range [][]int{{}, some, every} {
		desc := map[string]interface{}{"kind": "dec", "enc": enc, "vals": vs, "cuts": cs}
		decodeCase(c, enc, mock.Cut(all, cs), opsFor(vs), exp, desc)
		c.Nontrivial(fmt.Sprint("api", tag, enc, vs, cs))
	}
}

var int32Edges = []int64{0, 1, -1, 127, -128, 255, 256, 32767, -32768, 65535, math.MaxInt32, math.MinInt32, math.MaxInt32 - 1, math.MinInt32 + 1, 1700000000, -1700000000}
var uint32Edges = []int64{0, 1, 255, 65535, 65536, math.MaxInt32, math.MaxInt32 + 1, math.MaxUint32, math.MaxUint32 - 1, 4000000000}
var int64Extra = []int64{1700000000000, -1700000000000, 1 << 31, -(1 << 31) - 1, 1 << 32, 1<<32 - 1, 1 << 53, 1<<62 + 12345}
var floatEdges = []uint32{0, 1 << 31, 1, 0x007fffff, 0x00800000, 0x00800001, 0x7f7fffff, 0xff7fffff, 0x3f800000, 0xbf800000, 0x3f7fffff, 0x3f800001,
	0x40490fdb, 0x3dcccccd, 0x3f000000, 0x4f000000, 0xcf000000, 0x4effffff, 0x00000002, 0x00400000, 0x33800000, 0x7f000000}

// genAPIs: every typed entry point (Put*, Get*, Code* in BOTH directions) with the boundary
// values of its type, in both modes.
func genAPIs(c *core.Ctx) {
	chunk := func(enc bool, kind, api string, xs []int64, n int) {
		for i := 0; i < len(xs); i += n {
			j := i + n
			if j > len(xs) {
				j = len(xs)
			}
			var vs []val
			for _, x := range xs[i:j] {
				vs = append(vs, val{Kind: kind, I: x, API: api})
			}
			apiRound(c, enc, vs, api)
		}
	}
	for _, enc := range []bool{false, true} {
		for _, api := range putAPIs["int"] {
			chunk(enc, "int", api, append(append([]int64(nil), intEdges...), int64Extra...), 12)
		}
		for _, api := range putAPIs["int32"] {
			chunk(enc, "int32", api, int32Edges, 12)
		}
		chunk(enc, "uint32", "PutUint32", uint32Edges, 12)
		for _, api := range putAPIs["char"] {
			chunk(enc, "char", api, []int64{0, 1, 0x7f, 0x80, 0xad, 0xff, 0x41}, 12)
		}
		for _, api := range putAPIs["str"] {
			long := make([]byte, 300)
			for i := range long {
				long[i] = byte('a' + i%26)
			}
			var vs []val
			for _, b := range [][]byte{{}, []byte("a"), []byte("héllo wörld ✓"), []byte("cut\x00here"), long, []byte("Attr = \"value\"")} {
				vs = append(vs, val{Kind: "str", B: b, API: api})
			}
			apiRound(c, enc, vs[:4], api)
			apiRound(c, enc, vs[4:], api)
		}
		for _, api := range putAPIs["double"] {
			var vs []val
			for _, b := range []uint64{0, 1 << 63, 1, 1 << 52, 0x7fefffffffffffff, 0xffefffffffffffff, 0x3ff0000000000000, 0x400921fb54442d18, 0x3fe0000000200000, 0xc1e0000000000000, 1<<30 - 1, 0x41dfffffffc00000} {
				vs = append(vs, val{Kind: "double", Bits: b, API: api})
			}
			apiRound(c, enc, vs[:6], api)
			apiRound(c, enc, vs[6:], api)
		}
		// float32: PutFloat / CodeFloat (encode: model = PutDouble of the widened value;
		// decode: GetFloat / CodeFloat against the math/big reference, oracle only)
		fl := append([]uint32(nil), floatEdges...)
		for e := uint32(1); e < 255; e += 23 {
			fl = append(fl, e<<23, e<<23|1, e<<23-1)
		}
		nr := 60
		if !c.Quick() {
			nr = 3000
		}
		for i := 0; i < nr; i++ {
			b := c.Rng.Uint32()
			if i%5 == 0 {
				b &^= 0xff << 23 // subnormal
			}
			if finite32(b) {
				fl = append(fl, b)
			}
		}
		for ai, api := range putAPIs["float"] {
			for i := 0; i < len(fl); i += 6 {
				if c.Quick() && enc && i >= 36 {
					break // floats are laid out identically in both modes
				}
				j := i + 6
				if j > len(fl) {
					j = len(fl)
				}
				var vs []val
				for k, b := range fl[i:j] {
					a := api
					if i >= len(floatEdges) && (k+ai)%2 == 1 {
						a = putAPIs["float"][1-ai]
					}
					vs = append(vs, val{Kind: "float", I: int64(b), API: a})
				}
				apiRound(c, enc, vs, "float")
			}
			if c.Quick() && ai == 0 {
				fl = fl[:len(floatEdges)] // the second entry point: the edge values again; the rest was mixed above
			}
		}
		if runtime.GOARCH == "amd64" { // NaN / Inf as float32: same implementation-defined conversion as for doubles
			for _, b := range []uint32{0x7f800000, 0xff800000, 0x7fc00000} {
				encodeCase(c, enc, []val{{Kind: "float", I: int64(b)}})
			}
		}
		// one message through every writing entry point, read back through every reading one
		all := []val{
			{Kind: "char", I: 0x41, API: "PutChar"}, {Kind: "char", I: 0xad, API: "CodeChar"},
			{Kind: "int", I: math.MinInt64, API: "PutInt"}, {Kind: "int", I: math.MaxInt64, API: "PutInt64"},
			{Kind: "int", I: 1700000000000, API: "CodeInt"}, {Kind: "int", I: -1700000000000, API: "CodeInt64"},
			{Kind: "int32", I: math.MinInt32, API: "PutInt32"}, {Kind: "int32", I: math.MaxInt32, API: "CodeInt32"},
			{Kind: "uint32", I: math.MaxUint32, API: "PutUint32"},
			{Kind: "double", Bits: 0x400921fb54442d18, API: "PutDouble"}, {Kind: "double", Bits: 0xc00921fb54442d18, API: "CodeDouble"},
			{Kind: "str", B: []byte("put"), API: "PutString"}, {Kind: "str", B: []byte("code"), API: "CodeString"},
			{Kind: "strb", B: []byte("bytes")}, {Kind: "bytes", B: []byte{0, 1, 2}},
		}
		apiRound(c, enc, all[:9], "all-a")
		apiRound(c, enc, all[9:], "all-b")
	}
}

// ---- strings at the limit of the encrypted-stream length prefix (int32) ---------------
// The theorems assume an encrypted string (terminator included) is shorter than 2^31
// bytes.  Here the real writer is run AT that limit (oracle only: 2 GiB values cannot be
// handed to the Coq model): 2^31-2 content bytes must go out with the prefix 2^31-1 and
// every payload byte intact; 2^31-1 content bytes cannot be announced by an int32 prefix,
// so the writer must refuse the value and write nothing of it - accepting it would put a
// wrapped (negative) length on the wire that every cedar reader rejects.
type countingStream struct {
	enc              bool
	frames, total    int
	maxFrame         int
	head             []byte // first 16 payload bytes
	nonA             int    // payload bytes after the head that are not 'a'
	last             byte
	eomSeen, eomLast bool
}

func (s *countingStream) ReadFrame(ctx context.Context) ([]byte, bool, error) {
	return nil, false, fmt.Errorf("write-only stream")
}
func (s *countingStream) WriteFrame(ctx context.Context, d []byte, eom bool) error {
	s.frames++
	if len(d) > s.maxFrame {
		s.maxFrame = len(d)
	}
	rest := d
	for len(s.head) < 16 && len(rest) > 0 {
		s.head = append(s.head, rest[0])
		rest = rest[1:]
	}
	s.nonA += len(rest) - bytes.Count(rest, []byte{'a'})
	if len(d) > 0 {
		s.last = d[len(d)-1]
	}
	s.total += len(d)
	s.eomLast = eom
	s.eomSeen = s.eomSeen || eom
	return nil
}
func (s *countingStream) IsEncrypted() bool { return s.enc }

func genHuge(c *core.Ctx) {
	if math.MaxInt == math.MaxInt32 {
		c.Assume("32-bit platform: strings of 2^31 bytes cannot exist; the length-prefix limit cases are skipped")
		return
	}
	var buf []byte
	func() {
		defer func() { recover() }()
		buf = make([]byte, math.MaxInt32)
	}()
	if buf == nil {
		c.Assume("could not allocate 2 GiB: the length-prefix limit cases are skipped")
		return
	}
	buf[0] = 'a'
	for n := 1; n < len(buf); n *= 2 {
		copy(buf[n:], buf[:n])
	}
	type hc struct {
		api string
		enc bool
		n   int
	}
	cases := []hc{{"PutStringBytes", true, math.MaxInt32 - 1}, {"PutStringBytes", true, math.MaxInt32}, {"PutStringBytes", false, math.MaxInt32}}
	if !c.Quick() {
		cases = append(cases, hc{"PutString", true, math.MaxInt32 - 1}, hc{"PutString", true, math.MaxInt32}, hc{"CodeString", true, math.MaxInt32})
	}
	for _, h := range cases {
		st := &countingStream{enc: h.enc}
		m := message.NewMessageForStream(st)
		_ = m.PutChar(ctx, 0x3c)
		var err error
		called[h.api]++
		switch h.api {
		case "PutStringBytes":
			err = m.PutStringBytes(ctx, buf[:h.n])
		case "PutString":
			err = m.PutString(ctx, string(buf[:h.n]))
		default:
			s := string(buf[:h.n])
			err = m.CodeString(ctx, &s)
		}
		_ = m.PutChar(ctx, 0x3e)
		_ = m.FinishMessage(ctx)
		desc := map[string]interface{}{"kind": "huge-string", "enc": h.enc, "api": h.api, "n": h.n}
		c.Count(fmt.Sprintf("huge-string-%s-enc=%v-n=%d", h.api, h.enc, h.n))
		c.Evaluated(1)
		c.OracleCheck()
		if msg := hugeVerdict(h.enc, h.n, err, st); msg != "" {
			c.OracleFail("string-length-prefix-limit", msg, desc)
		}
	}
}

// hugeVerdict: "" if the writer treated an n-byte string of 'a's correctly (see genHuge).
func hugeVerdict(enc bool, n int, err error, st *countingStream) string {
	fits := !enc || n+1 <= math.MaxInt32
	if !fits {
		if err == nil {
			return fmt.Sprintf("the writer accepted a %d-byte string on an encrypted stream although its length %d does not fit the int32 prefix; it announced it with the bytes %x (a cedar reader rejects this message)", n, n+1, st.head[1:9])
		}
		if st.total != 2 { // the two chars around it
			return fmt.Sprintf("the refused string left %d payload bytes on the wire (want 2: the surrounding chars)", st.total)
		}
		return ""
	}
	if err != nil {
		return fmt.Sprintf("the writer refused a %d-byte string that the format can carry: %v", n, err)
	}
	want := 1 + n + 1 + 1
	wantHead := []byte{0x3c}
	if enc {
		want += 8
		wantHead = append(wantHead, i64(int64(n+1))...)
	}
	for len(wantHead) < 16 {
		wantHead = append(wantHead, 'a')
	}
	switch {
	case st.total != want:
		return fmt.Sprintf("%d payload bytes emitted, the format prescribes %d", st.total, want)
	case !bytes.Equal(st.head, wantHead):
		return fmt.Sprintf("message starts with %x, the format prescribes %x", st.head, wantHead)
	case st.nonA != 2 || st.last != 0x3e:
		return fmt.Sprintf("payload corrupted: %d bytes other than the content byte after the head (want 2: terminator and closing char), last byte %#x", st.nonA, st.last)
	case st.maxFrame > message.MaxFrameSize:
		return fmt.Sprintf("a frame of %d bytes was handed to the stream", st.maxFrame)
	case !st.eomLast:
		return "the last frame does not carry EOM"
	}
	return ""
}
