// vh-c14: correspondence + oracle for C14 (typed values: layout and frame-cut independence).
package main

import (
	"bytes"
	"context"
	"encoding/binary"
	"encoding/json"
	"errors"
	"fmt"
	"io"
	"math"
	"sort"
	"strings"
	"unicode/utf8"

	"verifharness/core"
	"verifharness/mock"

	"github.com/bbockelm/cedar/message"
)

type val struct {
	Kind string `json:"k"` // char int int32 uint32 str strb bytes
	I    int64  `json:"i,omitempty"`
	B    []byte `json:"b,omitempty"` // literal bytes
	Off  int    `json:"off,omitempty"`
	Len  int    `json:"len,omitempty"` // payload descriptor when B == nil and Len > 0
	NZ   bool   `json:"nz,omitempty"`
}

func (v val) bytes() []byte {
	if v.B != nil || v.Len == 0 {
		return v.B
	}
	if v.NZ {
		return payloadNZ(v.Off, v.Len)
	}
	return core.Payload(v.Off, v.Len)
}
func payloadNZ(off, n int) []byte {
	out := make([]byte, n)
	p := off % 250
	for i := range out {
		out[i] = byte(p + 1)
		p++
		if p == 250 {
			p = 0
		}
	}
	return out
}
func (v val) bytesTerm() string {
	if v.B != nil || v.Len == 0 {
		return core.Hex(v.B)
	}
	if v.NZ {
		return fmt.Sprintf("(payload_nz %d %d)", v.Off, v.Len)
	}
	return core.PayloadTerm(v.Off, v.Len)
}
func (v val) term() string {
	switch v.Kind {
	case "char":
		return fmt.Sprintf("(VChar %d)", v.I)
	case "int", "int32", "uint32":
		return "(VInt " + core.Z(v.I) + ")"
	case "str":
		return "(VStr " + v.bytesTerm() + ")"
	case "strb":
		return "(VStrB " + v.bytesTerm() + ")"
	default:
		return "(VBytes " + v.bytesTerm() + ")"
	}
}

var ctx = context.Background()

func put(m *message.Message, v val) error {
	switch v.Kind {
	case "char":
		return m.PutChar(ctx, byte(v.I))
	case "int":
		return m.PutInt64(ctx, v.I)
	case "int32":
		return m.PutInt32(ctx, int32(v.I))
	case "uint32":
		return m.PutUint32(ctx, uint32(v.I))
	case "str":
		return m.PutString(ctx, string(v.bytes()))
	case "strb":
		return m.PutStringBytes(ctx, v.bytes())
	default:
		return m.PutBytes(ctx, v.bytes())
	}
}

// specEncode is an independent encoder written from the protocol description:
// ints are 8-byte big-endian two's complement, chars one byte, strings the
// bytes up to the first NUL plus a NUL, preceded on encrypted streams by the
// length (including the NUL) as an integer; raw bytes verbatim.
func specEncode(enc bool, vs []val) []byte {
	var b bytes.Buffer
	i64 := func(x int64) {
		var t [8]byte
		for k := 0; k < 8; k++ {
			t[7-k] = byte(uint64(x) >> (8 * k))
		}
		b.Write(t[:])
	}
	for _, v := range vs {
		switch v.Kind {
		case "char":
			b.WriteByte(byte(v.I))
		case "int", "int32", "uint32":
			i64(v.I)
		case "str", "strb":
			s := v.bytes()
			if k := bytes.IndexByte(s, 0); k >= 0 {
				s = s[:k]
			}
			if enc {
				i64(int64(len(s) + 1))
			}
			b.Write(s)
			b.WriteByte(0)
		default:
			b.Write(v.bytes())
		}
	}
	return b.Bytes()
}

func dig(b []byte) string {
	var sum uint64
	for _, x := range b {
		sum += uint64(x)
	}
	first := b
	if len(first) > 8 {
		first = first[:8]
	}
	last := b
	if len(last) > 8 {
		last = last[len(last)-8:]
	}
	return fmt.Sprintf("(%d, %d, %s, %s)", len(b), sum%4294967296, core.Hex(first), core.Hex(last))
}

func xframe(f mock.Frame) string {
	if len(f.Data) <= 96 {
		return fmt.Sprintf("(XFull %s %s)", core.Bool(f.EOM), core.Hex(f.Data))
	}
	return fmt.Sprintf("(XDig %s %s)", core.Bool(f.EOM), dig(f.Data))
}

type gop struct {
	Op string `json:"op"`
	N  int64  `json:"n,omitempty"`
}

func (g gop) term() string {
	switch g.Op {
	case "bytes":
		return "(GBytes " + core.Z(g.N) + ")"
	case "char":
		return "GChar"
	case "int":
		return "GInt"
	case "int32":
		return "GInt32"
	case "uint32":
		return "GUint32"
	case "str":
		return "GStr"
	}
	return "GRemain"
}

type gres struct {
	Kind string // char int bytes err panic
	I    int64
	B    []byte
	Cls  int
}

func (r gres) term() string {
	switch r.Kind {
	case "char":
		return fmt.Sprintf("(RChar %d)", r.I)
	case "int":
		return "(RInt " + core.Z(r.I) + ")"
	case "bytes":
		if len(r.B) <= 96 {
			return "(RBytes " + core.Hex(r.B) + ")"
		}
		return "(RDig " + dig(r.B) + ")"
	case "err":
		return fmt.Sprintf("(RErr %d)", r.Cls)
	}
	return "RPanic"
}
func (r gres) ok() bool { return r.Kind != "err" && r.Kind != "panic" }

func errClass(err error) int {
	var tooBig *message.ErrStringSizeExceeded
	switch {
	case err == io.EOF:
		return 1
	case errors.Is(err, mock.ErrNoMoreFrames):
		return 2
	case errors.As(err, &tooBig):
		return 3
	}
	return 4
}

func doGet(m *message.Message, g gop) (res gres) {
	defer func() {
		if r := recover(); r != nil {
			res = gres{Kind: "panic"}
		}
	}()
	wrap := func(err error) gres { return gres{Kind: "err", Cls: errClass(err)} }
	switch g.Op {
	case "char":
		c, err := m.GetChar(ctx)
		if err != nil {
			return wrap(err)
		}
		return gres{Kind: "char", I: int64(c)}
	case "int":
		v, err := m.GetInt64(ctx)
		if err != nil {
			return wrap(err)
		}
		return gres{Kind: "int", I: v}
	case "int32":
		v, err := m.GetInt32(ctx)
		if err != nil {
			return wrap(err)
		}
		return gres{Kind: "int", I: int64(v)}
	case "uint32":
		v, err := m.GetUint32(ctx)
		if err != nil {
			return wrap(err)
		}
		return gres{Kind: "int", I: int64(v)}
	case "str":
		s, err := m.GetString(ctx)
		if err != nil {
			return wrap(err)
		}
		return gres{Kind: "bytes", B: []byte(s)}
	case "bytes":
		b, err := m.GetBytes(ctx, int(g.N))
		if err != nil {
			return wrap(err)
		}
		return gres{Kind: "bytes", B: b}
	}
	b, err := m.GetRemainingBytes(ctx)
	if err != nil {
		return wrap(err)
	}
	return gres{Kind: "bytes", B: b}
}

// framesTerm prints the input of a decode case as `data lens last_eom`. dataTerm
// may be a compact Coq term for the same bytes (payload descriptors); "" = hex literal.
func framesTerm(fs []mock.Frame, dataTerm string) string {
	var lens []string
	var all []byte
	for _, f := range fs {
		lens = append(lens, fmt.Sprint(len(f.Data)))
		all = append(all, f.Data...)
	}
	if dataTerm == "" {
		dataTerm = core.Hex(all)
	}
	le := false
	if len(fs) > 0 {
		le = fs[len(fs)-1].EOM
	}
	return dataTerm + " " + core.List(lens) + " " + core.Bool(le)
}

// specTerm is specEncode as a Coq term, large values as payload descriptors.
func specTerm(enc bool, vs []val) string {
	var parts []string
	for _, v := range vs {
		switch v.Kind {
		case "str", "strb":
			if v.B == nil && v.Len > 0 { // NUL-free payload
				if enc {
					parts = append(parts, core.Hex(i64(int64(v.Len+1))))
				}
				parts = append(parts, v.bytesTerm(), core.Hex([]byte{0}))
				continue
			}
		case "bytes":
			if v.B == nil && v.Len > 0 {
				parts = append(parts, v.bytesTerm())
				continue
			}
		}
		parts = append(parts, core.Hex(specEncode(enc, []val{v})))
	}
	return "(" + strings.Join(parts, " ++ ") + ")%list"
}

func opsFor(vs []val) []gop {
	var ops []gop
	for _, v := range vs {
		switch v.Kind {
		case "char":
			ops = append(ops, gop{Op: "char"})
		case "int":
			ops = append(ops, gop{Op: "int"})
		case "int32":
			ops = append(ops, gop{Op: "int32"})
		case "uint32":
			ops = append(ops, gop{Op: "uint32"})
		case "str", "strb":
			ops = append(ops, gop{Op: "str"})
		default:
			ops = append(ops, gop{Op: "bytes", N: int64(len(v.bytes()))})
		}
	}
	return ops
}

// expected value an exact decoder must return for v
func expect(v val) gres {
	switch v.Kind {
	case "char":
		return gres{Kind: "char", I: int64(byte(v.I))}
	case "int", "int32", "uint32":
		return gres{Kind: "int", I: v.I}
	case "str", "strb":
		s := v.bytes()
		if k := bytes.IndexByte(s, 0); k >= 0 {
			s = s[:k]
		}
		return gres{Kind: "bytes", B: s}
	}
	return gres{Kind: "bytes", B: v.bytes()}
}
func sameRes(a, b gres) bool {
	return a.Kind == b.Kind && a.I == b.I && bytes.Equal(a.B, b.B) && a.Cls == b.Cls
}

func encodeCase(c *core.Ctx, enc bool, vs []val) ([]mock.Frame, bool) {
	st := &mock.Stream{Enc: enc}
	m := message.NewMessageForStream(st)
	for _, v := range vs {
		if err := put(m, v); err != nil {
			c.OracleFail("put-error", fmt.Sprintf("Put %s returned %v", v.Kind, err), map[string]interface{}{"kind": "enc", "enc": enc, "vals": vs})
			return nil, false
		}
	}
	if err := m.FinishMessage(ctx); err != nil {
		return nil, false
	}
	var xs, vt []string
	var all []byte
	for _, f := range st.Out {
		xs = append(xs, xframe(f))
		all = append(all, f.Data...)
	}
	for _, v := range vs {
		vt = append(vt, v.term())
	}
	desc := map[string]interface{}{"kind": "enc", "enc": enc, "vals": vs}
	c.AddCase(fmt.Sprintf("CEnc %s %s %s", core.Bool(enc), core.List(vt), core.List(xs)), desc)
	// oracle: byte layout equals the independent encoder
	c.OracleCheck()
	if want := specEncode(enc, vs); !bytes.Equal(all, want) {
		c.OracleFail("layout", fmt.Sprintf("emitted bytes differ from the format definition (enc=%v, %d values, %d vs %d bytes)", enc, len(vs), len(all), len(want)), desc)
	}
	for i, f := range st.Out {
		if f.EOM != (i == len(st.Out)-1) {
			c.OracleFail("eom-placement", "EOM flag not exactly on the last frame", desc)
		}
	}
	return st.Out, true
}

func decodeCase(c *core.Ctx, enc bool, frames []mock.Frame, ops []gop, expected []gres, desc map[string]interface{}) {
	decodeCaseT(c, enc, frames, "", ops, expected, desc)
}

func decodeCaseT(c *core.Ctx, enc bool, frames []mock.Frame, dataTerm string, ops []gop, expected []gres, desc map[string]interface{}) {
	st := &mock.Stream{Enc: enc, In: append([]mock.Frame(nil), frames...)}
	m := message.NewMessageFromStream(st)
	var obs []string
	var ot []string
	okAll := true
	for i, g := range ops {
		r := doGet(m, g)
		obs = append(obs, r.term())
		if expected != nil && (expected[i].Kind != "bytes" || utf8.Valid(expected[i].B) || g.Op == "bytes") {
			c.OracleCheck()
			if !sameRes(r, expected[i]) {
				c.OracleFail("roundtrip", fmt.Sprintf("decode op %d (%s) at this framing returned %s, sender put %s", i, g.Op, trunc(r.term()), trunc(expected[i].term())), desc)
			}
		}
		if !r.ok() {
			okAll = false
			c.Count("dec-result-" + r.Kind)
			break
		}
	}
	for _, g := range ops[:len(obs)] {
		ot = append(ot, g.term())
	}
	if okAll {
		c.Count("dec-all-ok")
	}
	c.AddCase(fmt.Sprintf("CDec %s %s %s %s", core.Bool(enc), framesTerm(frames, dataTerm), core.List(ot), core.List(obs)), desc)
}

func trunc(s string) string {
	if len(s) > 80 {
		return s[:80] + "..."
	}
	return s
}

var intEdges = []int64{0, 1, -1, 127, 128, 255, 256, -128, -129, 32767, 32768, -32768, 65535, 65536,
	math.MaxInt32, math.MaxInt32 + 1, math.MinInt32, math.MinInt32 - 1, math.MaxUint32, math.MaxUint32 + 1,
	math.MaxInt64, math.MinInt64, math.MaxInt64 - 1, math.MinInt64 + 1, 0x0102030405060708, -0x0102030405060708}

func randVal(c *core.Ctx, small bool) val {
	r := c.Rng
	switch r.Intn(9) {
	case 0:
		return val{Kind: "char", I: int64(r.Intn(256))}
	case 1:
		if r.Intn(2) == 0 {
			return val{Kind: "int", I: intEdges[r.Intn(len(intEdges))]}
		}
		return val{Kind: "int", I: int64(r.Uint64())}
	case 2:
		x := int32(r.Uint32())
		if r.Intn(3) == 0 {
			x = []int32{0, 1, -1, math.MaxInt32, math.MinInt32, 255, -256}[r.Intn(7)]
		}
		return val{Kind: "int32", I: int64(x)}
	case 3:
		x := r.Uint32()
		if r.Intn(3) == 0 {
			x = []uint32{0, 1, math.MaxUint32, math.MaxInt32, math.MaxInt32 + 1}[r.Intn(5)]
		}
		return val{Kind: "uint32", I: int64(x)}
	case 4, 5, 6:
		kind := "str"
		if r.Intn(3) == 0 {
			kind = "strb"
		}
		n := r.Intn(24)
		b := make([]byte, n)
		for i := range b {
			switch r.Intn(10) {
			case 0:
				b[i] = byte(r.Intn(256)) // any byte, NUL and BinNullChar included
			case 1:
				b[i] = 0xad
			default:
				b[i] = byte(32 + r.Intn(95))
			}
		}
		if r.Intn(4) == 0 {
			b = []byte("héllo wörld ✓")
		}
		if b == nil {
			b = []byte{}
		}
		return val{Kind: kind, B: b}
	default:
		n := r.Intn(20)
		b := make([]byte, n)
		r.Read(b)
		return val{Kind: "bytes", B: b}
	}
}

func gen(c *core.Ctx) error {
	c.Rule("encode: random and boundary value sequences through the real Message writer on a recording stream, compared frame by frame with the model writer and byte for byte with an independent format encoder; decode: the encoded bytes re-cut at every single position (short sequences) and random multi-cuts, plus malformed inputs, through the real Message reader, compared op by op with the model reader. non-trivial = decode case in which every Get succeeded, or encode case; distinct by (mode, values, cuts)")
	c.Assume("doubles (PutDouble/GetDouble) are not covered by this run")
	nSeq := 60
	nBig := 6
	if !c.Quick() {
		nSeq, nBig = 600, 40
	}
	for _, enc := range []bool{false, true} {
		// 1. every integer edge alone, every width wrapper
		for _, x := range intEdges {
			vs := []val{{Kind: "int", I: x}}
			if fr, ok := encodeCase(c, enc, vs); ok {
				all := concat(fr)
				for cut := 0; cut <= len(all); cut++ {
					desc := map[string]interface{}{"kind": "dec", "enc": enc, "vals": vs, "cuts": []int{cut}}
					decodeCase(c, enc, mock.Cut(all, []int{cut}), []gop{{Op: "int"}}, []gres{expect(vs[0])}, desc)
					c.Nontrivial(fmt.Sprint(enc, x, cut))
				}
			}
		}
		// 2. random mixed sequences, every single cut + random multi cuts
		for i := 0; i < nSeq; i++ {
			n := 1 + c.Rng.Intn(5)
			var vs []val
			for k := 0; k < n; k++ {
				vs = append(vs, randVal(c, true))
			}
			fr, ok := encodeCase(c, enc, vs)
			if !ok {
				continue
			}
			c.Count(fmt.Sprintf("enc-seq-len-%d", n))
			all := concat(fr)
			ops := opsFor(vs)
			var exp []gres
			for _, v := range vs {
				exp = append(exp, expect(v))
			}
			// raw bytes of length 0 decode as empty; fine.
			cutsList := [][]int{}
			step := 1
			if len(all) > 40 && c.Quick() {
				step = 1 + len(all)/40
			}
			for cut := 0; cut <= len(all); cut += step {
				cutsList = append(cutsList, []int{cut})
			}
			for k := 0; k < 4; k++ {
				m := 2 + c.Rng.Intn(4)
				var cs []int
				for j := 0; j < m; j++ {
					cs = append(cs, c.Rng.Intn(len(all)+1))
				}
				sort.Ints(cs)
				cutsList = append(cutsList, cs)
			}
			for _, cs := range cutsList {
				desc := map[string]interface{}{"kind": "dec", "enc": enc, "vals": vs, "cuts": cs}
				decodeCase(c, enc, mock.Cut(all, cs), ops, exp, desc)
				c.Nontrivial(fmt.Sprint(enc, vs, cs))
			}
			if i < 2 {
				c.Sample(map[string]interface{}{"enc": enc, "vals": vs, "bytes": len(all), "single_cuts": len(cutsList) - 4})
			}
		}
		// 3. sizes around the frame targets: strings / bytes built from payload descriptors
		sizes := []int{16383, 16384, 16385, 16376, 16377, 16375, 4096, 1048575, 1048576, 1048577, 1048568, 1048567, 2097153}
		for i, n := range sizes {
			if c.Quick() && i >= nBig+4 {
				break
			}
			for _, kind := range []string{"str", "strb", "bytes"} {
				if c.Quick() && n > 1048000 && kind == "strb" && i%2 == 0 {
					continue
				}
				pre := val{Kind: "int", I: int64(n)}
				v := val{Kind: kind, Off: n % 97, Len: n, NZ: kind != "bytes"}
				post := val{Kind: "char", I: 0x7e}
				vs := []val{pre, v, post}
				fr, ok := encodeCase(c, enc, vs)
				if !ok {
					continue
				}
				c.Count("enc-large-" + kind)
				// decode what the real writer framed (its own cuts)
				var exp []gres
				for _, x := range vs {
					exp = append(exp, expect(x))
				}
				if n <= 20000 || !c.Quick() || i%3 == 0 {
					desc := map[string]interface{}{"kind": "dec-own-framing", "enc": enc, "vals": vs}
					if !bytes.Equal(concat(fr), specEncode(enc, vs)) {
						continue // layout oracle already failed; no compact term for these bytes
					}
					decodeCaseT(c, enc, fr, specTerm(enc, vs), opsFor(vs), exp, desc)
					c.Nontrivial(fmt.Sprint("large", enc, kind, n))
				}
			}
		}
		// 4. malformed decode inputs
		mal := [][]byte{
			{}, {0}, {1, 2, 3}, bytes.Repeat([]byte{0xff}, 7), bytes.Repeat([]byte{0xff}, 8), bytes.Repeat([]byte{0xff}, 9),
			append(i64(5), []byte("ab")...), append(i64(3), []byte("abcdef")...), append(i64(0), 1, 2), append(i64(1<<32+2), []byte("xy\x00")...),
			append(i64(2), 0xad, 0), append(i64(4), []byte("a\x00b\x00")...), []byte("no terminator"), []byte("a\x00b\x00\x00"),
		}
		if enc {
			mal = append(mal, append(i64(-1), 1, 2, 3), append(i64(math.MinInt32), 9), append(i64(1<<31), 9)) // negative lengths after int32 conversion
		}
		opsets := [][]gop{{{Op: "str"}, {Op: "str"}}, {{Op: "int"}, {Op: "char"}}, {{Op: "bytes", N: 3}, {Op: "remain"}}, {{Op: "char"}, {Op: "str"}, {Op: "remain"}},
			{{Op: "bytes", N: -4}, {Op: "uint32"}}, {{Op: "remain"}, {Op: "char"}}, {{Op: "int32"}, {Op: "str"}}}
		for _, b := range mal {
			for _, ops := range opsets {
				for _, cs := range [][]int{{}, {len(b) / 2}, {0, len(b)}} {
					fr := mock.Cut(b, cs)
					if c.Rng.Intn(6) == 0 { // sometimes lose the EOM frame: transport ends mid-message
						fr[len(fr)-1].EOM = false
					}
					desc := map[string]interface{}{"kind": "dec-malformed", "enc": enc, "bytes": b, "cuts": cs, "ops": ops}
					decodeCaseDesc(c, enc, fr, ops, nil, desc)
				}
			}
		}
	}
	return nil
}

func decodeCaseDesc(c *core.Ctx, enc bool, fr []mock.Frame, ops []gop, exp []gres, desc map[string]interface{}) {
	decodeCase(c, enc, fr, ops, exp, desc)
}

func i64(x int64) []byte {
	var t [8]byte
	binary.BigEndian.PutUint64(t[:], uint64(x))
	return t[:]
}
func concat(fr []mock.Frame) []byte {
	var all []byte
	for _, f := range fr {
		all = append(all, f.Data...)
	}
	return all
}

func replay(raw json.RawMessage) error {
	var d struct {
		Kind string `json:"kind"`
		Enc  bool   `json:"enc"`
		Vals []val  `json:"vals"`
		Cuts []int  `json:"cuts"`
	}
	if err := json.Unmarshal(raw, &d); err != nil {
		return err
	}
	st := &mock.Stream{Enc: d.Enc}
	m := message.NewMessageForStream(st)
	for _, v := range d.Vals {
		if err := put(m, v); err != nil {
			return fmt.Errorf("put: %v", err)
		}
	}
	if err := m.FinishMessage(ctx); err != nil {
		return err
	}
	all := concat(st.Out)
	if !bytes.Equal(all, specEncode(d.Enc, d.Vals)) {
		return fmt.Errorf("layout differs from the format definition: got %x", all)
	}
	fr := st.Out
	if d.Cuts != nil {
		fr = mock.Cut(all, d.Cuts)
	}
	rs := &mock.Stream{Enc: d.Enc, In: fr}
	rm := message.NewMessageFromStream(rs)
	for i, g := range opsFor(d.Vals) {
		r := doGet(rm, g)
		if !sameRes(r, expect(d.Vals[i])) {
			return fmt.Errorf("value %d decoded as %s", i, strings.TrimSpace(trunc(r.term())))
		}
	}
	return nil
}

func main() { core.Main("C14", gen, replay) }
