// vh-c14: correspondence + oracle for C14 (typed values: layout and frame-cut independence).
package main

import (
	"bytes"
	"context"
	"encoding/binary"
	"encoding/json"
	"errors"
	"fmt"
	"io"
	"math"
	"math/big"
	"runtime"
	"sort"
	"strings"
	"unicode/utf8"

	"verifharness/core"
	"verifharness/mock"

	"github.com/bbockelm/cedar/message"
)

type val struct {
	Kind string `json:"k"` // char int int32 uint32 str strb bytes
	I    int64  `json:"i,omitempty"`
	B    []byte `json:"b,omitempty"` // literal bytes
	Off  int    `json:"off,omitempty"`
	Len  int    `json:"len,omitempty"` // payload descriptor when B == nil and Len > 0
	NZ   bool   `json:"nz,omitempty"`
	Bits uint64 `json:"bits,omitempty"` // kind "double": the IEEE-754 pattern
	// Ad: this "int" value n, the n "strb" values after it and the two "str" values after
	// those are sent by ONE call PutClassAdRawBytes(exprs, myType, targetType); on the wire
	// (and for the model, the format encoder and the reader) they are just those values
	Ad bool `json:"ad,omitempty"`
	// API: the exported method this value is written with ("" = the Put* method of its kind),
	// see api.go; the value is read back with the paired method (Put*->Get*, Code*->Code*)
	API string `json:"api,omitempty"`
}

func (v val) bytes() []byte {
	if v.B != nil || v.Len == 0 {
		return v.B
	}
	if v.NZ {
		return payloadNZ(v.Off, v.Len)
	}
	return core.Payload(v.Off, v.Len)
}
func payloadNZ(off, n int) []byte {
	out := make([]byte, n)
	p := off % 250
	for i := range out {
		out[i] = byte(p + 1)
		p++
		if p == 250 {
			p = 0
		}
	}
	return out
}
func (v val) bytesTerm() string {
	if v.B != nil || v.Len == 0 {
		return hexl(v.B)
	}
	if v.NZ {
		return fmt.Sprintf("(payload_nz %d %d)", v.Off, v.Len)
	}
	return core.PayloadTerm(v.Off, v.Len)
}
func (v val) term() string {
	switch v.Kind {
	case "char":
		return fmt.Sprintf("(VChar %d)", v.I)
	case "int", "int32", "uint32":
		return "(VInt " + core.Z(v.I) + ")"
	case "str":
		return "(VStr " + v.bytesTerm() + ")"
	case "strb":
		return "(VStrB " + v.bytesTerm() + ")"
	case "double":
		return "(VDouble " + dbits(v.Bits) + ")"
	case "float": // PutFloat(f) = PutDouble(float64(f)): the model sees the widened pattern
		return "(VDouble " + dbits(widenBits(uint32(v.I))) + ")"
	default:
		return "(VBytes " + v.bytesTerm() + ")"
	}
}

var ctx = context.Background()

func put(m *message.Message, v val) (error, string) { return putVia(m, v) }

// putAll sends vs through the real writer the way cedar's callers use the []byte entry
// points (PutStringBytes, PutBytes, PutClassAdRawBytes: "b is not modified", "may alias a
// shared buffer"): every []byte argument of the message is a SUB-SLICE of one shared scratch
// buffer into which all of them were rendered back to back, so each argument has cap > len
// with LIVE data (the next argument, finally a guard) right behind it.
//   - aliasing oracle: after every call the whole scratch buffer must be byte-identical to
//     what it was before the call (alias != "" reports the first difference);
//   - after a call has returned the harness overwrites that argument's bytes (0xEE): the
//     Message / stream must not have retained the caller's slice - if it did, the emitted
//     frames differ from the format encoder and the model.
func putAll(m *message.Message, vs []val) (putErr error, alias string) {
	type span struct{ off, n int }
	spans := make([]span, len(vs))
	var scratch []byte
	for i, v := range vs {
		if v.Kind == "strb" || v.Kind == "bytes" {
			b := v.bytes()
			spans[i] = span{len(scratch), len(b)}
			scratch = append(scratch, b...)
		}
	}
	scratch = append(scratch, []byte("\xa5live data behind the last argument\x5a")...)
	snap := append([]byte(nil), scratch...)
	arg := func(i int) []byte { return scratch[spans[i].off : spans[i].off+spans[i].n] } // cap reaches the end of scratch
	check := func(call string) {
		if alias != "" || bytes.Equal(scratch, snap) {
			return
		}
		for k := range scratch {
			if scratch[k] != snap[k] {
				alias = fmt.Sprintf("%s modified the caller's buffer: byte %d of the shared backing array (len %d) changed from %#02x to %#02x", call, k, len(scratch), snap[k], scratch[k])
				return
			}
		}
	}
	clobber := func(i int) {
		for k := spans[i].off; k < spans[i].off+spans[i].n; k++ {
			scratch[k], snap[k] = 0xee, 0xee
		}
	}
	for i := 0; i < len(vs); i++ {
		v := vs[i]
		switch {
		case v.Ad:
			n := int(v.I)
			if n < 0 || i+n+2 >= len(vs) {
				return fmt.Errorf("harness: malformed ad group"), alias
			}
			if n > 0 && vs[i+1].Kind == "str" { // the string flavour: PutClassAdRaw
				strs := make([]string, n)
				for k := 0; k < n; k++ {
					strs[k] = string(vs[i+1+k].bytes())
				}
				called["PutClassAdRaw"]++
				putErr = m.PutClassAdRaw(ctx, strs, string(vs[i+1+n].bytes()), string(vs[i+2+n].bytes()))
				check("PutClassAdRaw")
				i += n + 2
				break
			}
			exprs := make([][]byte, n)
			for k := 0; k < n; k++ {
				exprs[k] = arg(i + 1 + k)
			}
			called["PutClassAdRawBytes"]++
			putErr = m.PutClassAdRawBytes(ctx, exprs, string(vs[i+1+n].bytes()), string(vs[i+2+n].bytes()))
			check("PutClassAdRawBytes")
			for k := 0; k < n; k++ {
				clobber(i + 1 + k)
				exprs[k] = nil
			}
			i += n + 2
		case v.Kind == "strb":
			called["PutStringBytes"]++
			putErr = m.PutStringBytes(ctx, arg(i))
			check("PutStringBytes")
			clobber(i)
		case v.Kind == "bytes":
			called["PutBytes"]++
			putErr = m.PutBytes(ctx, arg(i))
			check("PutBytes")
			clobber(i)
		default:
			var modified string
			putErr, modified = put(m, v)
			if modified != "" && alias == "" {
				alias = modified
			}
			check(v.api())
		}
		if putErr != nil {
			return putErr, alias
		}
	}
	return nil, alias
}

// adGroup builds the values of one PutClassAdRawBytes call.
func adGroup(exprs []val, myType, targetType string) []val {
	vs := []val{{Kind: "int", I: int64(len(exprs)), Ad: true}}
	for _, e := range exprs {
		if e.Kind != "str" {
			e.Kind = "strb"
		}
		vs = append(vs, e)
	}
	return append(vs, val{Kind: "str", B: []byte(myType)}, val{Kind: "str", B: []byte(targetType)})
}

// specEncode is an independent encoder written from the protocol description:
// ints are 8-byte big-endian two's complement, chars one byte, strings the
// bytes up to the first NUL plus a NUL, preceded on encrypted streams by the
// length (including the NUL) as an integer; raw bytes verbatim.
func specEncode(enc bool, vs []val) []byte {
	var b bytes.Buffer
	i64 := func(x int64) {
		var t [8]byte
		for k := 0; k < 8; k++ {
			t[7-k] = byte(uint64(x) >> (8 * k))
		}
		b.Write(t[:])
	}
	for _, v := range vs {
		switch v.Kind {
		case "char":
			b.WriteByte(byte(v.I))
		case "int", "int32", "uint32":
			i64(v.I)
		case "str", "strb":
			s := v.bytes()
			if k := bytes.IndexByte(s, 0); k >= 0 {
				s = s[:k]
			}
			if enc {
				i64(int64(len(s) + 1))
			}
			b.Write(s)
			b.WriteByte(0)
		case "double":
			fi, e := specDoubleInts(v.Bits)
			i64(fi)
			i64(e)
		case "float": // a float travels as the double of the same value
			fi, e := specDoubleInts(widenBits(uint32(v.I)))
			i64(fi)
			i64(e)
		default:
			b.Write(v.bytes())
		}
	}
	return b.Bytes()
}

// ---- doubles: independent reference written from the format description ----
// A double d = frac * 2^exp with 1/2 <= |frac| < 1 travels as the two integers
// trunc(frac * (2^31-1)) and exp; it is rebuilt as (fracInt / (2^31-1)) * 2^exp.
// All arithmetic below is math/big (no float64 operation, no math.Frexp/Ldexp):
// the IEEE roundings are reproduced with big.Float at 53 bits, round-to-nearest-even.

const specFracConst = 2147483647 // 2^31 - 1, from the protocol description

func finiteBits(b uint64) bool { return (b>>52)&0x7ff != 0x7ff }

// decompose a finite pattern into sign, integer mantissa and exponent: |d| = m * 2^e
func decompose(b uint64) (neg bool, m uint64, e int) {
	neg = b>>63 == 1
	E := int((b >> 52) & 0x7ff)
	M := b & (1<<52 - 1)
	if E == 0 {
		return neg, M, -1074
	}
	return neg, M | 1<<52, E - 1075
}

func bigOfBits(b uint64) *big.Float {
	neg, m, e := decompose(b)
	x := new(big.Float).SetPrec(64).SetUint64(m)
	x.SetMantExp(x, e)
	if neg {
		x.Neg(x)
	}
	return x
}

// specDoubleInts: the integers the format prescribes for a finite double.
func specDoubleInts(b uint64) (int64, int64) {
	neg, m, e := decompose(b)
	if m == 0 {
		return 0, 0
	}
	n := 64 - leadingZeros(m)                       // m has n bits: frac = m / 2^n, exp = e + n
	frac := new(big.Float).SetPrec(64).SetUint64(m) // exact
	frac.SetMantExp(frac, -n)
	prod := new(big.Float).SetPrec(53).SetMode(big.ToNearestEven)
	prod.Mul(frac, new(big.Float).SetPrec(53).SetInt64(specFracConst)) // float64 product
	k, _ := prod.Int(nil)                                              // truncation
	fi := k.Int64()
	if neg {
		fi = -fi
	}
	return fi, int64(e + n)
}
func leadingZeros(x uint64) int {
	n := 0
	for i := 63; i >= 0 && x>>uint(i)&1 == 0; i-- {
		n++
	}
	return n
}

// specDoubleDecode: the double the format prescribes for two wire integers (after
// their truncation to int32), as a bit pattern.
func specDoubleDecode(fi64, e64 int64) uint64 {
	fi, e := int32(fi64), int32(e64)
	if fi == 0 {
		return 0
	}
	q := new(big.Float).SetPrec(53).SetMode(big.ToNearestEven)
	q.Quo(new(big.Float).SetPrec(53).SetInt64(int64(fi)), new(big.Float).SetPrec(53).SetInt64(specFracConst))
	ee := int(e)
	if ee > 4000 { // far beyond overflow / underflow: keep big.Float's exponent in range
		ee = 4000
	} else if ee < -4000 {
		ee = -4000
	}
	q.SetMantExp(q, ee)
	f, _ := q.Float64() // nearest-even into binary64, subnormals and infinities included
	return math.Float64bits(f)
}

// withinPrecision: |got - want| <= |want| * 2^-30, exactly (rationals).
func withinPrecision(want, got uint64) bool {
	if !finiteBits(got) {
		return false
	}
	w, _ := new(big.Rat).SetString("0")
	g, _ := new(big.Rat).SetString("0")
	ratOfBits(w, want)
	ratOfBits(g, got)
	diff := new(big.Rat).Sub(g, w)
	diff.Abs(diff)
	bound := new(big.Rat).Abs(w)
	bound.Mul(bound, new(big.Rat).SetFrac(big.NewInt(1), new(big.Int).Lsh(big.NewInt(1), 30)))
	return diff.Cmp(bound) <= 0
}
func ratOfBits(r *big.Rat, b uint64) {
	neg, m, e := decompose(b)
	num := new(big.Int).SetUint64(m)
	den := big.NewInt(1)
	if e >= 0 {
		num.Lsh(num, uint(e))
	} else {
		den.Lsh(den, uint(-e))
	}
	if neg {
		num.Neg(num)
	}
	r.SetFrac(num, den)
}

func dig(b []byte) string {
	var sum uint64
	for _, x := range b {
		sum += uint64(x)
	}
	first := b
	if len(first) > 8 {
		first = first[:8]
	}
	last := b
	if len(last) > 8 {
		last = last[len(last)-8:]
	}
	return fmt.Sprintf("(%d, %d, %s, %s)", len(b), sum%4294967296, hexl(first), hexl(last))
}

func xframe(f mock.Frame) string {
	if len(f.Data) <= fullFrameMax {
		return fmt.Sprintf("(XFull %s %s)", core.Bool(f.EOM), hexl(f.Data))
	}
	return fmt.Sprintf("(XDig %s %s)", core.Bool(f.EOM), dig(f.Data))
}

// frames up to this many bytes are compared byte for byte with the model, longer
// ones by (length, checksum, head, tail); raised for the bulk double cases
var fullFrameMax = 96

type gop struct {
	Op  string `json:"op"`
	N   int64  `json:"n,omitempty"`
	API string `json:"api,omitempty"` // the exported method to read with ("" = the Get* method of Op)
}

func (g gop) term() string {
	switch g.Op {
	case "bytes":
		return "(GBytes " + core.Z(g.N) + ")"
	case "char":
		return "GChar"
	case "int":
		return "GInt"
	case "int32":
		return "GInt32"
	case "uint32":
		return "GUint32"
	case "str":
		return "GStr"
	case "double":
		return "GDouble"
	}
	return "GRemain"
}

type gres struct {
	Kind string // char int bytes double err panic
	I    int64
	B    []byte
	Cls  int
	Bits uint64
}

func (r gres) term() string {
	switch r.Kind {
	case "char":
		return fmt.Sprintf("(RChar %d)", r.I)
	case "int":
		return "(RInt " + core.Z(r.I) + ")"
	case "bytes":
		if len(r.B) <= 96 {
			return "(RBytes " + hexl(r.B) + ")"
		}
		return "(RDig " + dig(r.B) + ")"
	case "double":
		return "(RDouble " + dbits(r.Bits) + ")"
	case "err":
		return fmt.Sprintf("(RErr %d)", r.Cls)
	}
	return "RPanic"
}
func (r gres) ok() bool { return r.Kind != "err" && r.Kind != "panic" }

func errClass(err error) int {
	var tooBig *message.ErrStringSizeExceeded
	switch {
	case err == io.EOF:
		return 1
	case errors.Is(err, mock.ErrNoMoreFrames), transportEnded(err):
		return 2
	case errors.As(err, &tooBig):
		return 3
	}
	return 4
}

func doGet(m *message.Message, g gop) (res gres) {
	defer func() {
		if r := recover(); r != nil {
			res = gres{Kind: "panic"}
		}
	}()
	wrap := func(err error) gres { return gres{Kind: "err", Cls: errClass(err)} }
	switch g.Op {
	case "bytes":
		called["GetBytes"]++
		b, err := m.GetBytes(ctx, int(g.N))
		if err != nil {
			return wrap(err)
		}
		return gres{Kind: "bytes", B: b}
	case "remain":
	default:
		r, err := getVia(m, g)
		if err != nil {
			return wrap(err)
		}
		return r
	}
	called["GetRemainingBytes"]++
	b, err := m.GetRemainingBytes(ctx)
	if err != nil {
		return wrap(err)
	}
	return gres{Kind: "bytes", B: b}
}

// framesTerm prints the input of a decode case as `data lens last_eom`. dataTerm
// may be a compact Coq term for the same bytes (payload descriptors); "" = hex literal.
func framesTerm(fs []mock.Frame, dataTerm string) string {
	var lens []string
	var all []byte
	for _, f := range fs {
		lens = append(lens, fmt.Sprint(len(f.Data)))
		all = append(all, f.Data...)
	}
	if dataTerm == "" {
		dataTerm = hexl(all)
	}
	le := false
	if len(fs) > 0 {
		le = fs[len(fs)-1].EOM
	}
	return dataTerm + " " + core.List(lens) + " " + core.Bool(le)
}

// specTerm is specEncode as a Coq term, large values as payload descriptors.
func specTerm(enc bool, vs []val) string {
	var parts []string
	for _, v := range vs {
		switch v.Kind {
		case "str", "strb":
			if v.B == nil && v.Len > 0 { // NUL-free payload
				if enc {
					parts = append(parts, hexl(i64(int64(v.Len+1))))
				}
				parts = append(parts, v.bytesTerm(), hexl([]byte{0}))
				continue
			}
		case "bytes":
			if v.B == nil && v.Len > 0 {
				parts = append(parts, v.bytesTerm())
				continue
			}
		}
		parts = append(parts, hexl(specEncode(enc, []val{v})))
	}
	return "(" + strings.Join(parts, " ++ ") + ")%list"
}

func opsFor(vs []val) []gop {
	var ops []gop
	for _, v := range vs {
		switch v.Kind {
		case "strb":
			ops = append(ops, gop{Op: "str"})
		case "bytes":
			ops = append(ops, gop{Op: "bytes", N: int64(len(v.bytes()))})
		default: // read with the method paired with the one it was written with
			ops = append(ops, gop{Op: v.Kind, API: getAPIFor(v.API)})
		}
	}
	return ops
}

// expected value an exact decoder must return for v
func expect(v val) gres {
	switch v.Kind {
	case "char":
		return gres{Kind: "char", I: int64(byte(v.I))}
	case "int", "int32", "uint32":
		return gres{Kind: "int", I: v.I}
	case "str", "strb":
		s := v.bytes()
		if k := bytes.IndexByte(s, 0); k >= 0 {
			s = s[:k]
		}
		return gres{Kind: "bytes", B: s}
	case "double":
		return gres{Kind: "double", Bits: v.Bits}
	case "float":
		return gres{Kind: "float", Bits: uint64(uint32(v.I))}
	}
	return gres{Kind: "bytes", B: v.bytes()}
}

// sameRes: does the decoded result r meet what the sender put (want)?  Integers, chars,
// strings and bytes exactly; a finite double to within the format's precision
// (|r - want| <= |want| * 2^-30, exact rational arithmetic) and, in addition, equal to
// the format's own decoding of the format's own encoding, bit for bit.
func sameRes(r, want gres) bool {
	if want.Kind == "float" {
		// float32 has 24 significant bits, the format 30: a finite float comes back exactly
		// (-0 as +0), and equals the math/big reference (narrowing of the reference double)
		f := uint32(want.Bits)
		if r.Kind != "float" {
			return false
		}
		if !finite32(f) {
			return true
		}
		fi, e := specDoubleInts(widenBits(f))
		ref := narrowBits(specDoubleDecode(fi, e))
		exact := f
		if f == 1<<31 {
			exact = 0
		}
		return uint32(r.Bits) == ref && uint32(r.Bits) == exact
	}
	if want.Kind == "double" {
		if r.Kind != "double" {
			return false
		}
		if !finiteBits(want.Bits) {
			return true // NaN / infinities: outside the property (see notes); compared with the model only
		}
		fi, e := specDoubleInts(want.Bits)
		return withinPrecision(want.Bits, r.Bits) && r.Bits == specDoubleDecode(fi, e)
	}
	return r.Kind == want.Kind && r.I == want.I && bytes.Equal(r.B, want.B) && r.Cls == want.Cls
}

func encodeCase(c *core.Ctx, enc bool, vs []val) ([]mock.Frame, bool) {
	st := &mock.Stream{Enc: enc}
	m := message.NewMessageForStream(st)
	putErr, alias := putAll(m, vs)
	c.OracleCheck()
	if alias != "" {
		key := "caller-slice-modified"
		if strings.Contains(alias, "caller's value") {
			key = "caller-value-modified" // a Code* call in encode direction wrote to its argument
		}
		c.OracleFail(key, alias, map[string]interface{}{"kind": "enc", "enc": enc, "vals": vs})
	}
	if putErr != nil {
		c.OracleFail("put-error", fmt.Sprintf("Put returned %v", putErr), map[string]interface{}{"kind": "enc", "enc": enc, "vals": vs})
		return nil, false
	}
	called["FinishMessage"]++
	if err := m.FinishMessage(ctx); err != nil {
		return nil, false
	}
	var xs, vt []string
	var all []byte
	for _, f := range st.Out {
		xs = append(xs, xframe(f))
		all = append(all, f.Data...)
	}
	for _, v := range vs {
		vt = append(vt, v.term())
	}
	desc := map[string]interface{}{"kind": "enc", "enc": enc, "vals": vs}
	c.AddCase(fmt.Sprintf("CEnc %s %s %s", core.Bool(enc), core.List(vt), core.List(xs)), desc)
	// oracle: byte layout equals the independent encoder
	if hasNonFinite(vs) {
		c.Count("enc-nonfinite-double (layout not defined by the format; model comparison only)")
		return st.Out, true
	}
	c.OracleCheck()
	if want := specEncode(enc, vs); !bytes.Equal(all, want) {
		c.OracleFail("layout", fmt.Sprintf("emitted bytes differ from the format definition (enc=%v, %d values, %d vs %d bytes)", enc, len(vs), len(all), len(want)), desc)
	}
	for i, f := range st.Out {
		if f.EOM != (i == len(st.Out)-1) {
			c.OracleFail("eom-placement", "EOM flag not exactly on the last frame", desc)
		}
		// C01's typed clause: every frame handed to the stream is within the stream sender's limit
		c.OracleCheck()
		if len(f.Data) > message.MaxFrameSize {
			c.OracleFail("frame-too-large", fmt.Sprintf("the writer handed a %d-byte frame to the stream (limit %d)", len(f.Data), message.MaxFrameSize), desc)
		}
	}
	return st.Out, true
}

// hexl prints bytes as a list of Coq byte constructors ([x00; xff]); coqc elaborates
// that more than twice as fast as an `hx "..."` string literal
func hexl(b []byte) string {
	if len(b) == 0 {
		return "[]"
	}
	var sb strings.Builder
	sb.WriteByte('[')
	for i, x := range b {
		if i > 0 {
			sb.WriteByte(';')
		}
		fmt.Fprintf(&sb, "x%02x", x)
	}
	sb.WriteByte(']')
	return sb.String()
}

// dbits prints a 64-bit pattern as (dbits [8 bytes]) - cheaper for coqc than a 20-digit literal
func dbits(b uint64) string {
	var t [8]byte
	binary.BigEndian.PutUint64(t[:], b)
	return "(dbits " + hexl(t[:]) + ")"
}

func hasNonFinite(vs []val) bool {
	for _, v := range vs {
		if v.Kind == "double" && !finiteBits(v.Bits) || v.Kind == "float" && !finite32(uint32(v.I)) {
			return true
		}
	}
	return false
}

func decodeCase(c *core.Ctx, enc bool, frames []mock.Frame, ops []gop, expected []gres, desc map[string]interface{}) {
	decodeCaseT(c, enc, frames, "", ops, expected, desc)
}

func decodeCaseT(c *core.Ctx, enc bool, frames []mock.Frame, dataTerm string, ops []gop, expected []gres, desc map[string]interface{}) {
	st := &mock.Stream{Enc: enc, In: append([]mock.Frame(nil), frames...)}
	m := message.NewMessageFromStream(st)
	var obs []string
	var ot []string
	okAll := true
	for i, g := range ops {
		r := doGet(m, g)
		obs = append(obs, r.term())
		if expected != nil && (expected[i].Kind != "bytes" || utf8.Valid(expected[i].B) || g.Op == "bytes") {
			c.OracleCheck()
			if !sameRes(r, expected[i]) {
				c.OracleFail("roundtrip", fmt.Sprintf("decode op %d (%s) at this framing returned %s, sender put %s", i, g.Op, trunc(r.term()), trunc(expected[i].term())), desc)
			}
		}
		if !r.ok() {
			if okAll {
				c.Count("dec-result-" + r.Kind)
			} else {
				c.Count("dec-op-after-error")
			}
			okAll = false
			if r.Kind == "panic" {
				break // the Message is not used again after a panic
			}
		}
	}
	for _, g := range ops[:len(obs)] {
		ot = append(ot, g.term())
	}
	if okAll {
		c.Count("dec-all-ok")
	}
	// the same frames through a REAL stream.Stream (real.go)
	realAlso(c, enc, frames, dataTerm, ops, expected, obs, desc)
	for _, g := range ops {
		if g.Op == "float" { // GetFloat = float32(GetDouble): the narrowing is not in the Coq model; oracle only
			c.Count("dec-float-oracle-only")
			return
		}
	}
	c.AddCase(fmt.Sprintf("CDec %s %s %s %s", core.Bool(enc), framesTerm(frames, dataTerm), core.List(ot), core.List(obs)), desc)
}

func trunc(s string) string {
	if len(s) > 80 {
		return s[:80] + "..."
	}
	return s
}

var intEdges = []int64{0, 1, -1, 127, 128, 255, 256, -128, -129, 32767, 32768, -32768, 65535, 65536,
	math.MaxInt32, math.MaxInt32 + 1, math.MinInt32, math.MinInt32 - 1, math.MaxUint32, math.MaxUint32 + 1,
	math.MaxInt64, math.MinInt64, math.MaxInt64 - 1, math.MinInt64 + 1, 0x0102030405060708, -0x0102030405060708}

func randVal(c *core.Ctx, small bool) val {
	v := randVal0(c, small)
	if as := putAPIs[v.Kind]; len(as) > 1 {
		v.API = as[c.Rng.Intn(len(as))] // any entry point that can carry this value (Put*, Code*)
	}
	return v
}

func randVal0(c *core.Ctx, small bool) val {
	r := c.Rng
	switch r.Intn(9) {
	case 0:
		return val{Kind: "char", I: int64(r.Intn(256))}
	case 1:
		if r.Intn(2) == 0 {
			return val{Kind: "int", I: intEdges[r.Intn(len(intEdges))]}
		}
		return val{Kind: "int", I: int64(r.Uint64())}
	case 2:
		x := int32(r.Uint32())
		if r.Intn(3) == 0 {
			x = []int32{0, 1, -1, math.MaxInt32, math.MinInt32, 255, -256}[r.Intn(7)]
		}
		return val{Kind: "int32", I: int64(x)}
	case 3:
		x := r.Uint32()
		if r.Intn(3) == 0 {
			x = []uint32{0, 1, math.MaxUint32, math.MaxInt32, math.MaxInt32 + 1}[r.Intn(5)]
		}
		return val{Kind: "uint32", I: int64(x)}
	case 4, 5, 6:
		kind := "str"
		if r.Intn(3) == 0 {
			kind = "strb"
		}
		n := r.Intn(24)
		b := make([]byte, n)
		for i := range b {
			switch r.Intn(10) {
			case 0:
				b[i] = byte(r.Intn(256)) // any byte, NUL and BinNullChar included
			case 1:
				b[i] = 0xad
			default:
				b[i] = byte(32 + r.Intn(95))
			}
		}
		if r.Intn(4) == 0 {
			b = []byte("héllo wörld ✓")
		}
		if len(b) > 0 && r.Intn(4) == 0 { // a NUL somewhere: the sender truncates there
			b[r.Intn(len(b))] = 0
		}
		if b == nil {
			b = []byte{}
		}
		return val{Kind: kind, B: b}
	default:
		n := r.Intn(20)
		b := make([]byte, n)
		r.Read(b)
		return val{Kind: "bytes", B: b}
	}
}

func gen(c *core.Ctx) error {
	c.Rule("encode: random and boundary value sequences (chars, integers of every width, strings, byte strings, doubles as 64-bit patterns) through the real Message writer on a recording stream - each value through any exported entry point that can carry it (Put*, Code* in encode direction, PutClassAdRaw[Bytes]) and read back through the paired one (Get*, Code* in decode direction); every exported method of Message is exercised or allow-listed (gen/FactsC14.v, theorem C14_entry_points_covered) -, compared frame by frame with the model writer and byte for byte with an independent format encoder (math/big for doubles); decode: the encoded bytes re-cut at every single position (short sequences, every special double) and random multi-cuts, plus malformed inputs and integer pairs no encoder produces, through the real Message reader, compared op by op (also after an error result) with the model reader; every []byte argument (PutStringBytes, PutBytes, the expressions of PutClassAdRawBytes) is a sub-slice of one shared scratch buffer with live data behind it and is overwritten by the harness after the call; oracles on the implementation: the caller's buffer is unchanged by every Put call, layout = format definition, decoded = sent (doubles: |decoded-sent| <= |sent|*2^-30 in exact rationals and bit-equal to the math/big reference decoder), EOM only on the last frame. non-trivial = decode case in which every Get succeeded, or encode case; distinct by (mode, values, cuts)")
	c.Assume("float->int32 conversion of NaN/Inf is implementation-defined in Go; the model has the amd64 semantics (CVTTSD2SL, -2^31) and NaN/Inf cases are compared only when GOARCH=amd64 (this run: " + runtime.GOARCH + ")")
	nSeq := 36
	nBig := 6
	if !c.Quick() {
		nSeq, nBig = 600, 40
	}
	for _, enc := range []bool{false, true} {
		// 1. every integer edge alone, every width wrapper
		for _, x := range intEdges {
			vs := []val{{Kind: "int", I: x}}
			if fr, ok := encodeCase(c, enc, vs); ok {
				all := concat(fr)
				for cut := 0; cut <= len(all); cut++ {
					desc := map[string]interface{}{"kind": "dec", "enc": enc, "vals": vs, "cuts": []int{cut}}
					decodeCase(c, enc, mock.Cut(all, []int{cut}), []gop{{Op: "int"}}, []gres{expect(vs[0])}, desc)
					c.Nontrivial(fmt.Sprint(enc, x, cut))
				}
			}
		}
		// 2. random mixed sequences, every single cut + random multi cuts
		for i := 0; i < nSeq; i++ {
			n := 1 + c.Rng.Intn(5)
			var vs []val
			for k := 0; k < n; k++ {
				vs = append(vs, randVal(c, true))
			}
			fr, ok := encodeCase(c, enc, vs)
			if !ok {
				continue
			}
			c.Count(fmt.Sprintf("enc-seq-len-%d", n))
			all := concat(fr)
			ops := opsFor(vs)
			var exp []gres
			for _, v := range vs {
				exp = append(exp, expect(v))
			}
			// raw bytes of length 0 decode as empty; fine.
			cutsList := [][]int{}
			step := 1
			if len(all) > 40 && c.Quick() {
				step = 1 + len(all)/40
			}
			for cut := 0; cut <= len(all); cut += step {
				cutsList = append(cutsList, []int{cut})
			}
			for k := 0; k < 4; k++ {
				m := 2 + c.Rng.Intn(4)
				var cs []int
				for j := 0; j < m; j++ {
					cs = append(cs, c.Rng.Intn(len(all)+1))
				}
				sort.Ints(cs)
				cutsList = append(cutsList, cs)
			}
			if len(all) > 1 && len(all) <= 160 { // one byte per frame: every value spans as many frames as it has bytes
				var cs []int
				for p := 1; p < len(all); p++ {
					cs = append(cs, p)
				}
				cutsList = append(cutsList, cs)
			}
			for _, cs := range cutsList {
				desc := map[string]interface{}{"kind": "dec", "enc": enc, "vals": vs, "cuts": cs}
				decodeCase(c, enc, mock.Cut(all, cs), ops, exp, desc)
				c.Nontrivial(fmt.Sprint(enc, vs, cs))
			}
			if i < 2 {
				c.Sample(map[string]interface{}{"enc": enc, "vals": vs, "bytes": len(all), "single_cuts": len(cutsList) - 4})
			}
		}
		// 2b. strings containing NULs (first, middle, last position, several, only NULs), through
		// PutString AND PutStringBytes, followed by further values: layout oracle on the whole
		// message and round trip of the FOLLOWING values (a wrong length prefix misaligns them)
		nulInputs := [][]byte{
			{0}, {0, 0}, {0, 'a', 'b'}, {'a', 0, 'b'}, {'a', 'b', 0}, {'a', 0, 0, 'b'}, {'a', 0, 'b', 0, 'c'}, {0, 'a', 0},
			[]byte("key = \"va\x00lue\""), []byte("trailing nul and more\x00\x00\x00"), append(bytes.Repeat([]byte{'x'}, 40), 0, 'y', 'z'),
			{0xad, 0, 'q'}, {'q', 0, 0xad},
		}
		for _, in := range nulInputs {
			for _, kind := range []string{"str", "strb"} {
				follow := [][]val{
					{{Kind: "int", I: -3}, {Kind: "str", B: []byte("next")}, {Kind: "char", I: 0x21}},
					{{Kind: kind, B: []byte{'z', 0, 'w'}}, {Kind: "uint32", I: 4000000000}},
					{},
				}
				for fi, fol := range follow {
					vs := append([]val{{Kind: "char", I: 0x3c}, {Kind: kind, B: append([]byte(nil), in...)}}, fol...)
					fr, ok := encodeCase(c, enc, vs)
					if !ok {
						continue
					}
					c.Count("enc-nul-" + kind)
					all := concat(fr)
					var exp []gres
					for _, x := range vs {
						exp = append(exp, expect(x))
					}
					cuts := [][]int{{}, {len(all) / 2}, {1, len(all) - 1}}
					if fi > 0 && c.Quick() {
						cuts = cuts[1:2]
					}
					if fi == 0 {
						var every []int
						for p := 1; p < len(all); p++ {
							every = append(every, p)
						}
						cuts = append(cuts, every)
					}
					for _, cs := range cuts {
						desc := map[string]interface{}{"kind": "dec", "enc": enc, "vals": vs, "cuts": cs}
						decodeCase(c, enc, mock.Cut(all, cs), opsFor(vs), exp, desc)
						c.Nontrivial(fmt.Sprint("nul", enc, kind, in, fi, cs))
					}
				}
			}
		}
		// 2c. PutClassAdRawBytes: all expressions of an ad are sub-slices of one shared buffer
		// (putAll), sent by ONE call; on the wire: count, expressions, MyType, TargetType
		ex := func(ss ...string) []val {
			var out []val
			for _, x := range ss {
				out = append(out, val{B: []byte(x)})
			}
			return out
		}
		ads := [][]val{
			ex(),
			ex("A = 1"),
			ex("MyType = \"Machine\"", "Name = \"slot1@host.example\"", "Cpus = 8", "Memory = 16384"),
			ex("", "B = 2", ""),
			ex("Pre = \"x\"", "Cut = \"ab\x00cd\"", "Post = true"),
			ex("a", "b", "c", "d", "e", "f", "g"),
			ex("\x00", "\x00x", "x\x00"),
		}
		if !c.Quick() || !enc { // large expressions: the > MaxFrameSize path of PutStringBytes inside an ad
			ads = append(ads, []val{{B: []byte("Small = 1")}, {Off: 5, Len: 1048575, NZ: true}, {B: []byte("After = 2")}})
		}
		if !c.Quick() {
			ads = append(ads,
				[]val{{Off: 7, Len: 1048576, NZ: true}, {B: []byte("After = 2")}},
				[]val{{B: []byte("Small = 1")}, {Off: 9, Len: 2097151, NZ: true}},
				[]val{{Off: 11, Len: 2097152, NZ: true}, {Off: 13, Len: 1048567, NZ: true}, {B: []byte("After = 2")}})
		}
		for ai, exprs := range ads {
			if ai%2 == 1 && ai < 7 { // the string flavour of the same call: PutClassAdRaw
				exprs = append([]val(nil), exprs...)
				for k := range exprs {
					exprs[k].Kind = "str"
				}
			}
			vs := append([]val{{Kind: "char", I: 0x5b}}, adGroup(exprs, "Machine", "Job")...)
			vs = append(vs, val{Kind: "strb", B: []byte("tail")}, val{Kind: "char", I: 0x5d})
			fr, ok := encodeCase(c, enc, vs)
			if !ok {
				continue
			}
			c.Count("enc-classad-raw-bytes")
			all := concat(fr)
			if !bytes.Equal(all, specEncode(enc, vs)) {
				continue // layout oracle already failed
			}
			var exp []gres
			for _, x := range vs {
				exp = append(exp, expect(x))
			}
			if len(all) > 4000 {
				desc := map[string]interface{}{"kind": "dec-own-framing", "enc": enc, "vals": vs}
				decodeCaseT(c, enc, fr, specTerm(enc, vs), opsFor(vs), exp, desc)
				c.Nontrivial(fmt.Sprint("adraw-large", enc, ai))
				continue
			}
			cuts := [][]int{{}, {len(all) / 2}, {c.Rng.Intn(len(all) + 1)}}
			var every []int
			for p := 1; p < len(all); p++ {
				every = append(every, p)
			}
			cuts = append(cuts, every)
			for _, cs := range cuts {
				sort.Ints(cs)
				desc := map[string]interface{}{"kind": "dec", "enc": enc, "vals": vs, "cuts": cs}
				decodeCase(c, enc, mock.Cut(all, cs), opsFor(vs), exp, desc)
				c.Nontrivial(fmt.Sprint("adraw", enc, ai, cs))
			}
		}
		// 3. sizes around the frame targets: strings / bytes built from payload descriptors
		// (string lengths 1048575 / 2097151 / 3145727 make the NUL-terminated data an exact multiple of 1 MiB)
		sizes := []int{16383, 16384, 16385, 16376, 16377, 16375, 4096, 1048575, 1048576, 1048577, 1048568, 1048567, 2097153,
			2097151, 2097152, 3145727, 3145728}
		for i, n := range sizes {
			if c.Quick() && i >= nBig+4 {
				break
			}
			for _, kind := range []string{"str", "strb", "bytes"} {
				if c.Quick() && n > 1048000 && kind == "strb" && i%2 == 0 {
					continue
				}
				pre := val{Kind: "int", I: int64(n)}
				v := val{Kind: kind, Off: n % 97, Len: n, NZ: kind != "bytes"}
				post := val{Kind: "char", I: 0x7e}
				vs := []val{pre, v, post}
				fr, ok := encodeCase(c, enc, vs)
				if !ok {
					continue
				}
				c.Count("enc-large-" + kind)
				// decode what the real writer framed (its own cuts)
				var exp []gres
				for _, x := range vs {
					exp = append(exp, expect(x))
				}
				if n <= 20000 || !c.Quick() || i%3 == 0 {
					desc := map[string]interface{}{"kind": "dec-own-framing", "enc": enc, "vals": vs}
					if !bytes.Equal(concat(fr), specEncode(enc, vs)) {
						continue // layout oracle already failed; no compact term for these bytes
					}
					decodeCaseT(c, enc, fr, specTerm(enc, vs), opsFor(vs), exp, desc)
					c.Nontrivial(fmt.Sprint("large", enc, kind, n))
				}
			}
		}
		// 3b. each Put* at its flush threshold: the buffer holds n bytes, then one more value; the
		// writer's own framing (a double may straddle two frames) is compared with the model's
		for _, n := range []int{16367, 16368, 16369, 16374, 16375, 16376, 16377, 16382, 16383, 16384, 16385} {
			nexts := []val{{Kind: "int", I: -2}, {Kind: "char", I: 0x41}, {Kind: "str", B: []byte("ab")}, {Kind: "strb", B: []byte("abcdefg")},
				{Kind: "double", Bits: 0x400921fb54442d18}, {Kind: "bytes", B: []byte{1, 2, 3}}}
			for k, nx := range nexts {
				if c.Quick() && (n+k)%2 == 0 && nx.Kind != "int" && nx.Kind != "char" && nx.Kind != "double" {
					continue
				}
				vs := []val{{Kind: "bytes", Off: n % 89, Len: n}, nx, {Kind: "char", I: 0x7e}}
				fr, ok := encodeCase(c, enc, vs)
				if !ok {
					continue
				}
				c.Count("enc-threshold-" + nx.Kind)
				if !bytes.Equal(concat(fr), specEncode(enc, vs)) {
					continue
				}
				var exp []gres
				for _, x := range vs {
					exp = append(exp, expect(x))
				}
				desc := map[string]interface{}{"kind": "dec-own-framing", "enc": enc, "vals": vs}
				decodeCaseT(c, enc, fr, specTerm(enc, vs), opsFor(vs), exp, desc)
				c.Nontrivial(fmt.Sprint("threshold", enc, n, nx.Kind))
			}
		}
		// 4. malformed decode inputs
		mal := [][]byte{
			{}, {0}, {1, 2, 3}, bytes.Repeat([]byte{0xff}, 7), bytes.Repeat([]byte{0xff}, 8), bytes.Repeat([]byte{0xff}, 9),
			append(i64(5), []byte("ab")...), append(i64(3), []byte("abcdef")...), append(i64(0), 1, 2), append(i64(1<<32+2), []byte("xy\x00")...),
			append(i64(2), 0xad, 0), append(i64(4), []byte("a\x00b\x00")...), []byte("no terminator"), []byte("a\x00b\x00\x00"),
		}
		if enc {
			mal = append(mal, append(i64(-1), 1, 2, 3), append(i64(math.MinInt32), 9), append(i64(1<<31), 9)) // negative lengths after int32 conversion
		}
		opsets := [][]gop{{{Op: "str"}, {Op: "str"}}, {{Op: "int"}, {Op: "char"}}, {{Op: "bytes", N: 3}, {Op: "remain"}}, {{Op: "char"}, {Op: "str"}, {Op: "remain"}},
			{{Op: "bytes", N: -4}, {Op: "uint32"}}, {{Op: "remain"}, {Op: "char"}}, {{Op: "int32"}, {Op: "str"}}}
		for _, b := range mal {
			for _, ops := range opsets {
				for _, cs := range [][]int{{}, {len(b) / 2}, {0, len(b)}} {
					fr := mock.Cut(b, cs)
					if c.Rng.Intn(6) == 0 { // sometimes lose the EOM frame: transport ends mid-message
						fr[len(fr)-1].EOM = false
					}
					ops := append([]gop(nil), ops...)
					for k := range ops { // malformed input through every reading entry point (Get*, Code* in decode direction)
						var alts []string
						for _, a := range putAPIs[ops[k].Op] {
							alts = append(alts, getAPIFor(a))
						}
						if len(alts) > 1 {
							ops[k].API = alts[c.Rng.Intn(len(alts))]
						}
					}
					desc := map[string]interface{}{"kind": "dec-malformed", "enc": enc, "bytes": b, "cuts": cs, "ops": ops}
					decodeCaseDesc(c, enc, fr, ops, nil, desc)
				}
			}
		}
	}
	genDoubles(c)
	genAPIs(c)
	genHuge(c)
	genReal(c)
	for _, a := range core.SortedKeys(called) {
		c.CountN("api-"+a, called[a])
	}
	return everyExercisedWasCalled()
}

// ---- doubles ---------------------------------------------------------------
func pow2bits(e int) uint64 { // 2^e as a pattern, -1074 <= e <= 1023
	if e >= -1022 {
		return uint64(e+1023) << 52
	}
	return 1 << uint(e+1074)
}

func doublePatterns(c *core.Ctx) (special, bulk []uint64) {
	special = []uint64{
		0, 1 << 63, // +0 -0
		1, 1<<63 | 1, 2, 3, // smallest subnormals
		1<<52 - 1, 1 << 52, 1<<52 + 1, // largest subnormal, smallest normal
		0x7fefffffffffffff, 0xffefffffffffffff, // +-MaxFloat64
		0x3ff0000000000000, 0xbff0000000000000, 0x3fe0000000000000, 0x3fefffffffffffff, 0x3ff0000000000001,
		0x400921fb54442d18, 0x3fb999999999999a, 0x41dfffffffc00000, 0x41e0000000000000, 0xc1e0000000000000,
		0x3fe0000000200000, 0x3fe00000001fffff, 0x3fe0000000100000, // fractions whose scaled value sits at / next to an integer
		1<<29 + 1, 1 << 30, 1<<30 - 1, 3 << 29, 1<<31 + 5, // subnormals with ~30 significant bits
	}
	// every power of two with its two neighbours (all binary exponents, subnormals included)
	step := 1
	if c.Quick() {
		step = 5
	}
	off := c.Rng.Intn(step)
	for e := -1074 + off; e <= 1023; e += step {
		p := pow2bits(e)
		bulk = append(bulk, p, p+1)
		if p > 1 {
			bulk = append(bulk, p-1)
		}
		if c.Rng.Intn(2) == 0 {
			bulk = append(bulk, p|1<<63)
		}
	}
	// all-ones mantissa in every 16th exponent, random subnormals, random patterns
	for E := uint64(0); E < 2047; E += 16 {
		bulk = append(bulk, E<<52|(1<<52-1))
	}
	nr := 700
	if !c.Quick() {
		nr = 30000
	}
	for i := 0; i < nr; i++ {
		b := c.Rng.Uint64()
		switch i % 10 {
		case 0:
			b &^= 0x7ff << 52 // subnormal
		case 1:
			b = b&^(0x7ff<<52) | uint64(c.Rng.Intn(40))<<52 // tiny exponents
		case 2:
			b = b&^(0x7ff<<52) | uint64(2046-c.Rng.Intn(40))<<52 // huge exponents
		case 3:
			b &^= uint64(1)<<uint(c.Rng.Intn(52)) - 1 // few significant bits
		}
		if finiteBits(b) {
			bulk = append(bulk, b)
		}
	}
	return
}

func genDoubles(c *core.Ctx) {
	special, bulk := doublePatterns(c)
	nonfinite := []uint64{0x7ff0000000000000, 0xfff0000000000000, 0x7ff8000000000001, 0xfff8000000000000, 0x7ff0000000000001, 0x7fffffffffffffff}
	dv := func(bs []uint64) []val {
		var vs []val
		for _, b := range bs {
			vs = append(vs, val{Kind: "double", Bits: b})
		}
		return vs
	}
	exps := func(vs []val) []gres {
		var out []gres
		for _, v := range vs {
			out = append(out, expect(v))
		}
		return out
	}
	classify := func(b uint64) string {
		switch {
		case !finiteBits(b):
			return "double-nonfinite"
		case b<<1 == 0:
			return "double-zero"
		case (b>>52)&0x7ff == 0:
			return "double-subnormal"
		}
		return "double-normal"
	}
	for _, enc := range []bool{false, true} {
		// 5a. special values alone: encode, then decode at EVERY cut position of the 16 bytes
		for si, b := range special {
			if enc && c.Quick() && si%5 != 0 {
				continue // doubles are laid out identically in both modes
			}
			vs := dv([]uint64{b})
			fr, ok := encodeCase(c, enc, vs)
			if !ok {
				continue
			}
			c.Count(classify(b))
			all := concat(fr)
			for cut := 0; cut <= len(all); cut++ {
				if c.Quick() && (si >= 12 || enc) && cut > 1 && cut < 15 && (cut < 7 || cut > 9) {
					continue // every position for the first dozen, the value/word edges for the rest
				}
				desc := map[string]interface{}{"kind": "dec", "enc": enc, "vals": vs, "cuts": []int{cut}}
				decodeCase(c, enc, mock.Cut(all, []int{cut}), opsFor(vs), exps(vs), desc)
				c.Nontrivial(fmt.Sprint("dbl", enc, b, cut))
			}
		}
		// 5b. NaN / infinities: implementation-defined conversion, amd64 semantics in the model
		if runtime.GOARCH == "amd64" {
			for _, b := range nonfinite {
				vs := dv([]uint64{b})
				if fr, ok := encodeCase(c, enc, vs); ok {
					c.Count(classify(b))
					desc := map[string]interface{}{"kind": "dec-own-framing", "enc": enc, "vals": vs}
					decodeCase(c, enc, fr, opsFor(vs), exps(vs), desc)
				}
			}
		}
		if enc {
			continue // doubles are laid out identically in both modes: the bulk runs once
		}
		// 5c. bulk: groups of 40 doubles per message (frames compared with the model by length,
		// checksum, head and tail; byte for byte with the format encoder); decoded at random multi-cuts
		for i := 0; i < len(bulk); i += 40 {
			j := i + 40
			if j > len(bulk) {
				j = len(bulk)
			}
			vs := dv(bulk[i:j])
			fr, ok := encodeCase(c, enc, vs)
			if !ok {
				continue
			}
			for _, b := range bulk[i:j] {
				c.Count(classify(b))
			}
			all := concat(fr)
			var cs []int
			for k := 0; k < 2+c.Rng.Intn(5); k++ {
				cs = append(cs, c.Rng.Intn(len(all)+1))
			}
			sort.Ints(cs)
			desc := map[string]interface{}{"kind": "dec", "enc": enc, "vals": vs, "cuts": cs}
			decodeCase(c, enc, mock.Cut(all, cs), opsFor(vs), exps(vs), desc)
			c.Nontrivial(fmt.Sprint("dblbulk", i, cs))
		}
		// 5d. decoding integer pairs no encoder produces: rounding into subnormals, underflow,
		// overflow, int32 truncation of the wire integers; reference = math/big decoder
		fracs := []int64{1, -1, 3, 1 << 30, 1<<30 + 1, 1<<31 - 1, -(1 << 31), 1<<31 - 2, 1234567891, -987654321, 1 << 31, 1<<32 + 5, -(1<<31 + 1), math.MaxInt64, math.MinInt64}
		var pairs [][2]int64
		estep := 1
		if c.Quick() {
			estep = 3
			fracs = fracs[:11]
		}
		for _, f := range fracs {
			for e := int64(-1112); e <= -1040; e += int64(estep) {
				pairs = append(pairs, [2]int64{f, e})
			}
			for e := int64(990); e <= 1060; e += int64(estep * 2) {
				pairs = append(pairs, [2]int64{f, e})
			}
			pairs = append(pairs, [2]int64{f, 0}, [2]int64{f, math.MaxInt32}, [2]int64{f, math.MinInt32}, [2]int64{f, 1 << 32}, [2]int64{f, -(1<<32 + 1060)}, [2]int64{f, math.MaxInt64})
		}
		np := 300
		if !c.Quick() {
			np = 8000
		}
		for i := 0; i < np; i++ {
			f := int64(int32(c.Rng.Uint32()))
			e := int64(c.Rng.Intn(2300) - 1150)
			if i%7 == 0 {
				f, e = int64(c.Rng.Uint64()), int64(c.Rng.Uint64())
			}
			pairs = append(pairs, [2]int64{f, e})
		}
		for i := 0; i < len(pairs); i += 30 {
			j := i + 30
			if j > len(pairs) {
				j = len(pairs)
			}
			var data []byte
			var ops []gop
			for _, p := range pairs[i:j] {
				data = append(data, i64(p[0])...)
				data = append(data, i64(p[1])...)
				ops = append(ops, gop{Op: "double"})
			}
			var cs []int
			for k := 0; k < c.Rng.Intn(5); k++ {
				cs = append(cs, c.Rng.Intn(len(data)+1))
			}
			sort.Ints(cs)
			fr := mock.Cut(data, cs)
			desc := map[string]interface{}{"kind": "dec-pairs", "enc": enc, "pairs": pairs[i:j], "cuts": cs}
			// oracle: the real decoder agrees bit for bit with the math/big reference decoder
			st := &mock.Stream{Enc: enc, In: append([]mock.Frame(nil), fr...)}
			m := message.NewMessageFromStream(st)
			for k, p := range pairs[i:j] {
				r := doGet(m, gop{Op: "double"})
				c.OracleCheck()
				if want := specDoubleDecode(p[0], p[1]); r.Kind != "double" || r.Bits != want {
					c.OracleFail("double-decode", fmt.Sprintf("GetDouble of wire integers (%d, %d) returned %s, the format prescribes pattern %d", p[0], p[1], r.term(), want),
						map[string]interface{}{"kind": "dec-pairs", "enc": enc, "pairs": pairs[i+k : i+k+1], "cuts": []int{}})
				}
			}
			c.CountN("double-decode-pairs", j-i)
			decodeCase(c, enc, fr, ops, nil, desc)
			c.Nontrivial(fmt.Sprint("dblpairs", i, cs))
		}
	}
}

func decodeCaseDesc(c *core.Ctx, enc bool, fr []mock.Frame, ops []gop, exp []gres, desc map[string]interface{}) {
	decodeCase(c, enc, fr, ops, exp, desc)
}

func i64(x int64) []byte {
	var t [8]byte
	binary.BigEndian.PutUint64(t[:], uint64(x))
	return t[:]
}
func concat(fr []mock.Frame) []byte {
	var all []byte
	for _, f := range fr {
		all = append(all, f.Data...)
	}
	return all
}

func replay(raw json.RawMessage) error {
	var d struct {
		Kind   string     `json:"kind"`
		Enc    bool       `json:"enc"`
		Vals   []val      `json:"vals"`
		Cuts   []int      `json:"cuts"`
		Pairs  [][2]int64 `json:"pairs"`
		API    string     `json:"api"`
		N      int        `json:"n"`
		Real   bool       `json:"real"`   // the failure was observed on a real stream.Stream (real.go)
		Remain bool       `json:"remain"` // dec-real: the last value is read with GetRemainingBytes
	}
	if err := json.Unmarshal(raw, &d); err != nil {
		return err
	}
	if d.Kind == "huge-string" {
		buf := bytes.Repeat([]byte{'a'}, d.N)
		st := &countingStream{enc: d.Enc}
		m := message.NewMessageForStream(st)
		_ = m.PutChar(ctx, 0x3c)
		var err error
		switch d.API {
		case "PutStringBytes":
			err = m.PutStringBytes(ctx, buf)
		case "PutString":
			err = m.PutString(ctx, string(buf))
		default:
			s := string(buf)
			err = m.CodeString(ctx, &s)
		}
		_ = m.PutChar(ctx, 0x3e)
		_ = m.FinishMessage(ctx)
		if msg := hugeVerdict(d.Enc, d.N, err, st); msg != "" {
			return fmt.Errorf("%s", msg)
		}
		return nil
	}
	if d.Kind == "dec-real" {
		return replayReal(d.Enc, d.Vals, d.Cuts, d.Remain)
	}
	if d.Kind == "dec-pairs" {
		var data []byte
		for _, p := range d.Pairs {
			data = append(data, i64(p[0])...)
			data = append(data, i64(p[1])...)
		}
		rm := message.NewMessageFromStream(&mock.Stream{Enc: d.Enc, In: mock.Cut(data, d.Cuts)})
		for _, p := range d.Pairs {
			r := doGet(rm, gop{Op: "double"})
			if want := specDoubleDecode(p[0], p[1]); r.Kind != "double" || r.Bits != want {
				return fmt.Errorf("GetDouble of (%d, %d) returned %s, want pattern %d", p[0], p[1], r.term(), want)
			}
		}
		return nil
	}
	st := &mock.Stream{Enc: d.Enc}
	m := message.NewMessageForStream(st)
	if putErr, alias := putAll(m, d.Vals); alias != "" {
		return fmt.Errorf("%s", alias)
	} else if putErr != nil {
		return fmt.Errorf("put: %v", putErr)
	}
	called["FinishMessage"]++
	if err := m.FinishMessage(ctx); err != nil {
		return err
	}
	for _, f := range st.Out {
		if len(f.Data) > message.MaxFrameSize {
			return fmt.Errorf("the writer handed a %d-byte frame to the stream (limit %d)", len(f.Data), message.MaxFrameSize)
		}
	}
	all := concat(st.Out)
	if !hasNonFinite(d.Vals) && !bytes.Equal(all, specEncode(d.Enc, d.Vals)) {
		return fmt.Errorf("layout differs from the format definition: got %x", all)
	}
	fr := st.Out
	if d.Cuts != nil {
		fr = mock.Cut(all, d.Cuts)
	}
	rs := &mock.Stream{Enc: d.Enc, In: fr}
	rm := message.NewMessageFromStream(rs)
	for i, g := range opsFor(d.Vals) {
		r := doGet(rm, g)
		if !sameRes(r, expect(d.Vals[i])) {
			return fmt.Errorf("value %d decoded as %s", i, strings.TrimSpace(trunc(r.term())))
		}
	}
	if d.Real && realRunnable(fr) {
		rs, err := realDecode(d.Enc, fr, opsFor(d.Vals))
		if err != nil {
			return err
		}
		for i, r := range rs {
			if !sameRes(r, expect(d.Vals[i])) {
				return fmt.Errorf("REAL stream: value %d decoded as %s, sender put %s", i, strings.TrimSpace(trunc(r.term())), trunc(expect(d.Vals[i]).term()))
			}
		}
	}
	return nil
}

func main() { core.MainWithFacts("C14", gen, replay, facts) }
