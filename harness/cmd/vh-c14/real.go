// real.go: the "every cut position" family through REAL stream.Stream receivers.
//
// The mock StreamInterface hands the Message a fresh slice per frame, so a Message that keeps
// (aliases) the slice ReadFrame returned and a Stream that reuses its receive buffer are
// invisible there.  message.StreamInterface documents nothing about who owns the slice
// ReadFrame returns, so the mock is not made adversarial; instead every decode case is ALSO
// run through a real stream.Stream over an in-memory connection: a scripted peer writes the
// frames as raw wire bytes (cleartext: 5-byte header + payload; encrypted: AES-256-GCM frames
// sealed by the independent reference codec streamsim.Dir), preceded by a warm-up message at
// least as large as the largest frame of the case (the steady state of a connection: every
// later frame fits whatever receive buffer the Stream may keep).  The direct oracle is the
// usual one (decoded = what was encoded, at every cut); the observations must also equal the
// mock run's, otherwise they are handed to the model as a case of their own.
package main

import (
	"bytes"
	"errors"
	"fmt"
	"io"
	"unicode/utf8"

	"verifharness/core"
	"verifharness/mock"
	ss "verifharness/streamsim"

	"github.com/bbockelm/cedar/message"
	"github.com/bbockelm/cedar/stream"
)

var realKey = bytes.Repeat([]byte{0x42}, 32)

// realMode: error classification for a real Stream: a transport that ends inside a message
// reports a wrapped io.EOF / ErrUnexpectedEOF where the mock reports ErrNoMoreFrames
var realMode bool

func transportEnded(err error) bool {
	return realMode && err != io.EOF && (errors.Is(err, io.EOF) || errors.Is(err, io.ErrUnexpectedEOF))
}

var realSeq int // varies the IV and the read granularity deterministically

// realReader: a real receiving Stream whose peer is the harness; frames are queued on the wire
type realReader struct {
	b   *stream.Stream
	ab  *ss.Wire
	dir *ss.Dir
	enc bool
}

func newRealReader(enc bool, readMax int) (*realReader, error) {
	_, cb, ab, _ := ss.Pair()
	cb.ReadMax = readMax
	r := &realReader{b: stream.NewStream(cb), ab: ab, enc: enc}
	if enc {
		if err := r.b.SetSymmetricKey(realKey); err != nil {
			return nil, err
		}
		r.dir = ss.NewDir(realKey)
	}
	return r, nil
}

func (r *realReader) queue(frames []mock.Frame) error {
	for _, f := range frames {
		flag := byte(0)
		if f.EOM {
			flag = 1
		}
		if !r.enc {
			r.ab.Write(ss.RawFrame{Flag: flag, Len: uint32(len(f.Data)), Body: f.Data}.Bytes())
			continue
		}
		realSeq++
		iv := make([]byte, 16)
		for k := range iv {
			iv[k] = byte(realSeq>>uint(8*(k%4))) ^ byte(0x35*k)
		}
		rf, err := r.dir.Seal(flag, f.Data, iv)
		if err != nil {
			return err
		}
		r.ab.Write(rf.Bytes())
	}
	return nil
}

// realRunnable: frames a real peer can put on the wire
func realRunnable(frames []mock.Frame) bool {
	for _, f := range frames {
		if len(f.Data) > stream.MaxMessageSize {
			return false
		}
	}
	return len(frames) > 0
}

// realDecode runs ops on a Message reading from a real Stream that is served `frames`.
func realDecode(enc bool, frames []mock.Frame, ops []gop) ([]gres, error) {
	realSeq++
	readMax := []int{0, 0, 1, 3, 7, 4096}[realSeq%6]
	r, err := newRealReader(enc, readMax)
	if err != nil {
		return nil, err
	}
	// warm-up message: one frame at least as large as every frame of the case
	w := 16
	for _, f := range frames {
		if len(f.Data) > w {
			w = len(f.Data)
		}
	}
	warm := make([]byte, w)
	for i := range warm {
		warm[i] = 0xc3
	}
	if err := r.queue([]mock.Frame{{Data: warm, EOM: true}}); err != nil {
		return nil, err
	}
	if err := r.queue(frames); err != nil {
		return nil, err
	}
	wm := message.NewMessageFromStream(r.b)
	got, err := wm.GetBytes(ctx, w)
	if err != nil || !bytes.Equal(got, warm) {
		return nil, fmt.Errorf("warm-up message of %d bytes not delivered intact: %v", w, err)
	}
	realMode = true
	defer func() { realMode = false }()
	m := message.NewMessageFromStream(r.b)
	var out []gres
	for _, g := range ops {
		res := doGet(m, g)
		out = append(out, res)
		if res.Kind == "panic" {
			break
		}
	}
	return out, nil
}

// realAlso: the same frames and ops through a real Stream; oracle = round trip (when the
// sender's values are known); observations that differ from the mock run become a model case.
func realAlso(c *core.Ctx, enc bool, frames []mock.Frame, dataTerm string, ops []gop, expected []gres, mockObs []string, desc map[string]interface{}) {
	if !realRunnable(frames) {
		c.Count("real-stream-skipped (frame beyond the stream's size limit)")
		return
	}
	rdesc := map[string]interface{}{"real": true}
	for k, v := range desc {
		rdesc[k] = v
	}
	rs, err := realDecode(enc, frames, ops)
	c.OracleCheck()
	if err != nil {
		c.OracleFail("real-stream-setup", err.Error(), rdesc)
		return
	}
	c.Count("real-stream-decode")
	var obs, ot []string
	differs, hasFloat := false, false
	for i, r := range rs {
		obs = append(obs, r.term())
		ot = append(ot, ops[i].term())
		hasFloat = hasFloat || ops[i].Op == "float"
		if i >= len(mockObs) || mockObs[i] != obs[i] {
			differs = true
		}
		if expected != nil && (expected[i].Kind != "bytes" || utf8.Valid(expected[i].B) || ops[i].Op == "bytes") {
			c.OracleCheck()
			if !sameRes(r, expected[i]) {
				c.OracleFail("roundtrip", fmt.Sprintf("REAL stream (enc=%v): decode op %d (%s) at this framing returned %s, sender put %s", enc, i, ops[i].Op, trunc(r.term()), trunc(expected[i].term())), rdesc)
			}
		}
	}
	if len(rs) != len(mockObs) {
		differs = true
	}
	if differs && !hasFloat {
		c.Count("real-stream-differs-from-mock")
		c.AddCase(fmt.Sprintf("CDec %s %s %s %s", core.Bool(enc), framesTerm(frames, dataTerm), core.List(ot), core.List(obs)), rdesc)
	}
}

// ---- every 2- and 3-frame split of short mixed sequences, real streams only ---------------

type realSeqCase struct {
	vs     []val
	remain bool // the last value (raw bytes) is read with GetRemainingBytes
}

func realOps(rc realSeqCase) []gop {
	ops := opsFor(rc.vs)
	if rc.remain {
		ops[len(ops)-1] = gop{Op: "remain"}
	}
	return ops
}

func realSplit(c *core.Ctx, enc bool, rc realSeqCase, cuts []int, failures *int) {
	all := specEncode(enc, rc.vs)
	frames := mock.Cut(all, cuts)
	ops := realOps(rc)
	desc := map[string]interface{}{"kind": "dec-real", "enc": enc, "vals": rc.vs, "cuts": cuts, "remain": rc.remain}
	rs, err := realDecode(enc, frames, ops)
	c.OracleCheck()
	c.Evaluated(1)
	if err != nil {
		c.OracleFail("real-stream-setup", err.Error(), desc)
		return
	}
	bad := false
	var obs, ot []string
	for i, r := range rs {
		obs = append(obs, r.term())
		ot = append(ot, ops[i].term())
		c.OracleCheck()
		if !sameRes(r, expect(rc.vs[i])) {
			bad = true
			c.OracleFail("roundtrip", fmt.Sprintf("REAL stream (enc=%v), frames cut at %v: value %d (%s via %s) decoded as %s, sender put %s", enc, cuts, i, rc.vs[i].Kind, ops[i].API, trunc(r.term()), trunc(expect(rc.vs[i]).term())), desc)
		}
	}
	if len(rs) != len(ops) {
		bad = true
	}
	hasFloat := false
	for _, g := range ops {
		hasFloat = hasFloat || g.Op == "float"
	}
	if bad && !hasFloat && *failures < 12 { // hand the observation to the model too (C14_cut_independent instance)
		*failures++
		c.AddCase(fmt.Sprintf("CDec %s %s %s %s", core.Bool(enc), framesTerm(frames, ""), core.List(ot), core.List(obs)), desc)
	}
}

func genReal(c *core.Ctx) {
	rb := func(n int) []byte {
		b := make([]byte, n)
		for i := range b {
			b[i] = byte(1 + c.Rng.Intn(255))
		}
		return b
	}
	ri := func() int64 { return int64(c.Rng.Uint64()) }
	seqs := func() []realSeqCase {
		return []realSeqCase{
			{vs: []val{ // every integer getter
				{Kind: "int", I: 0x0102030405060708, API: "PutInt64"}, {Kind: "int", I: ri(), API: "PutInt"},
				{Kind: "int", I: -0x0102030405060708, API: "CodeInt64"}, {Kind: "int", I: ri(), API: "CodeInt"},
				{Kind: "int32", I: int64(int32(ri())), API: "PutInt32"}, {Kind: "int32", I: -0x01020304, API: "CodeInt32"},
				{Kind: "uint32", I: int64(uint32(ri()) | 1<<31), API: "PutUint32"}, {Kind: "char", I: 0x7e, API: "PutChar"}}},
			{vs: []val{ // chars, doubles and floats through Get* and Code*
				{Kind: "char", I: 0x41, API: "CodeChar"},
				{Kind: "double", Bits: 0x400921fb54442d18, API: "PutDouble"}, {Kind: "double", Bits: 0xc1d26580b487e6b7, API: "CodeDouble"},
				{Kind: "float", I: 0x40490fdb, API: "PutFloat"}, {Kind: "float", I: 0xc2f6e979, API: "CodeFloat"},
				{Kind: "double", Bits: 0x7fefffffffffffff, API: "PutDouble"}, {Kind: "char", I: 0xad, API: "PutChar"}}},
			{vs: []val{ // raw bytes and strings followed by more values
				{Kind: "bytes", B: rb(5)}, {Kind: "int", I: ri(), API: "PutInt64"}, {Kind: "str", B: []byte("héllo ✓"), API: "PutString"},
				{Kind: "bytes", B: rb(9)}, {Kind: "strb", B: []byte("Attr = \"v\"")}, {Kind: "str", B: []byte{}, API: "CodeString"},
				{Kind: "int32", I: -2, API: "PutInt32"}, {Kind: "bytes", B: rb(11)}}, remain: true},
		}
	}
	failures := 0
	for _, enc := range []bool{false, true} {
		for si, rc := range seqs() {
			n := len(specEncode(enc, rc.vs))
			step := 1
			if c.Quick() && enc {
				step = 3 // sealed frames decrypt into fresh slices; the dense sweep is the cleartext one
			}
			for i := 0; i <= n; i++ {
				realSplit(c, enc, rc, []int{i}, &failures)
				c.Nontrivial(fmt.Sprint("real2", enc, si, i))
				for j := i; j <= n; j += step {
					realSplit(c, enc, rc, []int{i, j}, &failures)
				}
			}
			c.CountN(fmt.Sprintf("real-stream-splits-enc=%v-seq%d (every 2-frame split, 3-frame splits incl. empty and 1-byte frames)", enc, si), (n+1)*(n+2)/2/step)
			// one byte per frame
			var every []int
			for p := 1; p < n; p++ {
				every = append(every, p)
			}
			realSplit(c, enc, rc, every, &failures)
		}
		// every integer edge alone, every 3-frame split of its 8 bytes, through each int getter
		for k, x := range intEdges {
			apis := putAPIs["int"]
			rc := realSeqCase{vs: []val{{Kind: "int", I: x, API: apis[k%len(apis)]}}}
			for i := 0; i <= 8; i++ {
				for j := i; j <= 8; j++ {
					realSplit(c, enc, rc, []int{i, j}, &failures)
				}
			}
		}
		c.Count("real-stream-int-edges")
	}
}

func replayReal(enc bool, vs []val, cuts []int, remain bool) error {
	rc := realSeqCase{vs: vs, remain: remain}
	ops := realOps(rc)
	rs, err := realDecode(enc, mock.Cut(specEncode(enc, vs), cuts), ops)
	if err != nil {
		return err
	}
	if len(rs) != len(ops) {
		return fmt.Errorf("REAL stream: the reader panicked at op %d", len(rs))
	}
	for i, r := range rs {
		if !sameRes(r, expect(vs[i])) {
			return fmt.Errorf("REAL stream (enc=%v), frames cut at %v: value %d (%s) decoded as %s, sender put %s", enc, cuts, i, vs[i].Kind, trunc(r.term()), trunc(expect(vs[i]).term()))
		}
	}
	return nil
}
