// facts: translate the synchronisation structure of /repo into coq/gen/FactsC17.v:
//
//	lock_facts    every access to a field of security.SessionCache / SessionEntry
//	              (anywhere in package security) and of ccb.brokerReg, with the
//	              locks held at that point (from the Lock/RLock/Unlock/defer
//	              structure, in source order)
//	cs_facts      per function of package security: how many times SessionCache.mu is
//	              acquired and whether the function writes a SessionCache field
//	var_facts     accesses to the package-level variables of session_manager.go
//	auth_sites    every call of security.NewAuthenticator in the library packages,
//	              with the kind of its configuration argument
//	hook_sites    every place a config-returning hook (func ... *SecurityConfig) is
//	              installed on an Authenticator, with what it hands over
//	broker_io     Write/ReadControlAd calls in brokerReg methods: origin of the
//	              stream argument and locks held
//	stream_send / stream_recv   field accesses of stream.Stream reachable from the
//	              send entry points resp. the receive entry points
package main

import (
	"fmt"
	"go/ast"
	"go/token"
	"go/types"
	"sort"
	"strings"
)

type lockHeld struct{ name, base, mode string }

type access struct {
	fn, field, rw, base string
	held                []lockHeld
}

func exprText(e ast.Expr) string {
	switch v := ast.Unparen(e).(type) {
	case *ast.Ident:
		return v.Name
	case *ast.SelectorExpr:
		return exprText(v.X) + "." + v.Sel.Name
	case *ast.StarExpr:
		return "*" + exprText(v.X)
	case *ast.UnaryExpr:
		return v.Op.String() + exprText(v.X)
	case *ast.IndexExpr:
		return exprText(v.X) + "[]"
	case *ast.CallExpr:
		return exprText(v.Fun) + "()"
	case *ast.FuncLit:
		return "func literal"
	}
	return "?"
}

func namedOf(t types.Type) *types.Named {
	if p, ok := t.(*types.Pointer); ok {
		t = p.Elem()
	}
	n, _ := t.(*types.Named)
	return n
}

func funcKey(p *loadedPkg, fd *ast.FuncDecl) string {
	sub := strings.TrimPrefix(p.Path, modPath+"/")
	if fd.Recv != nil && len(fd.Recv.List) > 0 {
		t := fd.Recv.List[0].Type
		if s, ok := t.(*ast.StarExpr); ok {
			t = s.X
		}
		if id, ok := t.(*ast.Ident); ok {
			return sub + "." + id.Name + "." + fd.Name.Name
		}
	}
	return sub + "." + fd.Name.Name
}

// writes collects the expressions that are assigned / mutated in a function body.
func writeTargets(body ast.Node) map[ast.Expr]bool {
	w := map[ast.Expr]bool{}
	mark := func(e ast.Expr) {
		for {
			e = ast.Unparen(e)
			w[e] = true
			switch v := e.(type) {
			case *ast.IndexExpr: // m[k] = v mutates m
				e = v.X
				continue
			case *ast.SliceExpr:
				e = v.X
				continue
			}
			return
		}
	}
	ast.Inspect(body, func(n ast.Node) bool {
		switch v := n.(type) {
		case *ast.AssignStmt:
			for _, l := range v.Lhs {
				mark(l)
			}
		case *ast.IncDecStmt:
			mark(v.X)
		case *ast.CallExpr:
			if id, ok := v.Fun.(*ast.Ident); ok && (id.Name == "delete" || id.Name == "clear") && len(v.Args) > 0 {
				mark(v.Args[0])
			}
			if id, ok := v.Fun.(*ast.Ident); ok && id.Name == "copy" && len(v.Args) > 0 {
				mark(v.Args[0])
			}
		case *ast.UnaryExpr:
			if v.Op == token.AND { // address taken: may be written through
				if _, isLit := ast.Unparen(v.X).(*ast.CompositeLit); !isLit {
					mark(v.X)
				}
			}
		}
		return true
	})
	return w
}

// ---- interprocedural lockset ------------------------------------------------
//
// Every function body of a package (function literals are bodies of their own)
// is walked in source order, tracking Lock/RLock/Unlock/RUnlock calls on mutex
// fields (defer Unlock = held to the end), starting from the function's ENTRY
// LOCKSET. For an unexported function/method of the package the entry lockset is
// the intersection of the locksets held at all of its static call sites in the
// package (expressed in the callee's own receiver/parameter names), computed as
// the greatest fixpoint over the call graph. Exported functions, function
// literals, functions used as values (method values, arguments, go / defer
// targets), methods whose name is called through an interface somewhere in the
// package, and functions without any static call site start with the empty
// lockset: an unknown caller promises nothing.

type fnBody struct {
	name   string
	body   *ast.BlockStmt
	obj    *types.Func // nil for function literals
	recv   string      // receiver name ("" if none)
	params []string    // parameter names in order ("" / "_" for unnamed)
	top    []lockHeld  // every lock expressible through receiver/parameters (start of the fixpoint)
}

type callSite struct {
	caller string
	callee *types.Func
	held   []lockHeld // locks held at the call, in the CALLEE's receiver/parameter names
}

type lockAnalysis struct {
	p        *loadedPkg
	bodies   []*fnBody
	byObj    map[*types.Func]*fnBody
	eligible map[*types.Func]bool
	entry    map[*types.Func][]lockHeld
	sites    map[*types.Func][]callSite
}

func isMutexType(t types.Type) bool {
	ts := t.String()
	return ts == "sync.Mutex" || ts == "sync.RWMutex"
}

// mutexesOf lists the locks reachable as <name>.<mutex field> for a variable of (pointer to) struct type.
func mutexesOf(name string, t types.Type) []lockHeld {
	nn := namedOf(t)
	if nn == nil || name == "" || name == "_" {
		return nil
	}
	st, ok := nn.Underlying().(*types.Struct)
	if !ok {
		return nil
	}
	var out []lockHeld
	for i := 0; i < st.NumFields(); i++ {
		if f := st.Field(i); isMutexType(f.Type()) {
			out = append(out, lockHeld{nn.Obj().Name() + "." + f.Name(), name, "MW"})
		}
	}
	return out
}

func calleeOf(p *loadedPkg, call *ast.CallExpr) (*types.Func, ast.Expr) {
	switch f := ast.Unparen(call.Fun).(type) {
	case *ast.Ident:
		if o, ok := p.Info.Uses[f].(*types.Func); ok {
			return o, nil
		}
	case *ast.SelectorExpr:
		if o, ok := p.Info.Uses[f.Sel].(*types.Func); ok {
			if s, ok := p.Info.Selections[f]; ok {
				if _, isIface := s.Recv().Underlying().(*types.Interface); isIface {
					return nil, nil
				}
				return o, f.X
			}
			return o, nil // package-qualified function
		}
	}
	return nil, nil
}

func newLockAnalysis(p *loadedPkg) *lockAnalysis {
	la := &lockAnalysis{p: p, byObj: map[*types.Func]*fnBody{}, eligible: map[*types.Func]bool{}, entry: map[*types.Func][]lockHeld{}, sites: map[*types.Func][]callSite{}}
	for _, file := range p.Files {
		for _, d := range file.Decls {
			fd, ok := d.(*ast.FuncDecl)
			if !ok || fd.Body == nil {
				continue
			}
			fb := &fnBody{name: funcKey(p, fd), body: fd.Body}
			fb.obj, _ = p.Info.Defs[fd.Name].(*types.Func)
			if fd.Recv != nil && len(fd.Recv.List) > 0 && len(fd.Recv.List[0].Names) > 0 {
				fb.recv = fd.Recv.List[0].Names[0].Name
				if o := p.Info.Defs[fd.Recv.List[0].Names[0]]; o != nil {
					fb.top = append(fb.top, mutexesOf(fb.recv, o.Type())...)
				}
			}
			if fd.Type.Params != nil {
				for _, f := range fd.Type.Params.List {
					if len(f.Names) == 0 {
						fb.params = append(fb.params, "")
					}
					for _, n := range f.Names {
						fb.params = append(fb.params, n.Name)
						if o := p.Info.Defs[n]; o != nil {
							fb.top = append(fb.top, mutexesOf(n.Name, o.Type())...)
						}
					}
				}
			}
			la.bodies = append(la.bodies, fb)
			if fb.obj != nil {
				la.byObj[fb.obj] = fb
			}
		}
	}
	// who may have unknown callers: anything referenced other than as the function of a
	// plain call statement/expression, go / defer targets, interface-dispatched names
	callFun := map[*ast.Ident]bool{}
	escaped := map[*types.Func]bool{}
	ifaceNames := map[string]bool{}
	hasSite := map[*types.Func]bool{}
	for _, file := range p.Files {
		ast.Inspect(file, func(n ast.Node) bool {
			switch v := n.(type) {
			case *ast.GoStmt:
				if o, _ := calleeOf(p, v.Call); o != nil {
					escaped[o] = true
				}
			case *ast.DeferStmt:
				if o, _ := calleeOf(p, v.Call); o != nil {
					escaped[o] = true
				}
			case *ast.CallExpr:
				switch f := ast.Unparen(v.Fun).(type) {
				case *ast.Ident:
					callFun[f] = true
				case *ast.SelectorExpr:
					callFun[f.Sel] = true
					if s, ok := p.Info.Selections[f]; ok {
						if _, isIface := s.Recv().Underlying().(*types.Interface); isIface {
							ifaceNames[f.Sel.Name] = true
						}
					}
				}
				if o, _ := calleeOf(p, v); o != nil {
					hasSite[o] = true
				}
			}
			return true
		})
	}
	for id, o := range p.Info.Uses {
		if f, ok := o.(*types.Func); ok && !callFun[id] {
			escaped[f] = true
		}
	}
	for o, fb := range la.byObj {
		if !o.Exported() && !escaped[o] && !ifaceNames[o.Name()] && hasSite[o] {
			la.eligible[o] = true
			la.entry[o] = append([]lockHeld(nil), fb.top...)
		}
	}
	return la
}

func sameLocks(a, b []lockHeld) bool {
	if len(a) != len(b) {
		return false
	}
	for i := range a {
		if a[i] != b[i] {
			return false
		}
	}
	return true
}

// meet: locks of a that b also holds (same lock, same object), in the weaker of the two modes
func meet(a, b []lockHeld) []lockHeld {
	var out []lockHeld
	for _, x := range a {
		best := ""
		for _, y := range b {
			if y.name == x.name && y.base == x.base {
				if y.mode == "MW" {
					best = "MW"
				} else if best == "" {
					best = "MR"
				}
			}
		}
		if best == "" {
			continue
		}
		if x.mode == "MR" {
			best = "MR"
		}
		dup := false
		for _, z := range out {
			if z.name == x.name && z.base == x.base {
				dup = true
			}
		}
		if !dup {
			out = append(out, lockHeld{x.name, x.base, best})
		}
	}
	return out
}

// solve runs the walk to the greatest fixpoint of the entry locksets and returns
// the accesses (with entry ∪ local locks held) of the watched struct types.
func (la *lockAnalysis) solve(watched map[string]bool) []access {
	var accs []access
	for iter := 0; iter < 50; iter++ {
		accs = nil
		la.sites = map[*types.Func][]callSite{}
		for _, fb := range la.bodies {
			la.walk(fb.name, fb.body, la.entry[fb.obj], watched, &accs)
		}
		changed := false
		for o := range la.eligible {
			cur := la.entry[o]
			nxt := append([]lockHeld(nil), la.byObj[o].top...)
			for _, s := range la.sites[o] {
				nxt = meet(nxt, s.held)
			}
			if len(la.sites[o]) == 0 {
				nxt = nil
			}
			if !sameLocks(cur, nxt) {
				la.entry[o] = nxt
				changed = true
			}
		}
		if !changed {
			return accs
		}
	}
	// no fixpoint (cannot happen: the sets only shrink): be conservative
	for o := range la.entry {
		la.entry[o] = nil
	}
	accs = nil
	la.sites = map[*types.Func][]callSite{}
	for _, fb := range la.bodies {
		la.walk(fb.name, fb.body, nil, watched, &accs)
	}
	return accs
}

// walk visits one body in source order starting with the locks in init held.
// Function literals are walked as separate bodies starting with no locks (they
// may run on another goroutine).
func (la *lockAnalysis) walk(name string, body *ast.BlockStmt, init []lockHeld, watched map[string]bool, out *[]access) {
	p := la.p
	w := writeTargets(body)
	held := append([]lockHeld(nil), init...)
	var lits []*ast.FuncLit
	deferred := map[*ast.CallExpr]bool{}
	ast.Inspect(body, func(n ast.Node) bool {
		switch v := n.(type) {
		case *ast.FuncLit:
			lits = append(lits, v)
			return false
		case *ast.DeferStmt:
			deferred[v.Call] = true
		case *ast.GoStmt:
			deferred[v.Call] = true
		case *ast.CallExpr:
			if sel, ok := v.Fun.(*ast.SelectorExpr); ok {
				if inner, ok := ast.Unparen(sel.X).(*ast.SelectorExpr); ok {
					if s, ok := p.Info.Selections[inner]; ok && s.Kind() == types.FieldVal {
						if isMutexType(s.Type()) {
							owner := "?"
							if nn := namedOf(s.Recv()); nn != nil {
								owner = nn.Obj().Name()
							}
							lk := lockHeld{owner + "." + inner.Sel.Name, exprText(inner.X), "MW"}
							switch sel.Sel.Name {
							case "Lock":
								held = append(held, lk)
							case "RLock":
								lk.mode = "MR"
								held = append(held, lk)
							case "Unlock", "RUnlock":
								if !deferred[v] {
									for i := len(held) - 1; i >= 0; i-- {
										if held[i].name == lk.name && held[i].base == lk.base {
											held = append(held[:i:i], held[i+1:]...)
											break
										}
									}
								}
							}
						}
					}
				}
			}
			// a static call of a function of this package: record the lockset it is entered with
			if callee, recvExpr := calleeOf(p, v); callee != nil && la.byObj[callee] != nil && !deferred[v] {
				cb := la.byObj[callee]
				subst := map[string]string{}
				if recvExpr != nil && cb.recv != "" {
					subst[exprText(recvExpr)] = cb.recv
				}
				for i, a := range v.Args {
					if i < len(cb.params) && cb.params[i] != "" && cb.params[i] != "_" {
						if t := exprText(a); t != "?" {
							if _, dup := subst[t]; !dup {
								subst[t] = cb.params[i]
							}
						}
					}
				}
				var tr []lockHeld
				for _, h := range held {
					if nb, ok := subst[h.base]; ok {
						tr = append(tr, lockHeld{h.name, nb, h.mode})
					}
				}
				la.sites[callee] = append(la.sites[callee], callSite{name, callee, tr})
			}
		case *ast.SelectorExpr:
			s, ok := p.Info.Selections[v]
			if !ok || s.Kind() != types.FieldVal {
				return true
			}
			nn := namedOf(s.Recv())
			if nn == nil || !watched[nn.Obj().Name()] {
				return true
			}
			if isMutexType(s.Type()) {
				return true
			}
			rw := "R"
			if w[v] {
				rw = "W"
			}
			*out = append(*out, access{name, nn.Obj().Name() + "." + v.Sel.Name, rw, exprText(v.X), append([]lockHeld(nil), held...)})
		}
		return true
	})
	for i, l := range lits {
		la.walk(fmt.Sprintf("%s$%d", name, i+1), l.Body, nil, watched, out)
	}
}

type helperFact struct {
	fn    string
	entry []lockHeld
	sites []callSite
}

// helpers: every function that is entered with a non-empty lockset, or that touches
// a watched field (appears in accs) while being a helper candidate, with its call sites.
func (la *lockAnalysis) helpers(accs []access) []helperFact {
	touched := map[string]bool{}
	for _, a := range accs {
		touched[a.fn] = true
	}
	var out []helperFact
	for _, fb := range la.bodies {
		if fb.obj == nil || !la.eligible[fb.obj] {
			continue
		}
		if len(la.entry[fb.obj]) == 0 && !touched[fb.name] {
			continue
		}
		out = append(out, helperFact{fb.name, la.entry[fb.obj], la.sites[fb.obj]})
	}
	return out
}

type csFact struct {
	fn, lock string
	regions  int
	writes   bool
}

// csFacts counts, per function body (function literals separately), how many times
// each watched struct's mutex is acquired (Lock or RLock) by the body itself AND by
// the unexported functions of the package it calls (transitively, per call site),
// and whether the body or such a callee writes a field of that struct: a
// read-decide-write on guarded state is atomic only if it happens inside ONE critical
// section. A critical section that calls a lock-free helper is still one region; a
// function that stitches two locking helpers together has two. Calls of exported
// functions are not followed (Store then MapCommand is a registration, known not to
// be atomic and modelled as such).
func (la *lockAnalysis) csFacts(watched map[string]bool, out *[]csFact) {
	p := la.p
	type own struct {
		regions map[string]int
		writes  map[string]bool
		calls   []*types.Func
	}
	owns := map[string]*own{}
	var order []string
	var scan func(name string, body *ast.BlockStmt)
	scan = func(name string, body *ast.BlockStmt) {
		w := writeTargets(body)
		o := &own{regions: map[string]int{}, writes: map[string]bool{}}
		owns[name] = o
		order = append(order, name)
		var lits []*ast.FuncLit
		ast.Inspect(body, func(n ast.Node) bool {
			switch v := n.(type) {
			case *ast.FuncLit:
				lits = append(lits, v)
				return false
			case *ast.CallExpr:
				if sel, ok := v.Fun.(*ast.SelectorExpr); ok && (sel.Sel.Name == "Lock" || sel.Sel.Name == "RLock") {
					if inner, ok := ast.Unparen(sel.X).(*ast.SelectorExpr); ok {
						if s, ok := p.Info.Selections[inner]; ok && s.Kind() == types.FieldVal {
							if nn := namedOf(s.Recv()); nn != nil && watched[nn.Obj().Name()] && isMutexType(s.Type()) {
								o.regions[nn.Obj().Name()+"."+inner.Sel.Name]++
							}
						}
					}
				}
				if callee, _ := calleeOf(p, v); callee != nil && la.byObj[callee] != nil && !callee.Exported() {
					o.calls = append(o.calls, callee)
				}
			case *ast.SelectorExpr:
				if s, ok := p.Info.Selections[v]; ok && s.Kind() == types.FieldVal && w[v] {
					if nn := namedOf(s.Recv()); nn != nil && watched[nn.Obj().Name()] {
						o.writes[nn.Obj().Name()] = true
					}
				}
			}
			return true
		})
		for i, l := range lits {
			scan(fmt.Sprintf("%s$%d", name, i+1), l.Body)
		}
	}
	for _, fb := range la.bodies {
		scan(fb.name, fb.body)
	}
	var total func(name string, stack map[string]bool) (map[string]int, map[string]bool)
	total = func(name string, stack map[string]bool) (map[string]int, map[string]bool) {
		r, wr := map[string]int{}, map[string]bool{}
		o := owns[name]
		if o == nil || stack[name] {
			return r, wr
		}
		stack[name] = true
		defer delete(stack, name)
		for k, v := range o.regions {
			r[k] += v
		}
		for k, v := range o.writes {
			wr[k] = wr[k] || v
		}
		for _, c := range o.calls {
			cr, cw := total(la.byObj[c].name, stack)
			for k, v := range cr {
				r[k] += v
			}
			for k, v := range cw {
				wr[k] = wr[k] || v
			}
		}
		return r, wr
	}
	for _, name := range order {
		r, wr := total(name, map[string]bool{})
		var keys []string
		for k := range r {
			keys = append(keys, k)
		}
		sort.Strings(keys)
		for _, k := range keys {
			owner := k[:strings.Index(k, ".")]
			*out = append(*out, csFact{name, k, r[k], wr[owner]})
		}
	}
}

type varFact struct{ fn, v, rw, kind string }

// counterOps: per (function, variable) the ordered sync/atomic operations applied to a
// package-level counter: CAdd (Add*), CLoad, CStore, COther (Swap, CompareAndSwap, plain)
type counterOps struct {
	fn, v string
	ops   []string
}

// varWalk classifies accesses to package-level variables: inside the closure
// given to sync.Once.Do (OnceInit), after such a Do call in the same function
// (AfterOnce), as operand of a sync/atomic call (Atomic), else Plain.
func varWalk(p *loadedPkg, name string, fd *ast.FuncDecl, vars map[types.Object]bool, out *[]varFact, cops *[]counterOps) {
	w := writeTargets(fd.Body)
	seenDo := false
	opsOf := map[string][]string{}
	var walk func(n ast.Node, inOnce bool, inAtomic string)
	walk = func(n ast.Node, inOnce bool, inAtomic string) {
		ast.Inspect(n, func(x ast.Node) bool {
			switch v := x.(type) {
			case *ast.CallExpr:
				if sel, ok := v.Fun.(*ast.SelectorExpr); ok {
					if o, ok := p.Info.Uses[sel.Sel].(*types.Func); ok {
						if o.FullName() == "(*sync.Once).Do" {
							for _, a := range v.Args {
								walk(a, true, inAtomic)
							}
							seenDo = true
							return false
						}
						if o.Pkg() != nil && o.Pkg().Path() == "sync/atomic" {
							kind := "VAtomicCAS"
							switch {
							case strings.HasPrefix(o.Name(), "Add"), strings.HasPrefix(o.Name(), "And"), strings.HasPrefix(o.Name(), "Or"):
								kind = "VAtomicRMW"
							case strings.HasPrefix(o.Name(), "Load"):
								kind = "VAtomicLoad"
							case strings.HasPrefix(o.Name(), "Store"):
								kind = "VAtomicStore"
							}
							for _, a := range v.Args {
								walk(a, inOnce, kind)
							}
							return false
						}
					}
				}
			case *ast.Ident:
				o := p.Info.Uses[v]
				if o == nil || !vars[o] {
					return true
				}
				rw := "R"
				if w[v] {
					rw = "W"
				}
				kind := "VPlain"
				switch {
				case inAtomic != "":
					kind = inAtomic
				case inOnce:
					kind = "VOnceInit"
				case seenDo && rw == "R":
					kind = "VAfterOnce"
				}
				*out = append(*out, varFact{name, o.Name(), rw, kind})
				if _, isInt := o.Type().Underlying().(*types.Basic); isInt {
					op := "COther"
					switch kind {
					case "VAtomicRMW":
						op = "CAdd"
					case "VAtomicLoad":
						op = "CLoad"
					case "VAtomicStore":
						op = "CStore"
					}
					opsOf[o.Name()] = append(opsOf[o.Name()], op)
				}
			}
			return true
		})
	}
	walk(fd.Body, false, "")
	var ks []string
	for k := range opsOf {
		ks = append(ks, k)
	}
	sort.Strings(ks)
	for _, k := range ks {
		*cops = append(*cops, counterOps{name, k, opsOf[k]})
	}
}

// sliceMut: in-place mutation of a slice that belongs to a SecurityConfig
// (`append(x[:i], x[i+1:]...)`, `x[i] = v`, sort/copy into it) where x is a
// SecurityConfig slice field or a local alias of one: per-connection configs are
// SHALLOW copies, so the backing array is shared between all handshakes.
type sliceMut struct{ fn, what, base string }

func cfgSliceRoot(p *loadedPkg, fd *ast.FuncDecl, e ast.Expr, depth int) string {
	e = ast.Unparen(e)
	switch v := e.(type) {
	case *ast.SliceExpr:
		return cfgSliceRoot(p, fd, v.X, depth)
	case *ast.SelectorExpr:
		if s, ok := p.Info.Selections[v]; ok && s.Kind() == types.FieldVal {
			if nn := namedOf(s.Recv()); nn != nil && nn.Obj().Name() == "SecurityConfig" {
				if _, isSlice := s.Type().Underlying().(*types.Slice); isSlice {
					return "SecurityConfig." + v.Sel.Name
				}
			}
		}
	case *ast.Ident:
		if depth > 3 {
			return ""
		}
		if vo, ok := p.Info.Uses[v].(*types.Var); ok && !vo.IsField() {
			if _, isSlice := vo.Type().Underlying().(*types.Slice); isSlice {
				if def := localDef(p, fd, vo); def != nil {
					return cfgSliceRoot(p, fd, def, depth+1)
				}
			}
		}
	}
	return ""
}

func sliceMuts(p *loadedPkg, out *[]sliceMut) {
	for _, file := range p.Files {
		for _, d := range file.Decls {
			fd, ok := d.(*ast.FuncDecl)
			if !ok || fd.Body == nil {
				continue
			}
			name := funcKey(p, fd)
			ast.Inspect(fd.Body, func(n ast.Node) bool {
				switch v := n.(type) {
				case *ast.CallExpr:
					id, ok := v.Fun.(*ast.Ident)
					if ok && id.Name == "append" && len(v.Args) > 0 {
						if _, isSl := ast.Unparen(v.Args[0]).(*ast.SliceExpr); isSl {
							if r := cfgSliceRoot(p, fd, v.Args[0], 0); r != "" {
								*out = append(*out, sliceMut{name, "append-into-prefix", r})
							}
						}
					}
					if ok && id.Name == "copy" && len(v.Args) > 0 {
						if r := cfgSliceRoot(p, fd, v.Args[0], 0); r != "" {
							*out = append(*out, sliceMut{name, "copy-into", r})
						}
					}
					if sel, ok := v.Fun.(*ast.SelectorExpr); ok && len(v.Args) > 0 {
						if o, ok := p.Info.Uses[sel.Sel].(*types.Func); ok && o.Pkg() != nil && (o.Pkg().Path() == "sort" || o.Pkg().Path() == "slices") &&
							(strings.HasPrefix(o.Name(), "Sort") || o.Name() == "Strings" || o.Name() == "Slice" || o.Name() == "Reverse" || o.Name() == "Delete" || o.Name() == "Insert" || o.Name() == "Compact") {
							if r := cfgSliceRoot(p, fd, v.Args[0], 0); r != "" {
								*out = append(*out, sliceMut{name, o.Pkg().Path() + "." + o.Name(), r})
							}
						}
					}
				case *ast.AssignStmt:
					for _, l := range v.Lhs {
						if ix, ok := ast.Unparen(l).(*ast.IndexExpr); ok {
							if r := cfgSliceRoot(p, fd, ix.X, 0); r != "" {
								*out = append(*out, sliceMut{name, "element-assign", r})
							}
						}
					}
				}
				return true
			})
		}
	}
}

type authSite struct{ fn, arg, kind string }

func authSites(p *loadedPkg, out *[]authSite) {
	roots := rootNames(p)
	for _, file := range p.Files {
		for _, d := range file.Decls {
			fd, ok := d.(*ast.FuncDecl)
			if !ok || fd.Body == nil {
				continue
			}
			name := funcKey(p, fd)
			if r, ok := roots[name]; ok {
				name = r
			}
			ast.Inspect(fd.Body, func(n ast.Node) bool {
				call, ok := n.(*ast.CallExpr)
				if !ok || len(call.Args) < 1 {
					return true
				}
				var id *ast.Ident
				switch f := call.Fun.(type) {
				case *ast.Ident:
					id = f
				case *ast.SelectorExpr:
					id = f.Sel
				}
				if id == nil {
					return true
				}
				o, ok := p.Info.Uses[id].(*types.Func)
				if !ok || o.FullName() != modPath+"/security.NewAuthenticator" {
					return true
				}
				arg := call.Args[0]
				kind := "CfgShared"
				if u, ok := ast.Unparen(arg).(*ast.UnaryExpr); ok && u.Op == token.AND {
					if vid, ok := ast.Unparen(u.X).(*ast.Ident); ok {
						if vo, ok := p.Info.Uses[vid].(*types.Var); ok && !vo.IsField() && vo.Parent() != p.Types.Scope() {
							// a local variable: how was it defined?
							def := localDef(p, fd, vo)
							switch d := ast.Unparen(def).(type) {
							case *ast.StarExpr:
								kind = "CfgCopy" // x := *shared
								_ = d
							case *ast.CompositeLit:
								kind = "CfgFresh"
							case nil:
								if !isParam(p, fd, vo) {
									kind = "CfgFresh" // var x T
								}
							}
						}
					}
				}
				*out = append(*out, authSite{name, exprText(arg), kind})
				return true
			})
		}
	}
}

type hookSite struct{ fn, field, rhs, kind string }

// isCfgHookType: func(...) *security.SecurityConfig
func isCfgHookType(t types.Type) bool {
	sig, ok := t.Underlying().(*types.Signature)
	if !ok || sig.Results().Len() != 1 {
		return false
	}
	return sig.Results().At(0).Type().String() == "*"+modPath+"/security.SecurityConfig"
}

// hookKind classifies what is installed as a config-returning hook of an
// Authenticator: a function literal each of whose returns is nil or the address
// of a local copy (`c := *cfg; return &c`) / fresh literal is HookCopy; a nil
// is HookNil; anything else (a method value, a caller-supplied func, a literal
// that returns a pointer it did not create) is HookShared.
func hookKind(p *loadedPkg, fd *ast.FuncDecl, rhs ast.Expr) string {
	rhs = ast.Unparen(rhs)
	if id, ok := rhs.(*ast.Ident); ok && id.Name == "nil" {
		return "HookNil"
	}
	lit, ok := rhs.(*ast.FuncLit)
	if !ok {
		return "HookShared"
	}
	okAll, any := true, false
	ast.Inspect(lit.Body, func(n ast.Node) bool {
		if inner, ok := n.(*ast.FuncLit); ok && inner != lit {
			return false
		}
		r, ok := n.(*ast.ReturnStmt)
		if !ok {
			return true
		}
		any = true
		if len(r.Results) != 1 {
			okAll = false
			return true
		}
		e := ast.Unparen(r.Results[0])
		if id, ok := e.(*ast.Ident); ok && id.Name == "nil" {
			return true
		}
		u, ok := e.(*ast.UnaryExpr)
		if !ok || u.Op != token.AND {
			okAll = false
			return true
		}
		switch x := ast.Unparen(u.X).(type) {
		case *ast.CompositeLit:
		case *ast.Ident:
			vo, ok := p.Info.Uses[x].(*types.Var)
			if !ok || vo.IsField() || vo.Parent() == p.Types.Scope() {
				okAll = false
				return true
			}
			def := localDef(p, fd, vo)
			switch ast.Unparen(def).(type) {
			case *ast.StarExpr, *ast.CompositeLit:
			default:
				okAll = false
			}
		default:
			okAll = false
		}
		return true
	})
	if okAll && any {
		return "HookCopy"
	}
	return "HookShared"
}

func hookSites(p *loadedPkg, out *[]hookSite) {
	roots := rootNames(p)
	for _, file := range p.Files {
		for _, d := range file.Decls {
			fd, ok := d.(*ast.FuncDecl)
			if !ok || fd.Body == nil {
				continue
			}
			name := funcKey(p, fd)
			if r, ok := roots[name]; ok {
				name = r
			}
			ast.Inspect(fd.Body, func(n ast.Node) bool {
				switch v := n.(type) {
				case *ast.AssignStmt:
					for i, l := range v.Lhs {
						sel, ok := ast.Unparen(l).(*ast.SelectorExpr)
						if !ok {
							continue
						}
						s, ok := p.Info.Selections[sel]
						if !ok || s.Kind() != types.FieldVal || !isCfgHookType(s.Type()) {
							continue
						}
						nn := namedOf(s.Recv())
						if nn == nil || nn.Obj().Name() != "Authenticator" {
							continue
						}
						kind := "HookShared"
						rhs := "?"
						if len(v.Rhs) == len(v.Lhs) {
							kind = hookKind(p, fd, v.Rhs[i])
							rhs = exprText(v.Rhs[i])
						}
						*out = append(*out, hookSite{name, "Authenticator." + sel.Sel.Name, rhs, kind})
					}
				case *ast.CompositeLit:
					tv := p.Info.Types[v]
					nn := namedOf(tv.Type)
					if nn == nil || nn.Obj().Name() != "Authenticator" {
						return true
					}
					for _, el := range v.Elts {
						kv, ok := el.(*ast.KeyValueExpr)
						if !ok {
							continue
						}
						if tvv, ok := p.Info.Types[kv.Value]; ok && tvv.Type != nil && isCfgHookType(tvv.Type) {
							*out = append(*out, hookSite{name, "Authenticator." + exprText(kv.Key), exprText(kv.Value), hookKind(p, fd, kv.Value)})
						}
					}
				}
				return true
			})
		}
	}
}

func isParam(p *loadedPkg, fd *ast.FuncDecl, v *types.Var) bool {
	if fd.Type.Params != nil {
		for _, f := range fd.Type.Params.List {
			for _, n := range f.Names {
				if p.Info.Defs[n] == types.Object(v) {
					return true
				}
			}
		}
	}
	return false
}

func localDef(p *loadedPkg, fd *ast.FuncDecl, v *types.Var) ast.Expr {
	var rhs ast.Expr
	ast.Inspect(fd, func(n ast.Node) bool {
		as, ok := n.(*ast.AssignStmt)
		if !ok || as.Tok != token.DEFINE {
			return true
		}
		for i, l := range as.Lhs {
			if id, ok := l.(*ast.Ident); ok && p.Info.Defs[id] == types.Object(v) && len(as.Rhs) == len(as.Lhs) {
				rhs = as.Rhs[i]
			}
		}
		return true
	})
	return rhs
}

// ---- stream send/receive split --------------------------------------------

type sacc struct{ method, field, rw string }

var sendRoots = []string{"SendMessage", "SendPartialMessage", "WriteMessage", "StartMessage", "EndMessage", "WriteFrame", "PutFile",
	"PutSecret", "PrepareCryptoForSecret", "RestoreCryptoAfterSecret", "CryptoForSecretIsNoop", "IsEncrypted"} // the message layer toggles crypto for secret fields on both paths
var recvRoots = []string{"ReceiveFrame", "ReceiveFrameWithEnd", "ReadFrame", "ReceiveCompleteMessage", "StartMessageRead", "ReadMessageBytes", "EndMessageRead", "GetFile",
	"GetSecret", "PrepareCryptoForSecret", "RestoreCryptoAfterSecret", "IsEncrypted"}

func streamSplit(p *loadedPkg) (send, recv []sacc, sendM, recvM []string, err error) {
	methods := map[string]*ast.FuncDecl{}
	for _, file := range p.Files {
		for _, d := range file.Decls {
			if fd, ok := d.(*ast.FuncDecl); ok && fd.Body != nil && fd.Recv != nil && strings.HasPrefix(funcKey(p, fd), "stream.Stream.") {
				methods[fd.Name.Name] = fd
			}
		}
	}
	accs := map[string][]sacc{}
	calls := map[string][]string{}
	for name, fd := range methods {
		w := writeTargets(fd.Body)
		// nil-guarded set-once: `if s.F != nil { return }` as first statement
		onceField := ""
		if len(fd.Body.List) > 0 {
			if is, ok := fd.Body.List[0].(*ast.IfStmt); ok && is.Init == nil && len(is.Body.List) == 1 {
				if _, isRet := is.Body.List[0].(*ast.ReturnStmt); isRet {
					if be, ok := is.Cond.(*ast.BinaryExpr); ok && be.Op == token.NEQ {
						if id, ok := be.Y.(*ast.Ident); ok && id.Name == "nil" {
							if sel, ok := be.X.(*ast.SelectorExpr); ok {
								onceField = sel.Sel.Name
							}
						}
					}
				}
			}
		}
		// accesses that can only happen before a handshake digest is finalised:
		// everything after a leading `if s.F != nil { return }` guard, and everything
		// inside an `if` whose condition requires `s.F == nil`
		preRanges := [][2]token.Pos{}
		if onceField != "" {
			preRanges = append(preRanges, [2]token.Pos{fd.Body.List[0].End(), fd.Body.End()})
		}
		ast.Inspect(fd.Body, func(n ast.Node) bool {
			if is, ok := n.(*ast.IfStmt); ok {
				nilReq := false
				ast.Inspect(is.Cond, func(x ast.Node) bool {
					if be, ok := x.(*ast.BinaryExpr); ok && be.Op == token.EQL {
						if id, ok := be.Y.(*ast.Ident); ok && id.Name == "nil" {
							if sel, ok := be.X.(*ast.SelectorExpr); ok && strings.HasPrefix(sel.Sel.Name, "final") {
								nilReq = true
							}
						}
					}
					return true
				})
				if nilReq {
					preRanges = append(preRanges, [2]token.Pos{is.Body.Pos(), is.Body.End()})
				}
			}
			return true
		})
		// accesses that only happen in the key-present / encryption-off mode, where the
		// crypto-for-secret toggle really switches the (single, per-stream) encryption flag:
		// inside `if ... !s.encrypted ...` of the toggle or `if s.cryptoToggledForSecret`
		modeRanges := [][2]token.Pos{}
		if strings.Contains(strings.ToLower(name), "secret") {
			ast.Inspect(fd.Body, func(n ast.Node) bool {
				if is, ok := n.(*ast.IfStmt); ok {
					txt := ""
					ast.Inspect(is.Cond, func(x ast.Node) bool {
						switch v := x.(type) {
						case *ast.UnaryExpr:
							if v.Op == token.NOT {
								txt += "!" + exprText(v.X) + " "
							}
						case *ast.SelectorExpr:
							txt += exprText(v) + " "
						}
						return true
					})
					if strings.Contains(txt, "!s.encrypted") || strings.Contains(txt, "s.cryptoToggledForSecret") {
						modeRanges = append(modeRanges, [2]token.Pos{is.Body.Pos(), is.Body.End()})
					}
				}
				return true
			})
		}
		isMode := func(pos token.Pos) bool {
			for _, r := range modeRanges {
				if pos >= r[0] && pos < r[1] {
					return true
				}
			}
			return false
		}
		isPre := func(pos token.Pos) bool {
			for _, r := range preRanges {
				if pos >= r[0] && pos < r[1] {
					return true
				}
			}
			return false
		}
		ast.Inspect(fd.Body, func(n ast.Node) bool {
			switch v := n.(type) {
			case *ast.SelectorExpr:
				s, ok := p.Info.Selections[v]
				if !ok {
					return true
				}
				nn := namedOf(s.Recv())
				if nn == nil || nn.Obj().Name() != "Stream" {
					return true
				}
				if s.Kind() == types.FieldVal {
					rw := "R"
					if w[v] {
						rw = "W"
					}
					if rw == "W" && v.Sel.Name == onceField {
						rw = "WOnce"
					} else if isPre(v.Pos()) {
						rw = "Pre" + rw
					} else if isMode(v.Pos()) {
						rw = "Mode" + rw
					}
					accs[name] = append(accs[name], sacc{name, v.Sel.Name, rw})
				} else if s.Kind() == types.MethodVal {
					calls[name] = append(calls[name], v.Sel.Name)
				}
			}
			return true
		})
	}
	closure := func(roots []string) ([]sacc, []string, error) {
		seen := map[string]bool{}
		var order []string
		var visit func(m string)
		visit = func(m string) {
			if seen[m] || methods[m] == nil {
				return
			}
			seen[m] = true
			order = append(order, m)
			for _, c := range calls[m] {
				visit(c)
			}
		}
		for _, r := range roots {
			if methods[r] == nil {
				return nil, nil, fmt.Errorf("stream entry point %s not found", r)
			}
			visit(r)
		}
		sort.Strings(order)
		set := map[sacc]bool{}
		var out []sacc
		for _, m := range order {
			for _, a := range accs[m] {
				k := sacc{"", a.field, a.rw}
				if !set[k] {
					set[k] = true
					out = append(out, sacc{m, a.field, a.rw})
				}
			}
		}
		return out, order, nil
	}
	send, sendM, err = closure(sendRoots)
	if err != nil {
		return
	}
	recv, recvM, err = closure(recvRoots)
	return
}

// keyInstallers: every function of package stream that installs a cipher (writes
// Stream.gcm) - from then on the stream may carry protected frames in both
// directions at once - together with whether it also freezes BOTH handshake digests
// (calls finalizeSendDigest and finalizeRecvDigest, directly or through
// FinalizeDigests, or assigns finalSendDigest and finalRecvDigest). The steady-state
// disjointness of the send and receive paths rests on that.
type keyInstaller struct {
	fn         string
	send, recv bool
}

func keyInstallers(p *loadedPkg) []keyInstaller {
	var out []keyInstaller
	for _, file := range p.Files {
		for _, d := range file.Decls {
			fd, ok := d.(*ast.FuncDecl)
			if !ok || fd.Body == nil {
				continue
			}
			w := writeTargets(fd.Body)
			installs, send, recv := false, false, false
			ast.Inspect(fd.Body, func(n ast.Node) bool {
				sel, ok := n.(*ast.SelectorExpr)
				if !ok {
					return true
				}
				s, ok := p.Info.Selections[sel]
				if !ok {
					return true
				}
				nn := namedOf(s.Recv())
				if nn == nil || nn.Obj().Name() != "Stream" {
					return true
				}
				switch s.Kind() {
				case types.FieldVal:
					if w[sel] {
						switch sel.Sel.Name {
						case "gcm":
							installs = true
						case "finalSendDigest":
							send = true
						case "finalRecvDigest":
							recv = true
						}
					}
				case types.MethodVal:
					switch sel.Sel.Name {
					case "finalizeSendDigest":
						send = true
					case "finalizeRecvDigest":
						recv = true
					case "FinalizeDigests":
						send, recv = true, true
					}
				}
				return true
			})
			if installs {
				out = append(out, keyInstaller{funcKey(p, fd), send, recv})
			}
		}
	}
	return out
}

// storePurge describes how SessionCache.Store guards its purge of the command
// mappings that point at the stored id: whether there is such a purge (a delete on
// commandMap inside Store), and whether the guarding condition(s) consult the
// PRESENCE of an old entry (comma-ok map read, len, nil test of the old value)
// rather than only its identity against the stored entry.
type storePurge struct{ present, presenceGuard, identityGuard bool }

func storePurgeFact(p *loadedPkg) storePurge {
	decls := map[*types.Func]*ast.FuncDecl{}
	var store *ast.FuncDecl
	for _, file := range p.Files {
		for _, d := range file.Decls {
			if fd, ok := d.(*ast.FuncDecl); ok && fd.Body != nil {
				if o, ok := p.Info.Defs[fd.Name].(*types.Func); ok {
					decls[o] = fd
				}
				if funcKey(p, fd) == "security.SessionCache.Store" {
					store = fd
				}
			}
		}
	}
	if store == nil {
		return storePurge{}
	}
	// scan reports how fd purges command mappings: by a delete on commandMap of its own or
	// through an unexported function of the package that does (the helper's own guards count
	// as guards of the purge, as do the guards around the call)
	var scan func(fd *ast.FuncDecl, seen map[*ast.FuncDecl]bool) storePurge
	scan = func(fd *ast.FuncDecl, seen map[*ast.FuncDecl]bool) storePurge {
		var out storePurge
		if seen[fd] {
			return out
		}
		seen[fd] = true
		par := map[ast.Node]ast.Node{}
		var stack []ast.Node
		ast.Inspect(fd.Body, func(n ast.Node) bool {
			if n == nil {
				stack = stack[:len(stack)-1]
				return true
			}
			if len(stack) > 0 {
				par[n] = stack[len(stack)-1]
			}
			stack = append(stack, n)
			return true
		})
		ast.Inspect(fd.Body, func(n ast.Node) bool {
			call, ok := n.(*ast.CallExpr)
			if !ok {
				return true
			}
			isPurge := false
			if id, ok := call.Fun.(*ast.Ident); ok && id.Name == "delete" && len(call.Args) > 0 && strings.HasSuffix(exprText(call.Args[0]), ".commandMap") {
				isPurge = true
			} else if callee, _ := calleeOf(p, call); callee != nil && !callee.Exported() && decls[callee] != nil {
				if sub := scan(decls[callee], seen); sub.present {
					isPurge = true
					out.presenceGuard = out.presenceGuard || sub.presenceGuard
					out.identityGuard = out.identityGuard || sub.identityGuard
				}
			}
			if !isPurge {
				return true
			}
			out.present = true
			// every enclosing if (other than the per-mapping `sessID == entry.id` test inside the range)
			for q := par[ast.Node(call)]; q != nil; q = par[q] {
				is, ok := q.(*ast.IfStmt)
				if !ok {
					continue
				}
				okNames := map[string]bool{}
				if as, ok := is.Init.(*ast.AssignStmt); ok && len(as.Lhs) == 2 {
					if nm, ok := as.Lhs[1].(*ast.Ident); ok {
						okNames[nm.Name] = true // comma-ok presence flag
					}
				}
				ast.Inspect(is.Cond, func(x ast.Node) bool {
					switch v := x.(type) {
					case *ast.Ident:
						if okNames[v.Name] || v.Name == "nil" {
							out.presenceGuard = true
						}
					case *ast.CallExpr:
						if f, ok := v.Fun.(*ast.Ident); ok && f.Name == "len" {
							out.presenceGuard = true
						}
					case *ast.BinaryExpr:
						if v.Op == token.NEQ && (exprText(v.X) == "entry" || exprText(v.Y) == "entry") {
							out.identityGuard = true
						}
					}
					return true
				})
			}
			return true
		})
		return out
	}
	return scan(store, map[*ast.FuncDecl]bool{})
}

// rootNames attributes an unexported function that has exactly one static caller in its
// package (and is never used as a value) to that caller, transitively: a site that moved
// into a helper carved out of F is still a site of F.
func rootNames(p *loadedPkg) map[string]string {
	la := newLockAnalysis(p)
	callers := map[*types.Func]map[string]bool{}
	var scan func(name string, body ast.Node)
	scan = func(name string, body ast.Node) {
		ast.Inspect(body, func(n ast.Node) bool {
			if call, ok := n.(*ast.CallExpr); ok {
				if callee, _ := calleeOf(p, call); callee != nil && la.eligible[callee] {
					if callers[callee] == nil {
						callers[callee] = map[string]bool{}
					}
					callers[callee][name] = true
				}
			}
			return true
		})
	}
	for _, fb := range la.bodies {
		scan(fb.name, fb.body)
	}
	parent := map[string]string{}
	for o, cs := range callers {
		if len(cs) == 1 {
			for c := range cs {
				if c != la.byObj[o].name {
					parent[la.byObj[o].name] = c
				}
			}
		}
	}
	root := map[string]string{}
	for _, fb := range la.bodies {
		n := fb.name
		for i := 0; i < 20; i++ {
			q, ok := parent[n]
			if !ok {
				break
			}
			n = q
		}
		root[fb.name] = n
	}
	return root
}

// ---- writes to byte slices that may alias cached session key material ----------
//
// A SessionEntry's key (KeyInfo.Data) is shared, without a lock, by every connection
// that resumes the session: it is immutable after construction. keyWrites records every
// in-place write to a byte slice (element / sub-slice assignment, clear, copy destination,
// zeroing loop, read-into call) whose target is rooted in a struct field or MAY ALIAS
// KeyInfo.Data, with that alias verdict. May-alias is a flow-insensitive taint over the
// package: sources are selections of KeyInfo.Data; it flows through assignments,
// re-slicing, append-to, slice conversions, composite literals, static calls (argument ->
// parameter) and returns (result of a function that returns an aliased slice); a fresh
// copy (append([]byte(nil), x...), bytes.Clone, make+copy) ends it.
type keyWrite struct {
	fn, what, target string
	aliased          bool
}

func isKeyData(p *loadedPkg, sel *ast.SelectorExpr) bool {
	s, ok := p.Info.Selections[sel]
	if !ok || s.Kind() != types.FieldVal || sel.Sel.Name != "Data" {
		return false
	}
	nn := namedOf(s.Recv())
	return nn != nil && nn.Obj().Name() == "KeyInfo"
}

func keyWrites(p *loadedPkg, out *[]keyWrite, aliases *[]string) {
	tainted := map[*types.Var]bool{}
	taintedRet := map[*types.Func]bool{}
	isSlice := func(e ast.Expr) bool {
		tv, ok := p.Info.Types[e]
		if !ok || tv.Type == nil {
			return false
		}
		_, ok = tv.Type.Underlying().(*types.Slice)
		return ok
	}
	var isT func(e ast.Expr) bool
	isT = func(e ast.Expr) bool {
		switch v := ast.Unparen(e).(type) {
		case *ast.SliceExpr:
			return isT(v.X)
		case *ast.Ident:
			if o, ok := p.Info.Uses[v].(*types.Var); ok {
				return tainted[o]
			}
			if o, ok := p.Info.Defs[v].(*types.Var); ok {
				return tainted[o]
			}
		case *ast.SelectorExpr:
			if isKeyData(p, v) {
				return true
			}
			if s, ok := p.Info.Selections[v]; ok && s.Kind() == types.FieldVal {
				if o, ok := s.Obj().(*types.Var); ok {
					return tainted[o]
				}
			}
		case *ast.CallExpr:
			if id, ok := v.Fun.(*ast.Ident); ok && id.Name == "append" && len(v.Args) > 0 {
				if _, isB := p.Info.Uses[id].(*types.Builtin); isB {
					return isT(v.Args[0])
				}
			}
			if tv, ok := p.Info.Types[v.Fun]; ok && tv.IsType() && len(v.Args) == 1 {
				return isSlice(v.Args[0]) && isT(v.Args[0]) // []byte(x) of a slice shares the array
			}
			if callee, _ := calleeOf(p, v); callee != nil {
				return taintedRet[callee]
			}
		}
		return false
	}
	changed := true
	mark := func(l ast.Expr) {
		switch v := ast.Unparen(l).(type) {
		case *ast.Ident:
			var o *types.Var
			if d, ok := p.Info.Defs[v].(*types.Var); ok {
				o = d
			} else if u, ok := p.Info.Uses[v].(*types.Var); ok {
				o = u
			}
			if o != nil && !tainted[o] {
				tainted[o] = true
				changed = true
			}
		case *ast.SelectorExpr:
			if s, ok := p.Info.Selections[v]; ok && s.Kind() == types.FieldVal {
				if o, ok := s.Obj().(*types.Var); ok && !tainted[o] {
					tainted[o] = true
					changed = true
				}
			}
		}
	}
	type fnDecl struct {
		name string
		fd   *ast.FuncDecl
		obj  *types.Func
	}
	var fns []fnDecl
	for _, file := range p.Files {
		for _, d := range file.Decls {
			if fd, ok := d.(*ast.FuncDecl); ok && fd.Body != nil {
				o, _ := p.Info.Defs[fd.Name].(*types.Func)
				fns = append(fns, fnDecl{funcKey(p, fd), fd, o})
			}
		}
	}
	for iter := 0; changed && iter < 50; iter++ {
		changed = false
		for _, f := range fns {
			ast.Inspect(f.fd.Body, func(n ast.Node) bool {
				switch v := n.(type) {
				case *ast.AssignStmt:
					if len(v.Lhs) == len(v.Rhs) {
						for i := range v.Lhs {
							if isSlice(v.Rhs[i]) && isT(v.Rhs[i]) {
								mark(v.Lhs[i])
							}
						}
					}
				case *ast.ValueSpec:
					if len(v.Names) == len(v.Values) {
						for i := range v.Names {
							if isSlice(v.Values[i]) && isT(v.Values[i]) {
								mark(v.Names[i])
							}
						}
					}
				case *ast.KeyValueExpr:
					if k, ok := v.Key.(*ast.Ident); ok && isSlice(v.Value) && isT(v.Value) {
						if o, ok := p.Info.Uses[k].(*types.Var); ok && o.IsField() && !tainted[o] {
							tainted[o] = true
							changed = true
						}
					}
				case *ast.ReturnStmt:
					for _, r := range v.Results {
						if f.obj != nil && isSlice(r) && isT(r) && !taintedRet[f.obj] {
							taintedRet[f.obj] = true
							changed = true
						}
					}
				case *ast.CallExpr:
					if callee, _ := calleeOf(p, v); callee != nil && callee.Pkg() == p.Types {
						if sig, ok := callee.Type().(*types.Signature); ok {
							for i, a := range v.Args {
								if !isSlice(a) || !isT(a) {
									continue
								}
								j := i
								if j >= sig.Params().Len() {
									j = sig.Params().Len() - 1
								}
								if j >= 0 {
									if o := sig.Params().At(j); !tainted[o] {
										tainted[o] = true
										changed = true
									}
								}
							}
						}
					}
				}
				return true
			})
		}
	}
	var al []string
	for o := range tainted {
		if o.IsField() {
			al = append(al, o.Name())
		}
	}
	sort.Strings(al)
	*aliases = append(*aliases, al...)
	fieldRooted := func(e ast.Expr) bool {
		for {
			switch v := ast.Unparen(e).(type) {
			case *ast.SliceExpr:
				e = v.X
				continue
			case *ast.SelectorExpr:
				s, ok := p.Info.Selections[v]
				return ok && s.Kind() == types.FieldVal
			}
			return false
		}
	}
	isBytes := func(e ast.Expr) bool {
		tv, ok := p.Info.Types[e]
		if !ok || tv.Type == nil {
			return false
		}
		sl, ok := tv.Type.Underlying().(*types.Slice)
		if !ok {
			return false
		}
		b, ok := sl.Elem().Underlying().(*types.Basic)
		return ok && b.Kind() == types.Uint8
	}
	for _, f := range fns {
		rec := func(what string, target ast.Expr) {
			if !isBytes(target) {
				return
			}
			al := isT(target)
			if al || fieldRooted(target) {
				*out = append(*out, keyWrite{f.name, what, exprText(target), al})
			}
		}
		ast.Inspect(f.fd.Body, func(n ast.Node) bool {
			switch v := n.(type) {
			case *ast.AssignStmt:
				for _, l := range v.Lhs {
					if ix, ok := ast.Unparen(l).(*ast.IndexExpr); ok {
						rec("element-assign", ix.X)
					}
				}
			case *ast.IncDecStmt:
				if ix, ok := ast.Unparen(v.X).(*ast.IndexExpr); ok {
					rec("element-assign", ix.X)
				}
			case *ast.CallExpr:
				if id, ok := v.Fun.(*ast.Ident); ok && len(v.Args) > 0 {
					if _, isB := p.Info.Uses[id].(*types.Builtin); isB && (id.Name == "clear" || id.Name == "copy") {
						rec(id.Name, v.Args[0])
					}
				}
				if callee, _ := calleeOf(p, v); callee != nil && callee.Pkg() != p.Types {
					switch callee.Name() {
					case "Read", "ReadFull", "ReadAtLeast", "XORKeyStream", "XORBytes", "PutUint32", "PutUint64", "PutUint16":
						for _, a := range v.Args {
							if isBytes(a) && isT(a) {
								rec("written-by-"+callee.Name(), a)
							}
						}
					}
				}
			}
			return true
		})
	}
}

// ---- broker stream I/O -----------------------------------------------------

type brokerIO struct {
	fn, callee, origin string
	held               []lockHeld
}

func brokerWalk(p *loadedPkg, out *[]brokerIO) {
	for _, file := range p.Files {
		for _, d := range file.Decls {
			fd, ok := d.(*ast.FuncDecl)
			if !ok || fd.Body == nil || !strings.HasPrefix(funcKey(p, fd), "ccb.brokerReg.") {
				continue
			}
			name := funcKey(p, fd)
			var accs []access
			// reuse the lock walk to know the held set at each call: walk calls in order
			var held []lockHeld
			deferred := map[*ast.CallExpr]bool{}
			ast.Inspect(fd.Body, func(n ast.Node) bool {
				switch v := n.(type) {
				case *ast.FuncLit:
					return false
				case *ast.DeferStmt:
					deferred[v.Call] = true
				case *ast.CallExpr:
					if sel, ok := v.Fun.(*ast.SelectorExpr); ok {
						if inner, ok := ast.Unparen(sel.X).(*ast.SelectorExpr); ok {
							if s, ok := p.Info.Selections[inner]; ok && s.Kind() == types.FieldVal && (s.Type().String() == "sync.Mutex" || s.Type().String() == "sync.RWMutex") {
								lk := lockHeld{"brokerReg." + inner.Sel.Name, exprText(inner.X), "MW"}
								switch sel.Sel.Name {
								case "Lock":
									held = append(held, lk)
								case "Unlock":
									if !deferred[v] {
										for i := len(held) - 1; i >= 0; i-- {
											if held[i].name == lk.name {
												held = append(held[:i:i], held[i+1:]...)
												break
											}
										}
									}
								}
							}
						}
					}
					if id, ok := v.Fun.(*ast.Ident); ok && (id.Name == "WriteControlAd" || id.Name == "ReadControlAd") && len(v.Args) >= 2 {
						origin := "SLocal"
						arg := ast.Unparen(v.Args[1])
						if exprText(arg) == "r.stream" {
							origin = "SField"
						} else if aid, ok := arg.(*ast.Ident); ok {
							if vo, ok := p.Info.Uses[aid].(*types.Var); ok {
								if def := localDef(p, fd, vo); def != nil && exprText(def) == "r.stream" {
									origin = "SField"
								}
							}
						}
						*out = append(*out, brokerIO{name, id.Name, origin, append([]lockHeld(nil), held...)})
					}
				}
				return true
			})
			_ = accs
		}
	}
}

// ---- output ---------------------------------------------------------------

func coqStr(s string) string { return `"` + strings.ReplaceAll(s, `"`, `""`) + `"` }

func heldTerm(h []lockHeld) string {
	var xs []string
	for _, l := range h {
		xs = append(xs, fmt.Sprintf("(%s, %s, %s)", coqStr(l.name), coqStr(l.base), l.mode))
	}
	return "[" + strings.Join(xs, "; ") + "]"
}

func libPackages() ([]string, error) {
	// library packages whose NewAuthenticator call sites matter (not cmd/, examples/, internal/)
	return []string{"security", "client", "server", "ccb", "stream", "message"}, nil
}

func factsC17(b *strings.Builder) error {
	fset := token.NewFileSet()
	subs, _ := libPackages()
	pk, err := loadPkgs(fset, subs)
	if err != nil {
		return err
	}
	sec, ccb, str := pk["security"], pk["ccb"], pk["stream"]
	var accs []access
	var css []csFact
	var vfs []varFact
	var cops []counterOps
	vars := map[types.Object]bool{}
	for i, file := range sec.Files {
		if sec.Names[i] != "session_manager.go" {
			continue
		}
		for _, d := range file.Decls {
			if gd, ok := d.(*ast.GenDecl); ok && gd.Tok == token.VAR {
				for _, sp := range gd.Specs {
					for _, n := range sp.(*ast.ValueSpec).Names {
						if o := sec.Info.Defs[n]; o != nil && o.Type().String() != "sync.Once" {
							vars[o] = true
						}
					}
				}
			}
		}
	}
	for _, file := range sec.Files {
		for _, d := range file.Decls {
			fd, ok := d.(*ast.FuncDecl)
			if !ok || fd.Body == nil {
				continue
			}
			varWalk(sec, funcKey(sec, fd), fd, vars, &vfs, &cops)
		}
	}
	secLA := newLockAnalysis(sec)
	accs = secLA.solve(map[string]bool{"SessionCache": true, "SessionEntry": true})
	helpers := secLA.helpers(accs)
	secLA.csFacts(map[string]bool{"SessionCache": true}, &css)
	nCache := len(accs)
	ccbLA := newLockAnalysis(ccb)
	ccbAccs := ccbLA.solve(map[string]bool{"brokerReg": true})
	accs = append(accs, ccbAccs...)
	helpers = append(helpers, ccbLA.helpers(ccbAccs)...)
	if nCache == 0 || len(accs) == nCache {
		return fmt.Errorf("no SessionCache/SessionEntry or brokerReg field access found: the anchored code moved")
	}
	var sites []authSite
	for _, s := range []string{"security", "client", "server", "ccb"} {
		authSites(pk[s], &sites)
	}
	if len(sites) == 0 {
		return fmt.Errorf("no call site of security.NewAuthenticator found")
	}
	var hooks []hookSite
	for _, s := range []string{"security", "client", "server", "ccb"} {
		hookSites(pk[s], &hooks)
	}
	var bio []brokerIO
	brokerWalk(ccb, &bio)
	send, recv, sendM, recvM, err := streamSplit(str)
	if err != nil {
		return err
	}
	b.WriteString("(* GENERATED by harness/cmd/vh-c17 facts from /repo's current source. Do not edit. *)\n")
	b.WriteString("From Coq Require Import List String.\nFrom Cedar Require Import Model.Lockset Model.LocksetFacts.\nImport ListNotations.\nLocal Open Scope string_scope.\n\n")
	b.WriteString("Definition lock_facts : list lock_fact := [\n")
	for i, a := range accs {
		sep := ";"
		if i == len(accs)-1 {
			sep = ""
		}
		fmt.Fprintf(b, "  mk_lf %s %s A%s %s %s%s\n", coqStr(a.fn), coqStr(a.field), a.rw, coqStr(a.base), heldTerm(a.held), sep)
	}
	b.WriteString("].\n\n(* unexported functions entered with a lockset: the claimed entry lockset and the lockset held at every static call site (in the callee's names) *)\nDefinition helper_facts : list helper_fact := [\n")
	for i, h := range helpers {
		sep := ";"
		if i == len(helpers)-1 {
			sep = ""
		}
		var ss []string
		for _, c := range h.sites {
			ss = append(ss, fmt.Sprintf("(%s, %s)", coqStr(c.caller), heldTerm(c.held)))
		}
		fmt.Fprintf(b, "  mk_hf %s %s [%s]%s\n", coqStr(h.fn), heldTerm(h.entry), strings.Join(ss, "; "), sep)
	}
	b.WriteString("].\n\nDefinition cs_facts : list cs_fact := [\n")
	for i, c := range css {
		sep := ";"
		if i == len(css)-1 {
			sep = ""
		}
		fmt.Fprintf(b, "  mk_cs %s %s %d %s%s\n", coqStr(c.fn), coqStr(c.lock), c.regions, map[bool]string{true: "true", false: "false"}[c.writes], sep)
	}
	b.WriteString("].\n\nDefinition var_facts : list var_fact := [\n")
	for i, v := range vfs {
		sep := ";"
		if i == len(vfs)-1 {
			sep = ""
		}
		fmt.Fprintf(b, "  mk_vf %s %s A%s %s%s\n", coqStr(v.fn), coqStr(v.v), v.rw, v.kind, sep)
	}
	b.WriteString("].\n\nDefinition counter_progs : list counter_prog := [\n")
	for i, c := range cops {
		sep := ";"
		if i == len(cops)-1 {
			sep = ""
		}
		fmt.Fprintf(b, "  mk_cp %s %s [%s]%s\n", coqStr(c.fn), coqStr(c.v), strings.Join(c.ops, "; "), sep)
	}
	b.WriteString("].\n\nDefinition slice_muts : list slice_mut := [\n")
	var sms []sliceMut
	for _, sp := range []string{"security", "client", "server", "ccb"} {
		sliceMuts(pk[sp], &sms)
	}
	for i, m := range sms {
		sep := ";"
		if i == len(sms)-1 {
			sep = ""
		}
		fmt.Fprintf(b, "  mk_sm %s %s %s%s\n", coqStr(m.fn), coqStr(m.what), coqStr(m.base), sep)
	}
	b.WriteString("].\n\n")
	var kws []keyWrite
	var kal []string
	for _, sp := range []string{"security", "client", "server", "ccb"} {
		keyWrites(pk[sp], &kws, &kal)
	}
	{
		var q []string
		for _, x := range kal {
			q = append(q, coqStr(x))
		}
		fmt.Fprintf(b, "(* informational: struct fields that may alias a cached session key *)\nDefinition key_alias_fields : list string := [%s].\n\n", strings.Join(q, "; "))
	}
	b.WriteString("(* in-place writes to byte slices rooted in a struct field or possibly aliasing a cached session key (KeyInfo.Data) *)\nDefinition key_writes : list key_write := [\n")
	for i, k := range kws {
		sep := ";"
		if i == len(kws)-1 {
			sep = ""
		}
		fmt.Fprintf(b, "  mk_kw %s %s %s %v%s\n", coqStr(k.fn), coqStr(k.what), coqStr(k.target), k.aliased, sep)
	}
	b.WriteString("].\n\nDefinition auth_sites : list auth_site := [\n")
	for i, s := range sites {
		sep := ";"
		if i == len(sites)-1 {
			sep = ""
		}
		fmt.Fprintf(b, "  mk_as %s %s %s%s\n", coqStr(s.fn), coqStr(s.arg), s.kind, sep)
	}
	b.WriteString("].\n\nDefinition hook_sites : list hook_site := [\n")
	for i, h := range hooks {
		sep := ";"
		if i == len(hooks)-1 {
			sep = ""
		}
		fmt.Fprintf(b, "  mk_hs %s %s %s %s%s\n", coqStr(h.fn), coqStr(h.field), coqStr(h.rhs), h.kind, sep)
	}
	b.WriteString("].\n\nDefinition broker_io : list broker_fact := [\n")
	for i, s := range bio {
		sep := ";"
		if i == len(bio)-1 {
			sep = ""
		}
		fmt.Fprintf(b, "  mk_bf %s %s %s %s%s\n", coqStr(s.fn), coqStr(s.callee), s.origin, heldTerm(s.held), sep)
	}
	b.WriteString("].\n\n")
	emit := func(name string, xs []sacc) {
		fmt.Fprintf(b, "Definition %s : list stream_acc := [\n", name)
		for i, a := range xs {
			sep := ";"
			if i == len(xs)-1 {
				sep = ""
			}
			fmt.Fprintf(b, "  mk_sa %s %s S%s%s\n", coqStr(a.method), coqStr(a.field), a.rw, sep)
		}
		b.WriteString("].\n")
	}
	sp := storePurgeFact(sec)
	fmt.Fprintf(b, "Definition store_purge : store_purge_fact := mk_sp %v %v %v.\n\n", sp.present, sp.presenceGuard, sp.identityGuard)
	b.WriteString("Definition key_installers : list key_installer := [\n")
	kis := keyInstallers(str)
	for i, k := range kis {
		sep := ";"
		if i == len(kis)-1 {
			sep = ""
		}
		fmt.Fprintf(b, "  mk_ki %s %v %v%s\n", coqStr(k.fn), k.send, k.recv, sep)
	}
	b.WriteString("].\n")
	emit("stream_send", send)
	emit("stream_recv", recv)
	strs := func(xs []string) string {
		var q []string
		for _, x := range xs {
			q = append(q, coqStr(x))
		}
		return "[" + strings.Join(q, "; ") + "]"
	}
	fmt.Fprintf(b, "Definition stream_send_methods : list string := %s.\nDefinition stream_recv_methods : list string := %s.\n", strs(sendM), strs(recvM))
	return nil
}
